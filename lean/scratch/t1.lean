import MdsVerif.Spec.Mdiff
import MdsVerif.Spec.EditScript
open MdsVerif.Model.Edit MdsVerif.Model.Mdiff MdsVerif.Spec.Mdiff MdsVerif.Spec

#eval (new ([3,2]:List Nat) [3,3,2,2]).chunks
#eval (addContextWith false ([3,2]:List Nat) [3,3,2,2] 4 (new ([3,2]:List Nat) [3,3,2,2]).chunks)
#eval (addContextWith true ([3,2]:List Nat) [3,3,2,2] 4 (new ([3,2]:List Nat) [3,3,2,2]).chunks)
#eval (addContextWith false ([3,2]:List Nat) [3,3,2,2] 4 (new ([3,2]:List Nat) [3,3,2,2]).chunks).map (fun cs => (unifyChunks cs).toOption.map (fun u => (u, decide (AllOK u [3,2] [3,3,2,2]))))
#eval (addContextWith true ([3,2]:List Nat) [3,3,2,2] 4 (new ([3,2]:List Nat) [3,3,2,2]).chunks).map (fun cs => (unifyChunks cs).toOption.map (fun u => (u, decide (AllOK u [3,2] [3,3,2,2]))))

set_option maxRecDepth 4000 in
theorem C13_pinned_F4_witness :
    (addContextWith false ([3,2] : List Nat) [3,3,2,2] 4 (new ([3,2] : List Nat) [3,3,2,2]).chunks).map
      (fun cs => (unifyChunks cs).toOption.map (fun u => decide (AllOK u [3,2] [3,3,2,2])))
    = some (some false) := by decide
set_option maxRecDepth 4000 in
theorem C13_F4_fixed :
    (addContextWith true ([3,2] : List Nat) [3,3,2,2] 4 (new ([3,2] : List Nat) [3,3,2,2]).chunks).map
      (fun cs => (unifyChunks cs).toOption.map (fun u => decide (AllOK u [3,2] [3,3,2,2])))
    = some (some true) := by decide
