import MdsVerif.Driver
def main (args : List String) : IO UInt32 := MdsVerif.Drv.main args
