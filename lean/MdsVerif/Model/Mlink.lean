import MdsVerif.Gen.MlinkQueue
/-!
# Model of `mlink.List`, `mlink.Cursor`, `mlink.Queue` (mlink/{mlink,list,queue}.go)

Pointer structure → explicit heap.  A heap is two parallel lists (`vals`,
`links`); cell `i` is the Go `entry{X: vals[i], link: links[i]}`, a link is
`none` (nil) or `some j` (pointer to cell `j`).  Cell 0 is the list's sentinel
`lst.first`.  A `Cursor` is the index of its `pred` cell.  A detached entry is
self-linked (`links[i] = some i`).  Go's garbage is never reclaimed: `alloc`
appends.

Results are `ok v | panic h p | hang`: `panic` carries the heap and the cursor's
`pred` *at the moment of the panic* (so "a refused call changes nothing" is a
statement, not an artefact); `hang` is fuel exhaustion of a loop — shown
impossible on well-formed heaps in `Proofs/Mlink.lean`.
-/
namespace MdsVerif.Model.Mlink

structure Heap where
  vals : List Int
  links : List (Option Nat)
deriving Repr, DecidableEq

namespace Heap
def size (h : Heap) : Nat := h.links.length
def link (h : Heap) (i : Nat) : Option Nat := h.links.getD i none
def val (h : Heap) (i : Nat) : Int := h.vals.getD i 0
def setLink (h : Heap) (i : Nat) (l : Option Nat) : Heap := { h with links := h.links.set i l }
def setVal (h : Heap) (i : Nat) (v : Int) : Heap := { h with vals := h.vals.set i v }
/-- `&entry[T]{X: v, link: l}` -/
def alloc (h : Heap) (v : Int) (l : Option Nat) : Heap × Nat :=
  ({ vals := h.vals ++ [v], links := h.links ++ [l] }, h.links.length)
/-- the zero `List`: only the sentinel, `first.link == nil` -/
def empty : Heap := { vals := [0], links := [none] }
end Heap

inductive Res (β : Type) where
  | ok (v : β)
  /-- `panic("invalid cursor")`, with the heap and the cursor's `pred` at that moment -/
  | panic (h : Heap) (p : Nat)
  | hang
deriving Repr, DecidableEq

def Res.bind {β γ : Type} : Res β → (β → Res γ) → Res γ
  | .ok v, f => f v
  | .panic h p, _ => .panic h p
  | .hang, _ => .hang

instance : Monad Res where
  pure := .ok
  bind := Res.bind

/-- `e.link == e` -/
def invalid (h : Heap) (p : Nat) : Bool := h.link p == some p

/-- the target of `pred.link` when it is not nil -/
def tgt (h : Heap) (p : Nat) : Nat := (h.link p).getD 0

/-! ## Cursor methods: `(h, p)` is the heap and `c.pred` -/

/-- `AtEnd`: `c.pred.checkValid().link == nil` -/
def atEnd (h : Heap) (p : Nat) : Res Bool :=
  if invalid h p then .panic h p else .ok (h.link p).isNone

/-- `Get` -/
def get (h : Heap) (p : Nat) : Res Int :=
  (atEnd h p).bind fun e =>
  if e then .ok 0 else
  if invalid h p then .panic h p else .ok (h.val (tgt h p))

/-- `Set` -/
def set (h : Heap) (p : Nat) (v : Int) : Res Heap :=
  (atEnd h p).bind fun e =>
  if e then
    let (h1, a) := h.alloc v none
    .ok (h1.setLink p (some a))
  else
    if invalid h p then .panic h p else .ok (h.setVal (tgt h p) v)

/-- `Next`: returns the new `pred` and the reported boolean -/
def next (h : Heap) (p : Nat) : Res (Nat × Bool) :=
  (atEnd h p).bind fun e =>
  if e then .ok (p, false) else
  let p' := tgt h p
  (atEnd h p').bind fun e' => .ok (p', !e')

/-- `Push` -/
def push (h : Heap) (p : Nat) (v : Int) : Res Heap :=
  if invalid h p then .panic h p else
  let (h1, a) := h.alloc v (h.link p)
  .ok (h1.setLink p (some a))

/-- `Add(vs...)`: `Push; Next` per value -/
def add (h : Heap) (p : Nat) : List Int → Res (Heap × Nat)
  | [] => .ok (h, p)
  | v :: vs =>
    (push h p v).bind fun h1 =>
    (next h1 p).bind fun r =>
    add h1 r.1 vs

/-- `Remove` -/
def remove (h : Heap) (p : Nat) : Res (Heap × Int) :=
  (atEnd h p).bind fun e =>
  if e then .ok (h, 0) else
  let t := tgt h p
  let val := h.val t
  let nx := h.link t
  -- `c.pred.link.link = c.pred.link`: unconditional in list.go (`Gen.MlinkQueue.removeSelfLinksAlways`;
  -- the other recognised shape guards it with `if next != nil`)
  let h1 := if Gen.MlinkQueue.removeSelfLinksAlways || nx.isSome then h.setLink t (some t) else h
  .ok (h1.setLink p nx, val)

/-- `entry.invalidate`: `for e != nil { next := e.link; e.link = e; e = next }` -/
def invalidate : Nat → Heap → Option Nat → Res Heap
  | 0, _, _ => .hang
  | _ + 1, h, none => .ok h
  | f + 1, h, some e => invalidate f (h.setLink e (some e)) (h.link e)

/-- `Truncate` as it is now (after the F7 repair): `c.pred.checkValid().link.invalidate(); c.pred.link = nil` -/
def truncate (h : Heap) (p : Nat) : Res Heap :=
  if Gen.MlinkQueue.truncateInvalidatesFirst then
    if invalid h p then .panic h p else
    (invalidate (h.size + 1) h (h.link p)).bind fun h1 => .ok (h1.setLink p none)
  else
    -- the other recognised order, `c.pred.link = nil; c.pred.checkValid().link.invalidate()`: after the cut the
    -- entry is not self-linked and there is nothing left to invalidate
    .ok (h.setLink p none)

/-- `Truncate` before the repair (no `checkValid`), with explicit fuel — kept for the F7 regression theorem -/
def truncateUnfixed (fuel : Nat) (h : Heap) (p : Nat) : Res Heap :=
  (invalidate fuel h (h.link p)).bind fun h1 => .ok (h1.setLink p none)

/-! ## List methods: the local cursor starts at `cfirst()` = the sentinel, cell 0 -/

def isEmpty (h : Heap) : Bool := (h.link 0).isNone

/-- `Clear` -/
def clear (h : Heap) : Res Heap :=
  (invalidate (h.size + 1) h (h.link 0)).bind fun h1 => .ok (h1.setLink 0 none)

/-- `Each`: `for cur := cfirst(); !cur.AtEnd(); cur.Next() { if !f(cur.Get()) return }`;
`stop = some k`: the callback returns false on its `k+1`-st call; `none`: never -/
def eachLoop : Nat → Heap → Nat → Option Nat → Res (List Int)
  | 0, _, _, _ => .hang
  | f + 1, h, p, stop =>
    (atEnd h p).bind fun e =>
    if e then .ok [] else
    (get h p).bind fun v =>
    if stop = some 0 then .ok [v] else
    (next h p).bind fun r =>
    (eachLoop f h r.1 (stop.map (· - 1))).bind fun l => .ok (v :: l)

def each (h : Heap) (stop : Option Nat) : Res (List Int) := eachLoop (h.size + 1) h 0 stop

/-- `Len`: counts the calls of a never-stopping `Each` -/
def len (h : Heap) : Res Nat := (each h none).bind fun l => .ok l.length

/-- `At(n)`, `n ≥ 0`: `for ; !cur.AtEnd(); cur.Next() { if n == 0 break; n-- }` -/
def atLoop : Nat → Heap → Nat → Nat → Res Nat
  | 0, _, _, _ => .hang
  | f + 1, h, p, n =>
    (atEnd h p).bind fun e =>
    if e then .ok p else
    if n = 0 then .ok p else
    (next h p).bind fun r => atLoop f h r.1 (n - 1)

def at_ (h : Heap) (n : Nat) : Res Nat := atLoop (h.size + 1) h 0 n

/-- `Peek(n)`, `n ≥ 0`: `cur := At(n); return cur.Get(), !cur.AtEnd()` -/
def peek (h : Heap) (n : Nat) : Res (Int × Bool) :=
  (at_ h n).bind fun p =>
  (get h p).bind fun v =>
  (atEnd h p).bind fun e => .ok (v, !e)

/-- `Last`: `if !cur.AtEnd() { for cur.pred.link.link != nil { cur.Next() } }` -/
def lastLoop : Nat → Heap → Nat → Res Nat
  | 0, _, _ => .hang
  | f + 1, h, p =>
    if (h.link (tgt h p)).isSome then
      (next h p).bind fun r => lastLoop f h r.1
    else .ok p

def last (h : Heap) : Res Nat :=
  (atEnd h 0).bind fun e =>
  if e then .ok 0 else lastLoop (h.size + 1) h 0

/-- `End`: `c := Last(); c.Next(); return c` -/
def end_ (h : Heap) : Res Nat :=
  (last h).bind fun p => (next h p).bind fun r => .ok r.1

/-- `Find(func(x) bool { return x == v })` -/
def findLoop : Nat → Heap → Nat → Int → Res Nat
  | 0, _, _, _ => .hang
  | f + 1, h, p, v =>
    (atEnd h p).bind fun e =>
    if e then .ok p else
    (get h p).bind fun x =>
    if x = v then .ok p else
    (next h p).bind fun r => findLoop f h r.1 v

def find (h : Heap) (v : Int) : Res Nat := findLoop (h.size + 1) h 0 v

/-! ## A list with cursor registers (stream `C10.mlink`) -/

/-- one list and the `*Cursor` variables of the test program: `none` = not yet assigned -/
structure St where
  h : Heap := Heap.empty
  regs : List (Option Nat) := [none, none, none, none]
deriving Repr, DecidableEq

inductive Op where
  | at_ (c : Nat) (n : Int) | find (c : Nat) (v : Int) | last (c : Nat) | end_ (c : Nat) | copy (c d : Nat)
  | push (c : Nat) (v : Int) | add (c : Nat) (vs : List Int) | set (c : Nat) (v : Int)
  | remove (c : Nat) | truncate (c : Nat) | next (c : Nat) | get (c : Nat) | atEnd (c : Nat)
  | clear | peek (n : Int) | each (k : Nat) | len | isEmpty
deriving Repr

inductive Out where
  | unit | val (v : Int) | bool (b : Bool) | pair (v : Int) (ok : Bool) | list (l : List Int) | nat (n : Nat)
  | panicInvalid | panicIndex | hang | unset
deriving Repr, DecidableEq

def St.reg (s : St) (c : Nat) : Option Nat := (s.regs.getD c none)
def St.setReg (s : St) (c : Nat) (p : Nat) : St := { s with regs := s.regs.set c (some p) }

/-- a call that yields a fresh cursor stored in register `c` -/
def mkCursor (s : St) (c : Nat) : Res Nat → St × Out
  | .ok p => (s.setReg c p, .unit)
  | .panic _ _ => (s, .panicInvalid)   -- the local cursor of a List method is discarded
  | .hang => (s, .hang)

/-- a call through the cursor in register `c` -/
def withCursor (s : St) (c : Nat) (f : Heap → Nat → St × Out) : St × Out :=
  match s.reg c with
  | none => (s, .unset)
  | some p => f s.h p

def step (s : St) : Op → St × Out
  | .at_ c n => if n < 0 then (s, .panicIndex) else mkCursor s c (at_ s.h n.toNat)
  | .find c v => mkCursor s c (find s.h v)
  | .last c => mkCursor s c (last s.h)
  | .end_ c => mkCursor s c (end_ s.h)
  | .copy c d => match s.reg d with
    | none => (s, .unset)
    | some p => (s.setReg c p, .unit)
  | .push c v => withCursor s c fun h p => match push h p v with
    | .ok h' => ({ s with h := h' }, .unit)
    | .panic h' p' => ({ s with h := h' }.setReg c p', .panicInvalid)
    | .hang => (s, .hang)
  | .add c vs => withCursor s c fun h p => match add h p vs with
    | .ok (h', p') => ({ s with h := h' }.setReg c p', .unit)
    | .panic h' p' => ({ s with h := h' }.setReg c p', .panicInvalid)
    | .hang => (s, .hang)
  | .set c v => withCursor s c fun h p => match set h p v with
    | .ok h' => ({ s with h := h' }, .unit)
    | .panic h' p' => ({ s with h := h' }.setReg c p', .panicInvalid)
    | .hang => (s, .hang)
  | .remove c => withCursor s c fun h p => match remove h p with
    | .ok (h', v) => ({ s with h := h' }, .val v)
    | .panic h' p' => ({ s with h := h' }.setReg c p', .panicInvalid)
    | .hang => (s, .hang)
  | .truncate c => withCursor s c fun h p => match truncate h p with
    | .ok h' => ({ s with h := h' }, .unit)
    | .panic h' p' => ({ s with h := h' }.setReg c p', .panicInvalid)
    | .hang => (s, .hang)
  | .next c => withCursor s c fun h p => match next h p with
    | .ok (p', b) => (s.setReg c p', .bool b)
    | .panic h' p' => ({ s with h := h' }.setReg c p', .panicInvalid)
    | .hang => (s, .hang)
  | .get c => withCursor s c fun h p => match get h p with
    | .ok v => (s, .val v)
    | .panic _ _ => (s, .panicInvalid)
    | .hang => (s, .hang)
  | .atEnd c => withCursor s c fun h p => match atEnd h p with
    | .ok b => (s, .bool b)
    | .panic _ _ => (s, .panicInvalid)
    | .hang => (s, .hang)
  | .clear => match clear s.h with
    | .ok h' => ({ s with h := h' }, .unit)
    | .panic h' _ => ({ s with h := h' }, .panicInvalid)
    | .hang => (s, .hang)
  | .peek n => if n < 0 then (s, .panicIndex) else match peek s.h n.toNat with
    | .ok (v, b) => (s, .pair v b)
    | .panic _ _ => (s, .panicInvalid)
    | .hang => (s, .hang)
  | .each k => match each s.h (some k) with
    | .ok l => (s, .list l)
    | .panic _ _ => (s, .panicInvalid)
    | .hang => (s, .hang)
  | .len => match len s.h with
    | .ok n => (s, .nat n)
    | .panic _ _ => (s, .panicInvalid)
    | .hang => (s, .hang)
  | .isEmpty => (s, .bool (isEmpty s.h))

def run (s : St) : List Op → List Out
  | [] => []
  | op :: ops => let (s', o) := step s op; o :: run s' ops

/-! ## `mlink.Queue` (stream `C10.mlinkq`) -/

/-- `Queue{list, back, size}`; `back = none` is the zero value's `back.pred == nil` -/
structure Q where
  h : Heap := Heap.empty
  back : Option Nat := none
  size : Int := 0
deriving Repr, DecidableEq

/-- `NewQueue()` -/
def Q.new : Q := { back := some 0 }

inductive QOp where
  | add (v : Int) | pop | clear | front | peek (n : Int) | each (k : Nat) | len | isEmpty
deriving Repr

/-- the `pred` of `q.back` once `Add` has run `if q.back.pred == nil { q.back = q.list.cfirst() }` -/
def Q.backPred (q : Q) : Nat := match q.back with | none => 0 | some p => p

/-- `Queue.Add` -/
def qadd (q : Q) (v : Int) : Q × Out :=
  match add q.h q.backPred [v] with
  | .ok (h', p') => ({ h := h', back := some p', size := Gen.MlinkQueue.addSize q.size }, .unit)
  | .panic h' p' => ({ q with h := h', back := some p' }, .panicInvalid)
  | .hang => (q, .hang)

/-- `Queue.Pop` -/
def qpop (q : Q) : Q × Out :=
  match get q.h 0 with
  | .panic _ _ => (q, .panicInvalid)
  | .hang => (q, .hang)
  | .ok out =>
  match atEnd q.h 0 with
  | .panic _ _ => (q, .panicInvalid)
  | .hang => (q, .hang)
  | .ok true => (q, .pair out false)
  | .ok false =>
  match remove q.h 0 with
  | .panic _ _ => (q, .panicInvalid)
  | .hang => (q, .hang)
  | .ok (h', _) =>
    let q' : Q := { q with h := h', size := Gen.MlinkQueue.popSize q.size }
    -- `if q.list.IsEmpty() { q.back = q.list.cfirst() }`
    (if Gen.MlinkQueue.popResets (isEmpty h') q'.size then { q' with back := some 0 } else q', .pair out true)

/-- `Queue.Clear` -/
def qclear (q : Q) : Q × Out :=
  match clear q.h with
  | .ok h' => ({ h := h', back := some 0, size := Gen.MlinkQueue.clearSize }, .unit)
  | .panic h' _ => ({ q with h := h' }, .panicInvalid)
  | .hang => (q, .hang)

def qpeek (q : Q) (n : Int) : Out :=
  if n < 0 then .panicIndex else match peek q.h n.toNat with
    | .ok (v, b) => .pair v b
    | .panic _ _ => .panicInvalid
    | .hang => .hang

def qstep (q : Q) : QOp → Q × Out
  | .add v => qadd q v
  | .pop => qpop q
  | .clear => qclear q
  | .front => (q, match qpeek q 0 with | .pair v _ => .val v | o => o)
  | .peek n => (q, qpeek q n)
  | .each k => (q, match each q.h (some k) with
    | .ok l => .list l
    | .panic _ _ => .panicInvalid
    | .hang => .hang)
  | .len => (q, .val q.size)
  | .isEmpty => (q, .bool (isEmpty q.h))

def qrun (q : Q) : List QOp → List Out
  | [] => []
  | op :: ops => let (q', o) := qstep q op; o :: qrun q' ops

end MdsVerif.Model.Mlink
