import MdsVerif.Gen.Stree
/-!
# Model of `stree.Tree` (stree/stree.go, stree/node.go) — shape exact

Core Lean only.  Pointer trees become an inductive `Tree α`; every function
mirrors the Go code statement by statement, so that not only the contents but
the very *shape* of the tree is the one the Go code builds (the correspondence
check compares pre-order shapes after every operation).

* `insert` is the Go recursion returning `(ins, added, size, height)` with the
  `limit < 0` flag at nil, the sibling size, the goat test and `rewrite`;
* `rewrite = vineToTree ∘ treeToVine`: `treeToVine` is the Stout–Warren loop
  (fuel `vineFuel`, proved sufficient in `Proofs/Stree`), `rotateLeft` works on
  the right spine and returns `none` where Go dereferences nil;
* `remove` with `popMinRight`, the delete-side whole rebuild of `Tree.Remove`;
* `extract` by midpoint; `new` = sort + compact + extract where sort/compact
  are a parameter `srt` (specified by `SortCompact`, not modelled);
* the depth limit is the exact integer `⌊log_{2000/(1000+β)} n⌋` (`exactLimit`);
  Go computes it with `math.Log` — a numerical tie checked by stream `C02.limit`.

`none` (of `Option`) always means: the Go code panics here.

Stable API for clients (C03/C04 build on it): `Tree`, `Tree.toList`, `Tree.size`,
`Tree.height`, `T`, `T.empty`, `T.new`, `T.add`, `T.replace`, `T.remove`, `T.clear`,
`T.clone`, `T.get`, `T.min`, `T.max`, `T.inorder`, `T.inorderAfter`, `T.len`, `T.isEmpty`.
-/
namespace MdsVerif.Model.Stree
open MdsVerif.Gen

inductive Tree (α : Type) where
  | nil : Tree α
  | node (l : Tree α) (x : α) (r : Tree α) : Tree α
  deriving Repr, Inhabited

namespace Tree
variable {α : Type}

/-- `node.size` -/
def size : Tree α → Nat
  | nil => 0
  | node l _ r => 1 + l.size + r.size

/-- in-order key list -/
def toList : Tree α → List α
  | nil => []
  | node l x r => l.toList ++ x :: r.toList

/-- height in NODES (0 for nil); the depth in edges of the deepest key is `height - 1` -/
def height : Tree α → Nat
  | nil => 0
  | node l _ r => 1 + max l.height r.height

/-- `node.clone` (a value copy: the identity on an immutable tree) -/
def clone : Tree α → Tree α
  | nil => nil
  | node l x r => node l.clone x r.clone

end Tree

/-! ## Depth limit -/

/-- `k ≤ log_{fracDen/fracNum β} n`, i.e. `2000^k ≤ n · (1000+β)^k` -/
def limOk (β n k : Nat) : Bool := decide (Stree.fracDen ^ k ≤ n * (Stree.fracNum β) ^ k)

/-- smallest `m` (within fuel) such that `2^m` is not `limOk` -/
def limDouble (β n : Nat) : Nat → Nat → Nat
  | 0, m => m
  | f+1, m => if limOk β n (2 ^ m) then limDouble β n f (m + 1) else m

/-- binary search downwards from bit `i`: the largest `k' < k + 2^i` above `k` that is `limOk` -/
def limSearch (β n : Nat) : Nat → Nat → Nat
  | 0, k => k
  | i+1, k => if limOk β n (k + 2 ^ i) then limSearch β n i (k + 2 ^ i) else limSearch β n i k

/-- `limitFunc(β)(n)` in exact integer arithmetic: `n+1` when the fraction is 1 (β = 1000),
otherwise the largest `k` with `2000^k ≤ n·(1000+β)^k` (for `n ≥ 1`; the Go code never asks for
`n = 0`, where the float code is undefined and this function returns 0). -/
def exactLimit (β n : Nat) : Nat :=
  if Stree.fracNum β ≥ Stree.fracDen then Stree.limitNoBalance n
  else limSearch β n (limDouble β n (n + 12) 0) 0

/-! ## rewrite = vineToTree ∘ treeToVine -/
section
variable {α : Type}

/-- fuel of the Stout–Warren loop: every rotation and every advance decreases it -/
def vineFuel : Tree α → Nat
  | .nil => 0
  | .node l _ r => 2 * vineFuel l + 1 + vineFuel r

/-- `treeToVine`'s loop.  `done` = keys of the finished part of the vine (stub … cur], reversed;
the tree = `cur.right`.  `none` = out of fuel (never with `vineFuel`). -/
def treeToVineLoop : Nat → List α → Tree α → Option (List α)
  | _, done, .nil => some done.reverse
  | 0, _, .node _ _ _ => none
  | f+1, done, .node .nil x r => treeToVineLoop f (x :: done) r
  | f+1, done, .node (.node a y b) x r => treeToVineLoop f done (.node a y (.node b x r))

/-- `treeToVine`: the keys of the resulting right-linked list (all left pointers nil) -/
def treeToVine (t : Tree α) : Option (List α) := treeToVineLoop (vineFuel t) [] t

/-- right spine: `(left subtree, key)` of the nodes linked by right pointers -/
abbrev Spine (α : Type) := List (Tree α × α)

/-- `rotateLeft(n, count)`: the first `count` pairs `C, R` become `R` with `R.left = C`,
`C.right = (old) R.left`.  `none` = nil dereference. -/
def rotateLeft : Nat → Spine α → Option (Spine α)
  | 0, sp => some sp
  | n+1, (x, c) :: (y, r) :: rest => (rotateLeft n rest).map (fun t => (Tree.node x c y, r) :: t)
  | _+1, _ => none

def spineToTree : Spine α → Tree α
  | [] => .nil
  | (l, x) :: rest => .node l x (spineToTree rest)

/-- `step := 1; for step <= count { step = 2*step + 1 }` -/
def stepUp : Nat → Nat → Nat → Nat
  | 0, _, step => step
  | f+1, count, step => if Stree.stepCond step count then stepUp f count (Stree.stepNext step) else step

/-- `for left > 1 { left /= 2; rotateLeft(stub, left) }` -/
def passes : Nat → Nat → Spine α → Option (Spine α)
  | 0, _, sp => some sp
  | f+1, left, sp =>
    if Stree.packCond left then
      match rotateLeft (Stree.packNext left) sp with
      | some sp' => passes f (Stree.packNext left) sp'
      | none => none
    else some sp

/-- `vineToTree(n, count)` on the vine with the given keys -/
def vineToTree (vine : List α) (count : Nat) : Option (Tree α) :=
  let step := Stree.stepFinal (stepUp (count + 2) count Stree.stepInit)
  match rotateLeft (Stree.leafCount count step) (vine.map fun x => (Tree.nil, x)) with
  | none => none
  | some sp =>
    match passes (count + 2) step sp with
    | none => none
    | some sp' => some (spineToTree sp')

/-- `rewrite(root, size)` -/
def rewrite (root : Tree α) (size : Nat) : Option (Tree α) :=
  match treeToVine root with
  | none => none
  | some vine => vineToTree vine size

/-- `extract(nodes)` by midpoint (fuel = number of nodes) -/
def extractF : Nat → List α → Tree α
  | 0, _ => .nil
  | _+1, [] => .nil
  | f+1, ks =>
    let mid := Stree.extractMid ks.length
    match ks.drop mid with
    | [] => .nil
    | x :: rest => .node (extractF f (ks.take mid)) x (extractF f rest)

def extract (ks : List α) : Tree α := extractF ks.length ks

/-! ## insert -/

/-- `(ins, added, size, height)` -/
abbrev Res (α : Type) := Tree α × Bool × Nat × Nat

variable (cmp : α → α → Ordering) (lim : Nat → Nat)

/-- ascending phase of `insert` ("goat rodeo") for the activation whose updated node is `root`
and whose untouched child is `sib` -/
def goat (root sib : Tree α) (added : Bool) (size h : Nat) : Option (Res α) :=
  if size > 0 then
    let rs := Stree.rootSize sib.size size
    if Stree.goatKeeps h (lim rs) then some (root, added, rs, h)
    else
      match rewrite root rs with
      | some t => some (t, added, 0, h)
      | none => none
  else some (root, added, size, h)

/-- `Tree.insert(key, replace, root, limit)` -/
def insert (key : α) (replace : Bool) : Tree α → Int → Option (Res α)
  | .nil, limit => some (.node .nil key .nil, true, if Stree.overLimit limit then 1 else 0, 0)
  | .node l x r, limit =>
    match cmp key x with
    | .lt =>
      match insert key replace l (Stree.limitDown limit) with
      | some q => goat lim (.node q.1 x r) r q.2.1 q.2.2.1 (q.2.2.2 + 1)
      | none => none
    | .gt =>
      match insert key replace r (Stree.limitDown limit) with
      | some q => goat lim (.node l x q.1) l q.2.1 q.2.2.1 (q.2.2.2 + 1)
      | none => none
    | .eq => some (.node l (if replace then key else x) r, false, 0, 0)

/-! ## remove -/

/-- `popMinRight` on the right child `node l x r`: (key of the leftmost node, the child without it) -/
def popMin : Tree α → α → Tree α → α × Tree α
  | .nil, x, r => (x, r)
  | .node ll lx lr, x, r =>
    let p := popMin ll lx lr
    (p.1, .node p.2 x r)

/-- `node.remove(key, compare)` -/
def remove (key : α) : Tree α → Tree α × Bool
  | .nil => (.nil, false)
  | .node l x r =>
    match cmp key x with
    | .lt => let p := remove key l; (.node p.1 x r, p.2)
    | .gt => let p := remove key r; (.node l x p.1, p.2)
    | .eq =>
      match l, r with
      | .nil, _ => (r, true)
      | _, .nil => (l, true)
      | _, .node rl rx rr =>
        let p := popMin rl rx rr
        (.node l p.1 p.2, true)

/-! ## queries -/

/-- `Tree.Get`: the stored key and the number of comparator calls made -/
def getC (key : α) : Tree α → Option α × Nat
  | .nil => (none, 0)
  | .node l x r =>
    match cmp key x with
    | .lt => let p := getC key l; (p.1, p.2 + 1)
    | .gt => let p := getC key r; (p.1, p.2 + 1)
    | .eq => (some x, 1)

def minKey : Tree α → Option α
  | .nil => none
  | .node l x _ =>
    match l with
    | .nil => some x
    | .node _ _ _ => minKey l

def maxKey : Tree α → Option α
  | .nil => none
  | .node _ x r =>
    match r with
    | .nil => some x
    | .node _ _ _ => maxKey r

/-- A consumer of an iteration (`yield`): a state machine that says whether to continue. -/
abbrev Yield (σ α : Type) := σ → α → σ × Bool

/-- `node.inorder(f)`: `(final consumer state, completed)` -/
def inorderF {σ : Type} (f : Yield σ α) : Tree α → σ → σ × Bool
  | .nil, s => (s, true)
  | .node l x r, s =>
    let p := inorderF f l s
    if !p.2 then (p.1, false)
    else
      let q := f p.1 x
      if !q.2 then (q.1, false)
      else inorderF f r q.1

/-- `node.pathTo(key)`: the subtrees on the search path, root first -/
def pathTo (key : α) : Tree α → List (Tree α)
  | .nil => []
  | .node l x r =>
    .node l x r ::
      match cmp key x with
      | .lt => pathTo key l
      | .gt => pathTo key r
      | .eq => []

/-- the loop of `inorderAfter` over the path, LAST element first -/
def afterLoop {σ : Type} (f : Yield σ α) (key : α) : List (Tree α) → σ → σ × Bool
  | [], s => (s, true)
  | cur :: rest, s =>
    let p := afterLoop f key rest s
    if !p.2 then (p.1, false)
    else
      match cur with
      | .nil => (p.1, true)
      | .node _ x r =>
        if cmp x key == .lt then (p.1, true)
        else
          let q := f p.1 x
          if !q.2 then (q.1, false)
          else inorderF f r q.1

/-- `node.inorderAfter(key, compare, f)` -/
def inorderAfterF {σ : Type} (f : Yield σ α) (key : α) (t : Tree α) (s : σ) : σ × Bool :=
  afterLoop cmp f key (pathTo cmp key t) s

/-- the consumer that collects keys and stops (returns false) when it holds `stop` keys;
`stop = none`: never stops.  The collected list is reversed. -/
def collect (stop : Option Nat) : Yield (List α) α := fun acc x =>
  let acc' := x :: acc
  (acc', match stop with | none => true | some j => decide (acc'.length < j))

end

/-! ## The tree object -/

structure T (α : Type) where
  root : Tree α := .nil
  β : Nat
  size : Nat := 0
  max : Nat := 0
  deriving Repr

namespace T
variable {α : Type} (cmp : α → α → Ordering)

/-- `t.limit` -/
def lim (t : T α) : Nat → Nat := exactLimit t.β

def empty (β : Nat) : T α := { β := β }

/-- `New(β, compare, keys...)`; `srt` stands for `slices.SortFunc` followed by
`slices.CompactFunc` (specified, not modelled).  `none` = panic "β out of range". -/
def new (srt : List α → List α) (β : Int) (keys : List α) : Option (T α) :=
  if Stree.betaOutOfRange β then none
  else
    match keys with
    | [] => some { β := β.toNat }
    | _ =>
      let nodes := srt keys
      some { β := β.toNat, size := nodes.length, max := nodes.length, root := extract nodes }

/-- `Clone` -/
def clone (t : T α) : T α := { t with root := t.root.clone }

/-- `incSize` -/
def incSize (t : T α) (inserted : Bool) : T α :=
  if inserted then
    let size := t.size + 1
    { t with size := size, max := if size > t.max then size else t.max }
  else t

/-- common body of `Add` / `Replace` -/
def insertTop (t : T α) (key : α) (replace : Bool) : Option (T α × Bool) :=
  match insert cmp t.lim key replace t.root (Int.ofNat (t.lim (Stree.limitArg t.size))) with
  | some q => some ({ (t.incSize q.2.1) with root := q.1 }, q.2.1)
  | none => none

def add (t : T α) (key : α) : Option (T α × Bool) := insertTop cmp t key false
def replace (t : T α) (key : α) : Option (T α × Bool) := insertTop cmp t key true

/-- `Remove` -/
def remove (t : T α) (key : α) : Option (T α × Bool) :=
  let p := Stree.remove cmp key t.root
  if p.2 then
    let size := t.size - 1
    if Stree.deleteRebuild size (Stree.deleteThreshold t.max t.β) then
      match rewrite p.1 size with
      | some root => some ({ t with root := root, size := size, max := size }, true)
      | none => none
    else some ({ t with root := p.1, size := size }, true)
  else some ({ t with root := p.1 }, false)

def clear (t : T α) : T α := { t with root := .nil, size := 0, max := 0 }
def len (t : T α) : Nat := t.size
def isEmpty (t : T α) : Bool := t.size == 0
def get (t : T α) (key : α) : Option α := (getC cmp key t.root).1
/-- number of comparator calls of `Get` -/
def getSteps (t : T α) (key : α) : Nat := (getC cmp key t.root).2
def min (t : T α) : Option α := minKey t.root
def max' (t : T α) : Option α := maxKey t.root
/-- `Inorder` with a consumer that stops after `stop` keys (`none`: runs to the end) -/
def inorder (t : T α) (stop : Option Nat) : List α :=
  (inorderF (collect stop) t.root []).1.reverse
/-- `InorderAfter(key)` likewise -/
def inorderAfter (t : T α) (key : α) (stop : Option Nat) : List α :=
  (inorderAfterF cmp (collect stop) key t.root []).1.reverse

end T

/-! ## Operation histories over registers (original and clones) -/

inductive Op (α : Type) where
  | new (r : Nat) (β : Int) (keys : List α)
  | add (r : Nat) (k : α)
  | replace (r : Nat) (k : α)
  | remove (r : Nat) (k : α)
  | clear (r : Nat)
  | clone (dst src : Nat)
  | len (r : Nat)
  | isEmpty (r : Nat)
  | get (r : Nat) (k : α)
  | min (r : Nat)
  | max (r : Nat)
  | inorder (r : Nat) (stop : Option Nat)
  | inorderAfter (r : Nat) (k : α) (stop : Option Nat)

inductive Out (α : Type) where
  | unit
  | bool (b : Bool)
  | nat (n : Nat)
  | opt (o : Option α)
  | list (l : List α)
  /-- the Go code panics (β out of range, nil dereference) or the register holds no tree -/
  | panic
  deriving Repr, BEq, DecidableEq

/-- registers: association list, first binding wins -/
abbrev Regs (σ : Type) := List (Nat × σ)

def Regs.get {σ : Type} (rs : Regs σ) (r : Nat) : Option σ := (rs.find? (·.1 == r)).map (·.2)
def Regs.set {σ : Type} (rs : Regs σ) (r : Nat) (v : σ) : Regs σ := (r, v) :: rs.filter (·.1 != r)

variable {α : Type}

def step (cmp : α → α → Ordering) (srt : List α → List α) (s : Regs (T α)) : Op α → Regs (T α) × Out α
  | .new r β keys =>
    match T.new srt β keys with
    | some t => (s.set r t, .unit)
    | none => (s, .panic)
  | .clone dst src =>
    match s.get src with
    | some t => (s.set dst t.clone, .unit)
    | none => (s, .panic)
  | .add r k =>
    match s.get r with
    | some t => match t.add cmp k with
      | some (t', b) => (s.set r t', .bool b)
      | none => (s, .panic)
    | none => (s, .panic)
  | .replace r k =>
    match s.get r with
    | some t => match t.replace cmp k with
      | some (t', b) => (s.set r t', .bool b)
      | none => (s, .panic)
    | none => (s, .panic)
  | .remove r k =>
    match s.get r with
    | some t => match t.remove cmp k with
      | some (t', b) => (s.set r t', .bool b)
      | none => (s, .panic)
    | none => (s, .panic)
  | .clear r =>
    match s.get r with
    | some t => (s.set r t.clear, .unit)
    | none => (s, .panic)
  | .len r => (s, match s.get r with | some t => .nat t.len | none => .panic)
  | .isEmpty r => (s, match s.get r with | some t => .bool t.isEmpty | none => .panic)
  | .get r k => (s, match s.get r with | some t => .opt (t.get cmp k) | none => .panic)
  | .min r => (s, match s.get r with | some t => .opt t.min | none => .panic)
  | .max r => (s, match s.get r with | some t => .opt t.max' | none => .panic)
  | .inorder r stop => (s, match s.get r with | some t => .list (t.inorder stop) | none => .panic)
  | .inorderAfter r k stop =>
    (s, match s.get r with | some t => .list (t.inorderAfter cmp k stop) | none => .panic)

def run (cmp : α → α → Ordering) (srt : List α → List α) : Regs (T α) → List (Op α) → List (Out α)
  | _, [] => []
  | s, op :: ops => let p := step cmp srt s op; p.2 :: run cmp srt p.1 ops

/-! ## The concrete sort + compact used by the driver

`slices.SortFunc` is modelled by a stable merge sort and `slices.CompactFunc` by keeping the
first element of every run of equivalent keys.  (Go's pdqsort is an insertion sort — stable —
for at most 12 elements; the harness only relies on the choice of representative there.) -/

def compactFrom (cmp : α → α → Ordering) (x : α) : List α → List α
  | [] => [x]
  | y :: rest => if cmp x y == .eq then compactFrom cmp x rest else x :: compactFrom cmp y rest

def compact (cmp : α → α → Ordering) : List α → List α
  | [] => []
  | x :: rest => compactFrom cmp x rest

def sortCompact (cmp : α → α → Ordering) (ks : List α) : List α :=
  compact cmp (ks.mergeSort fun a b => cmp a b != .gt)

end MdsVerif.Model.Stree
