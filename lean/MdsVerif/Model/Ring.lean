/-!
# Model of `ring.Ring` (ring/ring.go): doubly-linked circular chains on an explicit heap

Cell `i` is the Go `Ring{Value: vals[i], next: next[i], prev: prev[i]}`; a `*Ring`
is `Option Nat` (`none` = nil = the empty ring).  Cells are never reclaimed.
`scan` (behind `Each`/`Len`) is the only loop that is not bounded by its
argument; it carries fuel, `hang` = fuel exhausted (impossible on well-formed
heaps, `Proofs/Ring.lean`).
-/
namespace MdsVerif.Model.Ring

structure Heap where
  vals : List Int := []
  next : List Nat := []
  prev : List Nat := []
deriving Repr, DecidableEq

namespace Heap
def size (h : Heap) : Nat := h.next.length
def nx (h : Heap) (i : Nat) : Nat := h.next.getD i 0
def pv (h : Heap) (i : Nat) : Nat := h.prev.getD i 0
def val (h : Heap) (i : Nat) : Int := h.vals.getD i 0
def setNext (h : Heap) (i j : Nat) : Heap := { h with next := h.next.set i j }
def setPrev (h : Heap) (i j : Nat) : Heap := { h with prev := h.prev.set i j }
def setVal (h : Heap) (i : Nat) (v : Int) : Heap := { h with vals := h.vals.set i v }
/-- `newRing()`: a fresh zero-valued cell linked to itself -/
def newRing (h : Heap) : Heap × Nat :=
  ({ vals := h.vals ++ [0], next := h.next ++ [h.next.length], prev := h.prev ++ [h.next.length] }, h.next.length)
end Heap

abbrev Ptr := Option Nat

inductive Res (β : Type) where
  | ok (v : β) | panicNil | hang
deriving Repr, DecidableEq

/-- the loop of `New`: insert `k` fresh cells, each directly after `r` -/
def newLoop : Nat → Heap → Nat → Heap
  | 0, h, _ => h
  | k + 1, h, r =>
    let (h1, e) := h.newRing
    let h2 := h1.setNext e (h1.nx r)      -- elt.next = r.next
    let h3 := h2.setPrev (h2.nx r) e      -- r.next.prev = elt
    let h4 := h3.setPrev e r              -- elt.prev = r
    let h5 := h4.setNext r e              -- r.next = elt
    newLoop k h5 r

/-- `New(n)` -/
def new (h : Heap) (n : Int) : Heap × Ptr :=
  if n ≤ 0 then (h, none) else
  let (h1, r) := h.newRing
  (newLoop (n.toNat - 1) h1 r, some r)

/-- the loop of `Of`: `cur.Value = v; cur = cur.Next()` -/
def ofLoop : List Int → Heap → Nat → Heap
  | [], h, _ => h
  | v :: vs, h, cur => ofLoop vs (h.setVal cur v) (h.nx cur)

/-- `Of(vs...)` -/
def of (h : Heap) (vs : List Int) : Heap × Ptr :=
  match new h vs.length with
  | (h1, none) => (h1, none)
  | (h1, some r) => (ofLoop vs h1 r, some r)

/-- `r.Join(s)` -/
def join (h : Heap) : Ptr → Ptr → Res (Heap × Ptr)
  | none, none => .ok (h, none)        -- r == s
  | none, some _ => .panicNil          -- r.next with r == nil
  | some _, none => .panicNil          -- r.next == s is false, then s.prev with s == nil
  | some r, some s =>
    if r = s || h.nx r = s then .ok (h, none) else
    let rnext := h.nx r
    let sprev := h.pv s
    let h1 := h.setNext r s            -- r.next = s
    let h2 := h1.setPrev s r           -- s.prev = r
    let h3 := h2.setNext sprev rnext   -- sprev.next = rnext
    let h4 := h3.setPrev rnext sprev   -- rnext.prev = sprev
    .ok (h4, some rnext)

/-- `r.Pop()` (returns `r`) -/
def pop (h : Heap) : Ptr → Heap
  | none => h
  | some r =>
    if h.pv r ≠ r then
      let rprev := h.pv r
      let rnext := h.nx r
      let h1 := h.setNext rprev (h.nx r)     -- rprev.next = r.next
      let h2 := h1.setPrev rnext (h1.pv r)   -- rnext.prev = r.prev
      let h3 := h2.setPrev r r
      h3.setNext r r
    else h

/-- the loop of `At`: `for n > 0 { cur = next(cur); if cur == r { return nil }; n-- }` -/
def atLoop (step : Nat → Nat) (r : Nat) : Nat → Nat → Ptr
  | 0, cur => some cur
  | n + 1, cur =>
    let c := step cur
    if c = r then none else atLoop step r n c

/-- `r.At(n)` -/
def at_ (h : Heap) (r : Ptr) (n : Int) : Ptr :=
  match r with
  | none => none
  | some r => if n < 0 then atLoop h.pv r (-n).toNat r else atLoop h.nx r n.toNat r

/-- `r.Peek(n)` -/
def peek (h : Heap) (r : Ptr) (n : Int) : Int × Bool :=
  match at_ h r n with
  | none => (0, false)
  | some c => (h.val c, true)

/-- `scan(r, f)` for `r != nil`: `cur := r; for f(cur) { if cur.next == r { return }; cur = cur.next }`.
Returns the cells `f` was called on; `stop = some k`: `f` returns false on its `k+1`-st call. -/
def scanLoop (h : Heap) (r : Nat) : Nat → Nat → Option Nat → Res (List Nat)
  | 0, _, _ => .hang
  | f + 1, cur, stop =>
    if stop = some 0 then .ok [cur] else
    if h.nx cur = r then .ok [cur] else
    match scanLoop h r f (h.nx cur) (stop.map (· - 1)) with
    | .ok l => .ok (cur :: l)
    | e => e

def scan (h : Heap) (r : Ptr) (stop : Option Nat) : Res (List Nat) :=
  match r with
  | none => .ok []
  | some r => scanLoop h r (h.size + 1) r stop

/-- `r.Each(f)`: the values `f` sees -/
def each (h : Heap) (r : Ptr) (stop : Option Nat) : Res (List Int) :=
  match scan h r stop with
  | .ok l => .ok (l.map h.val)
  | .panicNil => .panicNil
  | .hang => .hang

/-- `r.Len()` -/
def len (h : Heap) (r : Ptr) : Res Nat :=
  match scan h r none with
  | .ok l => .ok l.length
  | .panicNil => .panicNil
  | .hang => .hang

/-! ## Register machine over ring elements (stream `C10.ring`) -/

structure St where
  h : Heap := {}
  regs : List Ptr := List.replicate 8 none
deriving Repr, DecidableEq

def St.reg (s : St) (i : Nat) : Ptr := s.regs.getD i none
def St.setReg (s : St) (i : Nat) (p : Ptr) : St := { s with regs := s.regs.set i p }

inductive Op where
  | of (d : Nat) (vs : List Int) | new (d : Nat) (n : Int)
  | join (d r s : Nat) | pop (d r : Nat)
  | next (d r : Nat) | prev (d r : Nat) | at_ (d r : Nat) (n : Int)
  | peek (r : Nat) (n : Int) | len (r : Nat) | each (r : Nat) (k : Nat) | isEmpty (r : Nat)
deriving Repr

inductive Out where
  | unit | pair (v : Int) (ok : Bool) | nat (n : Nat) | list (l : List Int) | bool (b : Bool)
  | panicNil | hang
deriving Repr, DecidableEq

def step (s : St) : Op → St × Out
  | .of d vs => let (h', p) := of s.h vs; ({ s with h := h' }.setReg d p, .unit)
  | .new d n => let (h', p) := new s.h n; ({ s with h := h' }.setReg d p, .unit)
  | .join d r t => match join s.h (s.reg r) (s.reg t) with
    | .ok (h', p) => ({ s with h := h' }.setReg d p, .unit)
    | .panicNil => (s, .panicNil)
    | .hang => (s, .hang)
  | .pop d r => ({ s with h := pop s.h (s.reg r) }.setReg d (s.reg r), .unit)
  | .next d r => match s.reg r with
    | none => (s, .panicNil)
    | some p => (s.setReg d (some (s.h.nx p)), .unit)
  | .prev d r => match s.reg r with
    | none => (s, .panicNil)
    | some p => (s.setReg d (some (s.h.pv p)), .unit)
  | .at_ d r n => (s.setReg d (at_ s.h (s.reg r) n), .unit)
  | .peek r n => let (v, b) := peek s.h (s.reg r) n; (s, .pair v b)
  | .len r => match len s.h (s.reg r) with
    | .ok n => (s, .nat n)
    | .panicNil => (s, .panicNil)
    | .hang => (s, .hang)
  | .each r k => match each s.h (s.reg r) (some k) with
    | .ok l => (s, .list l)
    | .panicNil => (s, .panicNil)
    | .hang => (s, .hang)
  | .isEmpty r => (s, .bool (s.reg r).isNone)

def run (s : St) : List Op → List Out
  | [] => []
  | op :: ops => let (s', o) := step s op; o :: run s' ops

/-- the cells met from `r` by repeatedly applying `step` until `r` comes up again
(what the harness sees walking `Prev()`/`Next()` by hand); `none` if that takes more than `fuel` steps -/
def walk (step : Nat → Nat) (r : Nat) : Nat → Nat → Option (List Nat)
  | 0, _ => none
  | f + 1, cur =>
    if step cur = r then some [cur] else
    match walk step r f (step cur) with
    | some l => some (cur :: l)
    | none => none

end MdsVerif.Model.Ring
