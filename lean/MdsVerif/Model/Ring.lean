import MdsVerif.Gen.Ring
/-!
# Model of `ring.Ring` (ring/ring.go): doubly-linked circular chains on an explicit heap

Cell `i` is the Go `Ring{Value: vals[i], next: next[i], prev: prev[i]}`; a `*Ring`
is `Option Nat` (`none` = nil = the empty ring).  Cells are never reclaimed.
`scan` (behind `Each`/`Len`) is the only loop that is not bounded by its
argument; it carries fuel, `hang` = fuel exhausted (impossible on well-formed
heaps, `Proofs/Ring.lean`).

The pointer surgery of `Join`, `Pop` and the loop body of `New` is not written out here: the ordered tables
of field assignments `Gen.Ring.joinAssigns`, `popAssigns`, `newAssigns` (with the locals and guards they
use), which `extract/ring.go` regenerates from ring.go on every run, are *interpreted* statement by statement
on the heap (`evalPath`, `bindLocals`, `execAssigns`).  `Proofs/Ring.lean` (`join_ss`, `pop_some`,
`newLoop_succ'`, `new_def`, `at_some`) restates each function with the pinned statements written out;
`Props.C10.C10_ring_current` pins every table and fact.
-/
namespace MdsVerif.Model.Ring

structure Heap where
  vals : List Int := []
  next : List Nat := []
  prev : List Nat := []
deriving Repr, DecidableEq

namespace Heap
def size (h : Heap) : Nat := h.next.length
def nx (h : Heap) (i : Nat) : Nat := h.next.getD i 0
def pv (h : Heap) (i : Nat) : Nat := h.prev.getD i 0
def val (h : Heap) (i : Nat) : Int := h.vals.getD i 0
def setNext (h : Heap) (i j : Nat) : Heap := { h with next := h.next.set i j }
def setPrev (h : Heap) (i j : Nat) : Heap := { h with prev := h.prev.set i j }
def setVal (h : Heap) (i : Nat) (v : Int) : Heap := { h with vals := h.vals.set i v }
/-- `newRing()`: a fresh zero-valued cell linked to itself -/
def newRing (h : Heap) : Heap × Nat :=
  ({ vals := h.vals ++ [0], next := h.next ++ [h.next.length], prev := h.prev ++ [h.next.length] }, h.next.length)
end Heap

abbrev Ptr := Option Nat

/-! ## interpreter for the regenerated assignment tables -/

open Gen.Ring in
def Heap.get (h : Heap) : Fld → Nat → Nat
  | .next, i => h.nx i
  | .prev, i => h.pv i

open Gen.Ring in
def Heap.setF (h : Heap) : Fld → Nat → Nat → Heap
  | .next, i, j => h.setNext i j
  | .prev, i, j => h.setPrev i j

/-- values of the receiver, parameter and locals (`none` = nil) -/
abbrev Env := Gen.Ring.Var → Ptr

/-- the value of a pointer expression `root.f1.f2…` in heap `h`; the outer `none` is a nil dereference -/
def evalPath (h : Heap) (env : Env) (p : Gen.Ring.Path) : Option Ptr :=
  p.flds.foldl (fun c f => match c with
    | some (some i) => some (some (h.get f i))
    | _ => none) (some (env p.root))

/-- `a1 == b1 || a2 == b2 || …`, left to right with short circuit; `none` = nil dereference -/
def anyEq (h : Heap) (env : Env) : List (Gen.Ring.Path × Gen.Ring.Path) → Option Bool
  | [] => some false
  | (a, b) :: rest =>
    match evalPath h env a, evalPath h env b with
    | some x, some y => if x = y then some true else anyEq h env rest
    | _, _ => none

/-- `a1 != b1 && a2 != b2 && …`, left to right with short circuit -/
def allNe (h : Heap) (env : Env) : List (Gen.Ring.Path × Gen.Ring.Path) → Option Bool
  | [] => some true
  | (a, b) :: rest =>
    match evalPath h env a, evalPath h env b with
    | some x, some y => if x = y then some false else allNe h env rest
    | _, _ => none

/-- `v1, v2 := e1, e2` -/
def bindLocals (h : Heap) : Env → List (Gen.Ring.Var × Gen.Ring.Path) → Option Env
  | env, [] => some env
  | env, (v, p) :: rest =>
    match evalPath h env p with
    | some x => bindLocals h (fun w => if w = v then x else env w) rest
    | none => none

/-- the statements `target.fld = src`, in order, each evaluated in the heap left by the previous ones -/
def execAssigns (env : Env) : Heap → List Gen.Ring.Assign → Option Heap
  | h, [] => some h
  | h, a :: rest =>
    match evalPath h env a.target, evalPath h env a.src with
    | some (some t), some (some v) => execAssigns env (h.setF a.fld t v) rest
    | _, _ => none

inductive Res (β : Type) where
  | ok (v : β) | panicNil | hang
deriving Repr, DecidableEq

/-- the loop of `New`: insert `k` fresh cells, each directly after `r` -/
def newLoop : Nat → Heap → Nat → Heap
  | 0, h, _ => h
  | k + 1, h, r =>
    let (h1, e) := h.newRing                                   -- elt := newRing[T]()
    -- elt.next = r.next; r.next.prev = elt; elt.prev = r; r.next = elt
    let env : Env := fun | .r => some r | .elt => some e | _ => none
    newLoop k ((execAssigns env h1 Gen.Ring.newAssigns).getD h1) r

/-- `New(n)` -/
def new (h : Heap) (n : Int) : Heap × Ptr :=
  if Gen.Ring.newNil n then (h, none) else
  let (h1, r) := h.newRing
  (newLoop (n.toNat - 1) h1 r, some r)

/-- the loop of `Of`: `cur.Value = v; cur = cur.Next()` -/
def ofLoop : List Int → Heap → Nat → Heap
  | [], h, _ => h
  | v :: vs, h, cur => ofLoop vs (h.setVal cur v) (h.nx cur)

/-- `Of(vs...)` -/
def of (h : Heap) (vs : List Int) : Heap × Ptr :=
  match new h vs.length with
  | (h1, none) => (h1, none)
  | (h1, some r) => (ofLoop vs h1 r, some r)

/-- `r.Join(s)` -/
def join (h : Heap) (r s : Ptr) : Res (Heap × Ptr) :=
  let env0 : Env := fun | .r => r | .s => s | _ => none
  -- if r == s || r.next == s { return nil }
  match anyEq h env0 Gen.Ring.joinEarly with
  | none => .panicNil
  | some true => .ok (h, none)
  | some false =>
    -- rnext, sprev := r.next, s.prev
    match bindLocals h env0 Gen.Ring.joinLocals with
    | none => .panicNil
    | some env =>
      -- r.next = s; s.prev = r; sprev.next = rnext; rnext.prev = sprev
      match execAssigns env h Gen.Ring.joinAssigns with
      | none => .panicNil
      | some h' =>
        -- return rnext
        match evalPath h' env Gen.Ring.joinReturn with
        | some p => .ok (h', p)
        | none => .panicNil

/-- `r.Pop()` (returns `r`) -/
def pop (h : Heap) : Ptr → Heap
  | none => h
  | some r =>
    let env0 : Env := fun | .r => some r | _ => none
    -- if r != nil && r.prev != r
    match allNe h env0 Gen.Ring.popGuard with
    | some true =>
      -- rprev, rnext := r.prev, r.next; rprev.next = r.next; rnext.prev = r.prev; r.prev = r; r.next = r
      match bindLocals h env0 Gen.Ring.popLocals with
      | some env => (execAssigns env h Gen.Ring.popAssigns).getD h
      | none => h
    | _ => h

/-- the loop of `At`: `for n > 0 { cur = next(cur); if cur == r { return nil }; n-- }` -/
def atLoop (step : Nat → Nat) (r : Nat) : Nat → Nat → Ptr
  | 0, cur => some cur
  | n + 1, cur =>
    let c := step cur
    if c = r then none else atLoop step r n c

/-- `r.At(n)` -/
def at_ (h : Heap) (r : Ptr) (n : Int) : Ptr :=
  match r with
  | none => none
  | some r =>
    -- next, step := (*Ring[T]).Next, 1; if n < 0 { next, step = (*Ring[T]).Prev, -1 };
    -- for n != 0 { …; n -= step }: the loop body runs n / step times (step = ±1, of n's sign)
    if Gen.Ring.atNeg n then atLoop (h.get Gen.Ring.atBack) r (n / Gen.Ring.atStepBack).toNat r
    else atLoop (h.get Gen.Ring.atFwd) r (n / Gen.Ring.atStepFwd).toNat r

/-- `r.Peek(n)` -/
def peek (h : Heap) (r : Ptr) (n : Int) : Int × Bool :=
  match at_ h r n with
  | none => (0, false)
  | some c => (h.val c, true)

/-- `scan(r, f)` for `r != nil`: `cur := r; for f(cur) { if cur.next == r { return }; cur = cur.next }`.
Returns the cells `f` was called on; `stop = some k`: `f` returns false on its `k+1`-st call. -/
def scanLoop (h : Heap) (r : Nat) : Nat → Nat → Option Nat → Res (List Nat)
  | 0, _, _ => .hang
  | f + 1, cur, stop =>
    if stop = some 0 then .ok [cur] else
    if h.nx cur = r then .ok [cur] else
    match scanLoop h r f (h.nx cur) (stop.map (· - 1)) with
    | .ok l => .ok (cur :: l)
    | e => e

def scan (h : Heap) (r : Ptr) (stop : Option Nat) : Res (List Nat) :=
  match r with
  | none => .ok []
  | some r => scanLoop h r (h.size + 1) r stop

/-- `r.Each(f)`: the values `f` sees -/
def each (h : Heap) (r : Ptr) (stop : Option Nat) : Res (List Int) :=
  match scan h r stop with
  | .ok l => .ok (l.map h.val)
  | .panicNil => .panicNil
  | .hang => .hang

/-- `r.Len()` -/
def len (h : Heap) (r : Ptr) : Res Nat :=
  match scan h r none with
  | .ok l => .ok l.length
  | .panicNil => .panicNil
  | .hang => .hang

/-! ## Register machine over ring elements (stream `C10.ring`) -/

structure St where
  h : Heap := {}
  regs : List Ptr := List.replicate 8 none
deriving Repr, DecidableEq

def St.reg (s : St) (i : Nat) : Ptr := s.regs.getD i none
def St.setReg (s : St) (i : Nat) (p : Ptr) : St := { s with regs := s.regs.set i p }

inductive Op where
  | of (d : Nat) (vs : List Int) | new (d : Nat) (n : Int)
  | join (d r s : Nat) | pop (d r : Nat)
  | next (d r : Nat) | prev (d r : Nat) | at_ (d r : Nat) (n : Int)
  | peek (r : Nat) (n : Int) | len (r : Nat) | each (r : Nat) (k : Nat) | isEmpty (r : Nat)
deriving Repr

inductive Out where
  | unit | pair (v : Int) (ok : Bool) | nat (n : Nat) | list (l : List Int) | bool (b : Bool)
  | panicNil | hang
deriving Repr, DecidableEq

def step (s : St) : Op → St × Out
  | .of d vs => let (h', p) := of s.h vs; ({ s with h := h' }.setReg d p, .unit)
  | .new d n => let (h', p) := new s.h n; ({ s with h := h' }.setReg d p, .unit)
  | .join d r t => match join s.h (s.reg r) (s.reg t) with
    | .ok (h', p) => ({ s with h := h' }.setReg d p, .unit)
    | .panicNil => (s, .panicNil)
    | .hang => (s, .hang)
  | .pop d r => ({ s with h := pop s.h (s.reg r) }.setReg d (s.reg r), .unit)
  | .next d r => match s.reg r with
    | none => (s, .panicNil)
    | some p => (s.setReg d (some (s.h.nx p)), .unit)
  | .prev d r => match s.reg r with
    | none => (s, .panicNil)
    | some p => (s.setReg d (some (s.h.pv p)), .unit)
  | .at_ d r n => (s.setReg d (at_ s.h (s.reg r) n), .unit)
  | .peek r n => let (v, b) := peek s.h (s.reg r) n; (s, .pair v b)
  | .len r => match len s.h (s.reg r) with
    | .ok n => (s, .nat n)
    | .panicNil => (s, .panicNil)
    | .hang => (s, .hang)
  | .each r k => match each s.h (s.reg r) (some k) with
    | .ok l => (s, .list l)
    | .panicNil => (s, .panicNil)
    | .hang => (s, .hang)
  | .isEmpty r => (s, .bool (s.reg r).isNone)

def run (s : St) : List Op → List Out
  | [] => []
  | op :: ops => let (s', o) := step s op; o :: run s' ops

/-- the cells met from `r` by repeatedly applying `step` until `r` comes up again
(what the harness sees walking `Prev()`/`Next()` by hand); `none` if that takes more than `fuel` steps -/
def walk (step : Nat → Nat) (r : Nat) : Nat → Nat → Option (List Nat)
  | 0, _ => none
  | f + 1, cur =>
    if step cur = r then some [cur] else
    match walk step r f (step cur) with
    | some l => some (cur :: l)
    | none => none

end MdsVerif.Model.Ring
