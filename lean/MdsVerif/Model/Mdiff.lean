import MdsVerif.Model.Edit
import MdsVerif.Gen.MdiffFmt
/-!
# Executable model of `mdiff/mdiff.go` (core Lean only)

`New`, `AddContext` (with `findContext`), `UnifyChunks`, statement by statement.

* Line numbers are Go `int`s that are ≥ 1 on every diff made by `New`; they are `Nat` here.  The
  only subtractions are the ones in the code; where Go clamps explicitly (`max(0, …)`) the
  truncated subtraction is the same value, where it guards (`c.LStart > last.LEnd`) the guard is
  modelled, and every read that can be out of range is an explicit `none` (Go: index panic).
* `[]*Chunk` with in-place mutation becomes a list that is rebuilt; `merged`/`last` (a pointer
  to the last merged chunk) is the pair `(init, last)`.
* `Diff.Edits` is never written by `AddContext`/`Unify`: they are functions of the chunk list
  only, the `edits` field of `Diff` is passed through.
* Panics of `UnifyChunks` (`nil` dereference of `slice.PtrAt` on an empty edit list, the explicit
  `panic("diff: context merge did not work correctly")`) are `Except` errors.

The gap bound of commit 67e3ccb (`before`/`after`/`prevEnd`) is selected by
`Gen.MdiffFmt.addContextBoundsGap`; `addContextWith false` is the code before that commit and is
only used by the regression theorem `C13_pinned_F4_witness`.
-/
namespace MdsVerif.Model.Mdiff
open MdsVerif.Model.Edit

/-- `type Chunk struct { Edits []Edit; LStart, LEnd, RStart, REnd int }` -/
structure Chunk (α : Type) where
  edits : List (Edit α)
  lstart : Nat
  lend : Nat
  rstart : Nat
  rend : Nat
deriving DecidableEq, Repr

/-- `type Diff struct { Left, Right []string; Chunks []*Chunk; Edits []Edit }` -/
structure Diff (α : Type) where
  left : List α
  right : List α
  chunks : List (Chunk α)
  edits : List (Edit α)
deriving Repr

variable {α : Type}

/-! ## New -/

/-- The gap test at the top of the loop body of `New`:
```
if lcur > cur.LEnd || rcur > cur.REnd {
    if cur.LEnd != cur.LStart || cur.REnd != cur.RStart { cur = new(Chunk); out = append(out, cur) }
    cur.LStart, cur.LEnd = lcur, lcur;  cur.RStart, cur.REnd = rcur, rcur }
```
`out` is `done ++ [cur]`. -/
def startChunk (done : List (Chunk α)) (cur : Chunk α) (lcur rcur : Nat) :
    List (Chunk α) × Chunk α :=
  if lcur > cur.lend ∨ rcur > cur.rend then
    if cur.lend ≠ cur.lstart ∨ cur.rend ≠ cur.rstart then
      (done ++ [cur], ⟨[], lcur, lcur, rcur, rcur⟩)
    else (done, { cur with lstart := lcur, lend := lcur, rstart := rcur, rend := rcur })
  else (done, cur)

/-- `for _, e := range es { … }` of `New`; state `(out = done ++ [cur], lcur, rcur)`. -/
def newLoop : List (Edit α) → List (Chunk α) → Chunk α → Nat → Nat → List (Chunk α) × Chunk α
  | [], done, cur, _, _ => (done, cur)
  | e :: es, done, cur, lcur, rcur =>
    let dc := startChunk done cur lcur rcur
    let done := dc.1
    let cur := dc.2
    match e.op with
    | .drop =>
      newLoop es done { cur with lend := cur.lend + e.X.length, edits := cur.edits ++ [e] }
        (lcur + e.X.length) rcur
    | .copy =>
      newLoop es done { cur with rend := cur.rend + e.Y.length, edits := cur.edits ++ [e] }
        lcur (rcur + e.Y.length)
    | .replace =>
      newLoop es done
        { cur with lend := cur.lend + e.X.length, rend := cur.rend + e.Y.length,
                   edits := cur.edits ++ [e] }
        (lcur + e.X.length) (rcur + e.Y.length)
    | .emit => newLoop es done cur (lcur + e.X.length) (rcur + e.X.length)

/-- the chunk list of `New` for a given script:
`out := []*Chunk{{LStart: 1, RStart: 1, LEnd: 1, REnd: 1}}`, the loop, and
`if cur.LEnd == cur.LStart && cur.REnd == cur.RStart { out = out[:len(out)-1] }` -/
def newChunks (es : List (Edit α)) : List (Chunk α) :=
  let dc := newLoop es [] ⟨[], 1, 1, 1, 1⟩ 1 1
  if dc.2.lend = dc.2.lstart ∧ dc.2.rend = dc.2.rstart then dc.1 else dc.1 ++ [dc.2]

/-- `mdiff.New(lhs, rhs)` -/
def new [DecidableEq α] (lhs rhs : List α) : Diff α :=
  let es := editScript lhs rhs
  { left := lhs, right := rhs, chunks := newChunks es, edits := es }

/-! ## findContext / AddContext -/

/-- Both loops of `findContext` walk two sequences in step and stop at the first difference, at
the end of either, or after `n` lines. -/
def commonPrefix [DecidableEq α] : Nat → List α → List α → List α
  | n + 1, a :: l, b :: r => if a = b then a :: commonPrefix n l r else []
  | _, _, _ => []

/-- The first loop of `findContext` (`p, q := lcur-(i+1), rcur-(i+1)`, stop when `p < 0 || q < 0
|| d.Left[p] != d.Right[q]`), followed by `slices.Reverse(pre)`: it walks `Left[:lcur]` and
`Right[:rcur]` backwards.  `lcur = c.LStart-1`, `rcur = c.RStart-1`.  The first read
`d.Left[lcur-1]`, `d.Right[rcur-1]` is the only one that can be out of range (Go panics). -/
def ctxPre? [DecidableEq α] (L R : List α) (lcur rcur n : Nat) : Option (List α) :=
  if n ≥ 1 ∧ lcur ≥ 1 ∧ rcur ≥ 1 ∧ (lcur > L.length ∨ rcur > R.length) then none
  else some (commonPrefix n (L.take lcur).reverse (R.take rcur).reverse).reverse

/-- The second loop (`p, q := lend+i, rend+i`, stop when `p >= len(d.Left) || q >= len(d.Right)
|| d.Left[p] != d.Right[q]`); `lend = c.LEnd-1`, `rend = c.REnd-1`. -/
def ctxPost [DecidableEq α] (L R : List α) (lend rend n : Nat) : List α :=
  commonPrefix n (L.drop lend) (R.drop rend)

/-- `d.findContext(c, n)` -/
def findContext? [DecidableEq α] (L R : List α) (c : Chunk α) (n : Nat) :
    Option (List α × List α) :=
  (ctxPre? L R (c.lstart - 1) (c.rstart - 1) n).map fun pre =>
    (pre, ctxPost L R (c.lend - 1) (c.rend - 1) n)

/-- the two `if len(pre) != 0 { … }`, `if len(post) != 0 { … }` blocks of `AddContext` -/
def withCtx (c : Chunk α) (pre post : List α) : Chunk α :=
  let c := if pre.length ≠ 0 then
      { c with edits := ⟨.emit, pre, []⟩ :: c.edits,
               lstart := c.lstart - pre.length, rstart := c.rstart - pre.length }
    else c
  if post.length ≠ 0 then
    { c with edits := c.edits ++ [⟨.emit, post, []⟩],
             lend := c.lend + post.length, rend := c.rend + post.length }
  else c

/-- The loop `for i, c := range d.Chunks` of `AddContext`; `bounded = false` is the loop before
commit 67e3ccb (no `before`/`after` trimming).  `before` may be negative in Go and is clamped by
`max(0, …)`: the truncated subtraction is that clamp. -/
def addCtxLoop [DecidableEq α] (bounded : Bool) (L R : List α) (n : Nat) :
    Nat → List (Chunk α) → Option (List (Chunk α))
  | _, [] => some []
  | prevEnd, c :: rest =>
    let before := c.lstart - prevEnd
    let after := match rest with
      | [] => L.length + 1 - c.lend
      | d :: _ => d.lstart - c.lend
    match findContext? L R c n with
    | none => none
    | some (pre, post) =>
      let pre := if bounded then pre.drop (pre.length - min pre.length before) else pre
      let post := if bounded then post.take (min post.length after) else post
      (addCtxLoop bounded L R n c.lend rest).map fun rest' => withCtx c pre post :: rest'

/-- `AddContext` on the chunk list (`none` = index panic in `findContext`) -/
def addContextWith [DecidableEq α] (bounded : Bool) (L R : List α) (n : Nat)
    (cs : List (Chunk α)) : Option (List (Chunk α)) :=
  if n = 0 ∨ cs.length = 0 then some cs else addCtxLoop bounded L R n 1 cs

def addContextChunks [DecidableEq α] (L R : List α) (n : Nat) (cs : List (Chunk α)) :
    Option (List (Chunk α)) :=
  addContextWith Gen.MdiffFmt.addContextBoundsGap L R n cs

/-- `(*Diff).AddContext(n)`; `Edits` is not touched -/
def Diff.addContext? [DecidableEq α] (d : Diff α) (n : Nat) : Option (Diff α) :=
  (addContextChunks d.left d.right n d.chunks).map fun cs => { d with chunks := cs }

/-! ## UnifyChunks -/

/-- the two panics of `UnifyChunks` -/
inductive UErr where
  | nilDeref     -- `end.Op` / `start.Op` with `slice.PtrAt` = nil
  | mergeFailed  -- `panic("diff: context merge did not work correctly")`
deriving DecidableEq, Repr

/-- the overlap-trimming block `if lap > 0 { … }` -/
def trimOverlap (last c : Chunk α) (lap : Nat) : Except UErr (Chunk α × Chunk α) :=
  match last.edits.getLast? with
  | none => .error .nilDeref
  | some e =>
    if e.op = .emit then
      let edits' :=
        if lap ≥ e.X.length then last.edits.dropLast
        else last.edits.dropLast ++ [{ e with X := e.X.take (e.X.length - lap) }]
      .ok ({ last with edits := edits', lend := last.lend - lap, rend := last.rend - lap }, c)
    else
      match c.edits.head? with
      | none => .error .nilDeref
      | some s =>
        if s.op = .emit then
          let edits' :=
            if lap ≥ s.X.length then c.edits.tail
            else { s with X := s.X.drop lap } :: c.edits.tail
          .ok (last, { c with edits := edits', lstart := c.lstart + lap, rstart := c.rstart + lap })
        else .ok (last, c)

/-- `if end.Op == slice.OpEmit && start.Op == slice.OpEmit { … }` -/
def fuseBoundary (last c : Chunk α) : Except UErr (Chunk α × Chunk α) :=
  match last.edits.getLast? with
  | none => .error .nilDeref
  | some e =>
    if e.op = .emit then
      match c.edits.head? with
      | none => .error .nilDeref
      | some s =>
        if s.op = .emit then
          .ok ({ last with edits := last.edits.dropLast ++ [{ e with X := e.X ++ s.X }],
                           lend := last.lend + s.X.length, rend := last.rend + s.X.length },
               { c with edits := c.edits.tail,
                        lstart := c.lstart + s.X.length, rstart := c.rstart + s.X.length })
        else .ok (last, c)
    else .ok (last, c)

/-- the body of the loop for a chunk `c` that abuts or overlaps `last` (`c.LStart <= last.LEnd`):
the result replaces `last` -/
def mergeInto (last c : Chunk α) : Except UErr (Chunk α) := do
  let lap := last.lend - c.lstart
  let (last, c) ←
    if lap > 0 then do
      let (last, c) ← trimOverlap last c lap
      if c.lstart < last.lend then throw .mergeFailed
      pure (last, c)
    else pure (last, c)
  let (last, c) ← fuseBoundary last c
  pure { last with lend := c.lend, rend := c.rend, edits := last.edits ++ c.edits }

/-- `for _, c := range cs[1:]` with `merged = init ++ [last]` -/
def unifyLoop : List (Chunk α) → Chunk α → List (Chunk α) → Except UErr (List (Chunk α))
  | init, last, [] => .ok (init ++ [last])
  | init, last, c :: cs =>
    if c.lstart > last.lend then unifyLoop (init ++ [last]) c cs
    else
      match mergeInto last c with
      | .error e => .error e
      | .ok last' => unifyLoop init last' cs

/-- `UnifyChunks(cs)` -/
def unifyChunks : List (Chunk α) → Except UErr (List (Chunk α))
  | [] => .ok []
  | c :: cs => unifyLoop [] c cs

/-- `(*Diff).Unify()`; `Edits` is not touched -/
def Diff.unify? (d : Diff α) : Except UErr (Diff α) :=
  (unifyChunks d.chunks).map fun cs => { d with chunks := cs }

end MdsVerif.Model.Mdiff
