/-!
# Model of `heapq.Queue` (heapq/heapq.go)

Array-backed binary heap with position reports.  The model is parametric in a
configuration `Cfg` (parent/child index arithmetic, whether `pop` repairs
upwards) that is *regenerated from the Go source* (`Gen.Heapq`), so that the
recorded defects F1 (`par := i/2`) and F2 (no sift-up in `pop`) are carried by
the model exactly as the code has them.

`lt a b` stands for `cmp(a, b) < 0`: the code only ever tests `cmp(..) < 0` and
`cmp(..) >= 0`.  `log` is the sequence of `move(value, index)` callbacks, most
recent first.  All index accesses are in range by construction whenever
`parent i < i` and `left i > i` (the loops test `lc < len`, `rc < len`,
`i > 0`); `getD`/`set` totalise the remaining, unreachable, cases.
-/
namespace MdsVerif.Model.Heapq

structure Cfg where
  parent : Nat → Nat
  left : Nat → Nat
  right : Nat → Nat          -- of the left child index
  heapifyStart : Nat → Nat
  popSiftsUp : Bool

variable {α : Type} [Inhabited α]

structure H (α : Type) where
  data : List α
  log : List (α × Nat) := []
deriving Repr

def H.get (h : H α) (i : Nat) : α := h.data.getD i default
def H.len (h : H α) : Nat := h.data.length

/-- `q.move(q.data[i], i)` -/
def H.report (h : H α) (i : Nat) : H α := { h with log := (h.get i, i) :: h.log }

/-- `swap(i, j)`: exchange, then report `i`, then `j` -/
def H.swap (h : H α) (i j : Nat) : H α :=
  let a := h.get i; let b := h.get j
  (({ h with data := (h.data.set i b).set j a } : H α).report i).report j

/-- `pushUp(i)`; `fuel` bounds the loop (`i + 1` suffices when `parent i < i`) -/
def pushUp (cfg : Cfg) (lt : α → α → Bool) : Nat → H α → Nat → H α × Nat
  | 0, h, i => (h, i)
  | fuel + 1, h, i =>
    if i > 0 then
      let par := cfg.parent i
      if !(lt (h.get i) (h.get par)) then (h, i)
      else pushUp cfg lt fuel (h.swap i par) par
    else (h, i)

/-- `pushDown(i)`; `fuel` bounds the loop (`len` suffices when `left i > i`) -/
def pushDown (cfg : Cfg) (lt : α → α → Bool) : Nat → H α → Nat → H α × Nat
  | 0, h, i => (h, i)
  | fuel + 1, h, i =>
    let lc := cfg.left i
    if lc < h.len then
      let min := i
      let min := if lt (h.get lc) (h.get min) then lc else min
      let rc := cfg.right lc
      let min := if rc < h.len && lt (h.get rc) (h.get min) then rc else min
      if min = i then (h, i)
      else pushDown cfg lt fuel (h.swap i min) min
    else (h, i)

/-- `for i := start; i >= 0; i-- { body(i) }` -/
def downFrom (body : H α → Nat → H α) : Nat → H α → H α
  | 0, h => body h 0
  | i + 1, h => downFrom body i (body h (i + 1))

/-- `pop(i)`, precondition `i < len` -/
def pop (cfg : Cfg) (lt : α → α → Bool) (h : H α) (i : Nat) : H α × α :=
  let out := h.get i
  let n := h.len - 1
  if n = 0 then ({ h with data := [] }, out)
  else
    -- q.data[i], q.data[n] = q.data[n], out ; q.move(q.data[i], i) ; q.data = q.data[:n]
    let h1 : H α := { h with data := (h.data.set i (h.get n)).set n out }
    let h2 := h1.report i
    let h3 : H α := { h2 with data := h2.data.take n }
    let (h4, j) := pushDown cfg lt h3.len h3 i
    -- hypothetical repair of F2 (`popSiftsUp`; false for the pinned source): sift up if the element
    -- did not move down.  The call is guarded by `i < n`: when the last slot was removed there is no
    -- element at `i` (an unguarded `q.pushUp(i)` panics in Go with index out of range).
    if cfg.popSiftsUp && (j = i && i < h3.len) then ((pushUp cfg lt (i + 1) h4 i).1, out) else (h4, out)

def newWithData (cfg : Cfg) (lt : α → α → Bool) (data : List α) : H α :=
  let h : H α := { data := data }
  downFrom (fun h i => (pushDown cfg lt h.len h i).1) (cfg.heapifyStart h.len) h

def reorder (cfg : Cfg) (lt : α → α → Bool) (h : H α) : H α :=
  downFrom (fun h i => (pushDown cfg lt h.len h i).1) (cfg.heapifyStart h.len) h

/-- `Set(vs)`: copy, then for `i := len-1 .. 0`: report, pushDown -/
def set (cfg : Cfg) (lt : α → α → Bool) (h : H α) (vs : List α) : H α :=
  let h : H α := { h with data := vs }
  match vs.length with
  | 0 => h
  | n + 1 => downFrom (fun h i => (pushDown cfg lt h.len (h.report i) i).1) n h

def add (cfg : Cfg) (lt : α → α → Bool) (h : H α) (v : α) : H α × Nat :=
  let n := h.len
  let h1 := ({ h with data := h.data ++ [v] } : H α).report n
  pushUp cfg lt (n + 1) h1 n

def clear (h : H α) : H α := { h with data := [] }

def front (h : H α) : α := h.get 0   -- zero value when empty
def peek (h : H α) (n : Nat) : Option α := h.data[n]?

/-- `heapq.Sort(cmp, vs)`: heapify under the reversed comparison, then pop everything; each `pop(0)`
parks the removed element at index `n` of the backing array, so the array ends up holding the
popped elements in reverse order of removal. -/
def sortLoop (cfg : Cfg) (lt : α → α → Bool) : Nat → H α → List α → List α
  | 0, _, acc => acc
  | fuel + 1, h, acc =>
    if h.len = 0 then acc
    else let (h', out) := pop cfg lt h 0; sortLoop cfg lt fuel h' (out :: acc)

def sort (cfg : Cfg) (lt : α → α → Bool) (vs : List α) : List α :=
  if vs.length < 2 then vs
  else
    let rlt : α → α → Bool := fun a b => lt b a   -- rcmp(a, b) = -cmp(a, b)
    sortLoop cfg rlt vs.length (newWithData cfg rlt vs) []

/-! ## histories -/

inductive Op (α : Type) where
  | add (v : α) | pop | remove (i : Nat) | set (vs : List α) | reorder (rev : Bool) | clear
  | newWithData (vs : List α) (rev : Bool)
  | front | peek (i : Nat) | len
deriving Repr

inductive Out (α : Type) where
  | unit | idx (i : Nat) | opt (o : Option α) | val (a : α) | nat (n : Nat)
deriving Repr, DecidableEq

/-- queue state: heap + current comparison direction (`rev`: the reversed comparison is installed) -/
structure S (α : Type) where
  h : H α := { data := [] }
  rev : Bool := false

def S.lt (lt : α → α → Bool) (s : S α) : α → α → Bool := if s.rev then fun a b => lt b a else lt

def step (cfg : Cfg) (lt : α → α → Bool) (s : S α) : Op α → S α × Out α
  | .add v => let (h, i) := add cfg (s.lt lt) s.h v; ({ s with h := h }, .idx i)
  | .pop =>
    if s.h.len = 0 then (s, .opt none)
    else let (h, v) := pop cfg (s.lt lt) s.h 0; ({ s with h := h }, .opt (some v))
  | .remove i =>
    if i ≥ s.h.len then (s, .opt none)
    else let (h, v) := pop cfg (s.lt lt) s.h i; ({ s with h := h }, .opt (some v))
  | .set vs => ({ s with h := set cfg (s.lt lt) s.h vs }, .unit)
  | .reorder rev => let s' := { s with rev := rev }; ({ s' with h := reorder cfg (s'.lt lt) s'.h }, .unit)
  | .clear => ({ s with h := clear s.h }, .unit)
  | .newWithData vs rev =>
    let s' : S α := { h := { data := [], log := s.h.log }, rev := rev }
    ({ s' with h := { newWithData cfg (s'.lt lt) vs with log := s.h.log } }, .unit)
  | .front => (s, .val (front s.h))
  | .peek i => (s, .opt (peek s.h i))
  | .len => (s, .nat s.h.len)

end MdsVerif.Model.Heapq
