import MdsVerif.Gen.Small
/-!
# Model of `mbits` (mbits/mbits.go): `Zero`, `LeadingZeroes`, `TrailingZeroes`

The slice is a `List UInt8`; **every access is checked**: a byte read/write at
`i` needs `i < len`, a 64-bit word access through `unsafe.Pointer(&data[i])`
needs all of `i … i+7` inside the slice (Go only bounds-checks `&data[i]`; the
other seven bytes are touched without any check, which is exactly what the
theorems have to exclude).  An access outside the slice makes the result
`oob`; loops are structural recursion on fuel and running out of it is the
distinct result `fuel`.  The theorems (Props/C20) show that both never happen.

The 64-bit value is only ever compared with 0, so the word read returns
"some byte of the word is non-zero" (endianness is irrelevant).

The chunk boundaries (`n &^ 7`, `n - n&^7`), the strides (`i += 8`, `i -= 8`, `nz += 8`), the loop
tests, `n-8` and the `i+7` of `TrailingZeroes` are definitions of `MdsVerif.Gen.Small`, regenerated
from mbits/mbits.go on every run by `extract/small.go` (DESIGN.md §3.1); `Props.C20.C20_current`
pins them.
-/
namespace MdsVerif.Model.Mbits

abbrev Bytes := List UInt8

inductive Res (α : Type) where
  | ok (a : α)
  | oob            -- an access outside the slice (Go: index panic, or silent unsafe access)
  | fuel           -- loop fuel exhausted (never happens: theorem)
deriving Repr, DecidableEq

/-- `n &^ 7` -/
def clear3 (n : Nat) : Nat := n - (n &&& 7)

/-- `data[i]` -/
def rd (d : Bytes) (i : Nat) : Option UInt8 := d[i]?

/-- `data[i]` for a Go `int` index (negative ⇒ out of range) -/
def rdI (d : Bytes) (i : Int) : Option UInt8 := if i < 0 then none else d[i.toNat]?

/-- `*(*uint64)(unsafe.Pointer(&data[i])) != 0`; `none` if any of the eight bytes is outside -/
def wordNZ (d : Bytes) (i : Nat) : Option Bool :=
  if i + 8 ≤ d.length then some (((d.drop i).take 8).any (· != 0)) else none

def wordNZI (d : Bytes) (i : Int) : Option Bool := if i < 0 then none else wordNZ d i.toNat

/-- `*(*uint64)(unsafe.Pointer(&data[i])) = 0` -/
def wrWord (d : Bytes) (i : Nat) : Option Bytes :=
  if i + 8 ≤ d.length then some (d.take i ++ List.replicate 8 0 ++ d.drop (i + 8)) else none

/-- `data[i] = 0` -/
def wrByte (d : Bytes) (i : Nat) : Option Bytes :=
  if i < d.length then some (d.set i 0) else none

/-! ### Zero -/

/-- `for ; i < n; i++ { data[i] = 0 }` -/
def zTail (n : Nat) : Nat → Nat → Bytes → Res Bytes
  | 0, _, _ => .fuel
  | f+1, i, d =>
    if Gen.Small.zeroTailCond i n then
      match wrByte d i with
      | none => .oob
      | some d' => zTail n f (i + 1) d'
    else .ok d

/-- `for ; i < m; i += 8 { *(*uint64)(&data[i]) = 0 }` followed by the byte loop -/
def zWords (n m : Nat) : Nat → Nat → Bytes → Res Bytes
  | 0, _, _ => .fuel
  | f+1, i, d =>
    if Gen.Small.zeroWordCond i m then
      match wrWord d i with
      | none => .oob
      | some d' => zWords n m f (i + Gen.Small.zeroStride) d'
    else zTail n (n + 1) i d

/-- `Zero(data)`: the returned `n` and the slice afterwards -/
def zero (d : Bytes) : Res (Nat × Bytes) :=
  let n := d.length
  let m := Gen.Small.zeroChunkEnd n   -- `m := n &^ 7`
  match zWords n m (n + 1) 0 d with
  | .ok d' => .ok (n, d')
  | .oob => .oob
  | .fuel => .fuel

/-! ### LeadingZeroes -/

/-- `for data[i] == 0 { i++ }; return i` (no bound test in the Go loop) -/
def lzInner (d : Bytes) : Nat → Nat → Res Nat
  | 0, _ => .fuel
  | f+1, i =>
    match rd d i with
    | none => .oob
    | some b => if b == 0 then lzInner d f (i + 1) else .ok i

/-- `for i < n && data[i] == 0 { i++ }; return i` -/
def lzTail (d : Bytes) (n : Nat) : Nat → Nat → Res Nat
  | 0, _ => .fuel
  | f+1, i =>
    if Gen.Small.lzTailCond i n then
      match rd d i with
      | none => .oob
      | some b => if b == 0 then lzTail d n f (i + 1) else .ok i
    else .ok i

/-- the word loop `for ; i < m; i += 8` -/
def lzWords (d : Bytes) (n m : Nat) : Nat → Nat → Res Nat
  | 0, _ => .fuel
  | f+1, i =>
    if Gen.Small.lzWordCond i m then
      match wordNZ d i with
      | none => .oob
      | some true => lzInner d (n + 1) i
      | some false => lzWords d n m f (i + Gen.Small.lzStride)
    else lzTail d n (n + 1) i

def leadingZeroes (d : Bytes) : Res Nat :=
  let n := d.length
  let m := Gen.Small.lzChunkEnd n   -- `m := n &^ 7`
  lzWords d n m (n + 1) 0

/-! ### TrailingZeroes (Go `int` indices: `i` and `m` go below zero) -/

/-- `for data[i+7] == 0 { i--; nz++ }; return nz` -/
def tzInner (d : Bytes) : Nat → Int → Nat → Res Nat
  | 0, _, _ => .fuel
  | f+1, i, nz =>
    match rdI d (Gen.Small.tzWordLast i) with
    | none => .oob
    | some b => if b == 0 then tzInner d f (i - 1) (nz + 1) else .ok nz

/-- `for …; m >= 0 && data[m] == 0; m-- { nz++ }; return nz` -/
def tzTail (d : Bytes) : Nat → Int → Nat → Res Nat
  | 0, _, _ => .fuel
  | f+1, m, nz =>
    if Gen.Small.tzTailCond m then
      match rdI d m with
      | none => .oob
      | some b => if b == 0 then tzTail d f (m - 1) (nz + 1) else .ok nz
    else .ok nz

/-- `for ; i >= m; i -= 8 { … nz += 8 }` then `m--` and the byte loop -/
def tzWords (d : Bytes) (n : Nat) (m : Int) : Nat → Int → Nat → Res Nat
  | 0, _, _ => .fuel
  | f+1, i, nz =>
    if Gen.Small.tzWordCond i m then
      match wordNZI d i with
      | none => .oob
      | some true => tzInner d (n + 1) i nz
      | some false => tzWords d n m f (i - Gen.Small.tzStride) (nz + Gen.Small.tzCountInc)
    else tzTail d (n + 1) (m - 1) nz

def trailingZeroes (d : Bytes) : Res Nat :=
  let n := d.length
  let m : Int := (Gen.Small.tzRagged n : Nat)   -- `m := n - n&^7`
  tzWords d n m (n + 1) (Gen.Small.tzStart n) 0

end MdsVerif.Model.Mbits
