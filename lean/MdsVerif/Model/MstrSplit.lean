import MdsVerif.Spec.Bytes
/-!
# Model of `mstr.Lines` and `mstr.Split` (mstr/mstr.go) and of the library loops below them

```go
func Lines(s string) []string { if s == "" { return nil }; return strings.Split(strings.TrimSuffix(s, "\n"), "\n") }
func Split(s, sep string) []string { if s == "" { return nil }; return strings.Split(s, sep) }
```

Strings are byte lists.  The result type is `Option (List Bytes)`: `none` is the
**nil slice**, `some ps` a non-nil slice with elements `ps`.  The two `mstr`
functions are thin; what decides the behaviour is `strings.Split` of the Go
1.23 standard library (`strings.genSplit(s, sep, 0, -1)`, `strings.explode`,
`strings.Count`, `stringslite.TrimSuffix`), so the model mirrors *those* loops
statement by statement:

* `index s sep` — `strings.Index`: the first `m` with `s[m:m+len(sep)] == sep`,
  by a naive left-to-right scan (`Index("", "") = Index(s, "") = 0`).  Go's
  `Index` has fast paths (`bytealg.IndexString`, Rabin–Karp, `IndexByte`);
  those are **trusted** to compute the same number.
* `count s sep` — the generic loop of `strings.Count` for a non-empty
  substring (`n := 0; for { i := Index(s, substr); if i == -1 { return n }; n++;
  s = s[i+len(substr):] }`); the single-byte fast path `bytealg.CountString`
  is trusted to agree with it.  For the empty substring `Count` is
  `RuneCountInString(s) + 1`.
* `genSplitLoop` — the loop of `genSplit` **with** its bound `i < n`, preceded
  in `genSplit` by `n = Count(s, sep) + 1`, the clamp `if n > len(s)+1 { n =
  len(s)+1 }` and `n--`; the slice `a` that is filled at increasing `i` and
  returned as `a[:i+1]` is the list of pieces in order.
* `explode` — `l := utf8.RuneCountInString(s); n = l; for i := 0; i < n-1; i++
  { _, size := DecodeRuneInString(s); a[i] = s[:size]; s = s[size:] }; if n > 0
  { a[n-1] = s }`.  `decodeSize` is the model of the *size* returned by
  `utf8.DecodeRuneInString`: 0 on the empty string, otherwise `runeSize s` =
  the length of the well-formed UTF-8 sequence (Unicode Table 3-7,
  `Spec.Bytes.charLen`) at the head of `s`, and 1 when there is none
  (`RuneError, 1`).  `runeCount` is the matching sequential count (one rune per
  `runeSize` step) — the model of `utf8.RuneCountInString`.  Both are tied to
  the library by the exhaustive empty-separator scope of stream `C20.split`
  (valid, truncated and damaged UTF-8).
* `trimSuffix` — `stringslite.TrimSuffix` (`HasSuffix` + reslice).

All loops are structural recursions on explicit fuel (`len(s) + 1`), so that
`decide` evaluates the model on concrete inputs.  **Running out of fuel is
reported as `none`**, i.e. it would be observed as a nil slice and the
correspondence check would flag it; `Props/C20more.lean` proves that for a
non-empty `s` the result is never `none` (fuel always suffices).  `List.take` /
`List.drop` are total where Go's slice expressions panic; `index_bound`
(`index s sep = some m → m + len(sep) ≤ len(s)`) and `runeSize_le` show that
every slice expression of the loops is within bounds.
-/
namespace MdsVerif.Model.MstrSplit
open MdsVerif.Spec.Bytes (charLen)

abbrev Bytes := List UInt8

/-- `strings.Index(s, sep)`: `some m` for the first occurrence, `none` for `-1` -/
def index : Bytes → Bytes → Option Nat
  | [], sep => if sep.isEmpty then some 0 else none
  | b :: t, sep => if sep.isPrefixOf (b :: t) then some 0 else (index t sep).map (· + 1)

/-- the loop of `strings.Count(s, substr)` for `substr ≠ ""`; `none` = out of fuel -/
def countLoop : Nat → Bytes → Bytes → Nat → Option Nat
  | 0, _, _, _ => none
  | f+1, s, sep, n =>
    match index s sep with
    | none => some n                                           -- `if i == -1 { return n }`
    | some i => countLoop f (s.drop (i + sep.length)) sep (n + 1)  -- `n++; s = s[i+len(substr):]`

/-- size returned by `utf8.DecodeRuneInString(s)` for `s ≠ ""` -/
def runeSize (s : Bytes) : Nat :=
  let k := charLen s
  if k = 0 then 1 else k

/-- size returned by `utf8.DecodeRuneInString(s)` -/
def decodeSize (s : Bytes) : Nat := if s.isEmpty then 0 else runeSize s

/-- sequential rune count on fuel -/
def runeCountF : Nat → Bytes → Nat
  | _, [] => 0
  | 0, _ :: _ => 0
  | f+1, b :: t => runeCountF f ((b :: t).drop (runeSize (b :: t))) + 1

/-- `utf8.RuneCountInString(s)` -/
def runeCount (s : Bytes) : Nat := runeCountF s.length s

/-- `strings.Count(s, substr)` -/
def count (s sep : Bytes) : Option Nat :=
  if sep.isEmpty then some (runeCount s + 1) else countLoop (s.length + 1) s sep 0

/-- the loop of `genSplit` (`sepSave = 0`), at loop variable `i` with bound `n`:
`for i < n { m := Index(s, sep); if m < 0 { break }; a[i] = s[:m]; s = s[m+len(sep):]; i++ };
a[i] = s; return a[:i+1]` -/
def genSplitLoop : Nat → Bytes → Bytes → Nat → Nat → Option (List Bytes)
  | 0, _, _, _, _ => none
  | f+1, s, sep, n, i =>
    if i < n then
      match index s sep with
      | none => some [s]
      | some m => (genSplitLoop f (s.drop (m + sep.length)) sep n (i + 1)).map (s.take m :: ·)
    else some [s]

/-- the loop of `explode` at loop variable `i` (`n ≥ 0`, so `i < n-1` is `i+1 < n`) -/
def explodeLoop : Nat → Bytes → Nat → Nat → Option (List Bytes)
  | 0, _, _, _ => none
  | f+1, s, n, i =>
    if i + 1 < n then
      let size := decodeSize s
      (explodeLoop f (s.drop size) n (i + 1)).map (s.take size :: ·)
    else if n > 0 then some [s] else some []

/-- `explode(s, -1)` -/
def explode (s : Bytes) : Option (List Bytes) :=
  let n := runeCount s
  explodeLoop (s.length + 1) s n 0

/-- `strings.Split(s, sep)` = `genSplit(s, sep, 0, -1)` -/
def genSplit (s sep : Bytes) : Option (List Bytes) :=
  if sep.isEmpty then explode s
  else
    match count s sep with
    | none => none
    | some c =>
      let n := c + 1                                           -- `n = Count(s, sep) + 1`
      let n := if n > s.length + 1 then s.length + 1 else n    -- the clamp
      let n := n - 1                                           -- `n--`
      genSplitLoop (s.length + 1) s sep n 0

/-- `stringslite.TrimSuffix(s, suffix)` -/
def trimSuffix (s suf : Bytes) : Bytes :=
  if s.length ≥ suf.length ∧ s.drop (s.length - suf.length) = suf then s.take (s.length - suf.length) else s

/-- `strings.TrimSuffix(s, "\n")` -/
def trimSuffixNL (s : Bytes) : Bytes := trimSuffix s [10]

/-- `mstr.Split` -/
def split (s sep : Bytes) : Option (List Bytes) :=
  if s.isEmpty then none else genSplit s sep

/-- `mstr.Lines` -/
def lines (s : Bytes) : Option (List Bytes) :=
  if s.isEmpty then none else genSplit (trimSuffixNL s) [10]

/-- `strings.Join(ps, sep)`, used to state the theorems -/
def join (sep : Bytes) : List Bytes → Bytes
  | [] => []
  | [p] => p
  | p :: q :: r => p ++ sep ++ join sep (q :: r)

end MdsVerif.Model.MstrSplit
