import MdsVerif.Gen.Slice
/-!
# Model of the slice utilities of `slice/slice.go`

A Go slice is a header `(off, len, cap)` into a backing array.  The backing
array is the shared memory `mem : List α`, threaded through the functions that
write (Partition, Rotate, `append`), so that aliasing between the argument and
the subslices a function returns is expressible: two headers into the same
`mem` overlap exactly when their index ranges do.

* `window mem h` is what `vs[0], …, vs[len-1]` denote; `store` writes a window back.
* Go panics are explicit (`Res.panic`), an exhausted loop fuel is `Res.hang`
  (the theorems show it never happens).
* The in-place algorithms (`partitionW`, `rotateW`) are the Go loops, statement
  by statement, on the window (`vs[i]` ↦ `getD i`, `vs[i] = v` ↦ `set i v`);
  the slicing expressions (`vs[:i:i]`, `vs[i:end:end]`, `vs[:n]`, …) go through
  `slice2`/`slice3`, which carry Go's bounds checks.
* The guards, the arithmetic and the slicing shape (clipped `vs[i:end:end]` or not) of
  Partition, sliceCheck, indexCheck, Rotate, gcd, Chunks, Batches, Head, Tail, Stripe are
  definitions of `MdsVerif.Gen.Slice`, regenerated from slice/slice.go on every run by
  `extract/slice.go` (DESIGN.md §3.1); `Props.C17.C17_current` pins them.
-/
namespace MdsVerif.Model.Slice

/-- result of a Go call: a value, a panic (with its class), or a loop that ran out of fuel -/
inductive Res (β : Type) where
  | ok (b : β)
  | panic (msg : String)
  | hang
deriving Repr, DecidableEq

def Res.bind {β γ : Type} : Res β → (β → Res γ) → Res γ
  | .ok b, f => f b
  | .panic m, _ => .panic m
  | .hang, _ => .hang

def Res.map {β γ : Type} (f : β → γ) : Res β → Res γ
  | .ok b => .ok (f b)
  | .panic m => .panic m
  | .hang => .hang

/-- slice header: offset into the backing array, length, capacity -/
structure Hdr where
  off : Nat
  len : Nat
  cap : Nat
deriving Repr, DecidableEq, Inhabited

/-- the header denotes a slice of `mem` -/
def Hdr.WF (h : Hdr) (memLen : Nat) : Prop := h.len ≤ h.cap ∧ h.off + h.cap ≤ memLen

/-- index one past the last element -/
def Hdr.stop (h : Hdr) : Nat := h.off + h.len

variable {α : Type} [Inhabited α]

/-- the elements `vs[0..len)` -/
def window (mem : List α) (h : Hdr) : List α := (mem.drop h.off).take h.len

/-- write `w` (of length `h.len`) over `vs[0..len)` -/
def store (mem : List α) (h : Hdr) (w : List α) : List α :=
  mem.take h.off ++ w ++ mem.drop (h.off + h.len)

/-- `s[lo:hi]` with Go's bounds check `0 ≤ lo ≤ hi ≤ cap(s)` -/
def slice2 (h : Hdr) (lo hi : Int) : Res Hdr :=
  if 0 ≤ lo ∧ lo ≤ hi ∧ hi ≤ h.cap then
    .ok { off := h.off + lo.toNat, len := (hi - lo).toNat, cap := h.cap - lo.toNat }
  else .panic "bounds"

/-- `s[lo:hi:max]` with Go's bounds check `0 ≤ lo ≤ hi ≤ max ≤ cap(s)` -/
def slice3 (h : Hdr) (lo hi mx : Int) : Res Hdr :=
  if 0 ≤ lo ∧ lo ≤ hi ∧ hi ≤ mx ∧ mx ≤ h.cap then
    .ok { off := h.off + lo.toNat, len := (hi - lo).toNat, cap := (mx - lo).toNat }
  else .panic "bounds"

/-- Go's `append(s, v)`: in place when there is spare capacity (this is what makes an unclipped
subslice dangerous), otherwise a fresh array (`none`: the result no longer aliases `mem`) -/
def append (mem : List α) (h : Hdr) (v : α) : List α × Option Hdr :=
  if h.len < h.cap then (mem.set (h.off + h.len) v, some { h with len := h.len + 1 })
  else (mem, none)

/-! ### Partition -/

/-- `vs[i], vs[j] = vs[j], vs[i]` -/
def swap (vs : List α) (i j : Nat) : List α :=
  (vs.set i (vs.getD j default)).set j (vs.getD i default)

/-- `for i < len(vs) && keep(vs[i]) { i++ }` -/
def scanKept (keep : α → Bool) (vs : List α) : Nat → Nat → Nat
  | 0, i => i
  | f + 1, i => if i < vs.length ∧ keep (vs.getD i default) = true then scanKept keep vs f (i + 1) else i

/-- `for j < len(vs) && !keep(vs[j]) { j++ }` -/
def scanUnkept (keep : α → Bool) (vs : List α) : Nat → Nat → Nat
  | 0, j => j
  | f + 1, j => if j < vs.length ∧ keep (vs.getD j default) = false then scanUnkept keep vs f (j + 1) else j

/-- the main loop `for i < len(vs) { … }`; returns the rearranged window and the final `i` -/
def partLoop (keep : α → Bool) : Nat → List α → Nat → Nat → Option (List α × Nat)
  | 0, _, _, _ => none
  | f + 1, vs, i, j =>
    if i < vs.length then
      let j := scanUnkept keep vs (vs.length - j) j
      if Gen.Slice.partitionDone j vs.length then some (vs, i)   -- `if j == len(vs) { return vs[:i:i] }`
      else partLoop keep f (swap vs i j) (i + 1) (j + 1)
    else some (vs, i)

/-- the body of `Partition` after the `len(vs) == 0` test, on the window -/
def partitionW (keep : α → Bool) (vs : List α) : Option (List α × Nat) :=
  let i := scanKept keep vs vs.length 0
  partLoop keep (vs.length + 1) vs i (Gen.Slice.partitionJ i)   -- `j := i + 1`

/-- `Partition(vs, keep)`: new memory and the returned header -/
def partition (keep : α → Bool) (mem : List α) (h : Hdr) : Res (List α × Hdr) :=
  if Gen.Slice.partitionEmpty h.len then .ok (mem, h)          -- `return vs` (NOT clipped)
  else match partitionW keep (window mem h) with
    | none => .hang
    | some (w, i) =>   -- `vs[:i:i]`
      (if Gen.Slice.partitionClips then slice3 h 0 i i else slice2 h 0 i).map fun r => (store mem h w, r)

/-! ### Rotate -/

def sliceCheck (i n : Int) : Int × Bool :=
  let i := if Gen.Slice.sliceCheckNeg i then Gen.Slice.sliceCheckNorm i n else i
  (i, Gen.Slice.sliceCheckOk i n)

def indexCheck (i n : Int) : Int × Bool :=
  let i := if Gen.Slice.indexCheckNeg i then Gen.Slice.indexCheckNorm i n else i
  (i, Gen.Slice.indexCheckOk i n)

/-- `for b != 0 { a, b = b, a%b }; return a` -/
def gcdLoop : Nat → Nat → Nat → Option Nat
  | 0, _, _ => none
  | f + 1, a, b =>
    if Gen.Slice.gcdContinues a b then gcdLoop f (Gen.Slice.gcdNextA a b) (Gen.Slice.gcdNextB a b) else some a

/-- inner `for { … }` of Rotate for the cycle that starts at `j` -/
def rotInner (n k j : Nat) : Nat → List α → Nat → α → Option (List α)
  | 0, _, _, _ => none
  | f + 1, ss, i, cur =>
    let next := Gen.Slice.rotateNext i k n
    let nextv := ss.getD next default
    let ss := ss.set next cur
    if Gen.Slice.rotateCycleDone next j then some ss else rotInner n k j f ss next nextv

/-- `for j := range g { … }` -/
def rotOuter (n k : Nat) : Nat → Nat → List α → Option (List α)
  | 0, _, ss => some ss
  | c + 1, j, ss =>
    match rotInner n k j (n + 1) ss j (ss.getD j default) with
    | some ss => rotOuter n k c (j + 1) ss
    | none => none

/-- `Rotate(ss, k)` on the window -/
def rotateW (ss : List α) (k : Int) : Res (List α) :=
  let n := ss.length
  let (k, ok) := sliceCheck k n
  if !ok then .panic "offset out of range"
  else if Gen.Slice.rotateNoop k n then .ok ss
  else
    -- `g := gcd(k, len(ss))`
    match gcdLoop (n + 1) (Gen.Slice.rotateGcdFst k.toNat n) (Gen.Slice.rotateGcdSnd k.toNat n) with
    | none => .hang
    | some g =>
      match rotOuter n k.toNat g 0 ss with
      | none => .hang
      | some ss => .ok ss

/-- `Rotate(vs, k)`: new memory -/
def rotate (mem : List α) (h : Hdr) (k : Int) : Res (List α) :=
  (rotateW (window mem h) k).map (store mem h)

/-! ### Chunks, Batches -/

/-- `for i < len(vs) { end := min(i+n, len(vs)); out = append(out, vs[i:end:end]); i = end }` -/
def chunksLoop (h : Hdr) (n : Nat) : Nat → Nat → Res (List Hdr)
  | 0, i => if Gen.Slice.chunksContinues i h.len then .hang else .ok []
  | f + 1, i =>
    if Gen.Slice.chunksContinues i h.len then
      let e := Gen.Slice.chunksEnd i n h.len
      (if Gen.Slice.chunksClip then slice3 h i e e else slice2 h i e).bind fun c =>
        (chunksLoop h n f e).map (c :: ·)
    else .ok []

def chunks (h : Hdr) (n : Int) : Res (List Hdr) :=
  if Gen.Slice.chunksPanics n then .panic "max must be positive"
  else if Gen.Slice.chunksWhole n h.len then .ok [h]
  else chunksLoop h n.toNat h.len 0

/-- `for i < len(vs) { end := i + size; if rem > 0 { end++; rem-- }; out = append(out, vs[i:end:end]); i = end }` -/
def batchesLoop (h : Hdr) (size : Nat) : Nat → Nat → Nat → Res (List Hdr)
  | 0, i, _ => if Gen.Slice.batchesContinues i h.len then .hang else .ok []
  | f + 1, i, rem =>
    if Gen.Slice.batchesContinues i h.len then
      let e := Gen.Slice.batchesEnd i size
      let (e, rem) :=
        if Gen.Slice.batchesHasRem rem then (Gen.Slice.batchesEndInc e, Gen.Slice.batchesRemDec rem) else (e, rem)
      (if Gen.Slice.batchesClip then slice3 h i e e else slice2 h i e).bind fun c =>
        (batchesLoop h size f e rem).map (c :: ·)
    else .ok []

def batches (h : Hdr) (n : Int) : Res (List Hdr) :=
  if Gen.Slice.batchesPanics n then .panic "n out of range"
  else if Gen.Slice.batchesNil n then .ok []
  else
    let n := if Gen.Slice.batchesCaps n h.len then Gen.Slice.batchesCapped n h.len else n
    -- `if n == 0 { return nil }` (present since commit fd281a1; without it `len(vs)/n` divides by zero)
    if Gen.Slice.batchesGuardsEmpty && Gen.Slice.batchesEmpty n then .ok []
    else if n = 0 then .panic "divzero"
    else batchesLoop h (Gen.Slice.batchesSize h.len n.toNat) h.len 0 (Gen.Slice.batchesRem h.len n.toNat)

/-! ### Head, Tail, Stripe, At, PtrAt -/

def head (h : Hdr) (n : Int) : Res Hdr :=
  if Gen.Slice.headWhole h.len n then .ok h else slice2 h 0 n

def tail (h : Hdr) (n : Int) : Res Hdr :=
  if Gen.Slice.tailWhole h.len n then .ok h else slice2 h (Gen.Slice.tailStart h.len n) h.len

/-- `for _, v := range vs { if i < len(v) { out = append(out, v[i]) } }` (the result is fresh) -/
def stripe : List (List α) → Int → Res (List α)
  | [], _ => .ok []
  | v :: vs, i =>
    if Gen.Slice.stripeHas i v.length then
      if 0 ≤ i then (stripe vs i).map (v.getD i.toNat default :: ·) else .panic "index"
    else stripe vs i

/-- `At(ss, i)` -/
def atIdx (ss : List α) (i : Int) : Res α :=
  let (b, ok) := indexCheck i ss.length
  if !ok then .panic "index out of range" else .ok (ss.getD b.toNat default)

/-- `PtrAt(ss, i)`: the pointer is the index into the backing array; `none` is `nil` -/
def ptrAt (h : Hdr) (i : Int) : Option Nat :=
  let (pos, ok) := indexCheck i h.len
  if ok then some (h.off + pos.toNat) else none

end MdsVerif.Model.Slice
