import MdsVerif.Model.Stree
import MdsVerif.Gen.Cursor
/-!
# Model of `stree.Cursor` (stree/cursor.go, `Tree.Cursor` / `Tree.Root` of stree/stree.go)

Core Lean only.

The Go cursor is `path []*node`, the node pointers from the root to the current node.  The
model keeps the root subtree and the list of *directions* taken (`Pos`); the Go path is the list
of subtrees along the directions (`Pos.path`), so `len(c.path) = dirs.length + 1`, `c.path[i]` is
`sub root (dirs.take i)` and the step from `c.path[j]` to `c.path[j+1]` is `dirs[j]`.

Which child `findNext`/`findPrev` test first, which child link their walk-up loops compare with, which way
`Next`/`Prev`/`Min`/`Max` descend, which child `Left`/`Right`/`HasLeft`/`HasRight` look at, the
`HasNext`/`HasPrev` formula, the truncation test and length of `Next`/`Prev`, `HasParent`'s test and `Up`'s
new length are definitions of `MdsVerif.Gen.Cursor`, which `extract/cursor.go` regenerates from cursor.go on
every run (DESIGN.md §3.1); `Props.C03.C03_current` pins every one of them (and the index expressions and
bounds of the walk-up loop, which the structural `walkUp` below does not take from there).

Modelling assumptions (stated, not verified; the correspondence stream C03 exercises them):
* a node occupies exactly one position of the tree, therefore the Go pointer test
  `c.path[i] == c.path[j].left` (where the loops of `findNext`/`findPrev` always have `i = j+1`)
  is "the step `j → j+1` is `L`", i.e. `dirs[j] = L`;
* the tree is not modified while a cursor on it is in use (the Go documentation of omap says so);
  the path of a cursor made by `Tree.Cursor`/`Tree.Root` is a parent/child chain, and every
  operation keeps it one (`WF`, proved preserved in `Proofs/Cursor`).
* a nil `*Cursor` and a cursor whose path is empty are observably the same (every method tests
  `Valid()` first, which is `c != nil && len(c.path) != 0`; `Clone` of an invalid cursor returns
  the receiver itself, which is unobservable because nothing moves an invalid cursor).  Both
  are `none`.
-/
namespace MdsVerif.Model.Cursor
open MdsVerif.Model.Stree

inductive Dir where
  | L | R
  deriving DecidableEq, Repr, Inhabited

variable {α : Type}

/-- the subtree reached from `t` by the directions (nil when they leave the tree) -/
def sub : Tree α → List Dir → Tree α
  | t, [] => t
  | .nil, _ :: _ => .nil
  | .node l _ _, .L :: ds => sub l ds
  | .node _ _ r, .R :: ds => sub r ds

def left : Tree α → Tree α
  | .nil => .nil
  | .node l _ _ => l

def right : Tree α → Tree α
  | .nil => .nil
  | .node _ _ r => r

def isNil : Tree α → Bool
  | .nil => true
  | .node _ _ _ => false

/-- the direction named by an `…IsLeft` fact of `Gen.Cursor` -/
def side (isLeft : Bool) : Dir := if isLeft then .L else .R

/-- `n.left` / `n.right` -/
def child (d : Dir) (t : Tree α) : Tree α :=
  match d with
  | .L => left t
  | .R => right t

/-- a non-empty path: root subtree and directions -/
structure Pos (α : Type) where
  root : Tree α
  dirs : List Dir
  deriving Repr

/-- `c.path[len(c.path)-1]` -/
def Pos.cur (p : Pos α) : Tree α := sub p.root p.dirs

/-- the Go slice `c.path` as subtrees, root first -/
def Pos.path (p : Pos α) : List (Tree α) :=
  (List.range (p.dirs.length + 1)).map fun i => sub p.root (p.dirs.take i)

/-- `*Cursor`; `none` = nil cursor or empty path (invalid) -/
abbrev Cursor (α : Type) := Option (Pos α)

/-- the path is a chain inside the tree: the current node exists -/
def Pos.WF (p : Pos α) : Prop := isNil p.cur = false

def WF : Cursor α → Prop
  | none => True
  | some p => p.WF

/-- `Valid` -/
def valid (c : Cursor α) : Bool := c.isSome

/-- `Clone`: `slices.Clone(c.path)` — a value copy -/
def clone (c : Cursor α) : Cursor α := c

/-- `Key`; `none` = the zero key -/
def key? : Cursor α → Option α
  | none => none
  | some p =>
    match p.cur with
    | .node _ x _ => some x
    | .nil => none

/-- `Key` -/
def key [Inhabited α] (c : Cursor α) : α := (key? c).getD default

/-- the walk-up loop shared by `findNext` (`d = L`) and `findPrev` (`d = R`):
`j := i-1; for j >= 0 { if path[i] == path[j].<d> { return j }; i = j; j-- }`.
The argument is `j+1` (= `i`); `none` = `-1`. -/
def walkUp (d : Dir) (dirs : List Dir) : Nat → Option Nat
  | 0 => none
  | j+1 => if dirs[j]? == some d then some j else walkUp d dirs j

/-- result of `findNext`/`findPrev`: `(child, -1)`, `(nil, j)`, `(nil, -1)` -/
inductive Found (α : Type) where
  | child (t : Tree α)
  | anc (j : Nat)
  | none

/-- `findNext` (precondition: valid) -/
def findNext (p : Pos α) : Found α :=
  match child (side Gen.Cursor.nextChildIsLeft) p.cur with
  | .node l x r => .child (.node l x r)
  | .nil =>
    match walkUp (side Gen.Cursor.nextWalkIsLeft) p.dirs p.dirs.length with
    | some j => .anc j
    | none => .none

/-- `findPrev` -/
def findPrev (p : Pos α) : Found α :=
  match child (side Gen.Cursor.prevChildIsLeft) p.cur with
  | .node l x r => .child (.node l x r)
  | .nil =>
    match walkUp (side Gen.Cursor.prevWalkIsLeft) p.dirs p.dirs.length with
    | some j => .anc j
    | none => .none

/-- the directions appended by `for n.left != nil { n = n.left; append }` starting at `n` -/
def spineL : Tree α → List Dir
  | .nil => []
  | .node l _ _ =>
    match l with
    | .nil => []
    | .node _ _ _ => .L :: spineL l

def spineR : Tree α → List Dir
  | .nil => []
  | .node _ _ r =>
    match r with
    | .nil => []
    | .node _ _ _ => .R :: spineR r

/-- the directions appended by the descent loops, `d` being the child link they follow -/
def spine (d : Dir) (t : Tree α) : List Dir :=
  match d with
  | .L => spineL t
  | .R => spineR t

/-- `c.path = c.path[:n]`: the first `n` nodes of the path, i.e. the first `n-1` directions; an empty path
is the invalid cursor -/
def pathTake (p : Pos α) (n : Int) : Option (Pos α) :=
  if n.toNat = 0 then none else some { p with dirs := p.dirs.take (n.toNat - 1) }

/-- `HasNext`: `n, i := c.findNext(); return n != nil || i >= 0` -/
def hasNext : Cursor α → Bool
  | none => false
  | some p =>
    match findNext p with
    | .child _ => Gen.Cursor.hasNextOf true Gen.Cursor.nextChildIdx
    | .anc j => Gen.Cursor.hasNextOf false j
    | .none => Gen.Cursor.hasNextOf false Gen.Cursor.nextNotFound

def hasPrev : Cursor α → Bool
  | none => false
  | some p =>
    match findPrev p with
    | .child _ => Gen.Cursor.hasPrevOf true Gen.Cursor.prevChildIdx
    | .anc j => Gen.Cursor.hasPrevOf false j
    | .none => Gen.Cursor.hasPrevOf false Gen.Cursor.prevNotFound

/-- `Next`: descend `min, min.left, …` (appending every node), or truncate to `path[:j+1]`, or
invalidate -/
def next : Cursor α → Cursor α
  | none => none
  | some p =>
    match findNext p with
    | .child m =>
      some { p with dirs := p.dirs ++ side Gen.Cursor.nextChildIsLeft :: spine (side Gen.Cursor.nextDescendIsLeft) m }
    | .anc j => if Gen.Cursor.nextTruncates j then pathTake p (Gen.Cursor.nextTruncLen j) else none
    | .none =>
      if Gen.Cursor.nextTruncates Gen.Cursor.nextNotFound then pathTake p (Gen.Cursor.nextTruncLen Gen.Cursor.nextNotFound)
      else none

def prev : Cursor α → Cursor α
  | none => none
  | some p =>
    match findPrev p with
    | .child m =>
      some { p with dirs := p.dirs ++ side Gen.Cursor.prevChildIsLeft :: spine (side Gen.Cursor.prevDescendIsLeft) m }
    | .anc j => if Gen.Cursor.prevTruncates j then pathTake p (Gen.Cursor.prevTruncLen j) else none
    | .none =>
      if Gen.Cursor.prevTruncates Gen.Cursor.prevNotFound then pathTake p (Gen.Cursor.prevTruncLen Gen.Cursor.prevNotFound)
      else none

def hasLeft : Cursor α → Bool
  | none => false
  | some p => !isNil (child (side Gen.Cursor.hasLeftIsLeft) p.cur)

def hasRight : Cursor α → Bool
  | none => false
  | some p => !isNil (child (side Gen.Cursor.hasRightIsLeft) p.cur)

/-- `HasParent`: `len(c.path) > 1` -/
def hasParent : Cursor α → Bool
  | none => false
  | some p => Gen.Cursor.hasParentTest (p.dirs.length + 1 : Nat)

def goLeft : Cursor α → Cursor α
  | none => none
  | some p =>
    if isNil (child (side Gen.Cursor.leftIsLeft) p.cur) then none
    else some { p with dirs := p.dirs ++ [side Gen.Cursor.leftIsLeft] }

def goRight : Cursor α → Cursor α
  | none => none
  | some p =>
    if isNil (child (side Gen.Cursor.rightIsLeft) p.cur) then none
    else some { p with dirs := p.dirs ++ [side Gen.Cursor.rightIsLeft] }

/-- `Up`: `c.path = c.path[:len(c.path)-1]`, which empties the path at the root -/
def up : Cursor α → Cursor α
  | none => none
  | some p => pathTake p (Gen.Cursor.upLen (p.dirs.length + 1 : Nat))

def min : Cursor α → Cursor α
  | none => none
  | some p => some { p with dirs := p.dirs ++ spine (side Gen.Cursor.minIsLeft) p.cur }

def max : Cursor α → Cursor α
  | none => none
  | some p => some { p with dirs := p.dirs ++ spine (side Gen.Cursor.maxIsLeft) p.cur }

/-- `Inorder(yield)`: `(consumer state, completed)`; nothing happens on an invalid cursor -/
def inorderF {σ : Type} (f : Yield σ α) (c : Cursor α) (s : σ) : σ × Bool :=
  match c with
  | none => (s, true)
  | some p => Stree.inorderF f p.cur s

/-- `Inorder` with the collecting consumer that stops after `stop` keys -/
def inorder (c : Cursor α) (stop : Option Nat) : List α :=
  (inorderF (collect stop) c []).1.reverse

/-! ### `Tree.Cursor`, `Tree.Root` -/

variable (cmp : α → α → Ordering)

/-- the directions of `node.pathTo(key)`; when the key is absent the last direction leaves the
tree (Go's path stops at the last node, the test in `Tree.Cursor` then rejects it) -/
def pathDirs (key : α) : Tree α → List Dir
  | .nil => []
  | .node l x r =>
    match cmp key x with
    | .lt => .L :: pathDirs key l
    | .gt => .R :: pathDirs key r
    | .eq => []

/-- `Tree.Cursor(key)`: `path := root.pathTo(key)`;
`if len(path) == 0 || compare(path[len-1].X, key) != 0 { return nil }` -/
def ofKey (root : Tree α) (k : α) : Cursor α :=
  let ds := pathDirs cmp k root
  match sub root ds with
  | .nil =>
    -- empty tree, or the search fell off: the last node of Go's path is the parent, whose key
    -- does not compare equal (it was compared `lt`/`gt` on the way down)
    none
  | .node _ x _ => if cmp x k != .eq then none else some { root := root, dirs := ds }

/-- `Tree.Root()` -/
def ofRoot (root : Tree α) : Cursor α :=
  match root with
  | .nil => none
  | .node _ _ _ => some { root := root, dirs := [] }

/-! ### Histories: tree registers (the C01 model) and cursor registers -/

inductive Op (α : Type) where
  /-- an operation of the tree model; drops every cursor (they may be stale) -/
  | tree (op : Stree.Op α)
  | cursor (c r : Nat) (k : α)
  | root (c r : Nat)
  | nilc (c : Nat)
  | clone (dst src : Nat)
  | next (c : Nat) | prev (c : Nat) | left (c : Nat) | right (c : Nat) | up (c : Nat)
  | min (c : Nat) | max (c : Nat)
  -- queries
  | valid (c : Nat) | key (c : Nat)
  | hasLeft (c : Nat) | hasRight (c : Nat) | hasParent (c : Nat) | hasNext (c : Nat) | hasPrev (c : Nat)
  | inorder (c : Nat) (stop : Option Nat)

inductive Out (α : Type) where
  | unit
  | bool (b : Bool)
  | key (k : Option α)
  | list (l : List α)
  | tree (o : Stree.Out α)
  /-- the register holds nothing -/
  | noreg
  deriving Repr, BEq, DecidableEq

structure State (α : Type) where
  trees : Regs (T α) := []
  curs : Regs (Cursor α) := []

def isMutation : Stree.Op α → Bool
  | .new .. | .add .. | .replace .. | .remove .. | .clear .. | .clone .. => true
  | _ => false

/-- apply a move to a cursor register -/
def move (s : State α) (c : Nat) (f : Cursor α → Cursor α) : State α × Out α :=
  match s.curs.get c with
  | some cur => ({ s with curs := s.curs.set c (f cur) }, .unit)
  | none => (s, .noreg)

def query (s : State α) (c : Nat) (f : Cursor α → Out α) : State α × Out α :=
  match s.curs.get c with
  | some cur => (s, f cur)
  | none => (s, .noreg)

def step (srt : List α → List α) (s : State α) : Op α → State α × Out α
  | .tree op =>
    let p := Stree.step cmp srt s.trees op
    ({ trees := p.1, curs := if isMutation op then [] else s.curs }, .tree p.2)
  | .cursor c r k =>
    match s.trees.get r with
    | some t => ({ s with curs := s.curs.set c (ofKey cmp t.root k) }, .unit)
    | none => (s, .noreg)
  | .root c r =>
    match s.trees.get r with
    | some t => ({ s with curs := s.curs.set c (ofRoot t.root) }, .unit)
    | none => (s, .noreg)
  | .nilc c => ({ s with curs := s.curs.set c none }, .unit)
  | .clone d src =>
    match s.curs.get src with
    | some cur => ({ s with curs := s.curs.set d (clone cur) }, .unit)
    | none => (s, .noreg)
  | .next c => move s c next
  | .prev c => move s c prev
  | .left c => move s c goLeft
  | .right c => move s c goRight
  | .up c => move s c up
  | .min c => move s c min
  | .max c => move s c max
  | .valid c => query s c fun cur => .bool (valid cur)
  | .key c => query s c fun cur => .key (key? cur)
  | .hasLeft c => query s c fun cur => .bool (hasLeft cur)
  | .hasRight c => query s c fun cur => .bool (hasRight cur)
  | .hasParent c => query s c fun cur => .bool (hasParent cur)
  | .hasNext c => query s c fun cur => .bool (hasNext cur)
  | .hasPrev c => query s c fun cur => .bool (hasPrev cur)
  | .inorder c stop => query s c fun cur => .list (inorder cur stop)

end MdsVerif.Model.Cursor
