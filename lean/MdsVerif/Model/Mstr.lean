import MdsVerif.Gen.Small
/-!
# Model of `mstr.Trunc` and `mstr.CompareNatural` (mstr/mstr.go)

Strings are byte lists (`List UInt8`); Go compares strings bytewise.
`Trunc` uses checked indexing (`index` = index panic, `bounds` = slice-bounds
panic).  `CompareNatural` follows the Go loop: `parseInt` on both, then the
three cases, then `parseStr` on both.  Go's `int` is 64-bit two's complement:
`parseInt` accumulates modulo 2^64 and the values are compared as signed
numbers, exactly as the compiled code does (so the model is faithful for digit
runs of any length; the theorems state the no-overflow hypothesis).

The UTF-8 byte tests of `Trunc` (`&0xc0 == 0x80`, `&0xc0 == 0xc0`), its `n >= len(s)` test, the digit
bounds of `isDigit`, the `'0'` and the `v*10 + d` of `parseInt` and its `i > 0` are definitions of
`MdsVerif.Gen.Small`, regenerated from mstr/mstr.go on every run by `extract/small.go`;
`Props.C20.C20_current` pins them (and the `n > 0` guards and `n-1` indices of `Trunc`, which the
structural recursion of `backup`/`skipLead` encodes).
-/
namespace MdsVerif.Model.Mstr

abbrev Bytes := List UInt8

inductive Res (α : Type) where
  | ok (a : α)
  | index          -- index out of range
  | bounds         -- slice bounds out of range
deriving Repr, DecidableEq

/-! ### Trunc -/

/-- `b&0xc0 == 0x80` -/
def isCont (b : UInt8) : Bool := Gen.Small.truncIsCont b
/-- `b&0xc0 == 0xc0` -/
def isLead (b : UInt8) : Bool := Gen.Small.truncIsLead b

/-- `for n > 0 && s[n-1]&0xc0 == 0x80 { n-- }` -/
def backup (s : Bytes) : Nat → Res Nat
  | 0 => .ok 0
  | n+1 =>
    match s[n]? with
    | none => .index
    | some b => if isCont b then backup s n else .ok (n + 1)

/-- `if n > 0 && s[n-1]&0xc0 == 0xc0 { n-- }` -/
def skipLead (s : Bytes) : Nat → Res Nat
  | 0 => .ok 0
  | n+1 =>
    match s[n]? with
    | none => .index
    | some b => if isLead b then .ok n else .ok (n + 1)

/-- `s[:n]` -/
def slicePrefix (s : Bytes) (n : Nat) : Res Bytes :=
  if n ≤ s.length then .ok (s.take n) else .bounds

/-- the cut index computed by the two backing-up steps -/
def cut (s : Bytes) (n : Nat) : Res Nat :=
  match backup s n with
  | .ok k => skipLead s k
  | .index => .index
  | .bounds => .bounds

def trunc (s : Bytes) (n : Int) : Res Bytes :=
  if Gen.Small.truncWhole n s.length then .ok s
  else if n < 0 then .bounds        -- no loop runs, `s[:n]` panics
  else
    match cut s n.toNat with
    | .ok k => slicePrefix s k
    | .index => .index
    | .bounds => .bounds

/-! ### CompareNatural -/

/-- `b >= '0' && b <= '9'` -/
def isDigit (b : UInt8) : Bool := Gen.Small.isDigit b

def two64 : Nat := 18446744073709551616

/-- a 64-bit pattern read as a Go `int` -/
def toSigned (v : Nat) : Int := if v < 9223372036854775808 then (v : Int) else (v : Int) - (two64 : Int)

/-- the loop of `parseInt`: `v = v*10 + int(s[i]-'0'); i++` while a digit is next.
Returns the 64-bit pattern of `v`, the number of digits consumed and `s[i:]`. -/
def digitsLoop : Bytes → Nat → Nat → Nat × Nat × Bytes
  | [], v, i => (v, i, [])
  | b :: t, v, i =>
    if isDigit b then digitsLoop t (Gen.Small.parseIntStep v (b - Gen.Small.digitZero).toNat % two64) (i + 1)
    else (v, i, b :: t)

/-- `parseInt(s) = (v, s[i:], i > 0)` -/
def parseInt (s : Bytes) : Int × Bytes × Bool :=
  let (v, i, r) := digitsLoop s 0 0
  (toSigned v, r, Gen.Small.parseIntOk i)

/-- `parseStr(s) = (s[:i], s[i:])`, `i` the first digit position -/
def parseStr : Bytes → Bytes × Bytes
  | [] => ([], [])
  | b :: t =>
    if isDigit b then ([], b :: t)
    else let (p, r) := parseStr t; (b :: p, r)

/-- `cmp.Compare` on `int` -/
def cmpInt (a b : Int) : Int := if a < b then -1 else if a > b then 1 else 0

/-- `cmp.Compare` on `string`: bytewise lexicographic -/
def cmpBytes : Bytes → Bytes → Int
  | [], [] => 0
  | [], _ :: _ => -1
  | _ :: _, [] => 1
  | x :: xs, y :: ys => if x < y then -1 else if x > y then 1 else cmpBytes xs ys

/-- the loop of `CompareNatural`; every iteration consumes at least one byte of each
argument, so `fuel = len a + 1` always suffices (theorem). `none` = fuel exhausted. -/
def cmpLoop : Nat → Bytes → Bytes → Option Int
  | 0, _, _ => none
  | f+1, a, b =>
    if a ≠ [] ∧ b ≠ [] then
      let (va, ra, aok) := parseInt a
      let (vb, rb, bok) := parseInt b
      if aok && bok then
        let c := cmpInt va vb
        if c ≠ 0 then some c else cmpLoop f ra rb
      else if aok != bok then some (cmpBytes a b)
      else
        let (pa, ra) := parseStr a
        let (pb, rb) := parseStr b
        let c := cmpBytes pa pb
        if c ≠ 0 then some c else cmpLoop f ra rb
    else some (cmpBytes a b)

def compareNatural (a b : Bytes) : Option Int := cmpLoop (a.length + 1) a b

end MdsVerif.Model.Mstr
