import MdsVerif.Gen.Stack
/-!
# Model of `stack.Stack` (stack/stack.go): a slice whose LAST element is the top

`list` is the Go slice `s.list` in slice order (`append` adds at the end).
`Peek(n)` for `n < 0` indexes `s.list[len-1-n]` out of range: an explicit
`panicIndex` result.

`Top`'s empty test and index, `Peek`'s range test and index `len-1-n`, the argument of the `Peek` inside `Pop` and
the length `Pop` truncates to, `IsEmpty`'s test and the start index of the `Each`/`Slice` loops are definitions
of `MdsVerif.Gen.Stack`, which `extract/stack.go` regenerates from stack.go on every run (DESIGN.md §3.1);
`Props.C10.C10_current_stack` pins every one of them (and the loop tests and steps of `Each`/`Slice`, which the
structural `walkDown` below does not take from there).
-/
namespace MdsVerif.Model.Stack
variable {α : Type} [Inhabited α]

/-- the Go slice `s.list`, in slice order: the top of the stack is the last element -/
abbrev S (α : Type) := List α

inductive Op (α : Type) where
  | push (v : α) | add (v : α) | pop | clear
  | top | peek (n : Int) | each (k : Nat) | len | isEmpty | slice
deriving Repr

inductive Out (α : Type) where
  | unit | opt (o : Option α) | val (a : α) | list (l : List α) | nat (n : Nat) | bool (b : Bool)
  | panicIndex
deriving Repr, DecidableEq

def push (s : S α) (v : α) : S α := s ++ [v]

/-- `Top`: zero value when empty, else `s.list[len-1]` -/
def top (s : S α) : α :=
  if Gen.Stack.topEmpty s.length then default else s.getD (Gen.Stack.topIdx s.length).toNat default

/-- `Peek(n)`: `if n >= len {zero,false}`, else `s.list[len-1-n]` (index panic for `n < 0`) -/
def peek (s : S α) (n : Int) : Out α :=
  if Gen.Stack.peekOut n s.length then .opt none
  else
    let i : Int := Gen.Stack.peekIdx n s.length
    -- Go's bounds check on `s.list[i]`
    if i < 0 ∨ i ≥ (s.length : Int) then .panicIndex
    else .opt (some (s.getD i.toNat default))

/-- `Pop`: `out, ok := s.Peek(0); if ok { s.list = s.list[:len-1] }` -/
def pop (s : S α) : S α × Option α :=
  match peek s Gen.Stack.popPeeks with
  | .opt (some v) => (s.take (Gen.Stack.popLen s.length).toNat, some v)
  | _ => (s, none)

/-- visit `cnt` cells downwards from index `i` (the loops of `Each` and `Slice`) -/
def walkDown (s : S α) : Nat → Nat → List α
  | _, 0 => []
  | i, c + 1 => s.getD i default :: walkDown s (i - 1) c

/-- `Each` with a callback that returns false after `k` further elements -/
def each (s : S α) (k : Nat) : List α := walkDown s (Gen.Stack.eachStart s.length).toNat (min s.length (k + 1))
/-- `Slice`: a copy, newest first -/
def slice (s : S α) : List α :=
  if Gen.Stack.sliceEmpty s.length then [] else walkDown s (Gen.Stack.sliceStart s.length).toNat s.length

def step (s : S α) : Op α → S α × Out α
  | .push v => (push s v, .unit)
  | .add v => (push s v, .unit)
  | .pop => let (s', r) := pop s; (s', .opt r)
  | .clear => ([], .unit)
  | .top => (s, .val (top s))
  | .peek n => (s, peek s n)
  | .each k => (s, .list (each s k))
  | .len => (s, .nat s.length)
  | .isEmpty => (s, .bool (Gen.Stack.isEmptyTest s.length))
  | .slice => (s, .list (slice s))

def run (s : S α) : List (Op α) → List (Out α)
  | [] => []
  | op :: ops => let (s', o) := step s op; o :: run s' ops

end MdsVerif.Model.Stack
