/-!
# Model of `stack.Stack` (stack/stack.go): a slice whose LAST element is the top

`list` is the Go slice `s.list` in slice order (`append` adds at the end).
`Peek(n)` for `n < 0` indexes `s.list[len-1-n]` out of range: an explicit
`panicIndex` result.
-/
namespace MdsVerif.Model.Stack
variable {α : Type} [Inhabited α]

/-- the Go slice `s.list`, in slice order: the top of the stack is the last element -/
abbrev S (α : Type) := List α

inductive Op (α : Type) where
  | push (v : α) | add (v : α) | pop | clear
  | top | peek (n : Int) | each (k : Nat) | len | isEmpty | slice
deriving Repr

inductive Out (α : Type) where
  | unit | opt (o : Option α) | val (a : α) | list (l : List α) | nat (n : Nat) | bool (b : Bool)
  | panicIndex
deriving Repr, DecidableEq

def push (s : S α) (v : α) : S α := s ++ [v]

/-- `Top`: zero value when empty, else `s.list[len-1]` -/
def top (s : S α) : α := if s.length = 0 then default else s.getD (s.length - 1) default

/-- `Peek(n)`: `if n >= len {zero,false}`, else `s.list[len-1-n]` (index panic for `n < 0`) -/
def peek (s : S α) (n : Int) : Out α :=
  if n ≥ (s.length : Int) then .opt none
  else if n < 0 then .panicIndex
  else .opt (some (s.getD (s.length - 1 - n.toNat) default))

/-- `Pop`: `out, ok := s.Peek(0); if ok { s.list = s.list[:len-1] }` -/
def pop (s : S α) : S α × Option α :=
  match peek s 0 with
  | .opt (some v) => (s.take (s.length - 1), some v)
  | _ => (s, none)

/-- visit `cnt` cells downwards from index `i` (the loops of `Each` and `Slice`) -/
def walkDown (s : S α) : Nat → Nat → List α
  | _, 0 => []
  | i, c + 1 => s.getD i default :: walkDown s (i - 1) c

/-- `Each` with a callback that returns false after `k` further elements -/
def each (s : S α) (k : Nat) : List α := walkDown s (s.length - 1) (min s.length (k + 1))
/-- `Slice`: a copy, newest first -/
def slice (s : S α) : List α := walkDown s (s.length - 1) s.length

def step (s : S α) : Op α → S α × Out α
  | .push v => (push s v, .unit)
  | .add v => (push s v, .unit)
  | .pop => let (s', r) := pop s; (s', .opt r)
  | .clear => ([], .unit)
  | .top => (s, .val (top s))
  | .peek n => (s, peek s n)
  | .each k => (s, .list (each s k))
  | .len => (s, .nat s.length)
  | .isEmpty => (s, .bool (s.length == 0))
  | .slice => (s, .list (slice s))

def run (s : S α) : List (Op α) → List (Out α)
  | [] => []
  | op :: ops => let (s', o) := step s op; o :: run s' ops

end MdsVerif.Model.Stack
