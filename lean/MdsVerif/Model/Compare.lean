/-!
# Model of package `compare` (compare/compare.go): `FromLessFunc`, `ToLessFunc`, `Reversed`, `Bool`

Go's `int` is 64-bit two's complement: `Reversed` computes `-c(a, b)` in that
arithmetic, so `-MinInt64 = MinInt64` (`wrap64`).  `Time` is not modelled.
-/
namespace MdsVerif.Model.Compare

variable {α : Type}

/-- `if less(a, b) { return -1 } else if less(b, a) { return 1 }; return 0` -/
def fromLessFunc (less : α → α → Bool) (a b : α) : Int :=
  if less a b then -1 else if less b a then 1 else 0

/-- `return cmp(a, b) < 0` -/
def toLessFunc (cmp : α → α → Int) (a b : α) : Bool := decide (cmp a b < 0)

/-- reduce to the 64-bit two's-complement range -/
def wrap64 (x : Int) : Int := (x + 9223372036854775808) % 18446744073709551616 - 9223372036854775808

/-- `return -c(a, b)` (64-bit) -/
def reversed (c : α → α → Int) (a b : α) : Int := wrap64 (-(c a b))

/-- `if a == b { return 0 } else if a { return 1 }; return -1` -/
def bool (a b : Bool) : Int := if a = b then 0 else if a then 1 else -1

end MdsVerif.Model.Compare
