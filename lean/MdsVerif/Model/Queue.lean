import MdsVerif.Gen.Queue
/-!
# Model of `queue.Queue` (queue/queue.go): a growing ring buffer

State passing mirror of the Go methods.  `vs` is the whole buffer
(`len(q.vs)` is the capacity), `head` the index of the oldest element, `n` the
number of live elements.  Go's `append` growth policy is the parameter `extra`
(the number of spare zeroed cells `append` hands back beyond the new element);
`slice.Rotate(vs, -head)` is modelled by its C17 specification `rotl`.

Every guard, wrap test and index expression below is a definition of
`MdsVerif.Gen.Queue`, which `extract/queue.go` regenerates from queue.go on
every run (DESIGN.md §3.1): this file only fixes the control flow between them.
Go's `int` arithmetic with a subtraction (`pos := q.head - 1; if pos < 0`) is
over `Int`; `Props.C07.C07_current` pins every one of these facts.
-/
namespace MdsVerif.Model.Queue
variable {α : Type} [Inhabited α]

structure Q (α : Type) where
  vs : List α
  head : Nat
  n : Nat
deriving Repr

def Q.cap (q : Q α) : Nat := q.vs.length

/-- the zero value / `New()` -/
def Q.empty : Q α := { vs := [], head := 0, n := 0 }
/-- `NewSize(n)` -/
def Q.newSize (n : Nat) : Q α := { vs := List.replicate n default, head := 0, n := 0 }

/-- the cell holding the element at offset `i` from the front -/
def Q.at (q : Q α) (i : Nat) : α := q.vs.getD ((q.head + i) % q.cap) default

/-- specification of `slice.Rotate(l, -k)` for `0 ≤ k ≤ len l` (C17) -/
def rotl (l : List α) (k : Nat) : List α := l.drop k ++ l.take k

/-- `slice.Rotate(l, k)` by its specification: for `-len l < k < 0` (the only way the pinned queue.go
calls it) this is `rotl l (-k)`, which `C17.rotate_neg_eq_rotl` proves equal to the executable Rotate
model; for `0 ≤ k ≤ len l` (reachable only if the argument in queue.go changes) a rotation to the
right by `k` is a rotation to the left by `len l - k` -/
def rotateBy (l : List α) (k : Int) : List α :=
  rotl l (if k < 0 then (-k).toNat else l.length - k.toNat)

/-- `w := append(vs, v); vs = w[:cap(w)]` -/
def grown (vs : List α) (v : α) (extra : Nat) : List α := vs ++ v :: List.replicate extra default

def Q.add (q : Q α) (v : α) (extra : Nat) : Q α :=
  if Gen.Queue.addHasRoom q.n q.cap then
    -- `pos := q.head + q.n; if pos >= len(q.vs) { pos -= len(q.vs) }`
    let pos : Int := Gen.Queue.addPos q.head q.n
    let pos : Int := if Gen.Queue.addWraps pos q.cap then Gen.Queue.addWrapped pos q.cap else pos
    { q with vs := q.vs.set pos.toNat v, n := q.n + 1 }
  else
    -- `if q.head > 0 { slice.Rotate(q.vs, -q.head); q.head = 0 }`
    let vs := if Gen.Queue.addRotates q.head then rotateBy q.vs (Gen.Queue.addRotateBy q.head) else q.vs
    { vs := grown vs v extra, head := 0, n := q.n + 1 }

def Q.push (q : Q α) (v : α) (extra : Nat) : Q α :=
  if Gen.Queue.pushHasRoom q.n q.cap then
    -- `pos := q.head - 1; if pos < 0 { pos = len(q.vs) - 1 }`
    let pos : Int := Gen.Queue.pushPos q.head
    let pos : Int := if Gen.Queue.pushWraps pos then Gen.Queue.pushWrapped q.cap else pos
    { vs := q.vs.set pos.toNat v, head := pos.toNat, n := q.n + 1 }
  else
    let vs := if Gen.Queue.pushRotates q.head then rotateBy q.vs (Gen.Queue.pushRotateBy q.head) else q.vs
    let w := grown vs v extra
    -- `q.head = len(q.vs) - 1; q.vs[q.head] = v`
    let head := (Gen.Queue.pushGrowHead w.length).toNat
    { vs := w.set head v, head := head, n := q.n + 1 }

def Q.pop (q : Q α) : Q α × Option α :=
  if Gen.Queue.popEmpty q.n then (q, none) else
  let out := q.vs.getD q.head default
  let n := q.n - 1
  if Gen.Queue.popResets n then ({ q with head := Gen.Queue.popResetHead, n := n }, some out)
  else ({ q with head := Gen.Queue.popHead q.head q.cap, n := n }, some out)

def Q.popLast (q : Q α) : Q α × Option α :=
  if Gen.Queue.popLastEmpty q.n then (q, none) else
  let pos : Int := Gen.Queue.popLastPos q.head q.n
  let pos : Int := if Gen.Queue.popLastWraps pos q.cap then Gen.Queue.popLastWrapped pos q.cap else pos
  let out := q.vs.getD pos.toNat default
  let n := q.n - 1
  ({ q with n := n, head := if Gen.Queue.popLastResets n then Gen.Queue.popLastResetHead else q.head }, some out)

def Q.clear (_ : Q α) : Q α := Q.empty

def Q.front (q : Q α) : α := if Gen.Queue.frontEmpty q.n then default else q.vs.getD q.head default

/-- `Peek(n)` for any integer offset -/
def Q.peek (q : Q α) (k : Int) : Option α :=
  let k := if Gen.Queue.peekNeg k then Gen.Queue.peekNorm k q.n else k
  if Gen.Queue.peekOut k q.n then none
  else some (q.vs.getD (Gen.Queue.peekIdx q.head k.toNat q.cap) default)

/-- the loop of `Slice()` / `Each`: walk `n` cells from `head` with `cur = step cur cap` -/
def Q.walk (q : Q α) (step : Nat → Nat → Nat) : Nat → Nat → List α
  | 0, _ => []
  | k + 1, cur => q.vs.getD cur default :: q.walk step k (step cur q.cap)

def Q.slice (q : Q α) : List α :=
  if Gen.Queue.sliceEmpty q.n then [] else q.walk Gen.Queue.sliceStep q.n q.head
/-- `Each` stopped by the callback after `k` elements have been seen (`k = 0`: stops at the first) -/
def Q.each (q : Q α) (k : Nat) : List α := q.walk Gen.Queue.eachStep (min q.n (k + 1)) q.head

def Q.len (q : Q α) : Nat := q.n
def Q.isEmpty (q : Q α) : Bool := Gen.Queue.isEmptyTest q.n

end MdsVerif.Model.Queue

namespace MdsVerif.Model.Queue
variable {α : Type} [Inhabited α]

/-- the operations of a history; `extra` is what Go's `append` does on that call (any growth policy) -/
inductive Op (α : Type) where
  | add (v : α) (extra : Nat) | push (v : α) (extra : Nat)
  | pop | popLast | clear
  | peek (k : Int) | each (k : Nat) | front | len | isEmpty | slice
deriving Repr

/-- what a call returns -/
inductive Out (α : Type) where
  | unit | opt (o : Option α) | val (a : α) | list (l : List α) | nat (n : Nat) | bool (b : Bool)
deriving Repr, DecidableEq

def step (q : Q α) : Op α → Q α × Out α
  | .add v e => (q.add v e, .unit)
  | .push v e => (q.push v e, .unit)
  | .pop => let (q', r) := q.pop; (q', .opt r)
  | .popLast => let (q', r) := q.popLast; (q', .opt r)
  | .clear => (q.clear, .unit)
  | .peek k => (q, .opt (q.peek k))
  | .each k => (q, .list (q.each k))
  | .front => (q, .val q.front)
  | .len => (q, .nat q.len)
  | .isEmpty => (q, .bool q.isEmpty)
  | .slice => (q, .list q.slice)

/-- run a history, collecting every result -/
def run (q : Q α) : List (Op α) → List (Out α)
  | [] => []
  | op :: ops => let (q', o) := step q op; o :: run q' ops

end MdsVerif.Model.Queue
