/-!
# Model of `queue.Queue` (queue/queue.go): a growing ring buffer

State passing mirror of the Go methods.  `vs` is the whole buffer
(`len(q.vs)` is the capacity), `head` the index of the oldest element, `n` the
number of live elements.  Go's `append` growth policy is the parameter `extra`
(the number of spare zeroed cells `append` hands back beyond the new element);
`slice.Rotate(vs, -head)` is modelled by its C17 specification `rotl`.
-/
namespace MdsVerif.Model.Queue
variable {α : Type} [Inhabited α]

structure Q (α : Type) where
  vs : List α
  head : Nat
  n : Nat
deriving Repr

def Q.cap (q : Q α) : Nat := q.vs.length

/-- the zero value / `New()` -/
def Q.empty : Q α := { vs := [], head := 0, n := 0 }
/-- `NewSize(n)` -/
def Q.newSize (n : Nat) : Q α := { vs := List.replicate n default, head := 0, n := 0 }

/-- the cell holding the element at offset `i` from the front -/
def Q.at (q : Q α) (i : Nat) : α := q.vs.getD ((q.head + i) % q.cap) default

/-- specification of `slice.Rotate(l, -k)` for `0 ≤ k ≤ len l` (C17) -/
def rotl (l : List α) (k : Nat) : List α := l.drop k ++ l.take k

/-- `w := append(vs, v); vs = w[:cap(w)]` -/
def grown (vs : List α) (v : α) (extra : Nat) : List α := vs ++ v :: List.replicate extra default

def Q.add (q : Q α) (v : α) (extra : Nat) : Q α :=
  if q.n < q.cap then
    let pos := q.head + q.n
    let pos := if pos ≥ q.cap then pos - q.cap else pos
    { q with vs := q.vs.set pos v, n := q.n + 1 }
  else
    let vs := if q.head > 0 then rotl q.vs q.head else q.vs
    { vs := grown vs v extra, head := 0, n := q.n + 1 }

def Q.push (q : Q α) (v : α) (extra : Nat) : Q α :=
  if q.n < q.cap then
    -- `pos := q.head - 1; if pos < 0 { pos = len(q.vs) - 1 }`
    let pos := if q.head = 0 then q.cap - 1 else q.head - 1
    { vs := q.vs.set pos v, head := pos, n := q.n + 1 }
  else
    let vs := if q.head > 0 then rotl q.vs q.head else q.vs
    let w := grown vs v extra
    { vs := w.set (w.length - 1) v, head := w.length - 1, n := q.n + 1 }

def Q.pop (q : Q α) : Q α × Option α :=
  if q.n = 0 then (q, none) else
  let out := q.vs.getD q.head default
  if q.n - 1 = 0 then ({ q with head := 0, n := 0 }, some out)
  else ({ q with head := (q.head + 1) % q.cap, n := q.n - 1 }, some out)

def Q.popLast (q : Q α) : Q α × Option α :=
  if q.n = 0 then (q, none) else
  let pos := q.head + q.n - 1
  let pos := if pos ≥ q.cap then pos - q.cap else pos
  let out := q.vs.getD pos default
  ({ q with n := q.n - 1, head := if q.n - 1 = 0 then 0 else q.head }, some out)

def Q.clear (_ : Q α) : Q α := Q.empty

def Q.front (q : Q α) : α := if q.n = 0 then default else q.vs.getD q.head default

/-- `Peek(n)` for any integer offset -/
def Q.peek (q : Q α) (k : Int) : Option α :=
  let k := if k < 0 then k + q.n else k
  if k < 0 ∨ k ≥ q.n then none
  else some (q.vs.getD ((q.head + k.toNat) % q.cap) default)

/-- `Slice()`; also the sequence `Each` visits: walk `n` cells from `head` with `cur = (cur+1) % cap` -/
def Q.walk (q : Q α) : Nat → Nat → List α
  | 0, _ => []
  | k + 1, cur => q.vs.getD cur default :: q.walk k ((cur + 1) % q.cap)

def Q.slice (q : Q α) : List α := q.walk q.n q.head
/-- `Each` stopped by the callback after `k` elements have been seen (`k = 0`: stops at the first) -/
def Q.each (q : Q α) (k : Nat) : List α := q.walk (min q.n (k + 1)) q.head

def Q.len (q : Q α) : Nat := q.n
def Q.isEmpty (q : Q α) : Bool := q.n == 0

end MdsVerif.Model.Queue

namespace MdsVerif.Model.Queue
variable {α : Type} [Inhabited α]

/-- the operations of a history; `extra` is what Go's `append` does on that call (any growth policy) -/
inductive Op (α : Type) where
  | add (v : α) (extra : Nat) | push (v : α) (extra : Nat)
  | pop | popLast | clear
  | peek (k : Int) | each (k : Nat) | front | len | isEmpty | slice
deriving Repr

/-- what a call returns -/
inductive Out (α : Type) where
  | unit | opt (o : Option α) | val (a : α) | list (l : List α) | nat (n : Nat) | bool (b : Bool)
deriving Repr, DecidableEq

def step (q : Q α) : Op α → Q α × Out α
  | .add v e => (q.add v e, .unit)
  | .push v e => (q.push v e, .unit)
  | .pop => let (q', r) := q.pop; (q', .opt r)
  | .popLast => let (q', r) := q.popLast; (q', .opt r)
  | .clear => (q.clear, .unit)
  | .peek k => (q, .opt (q.peek k))
  | .each k => (q, .list (q.each k))
  | .front => (q, .val q.front)
  | .len => (q, .nat q.len)
  | .isEmpty => (q, .bool q.isEmpty)
  | .slice => (q, .list q.slice)

/-- run a history, collecting every result -/
def run (q : Q α) : List (Op α) → List (Out α)
  | [] => []
  | op :: ops => let (q', o) := step q op; o :: run q' ops

end MdsVerif.Model.Queue
