import MdsVerif.Model.Heapq
import MdsVerif.Gen.Cache
/-!
# Model of `cache.Cache` with the LRU store (cache/cache.go, cache/lru.go)

The LRU store is the heap model of `Model.Heapq` over entries ordered by
`lastAccess`, plus the `present : key → offset` index, which — exactly as in
the Go code — is maintained *only* through the heap's position callbacks (the
model replays the heap's `move` log into `present` after every heap call).
`Cache` adds the size/count accounting and the eviction-callback log.
Panics of the Go code (`Store` on a present key, `Evict` on an empty store,
the consistency check in `Clear`) are explicit results.

The refusal test of `Put`, every size/count update, the loop conditions of `Put` and `Clear`, `Clear`'s
consistency test, the clock ticks and time stamps of `Access`/`Store` and the comparison of `comparePrio`
are definitions of `MdsVerif.Gen.Cache`, which `extract/cachecore.go` regenerates from cache.go and lru.go
on every run (DESIGN.md §3.1): this file only fixes the control flow between them.  `Props.C08.C08_current`
pins every one of these facts (and the statement-skeleton facts that are not expressions).
-/
namespace MdsVerif.Model.Cache
open MdsVerif.Model.Heapq

structure Entry where
  lastAccess : Nat
  key : Nat
  value : Nat
deriving Repr, DecidableEq, Inhabited

/-- `comparePrio(a, b) < 0` -/
def ltEntry (a b : Entry) : Bool := Gen.Cache.prioLess a.lastAccess b.lastAccess

abbrev Index := List (Nat × Nat)   -- key ↦ offset

def Index.set (m : Index) (k p : Nat) : Index := (k, p) :: m.filter (fun e => e.1 != k)
def Index.del (m : Index) (k : Nat) : Index := m.filter (fun e => e.1 != k)
def Index.get (m : Index) (k : Nat) : Option Nat := List.lookup k m

structure Lru where
  h : H Entry := { data := [] }
  present : Index := []
  clock : Nat := 0
deriving Repr

/-- run the `Update` callback (`lru.present[v.key] = pos`) over the heap's new move events, oldest first,
and clear the log -/
def Lru.sync (s : Lru) : Lru :=
  let present := s.h.log.reverse.foldl (fun m (e : Entry × Nat) => Index.set m e.1.key e.2) s.present
  { s with h := { s.h with log := [] }, present := present }

inductive Res (α : Type) where
  | ok (a : α)
  | panic (msg : String)
deriving Repr

def Lru.check (s : Lru) (key : Nat) : Option Nat :=
  match s.present.get key with
  | none => none
  | some pos => (s.h.data[pos]?).map (·.value)

/-- `access.Remove(pos)` as the store uses it: `(zero, false)` when out of range -/
def heapRemove (cfg : Cfg) (h : H Entry) (pos : Nat) : H Entry × Entry :=
  if pos ≥ h.len then (h, default) else pop cfg ltEntry h pos

def Lru.access (cfg : Cfg) (s : Lru) (key : Nat) : Lru × Option Nat :=
  match s.present.get key with
  | none => (s, none)
  | some pos =>
    let clock := Gen.Cache.accessClock s.clock   -- `c.clock++`
    let (h1, out) := heapRemove cfg s.h pos
    let s1 := ({ s with h := h1, clock := clock } : Lru).sync
    let out := { out with lastAccess := Gen.Cache.accessStamp clock }   -- `out.lastAccess = c.clock`
    let (h2, _) := add cfg ltEntry s1.h out
    (({ s1 with h := h2 } : Lru).sync, some out.value)

def Lru.store (cfg : Cfg) (s : Lru) (key val : Nat) : Res Lru :=
  match s.present.get key with
  | some _ => .panic "lru store: unexpected key"
  | none =>
    let clock := Gen.Cache.storeClock s.clock   -- `c.clock++`
    let (h, pos) := add cfg ltEntry s.h { lastAccess := Gen.Cache.storeStamp clock, key := key, value := val }
    let s1 := ({ s with h := h, clock := clock } : Lru).sync
    .ok { s1 with present := s1.present.set key pos }

def Lru.remove (cfg : Cfg) (s : Lru) (key : Nat) : Lru :=
  match s.present.get key with
  | none => s
  | some pos =>
    let (h, _) := heapRemove cfg s.h pos
    let s1 := ({ s with h := h } : Lru).sync
    { s1 with present := s1.present.del key }

def Lru.evict (cfg : Cfg) (s : Lru) : Res (Lru × Nat × Nat) :=
  if s.h.len = 0 then .panic "lru evict: no entries left"
  else
    let (h, out) := pop cfg ltEntry s.h 0
    let s1 := ({ s with h := h } : Lru).sync
    .ok ({ s1 with present := s1.present.del out.key }, out.key, out.value)

structure Cache where
  store : Lru := {}
  size : Int := 0
  limit : Int := 1
  count : Int := 0
  /-- eviction callbacks `(key, value)`, most recent first -/
  evicted : List (Nat × Nat) := []
deriving Repr

/-- the evict-until-it-fits loop of `Put`; `fuel` bounds it (`count + 1` suffices) -/
def evictLoop (cfg : Cfg) (sizeOf : Nat → Int) : Nat → Cache → Int → Res (Cache × Int)
  | 0, c, newSize => .ok (c, newSize)   -- unreachable with enough fuel
  | fuel + 1, c, newSize =>
    if Gen.Cache.putEvicts newSize c.limit then
      match c.store.evict cfg with
      | .panic m => .panic m
      | .ok (st, ek, ev) =>
        evictLoop cfg sizeOf fuel
          { c with store := st, evicted := (ek, ev) :: c.evicted, count := Gen.Cache.evictCount c.count }
          (Gen.Cache.evictNewSize newSize (sizeOf ev))
    else .ok (c, newSize)

def put (cfg : Cfg) (sizeOf : Nat → Int) (c : Cache) (key val : Nat) : Res (Cache × Bool) :=
  let valSize := sizeOf val
  if Gen.Cache.putRefuses valSize c.limit then .ok (c, false)
  else
    let c1 := match c.store.check key with
      | some old =>
        { c with store := c.store.remove cfg key, evicted := (key, old) :: c.evicted,
                 size := Gen.Cache.replaceSize c.size (sizeOf old), count := Gen.Cache.replaceCount c.count }
      | none => c
    match evictLoop cfg sizeOf (c1.store.h.len + 1) c1 (Gen.Cache.putNewSize c1.size valSize) with
    | .panic m => .panic m
    | .ok (c2, newSize) =>
      match c2.store.store cfg key val with
      | .panic m => .panic m
      | .ok st => .ok ({ c2 with store := st, size := Gen.Cache.putSize c2.size newSize,
                                 count := Gen.Cache.putCount c2.count }, true)

def get (cfg : Cfg) (c : Cache) (key : Nat) : Cache × Option Nat :=
  let (st, r) := c.store.access cfg key
  ({ c with store := st }, r)

def has (c : Cache) (key : Nat) : Bool := (c.store.check key).isSome

def remove (cfg : Cfg) (sizeOf : Nat → Int) (c : Cache) (key : Nat) : Cache × Bool :=
  match c.store.check key with
  | some old =>
    ({ c with store := c.store.remove cfg key, evicted := (key, old) :: c.evicted,
              size := Gen.Cache.removeSize c.size (sizeOf old), count := Gen.Cache.removeCount c.count }, true)
  | none => (c, false)

def clearLoop (cfg : Cfg) (sizeOf : Nat → Int) : Nat → Cache → Res Cache
  | 0, c => .ok c
  | fuel + 1, c =>
    if Gen.Cache.clearContinues c.count then
      match c.store.evict cfg with
      | .panic m => .panic m
      | .ok (st, ek, ev) =>
        clearLoop cfg sizeOf fuel
          { c with store := st, evicted := (ek, ev) :: c.evicted,
                   size := Gen.Cache.clearSize c.size (sizeOf ev), count := Gen.Cache.clearCount c.count }
    else .ok c

def clear (cfg : Cfg) (sizeOf : Nat → Int) (c : Cache) : Res Cache :=
  match clearLoop cfg sizeOf (c.count.toNat + 1) c with
  | .panic m => .panic m
  | .ok c' => if Gen.Cache.clearInconsistent c'.size c'.count then .panic "cache: after clear" else .ok c'

/-! ## histories -/

inductive Op where
  | put (k v : Nat) | get (k : Nat) | has (k : Nat) | remove (k : Nat) | clear | len | size
deriving Repr, DecidableEq

inductive Out where
  | bool (b : Bool) | opt (o : Option Nat) | int (n : Int) | unit | panic (msg : String)
deriving Repr, DecidableEq

def step (cfg : Cfg) (sizeOf : Nat → Int) (c : Cache) : Op → Cache × Out
  | .put k v => match put cfg sizeOf c k v with
    | .ok (c', b) => (c', .bool b)
    | .panic m => (c, .panic m)
  | .get k => let (c', r) := get cfg c k; (c', .opt r)
  | .has k => (c, .bool (has c k))
  | .remove k => let (c', b) := remove cfg sizeOf c k; (c', .bool b)
  | .clear => match clear cfg sizeOf c with
    | .ok c' => (c', .unit)
    | .panic m => (c, .panic m)
  | .len => (c, .int c.count)
  | .size => (c, .int c.size)

end MdsVerif.Model.Cache
