import MdsVerif.Gen.Edit
/-!
# Executable model of `slice/edit.go` (core Lean only)

`LCSFunc` and `editScriptFunc`, statement by statement:

* `LCSFunc`: the guard `len(as) == 0 || len(bs) == 0`, the swap "the shorter
  input becomes `as`", the two buffers `p`, `c` of `*seq` cells (`Seq`: the
  pointer-linked cells `{i, n, prev}`, the shared sentinel `zero`), the double
  buffer swap at the start of each row, the cell recurrence with its three
  cases as written (`eq(as[i-1], bs[j-1])`, `c[i-1].n >= p[i].n`), the final
  walk `for p := c[len(as)]; p.n > 0; p = p.prev` reading `as[p.i]`, and
  `slices.Reverse`.
* `editScriptFunc`: `lpos`/`rpos`/`i` are represented by the remaining suffixes
  `lhs[lpos:]`, `rhs[rpos:]`, `lcs[i:]`; the two unchecked scans
  `for !eq(lhs[lend], lcs[i]) { lend++ }` (`scanTo`, `none` = index out of
  range), the fuse rule drop+copy → replace with its `rpos = rend` side effect
  (`gapEdits`), the run extension `for i+m < len(lcs) && eq(lhs[lpos+m],
  rhs[rpos+m])` (`runLen`, unchecked reads again), the tail handling after the
  loop and the single-emit special case.

Every Go index expression that could be out of range is an `Option` read here;
`none` is Go's `panic: index out of range`.  That it never happens is a theorem
(`Props.C11.editScript_total`), not an assumption.

## Regenerated facts

This file fixes the control flow only.  The guards, the cell choices of the recurrence, the index
expressions and the case analyses are definitions of `MdsVerif.Gen.Edit`, which `extract/edit.go`
regenerates from slice/edit.go on every run (DESIGN.md §3.1); `Proofs.Lcs` / `Proofs.EditScript` restate
every function below with the pinned expressions written out (`fillRow_cons`, `collect_node`,
`lcsCore?_def`, `lcsFunc?_def`, `gapEdits_def`, `tailEdits_eq`, `scriptLoop_cons`, `dropSingleEmit_def`) and
`Props.C11.C11_current` pins every fact.  Positions are represented by list suffixes, so the facts about
loop bounds and the indices of the `eq` calls are not used here; they are tied by `C11_current` alone.

## API for other models (mdiff, C13/C14)

`EditOp`, `Edit`, `editScript : List α → List α → List (Edit α)` (over
`[DecidableEq α]`), `lcs`.  `Props/C11.lean` proves `editScript_valid`.
-/
namespace MdsVerif.Model.Edit

/-- `type EditOp byte`: `OpDrop '-'`, `OpEmit '='`, `OpCopy '+'`, `OpReplace '!'` -/
inductive EditOp where
  | drop | emit | copy | replace
deriving DecidableEq, Repr, Inhabited

def EditOp.toGen : EditOp → Gen.Edit.Op
  | .drop => .drop | .emit => .emit | .copy => .copy | .replace => .replace

def EditOp.ofGen : Gen.Edit.Op → EditOp
  | .drop => .drop | .emit => .emit | .copy => .copy | .replace => .replace

/-- the opcode byte (the `EditOp` constants of edit.go), as printed by the harness -/
def EditOp.char (op : EditOp) : Char := Char.ofNat (Gen.Edit.opByte op.toGen)

/-- `type Edit[T] struct { Op EditOp; X, Y []T }` -/
structure Edit (α : Type) where
  op : EditOp
  X : List α
  Y : List α
deriving DecidableEq, Repr

variable {α : Type}

/-! ## LCSFunc -/

/-- `type seq struct { i, n int; prev *seq }`; `zero` is the shared sentinel (`n = 0`, never written). -/
inductive Seq where
  | zero
  | node (i n : Nat) (prev : Seq)
deriving Repr

def Seq.n : Seq → Nat
  | .zero => 0
  | .node _ n _ => n

/-- the cell an expression `p[i-1]` / `c[i-1]` / `p[i]` of the recurrence denotes -/
def pickCell (pprev cprev pi : Seq) : Gen.Edit.Cell → Seq
  | .pPrev => pprev | .cPrev => cprev | .pCur => pi

/-- The inner loop `for i := 1; i <= len(as); i++` from column `i` on: the arguments are `i`,
`as[i-1:]`, `p[i:]`, `p[i-1]`, `c[i-1]`; the result is `c[i:]`.  Which cell supplies the count and the
`prev` pointer of a match, the tie-break test and what either outcome stores come from `Gen.Edit`. -/
def fillRow (eq : α → α → Bool) (b : α) : Nat → List α → List Seq → Seq → Seq → List Seq
  | i, a :: as', pi :: ps, pprev, cprev =>
    let ci :=
      -- `c[i] = &seq{i - 1, p[i-1].n + 1, p[i-1]}`
      if eq a b then Seq.node (Gen.Edit.matchI i) (Gen.Edit.matchCount pprev.n cprev.n pi.n)
        (pickCell pprev cprev pi Gen.Edit.matchPrev)
      -- `else if c[i-1].n >= p[i].n { c[i] = c[i-1] } else { c[i] = p[i] }`
      else if Gen.Edit.tieTest pprev.n cprev.n pi.n then pickCell pprev cprev pi Gen.Edit.tieThen
      else pickCell pprev cprev pi Gen.Edit.tieElse
    ci :: fillRow eq b (i + 1) as' ps pi ci
  | _, _, _, _, _ => []

/-- One iteration of the outer loop, on the buffers `(p, c)`: the swap `p, c = c, p`, then the
inner loop fills `c[1..]` (`c[0]` is not written). -/
def rowStep (eq : α → α → Bool) (as : List α) (b : α) (pc : List Seq × List Seq) :
    List Seq × List Seq :=
  -- p, c = c, p
  let p := pc.2
  let c := pc.1
  (p, match p, c with
    | p0 :: ps, c0 :: _ => c0 :: fillRow eq b 1 as ps p0 c0
    | _, _ => [])

/-- The outer loop `for j := 1; j <= len(bs); j++` over the remaining `bs[j-1:]`, state `(p, c)`. -/
def lcsRows (eq : α → α → Bool) (as : List α) : List α → List Seq × List Seq → List Seq × List Seq
  | [], pc => pc
  | b :: bs, pc => lcsRows eq as bs (rowStep eq as b pc)

/-- `for p := c[len(as)]; p.n > 0; p = p.prev { out = append(out, as[p.i]) }`.  The sentinel has
`n = 0` and `prev = nil`: a walk test that lets it through dereferences nil (`none`). -/
def collect (as : List α) : Seq → Option (List α)
  | .zero => if Gen.Edit.walkGoes 0 then none else some []
  | .node i n prev =>
    if Gen.Edit.walkGoes n then do
      let a ← as[i]?
      let r ← collect as prev
      pure (a :: r)
    else some []

/-- `LCSFunc` after the guard and the swap (`len(as) ≤ len(bs)`): buffers, row loop, walk, reverse. -/
def lcsCore? (eq : α → α → Bool) (as bs : List α) : Option (List α) :=
  -- `p := make([]*seq, len(as)+1); c := make([]*seq, len(as)+1)`, all cells the sentinel
  let pc := lcsRows eq as bs (List.replicate (Gen.Edit.pBufLen as.length) Seq.zero,
    List.replicate (Gen.Edit.cBufLen as.length) Seq.zero)
  do
    let last ← pc.2[Gen.Edit.lastIdx as.length]?
    let out ← collect as last
    -- `slices.Reverse(out)`
    pure (if Gen.Edit.reverses then out.reverse else out)

/-- `LCSFunc(as, bs, eq)`; `none` = index out of range. -/
def lcsFunc? (eq : α → α → Bool) (as bs : List α) : Option (List α) :=
  -- if len(as) == 0 || len(bs) == 0 { return nil }
  if Gen.Edit.lcsNil as.length bs.length then some []
  -- if len(bs) < len(as) { as, bs = bs, as }
  else if Gen.Edit.lcsSwaps as.length bs.length then lcsCore? eq bs as
  else lcsCore? eq as bs

/-- `LCSFunc` returns `nil` (not an empty non-nil slice) exactly on the first guard. -/
def lcsIsNil (as bs : List α) : Bool := Gen.Edit.lcsNil as.length bs.length

/-! ## editScriptFunc -/

/-- `lend := lpos; for !eq(lhs[lend], x) { lend++ }` on `l = lhs[lpos:]`:
returns `(lhs[lpos:lend], lhs[lend:])`; `none` = the unchecked read ran off the end. -/
def scanTo (eq : α → α → Bool) (x : α) : List α → Option (List α × List α)
  | [] => none
  | a :: l =>
    if eq a x then some ([], a :: l)
    else (scanTo eq x l).map fun p => (a :: p.1, p.2)

/-- The fuse rule:
```
if lend > lpos && rend > rpos { Replace X Y; rpos = rend } else if lend > lpos { Drop X }
if rend > rpos { Copy Y }
```
with `dl = lhs[lpos:lend]`, `dr = rhs[rpos:rend]`; positions are relative to the gap (`lpos = rpos = 0`,
`lend = len dl`, `rend = len dr`).  The three tests and the new `rpos` are parameters: the gap inside the
loop and the trailing gap after it are separate statements of edit.go. -/
def gapEditsWith (tReplace tDrop tCopy : Int → Int → Int → Int → Bool) (newRpos : Int → Int → Int → Int → Int)
    (dl dr : List α) : List (Edit α) :=
  let lpos : Int := 0
  let lend : Int := dl.length
  let rpos : Int := 0
  let rend : Int := dr.length
  let (out, rpos) :=
    if tReplace lpos lend rpos rend then ([Edit.mk .replace dl dr], newRpos lpos lend rpos rend)
    else if tDrop lpos lend rpos rend then ([Edit.mk .drop dl []], rpos)
    else ([], rpos)
  if tCopy lpos lend rpos rend then out ++ [Edit.mk .copy [] (dr.drop rpos.toNat)] else out

/-- the gap before the next LCS element (inside the loop) -/
def gapEdits (dl dr : List α) : List (Edit α) :=
  gapEditsWith Gen.Edit.gapReplace Gen.Edit.gapDrop Gen.Edit.gapCopy Gen.Edit.gapReplaceRpos dl dr

/-- the trailing gap (after the loop): `len(lhs) > lpos && len(rhs) > rpos`, … -/
def tailEdits (dl dr : List α) : List (Edit α) :=
  gapEditsWith Gen.Edit.tailReplace Gen.Edit.tailDrop Gen.Edit.tailCopy Gen.Edit.tailReplaceRpos dl dr

/-- `for i+m < len(lcs) && eq(lhs[lpos+m], rhs[rpos+m]) { m++ }`, counted from `m = 1`:
arguments `lhs[lpos+m:]`, `rhs[rpos+m:]`, `lcs[i+m:]`; result = the number of increments. -/
def runLen (eq : α → α → Bool) : List α → List α → List α → Option Nat
  | _, _, [] => some 0
  | y :: l, y' :: r, _ :: c => if eq y y' then (runLen eq l r c).map (· + 1) else some 0
  | _, _, _ :: _ => none

/-- The main loop `for i < len(lcs)` followed by the tail handling; state = the remaining
`lhs[lpos:]`, `rhs[rpos:]`, `lcs[i:]`; the first argument is fuel (`i` grows by `m ≥ 1`). -/
def scriptLoop (eq : α → α → Bool) : Nat → List α → List α → List α → Option (List (Edit α))
  | 0, _, _, _ => none
  | _ + 1, l, r, [] => some (tailEdits l r)
  | f + 1, l, r, x :: c => do
    let (dl, l') ← scanTo eq x l
    let (dr, r') ← scanTo eq x r
    -- `m := 1; for i+m < len(lcs) && eq(lhs[lpos+m], rhs[rpos+m]) { m++ }`
    let m0 := Gen.Edit.runFirst
    let m1 ← runLen eq (l'.drop m0) (r'.drop m0) ((x :: c).drop m0)
    let m := m0 + m1
    -- `Edit[T]{Op: OpEmit, X: lhs[lpos : lpos+m]}`: which slice, which bounds (relative to its position)
    let src := match Gen.Edit.emitFrom with
      | .lhs => l' | .rhs => r' | .lcs => x :: c
    let X := (src.drop (Gen.Edit.emitLo 0 m)).take (Gen.Edit.emitHi 0 m - Gen.Edit.emitLo 0 m)
    let rest ← scriptLoop eq f (l'.drop m) (r'.drop m) ((x :: c).drop m)
    pure (gapEdits dl dr ++ Edit.mk .emit X [] :: rest)

/-- `if len(out) == 1 && out[0].Op == OpEmit { return nil }` -/
def dropSingleEmit (out : List (Edit α)) : List (Edit α) :=
  if Gen.Edit.singleLen out.length then
    match out with
    | e :: _ => if e.op = EditOp.ofGen Gen.Edit.singleOp then [] else out
    | [] => out
  else out

/-- the script before the single-emit special case -/
def rawScript? (eq : α → α → Bool) (lhs rhs : List α) : Option (List (Edit α)) := do
  let lcs ← lcsFunc? eq lhs rhs
  scriptLoop eq (lcs.length + 1) lhs rhs lcs

/-- `editScriptFunc(eq, lhs, rhs)`; `none` = index out of range. -/
def editScriptFunc? (eq : α → α → Bool) (lhs rhs : List α) : Option (List (Edit α)) :=
  (rawScript? eq lhs rhs).map dropSingleEmit

/-! ## the functions with `==` (`LCS`, `EditScript`) -/

def eqOf [DecidableEq α] : α → α → Bool := fun a b => decide (a = b)

/-- `slice.LCS` -/
def lcs [DecidableEq α] (as bs : List α) : List α := (lcsFunc? eqOf as bs).getD []

/-- `slice.EditScript`.  (`Props.C11.editScript_total`: the `getD` default is never used.) -/
def editScript [DecidableEq α] (lhs rhs : List α) : List (Edit α) :=
  (editScriptFunc? eqOf lhs rhs).getD []

end MdsVerif.Model.Edit
