/-!
# Executable model of `slice/edit.go` (core Lean only)

`LCSFunc` and `editScriptFunc`, statement by statement:

* `LCSFunc`: the guard `len(as) == 0 || len(bs) == 0`, the swap "the shorter
  input becomes `as`", the two buffers `p`, `c` of `*seq` cells (`Seq`: the
  pointer-linked cells `{i, n, prev}`, the shared sentinel `zero`), the double
  buffer swap at the start of each row, the cell recurrence with its three
  cases as written (`eq(as[i-1], bs[j-1])`, `c[i-1].n >= p[i].n`), the final
  walk `for p := c[len(as)]; p.n > 0; p = p.prev` reading `as[p.i]`, and
  `slices.Reverse`.
* `editScriptFunc`: `lpos`/`rpos`/`i` are represented by the remaining suffixes
  `lhs[lpos:]`, `rhs[rpos:]`, `lcs[i:]`; the two unchecked scans
  `for !eq(lhs[lend], lcs[i]) { lend++ }` (`scanTo`, `none` = index out of
  range), the fuse rule drop+copy → replace with its `rpos = rend` side effect
  (`gapEdits`), the run extension `for i+m < len(lcs) && eq(lhs[lpos+m],
  rhs[rpos+m])` (`runLen`, unchecked reads again), the tail handling after the
  loop and the single-emit special case.

Every Go index expression that could be out of range is an `Option` read here;
`none` is Go's `panic: index out of range`.  That it never happens is a theorem
(`Props.C11.editScript_total`), not an assumption.

## API for other models (mdiff, C13/C14)

`EditOp`, `Edit`, `editScript : List α → List α → List (Edit α)` (over
`[DecidableEq α]`), `lcs`.  `Props/C11.lean` proves `editScript_valid`.
-/
namespace MdsVerif.Model.Edit

/-- `type EditOp byte`: `OpDrop '-'`, `OpEmit '='`, `OpCopy '+'`, `OpReplace '!'` -/
inductive EditOp where
  | drop | emit | copy | replace
deriving DecidableEq, Repr, Inhabited

/-- the opcode byte, as printed by the harness -/
def EditOp.char : EditOp → Char
  | .drop => '-' | .emit => '=' | .copy => '+' | .replace => '!'

/-- `type Edit[T] struct { Op EditOp; X, Y []T }` -/
structure Edit (α : Type) where
  op : EditOp
  X : List α
  Y : List α
deriving DecidableEq, Repr

variable {α : Type}

/-! ## LCSFunc -/

/-- `type seq struct { i, n int; prev *seq }`; `zero` is the shared sentinel (`n = 0`, never written). -/
inductive Seq where
  | zero
  | node (i n : Nat) (prev : Seq)
deriving Repr

def Seq.n : Seq → Nat
  | .zero => 0
  | .node _ n _ => n

/-- The inner loop `for i := 1; i <= len(as); i++` from column `i` on: the arguments are `i`,
`as[i-1:]`, `p[i:]`, `p[i-1]`, `c[i-1]`; the result is `c[i:]`. -/
def fillRow (eq : α → α → Bool) (b : α) : Nat → List α → List Seq → Seq → Seq → List Seq
  | i, a :: as', pi :: ps, pprev, cprev =>
    let ci :=
      if eq a b then Seq.node (i - 1) (pprev.n + 1) pprev
      else if cprev.n ≥ pi.n then cprev
      else pi
    ci :: fillRow eq b (i + 1) as' ps pi ci
  | _, _, _, _, _ => []

/-- One iteration of the outer loop, on the buffers `(p, c)`: the swap `p, c = c, p`, then the
inner loop fills `c[1..]` (`c[0]` is not written). -/
def rowStep (eq : α → α → Bool) (as : List α) (b : α) (pc : List Seq × List Seq) :
    List Seq × List Seq :=
  -- p, c = c, p
  let p := pc.2
  let c := pc.1
  (p, match p, c with
    | p0 :: ps, c0 :: _ => c0 :: fillRow eq b 1 as ps p0 c0
    | _, _ => [])

/-- The outer loop `for j := 1; j <= len(bs); j++` over the remaining `bs[j-1:]`, state `(p, c)`. -/
def lcsRows (eq : α → α → Bool) (as : List α) : List α → List Seq × List Seq → List Seq × List Seq
  | [], pc => pc
  | b :: bs, pc => lcsRows eq as bs (rowStep eq as b pc)

/-- `for p := c[len(as)]; p.n > 0; p = p.prev { out = append(out, as[p.i]) }` -/
def collect (as : List α) : Seq → Option (List α)
  | .zero => some []
  | .node i n prev =>
    if n > 0 then do
      let a ← as[i]?
      let r ← collect as prev
      pure (a :: r)
    else some []

/-- `LCSFunc` after the guard and the swap (`len(as) ≤ len(bs)`): buffers, row loop, walk, reverse. -/
def lcsCore? (eq : α → α → Bool) (as bs : List α) : Option (List α) :=
  let zeros := List.replicate (as.length + 1) Seq.zero
  let pc := lcsRows eq as bs (zeros, zeros)
  do
    let last ← pc.2[as.length]?
    let out ← collect as last
    pure out.reverse

/-- `LCSFunc(as, bs, eq)`; `none` = index out of range. -/
def lcsFunc? (eq : α → α → Bool) (as bs : List α) : Option (List α) :=
  if as.length = 0 ∨ bs.length = 0 then some []
  -- if len(bs) < len(as) { as, bs = bs, as }
  else if bs.length < as.length then lcsCore? eq bs as
  else lcsCore? eq as bs

/-- `LCSFunc` returns `nil` (not an empty non-nil slice) exactly on the first guard. -/
def lcsIsNil (as bs : List α) : Bool := as.length = 0 ∨ bs.length = 0

/-! ## editScriptFunc -/

/-- `lend := lpos; for !eq(lhs[lend], x) { lend++ }` on `l = lhs[lpos:]`:
returns `(lhs[lpos:lend], lhs[lend:])`; `none` = the unchecked read ran off the end. -/
def scanTo (eq : α → α → Bool) (x : α) : List α → Option (List α × List α)
  | [] => none
  | a :: l =>
    if eq a x then some ([], a :: l)
    else (scanTo eq x l).map fun p => (a :: p.1, p.2)

/-- The fuse rule:
```
if lend > lpos && rend > rpos { Replace X Y; rpos = rend } else if lend > lpos { Drop X }
if rend > rpos { Copy Y }
```
with `dl = lhs[lpos:lend]`, `dr = rhs[rpos:rend]` (also the tail handling after the loop). -/
def gapEdits (dl dr : List α) : List (Edit α) :=
  let (out, dr') :=
    if dl.length > 0 ∧ dr.length > 0 then ([Edit.mk .replace dl dr], ([] : List α))
    else if dl.length > 0 then ([Edit.mk .drop dl []], dr)
    else ([], dr)
  if dr'.length > 0 then out ++ [Edit.mk .copy [] dr'] else out

/-- `for i+m < len(lcs) && eq(lhs[lpos+m], rhs[rpos+m]) { m++ }`, counted from `m = 1`:
arguments `lhs[lpos+m:]`, `rhs[rpos+m:]`, `lcs[i+m:]`; result = the number of increments. -/
def runLen (eq : α → α → Bool) : List α → List α → List α → Option Nat
  | _, _, [] => some 0
  | y :: l, y' :: r, _ :: c => if eq y y' then (runLen eq l r c).map (· + 1) else some 0
  | _, _, _ :: _ => none

/-- The main loop `for i < len(lcs)` followed by the tail handling; state = the remaining
`lhs[lpos:]`, `rhs[rpos:]`, `lcs[i:]`; the first argument is fuel (`i` grows by `m ≥ 1`). -/
def scriptLoop (eq : α → α → Bool) : Nat → List α → List α → List α → Option (List (Edit α))
  | 0, _, _, _ => none
  | _ + 1, l, r, [] => some (gapEdits l r)
  | f + 1, l, r, x :: c => do
    let (dl, l') ← scanTo eq x l
    let (dr, r') ← scanTo eq x r
    let m1 ← runLen eq (l'.drop 1) (r'.drop 1) c
    let m := 1 + m1
    let rest ← scriptLoop eq f (l'.drop m) (r'.drop m) (c.drop m1)
    pure (gapEdits dl dr ++ Edit.mk .emit (l'.take m) [] :: rest)

/-- `if len(out) == 1 && out[0].Op == OpEmit { return nil }` -/
def dropSingleEmit (out : List (Edit α)) : List (Edit α) :=
  match out with
  | [e] => if e.op = .emit then [] else out
  | _ => out

/-- the script before the single-emit special case -/
def rawScript? (eq : α → α → Bool) (lhs rhs : List α) : Option (List (Edit α)) := do
  let lcs ← lcsFunc? eq lhs rhs
  scriptLoop eq (lcs.length + 1) lhs rhs lcs

/-- `editScriptFunc(eq, lhs, rhs)`; `none` = index out of range. -/
def editScriptFunc? (eq : α → α → Bool) (lhs rhs : List α) : Option (List (Edit α)) :=
  (rawScript? eq lhs rhs).map dropSingleEmit

/-! ## the functions with `==` (`LCS`, `EditScript`) -/

def eqOf [DecidableEq α] : α → α → Bool := fun a b => decide (a = b)

/-- `slice.LCS` -/
def lcs [DecidableEq α] (as bs : List α) : List α := (lcsFunc? eqOf as bs).getD []

/-- `slice.EditScript`.  (`Props.C11.editScript_total`: the `getD` default is never used.) -/
def editScript [DecidableEq α] (lhs rhs : List α) : List (Edit α) :=
  (editScriptFunc? eqOf lhs rhs).getD []

end MdsVerif.Model.Edit
