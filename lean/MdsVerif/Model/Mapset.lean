import MdsVerif.Gen.Mapset
/-!
# Executable model of `mapset/mapset.go` (core Lean only)

A `mapset.Set[T]` is a Go map: `none` models the nil map, `some l` a non-nil map
whose keys are the duplicate-free list `l`.  The order of `l` has no meaning:
every theorem holds for every duplicate-free `l`, the pseudo-operation
`shuffle` may reorder it at any time, and the three operations whose *result*
depends on Go's (unspecified) map iteration order — `Pop`, `Slice`, `Append` —
take that order from an explicit oracle (`order l hint`, always a permutation
of `l`; every permutation is reached by some oracle).

Identity (which map a returned set *is*) is carried as an `Ident` tag next to
the value; Go's value semantics for everything else.
-/
namespace MdsVerif.Model.Mapset
variable {α : Type} [DecidableEq α] [Inhabited α]

/-- `nil` map = `none`; non-nil map = `some keys` -/
abbrev MSet (α : Type) := Option (List α)

/-- which map a set value is, relative to the call that produced it -/
inductive Ident
  | nil    -- the nil map
  | fresh  -- a map allocated by this call
  | recv   -- the receiver's map
  | arg    -- the argument's map
deriving DecidableEq, Repr, Inhabited

/-- a set value together with the identity of the map holding it -/
structure SetRes (α : Type) where
  val : MSet α
  id : Ident
deriving DecidableEq, Repr

/-- the key sequence a `range` over the map visits (no iteration on nil) -/
def elems : MSet α → List α
  | none => []
  | some l => l

/-- `len(s)` -/
def len (s : MSet α) : Nat := (elems s).length
/-- `_, ok := s[t]` -/
def has (s : MSet α) (x : α) : Bool := decide (x ∈ elems s)
def isEmpty (s : MSet α) : Bool := len s == 0
def isNil (s : MSet α) : Bool := s.isNone

/-- `m[x] = struct{}{}` on the keys of a non-nil map -/
def add1 (l : List α) (x : α) : List α := if x ∈ l then l else l ++ [x]

/-- `func (s Set[T]) add(items []T)`: `for _, item := range items { s[item] = struct{}{} }` -/
def addItems (l : List α) : List α → List α
  | [] => l
  | x :: xs => addItems (add1 l x) xs

/-- `New(items...)`: `m := make(Set[T], len(items)); return m.add(items)` -/
def new (items : List α) : SetRes α := ⟨some (addItems [] items), .fresh⟩

/-- `NewSize(n)` -/
def newSize (_n : Nat) : SetRes α := ⟨some [], .fresh⟩

/-- `Clear`: `clear(s); return s` (clear of a nil map is a no-op).
Result: receiver afterwards, identity of the returned set. -/
def clear : MSet α → SetRes α × Ident
  | none => (⟨none, .nil⟩, .nil)
  | some _ => (⟨some [], .recv⟩, .recv)

/-- `Clone`: `if s == nil { return make(Set[T]) }; return maps.Clone(s)` -/
def clone : MSet α → SetRes α
  | none => ⟨some [], .fresh⟩
  | some l => ⟨some l, .fresh⟩

/-- `(*Set).Add`: `if *s == nil { *s = make(..) }; return (*s).add(items)`.
Result: the receiver afterwards (value, identity of its map) and the identity of the returned set. -/
def add (s : MSet α) (items : List α) : SetRes α × Ident :=
  match s with
  | none => (⟨some (addItems [] items), .fresh⟩, .recv)
  | some l => (⟨some (addItems l items), .recv⟩, .recv)

/-- `(*Set).AddAll`: `if *s == nil { *s = t.Clone(); return *s }; for item := range t { (*s)[item] = .. }; return *s` -/
def addAll (s t : MSet α) : SetRes α × Ident :=
  match s with
  | none => (clone t, .recv)
  | some l => (⟨some (addItems l (elems t)), .recv⟩, .recv)

/-- `delete(s, x)` (no-op on a nil map) -/
def delete : MSet α → α → MSet α
  | none, _ => none
  | some l, x => some (l.erase x)

/-- `for _, item := range items { if len(s) == 0 { break }; delete(s, item) }` -/
def removeLoop (s : MSet α) : List α → MSet α
  | [] => s
  | x :: xs => if len s = 0 then s else removeLoop (delete s x) xs

/-- identity of a value receiver that is returned unchanged (`return s`) -/
def idOf : MSet α → Ident
  | none => .nil
  | some _ => .recv

/-- `Remove(items...)` -/
def remove (s : MSet α) (items : List α) : SetRes α × Ident :=
  let s' := removeLoop s items
  (⟨s', idOf s'⟩, idOf s')

/-- `RemoveAll(t)`: same loop over `range t` -/
def removeAll (s t : MSet α) : SetRes α × Ident :=
  let s' := removeLoop s (elems t)
  (⟨s', idOf s'⟩, idOf s')

/-- Iteration order of `range` over a map with keys `l` under oracle `h`: the
oracle's members first, in the oracle's order, then whatever is left. -/
def order : List α → List α → List α
  | l, [] => l
  | l, x :: h => if x ∈ l then x :: order (l.erase x) h else order l h

/-- `Pop`: `for item := range s { delete(s, item); return item }; return zero` -/
def pop (s : MSet α) (hint : α) : MSet α × α :=
  match order (elems s) [hint] with
  | [] => (s, default)
  | x :: _ => (delete s x, x)

/-! The size-based shortcut conditions of the five predicates below are definitions of
`MdsVerif.Gen.Mapset`, regenerated from mapset/mapset.go on every run by `extract/mapset.go`
(DESIGN.md §3.1); `Props.C18.C18_current` pins them. -/

/-- `Intersects`: iterate the smaller operand, probe the larger -/
def intersects (s t : MSet α) : Bool :=
  let (lo, hi) := if Gen.Mapset.intersectsSwaps (len s) (len t) then (t, s) else (s, t)
  (elems lo).any (has hi)

/-- `HasAll(ts...)` -/
def hasAll (s : MSet α) (ts : List α) : Bool :=
  if Gen.Mapset.hasAllEmpty (len s) then Gen.Mapset.hasAllEmptyResult ts.length else ts.all (has s)

/-- `HasAny(ts...)` -/
def hasAny (s : MSet α) (ts : List α) : Bool :=
  if Gen.Mapset.hasAnyEmpty (len s) then false else ts.any (has s)

/-- `IsSubset` -/
def isSubset (s t : MSet α) : Bool :=
  if Gen.Mapset.isSubsetEmpty (len s) then true
  else if Gen.Mapset.isSubsetTooBig (len s) (len t) then false
  else (elems s).all (has t)

/-- `Equals` -/
def equals (s t : MSet α) : Bool :=
  if Gen.Mapset.equalsDiffer (len s) (len t) then false else (elems s).all (has t)

/-- `Append(vs)`; a Go slice is `none` (nil) or `some elements` -/
def append (s : MSet α) (vs : Option (List α)) (hint : List α) : Option (List α) :=
  if len s = 0 then vs else some (vs.getD [] ++ order (elems s) hint)

/-- `Slice()` -/
def slice (s : MSet α) (hint : List α) : Option (List α) :=
  if len s = 0 then none else append s (some []) hint

/-- `for _, s := range ss[1:] { if len(s) < len(min) { min = s } }` -/
def minSet (m : MSet α) : List (MSet α) → MSet α
  | [] => m
  | s :: ss => minSet (if len s < len m then s else m) ss

/-- the `nextElt` loop of `Intersect` -/
def interLoop (ss : List (MSet α)) (out : List α) : List α → List α
  | [] => out
  | v :: vs => if ss.all (fun s => has s v) then interLoop ss (add1 out v) vs else interLoop ss out vs

/-- `Intersect(ss...)` -/
def intersect (ss : List (MSet α)) : SetRes α :=
  match ss with
  | [] => ⟨some [], .fresh⟩
  | s0 :: rest => ⟨some (interLoop ss [] (elems (minSet s0 rest))), .fresh⟩

/-- `Range(it)`: `out := make(Set[T]); for v := range it { out.Add(v) }` -/
def range (items : List α) : SetRes α := ⟨some (addItems [] items), .fresh⟩

/-- a Go `map[T]T` written as a literal: later pairs overwrite earlier ones -/
def mapPut : List (α × α) → α × α → List (α × α)
  | [], p => [p]
  | q :: m, p => if q.1 = p.1 then p :: m else q :: mapPut m p

def mkMap (pairs : List (α × α)) : List (α × α) := pairs.foldl mapPut []

/-- `Keys(m)` (`none` = nil map) -/
def keys (m : Option (List (α × α))) : SetRes α := ⟨some (addItems [] ((m.getD []).map (·.1))), .fresh⟩
/-- `Values(m)` -/
def values (m : Option (List (α × α))) : SetRes α := ⟨some (addItems [] ((m.getD []).map (·.2))), .fresh⟩

/-- map iteration order is arbitrary and may change at any time -/
def shuffle : MSet α → List α → MSet α
  | none, _ => none
  | some l, h => some (order l h)

/-! ## Register machine: set variables `s0, s1, …` holding pairwise distinct maps (or nil) -/

abbrev Regs (α : Type) := Nat → MSet α

def Regs.set (R : Regs α) (r : Nat) (v : MSet α) : Regs α := fun i => if i = r then v else R i

inductive Op (α : Type)
  | setNil (d : Nat)
  | new (d : Nat) (items : List α)
  | newSize (d n : Nat)
  | clone (d r : Nat)
  | intersect (d : Nat) (rs : List Nat)
  | range (d : Nat) (items : List α)
  | keys (d : Nat) (m : Option (List (α × α)))
  | values (d : Nat) (m : Option (List (α × α)))
  | add (r : Nat) (items : List α)
  | addAll (r t : Nat)
  | remove (r : Nat) (items : List α)
  | removeAll (r t : Nat)
  | pop (r : Nat) (hint : α)
  | clear (r : Nat)
  | has (r : Nat) (x : α)
  | len (r : Nat)
  | isEmpty (r : Nat)
  | isNil (r : Nat)
  | intersects (r t : Nat)
  | isSubset (r t : Nat)
  | equals (r t : Nat)
  | hasAll (r : Nat) (ts : List α)
  | hasAny (r : Nat) (ts : List α)
  | slice (r : Nat) (hint : List α)
  | append (r : Nat) (vs : Option (List α)) (hint : List α)
  | shuffle (r : Nat) (hint : List α)
deriving Repr

inductive Res (α : Type)
  | unit
  | ret (id : Ident)          -- a returned set, by identity (its value is the register's)
  | bool (b : Bool)
  | nat (n : Nat)
  | val (x : α)
  | list (l : Option (List α))
  | bad                        -- (specification only) the observed choice is not admissible
deriving DecidableEq, Repr

/-- result of an operation, and which register now holds which map
(`recv` = the map it held before, mutated in place) -/
structure Out (α : Type) where
  res : Res α
  asg : Option (Nat × Ident) := none
deriving DecidableEq, Repr

/-- a constructor result stored in `d` -/
def ctor (R : Regs α) (d : Nat) (r : SetRes α) : Regs α × Out α :=
  (R.set d r.val, ⟨.unit, some (d, r.id)⟩)

/-- a mutator applied to register `r` -/
def mutr (R : Regs α) (r : Nat) (p : SetRes α × Ident) : Regs α × Out α :=
  (R.set r p.1.val, ⟨.ret p.2, some (r, p.1.id)⟩)

def step (R : Regs α) : Op α → Regs α × Out α
  | .setNil d => ctor R d ⟨none, .nil⟩
  | .new d items => ctor R d (new items)
  | .newSize d n => ctor R d (newSize n)
  | .clone d r => ctor R d (clone (R r))
  | .intersect d rs => ctor R d (intersect (rs.map R))
  | .range d items => ctor R d (range items)
  | .keys d m => ctor R d (keys m)
  | .values d m => ctor R d (values m)
  | .add r items => mutr R r (add (R r) items)
  | .addAll r t => mutr R r (addAll (R r) (R t))
  | .remove r items => mutr R r (remove (R r) items)
  | .removeAll r t => mutr R r (removeAll (R r) (R t))
  | .pop r hint => let (s', x) := pop (R r) hint; (R.set r s', ⟨.val x, some (r, idOf s')⟩)
  | .clear r => mutr R r (clear (R r))
  | .has r x => (R, ⟨.bool (has (R r) x), none⟩)
  | .len r => (R, ⟨.nat (len (R r)), none⟩)
  | .isEmpty r => (R, ⟨.bool (isEmpty (R r)), none⟩)
  | .isNil r => (R, ⟨.bool (isNil (R r)), none⟩)
  | .intersects r t => (R, ⟨.bool (intersects (R r) (R t)), none⟩)
  | .isSubset r t => (R, ⟨.bool (isSubset (R r) (R t)), none⟩)
  | .equals r t => (R, ⟨.bool (equals (R r) (R t)), none⟩)
  | .hasAll r ts => (R, ⟨.bool (hasAll (R r) ts), none⟩)
  | .hasAny r ts => (R, ⟨.bool (hasAny (R r) ts), none⟩)
  | .slice r hint => (R, ⟨.list (slice (R r) hint), none⟩)
  | .append r vs hint => (R, ⟨.list (append (R r) vs hint), none⟩)
  | .shuffle r hint => (R.set r (shuffle (R r) hint), ⟨.unit, none⟩)

def run (R : Regs α) : List (Op α) → List (Out α)
  | [] => []
  | op :: ops => let (R', o) := step R op; o :: run R' ops

/-- the registers after a history -/
def exec (R : Regs α) : List (Op α) → Regs α
  | [] => R
  | op :: ops => exec (step R op).1 ops

/-- all set variables start as nil maps (`var s mapset.Set[T]`) -/
def Regs.init : Regs α := fun _ => none

/-- the operation with its oracle replaced by the choice that was observed -/
def Op.resolve : Op α → Out α → Op α
  | .pop r _, ⟨.val x, _⟩ => .pop r x
  | .slice r _, ⟨.list l, _⟩ => .slice r (l.getD [])
  | .append r vs _, ⟨.list l, _⟩ => .append r vs ((l.getD []).drop (vs.getD []).length)
  | op, _ => op

end MdsVerif.Model.Mapset
