/-!
# Executable model of `distinct.Counter` (distinct/distinct.go) — core Lean only

State `{buf, cap, k}`: the buffered set as a duplicate-free list, the size limit
and the number of halving passes since construction/`Reset`; the Go field
`p` is `pOf k = MaxUint64 >> k` (`p = MaxUint64` initially, `p >>= 1` after every
halving pass).

`Add` is a function of the *random words it consumes* (`words`, scripted; the
source yields `0` when the script is exhausted) and of the *order in which the
Go map range visits the buffer* during the halving pass (`order`, an oracle:
any permutation of the buffer; anything else is ignored).  The model mirrors
the code that exists, including the single halving pass (`if`, not `for`) that
is known finding F8.

`keepOne` is the polarity of the low-bit test of the halving pass
(`Gen.Distinct.keepOne`: with `if rnd&1 == 0 { Remove }` a 1-bit keeps).
-/
namespace MdsVerif.Model.Distinct

/-- `math.MaxUint64` -/
def maxU64 : Nat := 2 ^ 64 - 1

/-- the threshold field `c.p` after `k` halving passes: `MaxUint64 >> k` -/
def pOf (k : Nat) : Nat := maxU64 >>> k

/-- `bits.LeadingZeros64` (fuel = remaining bit positions) -/
def clzGo : Nat → Nat → Nat
  | 0, _ => 0
  | f + 1, p => if 2 ^ f ≤ p then 0 else 1 + clzGo f p

def clz64 (p : Nat) : Nat := clzGo 64 p

structure St where
  buf : List Nat := []
  cap : Nat := 0
  k : Nat := 0
deriving Repr, DecidableEq

/-- `NewCounter(size)` -/
def new (size : Nat) : St := { cap := size }

/-- `Len` -/
def St.len (s : St) : Nat := s.buf.length

/-- `Count`: `p2k := uint64(1) << uint64(bits.LeadingZeros64(c.p)); return uint64(Len) * p2k`
    (a shift by 64 yields 0 in Go; the product wraps modulo 2^64) -/
def St.count (s : St) : Nat :=
  let p2k := (1 <<< clz64 (pOf s.k)) % 2 ^ 64
  (s.buf.length * p2k) % 2 ^ 64

/-- `Reset`: `c.buf.Clear(); c.p = math.MaxUint64` -/
def St.reset (s : St) : St := { s with buf := [], k := 0 }

/-- `c.buf.Add(v)` -/
def ins (v : Nat) (b : List Nat) : List Nat := if v ∈ b then b else b ++ [v]

/-- The halving pass `for elt := range c.buf { if nb == 0 { rnd = c.rng.Uint64(); nb = 64 };
    if rnd&1 == 0 { c.buf.Remove(elt) }; rnd >>= 1; nb-- }` over the visiting order;
    returns the survivors and the number of words drawn. -/
def halve (keepOne : Bool) : List Nat → Nat → Nat → List Nat → List Nat × Nat
  | [], _, _, _ => ([], 0)
  | e :: es, nb, rnd, ws =>
    let refill := nb == 0
    let rnd' := if refill then ws.headD 0 else rnd
    let ws' := if refill then ws.tail else ws
    let nb' := if refill then 64 else nb
    let keep := (rnd' % 2 == 1) == keepOne
    let r := halve keepOne es (nb' - 1) (rnd' / 2) ws'
    (if keep then e :: r.1 else r.1, (if refill then 1 else 0) + r.2)

structure Out where
  /-- random words drawn by this call -/
  used : Nat := 0
  /-- did a halving pass run? -/
  halved : Bool := false
  /-- did the halving pass keep every element? -/
  keptAll : Bool := false
deriving Repr, DecidableEq

/-- `Counter.Add(v)` -/
def add (keepOne : Bool) (s : St) (v : Nat) (words order : List Nat) : St × Out :=
  let p := pOf s.k
  if p < maxU64 ∧ p ≤ words.headD 0 then
    -- `c.p < math.MaxUint64 && c.rng.Uint64() >= c.p`: drop v and return
    ({ s with buf := s.buf.erase v }, { used := 1 })
  else
    let c := if p < maxU64 then 1 else 0
    let b := ins v s.buf
    if s.cap ≤ b.length then
      -- one halving pass (F8: `if`, not `for`), then `c.p >>= 1`
      let ord := if order.isPerm b then order else b
      let r := halve keepOne ord 0 0 (words.drop c)
      ({ s with buf := r.1, k := s.k + 1 },
       { used := c + r.2, halved := true, keptAll := r.1.length == b.length })
    else ({ s with buf := b }, { used := c })

inductive Op where
  | add (v : Nat) (words order : List Nat)
  | reset
deriving Repr, DecidableEq

def step (keepOne : Bool) (s : St) : Op → St × Out
  | .add v ws ord => add keepOne s v ws ord
  | .reset => (s.reset, {})

def run (keepOne : Bool) (s : St) : List Op → St
  | [] => s
  | op :: ops => run keepOne (step keepOne s op).1 ops

/-- the outputs of a history, step by step -/
def outs (keepOne : Bool) (s : St) : List Op → List (St × Out)
  | [] => []
  | op :: ops => step keepOne s op :: outs keepOne (step keepOne s op).1 ops

end MdsVerif.Model.Distinct
