import MdsVerif.Model.Slice
/-!
# Model of the remaining functions of `slice/slice.go`

`Dedup` (= `slices.Compact`), `Reverse` (= `slices.Reverse`), `Zero`, `Select`,
`MapKeys`, `MatchingKeys`, on the slice-header machinery of `Model.Slice`
(backing array `mem`, header `(off, len, cap)`, `window`, `store`, `slice2`).

* `Dedup(vs)` is `slices.Compact(vs)`; the model is the Go 1.23 library text,
  loop by loop: the outer scan for the first duplicate, the inner copying loop in
  which `s2 := s[k:]` ALIASES `s` (`s2[x]` is `s[k0+x]`, so the model keeps one
  list and reads/writes it at the translated index), `clear(s[k:])`, and the two
  different returns `return s[:k]` (`some k`) / `return s` (`none`).
* `Reverse(vs)` is the library's two-index loop (`j` is a Go `int` that starts at
  `len-1 = -1` for the empty slice, hence an `Int`).
* The zero value of the element type is `default`.
* `Select` / `MatchingKeys` return an `iter.Seq`: a function that is given the
  loop body `yield`.  The body is modelled as a state machine
  `yield : σ → α → σ × Bool` (`false` = the consumer left the loop); the model
  returns the consumer's final state and the number of elements visited (= calls
  of the predicate), which is how "stops early" is observable.
* A Go map is modelled by the list of its entries IN ITERATION ORDER
  (`range m` visits every entry exactly once in an unspecified order): the
  functions take that list, the theorems quantify over every order.
-/
namespace MdsVerif.Model.SliceMore
open MdsVerif.Model.Slice

variable {α : Type} [Inhabited α]

/-! ### Dedup = slices.Compact -/

/-- inner loop, entered with `s2 := s[k0:]`:
`for k2 := 1; k2 < len(s2); k2++ { if s2[k2] != s2[k2-1] { s[k] = s2[k2]; k++ } }` -/
def compactInner [DecidableEq α] (k0 : Nat) : Nat → List α → Nat → Nat → Option (List α × Nat)
  | 0, s, k, k2 => if k2 < s.length - k0 then none else some (s, k)
  | f + 1, s, k, k2 =>
    if k2 < s.length - k0 then
      if s.getD (k0 + k2) default ≠ s.getD (k0 + k2 - 1) default then
        compactInner k0 f (s.set k (s.getD (k0 + k2) default)) (k + 1) (k2 + 1)
      else compactInner k0 f s k (k2 + 1)
    else some (s, k)

/-- `clear(s[k:])` -/
def clearFrom (s : List α) (k : Nat) : List α :=
  s.take k ++ List.replicate (s.length - k) default

/-- `for k := 1; k < len(s); k++ { if s[k] == s[k-1] { s2 := s[k:]; …inner…; clear(s[k:]); return s[:k] } }; return s`.
Result: the window afterwards, and `some k` for `return s[:k]` / `none` for `return s`. -/
def compactOuter [DecidableEq α] : Nat → List α → Nat → Res (List α × Option Nat)
  | 0, s, k => if k < s.length then .hang else .ok (s, none)
  | f + 1, s, k =>
    if k < s.length then
      if s.getD k default = s.getD (k - 1) default then
        match compactInner k s.length s k 1 with
        | none => .hang
        | some (s', k') => .ok (clearFrom s' k', some k')
      else compactOuter f s (k + 1)
    else .ok (s, none)

/-- `slices.Compact(s)` on the window -/
def compactW [DecidableEq α] (s : List α) : Res (List α × Option Nat) :=
  if s.length < 2 then .ok (s, none) else compactOuter s.length s 1

/-- `Dedup(vs)`: new memory and the returned header (`vs[:k]` keeps the capacity of `vs`) -/
def dedup [DecidableEq α] (mem : List α) (h : Hdr) : Res (List α × Hdr) :=
  (compactW (window mem h)).bind fun r =>
    match r with
    | (w, none) => .ok (store mem h w, h)
    | (w, some k) => (slice2 h 0 k).map fun r => (store mem h w, r)

/-! ### Reverse = slices.Reverse -/

/-- `for i, j := 0, len(s)-1; i < j; i, j = i+1, j-1 { s[i], s[j] = s[j], s[i] }` -/
def reverseLoop : Nat → List α → Nat → Int → Option (List α)
  | 0, s, i, j => if (i : Int) < j then none else some s
  | f + 1, s, i, j =>
    if (i : Int) < j then reverseLoop f (swap s i j.toNat) (i + 1) (j - 1) else some s

def reverseW (s : List α) : Res (List α) :=
  match reverseLoop s.length s 0 ((s.length : Int) - 1) with
  | none => .hang
  | some r => .ok r

/-- `Reverse(vs)`: new memory -/
def reverse (mem : List α) (h : Hdr) : Res (List α) :=
  (reverseW (window mem h)).map (store mem h)

/-! ### Zero -/

/-- `for i := range vs { vs[i] = zero }` (`range` fixes the `len(vs)` iterations beforehand) -/
def zeroLoop : Nat → List α → Nat → List α
  | 0, s, _ => s
  | c + 1, s, i => zeroLoop c (s.set i default) (i + 1)

def zeroW (s : List α) : List α := zeroLoop s.length s 0

/-- `Zero(vs)`: new memory -/
def zero (mem : List α) (h : Hdr) : List α := store mem h (zeroW (window mem h))

/-! ### Select, MatchingKeys (iter.Seq), MapKeys -/

variable {σ κ υ : Type}

/-- `for _, v := range vs { if f(v) && !yield(v) { return } }`; third component counts the elements visited -/
def selectLoop (f : α → Bool) (yield : σ → α → σ × Bool) : List α → σ → Nat → σ × Nat
  | [], st, n => (st, n)
  | v :: vs, st, n =>
    if f v then
      let r := yield st v
      if r.2 then selectLoop f yield vs r.1 (n + 1) else (r.1, n + 1)
    else selectLoop f yield vs st (n + 1)

/-- `Select(vs, f)` driven by the loop body `yield` from consumer state `st` -/
def select (f : α → Bool) (vs : List α) (yield : σ → α → σ × Bool) (st : σ) : σ × Nat :=
  selectLoop f yield vs st 0

/-- `for k, v := range m { if f(v) { if !yield(k) { return } } }` over the entries in iteration order -/
def matchingLoop (f : υ → Bool) (yield : σ → κ → σ × Bool) : List (κ × υ) → σ → Nat → σ × Nat
  | [], st, n => (st, n)
  | kv :: it, st, n =>
    if f kv.2 then
      let r := yield st kv.1
      if r.2 then matchingLoop f yield it r.1 (n + 1) else (r.1, n + 1)
    else matchingLoop f yield it st (n + 1)

/-- `MatchingKeys(m, f)` for the map whose `range` order is `it` -/
def matchingKeys (f : υ → Bool) (it : List (κ × υ)) (yield : σ → κ → σ × Bool) (st : σ) : σ × Nat :=
  matchingLoop f yield it st 0

/-- `MapKeys(m)`: `none` is the nil slice; otherwise `keys := make([]T, 0, len(m)); for key := range m { keys = append(keys, key) }` -/
def mapKeys (it : List (κ × υ)) : Option (List κ) :=
  if it.length = 0 then none else some (it.foldl (fun keys kv => keys ++ [kv.1]) [])

/-- the loop body used by the harness: `out = append(out, v); if len(out) == lim { break }`
(`lim = 0`: never leaves the loop) -/
def collect (lim : Nat) (out : List α) (v : α) : List α × Bool :=
  (out ++ [v], decide (out.length + 1 ≠ lim))

end MdsVerif.Model.SliceMore
