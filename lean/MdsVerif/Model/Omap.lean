import MdsVerif.Model.Cursor
import MdsVerif.Gen.Omap
/-!
# Model of `omap.Map` and `omap.Iter` (omap/omap.go)

Core Lean only.  `Map[T,U]` is a struct holding `m *stree.Tree[stree.KV[T,U]]`; the model is
`Option (Stree.T (K × V))` — `none` is the zero Map (`m.m == nil`) — over the C01 tree model with
the comparator of `KV.Compare` (`kvCmp`: keys only, values ignored).  Every method mirrors the
Go code including its nil guards; `none` as a *result* means the Go code panics (`Set` on the
zero Map dereferences the nil tree).

An `Iter` is `{m *Tree, c *Cursor}`.  `it.m` is the same pointer as the Map's, so the model
keeps only the cursor (`Model.Cursor`), and `Seek` reads the current tree.  A cursor on a tree
that has been modified since is *stale*: omap's documentation requires a re-`Seek` ("you will
need to re-synchronize any iterators after the edits"); the model marks such iterators `stale`
and refuses to move or read them (the harness does the same), only `it.Seek` revives them.

Sharing between copies of a `Map` (they hold the same tree pointer) is aliasing and is not
visible in this value model; the driver/harness stream C04 ties it by running copies against
ONE model state.

The balance factor of `NewFunc` is `Gen.Omap.balance`, regenerated from omap.go by `extract/omap.go` on every
run together with the table of nil-tree guards and delegated tree/cursor methods that this file mirrors;
`Props.C04.C04_current` pins both.
-/
namespace MdsVerif.Model.Omap
open MdsVerif.Model.Stree MdsVerif.Model

variable {K V : Type}

/-- `KV.Compare(cf)` -/
def kvCmp (cmp : K → K → Ordering) (a b : K × V) : Ordering := cmp a.1 b.1

abbrev Map (K V : Type) := Option (T (K × V))

/-- `NewFunc(cf)`: `stree.New(250, kv{}.Compare(cf))` — the balance factor is the regenerated one -/
def newFunc : Map K V := some (T.empty Gen.Omap.balance)

/-- the zero Map -/
def zero : Map K V := none

section
variable (cmp : K → K → Ordering) [Inhabited V]

def len : Map K V → Nat
  | none => 0
  | some t => t.len

/-- `GetOK`: `none` = `(zero, false)` -/
def getOK (m : Map K V) (k : K) : Option V :=
  match m with
  | none => none
  | some t =>
    match t.get (kvCmp cmp) (k, default) with
    | some kv => some kv.2
    | none => none

/-- `Get` -/
def get (m : Map K V) (k : K) : V := (getOK cmp m k).getD default

/-- `Set`: `m.m.Replace(KV{key, value})`; `none` = nil dereference on the zero Map (or a panic
inside the tree) -/
def set (m : Map K V) (k : K) (v : V) : Option (Map K V × Bool) :=
  match m with
  | none => none
  | some t =>
    match t.replace (kvCmp cmp) (k, v) with
    | some (t', b) => some (some t', b)
    | none => none

/-- `Delete` -/
def delete (m : Map K V) (k : K) : Option (Map K V × Bool) :=
  match m with
  | none => some (none, false)
  | some t =>
    match t.remove (kvCmp cmp) (k, default) with
    | some (t', b) => some (some t', b)
    | none => none

/-- `Clear` -/
def clear : Map K V → Map K V
  | none => none
  | some t => some t.clear

/-- `Keys`: `nil` when `m.m == nil || m.m.Len() == 0` -/
def keys : Map K V → List K
  | none => []
  | some t => if t.len == 0 then [] else (t.inorder none).map (·.1)

/-- `First`: `m.m.Root().Min()` (nil-safe) -/
def first : Map K V → Cursor.Cursor (K × V)
  | none => none
  | some t => Cursor.min (Cursor.ofRoot t.root)

/-- `Last` -/
def last : Map K V → Cursor.Cursor (K × V)
  | none => none
  | some t => Cursor.max (Cursor.ofRoot t.root)

/-- `Iter.Seek(key)`: `it.c = nil; for kv := range it.m.InorderAfter(KV{Key: key}) { it.c =
it.m.Cursor(kv); break }` — the consumer stops after the first key -/
def seek (m : Map K V) (k : K) : Cursor.Cursor (K × V) :=
  match m with
  | none => none
  | some t =>
    match t.inorderAfter (kvCmp cmp) (k, default) (some 1) with
    | kv :: _ => Cursor.ofKey (kvCmp cmp) t.root kv
    | [] => none

/-- the loop of `String`: `for it := m.First(); it.IsValid(); it.Next() { print Key, Value }`
(fuel: more than the number of nodes) -/
def walk : Nat → Cursor.Cursor (K × V) → List (K × V)
  | 0, _ => []
  | f+1, c =>
    match Cursor.key? c with
    | some kv => if Cursor.valid c then kv :: walk f (Cursor.next c) else []
    | none => []

/-- `String`: the entries printed between `omap[` and `]`; `none`: the literal `omap[]` of the nil
guard -/
def entries : Map K V → List (K × V)
  | none => []
  | some t => walk (t.root.size + 1) (first (some t))

end

/-! ### Histories -/

/-- an iterator register -/
inductive It (K V : Type) where
  | stale
  | live (c : Cursor.Cursor (K × V))

inductive Op (K V : Type) where
  | set (k : K) (v : V) | delete (k : K) | clear
  | get (k : K) | getOK (k : K) | len | keys | string
  /-- `it := m.First()`, `m.Last()`, `m.Seek(k)` into register `i` -/
  | first (i : Nat) | last (i : Nat) | seek (i : Nat) (k : K)
  /-- `it.Seek(k)`, `it.Next()`, `it.Prev()`, and reading `IsValid/Key/Value` -/
  | itSeek (i : Nat) (k : K) | itNext (i : Nat) | itPrev (i : Nat) | itRead (i : Nat)

inductive Out (K V : Type) where
  | unit
  | bool (b : Bool)
  | nat (n : Nat)
  | val (v : V)
  | valOK (v : Option V)
  | keys (l : List K)
  | entries (l : List (K × V))
  /-- `IsValid`, and `Key`/`Value` when valid (zero otherwise) -/
  | iter (e : Option (K × V))
  | stale
  | noreg
  | panic
  deriving Repr, BEq, DecidableEq

structure State (K V : Type) where
  m : Map K V
  its : Regs (It K V) := []

def staleAll (its : Regs (It K V)) : Regs (It K V) := its.map fun p => (p.1, .stale)

variable (cmp : K → K → Ordering) [Inhabited V]

def readIt : It K V → Out K V
  | .stale => .stale
  | .live c => .iter (Cursor.key? c)

def step (s : State K V) : Op K V → State K V × Out K V
  | .set k v =>
    match set cmp s.m k v with
    | some (m', b) => ({ m := m', its := staleAll s.its }, .bool b)
    | none => (s, .panic)
  | .delete k =>
    match delete cmp s.m k with
    | some (m', b) => ({ m := m', its := if b then staleAll s.its else s.its }, .bool b)
    | none => (s, .panic)
  | .clear =>
    match s.m with
    | none => (s, .unit)
    | some _ => ({ m := clear s.m, its := staleAll s.its }, .unit)
  | .get k => (s, .val (get cmp s.m k))
  | .getOK k => (s, .valOK (getOK cmp s.m k))
  | .len => (s, .nat (len s.m))
  | .keys => (s, .keys (keys s.m))
  | .string => (s, .entries (entries s.m))
  | .first i => let c := first s.m; ({ s with its := s.its.set i (.live c) }, .iter (Cursor.key? c))
  | .last i => let c := last s.m; ({ s with its := s.its.set i (.live c) }, .iter (Cursor.key? c))
  | .seek i k => let c := seek cmp s.m k; ({ s with its := s.its.set i (.live c) }, .iter (Cursor.key? c))
  | .itSeek i k =>
    match s.its.get i with
    | some _ => let c := seek cmp s.m k; ({ s with its := s.its.set i (.live c) }, .iter (Cursor.key? c))
    | none => (s, .noreg)
  | .itNext i =>
    match s.its.get i with
    | some (.live c) => let c' := Cursor.next c; ({ s with its := s.its.set i (.live c') }, .iter (Cursor.key? c'))
    | some .stale => (s, .stale)
    | none => (s, .noreg)
  | .itPrev i =>
    match s.its.get i with
    | some (.live c) => let c' := Cursor.prev c; ({ s with its := s.its.set i (.live c') }, .iter (Cursor.key? c'))
    | some .stale => (s, .stale)
    | none => (s, .noreg)
  | .itRead i =>
    match s.its.get i with
    | some it => (s, readIt it)
    | none => (s, .noreg)

def run : State K V → List (Op K V) → List (Out K V)
  | _, [] => []
  | s, op :: ops => let p := step cmp s op; p.2 :: run p.1 ops

end MdsVerif.Model.Omap
