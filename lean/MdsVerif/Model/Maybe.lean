/-!
# Model of package `value` (value/maybe.go, value/value.go)

`Maybe[T]` is the Go struct `{value T; present bool}`; the zero value of `T` is
`default`.  A pointer `*T` is modelled by `Option T` (`none` = nil, `some v` = a
pointer to a cell holding `v`); pointer identity is not modelled (the harness
additionally checks that `Ptr` returns distinct cells and that writing through
`m.Ptr()` does not change `m`, which has a value receiver).
-/
namespace MdsVerif.Model.Maybe

structure Maybe (α : Type) where
  value : α
  present : Bool
deriving Repr, DecidableEq

variable {α : Type} [Inhabited α]

/-- `Just(v)` -/
def just (v : α) : Maybe α := { value := v, present := true }
/-- `Absent()` = `Maybe[T]{}` -/
def absent : Maybe α := { value := default, present := false }

def Maybe.isPresent (m : Maybe α) : Bool := m.present
def Maybe.getOK (m : Maybe α) : α × Bool := (m.value, m.present)
def Maybe.get (m : Maybe α) : α := m.value
/-- `if m.present { return m }; return Just(o)` -/
def Maybe.or (m : Maybe α) (o : α) : Maybe α := if m.present then m else just o
/-- `if m.present { return &m.value }; return nil` -/
def Maybe.ptr (m : Maybe α) : Option α := if m.present then some m.value else none
/-- `String()`: `fmt.Sprint(m.value)` / `fmt.Sprintf("Absent[%T]", m.value)` -/
def Maybe.str (shw : α → String) (tyName : String) (m : Maybe α) : String :=
  if m.present then shw m.value else "Absent[" ++ tyName ++ "]"
/-- `Check(v, err)`; `isErr` is `err != nil` -/
def check (v : α) (isErr : Bool) : Maybe α := if isErr = false then just v else { value := default, present := false }

/-! value.go -/
/-- `Ptr(v)` -/
def ptr (v : α) : Option α := some v
/-- `At(p)` -/
def atP : Option α → α
  | none => default
  | some v => v
/-- `AtDefault(p, dflt)` -/
def atDefault : Option α → α → α
  | none, d => d
  | some v, _ => v
/-- `Cond(b, x, y)` -/
def cond (b : Bool) (x y : α) : α := if b then x else y
/-- `AtMaybe(p)` -/
def atMaybe : Option α → Maybe α
  | none => absent
  | some v => just v

end MdsVerif.Model.Maybe
