import MdsVerif.Gen.ShellTable
/-!
# Executable model of `shell/shell.go` (core Lean only)

The transition table, the byte classes, the quoting character sets, the
initial/`Reset`/`Rest` states, the `Complete` state set, `Next`'s end-of-input
test and the bytes written by the `xpush` action are NOT written here: they are
imported from `MdsVerif.Gen.ShellTable`, which `extract/shell.go` regenerates
from the Go source on every run.

Mirrored statement by statement: `Scanner.Next` (the `ReadByte` loop),
`Text`, `Err`, `Complete`, `Rest`, `Reset`, `Each`, `Scanner.Split`, the package
function `Split`, `quotable`, `quote`, `Quote`, `Join`.

Outside the model (trusted, exercised by the harness): `bufio.Reader` (modelled
by `Reader`: it hands out the bytes of the fragments in order, then the
terminal condition, forever), `bytes.Buffer`, `sync.Pool`.
-/
namespace MdsVerif.Model.Shell
open MdsVerif.Gen.ShellTable

abbrev Bytes := List UInt8

/-- what `ReadByte` reports once the bytes are exhausted: `io.EOF` or some other error -/
inductive Tail | eof | fail
  deriving DecidableEq, Repr, Inhabited

/-- the scanner's `err` field -/
inductive Err | nil | eof | fail
  deriving DecidableEq, Repr, Inhabited

def Tail.err : Tail → Err
  | .eof => .eof
  | .fail => .fail

/-! ### The reader: `bufio.Reader` over an `io.Reader` that fragments its input -/

/-- `buf` = bytes already buffered, `chunks` = what the successive `Read` calls of the underlying
    reader will return (empty chunks = reads that return `0, nil`), `tail` = what comes after. -/
structure Reader where
  buf : Bytes
  chunks : List Bytes
  tail : Tail
  deriving Repr

/-- `bufio.Reader.ReadByte`: next buffered byte, refilling from the next fragment(s) when empty;
    `none` = the terminal condition (`tail`). -/
def readByteAux : Bytes → List Bytes → Option UInt8 × Bytes × List Bytes
  | c :: b, chunks => (some c, b, chunks)
  | [], [] => (none, [], [])
  | [], ch :: chunks => readByteAux ch chunks

def Reader.readByte (r : Reader) : Option UInt8 × Reader :=
  let (o, b, cs) := readByteAux r.buf r.chunks
  (o, { buf := b, chunks := cs, tail := r.tail })

/-- the sequence of bytes successive `ReadByte` calls deliver before the terminal condition -/
def drainLoop : Nat → Reader → Bytes
  | 0, _ => []
  | n + 1, r =>
    match r.readByte with
    | (none, _) => []
    | (some c, r') => c :: drainLoop n r'

def Reader.drain (r : Reader) : Bytes :=
  drainLoop (r.buf.length + r.chunks.flatten.length + 1) r

/-! ### Scanner -/

structure Scanner where
  st : St
  /-- `s.cur` (the current token) -/
  cur : Bytes
  err : Err
  /-- the bytes `s.buf.ReadByte` has not delivered yet -/
  rem : Bytes
  tail : Tail
  deriving Repr

/-- result of `Next`: a Boolean, or the index panic of `update[s.st][…]` -/
inductive NextOut | ret (b : Bool) | panic
  deriving DecidableEq, Repr, Inhabited

/-- `NewScanner(r)` -/
def Scanner.new (input : Bytes) (tail : Tail) : Scanner :=
  { st := initState, cur := [], err := .nil, rem := input, tail := tail }

/-- `s.Reset(r)` -/
def Scanner.reset (_s : Scanner) (input : Bytes) (tail : Tail) : Scanner :=
  { st := resetState, cur := [], err := .nil, rem := input, tail := tail }

/-- the `for` loop of `Next`; `acc` is `s.cur` reversed -/
def nextLoop (tail : Tail) : St → Bytes → Bytes → Scanner × NextOut
  | st, acc, [] =>
    -- ReadByte returned an error: `s.err = err`; EOF → `break` → `return s.st != stBreak`; else `return false`
    match tail with
    | .eof => ({ st := st, cur := acc.reverse, err := .eof, rem := [], tail := tail }, .ret (!eofNoToken.contains st))
    | .fail => ({ st := st, cur := acc.reverse, err := .fail, rem := [], tail := tail }, .ret false)
  | st, acc, c :: r =>
    match update st (classOf c) with
    | (st', .push) => nextLoop tail st' (c :: acc) r
    | (st', .xpush) => nextLoop tail st' ((xpushBytes c).reverse ++ acc) r
    | (st', .drop) => nextLoop tail st' acc r
    | (st', .emit) => ({ st := st', cur := acc.reverse, err := .nil, rem := r, tail := tail }, .ret true)
    | (_, .panic) => ({ st := st, cur := acc.reverse, err := .nil, rem := r, tail := tail }, .panic)

/-- `s.Next()` -/
def Scanner.next (s : Scanner) : Scanner × NextOut :=
  if s.err ≠ .nil then (s, .ret false)
  else nextLoop s.tail s.st [] s.rem

/-- `s.Text()` -/
def Scanner.text (s : Scanner) : Bytes := s.cur

/-- `s.Complete()` -/
def Scanner.complete (s : Scanner) : Bool := completeStates.contains s.st

/-- `s.Rest()` followed by reading the returned reader to its end: the bytes obtained and the
    terminal condition; the scanner is left in `restState` with `err = io.EOF`. -/
def Scanner.rest (s : Scanner) : Scanner × Bytes × Tail :=
  ({ st := restState, cur := [], err := .eof, rem := [], tail := s.tail }, s.rem, s.tail)

/-- `for s.Next() { tokens = append(tokens, s.Text()) }`; the Boolean reports a panic.  Fuel: every
    successful `Next` but the last consumes a byte (`splitLoop_fuel` in `Proofs/ShellScanner`). -/
def splitLoop : Nat → Scanner → Scanner × List Bytes × Bool
  | 0, s => (s, [], false)
  | n + 1, s =>
    match s.next with
    | (s', .ret true) =>
      let (s'', ts, p) := splitLoop n s'
      (s'', s'.cur :: ts, p)
    | (s', .ret false) => (s', [], false)
    | (s', .panic) => (s', [], true)

/-- `s.Split()` -/
def Scanner.split (s : Scanner) : Scanner × List Bytes × Bool :=
  splitLoop (s.rem.length + 2) s

/-- `s.Each(f)` with an `f` that returns `false` on its `(k+1)`-th call -/
def eachLoop : Nat → Nat → Scanner → Scanner × List Bytes × Bool
  | 0, _, s => (s, [], false)
  | n + 1, k, s =>
    match s.next with
    | (s', .ret true) =>
      if k = 0 then (s', [s'.cur], false)
      else
        let (s'', ts, p) := eachLoop n (k - 1) s'
        (s'', s'.cur :: ts, p)
    | (s', .ret false) => (s', [], false)
    | (s', .panic) => (s', [], true)

def Scanner.each (s : Scanner) (k : Nat) : Scanner × List Bytes × Bool :=
  eachLoop (s.rem.length + 2) k s

/-! ### the scanner as a state machine over its API (what the driver stream `C16.scanner` executes) -/

inductive Op
  | next
  | split
  | each (k : Nat)
  | rest
  /-- `s.Reset(r)` with a reader that delivers `input`, then `tail` -/
  | reset (input : Bytes) (tail : Tail)
  deriving Repr

inductive Out
  | next (o : NextOut)
  /-- tokens of `Split`/`Each`; the Boolean reports the index panic -/
  | toks (ts : List Bytes) (panicked : Bool)
  /-- everything read from the reader returned by `Rest`, and how it ended -/
  | rest (bytes : Bytes) (tail : Tail)
  | unit
  deriving Repr

def Scanner.step (s : Scanner) : Op → Scanner × Out
  | .next => let (s', o) := s.next; (s', .next o)
  | .split => let (s', ts, p) := s.split; (s', .toks ts p)
  | .each k => let (s', ts, p) := s.each k; (s', .toks ts p)
  | .rest => let (s', b, t) := s.rest; (s', .rest b t)
  | .reset input tail => (s.reset input tail, .unit)

def Scanner.runOps (s : Scanner) : List Op → Scanner × List Out
  | [] => (s, [])
  | op :: ops =>
    let (s', o) := s.step op
    let (s'', os) := s'.runOps ops
    (s'', o :: os)

/-- package function `Split(s)`: pooled scanner, `Reset(strings.NewReader(s))`, `sc.Split()`,
    `sc.Complete()`; third component: did the table lookup panic -/
def splitP (input : Bytes) : List Bytes × Bool × Bool :=
  let sc := (Scanner.new [] .eof).reset input .eof
  let (sc', ts, p) := sc.split
  (ts, sc'.complete, p)

/-- `shell.Split` -/
def split (input : Bytes) : List Bytes × Bool :=
  let r := splitP input
  (r.1, r.2.1)

/-! ### Quote / Join -/

/-- `quotable(s)`, first result (the early exit `v < all` does not change the results) -/
def hasQ (s : Bytes) : Bool := s.any (fun c => c == quoteByte)
/-- `quotable(s)`, second result -/
def hasOther (s : Bytes) : Bool := s.any (fun c => c != quoteByte && allQuote.contains c)

/-- the `for` loop of `quote`; first argument `hasOther`, second `inq` -/
def qloop (other : Bool) : Bool → Bytes → Bytes
  | inq, [] => if inq then [quoteByteLoop] else []
  | inq, ch :: rest =>
    if ch = quoteByteLoop then
      (if inq then [quoteByteLoop] else []) ++ [escapeByte, ch] ++ qloop other false rest
    else if !inq && other then [quoteByteLoop, ch] ++ qloop other true rest
    else ch :: qloop other inq rest

/-- `quote(s, buf)` appended to an empty buffer; also `Quote(s)` (whose two fast paths are the same) -/
def quote (s : Bytes) : Bytes :=
  if s = [] then emptyQuoted
  else if !hasQ s && !hasOther s then s
  else qloop (hasOther s) false s

/-- the `for _, s := range ss[1:]` loop of `Join` -/
def joinRest : List Bytes → Bytes
  | [] => []
  | s :: ss => joinSep :: (quote s ++ joinRest ss)

/-- `Join(ss)` -/
def join : List Bytes → Bytes
  | [] => []
  | s :: ss => quote s ++ joinRest ss

end MdsVerif.Model.Shell
