import MdsVerif.Model.Mdiff
import MdsVerif.Gen.MdiffFmt
/-!
# Executable model of `mdiff/format.go` and `mdiff/reader.go` (core Lean only)

A line is a `List Char` (one `Char` per byte; the harness only uses bytes < 0x80), a text is the
list of its lines, `render` writes every line followed by `'\n'` (every writer call ends a line
with `"\n"`), `readLines` is `diffReader.readline` iterated (`ReadString('\n')`, a last line
without `'\n'` is returned if it is not empty).

Writers: `unified`, `context`, `normal` with `dspan`, `uspan`, `writeLines`, `fmtFileHeader`.
Readers: `read` (`readNormal`/`readNormalEdit`), `readUnified` (`readUnifiedHeader`,
`readUnifiedChunk`, `parseSpan`), `readGitPatch` (`scanToPrefix`).  The pushed-back line
(`unread`) is simply not consumed.  Reader errors are `none` / `.err`.

Everything in which a one-token change is likely comes from `Gen.MdiffFmt` (regenerated from the
sources on every check): the case analysis of `dspan`/`uspan` and what they print, Normal's
`rpos-1`/`lpos-1`, the prefixes, the reader's `return lo, 0, nil`, `LEnd: llo + lhi`,
`lhi == 0 → lhi = llo`, `lhi++`, `llo++`, `rlo++`, the line-class bytes.  With the pinned facts the
model therefore carries the two recorded defects F5 (an omitted count is read as 0) and F6 (an
empty range is spelled `start,0`).

Numbers: `strconv.Itoa` on a non-negative `int` is `Nat.toDigits 10`; `strconv.Atoi` is modelled on
unsigned decimal numerals only (`atoi?`; a sign is a parse error here, Go accepts it — no writer
output contains one).  Timestamps are opaque: a `FileInfo` carries the *formatted* time
(`ts.Format(TimeFormat)`), `none` = zero time; `time.Parse` is a parameter `parseTime`.
-/
namespace MdsVerif.Model.MdiffFmt
open MdsVerif.Model.Edit MdsVerif.Model.Mdiff
open MdsVerif.Gen

abbrev Line := List Char

def str (s : String) : Line := s.toList

/-- `strconv.Itoa` (non-negative) -/
def itoa (n : Nat) : Line := Nat.toDigits 10 n

/-- `strconv.Atoi` on unsigned decimal numerals -/
def atoi? (s : Line) : Option Nat :=
  if s ≠ [] ∧ s.all Char.isDigit then some (Nat.ofDigitChars 10 s 0) else none

/-! ## writers -/

/-- `dspan(start, end)` -/
def dspan (s e : Nat) : Line :=
  if MdiffFmt.dspanSingle s e then itoa (MdiffFmt.dspanOne s e)
  else itoa (MdiffFmt.dspanFst s e) ++ [','] ++ itoa (MdiffFmt.dspanSnd s e)

/-- `uspan(side, start, end)` -/
def uspan (side : Line) (s e : Nat) : Line :=
  if MdiffFmt.uspanSingle s e then side ++ itoa (MdiffFmt.uspanOne s e)
  else side ++ itoa (MdiffFmt.uspanFst s e) ++ [','] ++ itoa (MdiffFmt.uspanSnd s e)

/-- `writeLines(w, pfx, lines)` -/
def writeLines (pfx : Line) (ls : List Line) : List Line := ls.map (pfx ++ ·)

/-- `FileInfo` with the default `TimeFormat`; times are carried in formatted form -/
structure FileInfo where
  left : Line
  right : Line
  leftTime : Option Line
  rightTime : Option Line
deriving DecidableEq, Repr

/-- `cmp.Or(name, dflt)` -/
def orDefault (name dflt : Line) : Line := if name = [] then dflt else name

/-- `fmtFileHeader(w, prefix, name, ts, tfmt)` -/
def fmtFileHeader (pfx name : Line) (ts : Option Line) : Line :=
  pfx ++ name ++ (match ts with | none => [] | some t => '\t' :: t)

def unifiedEdit (e : Edit Line) : List Line :=
  match e.op with
  | .drop => writeLines (str MdiffFmt.uniDrop) e.X
  | .emit => writeLines (str MdiffFmt.uniEmit) e.X
  | .copy => writeLines (str MdiffFmt.uniCopy) e.Y
  | .replace => writeLines (str MdiffFmt.uniDrop) e.X ++ writeLines (str MdiffFmt.uniCopy) e.Y

def unifiedChunk (c : Chunk Line) : List Line :=
  (str "@@ " ++ uspan ['-'] c.lstart c.lend ++ [' '] ++ uspan ['+'] c.rstart c.rend ++ str " @@")
    :: c.edits.flatMap unifiedEdit

/-- `Unified(w, ch, fi)` -/
def unified (cs : List (Chunk Line)) (fi : Option FileInfo) : List Line :=
  if cs.length = 0 then [] else
  (match fi with
   | none => []
   | some f => [fmtFileHeader (str "--- ") (orDefault f.left ['a']) f.leftTime,
                fmtFileHeader (str "+++ ") (orDefault f.right ['b']) f.rightTime])
  ++ cs.flatMap unifiedChunk

/-- `hasRelevantEdits(es, op)` -/
def hasRelevantEdits (es : List (Edit Line)) (op : EditOp) : Bool :=
  es.any fun e => e.op = op ∨ e.op = .replace

def contextLeft (e : Edit Line) : List Line :=
  match e.op with
  | .drop => writeLines (str MdiffFmt.ctxDrop) e.X
  | .emit => writeLines (str MdiffFmt.ctxEmit) e.X
  | .replace => writeLines (str MdiffFmt.ctxRepl) e.X
  | .copy => []

def contextRight (e : Edit Line) : List Line :=
  match e.op with
  | .copy => writeLines (str MdiffFmt.ctxCopy) e.Y
  | .emit => writeLines (str MdiffFmt.ctxEmit) e.X
  | .replace => writeLines (str MdiffFmt.ctxRepl) e.Y
  | .drop => []

def contextChunk (c : Chunk Line) : List Line :=
  [str "***************", str "*** " ++ dspan c.lstart c.lend ++ str " ****"]
  ++ (if hasRelevantEdits c.edits .drop then c.edits.flatMap contextLeft else [])
  ++ [str "--- " ++ dspan c.rstart c.rend ++ str " ----"]
  ++ (if hasRelevantEdits c.edits .copy then c.edits.flatMap contextRight else [])

/-- `Context(w, ch, fi)` -/
def context (cs : List (Chunk Line)) (fi : Option FileInfo) : List Line :=
  if cs.length = 0 then [] else
  (match fi with
   | none => []
   | some f => [fmtFileHeader (str "*** ") (orDefault f.left ['a']) f.leftTime,
                fmtFileHeader (str "--- ") (orDefault f.right ['b']) f.rightTime])
  ++ cs.flatMap contextChunk

/-- the loop over `c.Edits` of `Normal` with its `lpos`, `rpos` -/
def normalEdits : List (Edit Line) → Nat → Nat → List Line
  | [], _, _ => []
  | e :: es, lpos, rpos =>
    match e.op with
    | .drop =>
      (dspan lpos (lpos + e.X.length) ++ ['d'] ++ itoa (MdiffFmt.normalDropRight lpos rpos))
        :: writeLines (str MdiffFmt.nrmDel) e.X ++ normalEdits es (lpos + e.X.length) rpos
    | .emit => normalEdits es (lpos + e.X.length) (rpos + e.X.length)
    | .copy =>
      (itoa (MdiffFmt.normalAddLeft lpos rpos) ++ ['a'] ++ dspan rpos (rpos + e.Y.length))
        :: writeLines (str MdiffFmt.nrmIns) e.Y ++ normalEdits es lpos (rpos + e.Y.length)
    | .replace =>
      (dspan lpos (lpos + e.X.length) ++ ['c'] ++ dspan rpos (rpos + e.Y.length))
        :: writeLines (str MdiffFmt.nrmDel) e.X ++ [str "---"] ++ writeLines (str MdiffFmt.nrmIns) e.Y
        ++ normalEdits es (lpos + e.X.length) (rpos + e.Y.length)

/-- `Normal(w, ch, _)` -/
def normal (cs : List (Chunk Line)) : List Line :=
  cs.flatMap fun c => normalEdits c.edits c.lstart c.rstart

/-- the bytes written: every line is followed by `"\n"` -/
def render (ls : List Line) : List Char := ls.flatMap (· ++ ['\n'])

/-! ## readers -/

/-- `diffReader.readline` iterated to EOF -/
def readLinesAux : List Char → Line → List Line
  | [], cur => if cur = [] then [] else [cur.reverse]
  | c :: cs, cur => if c = '\n' then cur.reverse :: readLinesAux cs [] else readLinesAux cs (c :: cur)

def readLines (text : List Char) : List Line := readLinesAux text []

/-- `strings.CutPrefix(s, pfx)` -/
def cutPrefix (pfx : Line) (s : Line) : Option Line :=
  if pfx.isPrefixOf s then some (s.drop pfx.length) else none

/-- `strings.Cut(s, sep)` for a one-byte separator: `none` = not found -/
def cut (sep : Char) : Line → Option (Line × Line)
  | [] => none
  | c :: cs => if c = sep then some ([], cs) else (cut sep cs).map fun p => (c :: p.1, p.2)

/-- `parseSpan(tag, s)`: `none` = error -/
def parseSpan (tag : Line) (s : Line) : Option (Nat × Nat) :=
  match cutPrefix tag s with
  | none => none
  | some rest =>
    match cut ',' rest with
    | none => (atoi? rest).map fun lo => (lo, MdiffFmt.spanOmitted lo)
    | some (a, b) =>
      match atoi? a, atoi? b with
      | some lo, some hi => some (lo, hi)
      | _, _ => none

/-- Go's `unicode.IsSpace` on ASCII -/
def isSpace (c : Char) : Bool :=
  c = ' ' ∨ c = '\t' ∨ c = '\n' ∨ c = '\x0b' ∨ c = '\x0c' ∨ c = '\r'

/-- `strings.Fields` (ASCII) -/
def fieldsAux : Line → Line → List Line
  | [], cur => if cur = [] then [] else [cur.reverse]
  | c :: cs, cur =>
    if isSpace c then (if cur = [] then fieldsAux cs [] else cur.reverse :: fieldsAux cs [])
    else fieldsAux cs (c :: cur)

def fields (s : Line) : List Line := fieldsAux s []

/-- the closure `add(op, text)` of `readUnifiedChunk` -/
def addLine (es : List (Edit Line)) (op : EditOp) (text : Line) : List (Edit Line) :=
  let put (e : Edit Line) : Edit Line :=
    match op with
    | .copy => { e with Y := e.Y ++ [text] }
    | _ => { e with X := e.X ++ [text] }
  match es.getLast? with
  | some e => if e.op = op then es.dropLast ++ [put e] else es ++ [put ⟨op, [], []⟩]
  | none => [put ⟨op, [], []⟩]

/-- result of `readUnifiedChunk` -/
inductive ChunkRes where
  | eof                                          -- `io.EOF` from the first `readline`
  | err                                          -- any other error
  | ok (c : Chunk Line) (rest : List Line)       -- chunk appended, `nil`
  | unexpected (c : Chunk Line) (rest : List Line)  -- chunk appended, `errUnexpectedPrefix`
deriving Repr

/-- the loop `nextLine:` of `readUnifiedChunk` -/
def readUnifiedBody : List Line → Chunk Line → ChunkRes
  | [], ch => .ok ch []
  | line :: rest, ch =>
    match line with
    | [] => .err
    | c :: text =>
      if c = MdiffFmt.rdUniEmit then readUnifiedBody rest { ch with edits := addLine ch.edits .emit text }
      else if c = MdiffFmt.rdUniDrop then readUnifiedBody rest { ch with edits := addLine ch.edits .drop text }
      else if c = MdiffFmt.rdUniCopy then readUnifiedBody rest { ch with edits := addLine ch.edits .copy text }
      else if c = MdiffFmt.rdUniHunk then .ok ch (line :: rest)
      else .unexpected ch (line :: rest)

/-- `readUnifiedChunk(r)` -/
def readUnifiedChunk : List Line → ChunkRes
  | [] => .eof
  | line :: rest =>
    match fields line with
    | p0 :: p1 :: p2 :: p3 :: _ =>
      if p0 ≠ str "@@" ∨ p3 ≠ str "@@" then .err else
      match parseSpan ['-'] p1, parseSpan ['+'] p2 with
      | some (llo, lhi), some (rlo, rhi) =>
        readUnifiedBody rest
          ⟨[], MdiffFmt.uniLStart llo lhi rlo rhi, MdiffFmt.uniLEnd llo lhi rlo rhi,
               MdiffFmt.uniRStart llo lhi rlo rhi, MdiffFmt.uniREnd llo lhi rlo rhi⟩
      | _, _ => .err
    | _ => .err

/-- `parseFileLine(s, TimeFormat)`; `parseTime` is `time.Parse(TimeFormat, ·)` on the text after
the first tab, returning the time in formatted form -/
def parseFileLine (parseTime : Line → Option Line) (s : Line) : Line × Option Line :=
  match cut '\t' s with
  | none => (s, none)
  | some (name, rest) => (name, parseTime rest)

/-- result of `readUnifiedHeader`: `none` = error; otherwise the `FileInfo` (if a header was
present) and the remaining lines -/
def readUnifiedHeader (parseTime : Line → Option Line) :
    List Line → Option (Option FileInfo × List Line)
  | [] => none   -- io.EOF is returned as an error
  | lline :: rest =>
    match cutPrefix (str "--- ") lline with
    | none => some (none, lline :: rest)
    | some lhs =>
      match rest with
      | [] => none
      | rline :: rest' =>
        match cutPrefix (str "+++ ") rline with
        | none => none
        | some rhs =>
          let l := parseFileLine parseTime lhs
          let r := parseFileLine parseTime rhs
          some (some ⟨l.1, r.1, l.2, r.2⟩, rest')

/-- A parsed patch -/
structure Patch where
  fileInfo : Option FileInfo
  chunks : List (Chunk Line)
deriving Repr

/-- the loop of `readUnified`; fuel = number of lines + 1 (every chunk consumes its header) -/
def readUnifiedChunks : Nat → List Line → List (Chunk Line) → Option (List (Chunk Line))
  | 0, _, _ => none
  | f + 1, ls, acc =>
    match readUnifiedChunk ls with
    | .eof => some acc
    | .err => none
    | .unexpected _ _ => none
    | .ok c rest => readUnifiedChunks f rest (acc ++ [c])

/-- `ReadUnified(r)` on the lines of the input; `none` = error -/
def readUnified (parseTime : Line → Option Line) (ls : List Line) : Option Patch :=
  match readUnifiedHeader parseTime ls with
  | none => none
  | some (fi, rest) => (readUnifiedChunks (rest.length + 1) rest []).map fun cs => ⟨fi, cs⟩

/-- `scanToPrefix(r, prefix)`: `none` = EOF, otherwise the lines from the matching one on -/
def scanToPrefix (pfx : Line) : List Line → Option (List Line)
  | [] => none
  | l :: ls => if pfx.isPrefixOf l then some (l :: ls) else scanToPrefix pfx ls

/-- the inner loop of `ReadGitPatch`: chunks until EOF or an unexpected prefix -/
def readGitChunks : Nat → List Line → List (Chunk Line) → Option (List (Chunk Line) × List Line)
  | 0, _, _ => none
  | f + 1, ls, acc =>
    match readUnifiedChunk ls with
    | .eof => some (acc, [])
    | .err => none
    | .unexpected c rest => some (acc ++ [c], rest)
    | .ok c rest => readGitChunks f rest (acc ++ [c])

/-- the outer loop of `ReadGitPatch` -/
def readGitLoop (parseTime : Line → Option Line) : Nat → List Line → List Patch → Option (List Patch)
  | 0, _, _ => none
  | f + 1, ls, out =>
    match scanToPrefix (str "diff ") ls with
    | none => if out.length = 0 then none else some out
    | some ls1 =>
      match scanToPrefix (str "--- ") ls1 with
      | none => none
      | some ls2 =>
        match readUnifiedHeader parseTime ls2 with
        | none => none
        | some (none, _) => none
        | some (some fi, ls3) =>
          match readGitChunks (ls3.length + 1) ls3 [] with
          | none => none
          | some (cs, rest) => readGitLoop parseTime f rest (out ++ [⟨some fi, cs⟩])

/-- `ReadGitPatch(r)` -/
def readGitPatch (parseTime : Line → Option Line) (ls : List Line) : Option (List Patch) :=
  readGitLoop parseTime (ls.length + 1) ls []

/-- `readNormalEdit(r)`: `none` = error, otherwise `(X, Y, remaining lines)` -/
def readNormalEdit : List Line → List Line → List Line → Bool → Option (List Line × List Line × List Line)
  | [], X, Y, _ => some (X, Y, [])
  | line :: rest, X, Y, below =>
    match cutPrefix (str MdiffFmt.rdNrmDel) line with
    | some rst => if below ∨ Y.length ≠ 0 then none else readNormalEdit rest (X ++ [rst]) Y below
    | none =>
      match cutPrefix (str MdiffFmt.rdNrmIns) line with
      | some rst => if X.length ≠ 0 ∧ ¬ below then none else readNormalEdit rest X (Y ++ [rst]) below
      | none =>
        if line = str MdiffFmt.rdNrmSep then (if below then none else readNormalEdit rest X Y true)
        else some (X, Y, line :: rest)

/-- the three `strings.Cut(line, "a" | "c" | "d")` attempts, in that order -/
def cutCmd (line : Line) : Option (Line × Char × Line) :=
  match cut 'a' line with
  | some (x, y) => some (x, 'a', y)
  | none =>
    match cut 'c' line with
    | some (x, y) => some (x, 'c', y)
    | none =>
      match cut 'd' line with
      | some (x, y) => some (x, 'd', y)
      | none => none

/-- `lhi == 0 → lhi = llo; lhi++` -/
def nrmHi (lo hi inc : Nat) : Nat :=
  (if MdiffFmt.nrmZeroMeansSame ∧ hi = 0 then lo else hi) + inc

/-- the loop of `readNormal`; fuel = number of lines + 1 -/
def readNormalLoop : Nat → List Line → List (Chunk Line) → Option (List (Chunk Line))
  | 0, _, _ => none
  | _ + 1, [], acc => some acc
  | f + 1, line :: rest, acc =>
    if line = [] then none else
    match cutCmd line with
    | none => none
    | some (lspec, cmd, rspec) =>
      match parseSpan [] lspec, parseSpan [] rspec with
      | some (llo, lhi0), some (rlo, rhi0) =>
        let lhi := nrmHi llo lhi0 MdiffFmt.nrmLhiInc
        let rhi := nrmHi rlo rhi0 MdiffFmt.nrmRhiInc
        match readNormalEdit rest [] [] false with
        | none => none
        | some (X, Y, rest') =>
          let op : EditOp := if cmd = 'a' then .copy else if cmd = 'c' then .replace else .drop
          let llo := if cmd = 'a' then llo + MdiffFmt.nrmAddLloInc else llo
          let rlo := if cmd = 'd' then rlo + MdiffFmt.nrmDelRloInc else rlo
          if (rhi < rlo ∨ Y.length ≠ rhi - rlo) ∧ (cmd = 'a' ∨ cmd = 'c') then none
          else if (lhi < llo ∨ X.length ≠ lhi - llo) ∧ (cmd = 'c' ∨ cmd = 'd') then none
          else readNormalLoop f rest' (acc ++ [⟨[⟨op, X, Y⟩], llo, lhi, rlo, rhi⟩])
      | _, _ => none

/-- `Read(r)` on the lines of the input -/
def read (ls : List Line) : Option Patch :=
  (readNormalLoop (ls.length + 1) ls []).map fun cs => ⟨none, cs⟩

end MdsVerif.Model.MdiffFmt
