import MdsVerif.Gen.Slice
/-!
# Executable model of `slice/lis.go` (core Lean only)

`LNDSFunc`, `LISFunc`, `bisectRight`, and `slices.BinarySearchFunc` (Go 1.2x
standard library, modelled by its loop).  The two exported functions are the
same code up to the fast-path test (`>= 0` / `> 0`) and the binary search
(`bisectRight` / `slices.BinarySearchFunc`); `lisCore strict` is that common
text with the two differences selected by `strict`.

State as in the Go code: `tails : []int` (indices into `vs`), `prev : []int`
(indices, `-1` = none).  Every index expression is an `Option` read (`none` =
Go's index-out-of-range panic); that it never happens is part of the theorems.
`cmp : α → α → Int` is Go's three-way comparison.

The fast-path tests, the choice of binary search, the `replaceIdx == 0` tests and
`bisectRight`'s comparison are definitions of `MdsVerif.Gen.Slice`, regenerated from
slice/lis.go on every run (`extract/slice.go`); `Props.C12.C12_current` pins them.
-/
namespace MdsVerif.Model.Lis

variable {α : Type}

/-- `l[i] = v` with Go's bounds check -/
def setAt {β : Type} (l : List β) (i : Nat) (v : β) : Option (List β) :=
  if i < l.length then some (l.set i v) else none

/-- The loop shared by `bisectRight` and `slices.BinarySearchFunc`:
```
for low < high { mid := (low + high) / 2; if goLeft(mid) { high = mid } else { low = mid + 1 } }
return low
```
`goLeft mid` performs the reads (`none` = index out of range).  First argument: fuel. -/
def bsearchLoop (goLeft : Nat → Option Bool) : Nat → Nat → Nat → Option Nat
  | 0, low, high => if low < high then none else some low
  | f + 1, low, high =>
    if low < high then do
      let mid := (low + high) / 2
      if (← goLeft mid) then bsearchLoop goLeft f low mid
      else bsearchLoop goLeft f (mid + 1) high
    else some low

/-- `bisectRight(vs, target, cmp)`: `if cmp(vs[mid], target) > 0 { high = mid } else { low = mid + 1 }` -/
def bisectRight {β γ : Type} (vs : List β) (target : γ) (cmp : β → γ → Option Int) : Option Nat :=
  bsearchLoop (fun mid => do
    let x ← vs[mid]?
    let c ← cmp x target
    pure (Gen.Slice.bisectGoLeft c)) (vs.length + 1) 0 vs.length

/-- `slices.BinarySearchFunc(x, target, cmp)` (index result only):
`if cmp(x[h], target) < 0 { i = h + 1 } else { j = h }` -/
def binarySearchFunc {β γ : Type} (vs : List β) (target : γ) (cmp : β → γ → Option Int) : Option Nat :=
  bsearchLoop (fun mid => do
    let x ← vs[mid]?
    let c ← cmp x target
    pure (!decide (c < 0))) (vs.length + 1) 0 vs.length

structure St where
  tails : List Nat
  prev : List Int
deriving Repr

/-- One iteration of `for i := range vs[1:] { i++; … }`. -/
def lisStep (strict : Bool) (cmp : α → α → Int) (vs : List α) (s : St) (i : Nat) : Option St := do
  -- idxOfBestTail := tails[len(tails)-1]
  let idxOfBestTail ← s.tails.getLast?
  let vi ← vs[i]?
  let vb ← vs[idxOfBestTail]?
  -- if cmp(vs[i], vs[idxOfBestTail]) >= 0   (LIS: > 0)
  if (if strict then Gen.Slice.lisFast (cmp vi vb) else Gen.Slice.lndsFast (cmp vi vb)) then
    let prev ← setAt s.prev i (idxOfBestTail : Int)
    pure { tails := s.tails ++ [i], prev := prev }
  else
    let cmpIdx : Nat → α → Option Int := fun idx target => (vs[idx]?).map (cmp · target)
    let replaceIdx ←
      -- LNDS: `bisectRight(tails[:len(tails)-1], vs[i], …)`, LIS: `slices.BinarySearchFunc(…)`
      if (if strict then Gen.Slice.lisUsesBisectRight else Gen.Slice.lndsUsesBisectRight) then
        bisectRight s.tails.dropLast vi cmpIdx
      else binarySearchFunc s.tails.dropLast vi cmpIdx
    -- `if replaceIdx == 0 { prev[i] = -1 } else { prev[i] = tails[replaceIdx-1] }`
    let p : Int ←
      if (if strict then Gen.Slice.lisFirst replaceIdx else Gen.Slice.lndsFirst replaceIdx) then some (-1)
      else (s.tails[replaceIdx - 1]?).map Int.ofNat
    let prev ← setAt s.prev i p
    let tails ← setAt s.tails replaceIdx i
    pure { tails := tails, prev := prev }

def lisLoop (strict : Bool) (cmp : α → α → Int) (vs : List α) : List Nat → St → Option St
  | [], s => some s
  | i :: is, s => do
    let s' ← lisStep strict cmp vs s i
    lisLoop strict cmp vs is s'

/-- `for i := range ret { ret[len(ret)-1-i] = vs[seqIdx]; seqIdx = prev[seqIdx] }`:
`k` iterations from `seqIdx`; the result lists `ret` in index order. -/
def walkPrev (vs : List α) (prev : List Int) : Nat → Int → Option (List α)
  | 0, _ => some []
  | k + 1, seqIdx =>
    if seqIdx < 0 then none
    else do
      let v ← vs[seqIdx.toNat]?
      let p ← prev[seqIdx.toNat]?
      let rest ← walkPrev vs prev k p
      pure (rest ++ [v])

/-- the common text of `LNDSFunc` (`strict = false`) and `LISFunc` (`strict = true`) -/
def lisCore (strict : Bool) (cmp : α → α → Int) (vs : List α) : Option (List α) :=
  if vs.length = 0 then some vs
  else do
    -- tails = make([]int, 1, len(vs)); prev = make([]int, len(vs)); prev[0] = -1; tails[0] = 0
    let prev ← setAt (List.replicate vs.length (0 : Int)) 0 (-1)
    let s ← lisLoop strict cmp vs (List.range' 1 (vs.length - 1)) { tails := [0], prev := prev }
    let seqIdx ← s.tails.getLast?
    walkPrev vs s.prev s.tails.length seqIdx

def lndsFunc (cmp : α → α → Int) (vs : List α) : Option (List α) := lisCore false cmp vs
def lisFunc (cmp : α → α → Int) (vs : List α) : Option (List α) := lisCore true cmp vs

/-- `cmp.Compare` on integers -/
def cmpInt (a b : Int) : Int := if a < b then -1 else if a > b then 1 else 0

end MdsVerif.Model.Lis
