/-!
# `gen_fact`: semantic (extensional) pins of the regenerated facts

The definitions under `Gen/` are regenerated from the Go sources on every run.  The lemmas that restate them
for the proofs (`*_iff`, `*_eq`, `*_def`) and the `Cxx_current` theorems used to be proved by `rfl` or by
rewriting the syntactic form, so that a semantically neutral one-token edit of the source (`len(vs) == 0` →
`len(vs) < 1`, `a || b` → `b || a`, `x + 1` → `1 + x`) broke them although nothing had changed
(audit/refactor-report.md, cause 6).  `gen_fact` proves such a restatement by computation over the variables
instead: the statement — what the fact must BE, as a function of its arguments — is unchanged and still fails
for every edit that changes a value.  Core Lean only.
-/
namespace MdsVerif

/-- `gen_fact f g …`: prove a restatement of regenerated facts (`Gen.*` definitions `f g …`) EXTENSIONALLY —
by computation over the variables, not by the syntactic form of the definition: after `intros` and unfolding,
`rfl`, or linear arithmetic over the comparisons (`omega`, after turning `decide`/`&&`/`||`/`!` into
propositions), or commutativity of `+`/`*` for an index expression such as `(1 + head) % cap`. -/
syntax "gen_fact" (ppSpace colGt ident)* : tactic
macro_rules
  | `(tactic| gen_fact $ids*) => `(tactic|
      (intros
       first
         | rfl
         | (unfold $ids*
            first
              | rfl
              | omega
              | ((try refine propext ?_)
                 (try refine Bool.eq_iff_iff.mpr ?_)
                 set_option linter.unusedSimpArgs false in
                 simp only [decide_eq_true_iff, Bool.or_eq_true, Bool.and_eq_true, Bool.not_eq_true',
                   decide_eq_false_iff_not, ge_iff_le, gt_iff_lt, ne_eq, beq_iff_eq, bne_iff_ne,
                   iff_true, true_iff, iff_false, false_iff, eq_self_iff_true, Bool.true_eq_false, Bool.false_eq_true]
                 omega)
              | (simp only [Nat.add_comm, Nat.mul_comm, Nat.add_left_comm, Int.add_comm, Int.mul_comm, Int.add_left_comm])
              | simp)))


end MdsVerif
