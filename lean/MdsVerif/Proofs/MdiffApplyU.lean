import MdsVerif.Proofs.MdiffApply
/-!
# `applyUnified (unified cs fi) L = some R` — C14 (apply), unified format
-/
namespace MdsVerif.Proofs.MdiffApply
open MdsVerif.Model.Edit MdsVerif.Model.Mdiff MdsVerif.Model.MdiffFmt MdsVerif.Proofs.MdiffFmt
open MdsVerif.Spec MdsVerif.Spec.Mdiff MdsVerif.Proofs.Mdiff MdsVerif.Gen

/-! ## the body of a hunk -/

theorem str_uniDrop : str MdiffFmt.uniDrop = ['-'] := rfl
theorem str_uniEmit : str MdiffFmt.uniEmit = [' '] := rfl
theorem str_uniCopy : str MdiffFmt.uniCopy = ['+'] := rfl

theorem unifiedBody_zero (rest : List Line) :
    DiffApply.unifiedBody 0 0 rest = some ([], [], rest) := by
  cases rest <;> rfl

theorem unifiedBody_minus (x : Line) (s t : Nat) (rest : List Line) :
    DiffApply.unifiedBody (s + 1) t (('-' :: x) :: rest)
      = (DiffApply.unifiedBody s t rest).map fun p => (x :: p.1, p.2.1, p.2.2) := rfl

theorem unifiedBody_plus (x : Line) (s t : Nat) (rest : List Line) :
    DiffApply.unifiedBody s (t + 1) (('+' :: x) :: rest)
      = (DiffApply.unifiedBody s t rest).map fun p => (p.1, x :: p.2.1, p.2.2) := by
  rw [DiffApply.unifiedBody.eq_def]
  simp

theorem unifiedBody_space (x : Line) (s t : Nat) (rest : List Line) :
    DiffApply.unifiedBody (s + 1) (t + 1) ((' ' :: x) :: rest)
      = (DiffApply.unifiedBody s t rest).map fun p => (x :: p.1, x :: p.2.1, p.2.2) := rfl

theorem unifiedBody_drop (X : List Line) (s t : Nat) (rest : List Line) :
    DiffApply.unifiedBody (X.length + s) t (writeLines ['-'] X ++ rest)
      = (DiffApply.unifiedBody s t rest).map fun p => (X ++ p.1, p.2.1, p.2.2) := by
  induction X with
  | nil =>
    simp only [writeLines, List.length_nil, Nat.zero_add, List.map_nil, List.nil_append]
    cases DiffApply.unifiedBody s t rest <;> rfl
  | cons x X ih =>
    have e : (x :: X).length + s = (X.length + s) + 1 := by simp only [List.length_cons]; omega
    rw [e]
    simp only [writeLines, List.map_cons, List.cons_append, List.nil_append] at ih ⊢
    rw [unifiedBody_minus, ih]
    cases DiffApply.unifiedBody s t rest <;> simp

theorem unifiedBody_copy (Y : List Line) (s t : Nat) (rest : List Line) :
    DiffApply.unifiedBody s (Y.length + t) (writeLines ['+'] Y ++ rest)
      = (DiffApply.unifiedBody s t rest).map fun p => (p.1, Y ++ p.2.1, p.2.2) := by
  induction Y with
  | nil =>
    simp only [writeLines, List.length_nil, Nat.zero_add, List.map_nil, List.nil_append]
    cases DiffApply.unifiedBody s t rest <;> rfl
  | cons x X ih =>
    have e : (x :: X).length + t = (X.length + t) + 1 := by simp only [List.length_cons]; omega
    rw [e]
    simp only [writeLines, List.map_cons, List.cons_append, List.nil_append] at ih ⊢
    rw [unifiedBody_plus, ih]
    cases DiffApply.unifiedBody s t rest <;> simp

theorem unifiedBody_emit (X : List Line) (s t : Nat) (rest : List Line) :
    DiffApply.unifiedBody (X.length + s) (X.length + t) (writeLines [' '] X ++ rest)
      = (DiffApply.unifiedBody s t rest).map fun p => (X ++ p.1, X ++ p.2.1, p.2.2) := by
  induction X with
  | nil =>
    simp only [writeLines, List.length_nil, Nat.zero_add, List.map_nil, List.nil_append]
    cases DiffApply.unifiedBody s t rest <;> rfl
  | cons x X ih =>
    have e : (x :: X).length + s = (X.length + s) + 1 := by simp only [List.length_cons]; omega
    have e' : (x :: X).length + t = (X.length + t) + 1 := by simp only [List.length_cons]; omega
    rw [e, e']
    simp only [writeLines, List.map_cons, List.cons_append, List.nil_append] at ih ⊢
    rw [unifiedBody_space, ih]
    cases DiffApply.unifiedBody s t rest <;> simp

theorem unifiedBody_edits (es : List (Edit Line)) (s t : Nat) (rest : List Line) :
    DiffApply.unifiedBody ((consumed es).length + s) ((produced es).length + t)
        (es.flatMap unifiedEdit ++ rest)
      = (DiffApply.unifiedBody s t rest).map fun p => (consumed es ++ p.1, produced es ++ p.2.1, p.2.2) := by
  induction es with
  | nil =>
    simp only [consumed, produced, List.flatMap_nil, List.length_nil, Nat.zero_add, List.nil_append]
    cases DiffApply.unifiedBody s t rest <;> rfl
  | cons e es ih =>
    obtain ⟨op, X, Y⟩ := e
    have hc : consumed (⟨op, X, Y⟩ :: es) = consumedOf ⟨op, X, Y⟩ ++ consumed es := by simp [consumed]
    have hp : produced (⟨op, X, Y⟩ :: es) = producedOf ⟨op, X, Y⟩ ++ produced es := by simp [produced]
    rw [hc, hp, List.flatMap_cons, List.append_assoc]
    cases op
    · -- drop
      simp only [consumedOf, producedOf, unifiedEdit, str_uniDrop, List.nil_append,
        List.length_append, Nat.add_assoc]
      rw [unifiedBody_drop, ih]
      cases DiffApply.unifiedBody s t rest <;> simp
    · -- emit
      simp only [consumedOf, producedOf, unifiedEdit, str_uniEmit, List.length_append, Nat.add_assoc]
      rw [unifiedBody_emit, ih]
      cases DiffApply.unifiedBody s t rest <;> simp
    · -- copy
      simp only [consumedOf, producedOf, unifiedEdit, str_uniCopy, List.nil_append,
        List.length_append, Nat.add_assoc]
      rw [unifiedBody_copy, ih]
      cases DiffApply.unifiedBody s t rest <;> simp
    · -- replace
      simp only [consumedOf, producedOf, unifiedEdit, str_uniDrop, str_uniCopy,
        List.length_append, Nat.add_assoc, List.append_assoc]
      rw [unifiedBody_drop, unifiedBody_copy, ih]
      cases DiffApply.unifiedBody s t rest <;> simp

theorem unifiedBody_chunk (es : List (Edit Line)) (rest : List Line) :
    DiffApply.unifiedBody (consumed es).length (produced es).length (es.flatMap unifiedEdit ++ rest)
      = some (consumed es, produced es, rest) := by
  have := unifiedBody_edits es 0 0 rest
  simp only [Nat.add_zero, unifiedBody_zero, Option.map, List.append_nil] at this
  exact this

/-! ## the hunk header -/

/-- what `uspan` writes after the side byte -/
def urange (s e : Nat) : Line := if e - s = 1 then itoa s else itoa s ++ ',' :: itoa (e - s)

theorem uspan_cons (c : Char) (s e : Nat) : uspan [c] s e = c :: urange s e := by
  rw [uspan_eq, urange]
  by_cases h : e - s = 1
  · simp only [if_pos h, List.cons_append, List.nil_append]
  · simp only [if_neg h, List.cons_append, List.nil_append]

theorem urange_nospace (s e : Nat) : ' ' ∉ urange s e := by
  have h1 := not_mem_itoa s ' ' (by decide)
  have h2 := not_mem_itoa (e - s) ' ' (by decide)
  unfold urange
  by_cases h : e - s = 1
  · rw [if_pos h]; exact h1
  · rw [if_neg h]
    intro hm
    rcases List.mem_append.mp hm with hm | hm
    · exact h1 hm
    · rcases List.mem_cons.mp hm with hm | hm
      · exact absurd hm (by decide)
      · exact h2 hm

theorem range_urange (s e : Nat) :
    DiffApply.range? (urange s e) = some (s, if e - s = 1 then none else some (e - s)) := by
  unfold urange
  by_cases h : e - s = 1
  · simp only [if_pos h, range_itoa]
  · simp only [if_neg h, range_pair]

theorem takeWhile_nospace (a rest : Line) (h : ' ' ∉ a) :
    (a ++ ' ' :: rest).takeWhile (· ≠ ' ') = a := by
  induction a with
  | nil => simp
  | cons c a ih =>
    have hc : c ≠ ' ' := fun e => h (by simp [e])
    have ih' := ih (fun e => h (by simp [e]))
    rw [List.cons_append, List.takeWhile_cons, if_pos (decide_eq_true hc), ih']

theorem parseUnifiedHeader_mk (a b : Line) (ha : ' ' ∉ a) (hb : ' ' ∉ b)
    (x y : Nat × Option Nat) (hx : DiffApply.range? a = some x) (hy : DiffApply.range? b = some y) :
    DiffApply.parseUnifiedHeader ('@' :: '@' :: ' ' :: '-' :: (a ++ ' ' :: '+' :: (b ++ [' ', '@', '@'])))
      = some (x, y) := by
  unfold DiffApply.parseUnifiedHeader
  have d1 : DiffApply.dropPrefix? ['@', '@', ' ', '-']
      ('@' :: '@' :: ' ' :: '-' :: (a ++ ' ' :: '+' :: (b ++ [' ', '@', '@'])))
      = some (a ++ ' ' :: '+' :: (b ++ [' ', '@', '@'])) := by
    simp [DiffApply.dropPrefix?, List.isPrefixOf]
  rw [d1]
  simp only [takeWhile_nospace _ _ ha, List.drop_left]
  have d2 : DiffApply.dropPrefix? [' ', '+'] (' ' :: '+' :: (b ++ [' ', '@', '@']))
      = some (b ++ [' ', '@', '@']) := by
    simp [DiffApply.dropPrefix?, List.isPrefixOf]
  rw [d2]
  simp only [takeWhile_nospace _ _ hb, List.drop_left]
  rw [if_pos (by simp [List.isPrefixOf])]
  simp only [hx, hy]

theorem parseUnifiedHeader_chunk (ls le rs re : Nat) :
    DiffApply.parseUnifiedHeader
        (str "@@ " ++ uspan ['-'] ls le ++ [' '] ++ uspan ['+'] rs re ++ str " @@")
      = some ((ls, if le - ls = 1 then none else some (le - ls)),
              (rs, if re - rs = 1 then none else some (re - rs))) := by
  have e : str "@@ " ++ uspan ['-'] ls le ++ [' '] ++ uspan ['+'] rs re ++ str " @@"
      = '@' :: '@' :: ' ' :: '-' :: (urange ls le ++ ' ' :: '+' :: (urange rs re ++ [' ', '@', '@'])) := by
    rw [uspan_cons, uspan_cons]
    have e1 : str "@@ " = ['@', '@', ' '] := rfl
    have e2 : str " @@" = [' ', '@', '@'] := rfl
    rw [e1, e2]
    simp only [List.cons_append, List.nil_append, List.append_assoc]
  rw [e]
  exact parseUnifiedHeader_mk _ _ (urange_nospace ls le) (urange_nospace rs re) _ _
    (range_urange ls le) (range_urange rs re)

/-! ## one chunk -/

theorem count_getD (n : Nat) : (if n = 1 then (none : Option Nat) else some n).getD 1 = n := by
  by_cases h : n = 1
  · rw [if_pos h, h]; rfl
  · rw [if_neg h]; rfl

theorem applyUnifiedLoop_chunk (L R : List Line) (c : Chunk Line) (rest : List Line) (f : Nat)
    (s : DiffApply.St) (lp rp : Nat) (h : At L R s lp rp) (g : GapEq L R lp rp c.lstart c.rstart)
    (hc : ChunkOK c L R) (hne : c.lstart < c.lend ∧ c.rstart < c.rend) :
    ∃ s', DiffApply.applyUnifiedLoop L (f + 1) (unifiedChunk c ++ rest) s
        = DiffApply.applyUnifiedLoop L f rest s' ∧ At L R s' c.lend c.rend := by
  have hl1 := hc.l1; have hl2 := hc.l2; have hl3 := hc.l3
  have hr1 := hc.r1; have hr2 := hc.r2; have hr3 := hc.r3
  have h' := h.gap g (by omega) (by omega)
  have hol : (consumed c.edits).length = c.lend - c.lstart := by
    rw [hc.cons, length_span L hc.l1 hc.l3]
  have hnl : (produced c.edits).length = c.rend - c.rstart := by
    rw [hc.prod, length_span R hc.r1 hc.r3]
  have el : c.lstart + (consumed c.edits).length = c.lend := by omega
  have er : c.rstart + (produced c.edits).length = c.rend := by omega
  obtain ⟨s', hs, hat⟩ := h'.hunk (consumed c.edits) (produced c.edits)
    (by rw [el]; exact hc.cons) (by rw [er]; exact hc.prod) (by omega) (by omega)
  rw [el, er] at hat
  refine ⟨s', ?_, hat⟩
  unfold unifiedChunk
  rw [List.cons_append, DiffApply.applyUnifiedLoop, parseUnifiedHeader_chunk]
  simp only [count_getD]
  rw [← hol, ← hnl, unifiedBody_chunk]
  simp only
  rw [if_neg (by omega), if_neg (by omega), hs]

/-! ## all chunks -/

theorem unifiedChunk_length_pos (c : Chunk Line) : 1 ≤ (unifiedChunk c).length := by
  unfold unifiedChunk
  rw [List.length_cons]; omega

theorem applyUnifiedLoop_chunks (L R : List Line) : ∀ (cs : List (Chunk Line)) (f : Nat)
    (s : DiffApply.St) (lp rp : Nat), (cs.flatMap unifiedChunk).length + 1 ≤ f → At L R s lp rp →
    AllOK cs L R → Aligned L R lp rp cs → (∀ c ∈ cs, c.lstart < c.lend ∧ c.rstart < c.rend) →
    DiffApply.applyUnifiedLoop L f (cs.flatMap unifiedChunk) s = some R
  | [], f, s, lp, rp, hf, h, _, hal, _ => by
    obtain ⟨f', rfl⟩ : ∃ f', f = f' + 1 := ⟨f - 1, by omega⟩
    rw [List.flatMap_nil, DiffApply.applyUnifiedLoop, h.finish hal]
  | c :: cs, f, s, lp, rp, hf, h, hok, hal, hne => by
    obtain ⟨f', rfl⟩ : ∃ f', f = f' + 1 := ⟨f - 1, by omega⟩
    rw [List.flatMap_cons] at hf ⊢
    rw [List.length_append] at hf
    have := unifiedChunk_length_pos c
    obtain ⟨s', hs, hat⟩ := applyUnifiedLoop_chunk L R c (cs.flatMap unifiedChunk) f' s lp rp h hal.1
      (hok c (List.mem_cons_self ..)) (hne c (List.mem_cons_self ..))
    rw [hs]
    exact applyUnifiedLoop_chunks L R cs f' s' c.lend c.rend (by omega) hat
      (fun d hd => hok d (List.mem_cons_of_mem _ hd)) hal.2
      (fun d hd => hne d (List.mem_cons_of_mem _ hd))

theorem skipHeader_hunk (p2 x : Line) (rest : List Line) :
    DiffApply.skipHeader ['-', '-', '-', ' '] p2 (('@' :: x) :: rest) = ('@' :: x) :: rest := by
  cases rest with
  | nil => rfl
  | cons b rest => simp [DiffApply.skipHeader, List.isPrefixOf]

theorem skipHeader_header (x y : Line) (rest : List Line) :
    DiffApply.skipHeader ['-', '-', '-', ' '] ['+', '+', '+', ' ']
      (('-' :: '-' :: '-' :: ' ' :: x) :: ('+' :: '+' :: '+' :: ' ' :: y) :: rest) = rest := by
  simp [DiffApply.skipHeader, List.isPrefixOf]

theorem unifiedChunk_head (c : Chunk Line) : ∃ x rest, unifiedChunk c = ('@' :: x) :: rest := by
  unfold unifiedChunk
  have e1 : str "@@ " = ['@', '@', ' '] := rfl
  rw [e1]
  simp only [List.cons_append]
  exact ⟨_, _, rfl⟩

theorem skipHeader_unified (cs : List (Chunk Line)) (fi : Option FileInfo) :
    DiffApply.skipHeader ['-', '-', '-', ' '] ['+', '+', '+', ' '] (unified cs fi)
      = cs.flatMap unifiedChunk := by
  cases cs with
  | nil => rfl
  | cons c cs =>
    unfold unified
    rw [if_neg (by simp)]
    cases fi with
    | none =>
      simp only [List.nil_append, List.flatMap_cons]
      obtain ⟨x, rest, e⟩ := unifiedChunk_head c
      rw [e, List.cons_append, skipHeader_hunk]
    | some f =>
      simp only [fmtFileHeader]
      have e1 : str "--- " = ['-', '-', '-', ' '] := rfl
      have e2 : str "+++ " = ['+', '+', '+', ' '] := rfl
      rw [e1, e2]
      simp only [List.cons_append, List.nil_append]
      rw [skipHeader_header]

/-- **C14, unified**: the reference applier of the unified format, run on what `Unified` writes for
correct, aligned chunks with non-empty ranges on both sides, turns `L` into `R` -/
theorem applyUnified_chunks (cs : List (Chunk Line)) (L R : List Line) (fi : Option FileInfo)
    (hok : AllOK cs L R) (hal : Aligned L R 1 1 cs)
    (hne : ∀ c ∈ cs, c.lstart < c.lend ∧ c.rstart < c.rend) :
    DiffApply.applyUnified (unified cs fi) L = some R := by
  unfold DiffApply.applyUnified
  simp only [skipHeader_unified]
  exact applyUnifiedLoop_chunks L R cs _ _ 1 1 (Nat.le_refl _) (At.init L R) hok hal hne

theorem applyUnified_chunks_none (cs : List (Chunk Line)) (L R : List Line)
    (hok : AllOK cs L R) (hal : Aligned L R 1 1 cs)
    (hne : ∀ c ∈ cs, c.lstart < c.lend ∧ c.rstart < c.rend) :
    DiffApply.applyUnified (unified cs none) L = some R :=
  applyUnified_chunks cs L R none hok hal hne

end MdsVerif.Proofs.MdiffApply
