import MdsVerif.Model.Cache
import MdsVerif.Spec.LruRef
import MdsVerif.Proofs.CacheDefs
/-!
# Helper lemmas for C08 (`cache.Cache` with the LRU store)

Layers, bottom up:

1. `Index` (assoc-list map) lemmas, `replay` (= what `Lru.sync` does with the heap's move log);
2. the **heap interface** the cache needs (`pop_spec`, `add_spec`): position tracking through the move
   log (`Tr`), conservation (`List.Perm`), returned element / returned offset.  These are the only
   lemmas that look inside `Model.Heapq.pop/add/pushUp/pushDown`; they hold for every heap
   configuration of the class `CfgOK` (in particular the pinned one);
3. the LRU store operations (`LruInv`, `check_spec` … `access_spec`);
4. the cache operations and histories (`Inv`, `step_inv`, callback conservation);
5. the conditional refinement of the reference recency list.
-/
namespace MdsVerif.Proofs.Cache
open MdsVerif.Model.Heapq hiding step clear set Op Out S
open MdsVerif.Model.Cache

/-- the class of heap configurations covered: index arithmetic that moves strictly up / down.  Nothing is
assumed about `right`, `heapifyStart` or `popSiftsUp`: the class contains the pinned configuration
(`pinned_ok`: `pop` without upward repair) as well as the repaired one (`pop` with the guarded sift-up). -/
structure CfgOK (cfg : Cfg) : Prop where
  parent_lt : ∀ i, 0 < i → cfg.parent i < i
  left_gt : ∀ i, i < cfg.left i

/-! ## 0. the regenerated facts (`Gen.Cache`) in the form the proofs use

The model `Model.Cache` calls the definitions of `Gen.Cache` (regenerated from cache.go / lru.go on every
run).  The lemmas of this section restate every model function with the pinned expressions written out;
everything below unfolds the model only through them.  A one-token change of one of these expressions in
the Go source changes `Gen/Cache.lean` and the corresponding lemma here stops compiling. -/
section facts
open Gen.Cache
theorem putRefuses_iff (v l : Int) : putRefuses v l = true ↔ v > l := by
  unfold putRefuses; rw [decide_eq_true_iff]
theorem putEvicts_iff (n l : Int) : putEvicts n l = true ↔ n > l := by
  unfold putEvicts; rw [decide_eq_true_iff]
theorem clearContinues_iff (n : Int) : clearContinues n = true ↔ n > 0 := by
  unfold clearContinues; rw [decide_eq_true_iff]
theorem clearInconsistent_eq (s n : Int) : clearInconsistent s n = (s != 0 || n != 0) := by
  unfold clearInconsistent
  by_cases h1 : s = 0 <;> by_cases h2 : n = 0 <;> simp [h1, h2]
theorem replaceSize_eq (s o : Int) : replaceSize s o = s - o := rfl
theorem replaceCount_eq (n : Int) : replaceCount n = n - 1 := rfl
theorem putNewSize_eq (s v : Int) : putNewSize s v = s + v := rfl
theorem evictCount_eq (n : Int) : evictCount n = n - 1 := rfl
theorem evictNewSize_eq (n e : Int) : evictNewSize n e = n - e := rfl
theorem putSize_eq (s n : Int) : putSize s n = n := rfl
theorem putCount_eq (n : Int) : putCount n = n + 1 := rfl
theorem removeSize_eq (s o : Int) : removeSize s o = s - o := rfl
theorem removeCount_eq (n : Int) : removeCount n = n - 1 := rfl
theorem clearSize_eq (s e : Int) : clearSize s e = s - e := rfl
theorem clearCount_eq (n : Int) : clearCount n = n - 1 := rfl
theorem accessClock_eq (c : Nat) : accessClock c = c + 1 := rfl
theorem accessStamp_eq (c : Nat) : accessStamp c = c := rfl
theorem storeClock_eq (c : Nat) : storeClock c = c + 1 := rfl
theorem storeStamp_eq (c : Nat) : storeStamp c = c := rfl
theorem prioLess_eq (a b : Nat) : prioLess a b = decide (a < b) := rfl
end facts

/-- `comparePrio`: entries are ordered by `lastAccess` -/
theorem ltEntry_def (a b : Entry) : ltEntry a b = decide (a.lastAccess < b.lastAccess) := rfl

theorem Lru.access_def (cfg : Cfg) (s : Lru) (key : Nat) :
    s.access cfg key =
      match s.present.get key with
      | none => (s, none)
      | some pos =>
        let clock := s.clock + 1
        let (h1, out) := heapRemove cfg s.h pos
        let s1 := ({ s with h := h1, clock := clock } : Lru).sync
        let out := { out with lastAccess := clock }
        let (h2, _) := add cfg ltEntry s1.h out
        (({ s1 with h := h2 } : Lru).sync, some out.value) := rfl

theorem Lru.store_def (cfg : Cfg) (s : Lru) (key val : Nat) :
    s.store cfg key val =
      match s.present.get key with
      | some _ => .panic "lru store: unexpected key"
      | none =>
        let clock := s.clock + 1
        let (h, pos) := add cfg ltEntry s.h { lastAccess := clock, key := key, value := val }
        let s1 := ({ s with h := h, clock := clock } : Lru).sync
        .ok { s1 with present := s1.present.set key pos } := rfl

theorem evictLoop_zero (cfg : Cfg) (sizeOf : Nat → Int) (c : Cache) (newSize : Int) :
    evictLoop cfg sizeOf 0 c newSize = .ok (c, newSize) := rfl

theorem evictLoop_succ (cfg : Cfg) (sizeOf : Nat → Int) (fuel : Nat) (c : Cache) (newSize : Int) :
    evictLoop cfg sizeOf (fuel + 1) c newSize =
      if newSize > c.limit then
        match c.store.evict cfg with
        | .panic m => .panic m
        | .ok (st, ek, ev) =>
          evictLoop cfg sizeOf fuel
            { c with store := st, evicted := (ek, ev) :: c.evicted, count := c.count - 1 } (newSize - sizeOf ev)
      else .ok (c, newSize) := by
  rw [evictLoop]
  simp only [putEvicts_iff, evictCount_eq, evictNewSize_eq]
  rfl

theorem put_def (cfg : Cfg) (sizeOf : Nat → Int) (c : Cache) (key val : Nat) :
    put cfg sizeOf c key val =
      (let valSize := sizeOf val
       if valSize > c.limit then .ok (c, false)
       else
         let c1 := match c.store.check key with
           | some old =>
             { c with store := c.store.remove cfg key, evicted := (key, old) :: c.evicted,
                      size := c.size - sizeOf old, count := c.count - 1 }
           | none => c
         match evictLoop cfg sizeOf (c1.store.h.len + 1) c1 (c1.size + valSize) with
         | .panic m => .panic m
         | .ok (c2, newSize) =>
           match c2.store.store cfg key val with
           | .panic m => .panic m
           | .ok st => .ok ({ c2 with store := st, size := newSize, count := c2.count + 1 }, true)) := by
  unfold put
  simp only [putRefuses_iff, replaceSize_eq, replaceCount_eq, putNewSize_eq, putSize_eq, putCount_eq]
  rfl

theorem remove_def (cfg : Cfg) (sizeOf : Nat → Int) (c : Cache) (key : Nat) :
    remove cfg sizeOf c key =
      match c.store.check key with
      | some old =>
        ({ c with store := c.store.remove cfg key, evicted := (key, old) :: c.evicted,
                  size := c.size - sizeOf old, count := c.count - 1 }, true)
      | none => (c, false) := rfl

theorem clearLoop_zero (cfg : Cfg) (sizeOf : Nat → Int) (c : Cache) :
    clearLoop cfg sizeOf 0 c = .ok c := rfl

theorem clearLoop_succ (cfg : Cfg) (sizeOf : Nat → Int) (fuel : Nat) (c : Cache) :
    clearLoop cfg sizeOf (fuel + 1) c =
      if c.count > 0 then
        match c.store.evict cfg with
        | .panic m => .panic m
        | .ok (st, ek, ev) =>
          clearLoop cfg sizeOf fuel
            { c with store := st, evicted := (ek, ev) :: c.evicted, size := c.size - sizeOf ev, count := c.count - 1 }
      else .ok c := by
  rw [clearLoop]
  simp only [clearContinues_iff, clearSize_eq, clearCount_eq]
  rfl

theorem clear_def (cfg : Cfg) (sizeOf : Nat → Int) (c : Cache) :
    clear cfg sizeOf c =
      match clearLoop cfg sizeOf (c.count.toNat + 1) c with
      | .panic m => .panic m
      | .ok c' => if c'.size != 0 || c'.count != 0 then .panic "cache: after clear" else .ok c' := by
  unfold MdsVerif.Model.Cache.clear
  simp only [clearInconsistent_eq]
  rfl

/-! ## 1. the index -/

theorem lookup_filter_ne (m : Index) (k k' : Nat) :
    List.lookup k' (m.filter (fun e => e.1 != k)) = if k' = k then none else List.lookup k' m := by
  induction m with
  | nil => simp
  | cons e m ih =>
    obtain ⟨a, b⟩ := e
    by_cases h : a = k
    · subst h
      by_cases h' : k' = a
      · subst h'; simp [ih]
      · have : (k' == a) = false := by simpa using h'
        simp [ih, List.lookup_cons, this]
    · have hk : (a != k) = true := by simpa using h
      by_cases h' : k' = a
      · subst h'; simp [hk, h]
      · have : (k' == a) = false := by simpa using h'
        simp [hk, List.lookup_cons, this, ih]

theorem get_set (m : Index) (k p k' : Nat) :
    (Index.set m k p).get k' = if k' = k then some p else m.get k' := by
  unfold Index.set Index.get
  by_cases h : k' = k
  · subst h; simp
  · have : (k' == k) = false := by simpa using h
    simp [List.lookup_cons, this, lookup_filter_ne, h]

theorem get_del (m : Index) (k k' : Nat) :
    (Index.del m k).get k' = if k' = k then none else m.get k' := by
  unfold Index.del Index.get
  exact lookup_filter_ne m k k'

/-- replay a move log (most recent first) into an index: `present[v.key] = pos` for each event, oldest first -/
def replay : List (Entry × Nat) → Index → Index
  | [], m => m
  | e :: l, m => Index.set (replay l m) e.1.key e.2

theorem foldl_reverse_eq_replay (l : List (Entry × Nat)) (m : Index) :
    l.reverse.foldl (fun m (e : Entry × Nat) => Index.set m e.1.key e.2) m = replay l m := by
  induction l with
  | nil => rfl
  | cons e l ih => simp [List.foldl_append, ih, replay]

theorem sync_present (s : Lru) : s.sync.present = replay s.h.log s.present := by
  show s.h.log.reverse.foldl (fun m (e : Entry × Nat) => Index.set m e.1.key e.2) s.present = _
  exact foldl_reverse_eq_replay _ _

@[simp] theorem sync_data (s : Lru) : s.sync.h.data = s.h.data := rfl
@[simp] theorem sync_log (s : Lru) : s.sync.h.log = [] := rfl
@[simp] theorem sync_clock (s : Lru) : s.sync.clock = s.clock := rfl

/-! ## 2. the heap interface -/

/-- **position tracking**: replaying the move log of `h` into the index `m` gives, for every element of the
array, its offset (`fwd`), and nothing for keys that are not in the array (`bwd`; `x` is the one key that
may temporarily be stale: the key of the element being removed / added). `fwd` implies that keys are
pairwise distinct. -/
structure Tr (m : Index) (x : Nat) (h : H Entry) : Prop where
  fwd : ∀ p e, h.data[p]? = some e → (replay h.log m).get e.key = some p
  bwd : ∀ k, k ∉ h.data.map (·.key) → k ≠ x → (replay h.log m).get k = none

theorem Tr.inj {m x} {h : H Entry} (t : Tr m x h) {p q : Nat} {e e' : Entry} (hp : h.data[p]? = some e)
    (hq : h.data[q]? = some e') (hk : e.key = e'.key) : p = q := by
  have a := t.fwd p e hp
  have b := t.fwd q e' hq
  rw [hk, b] at a
  exact (Option.some.inj a).symm

theorem H.get_eq (h : H Entry) {i : Nat} (hi : i < h.data.length) : h.get i = h.data[i] := by
  simp [H.get, List.getD_eq_getElem?_getD, hi]

theorem H.get_eq? (h : H Entry) {i : Nat} (hi : i < h.data.length) : h.data[i]? = some (h.get i) := by
  simp [H.get_eq h hi, hi]

theorem swap_data (h : H Entry) (i j : Nat) :
    (h.swap i j).data = (h.data.set i (h.get j)).set j (h.get i) := rfl

theorem swap_log (h : H Entry) {i j : Nat} (hi : i < h.data.length) (hj : j < h.data.length) :
    (h.swap i j).log = (h.get i, j) :: (h.get j, i) :: h.log := by
  simp only [H.swap, H.report, H.get, List.getD_eq_getElem?_getD]
  by_cases hij : i = j
  · subst hij; simp [hi]
  · have hji : j ≠ i := fun h => hij h.symm
    simp [hi, hj, hji]

theorem swap_perm (h : H Entry) {i j : Nat} (hi : i < h.data.length) (hj : j < h.data.length) :
    (h.swap i j).data.Perm h.data := by
  rw [swap_data, H.get_eq h hi, H.get_eq h hj]
  exact List.set_set_perm hi hj

theorem swap_len (h : H Entry) (i j : Nat) : (h.swap i j).len = h.len := by
  simp [H.len, swap_data]

theorem mem_keys_of_getElem? {l : List Entry} {p : Nat} {e : Entry} (h : l[p]? = some e) : e.key ∈ l.map (·.key) :=
  List.mem_map.2 ⟨e, List.mem_of_getElem? h, rfl⟩

theorem swap_tr {m x} {h : H Entry} (t : Tr m x h) {i j : Nat} (hi : i < h.data.length)
    (hj : j < h.data.length) : Tr m x (h.swap i j) := by
  have ha := H.get_eq? h hi
  have hb := H.get_eq? h hj
  refine ⟨?_, ?_⟩
  · intro p e hp
    rw [swap_log h hi hj]
    simp only [replay, get_set]
    rw [swap_data] at hp
    by_cases hpj : p = j
    · subst hpj
      have : e = h.get i := by simpa [hj] using hp.symm
      simp [this]
    · by_cases hpi : p = i
      · subst hpi
        have he : e = h.get j := by
          have : ((h.data.set p (h.get j)).set j (h.get p))[p]? = some (h.get j) := by
            rw [List.getElem?_set_ne (fun h => hpj h.symm)]; simp [hi]
          rw [this] at hp; exact (Option.some.inj hp).symm
        subst he
        have hne : (h.get j).key ≠ (h.get p).key := fun hk => hpj (t.inj ha hb hk.symm)
        simp [hne]
      · have hp' : h.data[p]? = some e := by
          rw [List.getElem?_set_ne (fun h => hpj h.symm), List.getElem?_set_ne (fun h => hpi h.symm)] at hp
          exact hp
        have h1 : e.key ≠ (h.get i).key := fun hk => hpi (t.inj hp' ha hk)
        have h2 : e.key ≠ (h.get j).key := fun hk => hpj (t.inj hp' hb hk)
        simp [h1, h2, t.fwd p e hp']
  · intro k hk hx
    rw [swap_log h hi hj]
    simp only [replay, get_set]
    have hk' : k ∉ h.data.map (·.key) := fun hm =>
      hk (((swap_perm h hi hj).map (·.key)).mem_iff.2 hm)
    have h1 : k ≠ (h.get i).key := fun e => hk' (e ▸ mem_keys_of_getElem? ha)
    have h2 : k ≠ (h.get j).key := fun e => hk' (e ▸ mem_keys_of_getElem? hb)
    simp [h1, h2, t.bwd k hk' hx]

theorem pushDown_cases (cfg : Cfg) (lt : Entry → Entry → Bool) (fuel : Nat) (h : H Entry) (i : Nat) :
    pushDown cfg lt (fuel + 1) h i = (h, i) ∨
    ∃ mn, mn < h.len ∧ cfg.left i < h.len ∧
      pushDown cfg lt (fuel + 1) h i = pushDown cfg lt fuel (h.swap i mn) mn := by
  simp only [pushDown]
  by_cases hlc : cfg.left i < h.len
  · rw [if_pos hlc]
    have key : ∀ mn, (mn = i ∨ mn < h.len) →
        ((if mn = i then (h, i) else pushDown cfg lt fuel (h.swap i mn) mn) = (h, i) ∨
          ∃ mn', mn' < h.len ∧ cfg.left i < h.len ∧
            (if mn = i then (h, i) else pushDown cfg lt fuel (h.swap i mn) mn)
              = pushDown cfg lt fuel (h.swap i mn') mn') := by
      intro mn hmn
      by_cases e : mn = i
      · exact .inl (if_pos e)
      · exact .inr ⟨mn, hmn.resolve_left e, hlc, if_neg e⟩
    apply key
    by_cases c2 : (decide (cfg.right (cfg.left i) < h.len) &&
        lt (h.get (cfg.right (cfg.left i))) (h.get (if lt (h.get (cfg.left i)) (h.get i) = true then cfg.left i else i))) = true
    · rw [if_pos c2]
      simp only [Bool.and_eq_true, decide_eq_true_eq] at c2
      exact .inr c2.1
    · rw [if_neg c2]
      by_cases c1 : lt (h.get (cfg.left i)) (h.get i) = true
      · rw [if_pos c1]; exact .inr hlc
      · rw [if_neg c1]; exact .inl rfl
  · rw [if_neg hlc]; exact .inl rfl

theorem pushDown_spec {cfg : Cfg} (ok : CfgOK cfg) (lt : Entry → Entry → Bool) {m : Index} {x : Nat} :
    ∀ (fuel : Nat) (h : H Entry) (i : Nat), Tr m x h →
      Tr m x (pushDown cfg lt fuel h i).1 ∧ (pushDown cfg lt fuel h i).1.data.Perm h.data := by
  intro fuel
  induction fuel with
  | zero => intro h i t; exact ⟨t, .refl _⟩
  | succ fuel ih =>
    intro h i t
    rcases pushDown_cases cfg lt fuel h i with e | ⟨mn, hmn, hlc, e⟩
    · rw [e]; exact ⟨t, .refl _⟩
    · rw [e]
      have hi : i < h.data.length := Nat.lt_trans (ok.left_gt i) hlc
      have := ih (h.swap i mn) mn (swap_tr t hi hmn)
      exact ⟨this.1, this.2.trans (swap_perm h hi hmn)⟩

theorem pushUp_cases (cfg : Cfg) (lt : Entry → Entry → Bool) (fuel : Nat) (h : H Entry) (i : Nat) :
    pushUp cfg lt (fuel + 1) h i = (h, i) ∨
    (0 < i ∧ pushUp cfg lt (fuel + 1) h i = pushUp cfg lt fuel (h.swap i (cfg.parent i)) (cfg.parent i)) := by
  simp only [pushUp]
  split
  · rename_i hi
    split
    · exact .inl rfl
    · exact .inr ⟨hi, rfl⟩
  · exact .inl rfl

theorem pushUp_spec {cfg : Cfg} (ok : CfgOK cfg) (lt : Entry → Entry → Bool) {m : Index} {x : Nat} :
    ∀ (fuel : Nat) (h : H Entry) (i : Nat), Tr m x h → i < h.data.length →
      let r := pushUp cfg lt fuel h i
      Tr m x r.1 ∧ r.1.data.Perm h.data ∧ r.1.data[r.2]? = h.data[i]? := by
  intro fuel
  induction fuel with
  | zero => intro h i t _; exact ⟨t, .refl _, by rfl⟩
  | succ fuel ih =>
    intro h i t hi
    rcases pushUp_cases cfg lt fuel h i with e | ⟨hpos, e⟩
    · simp only [e]; exact ⟨t, .refl _, trivial⟩
    · simp only [e]
      have hp : cfg.parent i < h.data.length := Nat.lt_trans (ok.parent_lt i hpos) hi
      have hp' : cfg.parent i < (h.swap i (cfg.parent i)).data.length := by
        simpa [swap_data] using hp
      have := ih (h.swap i (cfg.parent i)) (cfg.parent i) (swap_tr t hi hp) hp'
      refine ⟨this.1, this.2.1.trans (swap_perm h hi hp), ?_⟩
      rw [this.2.2, swap_data, List.getElem?_set_self (by simpa using hp), H.get_eq? h hi]

/-- the first half of `pop(i)`: exchange `data[i]` with the last cell, report `i`, cut the last cell off -/
def moveLast (h : H Entry) (i : Nat) : H Entry :=
  let n := h.len - 1
  let h1 : H Entry := { h with data := (h.data.set i (h.get n)).set n (h.get i) }
  let h2 := h1.report i
  { h2 with data := h2.data.take n }

theorem pop_eq (cfg : Cfg) (lt : Entry → Entry → Bool) (h : H Entry) (i : Nat) (hn : h.len - 1 ≠ 0) :
    pop cfg lt h i =
      (if cfg.popSiftsUp && ((pushDown cfg lt (moveLast h i).len (moveLast h i) i).2 = i && i < (moveLast h i).len)
        then ((pushUp cfg lt (i + 1) (pushDown cfg lt (moveLast h i).len (moveLast h i) i).1 i).1, h.get i)
        else ((pushDown cfg lt (moveLast h i).len (moveLast h i) i).1, h.get i)) := by
  simp only [pop, hn, if_false, moveLast]
  rfl

theorem moveLast_data_getElem? (h : H Entry) {i : Nat} (hi : i < h.data.length) (p : Nat) :
    (moveLast h i).data[p]? =
      if p < h.data.length - 1 then (if p = i then some (h.get (h.data.length - 1)) else h.data[p]?)
      else none := by
  simp only [moveLast, H.report, H.len, List.getElem?_take]
  split
  · rename_i hp
    rw [List.getElem?_set_ne (by omega)]
    by_cases hpi : p = i
    · subst hpi; simp [hi]
    · rw [List.getElem?_set_ne (fun h => hpi h.symm)]; simp [hpi]
  · rfl

theorem moveLast_log (h : H Entry) {i : Nat} (hi : i < h.data.length) :
    (moveLast h i).log = (h.get (h.data.length - 1), i) :: h.log := by
  simp only [moveLast, H.report, H.len, H.get, List.getD_eq_getElem?_getD]
  by_cases hin : i = h.data.length - 1
  · rw [← hin]; simp [hi]
  · rw [List.getElem?_set_ne (fun h => hin h.symm)]; simp [hi]

theorem take_concat_last {l : List Entry} {n : Nat} (hl : l.length = n + 1) (a : Entry)
    (ha : l[n]? = some a) : l.take n ++ [a] = l := by
  apply List.ext_getElem?
  intro p
  have hlen : (l.take n).length = n := by simp [List.length_take]; omega
  rw [List.getElem?_append, hlen]
  by_cases hp : p < n
  · rw [if_pos hp, List.getElem?_take, if_pos hp]
  · rw [if_neg hp]
    by_cases hpn : p = n
    · subst hpn; simp [ha]
    · have h1 : l[p]? = none := by simp; omega
      have : p - n = (p - n - 1) + 1 := by omega
      rw [this, h1]; rfl

theorem moveLast_perm (h : H Entry) {i : Nat} (hi : i < h.data.length) :
    (h.get i :: (moveLast h i).data).Perm h.data := by
  have hn : h.data.length - 1 < h.data.length := by omega
  have p1 : ((h.data.set i (h.get (h.data.length - 1))).set (h.data.length - 1) (h.get i)).Perm h.data := by
    rw [H.get_eq h hi, H.get_eq h hn]; exact List.set_set_perm hi hn
  have e : (moveLast h i).data ++ [h.get i] =
      (h.data.set i (h.get (h.data.length - 1))).set (h.data.length - 1) (h.get i) := by
    simp only [moveLast, H.report, H.len]
    apply take_concat_last
    · simp; omega
    · simp [hn]
  exact (List.perm_append_singleton _ _).symm.trans (e ▸ p1)

theorem moveLast_tr {m : Index} {h : H Entry} {i : Nat} (hi : i < h.data.length)
    (t : Tr m (h.get i).key h) : Tr m (h.get i).key (moveLast h i) := by
  have hn : h.data.length - 1 < h.data.length := by omega
  have hlast := H.get_eq? h hn
  have hout := H.get_eq? h hi
  refine ⟨?_, ?_⟩
  · intro p e hp
    rw [moveLast_log h hi]
    simp only [replay, get_set]
    rw [moveLast_data_getElem? h hi] at hp
    by_cases hpn : p < h.data.length - 1
    · rw [if_pos hpn] at hp
      by_cases hpi : p = i
      · rw [if_pos hpi] at hp
        have := Option.some.inj hp
        subst this; simp [hpi]
      · rw [if_neg hpi] at hp
        have hne : e.key ≠ (h.get (h.data.length - 1)).key := fun hk => by
          have := t.inj hp hlast hk; omega
        simp [hne, t.fwd p e hp]
    · rw [if_neg hpn] at hp; cases hp
  · intro k hk hx
    rw [moveLast_log h hi]
    simp only [replay, get_set]
    have hmem : ∀ (q : Nat) (e : Entry), (moveLast h i).data[q]? = some e → k ≠ e.key := fun q e hq hke =>
      hk (hke ▸ mem_keys_of_getElem? hq)
    have h1 : k ≠ (h.get (h.data.length - 1)).key := by
      by_cases hin : i = h.data.length - 1
      · rw [← hin]; exact hx
      · apply hmem i
        rw [moveLast_data_getElem? h hi, if_pos (by omega), if_pos rfl]
    have h2 : k ∉ h.data.map (·.key) := by
      intro hm
      obtain ⟨e, he, hke⟩ := List.mem_map.1 hm
      obtain ⟨q, hq, hqe⟩ := List.getElem_of_mem he
      have hq? : h.data[q]? = some e := by simp [hq, hqe]
      by_cases hqi : q = i
      · subst hqi
        rw [hout] at hq?
        exact hx (by rw [← hke, ← Option.some.inj hq?])
      · by_cases hqn : q < h.data.length - 1
        · apply hmem q e _ hke.symm
          rw [moveLast_data_getElem? h hi, if_pos hqn, if_neg hqi, hq?]
        · have : q = h.data.length - 1 := by omega
          subst this
          rw [hlast] at hq?
          exact h1 (by rw [← hke, ← Option.some.inj hq?])
    simp [h1, t.bwd k h2 hx]

/-- **heap interface, `pop`**: for `i` in range, `pop i` returns `data[i]`, conserves the other elements,
and its move log keeps the index exact (up to the stale key of the removed element). -/
theorem pop_spec {cfg : Cfg} (ok : CfgOK cfg) {m : Index} {h : H Entry} {i : Nat} (hi : i < h.data.length)
    (t : Tr m (h.get i).key h) :
    (pop cfg ltEntry h i).2 = h.get i ∧
    Tr m (h.get i).key (pop cfg ltEntry h i).1 ∧
    (h.get i :: (pop cfg ltEntry h i).1.data).Perm h.data := by
  by_cases hn : h.len - 1 = 0
  · have hlen : h.data.length = 1 := by simp only [H.len] at hn; omega
    obtain ⟨a, ha⟩ := List.length_eq_one_iff.1 hlen
    have hi0 : i = 0 := by omega
    subst hi0
    have hg : h.get 0 = a := by simp [H.get, ha]
    have hp : pop cfg ltEntry h 0 = ({ h with data := [] }, h.get 0) := by simp [pop, hn]
    rw [hp]
    refine ⟨rfl, ⟨?_, ?_⟩, ?_⟩
    · intro p e hp; simp at hp
    · intro k _ hx
      apply t.bwd k _ hx
      simpa [ha, hg] using hx
    · simp [ha, hg]
  · rw [pop_eq cfg ltEntry h i hn]
    have := pushDown_spec ok ltEntry (moveLast h i).len (moveLast h i) i (moveLast_tr hi t)
    split
    · rename_i hu
      simp only [Bool.and_eq_true, decide_eq_true_eq] at hu
      have hlt : i < (pushDown cfg ltEntry (moveLast h i).len (moveLast h i) i).1.data.length := by
        rw [this.2.length_eq]; exact hu.2.2
      have up := pushUp_spec ok ltEntry (i + 1) _ i this.1 hlt
      exact ⟨rfl, up.1, ((up.2.1.trans this.2).cons _).trans (moveLast_perm h hi)⟩
    · exact ⟨rfl, this.1, (this.2.cons _).trans (moveLast_perm h hi)⟩

/-- **heap interface, `add`**: `add v` (for a new key) conserves the elements, keeps the index exact, and
returns the offset of the new element. -/
theorem add_spec {cfg : Cfg} (ok : CfgOK cfg) {m : Index} {h : H Entry} {v : Entry}
    (t : Tr m v.key h) (hv : v.key ∉ h.data.map (·.key)) :
    Tr m v.key (add cfg ltEntry h v).1 ∧
    (add cfg ltEntry h v).1.data.Perm (v :: h.data) ∧
    (add cfg ltEntry h v).1.data[(add cfg ltEntry h v).2]? = some v := by
  let h1 : H Entry := ({ h with data := h.data ++ [v] } : H Entry).report h.len
  have hlog : h1.log = (v, h.data.length) :: h.log := by
    simp [h1, H.report, H.get, H.len]
  have hdata : h1.data = h.data ++ [v] := rfl
  have t1 : Tr m v.key h1 := by
    refine ⟨?_, ?_⟩
    · intro p e hp
      rw [hlog]; simp only [replay, get_set]
      rw [hdata, List.getElem?_append] at hp
      by_cases hpl : p < h.data.length
      · rw [if_pos hpl] at hp
        have hne : e.key ≠ v.key := fun hk => hv (hk ▸ mem_keys_of_getElem? hp)
        simp [hne, t.fwd p e hp]
      · rw [if_neg hpl] at hp
        have hp0 : p - h.data.length = 0 := by
          by_cases h0 : p - h.data.length = 0
          · exact h0
          · have : p - h.data.length = (p - h.data.length - 1) + 1 := by omega
            rw [this] at hp; simp at hp
        rw [hp0] at hp
        have : e = v := by simpa using hp.symm
        subst this
        have : p = h.data.length := by omega
        simp [this]
    · intro k hk hx
      rw [hlog]; simp only [replay, get_set]
      have : k ∉ h.data.map (·.key) := fun hm => hk (by rw [hdata]; simp at hm ⊢; exact .inl hm)
      simp [hx, t.bwd k this hx]
  have hlt : h.len < h1.data.length := by simp [hdata, H.len]
  have := pushUp_spec ok ltEntry (h.len + 1) h1 h.len t1 hlt
  refine ⟨this.1, this.2.1.trans ?_, ?_⟩
  · rw [hdata]; exact List.perm_append_singleton _ _
  · show (pushUp cfg ltEntry (h.len + 1) h1 h.len).1.data[(pushUp cfg ltEntry (h.len + 1) h1 h.len).2]? = some v
    rw [this.2.2, hdata]; simp [H.len]

/-! ## 3. the LRU store -/

/-- invariant of the LRU store between operations -/
structure LruInv (s : Lru) : Prop where
  log_nil : s.h.log = []
  /-- `present` maps the key of every heap element to its offset … -/
  fwd : ∀ p e, s.h.data[p]? = some e → s.present.get e.key = some p
  /-- … and nothing else -/
  bwd : ∀ k, k ∉ s.h.data.map (·.key) → s.present.get k = none
  ts_nodup : (s.h.data.map (·.lastAccess)).Nodup
  ts_le : ∀ e ∈ s.h.data, e.lastAccess ≤ s.clock

theorem LruInv.tr {s : Lru} (inv : LruInv s) (x : Nat) : Tr s.present x s.h :=
  ⟨fun p e hp => by rw [inv.log_nil]; exact inv.fwd p e hp,
   fun k hk _ => by rw [inv.log_nil]; exact inv.bwd k hk⟩

theorem nodup_keys_of_fwd {l : List Entry} {m : Index}
    (fwd : ∀ p e, l[p]? = some e → m.get e.key = some p) : (l.map (·.key)).Nodup := by
  rw [List.nodup_iff_pairwise_ne, List.pairwise_iff_getElem]
  intro i j hi hj hij hk
  simp only [List.length_map] at hi hj
  simp only [List.getElem_map] at hk
  have a := fwd i l[i] (by simp [hi])
  have b := fwd j l[j] (by simp [hj])
  rw [hk, b] at a
  have := Option.some.inj a
  omega

theorem LruInv.nodup {s : Lru} (inv : LruInv s) : (s.h.data.map (·.key)).Nodup :=
  nodup_keys_of_fwd inv.fwd

theorem Tr.nodup {m x} {h : H Entry} (t : Tr m x h) : (h.data.map (·.key)).Nodup :=
  nodup_keys_of_fwd t.fwd

theorem key_unique {l : List Entry} (nd : (l.map (·.key)).Nodup) {e e' : Entry} (he : e ∈ l) (he' : e' ∈ l)
    (hk : e.key = e'.key) : e = e' := by
  induction l with
  | nil => cases he
  | cons a l ih =>
    rw [List.map_cons, List.nodup_cons] at nd
    have nd1 : ∀ x ∈ l, x.key ≠ a.key := fun x hx hxa => nd.1 (List.mem_map.2 ⟨x, hx, hxa⟩)
    rcases List.mem_cons.1 he with h1 | h1
    · rcases List.mem_cons.1 he' with h2 | h2
      · rw [h1, h2]
      · exact absurd (h1 ▸ hk).symm (nd1 e' h2)
    · rcases List.mem_cons.1 he' with h2 | h2
      · exact absurd (h2 ▸ hk) (nd1 e h1)
      · exact ih nd.2 h1 h2

theorem LruInv.get_of_mem {s : Lru} (inv : LruInv s) {e : Entry} (he : e ∈ s.h.data) :
    ∃ p, s.present.get e.key = some p ∧ s.h.data[p]? = some e ∧ p < s.h.data.length := by
  obtain ⟨p, hp, hpe⟩ := List.getElem_of_mem he
  have : s.h.data[p]? = some e := by simp [hp, hpe]
  exact ⟨p, inv.fwd p e this, this, hp⟩

theorem check_of_mem {s : Lru} (inv : LruInv s) {e : Entry} (he : e ∈ s.h.data) :
    s.check e.key = some e.value := by
  obtain ⟨p, hg, hp, _⟩ := inv.get_of_mem he
  simp [Lru.check, hg, hp]

theorem check_of_not_mem {s : Lru} (inv : LruInv s) {k : Nat} (hk : k ∉ s.h.data.map (·.key)) :
    s.check k = none := by
  simp [Lru.check, inv.bwd k hk]

/-- `check k` answers from the heap array: the value of the (unique) element with key `k` -/
theorem check_eq_some_iff {s : Lru} (inv : LruInv s) (k v : Nat) :
    s.check k = some v ↔ ∃ e ∈ s.h.data, e.key = k ∧ e.value = v := by
  constructor
  · intro hc
    by_cases hk : k ∈ s.h.data.map (·.key)
    · obtain ⟨e, he, rfl⟩ := List.mem_map.1 hk
      rw [check_of_mem inv he] at hc
      exact ⟨e, he, rfl, Option.some.inj hc⟩
    · rw [check_of_not_mem inv hk] at hc; cases hc
  · rintro ⟨e, he, rfl, rfl⟩; exact check_of_mem inv he

/-- the common first half of `Remove`/`Access`/`Evict`: pop the element at offset `p`, replay the log -/
theorem popSync_spec {cfg : Cfg} (ok : CfgOK cfg) {s : Lru} (inv : LruInv s) {p : Nat} {e : Entry}
    (hp : s.h.data[p]? = some e) (clk : Nat) :
    let r := pop cfg ltEntry s.h p
    let s1 := ({ s with h := r.1, clock := clk } : Lru).sync
    r.2 = e ∧ Tr s1.present e.key s1.h ∧ (e :: s1.h.data).Perm s.h.data := by
  have hlt : p < s.h.data.length := by
    rcases Nat.lt_or_ge p s.h.data.length with h | h
    · exact h
    · rw [List.getElem?_eq_none h] at hp; cases hp
  have hg : s.h.get p = e := by
    have := H.get_eq? s.h hlt; rw [hp] at this; exact (Option.some.inj this).symm
  have := pop_spec ok hlt (hg ▸ inv.tr e.key)
  rw [hg] at this
  refine ⟨this.1, ⟨?_, ?_⟩, this.2.2⟩
  · intro p' e' hp'
    rw [sync_log, sync_present]
    exact this.2.1.fwd p' e' hp'
  · intro k hk hx
    rw [sync_log, sync_present]
    exact this.2.1.bwd k hk hx

theorem perm_cons_nodup_keys {e : Entry} {l l' : List Entry} (hp : (e :: l).Perm l')
    (nd : (l'.map (·.key)).Nodup) : e.key ∉ l.map (·.key) ∧ (l.map (·.key)).Nodup := by
  have := (hp.map (·.key)).nodup_iff.2 nd
  rw [List.map_cons, List.nodup_cons] at this
  exact this

theorem perm_cons_ts {e : Entry} {l l' : List Entry} (hp : (e :: l).Perm l')
    (nd : (l'.map (·.lastAccess)).Nodup) : (l.map (·.lastAccess)).Nodup := by
  have := (hp.map (·.lastAccess)).nodup_iff.2 nd
  rw [List.map_cons, List.nodup_cons] at this
  exact this.2

/-- `Remove` of a present key: the element leaves, everything else stays, the invariant is kept -/
theorem remove_spec {cfg : Cfg} (ok : CfgOK cfg) {s : Lru} (inv : LruInv s) {e : Entry} (he : e ∈ s.h.data) :
    LruInv (s.remove cfg e.key) ∧ (e :: (s.remove cfg e.key).h.data).Perm s.h.data ∧
    (s.remove cfg e.key).clock = s.clock := by
  obtain ⟨p, hg, hp, hlt⟩ := inv.get_of_mem he
  have hr : s.remove cfg e.key =
      (let s1 := ({ s with h := (pop cfg ltEntry s.h p).1, clock := s.clock } : Lru).sync
       { s1 with present := s1.present.del e.key }) := by
    have : ¬ p ≥ s.h.len := by simp [H.len]; exact hlt
    simp only [Lru.remove, hg, heapRemove, this, if_false]
  rw [hr]
  have ps := popSync_spec ok inv hp s.clock
  obtain ⟨_, t, perm⟩ := ps
  have nk := perm_cons_nodup_keys perm inv.nodup
  refine ⟨⟨rfl, ?_, ?_, ?_, ?_⟩, perm, rfl⟩
  · intro p' e' hp'
    have hne : e'.key ≠ e.key := fun hk => nk.1 (hk ▸ mem_keys_of_getElem? hp')
    show (Index.del _ e.key).get e'.key = some p'
    rw [get_del, if_neg hne]
    exact t.fwd p' e' hp'
  · intro k hk
    show (Index.del _ e.key).get k = none
    rw [get_del]
    split
    · rfl
    · rename_i hne; exact t.bwd k hk hne
  · exact perm_cons_ts perm inv.ts_nodup
  · intro e' he'
    exact inv.ts_le e' (perm.mem_iff.1 (List.mem_cons_of_mem _ he'))

theorem remove_absent {cfg : Cfg} {s : Lru} (inv : LruInv s) {k : Nat} (hk : k ∉ s.h.data.map (·.key)) :
    s.remove cfg k = s := by
  simp [Lru.remove, inv.bwd k hk]

/-- `Evict` on a non-empty store never panics; it removes the element at the root of the heap -/
theorem evict_spec {cfg : Cfg} (ok : CfgOK cfg) {s : Lru} (inv : LruInv s) (hne : s.h.data ≠ []) :
    ∃ s' e, s.evict cfg = .ok (s', e.key, e.value) ∧ s.h.data[0]? = some e ∧
      LruInv s' ∧ (e :: s'.h.data).Perm s.h.data ∧ s'.clock = s.clock := by
  obtain ⟨e, hp⟩ : ∃ e, s.h.data[0]? = some e := by
    cases hd : s.h.data with
    | nil => exact absurd hd hne
    | cons a l => exact ⟨a, rfl⟩
  have hlen : ¬ s.h.len = 0 := by
    simp only [H.len]; intro h0; exact hne (List.length_eq_zero_iff.1 h0)
  obtain ⟨hout, t, perm⟩ := popSync_spec ok inv hp s.clock
  have nk := perm_cons_nodup_keys perm inv.nodup
  refine ⟨{ (({ s with h := (pop cfg ltEntry s.h 0).1, clock := s.clock } : Lru).sync) with
      present := (({ s with h := (pop cfg ltEntry s.h 0).1, clock := s.clock } : Lru).sync).present.del e.key },
    e, ?_, hp, ⟨rfl, ?_, ?_, ?_, ?_⟩, perm, rfl⟩
  · simp only [Lru.evict, hlen, if_false]
    rw [← hout]
  · intro p' e' hp'
    have hne : e'.key ≠ e.key := fun hk => nk.1 (hk ▸ mem_keys_of_getElem? hp')
    show (Index.del _ e.key).get e'.key = some p'
    rw [get_del, if_neg hne]
    exact t.fwd p' e' hp'
  · intro k hk
    show (Index.del _ e.key).get k = none
    rw [get_del]
    split
    · rfl
    · rename_i hne; exact t.bwd k hk hne
  · exact perm_cons_ts perm inv.ts_nodup
  · intro e' he'
    exact inv.ts_le e' (perm.mem_iff.1 (List.mem_cons_of_mem _ he'))

/-- the common second half of `Store`/`Access`: add an element with a fresh key and the newest timestamp,
replay the log -/
theorem addSync_spec {cfg : Cfg} (ok : CfgOK cfg) {s : Lru} {v : Entry}
    (t : Tr s.present v.key s.h) (hv : v.key ∉ s.h.data.map (·.key)) :
    let r := add cfg ltEntry s.h v
    let s1 := ({ s with h := r.1 } : Lru).sync
    (∀ p e, s1.h.data[p]? = some e → s1.present.get e.key = some p) ∧
    (∀ k, k ∉ s1.h.data.map (·.key) → s1.present.get k = none) ∧
    s1.h.data.Perm (v :: s.h.data) ∧ s1.h.data[r.2]? = some v := by
  have := add_spec ok t hv
  have hmem : v.key ∈ (add cfg ltEntry s.h v).1.data.map (·.key) :=
    ((this.2.1.map (·.key)).mem_iff).2 (by simp)
  refine ⟨?_, ?_, this.2.1, this.2.2⟩
  · intro p e hp
    rw [sync_present]
    exact this.1.fwd p e hp
  · intro k hk
    rw [sync_present]
    exact this.1.bwd k hk (fun h => hk (h ▸ hmem))

theorem ts_fresh {l l' : List Entry} {v : Entry} {clk : Nat} (hp : l'.Perm (v :: l))
    (nd : (l.map (·.lastAccess)).Nodup) (le : ∀ e ∈ l, e.lastAccess ≤ clk) (hv : v.lastAccess = clk + 1) :
    (l'.map (·.lastAccess)).Nodup ∧ ∀ e ∈ l', e.lastAccess ≤ clk + 1 := by
  constructor
  · apply (hp.map (·.lastAccess)).nodup_iff.2
    rw [List.map_cons, List.nodup_cons]
    refine ⟨fun hm => ?_, nd⟩
    obtain ⟨e, he, hee⟩ := List.mem_map.1 hm
    have := le e he
    have hee' : e.lastAccess = v.lastAccess := hee
    omega
  · intro e he
    rcases List.mem_cons.1 (hp.mem_iff.1 he) with rfl | h
    · omega
    · have := le e h; omega

/-- `Store` of an absent key never panics; the new element gets the newest timestamp -/
theorem store_spec {cfg : Cfg} (ok : CfgOK cfg) {s : Lru} (inv : LruInv s) {k : Nat} (v : Nat)
    (hk : k ∉ s.h.data.map (·.key)) :
    ∃ s', s.store cfg k v = .ok s' ∧ LruInv s' ∧
      s'.h.data.Perm ({ lastAccess := s.clock + 1, key := k, value := v } :: s.h.data) ∧
      s'.clock = s.clock + 1 := by
  let ne : Entry := { lastAccess := s.clock + 1, key := k, value := v }
  let s0 : Lru := { s with clock := s.clock + 1 }
  have t0 : Tr s0.present ne.key s0.h := inv.tr k
  obtain ⟨fwd, bwd, perm, hpos⟩ := addSync_spec ok (s := s0) t0 hk
  have ts := ts_fresh perm inv.ts_nodup inv.ts_le rfl
  let s1 := ({ s0 with h := (add cfg ltEntry s0.h ne).1 } : Lru).sync
  refine ⟨{ s1 with present := s1.present.set k (add cfg ltEntry s0.h ne).2 }, ?_,
    ⟨rfl, ?_, ?_, ts.1, ts.2⟩, perm, rfl⟩
  · simp only [Lru.store_def, inv.bwd k hk]
    rfl
  · intro p e hp
    show (Index.set _ k _).get e.key = some p
    rw [get_set]
    split
    · rename_i hek
      have := @Tr.inj _ e.key _ ⟨fwd, fun k hk _ => bwd k hk⟩ _ _ _ _ hp hpos hek
      rw [this]
    · exact fwd p e hp
  · intro k' hk'
    show (Index.set _ k _).get k' = none
    rw [get_set]
    have : k' ≠ k := fun h => hk' (by rw [h]; exact mem_keys_of_getElem? hpos)
    rw [if_neg this]
    exact bwd k' hk'

/-- `Access` of a present key: the element is re-added with the newest timestamp, value returned -/
theorem access_spec {cfg : Cfg} (ok : CfgOK cfg) {s : Lru} (inv : LruInv s) {e : Entry} (he : e ∈ s.h.data) :
    ∃ rest, (e :: rest).Perm s.h.data ∧
      (s.access cfg e.key).1.h.data.Perm ({ e with lastAccess := s.clock + 1 } :: rest) ∧
      (s.access cfg e.key).2 = some e.value ∧ LruInv (s.access cfg e.key).1 ∧
      (s.access cfg e.key).1.clock = s.clock + 1 := by
  obtain ⟨p, hg, hp, hlt⟩ := inv.get_of_mem he
  obtain ⟨hout, t, perm⟩ := popSync_spec ok inv hp (s.clock + 1)
  let s1 := ({ s with h := (pop cfg ltEntry s.h p).1, clock := s.clock + 1 } : Lru).sync
  let ne : Entry := { e with lastAccess := s.clock + 1 }
  have nk := perm_cons_nodup_keys perm inv.nodup
  have t1 : Tr s1.present ne.key s1.h := t
  obtain ⟨fwd, bwd, perm2, _⟩ := addSync_spec ok (s := s1) t1 nk.1
  have ha : s.access cfg e.key =
      (({ s1 with h := (add cfg ltEntry s1.h ne).1 } : Lru).sync, some e.value) := by
    have : ¬ p ≥ s.h.len := by simp [H.len]; exact hlt
    simp only [Lru.access_def, hg, heapRemove, this, if_false]
    rw [hout]
  rw [ha]
  have le1 : ∀ e' ∈ s1.h.data, e'.lastAccess ≤ s.clock := fun e' he' =>
    inv.ts_le e' (perm.mem_iff.1 (List.mem_cons_of_mem _ he'))
  have ts := ts_fresh perm2 (perm_cons_ts perm inv.ts_nodup) le1 rfl
  exact ⟨s1.h.data, perm, perm2, rfl, ⟨rfl, fwd, bwd, ts.1, ts.2⟩, rfl⟩

theorem access_absent {cfg : Cfg} {s : Lru} (inv : LruInv s) {k : Nat} (hk : k ∉ s.h.data.map (·.key)) :
    s.access cfg k = (s, none) := by
  simp [Lru.access_def, inv.bwd k hk]

/-! ## 4. the cache -/

/-- `(key, value)` of a heap entry -/
def kv (e : Entry) : Nat × Nat := (e.key, e.value)

/-- the entries held by the cache, as `(key, value)` pairs in heap-array order -/
def ents (c : Cache) : List (Nat × Nat) := c.store.h.data.map kv

/-- `Σ sizeOf value` over a list of entries -/
def sizeSum (sizeOf : Nat → Int) : List Entry → Int
  | [] => 0
  | e :: l => sizeOf e.value + sizeSum sizeOf l

theorem sizeSum_perm (sizeOf : Nat → Int) {l l' : List Entry} (hp : l.Perm l') :
    sizeSum sizeOf l = sizeSum sizeOf l' := by
  induction hp with
  | nil => rfl
  | cons x _ ih => simp only [sizeSum, ih]
  | swap x y l => simp only [sizeSum]; omega
  | trans _ _ ih1 ih2 => exact ih1.trans ih2

theorem sizeSum_nonneg {sizeOf : Nat → Int} (hs : ∀ v, 0 ≤ sizeOf v) (l : List Entry) :
    0 ≤ sizeSum sizeOf l := by
  induction l with
  | nil => exact Int.le_refl 0
  | cons e l ih => have := hs e.value; simp only [sizeSum]; omega

/-- the part of the invariant that also holds inside `Put`'s eviction loop -/
structure Inv0 (c : Cache) : Prop where
  lru : LruInv c.store
  count : c.count = c.store.h.data.length
  limit_pos : 0 < c.limit

/-- **the accounting invariant** -/
structure Inv (sizeOf : Nat → Int) (c : Cache) : Prop extends Inv0 c where
  size : c.size = sizeSum sizeOf c.store.h.data
  le : c.size ≤ c.limit

theorem inv_empty (sizeOf : Nat → Int) (limit : Int) (h : 0 < limit) : Inv sizeOf { limit := limit } :=
  { lru := ⟨rfl, fun p e hp => by simp at hp, fun _ _ => rfl, List.nodup_nil, fun e he => by cases he⟩
    count := rfl, limit_pos := h, size := rfl, le := Int.le_of_lt h }

/-- callbacks of one step: the log grows by `gone` (most recent first), and entries are conserved:
what was there plus what was `added` is what is there now plus what was reported gone. -/
def Conserved (c c' : Cache) (added : List (Nat × Nat)) : Prop :=
  ∃ gone, c'.evicted = gone ++ c.evicted ∧ (gone ++ ents c').Perm (added ++ ents c)

theorem Conserved.refl (c : Cache) : Conserved c c [] := ⟨[], rfl, .refl _⟩

/-- one entry leaves the store and is reported -/
theorem inv_drop {sizeOf : Nat → Int} (hs : ∀ v, 0 ≤ sizeOf v) {c : Cache} (inv : Inv sizeOf c) {st : Lru}
    {e : Entry} (hst : LruInv st) (perm : (e :: st.h.data).Perm c.store.h.data) :
    let c' : Cache := { c with store := st, evicted := (e.key, e.value) :: c.evicted,
                               size := c.size - sizeOf e.value, count := c.count - 1 }
    Inv sizeOf c' ∧ Conserved c c' [] := by
  have hsz := sizeSum_perm sizeOf perm
  have hlen := perm.length_eq
  simp only [sizeSum, List.length_cons] at hsz hlen
  refine ⟨⟨⟨hst, ?_, inv.limit_pos⟩, ?_, ?_⟩, [(e.key, e.value)], rfl, ?_⟩
  · show c.count - 1 = (st.h.data.length : Int)
    rw [inv.count, ← hlen]; omega
  · show c.size - sizeOf e.value = sizeSum sizeOf st.h.data
    rw [inv.size, ← hsz]; omega
  · show c.size - sizeOf e.value ≤ c.limit
    have := hs e.value; have := inv.le; omega
  · exact perm.map kv

theorem remove_spec_present {cfg : Cfg} (ok : CfgOK cfg) {sizeOf : Nat → Int} (hs : ∀ v, 0 ≤ sizeOf v)
    {c : Cache} (inv : Inv sizeOf c) {e : Entry} (he : e ∈ c.store.h.data) :
    (remove cfg sizeOf c e.key).2 = true ∧ Inv sizeOf (remove cfg sizeOf c e.key).1 ∧
    Conserved c (remove cfg sizeOf c e.key).1 [] ∧
    (e :: (remove cfg sizeOf c e.key).1.store.h.data).Perm c.store.h.data ∧
    (remove cfg sizeOf c e.key).1.limit = c.limit := by
  have hc := check_of_mem inv.lru he
  obtain ⟨hst, perm, _⟩ := remove_spec ok inv.lru he
  have := inv_drop hs inv hst perm
  have hr : remove cfg sizeOf c e.key =
      ({ c with store := c.store.remove cfg e.key, evicted := (e.key, e.value) :: c.evicted,
                size := c.size - sizeOf e.value, count := c.count - 1 }, true) := by
    simp only [remove_def, hc]
  rw [hr]
  exact ⟨rfl, this.1, this.2, perm, rfl⟩

theorem remove_spec_absent {cfg : Cfg} {sizeOf : Nat → Int} {c : Cache} (inv : Inv sizeOf c) {k : Nat}
    (hk : k ∉ c.store.h.data.map (·.key)) : remove cfg sizeOf c k = (c, false) := by
  simp only [remove_def, check_of_not_mem inv.lru hk]

theorem get_spec_present {cfg : Cfg} (ok : CfgOK cfg) {sizeOf : Nat → Int} {c : Cache} (inv : Inv sizeOf c)
    {e : Entry} (he : e ∈ c.store.h.data) :
    (get cfg c e.key).2 = some e.value ∧ Inv sizeOf (get cfg c e.key).1 ∧
    (get cfg c e.key).1.evicted = c.evicted ∧ (ents (get cfg c e.key).1).Perm (ents c) := by
  obtain ⟨rest, p1, p2, hv, hst, _⟩ := access_spec ok inv.lru he
  have e1 := sizeSum_perm sizeOf p1
  have e2 := sizeSum_perm sizeOf p2
  have l1 := p1.length_eq
  have l2 := p2.length_eq
  simp only [sizeSum, List.length_cons] at e1 e2 l1 l2
  refine ⟨hv, ⟨⟨hst, ?_, inv.limit_pos⟩, ?_, inv.le⟩, rfl, ?_⟩
  · show c.count = _
    rw [inv.count]; show _ = ((c.store.access cfg e.key).1.h.data.length : Int); omega
  · show c.size = sizeSum sizeOf (c.store.access cfg e.key).1.h.data
    rw [inv.size]; omega
  · exact (p2.map kv).trans (p1.map kv)

theorem get_spec_absent {cfg : Cfg} {sizeOf : Nat → Int} {c : Cache} (inv : Inv sizeOf c) {k : Nat}
    (hk : k ∉ c.store.h.data.map (·.key)) : get cfg c k = (c, none) := by
  simp only [MdsVerif.Model.Cache.get, access_absent inv.lru hk]

theorem Conserved.trans {a b c : Cache} {x y : List (Nat × Nat)} (hab : Conserved a b x)
    (hbc : Conserved b c y) : Conserved a c (y ++ x) := by
  obtain ⟨g1, e1, p1⟩ := hab
  obtain ⟨g2, e2, p2⟩ := hbc
  refine ⟨g2 ++ g1, by rw [e2, e1, List.append_assoc], ?_⟩
  rw [List.perm_iff_count] at *
  intro q
  have := p1 q; have := p2 q
  simp only [List.count_append] at *
  omega

theorem evictLoop_spec {cfg : Cfg} (ok : CfgOK cfg) {sizeOf : Nat → Int} (valSize : Int) :
    ∀ (fuel : Nat) (c : Cache) (newSize : Int), Inv0 c → c.store.h.data.length < fuel →
      newSize = sizeSum sizeOf c.store.h.data + valSize → valSize ≤ c.limit →
      ∃ c' n', evictLoop cfg sizeOf fuel c newSize = .ok (c', n') ∧ Inv0 c' ∧
        n' = sizeSum sizeOf c'.store.h.data + valSize ∧ n' ≤ c'.limit ∧ c'.limit = c.limit ∧
        Conserved c c' [] ∧
        (∀ k, k ∉ c.store.h.data.map (·.key) → k ∉ c'.store.h.data.map (·.key)) := by
  intro fuel
  induction fuel with
  | zero => intro c n _ hlt; omega
  | succ fuel ih =>
    intro c n inv hlt hn hle
    by_cases hgt : n > c.limit
    · have hne : c.store.h.data ≠ [] := by
        intro h; rw [h] at hn; simp only [sizeSum] at hn; omega
      obtain ⟨s', e, hev, _, hst, perm, _⟩ := evict_spec ok inv.lru hne
      have hsz := sizeSum_perm sizeOf perm
      have hlen := perm.length_eq
      simp only [sizeSum, List.length_cons] at hsz hlen
      let c1 : Cache := { c with store := s', evicted := (e.key, e.value) :: c.evicted, count := c.count - 1 }
      have inv1 : Inv0 c1 :=
        ⟨hst, by show c.count - 1 = (s'.h.data.length : Int); rw [inv.count, ← hlen]; omega, inv.limit_pos⟩
      have hc1 : Conserved c c1 [] := ⟨[(e.key, e.value)], rfl, perm.map kv⟩
      obtain ⟨c', n', hl, inv', hn', hle', hlim, hcons, hkeys⟩ :=
        ih c1 (n - sizeOf e.value) inv1 (by show s'.h.data.length < fuel; omega)
          (by show _ = sizeSum sizeOf s'.h.data + valSize; omega) hle
      refine ⟨c', n', ?_, inv', hn', hle', hlim, hc1.trans hcons, ?_⟩
      · simp only [evictLoop_succ, hgt, if_true, hev]; exact hl
      · intro k hk
        apply hkeys
        intro hm
        exact hk (((perm.map (·.key)).mem_iff).1 (List.mem_cons_of_mem _ hm))
    · refine ⟨c, n, by simp only [evictLoop_succ, hgt, if_false], inv, hn, by omega, rfl, .refl c, fun _ h => h⟩

theorem putReplace_spec {cfg : Cfg} (ok : CfgOK cfg) {sizeOf : Nat → Int} (hs : ∀ v, 0 ≤ sizeOf v)
    {c : Cache} (inv : Inv sizeOf c) (k : Nat) :
    Inv sizeOf (putReplace cfg sizeOf c k) ∧ Conserved c (putReplace cfg sizeOf c k) [] ∧
    k ∉ (putReplace cfg sizeOf c k).store.h.data.map (·.key) ∧
    (putReplace cfg sizeOf c k).limit = c.limit := by
  by_cases hk : k ∈ c.store.h.data.map (·.key)
  · obtain ⟨e, he, rfl⟩ := List.mem_map.1 hk
    have hc := check_of_mem inv.lru he
    obtain ⟨hst, perm, _⟩ := remove_spec ok inv.lru he
    have := inv_drop hs inv hst perm
    have hr : putReplace cfg sizeOf c e.key =
        { c with store := c.store.remove cfg e.key, evicted := (e.key, e.value) :: c.evicted,
                 size := c.size - sizeOf e.value, count := c.count - 1 } := by
      simp only [putReplace, hc]
    rw [hr]
    exact ⟨this.1, this.2, (perm_cons_nodup_keys perm inv.lru.nodup).1, rfl⟩
  · have hr : putReplace cfg sizeOf c k = c := by
      simp only [putReplace, check_of_not_mem inv.lru hk]
    rw [hr]
    exact ⟨inv, .refl c, hk, rfl⟩

theorem put_eq (cfg : Cfg) (sizeOf : Nat → Int) (c : Cache) (key val : Nat) (h : ¬ sizeOf val > c.limit) :
    put cfg sizeOf c key val =
      (match evictLoop cfg sizeOf ((putReplace cfg sizeOf c key).store.h.len + 1) (putReplace cfg sizeOf c key)
          ((putReplace cfg sizeOf c key).size + sizeOf val) with
      | .panic m => .panic m
      | .ok (c2, newSize) =>
        match c2.store.store cfg key val with
        | .panic m => .panic m
        | .ok st => .ok ({ c2 with store := st, size := newSize, count := c2.count + 1 }, true)) := by
  simp only [put_def, h, if_false, putReplace]
  rfl

theorem put_refused (cfg : Cfg) (sizeOf : Nat → Int) (c : Cache) (key val : Nat) (h : sizeOf val > c.limit) :
    put cfg sizeOf c key val = .ok (c, false) := by
  simp only [put_def, h, if_true]

theorem put_spec {cfg : Cfg} (ok : CfgOK cfg) {sizeOf : Nat → Int} (hs : ∀ v, 0 ≤ sizeOf v)
    {c : Cache} (inv : Inv sizeOf c) (k v : Nat) (h : ¬ sizeOf v > c.limit) :
    ∃ c', put cfg sizeOf c k v = .ok (c', true) ∧ Inv sizeOf c' ∧ Conserved c c' [(k, v)] ∧
      (k, v) ∈ ents c' ∧ c'.limit = c.limit := by
  obtain ⟨inv1, cons1, hk1, hlim1⟩ := putReplace_spec (cfg := cfg) ok hs inv k
  obtain ⟨c2, n2, hl, inv2, hn2, hle2, hlim2, cons2, hkeys⟩ :=
    evictLoop_spec ok (sizeOf := sizeOf) (sizeOf v) ((putReplace cfg sizeOf c k).store.h.len + 1)
      (putReplace cfg sizeOf c k) ((putReplace cfg sizeOf c k).size + sizeOf v) inv1.toInv0
      (by simp [H.len]) (by rw [inv1.size]) (by rw [hlim1]; omega)
  obtain ⟨st, hst, invst, perm, _⟩ := store_spec ok inv2.lru v (hkeys k hk1)
  have hsz := sizeSum_perm sizeOf perm
  have hlen := perm.length_eq
  simp only [sizeSum, List.length_cons] at hsz hlen
  let c' : Cache := { c2 with store := st, size := n2, count := c2.count + 1 }
  have hc' : Conserved c2 c' [(k, v)] := ⟨[], rfl, perm.map kv⟩
  refine ⟨c', ?_, ⟨⟨invst, ?_, inv2.limit_pos⟩, ?_, hle2⟩, (cons1.trans cons2).trans hc', ?_, ?_⟩
  · rw [put_eq cfg sizeOf c k v h, hl]
    simp only [hst]
    rfl
  · show c2.count + 1 = (st.h.data.length : Int)
    rw [inv2.count, hlen]; omega
  · show n2 = sizeSum sizeOf st.h.data
    rw [hn2, hsz]; omega
  · exact ((perm.map kv).mem_iff).2 (List.mem_cons_self)
  · show c2.limit = c.limit
    rw [hlim2, hlim1]

/-! ### `Put` evicts only while the new entry does not fit -/

/-- `Σ sizeOf value` over a list of `(key, value)` pairs -/
def sizeKV (sizeOf : Nat → Int) : List (Nat × Nat) → Int
  | [] => 0
  | e :: l => sizeOf e.2 + sizeKV sizeOf l

/-- the `(key, value)` pairs the store hands out under `m` successive `Evict`s (fewer if it runs empty):
the order in which the heap yields its entries -/
def evictSeq (cfg : Cfg) : Nat → Lru → List (Nat × Nat)
  | 0, _ => []
  | m + 1, s =>
    match s.evict cfg with
    | .panic _ => []
    | .ok (s', k, v) => (k, v) :: evictSeq cfg m s'

/-- the eviction loop, structurally (every configuration, no invariant needed): what it reports is a prefix
`gone` of the store's yield order; the running size is reduced by exactly the sizes of `gone`; and an
`Evict` is executed only while the entry does not fit: before the `j`-th eviction (`j < gone.length`) the
size still exceeded the limit. -/
theorem evictLoop_needed (cfg : Cfg) (sizeOf : Nat → Int) :
    ∀ (fuel : Nat) (c : Cache) (n : Int) (c' : Cache) (n' : Int),
      evictLoop cfg sizeOf fuel c n = .ok (c', n') →
      ∃ gone : List (Nat × Nat), c'.evicted = gone.reverse ++ c.evicted ∧ n' = n - sizeKV sizeOf gone ∧
        gone = evictSeq cfg gone.length c.store ∧
        (∀ j, j < gone.length → n - sizeKV sizeOf (gone.take j) > c.limit) := by
  intro fuel
  induction fuel with
  | zero =>
    intro c n c' n' h
    simp only [evictLoop_zero] at h
    cases h
    exact ⟨[], rfl, by simp [sizeKV], rfl, fun j hj => by simp at hj⟩
  | succ fuel ih =>
    intro c n c' n' h
    by_cases hgt : n > c.limit
    · simp only [evictLoop_succ, hgt, if_true] at h
      cases hev : c.store.evict cfg with
      | panic m => rw [hev] at h; cases h
      | ok r =>
        obtain ⟨st, ek, ev⟩ := r
        rw [hev] at h
        obtain ⟨gone, h1, h2, h3, h4⟩ := ih _ _ _ _ h
        refine ⟨(ek, ev) :: gone, ?_, ?_, ?_, ?_⟩
        · rw [h1]; simp
        · rw [h2]; simp only [sizeKV]; omega
        · simp only [List.length_cons, evictSeq, hev]
          exact congrArg _ h3
        · intro j hj
          cases j with
          | zero => simpa [sizeKV] using hgt
          | succ j =>
            have := h4 j (by simpa using hj)
            simp only [List.take_succ_cons, sizeKV]
            have e : n - sizeOf ev - sizeKV sizeOf (gone.take j) = n - (sizeOf ev + sizeKV sizeOf (gone.take j)) := by
              omega
            rw [← e]; exact this
    · simp only [evictLoop_succ, hgt, if_false] at h
      cases h
      exact ⟨[], rfl, by simp [sizeKV], rfl, fun j hj => by simp at hj⟩

/-- the entry a `Put k` replaces (reported first), if the key is present -/
def replaced (c : Cache) (k : Nat) : List (Nat × Nat) :=
  match c.store.check k with
  | some old => [(k, old)]
  | none => []

theorem putReplace_acct (cfg : Cfg) (sizeOf : Nat → Int) (c : Cache) (k : Nat) :
    (putReplace cfg sizeOf c k).evicted = replaced c k ++ c.evicted ∧
    (putReplace cfg sizeOf c k).size = c.size - sizeKV sizeOf (replaced c k) ∧
    (putReplace cfg sizeOf c k).limit = c.limit := by
  unfold putReplace replaced
  cases c.store.check k with
  | some old =>
    refine ⟨rfl, ?_, rfl⟩
    simp only [sizeKV]; omega
  | none =>
    refine ⟨rfl, ?_, rfl⟩
    simp only [sizeKV]; omega

/-- **`Put` evicts exactly as long as needed.**  For a `Put k v` that is not refused, with `c1` the state
after the replace step: the new callbacks are `replaced` followed by `gone`, where `gone` is a prefix of the
order in which the store yields its entries (`evictSeq`), every eviction was executed while
`size + sizeOf v` still exceeded the limit, and after the last one it fits; the final size is exactly
`c1.size + sizeOf v - Σ gone`.  So `gone.length` is the *least* number of entries, in the store's yield
order, whose removal makes room; nothing is evicted when the new entry fits. -/
theorem put_needed {cfg : Cfg} (ok : CfgOK cfg) {sizeOf : Nat → Int} (hs : ∀ v, 0 ≤ sizeOf v)
    {c : Cache} (inv : Inv sizeOf c) (k v : Nat) (h : ¬ sizeOf v > c.limit) :
    ∃ c' gone, put cfg sizeOf c k v = .ok (c', true) ∧
      c'.evicted = gone.reverse ++ (putReplace cfg sizeOf c k).evicted ∧
      gone = evictSeq cfg gone.length (putReplace cfg sizeOf c k).store ∧
      (∀ j, j < gone.length →
        (putReplace cfg sizeOf c k).size + sizeOf v - sizeKV sizeOf (gone.take j) > c.limit) ∧
      (putReplace cfg sizeOf c k).size + sizeOf v - sizeKV sizeOf gone ≤ c.limit ∧
      c'.size = (putReplace cfg sizeOf c k).size + sizeOf v - sizeKV sizeOf gone := by
  obtain ⟨inv1, _, hk1, hlim1⟩ := putReplace_spec (cfg := cfg) ok hs inv k
  obtain ⟨c2, n2, hl, inv2, _, hle2, hlim2, _, hkeys⟩ :=
    evictLoop_spec ok (sizeOf := sizeOf) (sizeOf v) ((putReplace cfg sizeOf c k).store.h.len + 1)
      (putReplace cfg sizeOf c k) ((putReplace cfg sizeOf c k).size + sizeOf v) inv1.toInv0
      (by simp [H.len]) (by rw [inv1.size]) (by rw [hlim1]; omega)
  obtain ⟨st, hst, _, _, _⟩ := store_spec ok inv2.lru v (hkeys k hk1)
  obtain ⟨gone, g1, g2, g3, g4⟩ := evictLoop_needed cfg sizeOf _ _ _ _ _ hl
  refine ⟨{ c2 with store := st, size := n2, count := c2.count + 1 }, gone, ?_, g1, g3, ?_, ?_, g2⟩
  · rw [put_eq cfg sizeOf c k v h, hl]
    simp only [hst]
  · intro j hj; rw [← hlim1]; exact g4 j hj
  · rw [← g2, ← hlim1, ← hlim2]; exact hle2

theorem clearLoop_spec {cfg : Cfg} (ok : CfgOK cfg) {sizeOf : Nat → Int} (hs : ∀ v, 0 ≤ sizeOf v) :
    ∀ (fuel : Nat) (c : Cache), Inv sizeOf c → c.store.h.data.length < fuel →
      ∃ c', clearLoop cfg sizeOf fuel c = .ok c' ∧ Inv sizeOf c' ∧ c'.store.h.data = [] ∧
        Conserved c c' [] ∧ c'.limit = c.limit := by
  intro fuel
  induction fuel with
  | zero => intro c _ hlt; omega
  | succ fuel ih =>
    intro c inv hlt
    by_cases hgt : c.count > 0
    · have hne : c.store.h.data ≠ [] := by
        intro h; have := inv.count; rw [h] at this; simp at this; omega
      obtain ⟨s', e, hev, _, hst, perm, _⟩ := evict_spec ok inv.lru hne
      have hlen := perm.length_eq
      simp only [List.length_cons] at hlen
      obtain ⟨inv1, cons1⟩ := inv_drop hs inv hst perm
      obtain ⟨c', hl, inv', hd, cons', hlim⟩ := ih _ inv1 (by show s'.h.data.length < fuel; omega)
      refine ⟨c', ?_, inv', hd, cons1.trans cons', hlim⟩
      simp only [clearLoop_succ, hgt, if_true, hev]; exact hl
    · refine ⟨c, by simp only [clearLoop_succ, hgt, if_false], inv, ?_, .refl c, rfl⟩
      have := inv.count
      apply List.length_eq_zero_iff.1
      omega

/-- `Clear` never trips its consistency panic and empties the cache -/
theorem clear_spec {cfg : Cfg} (ok : CfgOK cfg) {sizeOf : Nat → Int} (hs : ∀ v, 0 ≤ sizeOf v)
    {c : Cache} (inv : Inv sizeOf c) :
    ∃ c', clear cfg sizeOf c = .ok c' ∧ Inv sizeOf c' ∧ c'.store.h.data = [] ∧ Conserved c c' [] ∧
      c'.limit = c.limit := by
  obtain ⟨c', hl, inv', hd, cons, hlim⟩ :=
    clearLoop_spec ok hs (c.count.toNat + 1) c inv (by have := inv.count; omega)
  refine ⟨c', ?_, inv', hd, cons, hlim⟩
  have h1 : c'.size = 0 := by rw [inv'.size, hd]; rfl
  have h2 : c'.count = 0 := by rw [inv'.count, hd]; rfl
  simp [clear_def, hl, h1, h2]

/-! ### steps and histories -/

/-- what a step puts into the store: `(k, v)` for a `Put k v` that reports `true` -/
def addedBy (op : Op) (o : Out) : List (Nat × Nat) :=
  match op, o with
  | .put k v, .bool true => [(k, v)]
  | _, _ => []

/-- the state after a history -/
def exec (cfg : Cfg) (sizeOf : Nat → Int) (c : Cache) : List Op → Cache
  | [] => c
  | op :: ops => exec cfg sizeOf (step cfg sizeOf c op).1 ops

/-- the outputs of a history -/
def outs (cfg : Cfg) (sizeOf : Nat → Int) (c : Cache) : List Op → List Out
  | [] => []
  | op :: ops => (step cfg sizeOf c op).2 :: outs cfg sizeOf (step cfg sizeOf c op).1 ops

/-- every `(k, v)` that entered the store during a history (successful `Put`s), most recent first -/
def entered (cfg : Cfg) (sizeOf : Nat → Int) (c : Cache) : List Op → List (Nat × Nat)
  | [] => []
  | op :: ops =>
    entered cfg sizeOf (step cfg sizeOf c op).1 ops ++ addedBy op (step cfg sizeOf c op).2

theorem step_inv {cfg : Cfg} (ok : CfgOK cfg) {sizeOf : Nat → Int} (hs : ∀ v, 0 ≤ sizeOf v)
    {c : Cache} (inv : Inv sizeOf c) (op : Op) :
    Inv sizeOf (step cfg sizeOf c op).1 ∧ (step cfg sizeOf c op).1.limit = c.limit ∧
    Conserved c (step cfg sizeOf c op).1 (addedBy op (step cfg sizeOf c op).2) ∧
    ∀ m, (step cfg sizeOf c op).2 ≠ .panic m := by
  cases op with
  | put k v =>
    by_cases h : sizeOf v > c.limit
    · simp only [step, put_refused cfg sizeOf c k v h]
      exact ⟨inv, trivial, .refl c, fun m hm => by cases hm⟩
    · obtain ⟨c', hp, inv', cons, _, hlim⟩ := put_spec ok hs inv k v h
      simp only [step, hp]
      exact ⟨inv', hlim, cons, fun m hm => by cases hm⟩
  | get k =>
    by_cases hk : k ∈ c.store.h.data.map (·.key)
    · obtain ⟨e, he, rfl⟩ := List.mem_map.1 hk
      obtain ⟨_, inv', hev, perm⟩ := get_spec_present ok inv he
      exact ⟨inv', rfl, ⟨[], hev, perm⟩, fun m hm => by cases hm⟩
    · simp only [step, get_spec_absent inv hk]
      exact ⟨inv, trivial, .refl c, fun m hm => by cases hm⟩
  | has k => exact ⟨inv, rfl, .refl c, fun m hm => by cases hm⟩
  | remove k =>
    by_cases hk : k ∈ c.store.h.data.map (·.key)
    · obtain ⟨e, he, rfl⟩ := List.mem_map.1 hk
      obtain ⟨_, inv', cons, _, hlim⟩ := remove_spec_present ok hs inv he
      exact ⟨inv', hlim, cons, fun m hm => by cases hm⟩
    · simp only [step, remove_spec_absent inv hk]
      exact ⟨inv, trivial, .refl c, fun m hm => by cases hm⟩
  | clear =>
    obtain ⟨c', hc, inv', _, cons, hlim⟩ := clear_spec ok hs inv
    simp only [step, hc]
    exact ⟨inv', hlim, cons, fun m hm => by cases hm⟩
  | len => exact ⟨inv, rfl, .refl c, fun m hm => by cases hm⟩
  | size => exact ⟨inv, rfl, .refl c, fun m hm => by cases hm⟩

theorem exec_inv {cfg : Cfg} (ok : CfgOK cfg) {sizeOf : Nat → Int} (hs : ∀ v, 0 ≤ sizeOf v)
    (ops : List Op) : ∀ {c : Cache}, Inv sizeOf c →
      Inv sizeOf (exec cfg sizeOf c ops) ∧ (exec cfg sizeOf c ops).limit = c.limit ∧
      Conserved c (exec cfg sizeOf c ops) (entered cfg sizeOf c ops) ∧
      ∀ o ∈ outs cfg sizeOf c ops, ∀ m, o ≠ .panic m := by
  induction ops with
  | nil => intro c inv; exact ⟨inv, rfl, .refl c, fun o ho => by cases ho⟩
  | cons op ops ih =>
    intro c inv
    obtain ⟨inv1, hlim1, cons1, np1⟩ := step_inv ok hs inv op
    obtain ⟨inv2, hlim2, cons2, np2⟩ := ih inv1
    refine ⟨inv2, hlim2.trans hlim1, cons1.trans cons2, ?_⟩
    intro o ho
    rcases List.mem_cons.1 ho with rfl | ho
    · exact np1
    · exact np2 o ho

/-! ## 5. conditional refinement of the reference recency list

`Abs c r`: the reference's recency list is the heap's entries sorted by `lastAccess` (timestamps are
pairwise distinct, so this is a function of the heap contents).  The model's `Evict` returns the root of
the heap; it is the reference's victim exactly when the root carries the minimal timestamp (`minOK`),
which is what a correct heap guarantees and what F2 breaks. -/

open MdsVerif.Spec

def Sorted (l : List Entry) : Prop := l.Pairwise (fun a b => a.lastAccess < b.lastAccess)

theorem find_kv_of_mem {l : List Entry} (nd : (l.map (·.key)).Nodup) {e : Entry} (he : e ∈ l) :
    (l.map kv).find? (·.1 == e.key) = some (kv e) := by
  induction l with
  | nil => cases he
  | cons a l ih =>
    by_cases hk : a.key = e.key
    · have : a = e := key_unique nd (List.mem_cons_self) he hk
      subst this
      simp [kv]
    · have hk' : (a.key == e.key) = false := by simpa using hk
      rcases List.mem_cons.1 he with h | h
      · exact absurd (h ▸ rfl) hk
      · rw [List.map_cons, List.nodup_cons] at nd
        simp only [List.map_cons, List.find?_cons, kv, hk']
        exact ih nd.2 h

theorem find_kv_none {l : List Entry} {k : Nat} (hk : k ∉ l.map (·.key)) :
    (l.map kv).find? (·.1 == k) = none := by
  induction l with
  | nil => rfl
  | cons a l ih =>
    simp only [List.map_cons, List.mem_cons, not_or] at hk
    have hk' : (a.key == k) = false := by simpa using fun h => hk.1 h.symm
    simp only [List.map_cons, List.find?_cons, kv, hk']
    exact ih hk.2

theorem filter_kv (l : List Entry) (k : Nat) :
    (l.map kv).filter (·.1 != k) = (l.filter (·.key != k)).map kv := by
  induction l with
  | nil => rfl
  | cons a l ih =>
    simp only [List.map_cons, List.filter_cons, kv]
    split <;> simp [ih, kv]

theorem any_kv (l : List Entry) (k : Nat) : (l.map kv).any (·.1 == k) = true ↔ k ∈ l.map (·.key) := by
  induction l with
  | nil => simp
  | cons a l ih =>
    simp only [List.map_cons, List.any_cons, Bool.or_eq_true, ih, List.mem_cons, kv, beq_iff_eq]
    constructor <;> rintro (h | h) <;> first | exact .inl h.symm | exact .inr h

theorem foldl_total (sizeOf : Nat → Int) (l : List Entry) (a : Int) :
    ((l.map kv).map (fun e => sizeOf e.2)).foldl (· + ·) a = a + sizeSum sizeOf l := by
  induction l generalizing a with
  | nil => simp [sizeSum]
  | cons e l ih => simp only [List.map_cons, List.foldl_cons, ih, sizeSum, kv]; omega

theorem total_kv (sizeOf : Nat → Int) (l : List Entry) : LruRef.total sizeOf (l.map kv) = sizeSum sizeOf l := by
  simp only [LruRef.total, foldl_total]; omega

theorem filter_perm {l d : List Entry} {e : Entry} (hp : l.Perm (e :: d))
    (nd : e.key ∉ d.map (·.key)) : (l.filter (·.key != e.key)).Perm d := by
  have h1 := hp.filter (·.key != e.key)
  have h2 : (e :: d).filter (·.key != e.key) = d := by
    rw [List.filter_cons]
    simp only [bne_self_eq_false, Bool.false_eq_true, if_false]
    apply List.filter_eq_self.2
    intro a ha
    have : a.key ≠ e.key := fun h => nd (h ▸ List.mem_map.2 ⟨a, ha, rfl⟩)
    simpa using this
  rw [h2] at h1; exact h1

theorem sorted_snoc {l : List Entry} (hs : Sorted l) {v : Entry} (hv : ∀ e ∈ l, e.lastAccess < v.lastAccess) :
    Sorted (l ++ [v]) := by
  unfold Sorted
  rw [List.pairwise_append]
  refine ⟨hs, List.pairwise_singleton _ _, ?_⟩
  intro a ha b hb
  rw [List.mem_singleton] at hb
  subst hb; exact hv a ha

theorem sorted_filter {l : List Entry} (hs : Sorted l) (p : Entry → Bool) : Sorted (l.filter p) :=
  List.Pairwise.filter p hs

/-- the abstraction relation (the callback logs are related per step, not here) -/
def Abs (c : Cache) (r : LruRef.R) : Prop :=
  ∃ l : List Entry, l.Perm c.store.h.data ∧ Sorted l ∧ r.items = l.map kv ∧ r.limit = c.limit

theorem makeRoom_stop (sizeOf : Nat → Int) (limit need : Int) (l : List Entry)
    (h : ¬ sizeSum sizeOf l + need > limit) :
    LruRef.makeRoom sizeOf limit need (l.map kv) = (l.map kv, []) := by
  cases l with
  | nil => rfl
  | cons x rest =>
    have := total_kv sizeOf (x :: rest)
    simp only [List.map_cons] at this
    simp only [List.map_cons, LruRef.makeRoom, this, h, if_false]

theorem makeRoom_go (sizeOf : Nat → Int) (limit need : Int) (x : Entry) (rest : List Entry)
    (h : sizeSum sizeOf (x :: rest) + need > limit) :
    LruRef.makeRoom sizeOf limit need ((x :: rest).map kv) =
      ((LruRef.makeRoom sizeOf limit need (rest.map kv)).1,
        kv x :: (LruRef.makeRoom sizeOf limit need (rest.map kv)).2) := by
  have := total_kv sizeOf (x :: rest)
  simp only [List.map_cons] at this
  simp only [List.map_cons, LruRef.makeRoom, this, h, if_true]

theorem evictLoop_refines {cfg : Cfg} (ok : CfgOK cfg) {sizeOf : Nat → Int} (valSize : Int) :
    ∀ (fuel : Nat) (c : Cache) (n : Int) (l : List Entry), Inv0 c → c.store.h.data.length < fuel →
      n = sizeSum sizeOf c.store.h.data + valSize → valSize ≤ c.limit → l.Perm c.store.h.data → Sorted l →
      evictLoopMin cfg sizeOf fuel c n = true →
      ∀ c' n', evictLoop cfg sizeOf fuel c n = .ok (c', n') →
        ∃ l' gone, l'.Perm c'.store.h.data ∧ Sorted l' ∧
          LruRef.makeRoom sizeOf c.limit valSize (l.map kv) = (l'.map kv, gone) ∧
          c'.evicted = gone.reverse ++ c.evicted := by
  intro fuel
  induction fuel with
  | zero => intro c n l _ hlt; omega
  | succ fuel ih =>
    intro c n l inv hlt hn hle hl hsorted hmin c' n' hloop
    have hszl := sizeSum_perm sizeOf hl
    by_cases hgt : n > c.limit
    · have hne : c.store.h.data ≠ [] := by
        intro h; rw [h] at hn; simp only [sizeSum] at hn; omega
      obtain ⟨s', e, hev, hp0, hst, perm, _⟩ := evict_spec ok inv.lru hne
      simp only [evictLoopMin, hgt, if_true, hev, Bool.and_eq_true] at hmin
      simp only [evictLoop_succ, hgt, if_true, hev] at hloop
      have hsz := sizeSum_perm sizeOf perm
      have hlen := perm.length_eq
      simp only [sizeSum, List.length_cons] at hsz hlen
      have hget : c.store.h.get 0 = e := by
        simp [H.get, List.getD_eq_getElem?_getD, hp0]
      have hmin1 : ∀ e' ∈ c.store.h.data, e.lastAccess ≤ e'.lastAccess := by
        have := hmin.1
        simp only [minOK, List.all_eq_true, decide_eq_true_eq, hget] at this
        exact this
      cases l with
      | nil => exact absurd hl.symm.eq_nil hne
      | cons x rest =>
        have hel : e ∈ x :: rest := hl.mem_iff.2 (List.mem_of_getElem? hp0)
        have hx : e = x := by
          rcases List.mem_cons.1 hel with h | h
          · exact h
          · have h1 := hmin1 x (hl.mem_iff.1 List.mem_cons_self)
            have h2 := (List.pairwise_cons.1 hsorted).1 e h
            omega
        subst hx
        have hrest : rest.Perm s'.h.data := (hl.trans perm.symm).cons_inv
        let c1 : Cache := { c with store := s', evicted := (e.key, e.value) :: c.evicted, count := c.count - 1 }
        have inv1 : Inv0 c1 :=
          ⟨hst, by show c.count - 1 = (s'.h.data.length : Int); rw [inv.count, ← hlen]; omega, inv.limit_pos⟩
        obtain ⟨l', gone, hl', hs', hmr, hev'⟩ :=
          ih c1 (n - sizeOf e.value) rest inv1 (by show s'.h.data.length < fuel; omega)
            (by show _ = sizeSum sizeOf s'.h.data + valSize; omega) hle hrest
            (List.pairwise_cons.1 hsorted).2 hmin.2 c' n' hloop
        refine ⟨l', kv e :: gone, hl', hs', ?_, ?_⟩
        · rw [makeRoom_go sizeOf c.limit valSize e rest (by rw [hszl]; omega)]
          have : LruRef.makeRoom sizeOf c.limit valSize (rest.map kv) = (l'.map kv, gone) := hmr
          rw [this]
        · rw [hev']; simp [c1, kv]
    · simp only [evictLoop_succ, hgt, if_false] at hloop
      have h1 : c' = c := by cases hloop; rfl
      subst h1
      exact ⟨l, [], hl, hsorted, makeRoom_stop sizeOf _ valSize l (by rw [hszl]; omega), rfl⟩

/-- relation between a model step and a reference step: same output, abstraction kept, same new callbacks
(for `Clear`: the same callbacks up to order) -/
def StepRel (c : Cache) (r : LruRef.R) (c' : Cache) (r' : LruRef.R) (o o' : Out) (isClear : Bool) : Prop :=
  o = o' ∧ Abs c' r' ∧ ∃ g g', c'.evicted = g ++ c.evicted ∧ r'.evicted = g' ++ r.evicted ∧
    (if isClear then g.Perm g' else g = g')

theorem ref_put_eq (sizeOf : Nat → Int) (r : LruRef.R) (k v : Nat) (h : ¬ sizeOf v > r.limit) :
    LruRef.step sizeOf r (.put k v) =
      (let p : List (Nat × Nat) × List (Nat × Nat) := match r.items.find? (·.1 == k) with
        | some e => (r.items.filter (·.1 != k), [e])
        | none => (r.items, [])
       let q := LruRef.makeRoom sizeOf r.limit (sizeOf v) p.1
       ({ r with items := q.1 ++ [(k, v)], evicted := (p.2 ++ q.2).reverse ++ r.evicted }, .bool true)) := by
  simp only [LruRef.step, h, if_false]
  rfl

theorem putReplace_refines {cfg : Cfg} (ok : CfgOK cfg) {sizeOf : Nat → Int} {c : Cache}
    (inv : Inv sizeOf c) {l : List Entry} (hl : l.Perm c.store.h.data) (hsorted : Sorted l) (k : Nat) :
    ∃ l1 ev1, l1.Perm (putReplace cfg sizeOf c k).store.h.data ∧ Sorted l1 ∧
      (match (l.map kv).find? (·.1 == k) with
        | some e => ((l.map kv).filter (·.1 != k), [e])
        | none => (l.map kv, [])) = (l1.map kv, ev1) ∧
      (putReplace cfg sizeOf c k).evicted = ev1.reverse ++ c.evicted := by
  have ndl : (l.map (·.key)).Nodup := ((hl.map (·.key)).nodup_iff).2 inv.lru.nodup
  by_cases hk : k ∈ c.store.h.data.map (·.key)
  · obtain ⟨e, he, rfl⟩ := List.mem_map.1 hk
    have hc := check_of_mem inv.lru he
    obtain ⟨_, perm, _⟩ := remove_spec ok inv.lru he
    have hr : putReplace cfg sizeOf c e.key =
        { c with store := c.store.remove cfg e.key, evicted := (e.key, e.value) :: c.evicted,
                 size := c.size - sizeOf e.value, count := c.count - 1 } := by
      simp only [putReplace, hc]
    rw [hr]
    refine ⟨l.filter (·.key != e.key), [kv e], ?_, sorted_filter hsorted _, ?_, rfl⟩
    · exact filter_perm (hl.trans perm.symm) (perm_cons_nodup_keys perm inv.lru.nodup).1
    · rw [find_kv_of_mem ndl (hl.mem_iff.2 he), filter_kv]
  · have hr : putReplace cfg sizeOf c k = c := by
      simp only [putReplace, check_of_not_mem inv.lru hk]
    rw [hr]
    refine ⟨l, [], hl, hsorted, ?_, rfl⟩
    rw [find_kv_none (fun hm => hk (((hl.map (·.key)).mem_iff).1 hm))]

theorem put_refines {cfg : Cfg} (ok : CfgOK cfg) {sizeOf : Nat → Int} (hs : ∀ v, 0 ≤ sizeOf v)
    {c : Cache} {r : LruRef.R} (inv : Inv sizeOf c) (abs : Abs c r) (k v : Nat)
    (hmin : stepMin cfg sizeOf c (.put k v) = true) :
    StepRel c r (step cfg sizeOf c (.put k v)).1 (LruRef.step sizeOf r (.put k v)).1
      (step cfg sizeOf c (.put k v)).2 (LruRef.step sizeOf r (.put k v)).2 false := by
  obtain ⟨l, hl, hsorted, hitems, hlim⟩ := abs
  by_cases h : sizeOf v > c.limit
  · have h' : sizeOf v > r.limit := by rw [hlim]; exact h
    simp only [step, put_refused cfg sizeOf c k v h, LruRef.step, h', if_true]
    exact ⟨rfl, ⟨l, hl, hsorted, hitems, hlim⟩, [], [], rfl, rfl, rfl⟩
  · have h' : ¬ sizeOf v > r.limit := by rw [hlim]; exact h
    simp only [stepMin, h, if_false] at hmin
    obtain ⟨inv1, _, hk1, hlim1⟩ := putReplace_spec (cfg := cfg) ok hs inv k
    obtain ⟨l1, ev1, hl1, hs1, hp, hev1⟩ := putReplace_refines (cfg := cfg) ok inv hl hsorted k
    obtain ⟨c2, n2, hloop, inv2, hn2, hle2, hlim2, _, hkeys⟩ :=
      evictLoop_spec ok (sizeOf := sizeOf) (sizeOf v) ((putReplace cfg sizeOf c k).store.h.len + 1)
        (putReplace cfg sizeOf c k) ((putReplace cfg sizeOf c k).size + sizeOf v) inv1.toInv0
        (by simp [H.len]) (by rw [inv1.size]) (by rw [hlim1]; omega)
    obtain ⟨l2, gone, hl2, hs2, hmr, hev2⟩ :=
      evictLoop_refines ok (sizeOf := sizeOf) (sizeOf v) _ _ _ l1 inv1.toInv0 (by simp [H.len])
        (by rw [inv1.size]) (by rw [hlim1]; omega) hl1 hs1 hmin c2 n2 hloop
    obtain ⟨st, hst, invst, perm, _⟩ := store_spec ok inv2.lru v (hkeys k hk1)
    let ne : Entry := { lastAccess := c2.store.clock + 1, key := k, value := v }
    have hput : put cfg sizeOf c k v =
        .ok ({ c2 with store := st, size := n2, count := c2.count + 1 }, true) := by
      rw [put_eq cfg sizeOf c k v h, hloop]
      simp only [hst]
    have hq : LruRef.makeRoom sizeOf r.limit (sizeOf v) (l1.map kv) = (l2.map kv, gone) := by
      rw [hlim, ← hlim1]; exact hmr
    rw [ref_put_eq sizeOf r k v h']
    simp only [step, hput, hitems, hp, hq]
    refine ⟨rfl, ⟨l2 ++ [ne], ?_, ?_, ?_, ?_⟩, gone.reverse ++ ev1.reverse, gone.reverse ++ ev1.reverse,
      ?_, ?_, rfl⟩
    · exact ((List.perm_append_singleton ne l2).trans (hl2.cons ne)).trans perm.symm
    · apply sorted_snoc hs2
      intro e he
      have := inv2.lru.ts_le e (hl2.mem_iff.1 he)
      show e.lastAccess < c2.store.clock + 1
      omega
    · simp [kv, ne]
    · show r.limit = c2.limit
      rw [hlim2, hlim1, hlim]
    · show c2.evicted = _
      rw [hev2, hev1, List.append_assoc]
    · simp

theorem get_refines {cfg : Cfg} (ok : CfgOK cfg) {sizeOf : Nat → Int}
    {c : Cache} {r : LruRef.R} (inv : Inv sizeOf c) (abs : Abs c r) (k : Nat) :
    StepRel c r (step cfg sizeOf c (.get k)).1 (LruRef.step sizeOf r (.get k)).1
      (step cfg sizeOf c (.get k)).2 (LruRef.step sizeOf r (.get k)).2 false := by
  obtain ⟨l, hl, hsorted, hitems, hlim⟩ := abs
  have ndl : (l.map (·.key)).Nodup := ((hl.map (·.key)).nodup_iff).2 inv.lru.nodup
  by_cases hk : k ∈ c.store.h.data.map (·.key)
  · obtain ⟨e, he, rfl⟩ := List.mem_map.1 hk
    obtain ⟨rest, p1, p2, hv, hst, hclk⟩ := access_spec (cfg := cfg) ok inv.lru he
    let ne : Entry := { e with lastAccess := c.store.clock + 1 }
    have hfind := find_kv_of_mem ndl (hl.mem_iff.2 he)
    have hm : (step cfg sizeOf c (.get e.key)) =
        ({ c with store := (c.store.access cfg e.key).1 }, .opt (c.store.access cfg e.key).2) := rfl
    rw [hm, hv]
    simp only [LruRef.step, hitems, hfind, filter_kv]
    refine ⟨rfl, ⟨l.filter (·.key != e.key) ++ [ne], ?_, ?_, ?_, hlim⟩, [], [], rfl, rfl, rfl⟩
    · have hf : (l.filter (·.key != e.key)).Perm rest :=
        filter_perm (hl.trans p1.symm) (perm_cons_nodup_keys p1 inv.lru.nodup).1
      exact ((List.perm_append_singleton ne _).trans (hf.cons ne)).trans p2.symm
    · apply sorted_snoc (sorted_filter hsorted _)
      intro a ha
      have := inv.lru.ts_le a (hl.mem_iff.1 (List.mem_filter.1 ha).1)
      show a.lastAccess < c.store.clock + 1
      omega
    · simp [kv, ne]
  · have hfind := find_kv_none (l := l) (fun hm => hk (((hl.map (·.key)).mem_iff).1 hm))
    simp only [step, get_spec_absent inv hk, LruRef.step, hitems, hfind]
    exact ⟨rfl, ⟨l, hl, hsorted, hitems, hlim⟩, [], [], rfl, rfl, rfl⟩

theorem remove_refines {cfg : Cfg} (ok : CfgOK cfg) {sizeOf : Nat → Int}
    {c : Cache} {r : LruRef.R} (inv : Inv sizeOf c) (abs : Abs c r) (k : Nat) :
    StepRel c r (step cfg sizeOf c (.remove k)).1 (LruRef.step sizeOf r (.remove k)).1
      (step cfg sizeOf c (.remove k)).2 (LruRef.step sizeOf r (.remove k)).2 false := by
  obtain ⟨l, hl, hsorted, hitems, hlim⟩ := abs
  have ndl : (l.map (·.key)).Nodup := ((hl.map (·.key)).nodup_iff).2 inv.lru.nodup
  by_cases hk : k ∈ c.store.h.data.map (·.key)
  · obtain ⟨e, he, rfl⟩ := List.mem_map.1 hk
    have hc := check_of_mem inv.lru he
    obtain ⟨_, perm, _⟩ := remove_spec (cfg := cfg) ok inv.lru he
    have hfind := find_kv_of_mem ndl (hl.mem_iff.2 he)
    have hr : remove cfg sizeOf c e.key =
        ({ c with store := c.store.remove cfg e.key, evicted := (e.key, e.value) :: c.evicted,
                  size := c.size - sizeOf e.value, count := c.count - 1 }, true) := by
      simp only [remove_def, hc]
    simp only [step, hr, LruRef.step, hitems, hfind, filter_kv]
    refine ⟨rfl, ⟨l.filter (·.key != e.key), ?_, sorted_filter hsorted _, rfl, hlim⟩,
      [kv e], [kv e], rfl, rfl, rfl⟩
    exact filter_perm (hl.trans perm.symm) (perm_cons_nodup_keys perm inv.lru.nodup).1
  · have hfind := find_kv_none (l := l) (fun hm => hk (((hl.map (·.key)).mem_iff).1 hm))
    simp only [step, remove_spec_absent inv hk, LruRef.step, hitems, hfind]
    exact ⟨rfl, ⟨l, hl, hsorted, hitems, hlim⟩, [], [], rfl, rfl, rfl⟩

theorem clear_refines {cfg : Cfg} (ok : CfgOK cfg) {sizeOf : Nat → Int} (hs : ∀ v, 0 ≤ sizeOf v)
    {c : Cache} {r : LruRef.R} (inv : Inv sizeOf c) (abs : Abs c r) :
    StepRel c r (step cfg sizeOf c .clear).1 (LruRef.step sizeOf r .clear).1
      (step cfg sizeOf c .clear).2 (LruRef.step sizeOf r .clear).2 true := by
  obtain ⟨l, hl, hsorted, hitems, hlim⟩ := abs
  obtain ⟨c', hc, _, hd, ⟨gone, hg, hperm⟩, hlim'⟩ := clear_spec (cfg := cfg) ok hs inv
  simp only [step, hc, LruRef.step, hitems]
  refine ⟨rfl, ⟨[], by rw [hd], List.Pairwise.nil, rfl, by rw [hlim']; exact hlim⟩,
    gone, (l.map kv).reverse, hg, rfl, ?_⟩
  have h1 : gone.Perm (ents c) := by
    have : ents c' = [] := by simp [ents, hd]
    rw [this, List.append_nil] at hperm
    exact hperm
  exact h1.trans ((hl.map kv).symm.trans (List.reverse_perm _).symm)

/-- **one step of the conditional refinement** -/
theorem step_refines {cfg : Cfg} (ok : CfgOK cfg) {sizeOf : Nat → Int} (hs : ∀ v, 0 ≤ sizeOf v)
    {c : Cache} {r : LruRef.R} (inv : Inv sizeOf c) (abs : Abs c r) (op : Op)
    (hmin : stepMin cfg sizeOf c op = true) :
    StepRel c r (step cfg sizeOf c op).1 (LruRef.step sizeOf r op).1
      (step cfg sizeOf c op).2 (LruRef.step sizeOf r op).2 (op == .clear) := by
  cases op with
  | put k v => exact put_refines ok hs inv abs k v hmin
  | get k => exact get_refines ok inv abs k
  | remove k => exact remove_refines ok inv abs k
  | clear => exact clear_refines ok hs inv abs
  | has k =>
    obtain ⟨l, hl, hsorted, hitems, hlim⟩ := abs
    refine ⟨?_, ⟨l, hl, hsorted, hitems, hlim⟩, [], [], rfl, rfl, rfl⟩
    show Out.bool (has c k) = Out.bool (r.items.any (·.1 == k))
    congr 1
    have hm := (hl.map (·.key)).mem_iff (a := k)
    rw [Bool.eq_iff_iff, hitems, any_kv, hm]
    by_cases hk : k ∈ c.store.h.data.map (·.key)
    · obtain ⟨e, he, rfl⟩ := List.mem_map.1 hk
      simp [has, check_of_mem inv.lru he, hk]
    · simp [has, check_of_not_mem inv.lru hk, hk]
  | len =>
    obtain ⟨l, hl, hsorted, hitems, hlim⟩ := abs
    refine ⟨?_, ⟨l, hl, hsorted, hitems, hlim⟩, [], [], rfl, rfl, rfl⟩
    show Out.int c.count = Out.int r.items.length
    rw [inv.count, hitems, List.length_map, hl.length_eq]
  | size =>
    obtain ⟨l, hl, hsorted, hitems, hlim⟩ := abs
    refine ⟨?_, ⟨l, hl, hsorted, hitems, hlim⟩, [], [], rfl, rfl, rfl⟩
    show Out.int c.size = Out.int (LruRef.total sizeOf r.items)
    rw [inv.size, hitems, total_kv, sizeSum_perm sizeOf hl]

/-- the reference run -/
def execRef (sizeOf : Nat → Int) (r : LruRef.R) : List Op → LruRef.R
  | [] => r
  | op :: ops => execRef sizeOf (LruRef.step sizeOf r op).1 ops

def outsRef (sizeOf : Nat → Int) (r : LruRef.R) : List Op → List Out
  | [] => []
  | op :: ops => (LruRef.step sizeOf r op).2 :: outsRef sizeOf (LruRef.step sizeOf r op).1 ops

theorem run_refines {cfg : Cfg} (ok : CfgOK cfg) {sizeOf : Nat → Int} (hs : ∀ v, 0 ≤ sizeOf v)
    (ops : List Op) : ∀ {c : Cache} {r : LruRef.R}, Inv sizeOf c → Abs c r → runMin cfg sizeOf c ops = true →
      c.evicted.Perm r.evicted →
      outs cfg sizeOf c ops = outsRef sizeOf r ops ∧
      Abs (exec cfg sizeOf c ops) (execRef sizeOf r ops) ∧
      (exec cfg sizeOf c ops).evicted.Perm (execRef sizeOf r ops).evicted ∧
      (MdsVerif.Model.Cache.Op.clear ∉ ops → c.evicted = r.evicted →
        (exec cfg sizeOf c ops).evicted = (execRef sizeOf r ops).evicted) := by
  induction ops with
  | nil => intro c r _ abs _ hp; exact ⟨rfl, abs, hp, fun _ he => he⟩
  | cons op ops ih =>
    intro c r inv abs hmin hp
    simp only [runMin, Bool.and_eq_true] at hmin
    obtain ⟨ho, abs', g, g', hg, hg', hgg⟩ := step_refines ok hs inv abs op hmin.1
    have inv' := (step_inv ok hs inv op).1
    have hp' : (step cfg sizeOf c op).1.evicted.Perm (LruRef.step sizeOf r op).1.evicted := by
      rw [hg, hg']
      have : g.Perm g' := by
        by_cases hc : op = MdsVerif.Model.Cache.Op.clear
        · simpa [hc] using hgg
        · have : g = g' := by simpa [hc] using hgg
          rw [this]
      exact this.append hp
    obtain ⟨h1, h2, h3, h4⟩ := ih inv' abs' hmin.2 hp'
    refine ⟨?_, h2, h3, ?_⟩
    · show (step cfg sizeOf c op).2 :: outs cfg sizeOf _ ops = (LruRef.step sizeOf r op).2 :: outsRef sizeOf _ ops
      rw [ho, h1]
    · intro hn he
      have hc : op ≠ MdsVerif.Model.Cache.Op.clear := fun h => hn (h ▸ List.mem_cons_self)
      apply h4 (fun h => hn (List.mem_cons_of_mem _ h))
      have : g = g' := by simpa [hc] using hgg
      rw [hg, hg', this, he]

/-! ## 6. discharging the hypothesis from a heap-order invariant

`HeapInv cfg P`: `P` is an invariant of the heap under the two heap operations the LRU store uses
(`pop` at a valid offset, `add` of an element newer than all others) that puts a minimal timestamp at the
root.  This is what a heap-order theorem (C05) for a configuration provides; given it, the hypothesis
`runMin` of the conditional refinement holds on every history.  (For the pinned configuration no such
`P` exists: `C08_F2_witness`.) -/

structure HeapInv (cfg : Cfg) (P : H Entry → Prop) : Prop where
  nil : P { data := [] }
  log : ∀ h l, P h → P { h with log := l }
  pop : ∀ h i, P h → i < h.data.length → P (pop cfg ltEntry h i).1
  add : ∀ h v, P h → (∀ e ∈ h.data, e.lastAccess < v.lastAccess) → P (add cfg ltEntry h v).1
  min : ∀ h, P h → minOK h = true

/-- the part of `HeapInv` that histories without removal of an interior heap slot need: `pop` only at the
root (`Evict`), `add` only of the newest element (`Store`) -/
structure HeapInv0 (cfg : Cfg) (P : H Entry → Prop) : Prop where
  nil : P { data := [] }
  log : ∀ h l, P h → P { h with log := l }
  pop0 : ∀ h, P h → 0 < h.data.length → P (pop cfg ltEntry h 0).1
  add : ∀ h v, P h → (∀ e ∈ h.data, e.lastAccess < v.lastAccess) → P (add cfg ltEntry h v).1
  min : ∀ h, P h → minOK h = true

theorem HeapInv.to0 {cfg : Cfg} {P : H Entry → Prop} (hi : HeapInv cfg P) : HeapInv0 cfg P :=
  ⟨hi.nil, hi.log, fun h hP h0 => hi.pop h 0 hP h0, hi.add, hi.min⟩

/-- `HeapInv0` plus: `pop` at *every* valid offset keeps `P` as long as the heap holds at most `B` elements
(`HeapInv` is the case "for every `B`") -/
structure HeapInvB (cfg : Cfg) (P : H Entry → Prop) (B : Nat) : Prop extends HeapInv0 cfg P where
  popB : ∀ h i, P h → i < h.data.length → h.data.length ≤ B → P (pop cfg ltEntry h i).1

theorem HeapInv.toB {cfg : Cfg} {P : H Entry → Prop} (hi : HeapInv cfg P) (B : Nat) : HeapInvB cfg P B :=
  { hi.to0 with popB := fun h i hP hlt _ => hi.pop h i hP hlt }

theorem remove_h {cfg : Cfg} {s : Lru} {k p : Nat} (hg : s.present.get k = some p) (hp : p < s.h.data.length) :
    (s.remove cfg k).h = { (pop cfg ltEntry s.h p).1 with log := [] } := by
  have : ¬ p ≥ s.h.len := by simp [H.len]; exact hp
  simp only [Lru.remove, hg, heapRemove, this, if_false]
  rfl

theorem evict_h {cfg : Cfg} {s s' : Lru} {k v : Nat} (h : s.evict cfg = .ok (s', k, v)) :
    s'.h = { (pop cfg ltEntry s.h 0).1 with log := [] } := by
  unfold Lru.evict at h
  split at h
  · cases h
  · cases h; rfl

theorem store_h {cfg : Cfg} {s s' : Lru} {k v : Nat} (h : s.store cfg k v = .ok s') :
    s'.h = { (add cfg ltEntry s.h { lastAccess := s.clock + 1, key := k, value := v }).1 with log := [] } := by
  rw [Lru.store_def] at h
  split at h
  · cases h
  · cases h; rfl

theorem access_h {cfg : Cfg} {s : Lru} {k p : Nat} (hg : s.present.get k = some p) (hp : p < s.h.data.length) :
    (s.access cfg k).1.h =
      { (add cfg ltEntry { (pop cfg ltEntry s.h p).1 with log := [] }
          { (pop cfg ltEntry s.h p).2 with lastAccess := s.clock + 1 }).1 with log := [] } := by
  have : ¬ p ≥ s.h.len := by simp [H.len]; exact hp
  simp only [Lru.access_def, hg, heapRemove, this, if_false]
  rfl

section heapinv
variable {cfg : Cfg} {P : H Entry → Prop}

theorem remove_P {B : Nat} (hi : HeapInvB cfg P B) {s : Lru} (inv : LruInv s) (hP : P s.h)
    (hB : s.h.data.length ≤ B) (k : Nat) : P (s.remove cfg k).h := by
  by_cases hk : k ∈ s.h.data.map (·.key)
  · obtain ⟨e, he, rfl⟩ := List.mem_map.1 hk
    obtain ⟨p, hg, _, hlt⟩ := inv.get_of_mem he
    rw [remove_h hg hlt]
    exact hi.log _ _ (hi.popB _ _ hP hlt hB)
  · rw [remove_absent inv hk]; exact hP

theorem access_P {B : Nat} (ok : CfgOK cfg) (hi : HeapInvB cfg P B) {s : Lru} (inv : LruInv s) (hP : P s.h)
    (hB : s.h.data.length ≤ B) (k : Nat) : P (s.access cfg k).1.h := by
  by_cases hk : k ∈ s.h.data.map (·.key)
  · obtain ⟨e, he, rfl⟩ := List.mem_map.1 hk
    obtain ⟨p, hg, hpe, hlt⟩ := inv.get_of_mem he
    rw [access_h hg hlt]
    apply hi.log
    apply hi.add _ _ (hi.log _ _ (hi.popB _ _ hP hlt hB))
    intro a ha
    have hget : s.h.get p = e := by
      have := H.get_eq? s.h hlt; rw [hpe] at this; exact (Option.some.inj this).symm
    have ps := pop_spec ok hlt (hget ▸ inv.tr e.key)
    have : a ∈ s.h.data := ps.2.2.mem_iff.1 (List.mem_cons_of_mem _ ha)
    have := inv.ts_le a this
    show a.lastAccess < s.clock + 1
    omega
  · rw [access_absent inv hk]; exact hP

theorem store_P (hi : HeapInv0 cfg P) {s s' : Lru} (inv : LruInv s) (hP : P s.h) {k v : Nat}
    (h : s.store cfg k v = .ok s') : P s'.h := by
  rw [store_h h]
  apply hi.log
  apply hi.add _ _ hP
  intro a ha
  have := inv.ts_le a ha
  show a.lastAccess < s.clock + 1
  omega

theorem evict_P (hi : HeapInv0 cfg P) {s s' : Lru} (hP : P s.h) (hne : s.h.data ≠ []) {k v : Nat}
    (h : s.evict cfg = .ok (s', k, v)) : P s'.h := by
  rw [evict_h h]
  exact hi.log _ _ (hi.pop0 _ hP (List.length_pos_iff.2 hne))

theorem evictLoop_P (ok : CfgOK cfg) (hi : HeapInv0 cfg P) {sizeOf : Nat → Int} :
    ∀ (fuel : Nat) (c : Cache) (n : Int), Inv0 c → P c.store.h →
      evictLoopMin cfg sizeOf fuel c n = true ∧
      ∀ c' n', evictLoop cfg sizeOf fuel c n = .ok (c', n') → P c'.store.h := by
  intro fuel
  induction fuel with
  | zero =>
    intro c n _ hP
    refine ⟨rfl, fun c' n' h => ?_⟩
    simp only [evictLoop_zero] at h
    cases h; exact hP
  | succ fuel ih =>
    intro c n inv hP
    by_cases hgt : n > c.limit
    · by_cases hne : c.store.h.data = []
      · have hev : ∃ m, c.store.evict cfg = .panic m := by
          simp [Lru.evict, H.len, hne]
        obtain ⟨m, hev⟩ := hev
        refine ⟨?_, fun c' n' h => ?_⟩
        · simp only [evictLoopMin, hgt, if_true, hev, hi.min _ hP, Bool.and_self]
        · simp only [evictLoop_succ, hgt, if_true, hev] at h
          cases h
      · obtain ⟨s', e, hev, _, hst, perm, _⟩ := evict_spec ok inv.lru hne
        have hlen := perm.length_eq
        simp only [List.length_cons] at hlen
        let c1 : Cache := { c with store := s', evicted := (e.key, e.value) :: c.evicted, count := c.count - 1 }
        have inv1 : Inv0 c1 :=
          ⟨hst, by show c.count - 1 = (s'.h.data.length : Int); rw [inv.count, ← hlen]; omega, inv.limit_pos⟩
        have hP1 : P c1.store.h := evict_P hi hP hne hev
        obtain ⟨h1, h2⟩ := ih c1 (n - sizeOf e.value) inv1 hP1
        refine ⟨?_, fun c' n' h => ?_⟩
        · simp only [evictLoopMin, hgt, if_true, hev, hi.min _ hP, Bool.true_and]
          exact h1
        · simp only [evictLoop_succ, hgt, if_true, hev] at h
          exact h2 c' n' h
    · refine ⟨by simp only [evictLoopMin, hgt, if_false], fun c' n' h => ?_⟩
      simp only [evictLoop_succ, hgt, if_false] at h
      cases h; exact hP

theorem clearLoop_P (ok : CfgOK cfg) (hi : HeapInv0 cfg P) {sizeOf : Nat → Int} (hs : ∀ v, 0 ≤ sizeOf v) :
    ∀ (fuel : Nat) (c : Cache), Inv sizeOf c → P c.store.h →
      ∀ c', clearLoop cfg sizeOf fuel c = .ok c' → P c'.store.h := by
  intro fuel
  induction fuel with
  | zero => intro c _ hP c' h; simp only [clearLoop_zero] at h; cases h; exact hP
  | succ fuel ih =>
    intro c inv hP c' h
    by_cases hgt : c.count > 0
    · have hne : c.store.h.data ≠ [] := by
        intro h; have := inv.count; rw [h] at this; simp at this; omega
      obtain ⟨s', e, hev, _, hst, perm, _⟩ := evict_spec ok inv.lru hne
      obtain ⟨inv1, _⟩ := inv_drop hs inv hst perm
      simp only [clearLoop_succ, hgt, if_true, hev] at h
      exact ih _ inv1 (evict_P hi hP hne hev) c' h
    · simp only [clearLoop_succ, hgt, if_false] at h
      cases h; exact hP

theorem step_P {B : Nat} (ok : CfgOK cfg) (hi : HeapInvB cfg P B) {sizeOf : Nat → Int} (hs : ∀ v, 0 ≤ sizeOf v)
    {c : Cache} (inv : Inv sizeOf c) (hP : P c.store.h) (hB : c.store.h.data.length ≤ B) (op : Op) :
    stepMin cfg sizeOf c op = true ∧ P (step cfg sizeOf c op).1.store.h := by
  cases op with
  | put k v =>
    by_cases h : sizeOf v > c.limit
    · simp only [stepMin, h, if_true, step, put_refused cfg sizeOf c k v h]
      exact ⟨trivial, hP⟩
    · obtain ⟨inv1, _, hk1, hlim1⟩ := putReplace_spec (cfg := cfg) ok hs inv k
      have hP1 : P (putReplace cfg sizeOf c k).store.h := by
        unfold putReplace
        split
        · exact remove_P hi inv.lru hP hB k
        · exact hP
      obtain ⟨hm, hPl⟩ := evictLoop_P ok hi.toHeapInv0 (sizeOf := sizeOf) ((putReplace cfg sizeOf c k).store.h.len + 1)
        (putReplace cfg sizeOf c k) ((putReplace cfg sizeOf c k).size + sizeOf v) inv1.toInv0 hP1
      obtain ⟨c2, n2, hloop, inv2, _, _, _, _, hkeys⟩ :=
        evictLoop_spec ok (sizeOf := sizeOf) (sizeOf v) ((putReplace cfg sizeOf c k).store.h.len + 1)
          (putReplace cfg sizeOf c k) ((putReplace cfg sizeOf c k).size + sizeOf v) inv1.toInv0
          (by simp [H.len]) (by rw [inv1.size]) (by rw [hlim1]; omega)
      obtain ⟨st, hst, _, _, _⟩ := store_spec ok inv2.lru v (hkeys k hk1)
      have hput : put cfg sizeOf c k v =
          .ok ({ c2 with store := st, size := n2, count := c2.count + 1 }, true) := by
        rw [put_eq cfg sizeOf c k v h, hloop]
        simp only [hst]
      refine ⟨by simp only [stepMin, h, if_false]; exact hm, ?_⟩
      simp only [step, hput]
      exact store_P hi.toHeapInv0 inv2.lru (hPl c2 n2 hloop) hst
  | get k => exact ⟨rfl, access_P ok hi inv.lru hP hB k⟩
  | has k => exact ⟨rfl, hP⟩
  | remove k =>
    refine ⟨rfl, ?_⟩
    show P (remove cfg sizeOf c k).1.store.h
    rw [remove_def]
    split
    · exact remove_P hi inv.lru hP hB k
    · exact hP
  | clear =>
    refine ⟨rfl, ?_⟩
    obtain ⟨c', hc, _, _, _, _⟩ := clear_spec (cfg := cfg) ok hs inv
    simp only [step, hc]
    have hc' := hc
    rw [clear_def] at hc'
    split at hc'
    · cases hc'
    · rename_i c'' hl
      split at hc'
      · cases hc'
      · cases hc'
        exact clearLoop_P ok hi.toHeapInv0 hs _ c inv hP c' hl
  | len => exact ⟨rfl, hP⟩
  | size => exact ⟨rfl, hP⟩

/-- with a heap-order invariant, the hypothesis of the conditional refinement holds on every history -/
theorem runMin_of_heapInv (ok : CfgOK cfg) (hi : HeapInv cfg P) {sizeOf : Nat → Int} (hs : ∀ v, 0 ≤ sizeOf v)
    (ops : List Op) : ∀ {c : Cache}, Inv sizeOf c → P c.store.h → runMin cfg sizeOf c ops = true := by
  induction ops with
  | nil => intro c _ _; rfl
  | cons op ops ih =>
    intro c inv hP
    obtain ⟨h1, h2⟩ := step_P ok (hi.toB _) hs inv hP (Nat.le_refl _) op
    simp only [runMin, h1, Bool.true_and]
    exact ih (step_inv ok hs inv op).1 h2

theorem length_le_sizeSum {sizeOf : Nat → Int} (h1 : ∀ v, 1 ≤ sizeOf v) (l : List Entry) :
    (l.length : Int) ≤ sizeSum sizeOf l := by
  induction l with
  | nil => exact Int.le_refl 0
  | cons e l ih => have := h1 e.value; simp only [sizeSum, List.length_cons]; omega

/-- when every value has size `≥ 1` the cache never holds more than `limit` entries -/
theorem length_le_limit {sizeOf : Nat → Int} (h1 : ∀ v, 1 ≤ sizeOf v) {c : Cache} (inv : Inv sizeOf c) :
    (c.store.h.data.length : Int) ≤ c.limit := by
  have := length_le_sizeSum h1 c.store.h.data
  have := inv.le
  have := inv.size
  omega

/-- with an invariant kept by `pop` on heaps of at most `B` elements, the hypothesis of the conditional
refinement holds on every history of a cache that never holds more than `B` entries (sizes `≥ 1`,
`limit ≤ B`) -/
theorem runMin_of_heapInvB {B : Nat} (ok : CfgOK cfg) (hi : HeapInvB cfg P B) {sizeOf : Nat → Int}
    (h1 : ∀ v, 1 ≤ sizeOf v) (ops : List Op) : ∀ {c : Cache}, Inv sizeOf c → P c.store.h → c.limit ≤ B →
      runMin cfg sizeOf c ops = true := by
  have hs : ∀ v, 0 ≤ sizeOf v := fun v => by have := h1 v; omega
  induction ops with
  | nil => intro c _ _ _; rfl
  | cons op ops ih =>
    intro c inv hP hB
    have hlen : c.store.h.data.length ≤ B := by have := length_le_limit h1 inv; omega
    obtain ⟨h1', h2⟩ := step_P ok hi hs inv hP hlen op
    simp only [runMin, h1', Bool.true_and]
    have hlim := (step_inv ok hs inv op).2.1
    exact ih (step_inv ok hs inv op).1 h2 (by rw [hlim]; exact hB)

/-! ### histories that never touch a present key: only the root of the heap is ever removed -/

/-- the operation does not touch a present key: a `Put` that replaces nothing, a `Get`/`Remove` that misses -/
def opMiss (c : Cache) : Op → Bool
  | .put k _ => !has c k
  | .get k => !has c k
  | .remove k => !has c k
  | _ => true

def runMiss (cfg : Cfg) (sizeOf : Nat → Int) (c : Cache) : List Op → Bool
  | [] => true
  | op :: ops => opMiss c op && runMiss cfg sizeOf (step cfg sizeOf c op).1 ops

theorem has_iff_mem {sizeOf : Nat → Int} {c : Cache} (inv : Inv sizeOf c) (k : Nat) :
    has c k = true ↔ k ∈ c.store.h.data.map (·.key) := by
  by_cases hk : k ∈ c.store.h.data.map (·.key)
  · obtain ⟨e, he, rfl⟩ := List.mem_map.1 hk
    simp [has, check_of_mem inv.lru he, hk]
  · simp [has, check_of_not_mem inv.lru hk, hk]

theorem not_mem_of_miss {sizeOf : Nat → Int} {c : Cache} (inv : Inv sizeOf c) {k : Nat}
    (h : (!has c k) = true) : k ∉ c.store.h.data.map (·.key) := by
  intro hk
  rw [(has_iff_mem inv k).2 hk] at h
  cases h

theorem step_P0 (ok : CfgOK cfg) (hi : HeapInv0 cfg P) {sizeOf : Nat → Int} (hs : ∀ v, 0 ≤ sizeOf v)
    {c : Cache} (inv : Inv sizeOf c) (hP : P c.store.h) (op : Op) (hm : opMiss c op = true) :
    stepMin cfg sizeOf c op = true ∧ P (step cfg sizeOf c op).1.store.h := by
  cases op with
  | put k v =>
    have hk : k ∉ c.store.h.data.map (·.key) := not_mem_of_miss inv hm
    by_cases h : sizeOf v > c.limit
    · simp only [stepMin, h, if_true, step, put_refused cfg sizeOf c k v h]
      exact ⟨trivial, hP⟩
    · obtain ⟨inv1, _, hk1, hlim1⟩ := putReplace_spec (cfg := cfg) ok hs inv k
      have hr : putReplace cfg sizeOf c k = c := by
        simp only [putReplace, check_of_not_mem inv.lru hk]
      have hP1 : P (putReplace cfg sizeOf c k).store.h := by rw [hr]; exact hP
      obtain ⟨hm, hPl⟩ := evictLoop_P ok hi (sizeOf := sizeOf) ((putReplace cfg sizeOf c k).store.h.len + 1)
        (putReplace cfg sizeOf c k) ((putReplace cfg sizeOf c k).size + sizeOf v) inv1.toInv0 hP1
      obtain ⟨c2, n2, hloop, inv2, _, _, _, _, hkeys⟩ :=
        evictLoop_spec ok (sizeOf := sizeOf) (sizeOf v) ((putReplace cfg sizeOf c k).store.h.len + 1)
          (putReplace cfg sizeOf c k) ((putReplace cfg sizeOf c k).size + sizeOf v) inv1.toInv0
          (by simp [H.len]) (by rw [inv1.size]) (by rw [hlim1]; omega)
      obtain ⟨st, hst, _, _, _⟩ := store_spec ok inv2.lru v (hkeys k hk1)
      have hput : put cfg sizeOf c k v =
          .ok ({ c2 with store := st, size := n2, count := c2.count + 1 }, true) := by
        rw [put_eq cfg sizeOf c k v h, hloop]
        simp only [hst]
      refine ⟨by simp only [stepMin, h, if_false]; exact hm, ?_⟩
      simp only [step, hput]
      exact store_P hi inv2.lru (hPl c2 n2 hloop) hst
  | get k =>
    have hk : k ∉ c.store.h.data.map (·.key) := not_mem_of_miss inv hm
    simp only [stepMin, step, get_spec_absent inv hk]
    exact ⟨trivial, hP⟩
  | has k => exact ⟨rfl, hP⟩
  | remove k =>
    have hk : k ∉ c.store.h.data.map (·.key) := not_mem_of_miss inv hm
    simp only [stepMin, step, remove_spec_absent inv hk]
    exact ⟨trivial, hP⟩
  | clear =>
    refine ⟨rfl, ?_⟩
    obtain ⟨c', hc, _, _, _, _⟩ := clear_spec (cfg := cfg) ok hs inv
    simp only [step, hc]
    have hc' := hc
    rw [clear_def] at hc'
    split at hc'
    · cases hc'
    · rename_i c'' hl
      split at hc'
      · cases hc'
      · cases hc'
        exact clearLoop_P ok hi hs _ c inv hP c' hl
  | len => exact ⟨rfl, hP⟩
  | size => exact ⟨rfl, hP⟩

/-- with an invariant kept by `pop 0` and `add`-of-the-newest, the hypothesis of the conditional refinement
holds on every history that never touches a present key -/
theorem runMin_of_heapInv0 (ok : CfgOK cfg) (hi : HeapInv0 cfg P) {sizeOf : Nat → Int} (hs : ∀ v, 0 ≤ sizeOf v)
    (ops : List Op) : ∀ {c : Cache}, Inv sizeOf c → P c.store.h → runMiss cfg sizeOf c ops = true →
      runMin cfg sizeOf c ops = true := by
  induction ops with
  | nil => intro c _ _ _; rfl
  | cons op ops ih =>
    intro c inv hP hm
    simp only [runMiss, Bool.and_eq_true] at hm
    obtain ⟨h1, h2⟩ := step_P0 ok hi hs inv hP op hm.1
    simp only [runMin, h1, Bool.true_and]
    exact ih (step_inv ok hs inv op).1 h2 hm.2

end heapinv

/-! ### a syntactic class: every `Put` brings a key not put before, `Get`/`Remove` name keys never put -/

def opFresh (seen : List Nat) : Op → Bool
  | .put k _ => !seen.contains k
  | .get k => !seen.contains k
  | .remove k => !seen.contains k
  | _ => true

def seenAfter (seen : List Nat) : Op → List Nat
  | .put k _ => k :: seen
  | _ => seen

/-- `freshKeys seen ops`: no `Put` of the history uses a key in `seen` or a key of an earlier `Put`, and
every `Get`/`Remove` names a key that is not in `seen` and was not `Put` before it (so it misses).  In
particular (`seen = []`): histories of `Put`s with pairwise distinct keys, `Has`, `Len`, `Size`, `Clear`. -/
def freshKeys (seen : List Nat) : List Op → Bool
  | [] => true
  | op :: ops => opFresh seen op && freshKeys (seenAfter seen op) ops

theorem mem_addedBy {op : Op} {o : Out} {e : Nat × Nat} (h : e ∈ addedBy op o) :
    ∃ k v, op = .put k v ∧ e = (k, v) := by
  unfold addedBy at h
  split at h
  · rename_i k v
    exact ⟨k, v, rfl, by simpa using h⟩
  · cases h

theorem opMiss_of_fresh {sizeOf : Nat → Int} {c : Cache} (inv : Inv sizeOf c) {seen : List Nat}
    (hseen : ∀ k ∈ c.store.h.data.map (·.key), k ∈ seen) {op : Op} (hf : opFresh seen op = true) :
    opMiss c op = true := by
  have key : ∀ k, (!seen.contains k) = true → (!has c k) = true := by
    intro k hk
    cases hh : has c k
    · rfl
    · have := hseen k ((has_iff_mem inv k).1 hh)
      simp [this] at hk
  cases op with
  | put k v => exact key k hf
  | get k => exact key k hf
  | remove k => exact key k hf
  | has k => rfl
  | clear => rfl
  | len => rfl
  | size => rfl

theorem seen_step {cfg : Cfg} (ok : CfgOK cfg) {sizeOf : Nat → Int} (hs : ∀ v, 0 ≤ sizeOf v) {c : Cache}
    (inv : Inv sizeOf c) {seen : List Nat} (hseen : ∀ k ∈ c.store.h.data.map (·.key), k ∈ seen) (op : Op) :
    ∀ k ∈ (step cfg sizeOf c op).1.store.h.data.map (·.key), k ∈ seenAfter seen op := by
  intro k hk
  obtain ⟨e, he, rfl⟩ := List.mem_map.1 hk
  obtain ⟨gone, _, perm⟩ := (step_inv ok hs inv op).2.2.1
  have h1 : kv e ∈ gone ++ ents (step cfg sizeOf c op).1 :=
    List.mem_append_right _ (List.mem_map.2 ⟨e, he, rfl⟩)
  rcases List.mem_append.1 (perm.mem_iff.1 h1) with h2 | h2
  · obtain ⟨k', v', rfl, hkv⟩ := mem_addedBy h2
    have : e.key = k' := congrArg Prod.fst hkv
    simp [seenAfter, this]
  · obtain ⟨e', he', hkv⟩ := List.mem_map.1 h2
    have hk' : e'.key = e.key := congrArg Prod.fst hkv
    have := hseen e.key (List.mem_map.2 ⟨e', he', hk'⟩)
    cases op <;> simp [seenAfter, this]

theorem runMiss_of_fresh {cfg : Cfg} (ok : CfgOK cfg) {sizeOf : Nat → Int} (hs : ∀ v, 0 ≤ sizeOf v)
    (ops : List Op) : ∀ {c : Cache} {seen : List Nat}, Inv sizeOf c →
      (∀ k ∈ c.store.h.data.map (·.key), k ∈ seen) → freshKeys seen ops = true →
      runMiss cfg sizeOf c ops = true := by
  induction ops with
  | nil => intro c seen _ _ _; rfl
  | cons op ops ih =>
    intro c seen inv hseen hf
    simp only [freshKeys, Bool.and_eq_true] at hf
    simp only [runMiss, opMiss_of_fresh inv hseen hf.1, Bool.true_and]
    exact ih (step_inv ok hs inv op).1 (seen_step ok hs inv hseen op) hf.2

end MdsVerif.Proofs.Cache
