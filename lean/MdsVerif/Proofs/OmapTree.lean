import MdsVerif.Proofs.Omap
import MdsVerif.Proofs.StreeHist
/-!
# `TreeFacts` discharged from C01's theorems

`Proofs/StreeHist` (C01) proves `insertTop_ok` / `remove_top_ok`: on a well-formed tree object
`Add`/`Replace`/`Remove` never panic, keep it well-formed and act on the key list as
`SortedSet.ins` / `SortedSet.remove`.  Those reference functions are, clause for clause, the
`insertKey` / `removeKey` used by the C03/C04 references, so the hypothesis of
`step_refines` / `run_refines` holds for every comparator with `TransCmp`.
-/
namespace MdsVerif.Proofs.Omap
open MdsVerif.Model.Stree MdsVerif.Spec MdsVerif.Proofs.Cursor

variable {α : Type}

theorem ins_eq (c : α → α → Ordering) (rep : Bool) (k : α) (l : List α) :
    SortedSet.ins c rep k l = CursorRef.insertKey c rep k l := by
  induction l with
  | nil => rfl
  | cons x xs ih => simp only [SortedSet.ins, CursorRef.insertKey, ih]; cases c k x <;> rfl

theorem rem_eq (c : α → α → Ordering) (k : α) (l : List α) :
    SortedSet.remove c k l = CursorRef.removeKey c k l := by
  induction l with
  | nil => rfl
  | cons x xs ih => simp only [SortedSet.remove, CursorRef.removeKey, ih]; cases c k x <;> rfl

theorem twf_iff (c : α → α → Ordering) (t : T α) : TWF c t ↔ MdsVerif.Proofs.Stree.WF c t := by
  unfold TWF MdsVerif.Proofs.Stree.WF Ordered SortedSet.Asc
  rw [MdsVerif.Proofs.Stree.size_eq_length]

/-- **C01's theorems discharge the hypothesis of the C04 refinement** -/
theorem treeFacts (c : α → α → Ordering) [Std.TransCmp c] : TreeFacts c where
  replace := by
    intro t k h
    obtain ⟨t', h1, h2, h3, _⟩ := MdsVerif.Proofs.Stree.insertTop_ok t k true ((twf_iff c t).mp h)
    rw [ins_eq] at h1 h2
    exact ⟨t', h1, (twf_iff c t').mpr h3, h2⟩
  remove := by
    intro t k h
    obtain ⟨t', h1, h2, h3, _⟩ := MdsVerif.Proofs.Stree.remove_top_ok t k ((twf_iff c t).mp h)
    rw [rem_eq] at h1 h2
    exact ⟨t', h1, (twf_iff c t').mpr h3, h2⟩

end MdsVerif.Proofs.Omap
