import MdsVerif.Proofs.MdiffApply
/-!
# `Context`'s rendering of a diff, applied by the published rules, gives `Right` — C14 (apply, context)

`applyContext_chunks`: the reference applier `Spec.DiffApply.applyContext` run on the text written
by the model's `context` returns `R`, for chunks that are correct (`AllOK`), aligned, made of
`EditOK` edits and each containing a change.
-/
namespace MdsVerif.Proofs.MdiffApply
open MdsVerif.Model.Edit MdsVerif.Model.Mdiff MdsVerif.Model.MdiffFmt MdsVerif.Proofs.MdiffFmt
open MdsVerif.Spec MdsVerif.Spec.Mdiff MdsVerif.Proofs.Mdiff MdsVerif.Gen

/-! ## the range lines -/

theorem ctx_takeWhile_space (a b : Line) (h : ' ' ∉ a) :
    (a ++ ' ' :: b).takeWhile (· ≠ ' ') = a := by
  apply takeWhile_stop _ a ' ' b _ (by simp)
  intro c hc
  have : c ≠ ' ' := fun e => h (e ▸ hc)
  simp [this]

theorem parseContextRange_dspan (pfx sfx : Line) (s e : Nat) (hs : 1 ≤ s) (hse : s ≤ e) :
    DiffApply.parseContextRange pfx (' ' :: sfx) (pfx ++ (dspan s e ++ ' ' :: sfx))
      = some (s, e - s) := by
  have hsp : ' ' ∉ dspan s e :=
    spanChars_not_mem (spanChars_dspan s e) ' ' (by decide) (by decide)
  unfold DiffApply.parseContextRange
  simp only [dropPrefix_append, ctx_takeWhile_space _ _ hsp, List.drop_left, ne_eq, not_true_eq_false,
    if_false, range_dspan]
  by_cases h : e - s = 1
  · simp only [if_pos h]
    rw [h]
  · simp only [if_neg h]
    rw [if_neg (by omega)]
    have : e - 1 + 1 - s = e - s := by omega
    rw [this]

theorem ctx_parse_old (s e : Nat) (hs : 1 ≤ s) (hse : s ≤ e) :
    DiffApply.parseContextRange ['*', '*', '*', ' '] [' ', '*', '*', '*', '*']
      (str "*** " ++ dspan s e ++ str " ****") = some (s, e - s) := by
  have a : str "*** " = ['*', '*', '*', ' '] := rfl
  have b : str " ****" = [' ', '*', '*', '*', '*'] := rfl
  rw [a, b, List.append_assoc]
  exact parseContextRange_dspan _ _ s e hs hse

theorem ctx_parse_new (s e : Nat) (hs : 1 ≤ s) (hse : s ≤ e) :
    DiffApply.parseContextRange ['-', '-', '-', ' '] [' ', '-', '-', '-', '-']
      (str "--- " ++ dspan s e ++ str " ----") = some (s, e - s) := by
  have a : str "--- " = ['-', '-', '-', ' '] := rfl
  have b : str " ----" = [' ', '-', '-', '-', '-'] := rfl
  rw [a, b, List.append_assoc]
  exact parseContextRange_dspan _ _ s e hs hse

/-! ## the sides of a hunk -/

/-- the lines of one side, from `(marker, content)` pairs -/
def sideLines (ps : List (Char × Line)) : List Line := ps.map fun p => p.1 :: ' ' :: p.2

theorem sideLines_append (a b : List (Char × Line)) :
    sideLines (a ++ b) = sideLines a ++ sideLines b := by simp [sideLines]

theorem sideLines_cons_append (p : Char × Line) (ps : List (Char × Line)) (X : List Line) :
    sideLines (p :: ps) ++ X = (p.1 :: ' ' :: p.2) :: (sideLines ps ++ X) := rfl

theorem contextSide_pairs (ok : Char → Bool) (ps : List (Char × Line))
    (h : ∀ p ∈ ps, ok p.1 = true) (rest : List Line) :
    DiffApply.contextSide ok ps.length (sideLines ps ++ rest) = some (ps, rest) := by
  induction ps with
  | nil => simp [sideLines, DiffApply.contextSide]
  | cons p ps ih =>
    have hp := h p (by simp)
    have := ih (fun q hq => h q (by simp [hq]))
    rw [sideLines_cons_append, List.length_cons, DiffApply.contextSide]
    simp [hp, this]

def leftPairs (e : Edit Line) : List (Char × Line) :=
  match e.op with
  | .drop => e.X.map fun t => ('-', t)
  | .emit => e.X.map fun t => (' ', t)
  | .replace => e.X.map fun t => ('!', t)
  | .copy => []

def rightPairs (e : Edit Line) : List (Char × Line) :=
  match e.op with
  | .copy => e.Y.map fun t => ('+', t)
  | .emit => e.X.map fun t => (' ', t)
  | .replace => e.Y.map fun t => ('!', t)
  | .drop => []

theorem str_cdrop : str MdiffFmt.ctxDrop = ['-', ' '] := rfl
theorem str_cemit : str MdiffFmt.ctxEmit = [' ', ' '] := rfl
theorem str_crepl : str MdiffFmt.ctxRepl = ['!', ' '] := rfl
theorem str_ccopy : str MdiffFmt.ctxCopy = ['+', ' '] := rfl

theorem contextLeft_eq (e : Edit Line) : contextLeft e = sideLines (leftPairs e) := by
  obtain ⟨op, X, Y⟩ := e
  cases op <;>
    simp [contextLeft, leftPairs, sideLines, writeLines, str_cdrop, str_cemit, str_crepl]

theorem contextRight_eq (e : Edit Line) : contextRight e = sideLines (rightPairs e) := by
  obtain ⟨op, X, Y⟩ := e
  cases op <;>
    simp [contextRight, rightPairs, sideLines, writeLines, str_ccopy, str_cemit, str_crepl]

theorem flatMap_contextLeft (es : List (Edit Line)) :
    es.flatMap contextLeft = sideLines (es.flatMap leftPairs) := by
  induction es with
  | nil => rfl
  | cons e es ih => simp only [List.flatMap_cons, sideLines_append, ih, contextLeft_eq]

theorem flatMap_contextRight (es : List (Edit Line)) :
    es.flatMap contextRight = sideLines (es.flatMap rightPairs) := by
  induction es with
  | nil => rfl
  | cons e es ih => simp only [List.flatMap_cons, sideLines_append, ih, contextRight_eq]

/-- the context lines of a side, as the applier reads them -/
def ctxOf (side : List (Char × Line)) : List Line := (side.filter fun p => p.1 = ' ').map (·.2)

theorem ctxOf_append (a b : List (Char × Line)) : ctxOf (a ++ b) = ctxOf a ++ ctxOf b := by
  simp [ctxOf]

theorem ctxOf_mark (m : Char) (X : List Line) :
    ctxOf (X.map fun t => (m, t)) = if m = ' ' then X else [] := by
  induction X with
  | nil => simp [ctxOf]
  | cons x X ih =>
    by_cases h : m = ' '
    · simp only [ctxOf, if_pos h] at ih ⊢
      subst h
      simpa using ih
    · simp only [ctxOf, if_neg h] at ih ⊢
      simp [h]

theorem leftPairs_snd (e : Edit Line) : (leftPairs e).map (·.2) = consumedOf e := by
  obtain ⟨op, X, Y⟩ := e
  cases op <;> simp [leftPairs, consumedOf, Function.comp_def]

theorem rightPairs_snd (e : Edit Line) : (rightPairs e).map (·.2) = producedOf e := by
  obtain ⟨op, X, Y⟩ := e
  cases op <;> simp [rightPairs, producedOf, Function.comp_def]

theorem flatMap_leftPairs_snd (es : List (Edit Line)) :
    (es.flatMap leftPairs).map (·.2) = consumed es := by
  induction es with
  | nil => rfl
  | cons e es ih => simp only [List.flatMap_cons, List.map_append, ih, leftPairs_snd, consumed_cons]

theorem flatMap_rightPairs_snd (es : List (Edit Line)) :
    (es.flatMap rightPairs).map (·.2) = produced es := by
  induction es with
  | nil => rfl
  | cons e es ih => simp only [List.flatMap_cons, List.map_append, ih, rightPairs_snd, produced_cons]

/-- without Copy/Replace the context lines of the old side are the new text -/
theorem flatMap_leftPairs_ctx (es : List (Edit Line))
    (h : ∀ e ∈ es, e.op = .drop ∨ e.op = .emit) : ctxOf (es.flatMap leftPairs) = produced es := by
  induction es with
  | nil => rfl
  | cons e es ih =>
    have he := h e (by simp)
    rw [List.flatMap_cons, ctxOf_append, ih (fun e' he' => h e' (by simp [he'])), produced_cons]
    congr 1
    obtain ⟨op, X, Y⟩ := e
    rcases he with he | he <;> simp only at he <;> subst he <;>
      simp [leftPairs, producedOf, ctxOf_mark]

/-- without Drop/Replace the context lines of the new side are the old text -/
theorem flatMap_rightPairs_ctx (es : List (Edit Line))
    (h : ∀ e ∈ es, e.op = .copy ∨ e.op = .emit) : ctxOf (es.flatMap rightPairs) = consumed es := by
  induction es with
  | nil => rfl
  | cons e es ih =>
    have he := h e (by simp)
    rw [List.flatMap_cons, ctxOf_append, ih (fun e' he' => h e' (by simp [he'])), consumed_cons]
    congr 1
    obtain ⟨op, X, Y⟩ := e
    rcases he with he | he <;> simp only at he <;> subst he <;>
      simp [rightPairs, consumedOf, ctxOf_mark]

theorem leftPairs_ok (es : List (Edit Line)) :
    ∀ p ∈ es.flatMap leftPairs, (fun m : Char => decide (m = ' ' ∨ m = '-' ∨ m = '!')) p.1 = true := by
  intro p hp
  obtain ⟨e, _, hp⟩ := List.mem_flatMap.mp hp
  obtain ⟨op, X, Y⟩ := e
  cases op <;> simp only [leftPairs, List.mem_map, List.not_mem_nil] at hp
  all_goals (obtain ⟨t, _, rfl⟩ := hp; simp)

theorem rightPairs_ok (es : List (Edit Line)) :
    ∀ p ∈ es.flatMap rightPairs, (fun m : Char => decide (m = ' ' ∨ m = '+' ∨ m = '!')) p.1 = true := by
  intro p hp
  obtain ⟨e, _, hp⟩ := List.mem_flatMap.mp hp
  obtain ⟨op, X, Y⟩ := e
  cases op <;> simp only [rightPairs, List.mem_map, List.not_mem_nil] at hp
  all_goals (obtain ⟨t, _, rfl⟩ := hp; simp)

/-! ## which sides are written -/

theorem relevant_false {es : List (Edit Line)} {op : EditOp} (h : hasRelevantEdits es op = false) :
    ∀ e ∈ es, e.op ≠ op ∧ e.op ≠ .replace := by
  intro e he
  unfold hasRelevantEdits at h
  have := List.any_eq_false.mp h e he
  simpa using this

theorem relevant_true {es : List (Edit Line)} {op : EditOp} (h : hasRelevantEdits es op = true) :
    ∃ e ∈ es, e.op = op ∨ e.op = .replace := by
  unfold hasRelevantEdits at h
  obtain ⟨e, he, h⟩ := List.any_eq_true.mp h
  exact ⟨e, he, by simpa using h⟩

theorem leftPairs_ne_nil {es : List (Edit Line)} (hed : ∀ e ∈ es, EditOK e)
    (h : hasRelevantEdits es .drop = true) : es.flatMap leftPairs ≠ [] := by
  obtain ⟨e, he, h⟩ := relevant_true h
  intro hn
  have h0 := List.flatMap_eq_nil_iff.mp hn e he
  have hk := hed e he
  obtain ⟨op, X, Y⟩ := e
  rcases h with h | h <;> simp only at h <;> subst h <;>
    simp only [EditOK] at hk <;> simp [leftPairs, hk.1] at h0

theorem rightPairs_ne_nil {es : List (Edit Line)} (hed : ∀ e ∈ es, EditOK e)
    (h : hasRelevantEdits es .copy = true) : es.flatMap rightPairs ≠ [] := by
  obtain ⟨e, he, h⟩ := relevant_true h
  intro hn
  have h0 := List.flatMap_eq_nil_iff.mp hn e he
  have hk := hed e he
  obtain ⟨op, X, Y⟩ := e
  rcases h with h | h <;> simp only at h <;> subst h <;>
    simp only [EditOK] at hk
  · simp [rightPairs, hk.1] at h0
  · simp [rightPairs, hk.2] at h0

/-! ## one hunk of the applier -/

/-- what follows a hunk: nothing, or the next hunk -/
def CtxStart (rest : List Line) : Prop := rest = [] ∨ ∃ t, rest = DiffApply.stars :: t

theorem side_not_new (m : Char) (t : Line) :
    (['-', '-', '-', ' '] : Line).isPrefixOf (m :: ' ' :: t) = false := by
  simp [List.isPrefixOf]

theorem side_ne_stars (m : Char) (t : Line) : (m :: ' ' :: t) ≠ DiffApply.stars := by
  intro h
  have : DiffApply.stars = '*' :: '*' :: List.replicate 13 '*' := rfl
  rw [this] at h
  simp at h

theorem ctx_loop_both (L : List Line) (f : Nat) (s s' : DiffApply.St) (l1 l2 : Line)
    (a na c nc : Nat) (o n : List (Char × Line)) (rest : List Line)
    (h1 : DiffApply.parseContextRange ['*', '*', '*', ' '] [' ', '*', '*', '*', '*'] l1 = some (a, na))
    (h2 : DiffApply.parseContextRange ['-', '-', '-', ' '] [' ', '-', '-', '-', '-'] l2 = some (c, nc))
    (ho : o ≠ []) (hn : n ≠ [])
    (oko : ∀ p ∈ o, (fun m : Char => decide (m = ' ' ∨ m = '-' ∨ m = '!')) p.1 = true)
    (okn : ∀ p ∈ n, (fun m : Char => decide (m = ' ' ∨ m = '+' ∨ m = '!')) p.1 = true)
    (hna : o.length = na) (hnc : n.length = nc)
    (hh : s.hunk L a (o.map (·.2)) (n.map (·.2)) c = some s') :
    DiffApply.applyContextLoop L (f + 1)
        (DiffApply.stars :: l1 :: (sideLines o ++ l2 :: (sideLines n ++ rest))) s
      = DiffApply.applyContextLoop L f rest s' := by
  have co := contextSide_pairs (fun m : Char => decide (m = ' ' ∨ m = '-' ∨ m = '!')) o oko (l2 :: (sideLines n ++ rest))
  have cn := contextSide_pairs (fun m : Char => decide (m = ' ' ∨ m = '+' ∨ m = '!')) n okn rest
  obtain ⟨p, o', rfl⟩ := List.exists_cons_of_ne_nil ho
  obtain ⟨q, n', rfl⟩ := List.exists_cons_of_ne_nil hn
  subst hna hnc
  simp only [sideLines_cons_append] at co cn ⊢
  rw [DiffApply.applyContextLoop]
  simp only [ne_eq, not_true_eq_false, if_false, h1, side_not_new, Bool.false_eq_true, co,
    Option.map, h2, side_ne_stars, cn, List.length_map, or_self, hh]

theorem ctx_loop_old (L : List Line) (f : Nat) (s s' : DiffApply.St) (l1 l2 : Line)
    (a na c nc : Nat) (o : List (Char × Line)) (rest : List Line)
    (h1 : DiffApply.parseContextRange ['*', '*', '*', ' '] [' ', '*', '*', '*', '*'] l1 = some (a, na))
    (h2 : DiffApply.parseContextRange ['-', '-', '-', ' '] [' ', '-', '-', '-', '-'] l2 = some (c, nc))
    (ho : o ≠ [])
    (oko : ∀ p ∈ o, (fun m : Char => decide (m = ' ' ∨ m = '-' ∨ m = '!')) p.1 = true)
    (hna : o.length = na) (hnc : (ctxOf o).length = nc) (hrest : CtxStart rest)
    (hh : s.hunk L a (o.map (·.2)) (ctxOf o) c = some s') :
    DiffApply.applyContextLoop L (f + 1)
        (DiffApply.stars :: l1 :: (sideLines o ++ l2 :: rest)) s
      = DiffApply.applyContextLoop L f rest s' := by
  have co := contextSide_pairs (fun m : Char => decide (m = ' ' ∨ m = '-' ∨ m = '!')) o oko (l2 :: rest)
  obtain ⟨p, o', rfl⟩ := List.exists_cons_of_ne_nil ho
  subst hna
  simp only [ctxOf] at hh hnc
  simp only [sideLines_cons_append] at co ⊢
  rw [DiffApply.applyContextLoop]
  rcases hrest with rfl | ⟨t, rfl⟩
  · simp only [ne_eq, not_true_eq_false, if_false, h1, side_not_new, Bool.false_eq_true, co,
      Option.map, h2, List.length_map, hnc, or_self, hh]
  · simp only [ne_eq, not_true_eq_false, if_false, h1, side_not_new, Bool.false_eq_true, co,
      Option.map, h2, if_true, List.length_map, hnc, or_self, hh]

theorem ctx_loop_new (L : List Line) (f : Nat) (s s' : DiffApply.St) (l1 l2 : Line)
    (a na c nc : Nat) (n : List (Char × Line)) (rest : List Line)
    (h1 : DiffApply.parseContextRange ['*', '*', '*', ' '] [' ', '*', '*', '*', '*'] l1 = some (a, na))
    (h2 : DiffApply.parseContextRange ['-', '-', '-', ' '] [' ', '-', '-', '-', '-'] l2 = some (c, nc))
    (hl2 : (['-', '-', '-', ' '] : Line).isPrefixOf l2 = true)
    (hn : n ≠ [])
    (okn : ∀ p ∈ n, (fun m : Char => decide (m = ' ' ∨ m = '+' ∨ m = '!')) p.1 = true)
    (hna : (ctxOf n).length = na) (hnc : n.length = nc)
    (hh : s.hunk L a (ctxOf n) (n.map (·.2)) c = some s') :
    DiffApply.applyContextLoop L (f + 1)
        (DiffApply.stars :: l1 :: l2 :: (sideLines n ++ rest)) s
      = DiffApply.applyContextLoop L f rest s' := by
  have cn := contextSide_pairs (fun m : Char => decide (m = ' ' ∨ m = '+' ∨ m = '!')) n okn rest
  obtain ⟨q, n', rfl⟩ := List.exists_cons_of_ne_nil hn
  subst hnc
  simp only [ctxOf] at hh hna
  simp only [sideLines_cons_append] at cn ⊢
  rw [DiffApply.applyContextLoop]
  simp only [ne_eq, not_true_eq_false, if_false, h1, hl2, if_true,
    Option.map, h2, side_ne_stars, cn, List.length_map, hna, or_self, hh]

/-! ## one chunk -/

theorem contextChunk_append (c : Chunk Line) (rest : List Line) :
    contextChunk c ++ rest
      = DiffApply.stars :: (str "*** " ++ dspan c.lstart c.lend ++ str " ****") ::
        ((if hasRelevantEdits c.edits .drop then sideLines (c.edits.flatMap leftPairs) else []) ++
          (str "--- " ++ dspan c.rstart c.rend ++ str " ----") ::
          ((if hasRelevantEdits c.edits .copy then sideLines (c.edits.flatMap rightPairs) else [])
            ++ rest)) := by
  have e : str "***************" = DiffApply.stars := by decide
  simp only [contextChunk, flatMap_contextLeft, flatMap_contextRight, e, List.cons_append,
    List.nil_append, List.append_assoc]

theorem new_header_prefix (x : Line) :
    (['-', '-', '-', ' '] : Line).isPrefixOf (str "--- " ++ x) = true := by
  have a : str "--- " = ['-', '-', '-', ' '] := rfl
  rw [a]; simp [List.isPrefixOf]

theorem ctx_only_old {es : List (Edit Line)} (h : hasRelevantEdits es .copy = false) :
    ∀ e ∈ es, e.op = .drop ∨ e.op = .emit := by
  intro e he
  have := relevant_false h e he
  cases hop : e.op <;> simp [hop] at this ⊢

theorem ctx_only_new {es : List (Edit Line)} (h : hasRelevantEdits es .drop = false) :
    ∀ e ∈ es, e.op = .copy ∨ e.op = .emit := by
  intro e he
  have := relevant_false h e he
  cases hop : e.op <;> simp [hop] at this ⊢

theorem ctx_chunk_step {L R : List Line} (c : Chunk Line) (rest : List Line) (f : Nat)
    (s : DiffApply.St) (lp rp : Nat) (hat : At L R s lp rp)
    (g : GapEq L R lp rp c.lstart c.rstart) (hc : ChunkOK c L R)
    (hed : ∀ e ∈ c.edits, EditOK e) (hch : ∃ e ∈ c.edits, e.op ≠ .emit) (hrest : CtxStart rest) :
    ∃ s', DiffApply.applyContextLoop L (f + 1) (contextChunk c ++ rest) s
        = DiffApply.applyContextLoop L f rest s' ∧ At L R s' c.lend c.rend := by
  have hl1 := hc.l1; have hl2 := hc.l2; have hl3 := hc.l3
  have hr1 := hc.r1; have hr2 := hc.r2; have hr3 := hc.r3
  have hat' := hat.gap g (by omega) (by omega)
  have lenc : (consumed c.edits).length = c.lend - c.lstart := by
    rw [hc.cons, length_span _ hl1 hl3]
  have lenp : (produced c.edits).length = c.rend - c.rstart := by
    rw [hc.prod, length_span _ hr1 hr3]
  have e1 : c.lstart + (consumed c.edits).length = c.lend := by omega
  have e2 : c.rstart + (produced c.edits).length = c.rend := by omega
  obtain ⟨s', hh, hat''⟩ := hat'.hunk (consumed c.edits) (produced c.edits)
    (by rw [e1]; exact hc.cons) (by rw [e2]; exact hc.prod) (by omega) (by omega)
  rw [e1, e2] at hat''
  refine ⟨s', ?_, hat''⟩
  have p1 := ctx_parse_old c.lstart c.lend hl1 hl2
  have p2 := ctx_parse_new c.rstart c.rend hr1 hr2
  have lo : (c.edits.flatMap leftPairs).length = c.lend - c.lstart := by
    rw [← lenc, ← flatMap_leftPairs_snd, List.length_map]
  have ln : (c.edits.flatMap rightPairs).length = c.rend - c.rstart := by
    rw [← lenp, ← flatMap_rightPairs_snd, List.length_map]
  rw [contextChunk_append]
  by_cases hd : hasRelevantEdits c.edits .drop = true
  · by_cases hcp : hasRelevantEdits c.edits .copy = true
    · rw [if_pos hd, if_pos hcp]
      exact ctx_loop_both L f s s' _ _ _ _ _ _ _ _ rest p1 p2 (leftPairs_ne_nil hed hd)
        (rightPairs_ne_nil hed hcp) (leftPairs_ok _) (rightPairs_ok _) lo ln
        (by rw [flatMap_leftPairs_snd, flatMap_rightPairs_snd]; exact hh)
    · rw [if_pos hd, if_neg hcp, List.nil_append]
      have hno := ctx_only_old (Bool.not_eq_true _ ▸ hcp)
      have hx := flatMap_leftPairs_ctx c.edits hno
      exact ctx_loop_old L f s s' _ _ _ _ _ _ _ rest p1 p2 (leftPairs_ne_nil hed hd)
        (leftPairs_ok _) lo (by rw [hx]; exact lenp) hrest
        (by rw [flatMap_leftPairs_snd, hx]; exact hh)
  · have hno := ctx_only_new (Bool.not_eq_true _ ▸ hd)
    by_cases hcp : hasRelevantEdits c.edits .copy = true
    · rw [if_neg hd, if_pos hcp, List.nil_append]
      have hx := flatMap_rightPairs_ctx c.edits hno
      exact ctx_loop_new L f s s' _ _ _ _ _ _ _ rest p1 p2 (new_header_prefix _)
        (rightPairs_ne_nil hed hcp) (rightPairs_ok _) (by rw [hx]; exact lenc) ln
        (by rw [flatMap_rightPairs_snd, hx]; exact hh)
    · exfalso
      have hno' := ctx_only_old (Bool.not_eq_true _ ▸ hcp)
      obtain ⟨e, he, hne⟩ := hch
      rcases hno e he with h | h <;> rcases hno' e he with h' | h' <;> rw [h] at h' <;>
        first | exact hne h | cases h'

/-! ## all chunks -/

theorem ctxStart_flatMap (cs : List (Chunk Line)) : CtxStart (cs.flatMap contextChunk) := by
  cases cs with
  | nil => exact Or.inl rfl
  | cons c cs =>
    right
    rw [List.flatMap_cons, contextChunk_append]
    exact ⟨_, rfl⟩

theorem applyContextLoop_chunks {L R : List Line} : ∀ (cs : List (Chunk Line)) (f : Nat)
    (s : DiffApply.St) (lp rp : Nat), At L R s lp rp → AllOK cs L R → Aligned L R lp rp cs →
    (∀ c ∈ cs, ∀ e ∈ c.edits, EditOK e) → (∀ c ∈ cs, ∃ e ∈ c.edits, e.op ≠ .emit) →
    (cs.flatMap contextChunk).length + 1 ≤ f →
    DiffApply.applyContextLoop L f (cs.flatMap contextChunk) s = some R
  | [], f, s, lp, rp, hat, _, hal, _, _, hf => by
    obtain ⟨f0, rfl⟩ : ∃ f0, f = f0 + 1 := ⟨f - 1, by omega⟩
    rw [List.flatMap_nil, DiffApply.applyContextLoop, hat.finish hal]
  | c :: cs, f, s, lp, rp, hat, hok, hal, hed, hch, hf => by
    obtain ⟨f0, rfl⟩ : ∃ f0, f = f0 + 1 := ⟨f - 1, by omega⟩
    obtain ⟨g, hal'⟩ := hal
    rw [List.flatMap_cons] at hf ⊢
    obtain ⟨s', h, hat'⟩ := ctx_chunk_step c (cs.flatMap contextChunk) f0 s lp rp hat g
      (hok c (List.mem_cons_self ..)) (hed c (List.mem_cons_self ..)) (hch c (List.mem_cons_self ..))
      (ctxStart_flatMap cs)
    rw [h]
    have hlen : 1 ≤ (contextChunk c).length := by
      rw [← List.append_nil (contextChunk c), contextChunk_append]
      simp only [List.length_cons]; omega
    exact applyContextLoop_chunks cs f0 s' c.lend c.rend hat'
      (fun d hd => hok d (List.mem_cons_of_mem _ hd)) hal'
      (fun d hd => hed d (List.mem_cons_of_mem _ hd)) (fun d hd => hch d (List.mem_cons_of_mem _ hd))
      (by rw [List.length_append] at hf; omega)

theorem applyContext_stars (t : List Line) (L : List Line) :
    DiffApply.applyContext (DiffApply.stars :: t) L
      = DiffApply.applyContextLoop L ((DiffApply.stars :: t).length + 1) (DiffApply.stars :: t) ⟨[], 1⟩ := by
  simp only [DiffApply.applyContext, if_true]

theorem applyContext_header (h1 h2 : Line) (t : List Line) (L : List Line) (hs : h1 ≠ DiffApply.stars)
    (p1 : (['*', '*', '*', ' '] : Line).isPrefixOf h1 = true)
    (p2 : (['-', '-', '-', ' '] : Line).isPrefixOf h2 = true) :
    DiffApply.applyContext (h1 :: h2 :: t) L
      = DiffApply.applyContextLoop L (t.length + 1) t ⟨[], 1⟩ := by
  simp only [DiffApply.applyContext, if_neg hs, DiffApply.skipHeader, p1, p2, and_self, if_true]

theorem applyContext_flatMap {L R : List Line} (cs : List (Chunk Line)) (hok : AllOK cs L R)
    (hal : Aligned L R 1 1 cs) (hed : ∀ c ∈ cs, ∀ e ∈ c.edits, EditOK e)
    (hch : ∀ c ∈ cs, ∃ e ∈ c.edits, e.op ≠ .emit) :
    DiffApply.applyContextLoop L ((cs.flatMap contextChunk).length + 1) (cs.flatMap contextChunk)
      ⟨[], 1⟩ = some R :=
  applyContextLoop_chunks cs _ _ 1 1 (At.init L R) hok hal hed hch (Nat.le_refl _)

theorem applyContext_chunks_none (cs : List (Chunk Line)) (L R : List Line)
    (hok : AllOK cs L R) (hal : Aligned L R 1 1 cs)
    (hed : ∀ c ∈ cs, ∀ e ∈ c.edits, EditOK e)
    (hch : ∀ c ∈ cs, ∃ e ∈ c.edits, e.op ≠ .emit) :
    DiffApply.applyContext (context cs none) L = some R := by
  have hmain := applyContext_flatMap cs hok hal hed hch
  cases cs with
  | nil => exact hmain
  | cons c cs =>
    have hctx : context (c :: cs) none = (c :: cs).flatMap contextChunk := by simp [context]
    rw [hctx]
    rw [List.flatMap_cons, contextChunk_append] at hmain ⊢
    rw [applyContext_stars]
    exact hmain

theorem header_ne_stars (x : Line) : str "*** " ++ x ≠ DiffApply.stars := by
  intro h
  have a : str "*** " = ['*', '*', '*', ' '] := rfl
  have b : DiffApply.stars = '*' :: '*' :: '*' :: '*' :: List.replicate 11 '*' := rfl
  rw [a, b] at h
  simp at h

theorem old_header_prefix (x : Line) :
    (['*', '*', '*', ' '] : Line).isPrefixOf (str "*** " ++ x) = true := by
  have a : str "*** " = ['*', '*', '*', ' '] := rfl
  rw [a]; simp [List.isPrefixOf]

/-- **C14 (apply), context format**: the reference applier run on what `Context` writes for
correct, aligned chunks returns the right-hand text. -/
theorem applyContext_chunks (cs : List (Chunk Line)) (L R : List Line) (fi : Option FileInfo)
    (hok : AllOK cs L R) (hal : Aligned L R 1 1 cs)
    (hed : ∀ c ∈ cs, ∀ e ∈ c.edits, EditOK e)
    (hch : ∀ c ∈ cs, ∃ e ∈ c.edits, e.op ≠ .emit) :
    DiffApply.applyContext (context cs fi) L = some R := by
  cases fi with
  | none => exact applyContext_chunks_none cs L R hok hal hed hch
  | some fi =>
    have hmain := applyContext_flatMap cs hok hal hed hch
    cases cs with
    | nil => exact hmain
    | cons c cs =>
      obtain ⟨x, hx⟩ : ∃ x, fmtFileHeader (str "*** ") (orDefault fi.left ['a']) fi.leftTime
          = str "*** " ++ x := ⟨_, List.append_assoc ..⟩
      obtain ⟨y, hy⟩ : ∃ y, fmtFileHeader (str "--- ") (orDefault fi.right ['b']) fi.rightTime
          = str "--- " ++ y := ⟨_, List.append_assoc ..⟩
      have hctx : context (c :: cs) (some fi)
          = (str "*** " ++ x) :: (str "--- " ++ y) :: (c :: cs).flatMap contextChunk := by
        simp [context, hx, hy]
      rw [hctx, applyContext_header _ _ _ _ (header_ne_stars _) (old_header_prefix _)
        (new_header_prefix _)]
      exact hmain

end MdsVerif.Proofs.MdiffApply
