import MdsVerif.Proofs.StreeSet
/-!
# C01: the tree object (`T`) and whole histories

`WF`, the operations of `T` against the list operations, the queries, the register file, and
the one-step refinement `step_refines` from which `C01_history` follows by induction.
-/
namespace MdsVerif.Proofs.Stree
open MdsVerif.Model.Stree MdsVerif.Spec MdsVerif.Gen
open MdsVerif.Spec.SortedSet (Asc ins SortCompact)
open Std (TransCmp OrientedCmp)

variable {α : Type} {cmp : α → α → Ordering}

/-- well-formed tree object: keys strictly ascending in order, `size` is the number of nodes -/
def WF (cmp : α → α → Ordering) (t : T α) : Prop := Asc cmp t.root.toList ∧ t.size = t.root.size

/-! ## Add / Replace / Remove / New on `T` -/

theorem insertTop_ok [TransCmp cmp] (t : T α) (k : α) (rep : Bool) (h : WF cmp t) :
    ∃ t', t.insertTop cmp k rep = some (t', (ins cmp rep k t.root.toList).2) ∧
      t'.root.toList = (ins cmp rep k t.root.toList).1 ∧ WF cmp t' ∧ t'.β = t.β := by
  obtain ⟨q, hq, h1, h2, _⟩ := insert_ok (cmp := cmp) t.lim k rep t.root
    (Int.ofNat (t.lim (Stree.limitArg t.size))) h.1
  refine ⟨{ (t.incSize q.2.1) with root := q.1 }, ?_, h1, ⟨?_, ?_⟩, ?_⟩
  · simp only [T.insertTop, hq, h2]
  · show Asc cmp q.1.toList
    rw [h1]; exact ins_asc rep k h.1
  · show (t.incSize q.2.1).size = q.1.size
    have hl := ins_length (cmp := cmp) rep k t.root.toList
    rw [size_eq_length, h1, hl, ← h2, ← size_eq_length, ← h.2]
    cases q.2.1 <;> simp [T.incSize]
  · show (t.incSize q.2.1).β = t.β
    cases q.2.1 <;> simp [T.incSize]

theorem remove_top_ok [TransCmp cmp] (t : T α) (k : α) (h : WF cmp t) :
    ∃ t', t.remove cmp k = some (t', (SortedSet.remove cmp k t.root.toList).2) ∧
      t'.root.toList = (SortedSet.remove cmp k t.root.toList).1 ∧ WF cmp t' ∧ t'.β = t.β := by
  obtain ⟨h1, h2⟩ := remove_ok (cmp := cmp) k t.root h.1
  have hl := remove_length (cmp := cmp) k t.root.toList
  have hasc : Asc cmp (Model.Stree.remove cmp k t.root).1.toList := by rw [h1]; exact remove_asc k h.1
  have hsz : (Model.Stree.remove cmp k t.root).1.size +
      (if (SortedSet.remove cmp k t.root.toList).2 then 1 else 0) = t.size := by
    rw [size_eq_length, h1, hl, h.2, size_eq_length]
  cases hb : (SortedSet.remove cmp k t.root.toList).2 with
  | false =>
    rw [hb] at hsz
    refine ⟨{ t with root := (Model.Stree.remove cmp k t.root).1 }, ?_, h1, ⟨hasc, ?_⟩, rfl⟩
    · simp only [T.remove, h2, hb]; rfl
    · show t.size = (Model.Stree.remove cmp k t.root).1.size; simp at hsz; omega
  | true =>
    rw [hb] at hsz
    have hs1 : t.size - 1 = (Model.Stree.remove cmp k t.root).1.size := by simp at hsz; omega
    by_cases hr : Stree.deleteRebuild (t.size - 1) (Stree.deleteThreshold t.max t.β) = true
    · obtain ⟨root', hw, hw2⟩ := rewrite_ok (Model.Stree.remove cmp k t.root).1 (t.size - 1) hs1
      refine ⟨{ t with root := root', size := t.size - 1, max := t.size - 1 }, ?_, by rw [hw2, h1],
        ⟨by show Asc cmp root'.toList; rw [hw2]; exact hasc, ?_⟩, rfl⟩
      · simp only [T.remove, h2, hb, hr, hw, if_true]
      · show t.size - 1 = root'.size
        rw [rewrite_size hs1 hw]; exact hs1
    · refine ⟨{ t with root := (Model.Stree.remove cmp k t.root).1, size := t.size - 1 }, ?_, h1,
        ⟨hasc, hs1⟩, rfl⟩
      simp only [T.remove, h2, hb, hr, if_true]; rfl

theorem new_ok {srt : List α → List α} (hs : SortCompact cmp srt) {β : Int} {keys : List α} {t : T α}
    (h : T.new srt β keys = some t) :
    WF cmp t ∧ t.root.toList = SortedSet.newKeys srt keys ∧ t.β = β.toNat := by
  unfold T.new at h
  by_cases hb : Stree.betaOutOfRange β = true
  · simp [hb] at h
  · simp only [hb] at h
    cases keys with
    | nil =>
      simp at h; subst h
      exact ⟨⟨by simp [Asc, Tree.toList], rfl⟩, rfl, rfl⟩
    | cons k ks =>
      simp at h; subst h
      refine ⟨⟨?_, ?_⟩, ?_, rfl⟩
      · show Asc cmp (extract (srt (k :: ks))).toList
        rw [extract_toList]; exact hs.asc _
      · show (srt (k :: ks)).length = (extract (srt (k :: ks))).size
        rw [size_eq_length, extract_toList]
      · show (extract (srt (k :: ks))).toList = _
        rw [extract_toList]; rfl

/-! ## queries -/

theorem getC_ok [TransCmp cmp] (k : α) : ∀ (t : Tree α), Asc cmp t.toList →
    (getC cmp k t).1 = SortedSet.get cmp k t.toList := by
  intro t
  induction t with
  | nil => intro _; simp [getC, SortedSet.get, Tree.toList]
  | node l x r ihl ihr =>
    intro hasc
    simp only [Tree.toList] at hasc
    obtain ⟨hl, hr, hlx, hxr, hlr⟩ := asc_node.mp hasc
    simp only [Tree.toList, SortedSet.get, List.find?_append, List.find?_cons]
    cases hc : cmp k x with
    | lt =>
      have hnone : List.find? (fun y => cmp k y == .eq) r.toList = none := by
        rw [List.find?_eq_none]; intro y hy
        rw [TransCmp.lt_trans hc (hxr y hy)]; decide
      simp only [getC, hc, ihl hl, SortedSet.get, hnone]
      simp
    | gt =>
      have hnone : List.find? (fun y => cmp k y == .eq) l.toList = none := by
        rw [List.find?_eq_none]; intro y hy
        rw [gt_of_lt_gt (hlx y hy) hc]; decide
      simp only [getC, hc, ihr hr, SortedSet.get, hnone]
      simp
    | eq =>
      have hnone : List.find? (fun y => cmp k y == .eq) l.toList = none := by
        rw [List.find?_eq_none]; intro y hy
        rw [gt_of_lt_eq (hlx y hy) hc]; decide
      simp only [getC, hc, hnone]
      simp

theorem minKey_ok : ∀ (t : Tree α), minKey t = t.toList.head? := by
  intro t
  induction t with
  | nil => rfl
  | node l x r ihl _ =>
    cases l with
    | nil => simp [minKey, Tree.toList]
    | node a y b =>
      rw [minKey]
      simp only [ihl, Tree.toList]
      simp

theorem getLast?_append_cons_ne (A : List α) (x : α) {R : List α} (h : R ≠ []) :
    (A ++ x :: R).getLast? = R.getLast? := by
  cases R with
  | nil => exact absurd rfl h
  | cons r0 R' =>
    rw [List.getLast?_append, List.getLast?_cons_cons]
    cases hh : (r0 :: R').getLast? with
    | none => simp at hh
    | some z => simp

theorem maxKey_ok : ∀ (t : Tree α), maxKey t = t.toList.getLast? := by
  intro t
  induction t with
  | nil => rfl
  | node l x r _ ihr =>
    cases r with
    | nil => simp [maxKey, Tree.toList]
    | node a y b =>
      rw [maxKey]
      show maxKey (.node a y b) = (l.toList ++ x :: (Tree.node a y b).toList).getLast?
      rw [ihr, getLast?_append_cons_ne _ _ (by simp [Tree.toList])]

/-- what a consumer makes of a key list: keys are handed over in order until it says stop -/
def visit {σ : Type} (f : Yield σ α) : List α → σ → σ × Bool
  | [], s => (s, true)
  | x :: xs, s =>
    let q := f s x
    if !q.2 then (q.1, false) else visit f xs q.1

theorem visit_append {σ : Type} (f : Yield σ α) : ∀ (A B : List α) (s : σ),
    visit f (A ++ B) s = if !(visit f A s).2 then ((visit f A s).1, false) else visit f B (visit f A s).1 := by
  intro A
  induction A with
  | nil => intro B s; simp [visit]
  | cons a A ih =>
    intro B s
    simp only [List.cons_append, visit]
    by_cases h : (f s a).2 = true
    · simp [h, ih]
    · simp [h]

/-- **iteration**: `inorder` hands the consumer exactly the in-order key list, in order, and
stops when (and only when) the consumer says so -/
theorem inorderF_eq {σ : Type} (f : Yield σ α) : ∀ (t : Tree α) (s : σ),
    inorderF f t s = visit f t.toList s := by
  intro t
  induction t with
  | nil => intro s; rfl
  | node l x r ihl ihr =>
    intro s
    simp only [inorderF, Tree.toList, visit_append, visit, ihl, ihr]

theorem after_append_lt [TransCmp cmp] {k x : α} (hc : cmp k x = .lt) {A B : List α}
    (hB : ∀ b ∈ B, cmp x b = .lt) :
    SortedSet.after cmp k (A ++ x :: B) = SortedSet.after cmp k A ++ x :: B := by
  have hx : cmp x k = .gt := OrientedCmp.gt_iff_lt.mpr hc
  have hBk : ∀ b ∈ B, (cmp b k != .lt) = true := by
    intro b hb
    have : cmp b k = .gt := OrientedCmp.gt_iff_lt.mpr (TransCmp.lt_trans hc (hB b hb))
    rw [this]; decide
  simp only [SortedSet.after, List.filter_append, List.filter_cons, hx]
  rw [List.filter_eq_self.mpr hBk]
  simp

theorem after_append_ge [TransCmp cmp] {k x : α} {A B : List α}
    (hA : ∀ a ∈ A, cmp a k = .lt) :
    SortedSet.after cmp k (A ++ x :: B) = SortedSet.after cmp k (x :: B) := by
  have hAk : ∀ a ∈ A, ¬ (cmp a k != .lt) = true := by
    intro a ha; rw [hA a ha]; decide
  simp only [SortedSet.after, List.filter_append]
  rw [List.filter_eq_nil_iff.mpr hAk]
  simp

theorem inorderAfterF_eq [TransCmp cmp] {σ : Type} (f : Yield σ α) (k : α) :
    ∀ (t : Tree α) (s : σ), Asc cmp t.toList →
      inorderAfterF cmp f k t s = visit f (SortedSet.after cmp k t.toList) s := by
  intro t
  induction t with
  | nil => intro s _; rfl
  | node l x r ihl ihr =>
    intro s hasc
    simp only [Tree.toList] at hasc
    obtain ⟨hl, hr, hlx, hxr, hlr⟩ := asc_node.mp hasc
    have ihl' := ihl s hl
    have ihr' := ihr s hr
    simp only [inorderAfterF] at ihl' ihr' ⊢
    cases hc : cmp k x with
    | lt =>
      have hx : cmp x k = .gt := OrientedCmp.gt_iff_lt.mpr hc
      simp only [pathTo, hc, afterLoop, ihl', Tree.toList, after_append_lt hc hxr, visit_append, visit,
        inorderF_eq, hx]
      simp
    | gt =>
      have hx : cmp x k = .lt := OrientedCmp.gt_iff_lt.mp hc
      have hA : ∀ a ∈ l.toList, cmp a k = .lt := fun a ha => TransCmp.lt_trans (hlx a ha) hx
      have e : SortedSet.after cmp k (x :: r.toList) = SortedSet.after cmp k r.toList := by
        simp [SortedSet.after, List.filter_cons, hx]
      simp only [pathTo, hc, afterLoop, ihr', Tree.toList, after_append_ge hA, e, hx]
      by_cases hv : (visit f (SortedSet.after cmp k r.toList) s).2 = true
      · simp only [hv]
        exact Prod.ext rfl (by simp [hv])
      · have hv' : (visit f (SortedSet.after cmp k r.toList) s).2 = false := by simpa using hv
        simp only [hv']
        exact Prod.ext rfl (by simp [hv'])
    | eq =>
      have hx : cmp x k = .eq := OrientedCmp.eq_symm hc
      have hA : ∀ a ∈ l.toList, cmp a k = .lt := fun a ha => TransCmp.lt_of_lt_of_eq (hlx a ha) hx
      have hBk : ∀ b ∈ r.toList, (cmp b k != .lt) = true := by
        intro b hb
        have : cmp b k = .gt := OrientedCmp.gt_iff_lt.mpr (TransCmp.lt_of_eq_of_lt hc (hxr b hb))
        rw [this]; decide
      have e : SortedSet.after cmp k (x :: r.toList) = x :: r.toList := by
        simp only [SortedSet.after, List.filter_cons, hx]
        rw [List.filter_eq_self.mpr hBk]; simp
      simp only [pathTo, hc, afterLoop, Tree.toList, after_append_ge hA, e, hx, visit, inorderF_eq]
      simp

theorem visit_collect_none : ∀ (l acc : List α), visit (collect none) l acc = (l.reverse ++ acc, true) := by
  intro l
  induction l with
  | nil => intro acc; simp [visit]
  | cons x xs ih => intro acc; simp [visit, collect, ih]

theorem visit_collect_some (j : Nat) : ∀ (l acc : List α),
    (visit (collect (some j)) l acc).1 = (l.take (max (j - acc.length) 1)).reverse ++ acc := by
  intro l
  induction l with
  | nil => intro acc; simp [visit]
  | cons x xs ih =>
    intro acc
    by_cases hc : acc.length + 1 < j
    · have e : max (j - acc.length) 1 = max (j - (x :: acc).length) 1 + 1 := by
        simp only [List.length_cons]; omega
      simp only [visit, collect, List.length_cons, hc, decide_true, Bool.not_true, Bool.false_eq_true,
        if_false]
      rw [ih (x :: acc), e, List.take_succ_cons]
      simp
    · have e : max (j - acc.length) 1 = 1 := by omega
      simp [visit, collect, hc, e]

theorem collect_stopped (stop : Option Nat) (l : List α) :
    (visit (collect stop) l []).1.reverse = SortedSet.stopped stop l := by
  cases stop with
  | none => simp [visit_collect_none, SortedSet.stopped]
  | some j => simp [visit_collect_some, SortedSet.stopped]

/-! ## registers -/

theorem regs_get_set {σ : Type} (rs : Regs σ) (r r' : Nat) (v : σ) :
    (rs.set r v).get r' = if r' = r then some v else rs.get r' := by
  by_cases h : r' = r
  · subst h; simp [Regs.get, Regs.set]
  · have h' : (r == r') = false := by simp; exact fun e => h e.symm
    simp only [Regs.get, Regs.set, List.find?_cons, h', h, if_false]
    congr 1
    induction rs with
    | nil => rfl
    | cons a rs ih =>
      by_cases ha : a.1 = r
      · have : (a.1 == r') = false := by simp [ha]; exact fun e => h e.symm
        simp [List.filter_cons, ha, ih, List.find?_cons, this, h']
      · simp [List.filter_cons, ha, ih, List.find?_cons]

end MdsVerif.Proofs.Stree
