import MdsVerif.Model.Mapset
import MdsVerif.GenFact
import MdsVerif.Spec.MathSet
import Mathlib.Data.List.Nodup
import Mathlib.Data.List.Perm.Subperm
/-!
# Helper lemmas for C18: what each loop of the `mapset` model computes, in terms of membership

`WF s`: the key list is duplicate-free (a Go map holds each key once).
-/
set_option linter.unusedSectionVars false
namespace MdsVerif.Proofs.Mapset
open MdsVerif.Model.Mapset
variable {α : Type} [DecidableEq α] [Inhabited α]

def WF (s : MSet α) : Prop := (elems s).Nodup

@[simp] theorem elems_none : elems (none : MSet α) = [] := rfl
@[simp] theorem elems_some (l : List α) : elems (some l) = l := rfl
@[simp] theorem len_none : len (none : MSet α) = 0 := rfl
@[simp] theorem len_some (l : List α) : len (some l) = l.length := rfl
@[simp] theorem has_iff (s : MSet α) (x : α) : has s x = true ↔ x ∈ elems s := by simp [has]
theorem WF_none : WF (none : MSet α) := List.nodup_nil
theorem WF_some_nil : WF (some [] : MSet α) := List.nodup_nil

theorem len_eq_zero_iff (s : MSet α) : len s = 0 ↔ elems s = [] := by
  simp [len]

/-! ### `add1`, `addItems` -/

theorem mem_add1 {l : List α} {x y : α} : y ∈ add1 l x ↔ y ∈ l ∨ y = x := by
  unfold add1; split
  · constructor
    · exact Or.inl
    · rintro (h | rfl) <;> assumption
  · simp

theorem nodup_add1 {l : List α} (x : α) (h : l.Nodup) : (add1 l x).Nodup := by
  unfold add1; split
  · exact h
  · rename_i hx
    rw [List.nodup_append]
    refine ⟨h, List.nodup_singleton x, ?_⟩
    intro a ha b hb
    simp only [List.mem_singleton] at hb
    subst hb; rintro rfl; exact hx ha

theorem mem_addItems {xs l : List α} {y : α} : y ∈ addItems l xs ↔ y ∈ l ∨ y ∈ xs := by
  induction xs generalizing l with
  | nil => simp [addItems]
  | cons x xs ih =>
    simp only [addItems, ih, mem_add1, List.mem_cons]
    constructor
    · rintro ((h | h) | h)
      · exact Or.inl h
      · exact Or.inr (Or.inl h)
      · exact Or.inr (Or.inr h)
    · rintro (h | h | h)
      · exact Or.inl (Or.inl h)
      · exact Or.inl (Or.inr h)
      · exact Or.inr h

theorem nodup_addItems {xs l : List α} (h : l.Nodup) : (addItems l xs).Nodup := by
  induction xs generalizing l with
  | nil => exact h
  | cons x xs ih => exact ih (nodup_add1 x h)

/-- a duplicate-free list is reproduced unchanged -/
theorem addItems_nodup_eq {xs l : List α} (h : (l ++ xs).Nodup) : addItems l xs = l ++ xs := by
  induction xs generalizing l with
  | nil => simp [addItems]
  | cons x xs ih =>
    have hx : x ∉ l := by
      intro hx
      rw [List.nodup_append] at h
      exact h.2.2 x hx x (List.mem_cons_self) rfl
    have : add1 l x = l ++ [x] := by simp [add1, hx]
    simp only [addItems, this]
    rw [ih (by simpa using h)]
    simp

/-! ### the `Remove`/`RemoveAll` loop -/

@[simp] theorem removeLoop_none (xs : List α) : removeLoop (none : MSet α) xs = none := by
  cases xs <;> simp [removeLoop]

theorem removeLoop_some (xs l : List α) (h : l.Nodup) :
    ∃ l', removeLoop (some l) xs = some l' ∧ l'.Nodup ∧ ∀ y, y ∈ l' ↔ y ∈ l ∧ y ∉ xs := by
  induction xs generalizing l with
  | nil => exact ⟨l, rfl, h, by simp⟩
  | cons x xs ih =>
    simp only [removeLoop]
    split
    · rename_i h0
      have : l = [] := by simpa using h0
      subst this
      exact ⟨[], rfl, h, by simp⟩
    · obtain ⟨l', h1, h2, h3⟩ := ih (l.erase x) (h.erase x)
      refine ⟨l', by simpa [delete] using h1, h2, ?_⟩
      intro y
      rw [h3, h.mem_erase_iff]
      simp only [List.mem_cons, not_or]
      tauto

/-! ### iteration order -/

theorem order_perm (h l : List α) : (order l h).Perm l := by
  induction h generalizing l with
  | nil => simp [order]
  | cons x h ih =>
    simp only [order]
    split
    · rename_i hx
      exact ((ih (l.erase x)).cons x).trans (List.perm_cons_erase hx).symm
    · exact ih l

/-- every permutation of the keys is a possible iteration order -/
theorem order_of_perm (h l : List α) (p : h.Perm l) : order l h = h := by
  induction h generalizing l with
  | nil => simpa [order] using p.symm.eq_nil
  | cons x h ih =>
    have hx : x ∈ l := p.subset List.mem_cons_self
    simp only [order, hx, if_true]
    rw [ih (l.erase x) (List.cons_perm_iff_perm_erase.mp p).2]

/-! ### `Pop` -/

theorem pop_empty (s : MSet α) (hint : α) (h : len s = 0) : pop s hint = (s, default) := by
  have : elems s = [] := (len_eq_zero_iff s).mp h
  simp [pop, this, order]

theorem pop_nonempty (s : MSet α) (hint : α) (h : len s ≠ 0) :
    (pop s hint).2 ∈ elems s ∧ (pop s hint).1 = delete s (pop s hint).2 ∧
    (hint ∈ elems s → (pop s hint).2 = hint) := by
  cases s with
  | none => simp at h
  | some l =>
    cases l with
    | nil => simp at h
    | cons y l =>
      by_cases hh : hint ∈ y :: l
      · have : order (y :: l) [hint] = hint :: (y :: l).erase hint := by
          simp only [order, hh, if_true]
        simp [pop, this, hh]
      · have : order (y :: l) [hint] = y :: l := by
          simp only [order, hh, if_false]
        simp [pop, this, hh]

theorem mem_delete {s : MSet α} (hw : WF s) (x y : α) : y ∈ elems (delete s x) ↔ y ∈ elems s ∧ y ≠ x := by
  cases s with
  | none => simp [delete]
  | some l =>
    have hw : l.Nodup := hw
    simp only [delete, elems_some]
    rw [hw.mem_erase_iff]; tauto

theorem WF_delete {s : MSet α} (hw : WF s) (x : α) : WF (delete s x) := by
  cases s with
  | none => exact hw
  | some l => exact List.Nodup.erase x hw

theorem len_delete {s : MSet α} (x : α) (hx : x ∈ elems s) : len (delete s x) + 1 = len s := by
  cases s with
  | none => simp at hx
  | some l =>
    simp only [delete, len_some, elems_some] at hx ⊢
    rw [List.length_erase_of_mem hx]
    have : 0 < l.length := List.length_pos_of_mem hx
    omega

/-! ### predicates -/

theorem any_has_iff (l : List α) (t : MSet α) : l.any (has t) = true ↔ ∃ x, x ∈ l ∧ x ∈ elems t := by
  simp [List.any_eq_true]

/-! ### the predicates with the pinned shortcut conditions of `Gen.Mapset` written out

`Model.Mapset` takes the size tests of `Intersects`, `HasAll`, `HasAny`, `IsSubset`, `Equals` from
`Gen.Mapset` (regenerated from mapset.go on every run); the proofs unfold these five functions only
through the lemmas below, which stop compiling when one of the tests changes its value for some sizes (not when
it is merely respelled). -/
section defs
open MdsVerif

/-! the regenerated tests as functions of the (natural-number) sizes — proved extensionally (`gen_fact`), so
`len(s) == 0` and `len(s) < 1`, `len(s) > len(t)` and `len(t) < len(s)` all satisfy them -/
private theorem f_swaps (a b : Nat) : (Gen.Mapset.intersectsSwaps a b = true) = (a > b) := by gen_fact Gen.Mapset.intersectsSwaps
private theorem f_allEmpty (a : Nat) : (Gen.Mapset.hasAllEmpty a = true) = (a = 0) := by gen_fact Gen.Mapset.hasAllEmpty
private theorem f_allResult (a : Nat) : Gen.Mapset.hasAllEmptyResult a = (a == 0) := by gen_fact Gen.Mapset.hasAllEmptyResult
private theorem f_anyEmpty (a : Nat) : (Gen.Mapset.hasAnyEmpty a = true) = (a = 0) := by gen_fact Gen.Mapset.hasAnyEmpty
private theorem f_subEmpty (a : Nat) : (Gen.Mapset.isSubsetEmpty a = true) = (a = 0) := by gen_fact Gen.Mapset.isSubsetEmpty
private theorem f_subTooBig (a b : Nat) : (Gen.Mapset.isSubsetTooBig a b = true) = (a > b) := by gen_fact Gen.Mapset.isSubsetTooBig
private theorem f_differ (a b : Nat) : (Gen.Mapset.equalsDiffer a b = true) = (a ≠ b) := by gen_fact Gen.Mapset.equalsDiffer

theorem intersects_def (s t : MSet α) :
    intersects s t = (let (lo, hi) := if len s > len t then (t, s) else (s, t); (elems lo).any (has hi)) := by
  unfold intersects; simp only [f_swaps]

theorem hasAll_def (s : MSet α) (ts : List α) :
    hasAll s ts = if len s = 0 then ts.length == 0 else ts.all (has s) := by
  unfold hasAll; simp only [f_allEmpty, f_allResult]

theorem hasAny_def (s : MSet α) (ts : List α) :
    hasAny s ts = if len s = 0 then false else ts.any (has s) := by
  unfold hasAny; simp only [f_anyEmpty]

theorem isSubset_def (s t : MSet α) :
    isSubset s t = if len s = 0 then true else if len s > len t then false else (elems s).all (has t) := by
  unfold isSubset; simp only [f_subEmpty, f_subTooBig]

theorem equals_def (s t : MSet α) :
    equals s t = if len s ≠ len t then false else (elems s).all (has t) := by
  unfold equals; simp only [f_differ]
end defs

theorem all_has_iff (l : List α) (t : MSet α) : l.all (has t) = true ↔ ∀ x, x ∈ l → x ∈ elems t := by
  simp [List.all_eq_true]

theorem intersects_iff (s t : MSet α) :
    intersects s t = true ↔ ∃ x, x ∈ elems s ∧ x ∈ elems t := by
  by_cases h : len s > len t
  · have : intersects s t = (elems t).any (has s) := by simp [intersects_def, h]
    rw [this, any_has_iff]
    constructor <;> rintro ⟨x, h1, h2⟩ <;> exact ⟨x, h2, h1⟩
  · have : intersects s t = (elems s).any (has t) := by simp [intersects_def, h]
    rw [this, any_has_iff]

theorem hasAll_iff (s : MSet α) (ts : List α) :
    hasAll s ts = true ↔ ∀ x, x ∈ ts → x ∈ elems s := by
  rw [hasAll_def]
  split
  · rename_i h0
    rw [(len_eq_zero_iff s).mp h0]
    constructor
    · intro h
      have : ts = [] := by simpa using h
      subst this; simp
    · intro h
      have : ts = [] := List.eq_nil_iff_forall_not_mem.mpr (fun a ha => by cases h a ha)
      subst this; rfl
  · exact all_has_iff ts s

theorem hasAny_iff (s : MSet α) (ts : List α) :
    hasAny s ts = true ↔ ∃ x, x ∈ ts ∧ x ∈ elems s := by
  rw [hasAny_def]
  split
  · rename_i h0
    rw [(len_eq_zero_iff s).mp h0]
    simp
  · exact any_has_iff ts s

theorem length_le_of_subset {l₁ l₂ : List α} (d : l₁.Nodup) (h : ∀ x, x ∈ l₁ → x ∈ l₂) :
    l₁.length ≤ l₂.length :=
  (List.subperm_of_subset d h).length_le

theorem isSubset_iff (s t : MSet α) (hs : WF s) :
    isSubset s t = true ↔ ∀ x, x ∈ elems s → x ∈ elems t := by
  rw [isSubset_def]
  split
  · rename_i h0
    rw [(len_eq_zero_iff s).mp h0]
    simp
  · split
    · rename_i hgt
      constructor
      · intro h; cases h
      · intro h
        have := length_le_of_subset hs h
        simp only [len] at hgt
        omega
    · exact all_has_iff _ t

theorem perm_of_same_members {l₁ l₂ : List α} (d₁ : l₁.Nodup) (d₂ : l₂.Nodup)
    (h : ∀ x, x ∈ l₁ ↔ x ∈ l₂) : l₁.Perm l₂ :=
  (List.perm_ext_iff_of_nodup d₁ d₂).mpr h

theorem equals_iff (s t : MSet α) (hs : WF s) (ht : WF t) :
    equals s t = true ↔ ∀ x, x ∈ elems s ↔ x ∈ elems t := by
  rw [equals_def]
  split
  · rename_i hne
    constructor
    · intro h; cases h
    · intro h
      exact absurd (perm_of_same_members hs ht h).length_eq hne
  · rename_i heq
    have heq : (elems s).length = (elems t).length := by
      simpa [len] using heq
    rw [all_has_iff]
    constructor
    · intro h x
      have p : (elems s).Perm (elems t) :=
        (List.subperm_of_subset hs h).perm_of_length_le (by omega)
      exact p.mem_iff
    · intro h x hx; exact (h x).mp hx

/-! ### `Append`, `Slice` -/

theorem append_empty (s : MSet α) (vs : Option (List α)) (h : List α) (h0 : len s = 0) :
    append s vs h = vs := by simp [append, h0]

theorem append_nonempty (s : MSet α) (vs : Option (List α)) (h : List α) (h0 : len s ≠ 0) :
    append s vs h = some (vs.getD [] ++ order (elems s) h) := by simp [append, h0]

theorem slice_empty (s : MSet α) (h : List α) (h0 : len s = 0) : slice s h = none := by
  simp [slice, h0]

theorem slice_nonempty (s : MSet α) (h : List α) (h0 : len s ≠ 0) :
    slice s h = some (order (elems s) h) := by simp [slice, append, h0]

/-! ### `Intersect` -/

theorem minSet_mem (m : MSet α) (ss : List (MSet α)) : minSet m ss = m ∨ minSet m ss ∈ ss := by
  induction ss generalizing m with
  | nil => exact Or.inl rfl
  | cons s ss ih =>
    by_cases hc : len s < len m
    · simp only [minSet, hc, if_true]
      rcases ih s with h | h
      · exact Or.inr (by rw [h]; exact List.mem_cons_self)
      · exact Or.inr (List.mem_cons_of_mem _ h)
    · simp only [minSet, hc, if_false]
      rcases ih m with h | h
      · exact Or.inl h
      · exact Or.inr (List.mem_cons_of_mem _ h)

theorem interLoop_spec (ss : List (MSet α)) (vs out : List α) (hout : out.Nodup) :
    (interLoop ss out vs).Nodup ∧
    ∀ y, y ∈ interLoop ss out vs ↔ y ∈ out ∨ (y ∈ vs ∧ ∀ s, s ∈ ss → y ∈ elems s) := by
  induction vs generalizing out with
  | nil => exact ⟨hout, by simp [interLoop]⟩
  | cons v vs ih =>
    simp only [interLoop]
    split
    · rename_i hall
      have hall : ∀ s, s ∈ ss → v ∈ elems s := by simpa [List.all_eq_true] using hall
      obtain ⟨h1, h2⟩ := ih (add1 out v) (nodup_add1 v hout)
      refine ⟨h1, fun y => ?_⟩
      rw [h2, mem_add1, List.mem_cons]
      constructor
      · rintro ((h | rfl) | ⟨h, h'⟩)
        · exact Or.inl h
        · exact Or.inr ⟨Or.inl rfl, hall⟩
        · exact Or.inr ⟨Or.inr h, h'⟩
      · rintro (h | ⟨rfl | h, h'⟩)
        · exact Or.inl (Or.inl h)
        · exact Or.inl (Or.inr rfl)
        · exact Or.inr ⟨h, h'⟩
    · rename_i hall
      have hall : ¬ ∀ s, s ∈ ss → v ∈ elems s := by simpa [List.all_eq_true] using hall
      obtain ⟨h1, h2⟩ := ih out hout
      refine ⟨h1, fun y => ?_⟩
      rw [h2, List.mem_cons]
      constructor
      · rintro (h | ⟨h, h'⟩)
        · exact Or.inl h
        · exact Or.inr ⟨Or.inr h, h'⟩
      · rintro (h | ⟨rfl | h, h'⟩)
        · exact Or.inl h
        · exact absurd h' hall
        · exact Or.inr ⟨h, h'⟩

theorem intersect_spec (ss : List (MSet α)) :
    ∃ out, intersect ss = ⟨some out, .fresh⟩ ∧ out.Nodup ∧
      (ss = [] → out = []) ∧
      (ss ≠ [] → ∀ y, y ∈ out ↔ ∀ s, s ∈ ss → y ∈ elems s) := by
  cases ss with
  | nil => exact ⟨[], rfl, List.nodup_nil, fun _ => rfl, fun h => absurd rfl h⟩
  | cons s0 rest =>
    obtain ⟨h1, h2⟩ := interLoop_spec (s0 :: rest) (elems (minSet s0 rest)) [] List.nodup_nil
    refine ⟨_, rfl, h1, fun h => (by cases h), fun _ y => ?_⟩
    rw [h2]
    have hmin : minSet s0 rest ∈ s0 :: rest := by
      rcases minSet_mem s0 rest with h | h
      · rw [h]; exact List.mem_cons_self
      · exact List.mem_cons_of_mem _ h
    constructor
    · rintro (h | ⟨_, h⟩)
      · cases h
      · exact h
    · intro h; exact Or.inr ⟨h _ hmin, h⟩

end MdsVerif.Proofs.Mapset
