import MdsVerif.Model.Edit
import MdsVerif.Spec.Subseq
/-!
# `Model.Edit.lcsFunc?` returns a longest common subsequence

Ported from `design-prototypes/LCS.lean` onto the executable model with `*seq` cells: a cell
`Seq` *represents* (`Rep`) the reversed subsequence obtained by following its `prev` pointers and
reading `as[i]`; the row invariant is the textbook one (`row[i]` represents a common subsequence
of the prefixes, of length `lcsLen`).
-/
namespace MdsVerif.Proofs.Lcs
open List MdsVerif.Model.Edit MdsVerif.Spec.Subseq

variable {α : Type}

/-! ## the model functions with the regenerated facts (`Gen.Edit`) written out

The proofs below (and `Proofs.LcsKeyed`) unfold `fillRow`, `collect`, `lcsCore?`, `lcsFunc?` only through
these lemmas; each stops compiling when the corresponding expression of slice/edit.go changes. -/
section facts
open MdsVerif.Gen.Edit

theorem fillRow_cons (eq : α → α → Bool) (b : α) (i : Nat) (a : α) (as' : List α) (pi : Seq) (ps : List Seq)
    (pprev cprev : Seq) :
    fillRow eq b i (a :: as') (pi :: ps) pprev cprev =
      (if eq a b then Seq.node (i - 1) (pprev.n + 1) pprev
       else if cprev.n ≥ pi.n then cprev
       else pi) ::
      fillRow eq b (i + 1) as' ps pi
        (if eq a b then Seq.node (i - 1) (pprev.n + 1) pprev
         else if cprev.n ≥ pi.n then cprev
         else pi) := by
  simp only [fillRow, matchI, matchCount, matchPrev, tieTest, tieThen, tieElse, pickCell, decide_eq_true_eq]

theorem fillRow_nil_left (eq : α → α → Bool) (b : α) (i : Nat) (ps : List Seq) (pprev cprev : Seq) :
    fillRow eq b i [] ps pprev cprev = [] := by
  simp [fillRow]

theorem fillRow_nil_right (eq : α → α → Bool) (b : α) (i : Nat) (as' : List α) (pprev cprev : Seq) :
    fillRow eq b i as' [] pprev cprev = [] := by
  cases as' <;> simp [fillRow]

theorem collect_zero (as : List α) : collect as .zero = some [] := by
  simp [collect, walkGoes]

theorem collect_node (as : List α) (i n : Nat) (prev : Seq) :
    collect as (.node i n prev) =
      if n > 0 then (do let a ← as[i]?; let r ← collect as prev; pure (a :: r)) else some [] := by
  simp only [collect, walkGoes, decide_eq_true_eq, Int.natCast_pos, gt_iff_lt]

theorem lcsCore?_def (eq : α → α → Bool) (as bs : List α) :
    lcsCore? eq as bs =
      (do let last ← (lcsRows eq as bs (List.replicate (as.length + 1) Seq.zero,
                        List.replicate (as.length + 1) Seq.zero)).2[as.length]?
          let out ← collect as last
          pure out.reverse) := by
  simp only [lcsCore?, pBufLen, cBufLen, lastIdx, reverses, if_true]

theorem lcsFunc?_def (eq : α → α → Bool) (as bs : List α) :
    lcsFunc? eq as bs =
      if as.length = 0 ∨ bs.length = 0 then some []
      else if bs.length < as.length then lcsCore? eq bs as
      else lcsCore? eq as bs := by
  simp only [lcsFunc?, lcsNil, lcsSwaps, Bool.or_eq_true, decide_eq_true_eq, Int.natCast_eq_zero, Int.ofNat_lt]

theorem lcsIsNil_def (as bs : List α) : lcsIsNil as bs = decide (as.length = 0 ∨ bs.length = 0) := by
  simp [lcsIsNil, lcsNil]

end facts

/-! ## the reference optimum -/
section spec
variable [DecidableEq α]

omit [DecidableEq α] in
theorem tail_sub {c : α} {s' l : List α} {a : α} (h : (c :: s') <+ (a :: l)) : s' <+ l := by
  rcases List.sublist_cons_iff.mp h with h | ⟨r, hr, hs⟩
  · exact (List.sublist_cons_self c s').trans h
  · cases hr; exact hs

/-- no common subsequence is longer than `lcsLen` -/
theorem lcsLen_upper : ∀ (x y s : List α), s <+ x → s <+ y → s.length ≤ lcsLen x y := by
  intro x y
  fun_induction lcsLen x y with
  | case1 y => intro s h _; simp [List.sublist_nil.mp h]
  | case2 a x => intro s _ h; simp [List.sublist_nil.mp h]
  | case3 x a y ih =>
    intro s hx hy
    cases s with
    | nil => simp
    | cons c s' =>
      have := ih s' (tail_sub hx) (tail_sub hy)
      simp; omega
  | case4 a x b y hab ih1 ih2 =>
    intro s hx hy
    cases s with
    | nil => simp
    | cons c s' =>
      rcases List.sublist_cons_iff.mp hx with h | ⟨r, hr, hs⟩
      · have := ih1 _ h hy; omega
      · cases hr
        rcases List.sublist_cons_iff.mp hy with h | ⟨r, hr, _⟩
        · have := ih2 _ hx h; omega
        · cases hr; exact absurd rfl hab

/-- some common subsequence has length `lcsLen` -/
theorem lcsLen_attained : ∀ (x y : List α), ∃ s, s <+ x ∧ s <+ y ∧ s.length = lcsLen x y := by
  intro x y
  fun_induction lcsLen x y with
  | case1 y => exact ⟨[], by simp, by simp, rfl⟩
  | case2 a x => exact ⟨[], by simp, by simp, rfl⟩
  | case3 x a y ih =>
    obtain ⟨s, h1, h2, h3⟩ := ih
    exact ⟨a :: s, List.cons_sublist_cons.mpr h1, List.cons_sublist_cons.mpr h2, by simp [h3]; omega⟩
  | case4 a x b y hab ih1 ih2 =>
    obtain ⟨s1, h1, h2, h3⟩ := ih1
    obtain ⟨s2, k1, k2, k3⟩ := ih2
    by_cases h : lcsLen (a :: x) y ≤ lcsLen x (b :: y)
    · exact ⟨s1, h1.trans (List.sublist_cons_self a x), h2, by omega⟩
    · exact ⟨s2, k1, k2.trans (List.sublist_cons_self b y), by omega⟩

theorem lcsLen_nil_right (x : List α) : lcsLen x [] = 0 := by cases x <;> simp [lcsLen]

/-- a common subsequence that no common subsequence exceeds has length `lcsLen` -/
theorem length_eq_lcsLen {x y r : List α} (h1 : r <+ x) (h2 : r <+ y)
    (h3 : ∀ s, s <+ x → s <+ y → s.length ≤ r.length) : r.length = lcsLen x y := by
  have hu := lcsLen_upper x y r h1 h2
  obtain ⟨s, s1, s2, s3⟩ := lcsLen_attained x y
  have := h3 s s1 s2
  omega

end spec

/-! ## cells -/

/-- `Rep as cell l`: following `prev` from `cell` and reading `as[i]` yields `l` (last element
of the subsequence first); every `n` field is the length of the list it heads. -/
inductive Rep (as : List α) : Seq → List α → Prop
  | zero : Rep as .zero []
  | node {i : Nat} {a : α} {prev : Seq} {l : List α} :
      as[i]? = some a → Rep as prev l → Rep as (.node i (l.length + 1) prev) (a :: l)

theorem Rep.n_eq {as : List α} {c : Seq} {l : List α} (h : Rep as c l) : c.n = l.length := by
  cases h <;> simp [Seq.n]

theorem Rep.collect_eq {as : List α} {c : Seq} {l : List α} (h : Rep as c l) :
    collect as c = some l := by
  induction h with
  | zero => simp [collect_zero]
  | node ha _ ih => simp [collect_node, ha, ih]

theorem Rep.eq_zero {as : List α} {c : Seq} (h : Rep as c []) : c = .zero := by
  cases h; rfl

variable [DecidableEq α]

/-- cell invariant against reversed prefixes `ra`, `rb` -/
def CellOk (as ra rb : List α) (cell : Seq) : Prop :=
  ∃ l, Rep as cell l ∧ l <+ ra ∧ l <+ rb ∧ l.length = lcsLen ra rb

theorem cellOk_zero (as rb : List α) : CellOk as [] rb .zero :=
  ⟨[], .zero, Sublist.refl _, nil_sublist _, by simp [lcsLen]⟩

theorem CellOk.nil_left {as rb : List α} {c : Seq} (h : CellOk as [] rb c) : c = .zero := by
  obtain ⟨l, hr, h1, _, _⟩ := h
  have : l = [] := List.sublist_nil.mp h1
  subst this
  exact hr.eq_zero

/-- `RowOk`: `row[k]` is a correct cell for (reversed prefix of `as` of length `k`, `rb`) -/
def RowOk (as rb : List α) (row : List Seq) : Prop :=
  row.length = as.length + 1 ∧
  ∀ k (hk : k < row.length), CellOk as (as.take k).reverse rb row[k]

variable {eq : α → α → Bool}

theorem fillRow_ok (heq : ∀ a b, eq a b = true ↔ a = b) (as : List α) (b : α) (rb : List α) :
    ∀ (as' : List α) (ps : List Seq) (pre : List α) (pprev cprev : Seq),
    as = pre ++ as' →
    ps.length = as'.length →
    CellOk as pre.reverse rb pprev → CellOk as pre.reverse (b :: rb) cprev →
    (∀ k (hk : k < ps.length), CellOk as ((as'.take (k+1)).reverse ++ pre.reverse) rb ps[k]) →
    (fillRow eq b (pre.length + 1) as' ps pprev cprev).length = as'.length ∧
    ∀ k (hk : k < (fillRow eq b (pre.length + 1) as' ps pprev cprev).length),
      CellOk as ((as'.take (k+1)).reverse ++ pre.reverse) (b :: rb)
        (fillRow eq b (pre.length + 1) as' ps pprev cprev)[k] := by
  intro as'
  induction as' with
  | nil => intro ps pre pprev cprev _ hl _ _ _; cases ps <;> simp [fillRow_nil_left] at *
  | cons a as' ih =>
    intro ps pre pprev cprev has hl hpp hcp hps
    match ps, hl with
    | pi :: ps, hl =>
    have hpi : CellOk as (a :: pre.reverse) rb pi := by
      have := hps 0 (by simp)
      simpa [List.take] using this
    have hget : as[pre.length]? = some a := by
      rw [has]; simp
    -- the new cell
    have hci : CellOk as (a :: pre.reverse) (b :: rb)
        (if eq a b then Seq.node (pre.length + 1 - 1) (pprev.n + 1) pprev
         else if cprev.n ≥ pi.n then cprev else pi) := by
      obtain ⟨lp, rp, p1, p2, p3⟩ := hpp
      obtain ⟨lc, rc, c1, c2, c3⟩ := hcp
      obtain ⟨lq, rq, q1, q2, q3⟩ := hpi
      by_cases hab : a = b
      · have he : eq a b = true := (heq a b).mpr hab
        subst hab
        simp only [he, if_true, Nat.add_sub_cancel]
        rw [rp.n_eq]
        exact ⟨a :: lp, .node hget rp, List.cons_sublist_cons.mpr p1, List.cons_sublist_cons.mpr p2,
          by simp [lcsLen, p3]; omega⟩
      · have he : eq a b = false := by
          cases h : eq a b
          · rfl
          · exact absurd ((heq a b).mp h) hab
        simp only [he, Bool.false_eq_true, if_false]
        rw [rc.n_eq, rq.n_eq]
        by_cases hge : lc.length ≥ lq.length
        · simp only [if_pos hge]
          refine ⟨lc, rc, c1.trans (List.sublist_cons_self a _), c2, ?_⟩
          rw [lcsLen, if_neg hab]; omega
        · simp only [if_neg hge]
          refine ⟨lq, rq, q1, q2.trans (List.sublist_cons_self b rb), ?_⟩
          rw [lcsLen, if_neg hab]; omega
    have hrec := ih ps (pre ++ [a]) pi _ (by rw [has]; simp) (by simpa using hl)
      (by simpa using hpi) (by simpa using hci) (by
      intro k hk
      have := hps (k+1) (by simp; omega)
      simpa [List.take_succ_cons, List.reverse_cons, List.append_assoc] using this)
    have hlen1 : (pre ++ [a]).length + 1 = pre.length + 1 + 1 := by simp
    rw [hlen1] at hrec
    constructor
    · simp [fillRow_cons, hrec.1]
    · intro k hk
      cases k with
      | zero => simpa [fillRow_cons] using hci
      | succ k =>
        have := hrec.2 k (by simp [fillRow_cons] at hk; omega)
        simpa [fillRow_cons, List.take_succ_cons, List.reverse_cons, List.append_assoc] using this

/-- invariant of the row loop: `c` is the row for `rb`; the stale buffer `p` starts with the sentinel -/
def BufOk (as rb : List α) (pc : List Seq × List Seq) : Prop :=
  RowOk as rb pc.2 ∧ ∃ ps, pc.1 = Seq.zero :: ps

theorem lcsRows_step (heq : ∀ a b, eq a b = true ↔ a = b) (as : List α) (b : α) (rb : List α)
    (p c : List Seq) (h : BufOk as rb (p, c)) :
    BufOk as (b :: rb) (rowStep eq as b (p, c)) := by
  unfold rowStep
  simp only
  obtain ⟨⟨hlen, hcells⟩, ps0, hp⟩ := h
  simp only at hlen hcells hp
  subst hp
  match c, hlen, hcells with
  | p0 :: ps, hlen, hcells =>
  have h0 : CellOk as ([] : List α) rb p0 := by
    have := hcells 0 (by simp)
    simpa [List.take] using this
  have hp0 : p0 = .zero := h0.nil_left
  have hrow := fillRow_ok heq as b rb as ps [] p0 .zero rfl (by simpa using hlen)
    (by simpa using h0) (by simpa using cellOk_zero as (b :: rb)) (by
    intro k hk
    have := hcells (k+1) (by simp; omega)
    simpa using this)
  simp only [List.length_nil, Nat.zero_add, List.reverse_nil, List.append_nil] at hrow
  refine ⟨⟨?_, ?_⟩, ps, by simp [hp0]⟩
  · simp [hrow.1]
  · intro k hk
    cases k with
    | zero => simpa using cellOk_zero as (b :: rb)
    | succ k =>
      have := hrow.2 k (by simp at hk; omega)
      simpa using this

theorem lcsRows_ok (heq : ∀ a b, eq a b = true ↔ a = b) (as : List α) :
    ∀ (bs rb : List α) (pc : List Seq × List Seq),
    BufOk as rb pc → BufOk as (bs.reverse ++ rb) (lcsRows eq as bs pc) := by
  intro bs
  induction bs with
  | nil => intro rb pc h; simpa [lcsRows] using h
  | cons b bs ih =>
    intro rb pc h
    obtain ⟨p, c⟩ := pc
    have := ih (b :: rb) _ (lcsRows_step heq as b rb p c h)
    simpa [lcsRows] using this

theorem init_ok (as : List α) :
    BufOk as [] (List.replicate (as.length + 1) Seq.zero, List.replicate (as.length + 1) Seq.zero) := by
  refine ⟨⟨by simp, ?_⟩, List.replicate as.length Seq.zero, by simp [List.replicate_succ]⟩
  intro k hk
  simp only [List.getElem_replicate]
  exact ⟨[], .zero, nil_sublist _, Sublist.refl _, by simp [lcsLen_nil_right]⟩

/-- the core (after guard and swap) returns a common subsequence that no common subsequence exceeds -/
theorem lcsCore_spec (heq : ∀ a b, eq a b = true ↔ a = b) (as bs : List α) :
    ∃ r, lcsCore? eq as bs = some r ∧ r <+ as ∧ r <+ bs ∧
      ∀ s, s <+ as → s <+ bs → s.length ≤ r.length := by
  have hrows := lcsRows_ok heq as bs [] _ (init_ok as)
  obtain ⟨⟨hlen, hcells⟩, _⟩ := hrows
  simp only [List.append_nil] at hcells
  obtain ⟨l, hrep, c1, c2, c3⟩ := hcells as.length (by omega)
  simp only [List.take_length] at c1 c2 c3
  refine ⟨l.reverse, ?_, ?_, ?_, ?_⟩
  · rw [lcsCore?_def]
    rw [List.getElem?_eq_getElem (by omega)]
    simp [hrep.collect_eq]
  · simpa using (List.reverse_sublist.mpr c1)
  · simpa using (List.reverse_sublist.mpr c2)
  · intro s hs1 hs2
    have := lcsLen_upper as.reverse bs.reverse s.reverse (List.reverse_sublist.mpr hs1)
      (List.reverse_sublist.mpr hs2)
    simp at this ⊢
    omega

/-- **LCSFunc**: never out of range; the result is a common subsequence of both arguments that no
common subsequence exceeds. -/
theorem lcsFunc_spec (heq : ∀ a b, eq a b = true ↔ a = b) (as bs : List α) :
    ∃ r, lcsFunc? eq as bs = some r ∧ r <+ as ∧ r <+ bs ∧
      ∀ s, s <+ as → s <+ bs → s.length ≤ r.length := by
  rw [lcsFunc?_def]
  by_cases h0 : as.length = 0 ∨ bs.length = 0
  · simp only [if_pos h0]
    refine ⟨[], rfl, nil_sublist _, nil_sublist _, ?_⟩
    intro s h1 h2
    rcases h0 with h | h
    · have : as = [] := List.eq_nil_of_length_eq_zero h
      subst this; simp [List.sublist_nil.mp h1]
    · have : bs = [] := List.eq_nil_of_length_eq_zero h
      subst this; simp [List.sublist_nil.mp h2]
  · simp only [if_neg h0]
    by_cases hsw : bs.length < as.length
    · simp only [if_pos hsw]
      obtain ⟨r, h1, h2, h3, h4⟩ := lcsCore_spec heq bs as
      exact ⟨r, h1, h3, h2, fun s a b => h4 s b a⟩
    · simp only [if_neg hsw]
      exact lcsCore_spec heq as bs

end MdsVerif.Proofs.Lcs
