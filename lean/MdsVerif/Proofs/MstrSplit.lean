import MdsVerif.Model.MstrSplit
/-!
# Lemmas about the model of `strings.Split` / `mstr.Split` / `mstr.Lines` (C20.split)
-/
namespace MdsVerif.Proofs.MstrSplit
open MdsVerif.Model.MstrSplit
open MdsVerif.Spec.Bytes (charLen)

/-! ### `index` -/

theorem index_spec (s sep : Bytes) (m : Nat) :
    index s sep = some m ↔ (sep <+: s.drop m ∧ ∀ j, j < m → ¬ sep <+: s.drop j) := by
  induction s generalizing m with
  | nil =>
    cases sep with
    | nil =>
      simp only [index, List.isEmpty_nil, if_true, List.drop_nil, List.prefix_rfl, true_and, Option.some.injEq]
      constructor
      · rintro rfl; intro j hj; omega
      · intro h; rcases Nat.eq_zero_or_pos m with hm | hm
        · exact hm.symm
        · exact absurd trivial (h 0 hm)
    | cons c r => simp [index]
  | cons b t ih =>
    simp only [index]
    by_cases hp : sep.isPrefixOf (b :: t) = true
    · have hp' : sep <+: b :: t := List.isPrefixOf_iff_prefix.mp hp
      simp only [hp, if_true, Option.some.injEq]
      constructor
      · rintro rfl; exact ⟨by simpa using hp', by intro j hj; omega⟩
      · rintro ⟨_, h2⟩; rcases Nat.eq_zero_or_pos m with hm | hm
        · exact hm.symm
        · exact absurd (by simpa using hp') (h2 0 hm)
    · have hp' : ¬ sep <+: b :: t := fun h => hp (List.isPrefixOf_iff_prefix.mpr h)
      simp only [hp, Bool.false_eq_true, if_false]
      cases m with
      | zero => simp [hp']
      | succ m =>
        simp only [Option.map_eq_some_iff, Nat.add_right_cancel_iff, exists_eq_right, ih m, List.drop_succ_cons]
        constructor
        · rintro ⟨h1, h2⟩
          refine ⟨h1, ?_⟩
          intro j hj
          cases j with
          | zero => simpa using hp'
          | succ j => simpa using h2 j (by omega)
        · rintro ⟨h1, h2⟩
          exact ⟨h1, fun j hj => by simpa using h2 (j+1) (by omega)⟩


theorem index_none_iff (s sep : Bytes) : index s sep = none ↔ ∀ j, ¬ sep <+: s.drop j := by
  induction s with
  | nil =>
    cases sep with
    | nil => simp [index]
    | cons c r => simp [index]
  | cons b t ih =>
    simp only [index]
    by_cases hp : sep.isPrefixOf (b :: t) = true
    · have hp' : sep <+: b :: t := List.isPrefixOf_iff_prefix.mp hp
      simp only [hp, if_true, reduceCtorEq, false_iff, Classical.not_forall, Classical.not_not]
      exact ⟨0, by simpa using hp'⟩
    · have hp' : ¬ sep <+: b :: t := fun h => hp (List.isPrefixOf_iff_prefix.mpr h)
      simp only [hp, Bool.false_eq_true, if_false, Option.map_eq_none_iff, ih]
      constructor
      · intro h j
        cases j with
        | zero => simpa using hp'
        | succ j => simpa using h j
      · intro h j; simpa using h (j + 1)

/-- every slice expression `s[:m]`, `s[m+len(sep):]` of the loops is within bounds -/
theorem index_bound {s sep : Bytes} {m : Nat} (h : index s sep = some m) : m + sep.length ≤ s.length := by
  obtain ⟨h1, h2⟩ := (index_spec s sep m).mp h
  have hl := h1.length_le
  rw [List.length_drop] at hl
  by_cases hm : m ≤ s.length
  · by_cases h0 : sep.length = 0
    · omega
    · omega
  · have : sep = [] := List.eq_nil_of_length_eq_zero (by omega)
    subst this
    exact absurd (List.nil_prefix) (h2 0 (by omega))

theorem index_split {s sep : Bytes} {m : Nat} (h : index s sep = some m) :
    s = s.take m ++ (sep ++ s.drop (m + sep.length)) := by
  obtain ⟨⟨r, hr⟩, _⟩ := (index_spec s sep m).mp h
  have : r = s.drop (m + sep.length) := by
    have := congrArg (List.drop sep.length) hr
    simp only [List.drop_left, List.drop_drop] at this
    rw [this]
  rw [← this, hr, List.take_append_drop]

theorem index_take_none {s sep : Bytes} {m : Nat} (hsep : sep ≠ []) (h : index s sep = some m) :
    index (s.take m) sep = none := by
  obtain ⟨_, h2⟩ := (index_spec s sep m).mp h
  rw [index_none_iff]
  intro j hj
  rw [List.drop_take] at hj
  by_cases hjm : j < m
  · exact h2 j hjm (hj.trans (List.take_prefix _ _))
  · have : m - j = 0 := by omega
    rw [this, List.take_zero] at hj
    exact hsep (List.prefix_nil.mp hj)

/-! ### `join` -/

theorem join_cons (sep p : Bytes) (ps : List Bytes) (h : ps ≠ []) :
    join sep (p :: ps) = p ++ (sep ++ join sep ps) := by
  cases ps with
  | nil => exact absurd rfl h
  | cons q r => simp [join]

/-- `join` is `List.intercalate` -/
theorem join_eq_intercalate (sep : Bytes) (ps : List Bytes) : join sep ps = List.intercalate sep ps := by
  induction ps with
  | nil => simp [join, List.intercalate]
  | cons p ps ih =>
    cases ps with
    | nil => simp [join, List.intercalate]
    | cons q r =>
      rw [join_cons _ _ _ (by simp), ih]
      simp [List.intercalate, List.intersperse]

/-! ### the loops of `Count` and `genSplit` -/

theorem loops (sep : Bytes) (hsep : sep ≠ []) : ∀ (f1 f2 : Nat) (s : Bytes) (k : Nat),
    s.length < f1 → s.length < f2 →
    ∃ c, countLoop f1 s sep k = some (k + c) ∧ c ≤ s.length ∧
      ∀ n i, i + c ≤ n → ∃ ps, genSplitLoop f2 s sep n i = some ps ∧ ps.length = c + 1 ∧
        join sep ps = s ∧ ∀ p ∈ ps, index p sep = none := by
  intro f1
  induction f1 with
  | zero => intro f2 s k h; omega
  | succ f ih =>
    intro f2 s k h1 h2
    obtain ⟨g, rfl⟩ : ∃ g, f2 = g + 1 := ⟨f2 - 1, by omega⟩
    cases hi : index s sep with
    | none =>
      refine ⟨0, by simp [countLoop, hi], by omega, ?_⟩
      intro n i _
      refine ⟨[s], ?_, rfl, rfl, ?_⟩
      · simp only [genSplitLoop, hi]; split <;> rfl
      · intro p hp; simp only [List.mem_singleton] at hp; subst hp; exact hi
    | some m =>
      have hb := index_bound hi
      have hpos : 0 < sep.length := List.length_pos_iff.mpr hsep
      have hlen : (s.drop (m + sep.length)).length < s.length := by rw [List.length_drop]; omega
      obtain ⟨c, hc1, hc2, hc3⟩ := ih g (s.drop (m + sep.length)) (k + 1) (by omega) (by omega)
      refine ⟨c + 1, ?_, by rw [List.length_drop] at hc2; omega, ?_⟩
      · simp only [countLoop, hi, hc1]; congr 1; omega
      · intro n i hn
        obtain ⟨ps, hp1, hp2, hp3, hp4⟩ := hc3 n (i + 1) (by omega)
        refine ⟨s.take m :: ps, ?_, by simp [hp2], ?_, ?_⟩
        · have : i < n := by omega
          simp [genSplitLoop, hi, this, hp1]
        · rw [join_cons _ _ _ (by intro h; simp [h] at hp2), hp3]; exact (index_split hi).symm
        · intro p hp
          rcases List.mem_cons.mp hp with rfl | hp
          · exact index_take_none hsep hi
          · exact hp4 p hp

end MdsVerif.Proofs.MstrSplit
