import MdsVerif.Model.MstrSplit
/-!
# Lemmas about the model of `strings.Split` / `mstr.Split` / `mstr.Lines` (C20.split)
-/
set_option linter.unusedSimpArgs false
namespace MdsVerif.Proofs.MstrSplit
open MdsVerif.Model.MstrSplit
open MdsVerif.Spec.Bytes (charLen)

/-! ### `index` -/

theorem index_spec (s sep : Bytes) (m : Nat) :
    index s sep = some m ↔ (sep <+: s.drop m ∧ ∀ j, j < m → ¬ sep <+: s.drop j) := by
  induction s generalizing m with
  | nil =>
    cases sep with
    | nil =>
      simp only [index, List.isEmpty_nil, if_true, List.drop_nil, List.prefix_rfl, true_and, Option.some.injEq]
      constructor
      · rintro rfl; intro j hj; omega
      · intro h; rcases Nat.eq_zero_or_pos m with hm | hm
        · exact hm.symm
        · exact absurd trivial (h 0 hm)
    | cons c r => simp [index]
  | cons b t ih =>
    simp only [index]
    by_cases hp : sep.isPrefixOf (b :: t) = true
    · have hp' : sep <+: b :: t := List.isPrefixOf_iff_prefix.mp hp
      simp only [hp, if_true, Option.some.injEq]
      constructor
      · rintro rfl; exact ⟨by simpa using hp', by intro j hj; omega⟩
      · rintro ⟨_, h2⟩; rcases Nat.eq_zero_or_pos m with hm | hm
        · exact hm.symm
        · exact absurd (by simpa using hp') (h2 0 hm)
    · have hp' : ¬ sep <+: b :: t := fun h => hp (List.isPrefixOf_iff_prefix.mpr h)
      simp only [hp, Bool.false_eq_true, if_false]
      cases m with
      | zero => simp [hp']
      | succ m =>
        simp only [Option.map_eq_some_iff, Nat.add_right_cancel_iff, exists_eq_right, ih m, List.drop_succ_cons]
        constructor
        · rintro ⟨h1, h2⟩
          refine ⟨h1, ?_⟩
          intro j hj
          cases j with
          | zero => simpa using hp'
          | succ j => simpa using h2 j (by omega)
        · rintro ⟨h1, h2⟩
          exact ⟨h1, fun j hj => by simpa using h2 (j+1) (by omega)⟩


theorem index_none_iff (s sep : Bytes) : index s sep = none ↔ ∀ j, ¬ sep <+: s.drop j := by
  induction s with
  | nil =>
    cases sep with
    | nil => simp [index]
    | cons c r => simp [index]
  | cons b t ih =>
    simp only [index]
    by_cases hp : sep.isPrefixOf (b :: t) = true
    · have hp' : sep <+: b :: t := List.isPrefixOf_iff_prefix.mp hp
      simp only [hp, if_true, reduceCtorEq, false_iff, Classical.not_forall, Classical.not_not]
      exact ⟨0, by simpa using hp'⟩
    · have hp' : ¬ sep <+: b :: t := fun h => hp (List.isPrefixOf_iff_prefix.mpr h)
      simp only [hp, Bool.false_eq_true, if_false, Option.map_eq_none_iff, ih]
      constructor
      · intro h j
        cases j with
        | zero => simpa using hp'
        | succ j => simpa using h j
      · intro h j; simpa using h (j + 1)

/-- every slice expression `s[:m]`, `s[m+len(sep):]` of the loops is within bounds -/
theorem index_bound {s sep : Bytes} {m : Nat} (h : index s sep = some m) : m + sep.length ≤ s.length := by
  obtain ⟨h1, h2⟩ := (index_spec s sep m).mp h
  have hl := h1.length_le
  rw [List.length_drop] at hl
  by_cases hm : m ≤ s.length
  · by_cases h0 : sep.length = 0
    · omega
    · omega
  · have : sep = [] := List.eq_nil_of_length_eq_zero (by omega)
    subst this
    exact absurd (List.nil_prefix) (h2 0 (by omega))

theorem index_split {s sep : Bytes} {m : Nat} (h : index s sep = some m) :
    s = s.take m ++ (sep ++ s.drop (m + sep.length)) := by
  obtain ⟨⟨r, hr⟩, _⟩ := (index_spec s sep m).mp h
  have : r = s.drop (m + sep.length) := by
    have := congrArg (List.drop sep.length) hr
    simp only [List.drop_left, List.drop_drop] at this
    rw [this]
  rw [← this, hr, List.take_append_drop]

theorem index_take_none {s sep : Bytes} {m : Nat} (hsep : sep ≠ []) (h : index s sep = some m) :
    index (s.take m) sep = none := by
  obtain ⟨_, h2⟩ := (index_spec s sep m).mp h
  rw [index_none_iff]
  intro j hj
  rw [List.drop_take] at hj
  by_cases hjm : j < m
  · exact h2 j hjm (hj.trans (List.take_prefix _ _))
  · have : m - j = 0 := by omega
    rw [this, List.take_zero] at hj
    exact hsep (List.prefix_nil.mp hj)

/-! ### `join` -/

theorem join_cons (sep p : Bytes) (ps : List Bytes) (h : ps ≠ []) :
    join sep (p :: ps) = p ++ (sep ++ join sep ps) := by
  cases ps with
  | nil => exact absurd rfl h
  | cons q r => simp [join]

/-- `join` is `List.intercalate` -/
theorem join_eq_intercalate (sep : Bytes) (ps : List Bytes) : join sep ps = List.intercalate sep ps := by
  induction ps with
  | nil => simp [join, List.intercalate]
  | cons p ps ih =>
    cases ps with
    | nil => simp [join, List.intercalate]
    | cons q r =>
      rw [join_cons _ _ _ (by simp), ih]
      simp [List.intercalate, List.intersperse]

/-! ### the loops of `Count` and `genSplit` -/

theorem loops (sep : Bytes) (hsep : sep ≠ []) : ∀ (f1 f2 : Nat) (s : Bytes) (k : Nat),
    s.length < f1 → s.length < f2 →
    ∃ c, countLoop f1 s sep k = some (k + c) ∧ c ≤ s.length ∧
      ∀ n i, i + c ≤ n → ∃ ps, genSplitLoop f2 s sep n i = some ps ∧ ps.length = c + 1 ∧
        join sep ps = s ∧ ∀ p ∈ ps, index p sep = none := by
  intro f1
  induction f1 with
  | zero => intro f2 s k h; omega
  | succ f ih =>
    intro f2 s k h1 h2
    obtain ⟨g, rfl⟩ : ∃ g, f2 = g + 1 := ⟨f2 - 1, by omega⟩
    cases hi : index s sep with
    | none =>
      refine ⟨0, by simp [countLoop, hi], by omega, ?_⟩
      intro n i _
      refine ⟨[s], ?_, rfl, rfl, ?_⟩
      · simp only [genSplitLoop, hi]; split <;> rfl
      · intro p hp; simp only [List.mem_singleton] at hp; subst hp; exact hi
    | some m =>
      have hb := index_bound hi
      have hpos : 0 < sep.length := List.length_pos_iff.mpr hsep
      have hlen : (s.drop (m + sep.length)).length < s.length := by rw [List.length_drop]; omega
      obtain ⟨c, hc1, hc2, hc3⟩ := ih g (s.drop (m + sep.length)) (k + 1) (by omega) (by omega)
      refine ⟨c + 1, ?_, by rw [List.length_drop] at hc2; omega, ?_⟩
      · simp only [countLoop, hi, hc1]; congr 1; omega
      · intro n i hn
        obtain ⟨ps, hp1, hp2, hp3, hp4⟩ := hc3 n (i + 1) (by omega)
        refine ⟨s.take m :: ps, ?_, by simp [hp2], ?_, ?_⟩
        · have : i < n := by omega
          simp [genSplitLoop, hi, this, hp1]
        · rw [join_cons _ _ _ (by intro h; simp [h] at hp2), hp3]; exact (index_split hi).symm
        · intro p hp
          rcases List.mem_cons.mp hp with rfl | hp
          · exact index_take_none hsep hi
          · exact hp4 p hp


/-- `strings.Split(s, sep)` for a non-empty separator: `Count(s, sep) + 1` pieces, separator-free,
whose join is `s`; neither the bound `i < n` nor the clamp cuts the loop short, no fuel runs out -/
theorem genSplit_spec (s sep : Bytes) (hsep : sep ≠ []) :
    ∃ c ps, count s sep = some c ∧ genSplit s sep = some ps ∧ ps.length = c + 1 ∧
      join sep ps = s ∧ ∀ p ∈ ps, index p sep = none := by
  obtain ⟨c, hc1, hc2, hc3⟩ := loops sep hsep (s.length + 1) (s.length + 1) s 0 (by omega) (by omega)
  obtain ⟨ps, hp⟩ := hc3 c 0 (by omega)
  have he : sep.isEmpty = false := by cases sep <;> simp_all
  have hcount : count s sep = some c := by simp [count, he, hc1]
  refine ⟨c, ps, hcount, ?_, hp.2⟩
  have hn : (if c + 1 > s.length + 1 then s.length + 1 else c + 1) - 1 = c := by
    split <;> omega
  simp only [genSplit, he, Bool.false_eq_true, if_false, hcount, hn]
  exact hp.1

/-! ### `explode` -/

theorem charLen_take (s : List UInt8) (k : Nat) (h : charLen s = k) (hk : k ≠ 0) :
    k ≤ s.length ∧ charLen (s.take k) = k := by
  rcases s with _ | ⟨b0, _ | ⟨b1, _ | ⟨b2, _ | ⟨b3, t⟩⟩⟩⟩
  all_goals simp only [charLen] at h
  · omega
  · split at h
    · subst h; simp [charLen, *]
    · omega
  · split at h
    · subst h; simp [charLen, *]
    · split at h
      · subst h; simp only [List.take_succ_cons, List.take_zero, charLen, *, ↓reduceIte, Bool.false_eq_true]; simp
      · omega
  · split at h
    · subst h; simp [charLen, *]
    · split at h
      · subst h; simp only [List.take_succ_cons, List.take_zero, charLen, *, ↓reduceIte, Bool.false_eq_true]; simp
      · split at h
        · subst h; simp only [List.take_succ_cons, List.take_zero, charLen, *, ↓reduceIte, Bool.false_eq_true]; simp
        · omega
  · split at h
    · subst h; simp [charLen, *]
    · split at h
      · subst h; simp only [List.take_succ_cons, List.take_zero, charLen, *, ↓reduceIte, Bool.false_eq_true]; simp
      · split at h
        · subst h; simp only [List.take_succ_cons, List.take_zero, charLen, *, ↓reduceIte, Bool.false_eq_true]; simp
        · split at h
          · subst h; simp only [List.take_succ_cons, List.take_zero, charLen, *, ↓reduceIte, Bool.false_eq_true]; simp
          · omega

/-- a piece of an empty-separator split: non-empty, and one well-formed UTF-8 character
(Table 3-7) or a single byte -/
def IsRune (p : Bytes) : Prop := p ≠ [] ∧ (charLen p = p.length ∨ p.length = 1)

theorem runeSize_pos (s : Bytes) : 0 < runeSize s := by
  simp only [runeSize]; split <;> omega

/-- `s[:size]` / `s[size:]` in `explode` are within bounds -/
theorem runeSize_le (s : Bytes) (hs : s ≠ []) : runeSize s ≤ s.length := by
  have hl : 0 < s.length := List.length_pos_iff.mpr hs
  simp only [runeSize]
  split
  · omega
  · rename_i h; exact (charLen_take s _ rfl h).1

theorem take_runeSize_isRune (s : Bytes) (hs : s ≠ []) : IsRune (s.take (runeSize s)) := by
  have hl : 0 < s.length := List.length_pos_iff.mpr hs
  have hle := runeSize_le s hs
  have hpos := runeSize_pos s
  refine ⟨?_, ?_⟩
  · intro h; have := congrArg List.length h; rw [List.length_take, List.length_nil] at this; omega
  · simp only [runeSize] at hle ⊢
    split
    · right; simp; omega
    · rename_i h
      left
      have := charLen_take s _ rfl h
      rw [this.2, List.length_take]; omega

theorem runeCountF_fuel : ∀ (f g : Nat) (s : Bytes), s.length ≤ f → s.length ≤ g →
    runeCountF f s = runeCountF g s := by
  intro f
  induction f with
  | zero =>
    intro g s h _
    have : s = [] := List.eq_nil_of_length_eq_zero (by omega)
    subst this; cases g <;> rfl
  | succ f ih =>
    intro g s h1 h2
    cases s with
    | nil => cases g <;> rfl
    | cons b t =>
      obtain ⟨g', rfl⟩ : ∃ g', g = g' + 1 := ⟨g - 1, by simp at h2; omega⟩
      simp only [runeCountF]
      have hp := runeSize_pos (b :: t)
      have : ((b :: t).drop (runeSize (b :: t))).length ≤ t.length := by
        rw [List.length_drop]; simp; omega
      simp only [List.length_cons] at h1 h2
      rw [ih g' _ (by omega) (by omega)]

theorem runeCount_step (s : Bytes) (hs : s ≠ []) :
    runeCount s = runeCount (s.drop (runeSize s)) + 1 := by
  cases s with
  | nil => exact absurd rfl hs
  | cons b t =>
    have hp := runeSize_pos (b :: t)
    simp only [runeCount, List.length_cons, runeCountF]
    rw [runeCountF_fuel t.length _ _ (by rw [List.length_drop]; simp; omega) (Nat.le_refl _)]

theorem runeCount_eq_zero (s : Bytes) : runeCount s = 0 ↔ s = [] := by
  constructor
  · intro h
    cases s with
    | nil => rfl
    | cons b t => rw [runeCount_step _ (by simp)] at h; omega
  · rintro rfl; rfl

theorem explodeLoop_spec : ∀ (f : Nat) (s : Bytes) (n i : Nat), s ≠ [] → runeCount s + i = n →
    s.length < f →
    ∃ ps, explodeLoop f s n i = some ps ∧ ps.flatten = s ∧ ps.length = runeCount s ∧
      ∀ p ∈ ps, IsRune p := by
  intro f
  induction f with
  | zero => intro s n i _ _ h; omega
  | succ f ih =>
    intro s n i hs hn hf
    have hstep := runeCount_step s hs
    have hle := runeSize_le s hs
    have hpos := runeSize_pos s
    have hds : decodeSize s = runeSize s := by
      cases s with
      | nil => exact absurd rfl hs
      | cons b t => simp [decodeSize]
    by_cases hlt : i + 1 < n
    · have hs' : s.drop (runeSize s) ≠ [] := by
        intro h; rw [h] at hstep; simp only [(runeCount_eq_zero []).mpr rfl] at hstep; omega
      obtain ⟨ps, h1, h2, h3, h4⟩ := ih (s.drop (runeSize s)) n (i + 1) hs' (by omega)
        (by rw [List.length_drop]; omega)
      refine ⟨s.take (runeSize s) :: ps, ?_, ?_, by simp [h3, hstep], ?_⟩
      · simp [explodeLoop, hlt, hds, h1]
      · simp [h2]
      · intro p hp
        rcases List.mem_cons.mp hp with rfl | hp
        · exact take_runeSize_isRune s hs
        · exact h4 p hp
    · have hrc : runeCount s = 1 := by
        have : runeCount s ≠ 0 := fun h => hs ((runeCount_eq_zero s).mp h)
        omega
      have hn0 : n > 0 := by omega
      refine ⟨[s], by simp [explodeLoop, hlt, hn0], by simp, by simp [hrc], ?_⟩
      intro p hp
      simp only [List.mem_singleton] at hp; subst hp
      have hd : p.drop (runeSize p) = [] := (runeCount_eq_zero _).mp (by omega)
      have : p.take (runeSize p) = p := by
        have := List.take_append_drop (runeSize p) p
        rw [hd, List.append_nil] at this; exact this
      rw [← this]; exact take_runeSize_isRune p hs

/-- `strings.Split(s, "")` for `s ≠ ""` -/
theorem explode_spec (s : Bytes) (hs : s ≠ []) :
    ∃ ps, genSplit s [] = some ps ∧ ps.flatten = s ∧ ps.length = runeCount s ∧ ∀ p ∈ ps, IsRune p := by
  obtain ⟨ps, h⟩ := explodeLoop_spec (s.length + 1) s (runeCount s) 0 hs rfl (by omega)
  exact ⟨ps, by simpa [genSplit, explode] using h.1, h.2⟩


/-! ### `TrimSuffix(s, "\n")` and single-byte separators -/

theorem trimSuffixNL_append (t : Bytes) : trimSuffixNL (t ++ [10]) = t := by
  simp [trimSuffixNL, trimSuffix]

theorem trimSuffixNL_cases (s : Bytes) : s = trimSuffixNL s ∨ s = trimSuffixNL s ++ [10] := by
  unfold trimSuffixNL trimSuffix
  split
  · rename_i h
    right
    have := List.take_append_drop (s.length - ([10] : Bytes).length) s
    rw [h.2] at this; exact this.symm
  · left; rfl

theorem index_single_none (c : UInt8) (p : Bytes) : index p [c] = none ↔ c ∉ p := by
  induction p with
  | nil => simp [index]
  | cons b t ih =>
    by_cases h : c = b
    · subst h; simp [index, List.isPrefixOf]
    · have h' : ¬ b = c := fun e => h e.symm
      simp [index, List.isPrefixOf, h, h', ih]

/-- the tail of `join [c] (p :: ps)` after `p` -/
def rest (c : UInt8) (ps : List Bytes) : Bytes := if ps = [] then [] else c :: join [c] ps

theorem join_single_cons (c : UInt8) (p : Bytes) (ps : List Bytes) : join [c] (p :: ps) = p ++ rest c ps := by
  cases ps with
  | nil => simp [join, rest]
  | cons q r => simp [join, rest]

theorem cancel_sepfree (c : UInt8) : ∀ (p q x y : Bytes), c ∉ p → c ∉ q →
    (∀ a r, x = a :: r → a = c) → (∀ a r, y = a :: r → a = c) → p ++ x = q ++ y → p = q ∧ x = y := by
  intro p
  induction p with
  | nil =>
    intro q x y _ hq hx _ h
    cases q with
    | nil => exact ⟨rfl, by simpa using h⟩
    | cons d q' =>
      simp only [List.nil_append, List.cons_append] at h
      have := hx d _ h
      subst this; simp at hq
  | cons a p' ih =>
    intro q x y hp hq hx hy h
    cases q with
    | nil =>
      simp only [List.nil_append, List.cons_append] at h
      have := hy a _ h.symm
      subst this; simp at hp
    | cons d q' =>
      simp only [List.cons_append, List.cons.injEq] at h
      obtain ⟨rfl, h⟩ := h
      obtain ⟨rfl, hxy⟩ := ih q' x y (fun hm => hp (List.mem_cons_of_mem _ hm))
        (fun hm => hq (List.mem_cons_of_mem _ hm)) hx hy h
      exact ⟨rfl, hxy⟩

/-- for a one-byte separator the decomposition into separator-free pieces is unique -/
theorem join_single_unique (c : UInt8) : ∀ (ps qs : List Bytes), ps ≠ [] → qs ≠ [] →
    (∀ p ∈ ps, c ∉ p) → (∀ q ∈ qs, c ∉ q) → join [c] ps = join [c] qs → ps = qs := by
  intro ps
  induction ps with
  | nil => intro qs h; exact absurd rfl h
  | cons p ps' ih =>
    intro qs _ hq hP hQ h
    cases qs with
    | nil => exact absurd rfl hq
    | cons q qs' =>
      rw [join_single_cons, join_single_cons] at h
      have hrest : ∀ (l : List Bytes) a r, rest c l = a :: r → a = c := by
        intro l a r hl
        unfold rest at hl
        split at hl
        · simp at hl
        · simp only [List.cons.injEq] at hl; exact hl.1.symm
      obtain ⟨rfl, hr⟩ := cancel_sepfree c p q _ _ (hP p (by simp)) (hQ q (by simp)) (hrest ps') (hrest qs') h
      by_cases h1 : ps' = []
      · by_cases h2 : qs' = []
        · rw [h1, h2]
        · simp [rest, h1, h2] at hr
      · by_cases h2 : qs' = []
        · simp [rest, h1, h2] at hr
        · simp only [rest, h1, h2, if_false, List.cons.injEq, true_and] at hr
          rw [ih qs' h1 h2 (fun p hp => hP p (List.mem_cons_of_mem _ hp))
            (fun q hq => hQ q (List.mem_cons_of_mem _ hq)) hr]

end MdsVerif.Proofs.MstrSplit
