import MdsVerif.Model.Slice
import MdsVerif.GenFact
/-!
# `Model.Slice` in its pinned form

`Model.Slice` takes its guards, arithmetic and slicing shapes from `Gen.Slice`, which is regenerated
from slice/slice.go on every run.  The lemmas below restate every function of the model with the
expressions of the *pinned* source written out (`chunks_def`, `batchesLoop_succ`, …); the C17 proofs
unfold the model only through them.  When a token of slice.go changes a VALUE, `Gen/Slice.lean` changes and
the lemma for the fact concerned no longer compiles (and `Props.C17.C17_current` names the fact); a neutral
respelling regenerates a different `Gen/Slice.lean` for which every lemma still holds.
Core Lean only.
-/
namespace MdsVerif.Model.Slice
open MdsVerif

/-! ## the regenerated facts in the form the proofs use

Proved extensionally (`gen_fact`, `GenFact.lean`): a lemma says what the fact must be as a function of its
arguments (lengths and indices are the natural numbers of the model), so `len(vs) == 0` and `len(vs) < 1`, or the
two operand orders of `||`, both satisfy it; a changed value does not. -/
section facts
open Gen.Slice
theorem partitionEmpty_iff (n : Nat) : partitionEmpty n = true ↔ n = 0 := by gen_fact partitionEmpty
theorem partitionJ_eq (i : Nat) : partitionJ i = i + 1 := by gen_fact partitionJ
theorem partitionDone_iff (j n : Nat) : partitionDone j n = true ↔ j = n := by gen_fact partitionDone
theorem partitionClips_eq : partitionClips = true := by gen_fact partitionClips
theorem sliceCheckNeg_iff (i : Int) : sliceCheckNeg i = true ↔ i < 0 := by gen_fact sliceCheckNeg
theorem sliceCheckNorm_eq (i n : Int) : sliceCheckNorm i n = i + n := by gen_fact sliceCheckNorm
theorem sliceCheckOk_eq (i n : Int) : sliceCheckOk i n = decide (i ≥ 0 ∧ i ≤ n) := by gen_fact sliceCheckOk
theorem indexCheckNeg_iff (i : Int) : indexCheckNeg i = true ↔ i < 0 := by gen_fact indexCheckNeg
theorem indexCheckNorm_eq (i n : Int) : indexCheckNorm i n = i + n := by gen_fact indexCheckNorm
theorem indexCheckOk_eq (i n : Int) : indexCheckOk i n = decide (i ≥ 0 ∧ i < n) := by gen_fact indexCheckOk
theorem rotateNoop_iff (k n : Int) : rotateNoop k n = true ↔ (k = 0 ∨ k = n) := by gen_fact rotateNoop
theorem rotateGcdFst_eq (k n : Nat) : rotateGcdFst k n = k := by gen_fact rotateGcdFst
theorem rotateGcdSnd_eq (k n : Nat) : rotateGcdSnd k n = n := by gen_fact rotateGcdSnd
theorem rotateNext_eq (i k n : Nat) : rotateNext i k n = (i + k) % n := by gen_fact rotateNext
theorem rotateCycleDone_iff (a j : Nat) : rotateCycleDone a j = true ↔ a = j := by gen_fact rotateCycleDone
theorem gcdContinues_iff (a b : Nat) : gcdContinues a b = true ↔ b ≠ 0 := by gen_fact gcdContinues
theorem gcdNextA_eq (a b : Nat) : gcdNextA a b = b := by gen_fact gcdNextA
theorem gcdNextB_eq (a b : Nat) : gcdNextB a b = a % b := by gen_fact gcdNextB
theorem chunksPanics_iff (n : Int) : chunksPanics n = true ↔ n < 0 := by gen_fact chunksPanics
theorem chunksWhole_iff (n : Int) (len : Nat) : chunksWhole n len = true ↔ (n = 0 ∨ n ≥ len) := by gen_fact chunksWhole
theorem chunksContinues_iff (i len : Nat) : chunksContinues i len = true ↔ i < len := by gen_fact chunksContinues
theorem chunksEnd_eq (i n len : Nat) : chunksEnd i n len = min (i + n) len := by gen_fact chunksEnd
theorem chunksClip_eq : chunksClip = true := by gen_fact chunksClip
theorem batchesPanics_iff (n : Int) : batchesPanics n = true ↔ n < 0 := by gen_fact batchesPanics
theorem batchesNil_iff (n : Int) : batchesNil n = true ↔ n = 0 := by gen_fact batchesNil
theorem batchesCaps_iff (n : Int) (len : Nat) : batchesCaps n len = true ↔ n > len := by gen_fact batchesCaps
theorem batchesCapped_eq (n len : Int) : batchesCapped n len = len := by gen_fact batchesCapped
theorem batchesGuardsEmpty_eq : batchesGuardsEmpty = true := by gen_fact batchesGuardsEmpty
theorem batchesEmpty_iff (n : Int) : batchesEmpty n = true ↔ n = 0 := by gen_fact batchesEmpty
theorem batchesSize_eq (len n : Nat) : batchesSize len n = len / n := by gen_fact batchesSize
theorem batchesRem_eq (len n : Nat) : batchesRem len n = len % n := by gen_fact batchesRem
theorem batchesContinues_iff (i len : Nat) : batchesContinues i len = true ↔ i < len := by gen_fact batchesContinues
theorem batchesEnd_eq (i size : Nat) : batchesEnd i size = i + size := by gen_fact batchesEnd
theorem batchesHasRem_iff (rem : Nat) : batchesHasRem rem = true ↔ rem > 0 := by gen_fact batchesHasRem
theorem batchesEndInc_eq (e : Nat) : batchesEndInc e = e + 1 := by gen_fact batchesEndInc
theorem batchesRemDec_eq (rem : Nat) : batchesRemDec rem = rem - 1 := by gen_fact batchesRemDec
theorem batchesClip_eq : batchesClip = true := by gen_fact batchesClip
theorem headWhole_iff (len : Nat) (n : Int) : headWhole len n = true ↔ (len : Int) < n := by gen_fact headWhole
theorem tailWhole_iff (len : Nat) (n : Int) : tailWhole len n = true ↔ (len : Int) < n := by gen_fact tailWhole
theorem tailStart_eq (len n : Int) : tailStart len n = len - n := by gen_fact tailStart
theorem stripeHas_iff (i : Int) (len : Nat) : stripeHas i len = true ↔ i < len := by gen_fact stripeHas
end facts

variable {α : Type} [Inhabited α]

/-! ## the model functions with the pinned expressions written out -/

theorem partLoop_zero (keep : α → Bool) (vs : List α) (i j : Nat) : partLoop keep 0 vs i j = none := rfl

theorem partLoop_succ (keep : α → Bool) (f : Nat) (vs : List α) (i j : Nat) :
    partLoop keep (f + 1) vs i j =
      if i < vs.length then
        let j := scanUnkept keep vs (vs.length - j) j
        if j = vs.length then some (vs, i)
        else partLoop keep f (swap vs i j) (i + 1) (j + 1)
      else some (vs, i) := by
  rw [partLoop]; simp only [partitionDone_iff]

theorem partitionW_def (keep : α → Bool) (vs : List α) :
    partitionW keep vs =
      (let i := scanKept keep vs vs.length 0
       partLoop keep (vs.length + 1) vs i (i + 1)) := by
  unfold partitionW; simp only [partitionJ_eq]

theorem partition_def (keep : α → Bool) (mem : List α) (h : Hdr) :
    partition keep mem h =
      if h.len = 0 then .ok (mem, h)
      else match partitionW keep (window mem h) with
        | none => .hang
        | some (w, i) => (slice3 h 0 i i).map fun r => (store mem h w, r) := by
  unfold partition; simp only [partitionEmpty_iff, partitionClips_eq, if_true]; rfl

theorem sliceCheck_def (i n : Int) :
    sliceCheck i n = (let i := if i < 0 then i + n else i; (i, decide (i ≥ 0 ∧ i ≤ n))) := by
  unfold sliceCheck; simp only [sliceCheckNeg_iff, sliceCheckNorm_eq, sliceCheckOk_eq]

theorem indexCheck_def (i n : Int) :
    indexCheck i n = (let i := if i < 0 then i + n else i; (i, decide (i ≥ 0 ∧ i < n))) := by
  unfold indexCheck; simp only [indexCheckNeg_iff, indexCheckNorm_eq, indexCheckOk_eq]

theorem gcdLoop_zero (a b : Nat) : gcdLoop 0 a b = none := rfl
theorem gcdLoop_succ (f a b : Nat) :
    gcdLoop (f + 1) a b = if b ≠ 0 then gcdLoop f b (a % b) else some a := by
  rw [gcdLoop]; simp only [gcdContinues_iff, gcdNextA_eq, gcdNextB_eq]

theorem rotInner_zero (n k j : Nat) (ss : List α) (i : Nat) (cur : α) : rotInner n k j 0 ss i cur = none := rfl
theorem rotInner_succ (n k j f : Nat) (ss : List α) (i : Nat) (cur : α) :
    rotInner n k j (f + 1) ss i cur =
      (let next := (i + k) % n
       let nextv := ss.getD next default
       let ss := ss.set next cur
       if next = j then some ss else rotInner n k j f ss next nextv) := by
  rw [rotInner]; simp only [rotateNext_eq, rotateCycleDone_iff]

theorem rotateW_def (ss : List α) (k : Int) :
    rotateW ss k =
      (let n := ss.length
       let (k, ok) := sliceCheck k n
       if !ok then .panic "offset out of range"
       else if k = 0 ∨ k = n then .ok ss
       else
         match gcdLoop (n + 1) k.toNat n with
         | none => .hang
         | some g =>
           match rotOuter n k.toNat g 0 ss with
           | none => .hang
           | some ss => .ok ss) := by
  unfold rotateW; simp only [rotateNoop_iff, rotateGcdFst_eq, rotateGcdSnd_eq]; rfl

theorem chunksLoop_zero (h : Hdr) (n i : Nat) :
    chunksLoop h n 0 i = if i < h.len then .hang else .ok [] := by
  rw [chunksLoop]; simp only [chunksContinues_iff]

theorem chunksLoop_succ (h : Hdr) (n f i : Nat) :
    chunksLoop h n (f + 1) i =
      if i < h.len then
        let e := min (i + n) h.len
        (slice3 h i e e).bind fun c => (chunksLoop h n f e).map (c :: ·)
      else .ok [] := by
  rw [chunksLoop]; simp only [chunksContinues_iff, chunksEnd_eq, chunksClip_eq, if_true]

theorem chunks_def (h : Hdr) (n : Int) :
    chunks h n =
      if n < 0 then .panic "max must be positive"
      else if n = 0 ∨ n ≥ h.len then .ok [h]
      else chunksLoop h n.toNat h.len 0 := by
  unfold chunks; simp only [chunksPanics_iff, chunksWhole_iff]

theorem batchesLoop_zero (h : Hdr) (size i rem : Nat) :
    batchesLoop h size 0 i rem = if i < h.len then .hang else .ok [] := by
  rw [batchesLoop]; simp only [batchesContinues_iff]

theorem batchesLoop_succ (h : Hdr) (size f i rem : Nat) :
    batchesLoop h size (f + 1) i rem =
      if i < h.len then
        let e := i + size
        let (e, rem) := if rem > 0 then (e + 1, rem - 1) else (e, rem)
        (slice3 h i e e).bind fun c => (batchesLoop h size f e rem).map (c :: ·)
      else .ok [] := by
  rw [batchesLoop]
  simp only [batchesContinues_iff, batchesEnd_eq, batchesHasRem_iff, batchesEndInc_eq, batchesRemDec_eq,
    batchesClip_eq, if_true]

theorem batches_def (h : Hdr) (n : Int) :
    batches h n =
      if n < 0 then .panic "n out of range"
      else if n = 0 then .ok []
      else
        let n := if n > h.len then (h.len : Int) else n
        if n = 0 then .ok []
        else batchesLoop h (h.len / n.toNat) h.len 0 (h.len % n.toNat) := by
  unfold batches
  simp only [batchesPanics_iff, batchesNil_iff, batchesCaps_iff, batchesCapped_eq, batchesGuardsEmpty_eq,
    batchesEmpty_iff, batchesSize_eq, batchesRem_eq, Bool.true_and]
  have e : ∀ (m : Int) (a p b : Res (List Hdr)), (if m = 0 then a else if m = 0 then p else b) = if m = 0 then a else b := by
    intro m a p b; by_cases hm : m = 0 <;> simp only [hm, if_true, if_false]
  by_cases h1 : n < 0
  · simp only [h1, if_true]
  · by_cases h2 : n = 0
    · simp only [h1, h2, if_true, if_false]
    · simp only [h1, h2, if_false]
      exact e _ _ _ _

theorem head_def (h : Hdr) (n : Int) : head h n = if (h.len : Int) < n then .ok h else slice2 h 0 n := by
  unfold head; simp only [headWhole_iff]

theorem tail_def (h : Hdr) (n : Int) :
    tail h n = if (h.len : Int) < n then .ok h else slice2 h (h.len - n) h.len := by
  unfold tail; simp only [tailWhole_iff, tailStart_eq]

theorem stripe_nil (i : Int) : stripe ([] : List (List α)) i = .ok [] := rfl
theorem stripe_cons (v : List α) (vs : List (List α)) (i : Int) :
    stripe (v :: vs) i =
      if i < v.length then
        if 0 ≤ i then (stripe vs i).map (v.getD i.toNat default :: ·) else .panic "index"
      else stripe vs i := by
  rw [stripe]; simp only [stripeHas_iff]

end MdsVerif.Model.Slice
