import MdsVerif.GenFact
import MdsVerif.Model.Mbits
import MdsVerif.Spec.Bytes
/-!
# `mbits`: the word loops compute the naive counts and never leave the slice
(helper lemmas for C20)
-/
namespace MdsVerif.Proofs.Mbits
open MdsVerif.Model.Mbits
open MdsVerif.Spec.Bytes (lzCount tzCount zeroed)

theorem clear3_eq (n : Nat) : clear3 n = n - n % 8 := by
  unfold clear3
  rw [show (7 : Nat) = 2 ^ 3 - 1 from rfl, Nat.and_two_pow_sub_one_eq_mod]


/-! ### the model with the pinned expressions of `Gen.Small` written out

`Model.Mbits` takes its chunk boundaries, strides and loop tests from `Gen.Small` (regenerated from
mbits.go on every run); the proofs below unfold the model only through these lemmas, which stop
compiling when one of those tokens changes. -/
section defs
open MdsVerif

theorem zTail_succ (n f i : Nat) (d : Bytes) :
    zTail n (f + 1) i d =
      if i < n then
        match wrByte d i with
        | none => .oob
        | some d' => zTail n f (i + 1) d'
      else .ok d := by
  rw [zTail]
  have e : (Gen.Small.zeroTailCond i n = true) = (i < n) := by gen_fact Gen.Small.zeroTailCond
  simp only [e]; rfl

theorem zWords_succ (n m f i : Nat) (d : Bytes) :
    zWords n m (f + 1) i d =
      if i < m then
        match wrWord d i with
        | none => .oob
        | some d' => zWords n m f (i + 8) d'
      else zTail n (n + 1) i d := by
  rw [zWords]
  have e : (Gen.Small.zeroWordCond i m = true) = (i < m) := by gen_fact Gen.Small.zeroWordCond
  have e8 : Gen.Small.zeroStride = 8 := by gen_fact Gen.Small.zeroStride
  simp only [e, e8]; rfl

theorem zero_def (d : Bytes) :
    zero d = match zWords d.length (clear3 d.length) (d.length + 1) 0 d with
      | .ok d' => .ok (d.length, d')
      | .oob => .oob
      | .fuel => .fuel := rfl

theorem lzTail_succ (d : Bytes) (n f i : Nat) :
    lzTail d n (f + 1) i =
      if i < n then
        match rd d i with
        | none => .oob
        | some b => if b == 0 then lzTail d n f (i + 1) else .ok i
      else .ok i := by
  rw [lzTail]
  have e : (Gen.Small.lzTailCond i n = true) = (i < n) := by gen_fact Gen.Small.lzTailCond
  simp only [e]; rfl

theorem lzWords_succ (d : Bytes) (n m f i : Nat) :
    lzWords d n m (f + 1) i =
      if i < m then
        match wordNZ d i with
        | none => .oob
        | some true => lzInner d (n + 1) i
        | some false => lzWords d n m f (i + 8)
      else lzTail d n (n + 1) i := by
  rw [lzWords]
  have e : (Gen.Small.lzWordCond i m = true) = (i < m) := by gen_fact Gen.Small.lzWordCond
  have e8 : Gen.Small.lzStride = 8 := by gen_fact Gen.Small.lzStride
  simp only [e, e8]; rfl

theorem leadingZeroes_def (d : Bytes) :
    leadingZeroes d = lzWords d d.length (clear3 d.length) (d.length + 1) 0 := rfl

theorem tzInner_succ (d : Bytes) (f : Nat) (i : Int) (nz : Nat) :
    tzInner d (f + 1) i nz =
      match rdI d (i + 7) with
      | none => .oob
      | some b => if b == 0 then tzInner d f (i - 1) (nz + 1) else .ok nz := rfl

theorem tzTail_succ (d : Bytes) (f : Nat) (m : Int) (nz : Nat) :
    tzTail d (f + 1) m nz =
      if m ≥ 0 then
        match rdI d m with
        | none => .oob
        | some b => if b == 0 then tzTail d f (m - 1) (nz + 1) else .ok nz
      else .ok nz := by
  rw [tzTail]
  have e : (Gen.Small.tzTailCond m = true) = (m ≥ 0) := by gen_fact Gen.Small.tzTailCond
  simp only [e]; rfl

theorem tzWords_succ (d : Bytes) (n : Nat) (m : Int) (f : Nat) (i : Int) (nz : Nat) :
    tzWords d n m (f + 1) i nz =
      if i ≥ m then
        match wordNZI d i with
        | none => .oob
        | some true => tzInner d (n + 1) i nz
        | some false => tzWords d n m f (i - 8) (nz + 8)
      else tzTail d (n + 1) (m - 1) nz := by
  rw [tzWords]
  have e : (Gen.Small.tzWordCond i m = true) = (i ≥ m) := by gen_fact Gen.Small.tzWordCond
  have e8 : Gen.Small.tzStride = 8 := by gen_fact Gen.Small.tzStride
  have e9 : Gen.Small.tzCountInc = 8 := by gen_fact Gen.Small.tzCountInc
  simp only [e, e8, e9]; rfl

theorem trailingZeroes_def (d : Bytes) :
    trailingZeroes d =
      tzWords d d.length ((d.length : Int) - (clear3 d.length : Int)) (d.length + 1) ((d.length : Int) - 8) 0 := by
  unfold trailingZeroes
  have hm : ((Gen.Small.tzRagged d.length : Nat) : Int) = (d.length : Int) - (clear3 d.length : Int) := by
    unfold Gen.Small.tzRagged clear3
    have := Nat.and_le_left (n := d.length) (m := 7)
    omega
  have hs : Gen.Small.tzStart (d.length : Int) = (d.length : Int) - 8 := by gen_fact Gen.Small.tzStart
  simp only [hm, hs]
end defs

/-! ### counting facts -/

theorem lzCount_zeros_append (a b : List UInt8) (h : ∀ x ∈ a, x = 0) :
    lzCount (a ++ b) = a.length + lzCount b := by
  induction a with
  | nil => simp
  | cons x a ih =>
    have hx : x = 0 := h x (by simp)
    have := ih (fun y hy => h y (by simp [hy]))
    simp [lzCount, hx, this]; omega

theorem tzCount_append_zeros (a b : List UInt8) (h : ∀ x ∈ b, x = 0) :
    tzCount (a ++ b) = b.length + tzCount a := by
  unfold tzCount
  rw [List.reverse_append, lzCount_zeros_append _ _ (by simpa using h)]
  simp

theorem tzCount_snoc (a : List UInt8) (b : UInt8) :
    tzCount (a ++ [b]) = if b = 0 then tzCount a + 1 else 0 := by
  unfold tzCount; simp [lzCount]

theorem any_false_all_zero (l : List UInt8) (h : l.any (· != 0) = false) : ∀ x ∈ l, x = 0 := by
  intro x hx
  rw [List.any_eq_false] at h
  have := h x hx
  simpa using this

/-! ### LeadingZeroes -/

theorem lzTail_spec (d : List UInt8) : ∀ f i, i ≤ d.length → d.length + 1 ≤ f + i →
    lzTail d d.length f i = .ok (i + lzCount (d.drop i)) := by
  intro f
  induction f with
  | zero => intro i h1 h2; omega
  | succ f ih =>
    intro i h1 h2
    rw [lzTail_succ]
    by_cases hi : i < d.length
    · have hd : d.drop i = d[i] :: d.drop (i + 1) := List.drop_eq_getElem_cons hi
      simp only [hi, if_true, rd, List.getElem?_eq_getElem hi]
      by_cases hb : d[i] = 0
      · simp only [hb, beq_self_eq_true, if_true]
        rw [ih (i + 1) (by omega) (by omega), hd]
        simp [lzCount, hb]; omega
      · have : (d[i] == 0) = false := by simpa using hb
        simp only [this, hd, lzCount, hb, if_false]; simp
    · have : i = d.length := by omega
      subst this
      simp [lzCount]

theorem lzInner_spec (d : List UInt8) : ∀ f i, d.length + 1 ≤ f + i →
    (d.drop i).any (· != 0) = true →
    lzInner d f i = .ok (i + lzCount (d.drop i)) := by
  intro f
  induction f with
  | zero =>
    intro i h2 hany
    have : d.drop i = [] := List.drop_eq_nil_of_le (by omega)
    simp [this] at hany
  | succ f ih =>
    intro i h2 hany
    have hi : i < d.length := by
      apply Decidable.byContradiction; intro hc
      have : d.drop i = [] := List.drop_eq_nil_of_le (by omega)
      simp [this] at hany
    have hd : d.drop i = d[i] :: d.drop (i + 1) := List.drop_eq_getElem_cons hi
    unfold lzInner
    simp only [rd, List.getElem?_eq_getElem hi]
    by_cases hb : d[i] = 0
    · simp only [hb, beq_self_eq_true, if_true]
      rw [hd] at hany
      simp only [List.any_cons, hb, bne_self_eq_false, Bool.false_or] at hany
      rw [ih (i + 1) (by omega) hany, hd]
      simp [lzCount, hb]; omega
    · have : (d[i] == 0) = false := by simpa using hb
      simp only [this, hd, lzCount, hb, if_false]; simp

theorem lzWords_spec (d : List UInt8) : ∀ f i, i ≤ clear3 d.length → i % 8 = 0 → d.length + 1 ≤ f + i →
    lzWords d d.length (clear3 d.length) f i = .ok (i + lzCount (d.drop i)) := by
  intro f
  have hc := clear3_eq d.length
  induction f with
  | zero => intro i h1 _ h3; omega
  | succ f ih =>
    intro i h1 h8 h3
    rw [lzWords_succ]
    by_cases hi : i < clear3 d.length
    · have hi8 : i + 8 ≤ d.length := by omega
      have hsplit : d.drop i = (d.drop i).take 8 ++ d.drop (i + 8) := by
        rw [← List.drop_drop]; exact (List.take_append_drop 8 _).symm
      have hlen : ((d.drop i).take 8).length = 8 := by simp; omega
      simp only [hi, if_true, wordNZ, hi8]
      cases hw : ((d.drop i).take 8).any (· != 0)
      · simp only []
        rw [ih (i + 8) (by omega) (by omega) (by omega)]
        conv => rhs; rw [hsplit, lzCount_zeros_append _ _ (any_false_all_zero _ hw), hlen]
        congr 1; omega
      · simp only []
        apply lzInner_spec d _ _ (by omega)
        rw [hsplit, List.any_append, hw]; rfl
    · have : i = clear3 d.length := by omega
      simp only [hi, if_false]
      exact lzTail_spec d _ _ (by omega) (by omega)

/-! ### Zero -/

theorem zTail_spec : ∀ f i (rest : List UInt8), i + rest.length + 1 ≤ f + i →
    zTail (i + rest.length) f i (List.replicate i 0 ++ rest) = .ok (List.replicate (i + rest.length) 0) := by
  intro f
  induction f with
  | zero => intro i rest h; omega
  | succ f ih =>
    intro i rest h
    rw [zTail_succ]
    cases rest with
    | nil => simp
    | cons b rest =>
      have hi : i < i + (b :: rest).length := by simp
      have hlen : i < (List.replicate i (0 : UInt8) ++ b :: rest).length := by simp
      have hset : (List.replicate i (0 : UInt8) ++ b :: rest).set i 0 = List.replicate (i + 1) 0 ++ rest := by
        rw [List.set_append_right _ _ (by simp)]
        simp [List.replicate_succ']
      simp only [hi, if_true, wrByte, hlen, hset]
      have := ih (i + 1) rest (by simp at h ⊢; omega)
      rw [show i + (b :: rest).length = i + 1 + rest.length by simp; omega]
      exact this

theorem zWords_spec : ∀ f i (rest : List UInt8), i % 8 = 0 → i ≤ clear3 (i + rest.length) →
    i + rest.length + 1 ≤ f + i →
    zWords (i + rest.length) (clear3 (i + rest.length)) f i (List.replicate i 0 ++ rest)
      = .ok (List.replicate (i + rest.length) 0) := by
  intro f
  induction f with
  | zero => intro i rest _ _ h; omega
  | succ f ih =>
    intro i rest h8 hm h
    have hc := clear3_eq (i + rest.length)
    rw [zWords_succ]
    by_cases hi : i < clear3 (i + rest.length)
    · have hr : 8 ≤ rest.length := by omega
      have hlen : i + 8 ≤ (List.replicate i (0 : UInt8) ++ rest).length := by simp; omega
      have hdrop : (List.replicate i (0 : UInt8) ++ rest).drop (i + 8) = rest.drop 8 := by
        rw [← List.drop_drop, List.drop_left' (by simp)]
      have hw : (List.replicate i (0 : UInt8) ++ rest).take i ++ List.replicate 8 0
            ++ (List.replicate i (0 : UInt8) ++ rest).drop (i + 8)
          = List.replicate (i + 8) 0 ++ rest.drop 8 := by
        rw [List.take_left' (by simp), hdrop, List.replicate_append_replicate]
      have hl : (rest.drop 8).length + 8 = rest.length := by simp; omega
      simp only [hi, if_true, wrWord, hlen, hw]
      have := ih (i + 8) (rest.drop 8) (by omega) (by rw [show i + 8 + (rest.drop 8).length = i + rest.length by omega]; omega) (by omega)
      rw [show i + 8 + (rest.drop 8).length = i + rest.length by omega] at this
      exact this
    · have : i = clear3 (i + rest.length) := by omega
      simp only [hi, if_false]
      exact zTail_spec _ i rest (by omega)

/-! ### TrailingZeroes -/

theorem rdI_nat (d : List UInt8) (k : Nat) (h : k < d.length) : rdI d (k : Int) = some d[k] := by
  unfold rdI
  have : ¬ ((k : Int) < 0) := by omega
  simp [this, List.getElem?_eq_getElem h]

theorem take_succ' (d : List UInt8) (k : Nat) (h : k < d.length) : d.take (k + 1) = d.take k ++ [d[k]] :=
  List.take_succ_eq_append_getElem h

/-- the byte loop over the ragged head: `m` runs from `j-1` down to `-1` -/
theorem tzTail_spec (d : List UInt8) : ∀ f (j : Nat) nz (m : Int), m = (j : Int) - 1 → j ≤ d.length → j + 1 ≤ f →
    tzTail d f m nz = .ok (nz + tzCount (d.take j)) := by
  intro f
  induction f with
  | zero => intro j nz m _ _ h; omega
  | succ f ih =>
    intro j nz m hm hj hf
    rw [tzTail_succ]
    cases j with
    | zero =>
      have : ¬ (m ≥ 0) := by omega
      simp [this, tzCount, lzCount]
    | succ k =>
      have hm' : m = (k : Int) := by omega
      subst hm'
      have hk : k < d.length := by omega
      have : ((k : Int) ≥ 0) := by omega
      simp only [this, if_true, rdI_nat d k hk, take_succ' d k hk, tzCount_snoc]
      by_cases hb : d[k] = 0
      · simp only [hb, beq_self_eq_true, if_true]
        rw [ih k (nz + 1) ((k : Int) - 1) rfl (by omega) (by omega)]
        congr 1; omega
      · have : (d[k] == 0) = false := by simpa using hb
        simp [this, hb]

/-- the inner loop `for data[i+7] == 0`: `i+7` runs down from `j-1`; it stops inside the slice
because some byte of `d[0..j)` is non-zero -/
theorem tzInner_spec (d : List UInt8) : ∀ f (j : Nat) nz (i : Int), i = (j : Int) - 8 → j ≤ d.length → j + 1 ≤ f →
    (d.take j).any (· != 0) = true →
    tzInner d f i nz = .ok (nz + tzCount (d.take j)) := by
  intro f
  induction f with
  | zero => intro j nz i _ _ h; omega
  | succ f ih =>
    intro j nz i hi hj hf hany
    rw [tzInner_succ]
    cases j with
    | zero => simp at hany
    | succ k =>
      have hi' : i + 7 = (k : Int) := by omega
      have hk : k < d.length := by omega
      rw [take_succ' d k hk] at hany ⊢
      simp only [hi', rdI_nat d k hk, tzCount_snoc]
      by_cases hb : d[k] = 0
      · simp only [hb, beq_self_eq_true, if_true]
        simp only [List.any_append, hb, List.any_cons, bne_self_eq_false, List.any_nil, Bool.or_false] at hany
        rw [ih k (nz + 1) (i - 1) (by omega) (by omega) (by omega) hany]
        congr 1; omega
      · have : (d[k] == 0) = false := by simpa using hb
        simp [this, hb]

theorem tzWords_spec (d : List UInt8) : ∀ f (j : Nat) nz (i : Int), i = (j : Int) - 8 → j ≤ d.length →
    j % 8 = d.length % 8 → j + 1 ≤ f →
    tzWords d d.length ((d.length : Int) - (clear3 d.length : Int)) f i nz = .ok (nz + tzCount (d.take j)) := by
  intro f
  have hc := clear3_eq d.length
  induction f with
  | zero => intro j nz i _ _ _ h; omega
  | succ f ih =>
    intro j nz i hi hj h8 hf
    rw [tzWords_succ]
    by_cases hge : i ≥ (d.length : Int) - (clear3 d.length : Int)
    · have hj8 : 8 ≤ j := by omega
      have hi0 : ¬ (i < 0) := by omega
      have htn : i.toNat = j - 8 := by omega
      have hin : j - 8 + 8 ≤ d.length := by omega
      have hsplit : d.take j = d.take (j - 8) ++ (d.drop (j - 8)).take 8 := by
        rw [← List.take_add]; congr 1; omega
      have hlen : ((d.drop (j - 8)).take 8).length = 8 := by simp; omega
      simp only [hge, if_true, wordNZI, hi0, if_false, htn, wordNZ, hin]
      cases hw : ((d.drop (j - 8)).take 8).any (· != 0)
      · simp only []
        rw [ih (j - 8) (nz + 8) (i - 8) (by omega) (by omega) (by omega) (by omega)]
        rw [hsplit, tzCount_append_zeros _ _ (any_false_all_zero _ hw), hlen]
        congr 1; omega
      · simp only []
        apply tzInner_spec d _ j nz i hi hj (by omega)
        rw [hsplit, List.any_append, hw]; simp
    · simp only [hge, if_false]
      exact tzTail_spec d _ j nz _ (by omega) hj (by omega)

end MdsVerif.Proofs.Mbits
