import MdsVerif.Proofs.MdiffFmt
/-!
# Lemmas for the unified-format round trip `ReadUnified ∘ Unified` (model `Model/MdiffFmt.lean`) — C14

`flat` flattens edits to the sequence of written lines with their class, `regroup` is what
`readUnifiedBody` rebuilds from them (`addLine` folded from `[]`).  The reader is followed layer by
layer: `strings.Fields` on the hunk header, `parseSpan` on the two ranges (`parseSpan_uspan`, hence
the hypothesis "no range of length 1", F5), the body loop, the loop over hunks, the file header.
All proofs unfold the regenerated facts of `Gen.MdiffFmt`.
-/
namespace MdsVerif.Proofs.MdiffUnified
open MdsVerif.Model.Edit MdsVerif.Model.Mdiff MdsVerif.Model.MdiffFmt MdsVerif.Proofs.MdiffFmt
open MdsVerif.Gen

/-! ## `flat`, `regroup` -/

/-- the lines an edit contributes to a hunk body, with their class (a Replace: its drops, then its
copies — the order in which `Unified` writes them) -/
def flatEdit (e : Edit Line) : List (EditOp × Line) :=
  match e.op with
  | .drop => e.X.map fun x => (EditOp.drop, x)
  | .emit => e.X.map fun x => (EditOp.emit, x)
  | .copy => e.Y.map fun y => (EditOp.copy, y)
  | .replace => (e.X.map fun x => (EditOp.drop, x)) ++ (e.Y.map fun y => (EditOp.copy, y))

def flat (es : List (Edit Line)) : List (EditOp × Line) := es.flatMap flatEdit

/-- `add(op, text)` of `readUnifiedChunk` folded over classified lines -/
def addLines (acc : List (Edit Line)) (ps : List (EditOp × Line)) : List (Edit Line) :=
  ps.foldl (fun a p => addLine a p.1 p.2) acc

/-- what `readUnifiedChunk` rebuilds from the body written for `es`: adjacent lines of the same
class are fused into one edit, a Replace comes back as its Drop half followed by its Copy half -/
def regroup (es : List (Edit Line)) : List (Edit Line) := addLines [] (flat es)

/-- the line written for a classified line -/
def wline (p : EditOp × Line) : Line :=
  (match p.1 with
   | .drop => '-'
   | .emit => ' '
   | .copy => '+'
   | .replace => '!') :: p.2

def NoRepl (ps : List (EditOp × Line)) : Prop := ∀ p ∈ ps, p.1 ≠ EditOp.replace

theorem noRepl_flatEdit (e : Edit Line) : NoRepl (flatEdit e) := by
  intro p hp
  unfold flatEdit at hp
  split at hp
  · simp only [List.mem_map] at hp; obtain ⟨x, _, rfl⟩ := hp; simp
  · simp only [List.mem_map] at hp; obtain ⟨x, _, rfl⟩ := hp; simp
  · simp only [List.mem_map] at hp; obtain ⟨x, _, rfl⟩ := hp; simp
  · simp only [List.mem_append, List.mem_map] at hp
    rcases hp with ⟨x, _, rfl⟩ | ⟨x, _, rfl⟩ <;> simp

theorem noRepl_flat (es : List (Edit Line)) : NoRepl (flat es) := by
  intro p hp
  simp only [flat, List.mem_flatMap] at hp
  obtain ⟨e, _, hp⟩ := hp
  exact noRepl_flatEdit e p hp

theorem flat_cons (e : Edit Line) (es : List (Edit Line)) : flat (e :: es) = flatEdit e ++ flat es := by
  simp [flat]

theorem flat_append (a b : List (Edit Line)) : flat (a ++ b) = flat a ++ flat b := by
  simp [flat]

theorem unifiedEdit_wline (e : Edit Line) : unifiedEdit e = (flatEdit e).map wline := by
  obtain ⟨op, X, Y⟩ := e
  cases op <;>
    simp [unifiedEdit, flatEdit, writeLines, wline, str, MdiffFmt.uniDrop, MdiffFmt.uniEmit,
      MdiffFmt.uniCopy, Function.comp_def]

theorem flatMap_unifiedEdit (es : List (Edit Line)) :
    es.flatMap unifiedEdit = (flat es).map wline := by
  induction es with
  | nil => rfl
  | cons e es ih => rw [List.flatMap_cons, flat_cons, List.map_append, ih, unifiedEdit_wline]

/-! ## `addLine` -/

theorem addLine_nil (op : EditOp) (t : Line) :
    addLine [] op t = [match op with
      | .copy => (⟨op, [], [t]⟩ : Edit Line)
      | _ => ⟨op, [t], []⟩] := by
  cases op <;> simp [addLine]

theorem addLine_concat_same (init : List (Edit Line)) (e : Edit Line) (t : Line) :
    addLine (init ++ [e]) e.op t = init ++ [match e.op with
      | .copy => { e with Y := e.Y ++ [t] }
      | _ => { e with X := e.X ++ [t] }] := by
  obtain ⟨op, X, Y⟩ := e
  cases op <;> simp [addLine]

theorem addLine_concat_ne (init : List (Edit Line)) (e : Edit Line) (op : EditOp) (t : Line)
    (h : e.op ≠ op) :
    addLine (init ++ [e]) op t = init ++ [e] ++ [match op with
      | .copy => (⟨op, [], [t]⟩ : Edit Line)
      | _ => ⟨op, [t], []⟩] := by
  simp only [addLine, List.getLast?_concat, if_neg h]
  cases op <;> simp

theorem flat_addLine (acc : List (Edit Line)) (op : EditOp) (t : Line) (hop : op ≠ .replace) :
    flat (addLine acc op t) = flat acc ++ [(op, t)] := by
  rcases List.eq_nil_or_concat acc with rfl | ⟨init, e, rfl⟩
  · rw [addLine_nil]
    cases op <;> simp [flat, flatEdit] at hop ⊢
  · rw [List.concat_eq_append]
    by_cases h : e.op = op
    · subst h
      rw [addLine_concat_same]
      obtain ⟨op, X, Y⟩ := e
      cases op <;> simp [flat, flatEdit] at hop ⊢
    · rw [addLine_concat_ne _ _ _ _ h, flat_append]
      cases op <;> simp [flat, flatEdit] at hop ⊢

theorem flat_addLines (ps : List (EditOp × Line)) (h : NoRepl ps) (acc : List (Edit Line)) :
    flat (addLines acc ps) = flat acc ++ ps := by
  induction ps generalizing acc with
  | nil => simp [addLines]
  | cons p ps ih =>
    have h' : NoRepl ps := fun q hq => h q (by simp [hq])
    have : addLines acc (p :: ps) = addLines (addLine acc p.1 p.2) ps := rfl
    rw [this, ih h', flat_addLine _ _ _ (h p (by simp))]
    simp

/-- flattening what the reader rebuilds gives the lines that were written -/
theorem flat_regroup (es : List (Edit Line)) : flat (regroup es) = flat es := by
  rw [regroup, flat_addLines _ (noRepl_flat es)]; simp [flat]

theorem flatMap_unifiedEdit_regroup (es : List (Edit Line)) :
    (regroup es).flatMap unifiedEdit = es.flatMap unifiedEdit := by
  rw [flatMap_unifiedEdit, flatMap_unifiedEdit, flat_regroup]

/-! ## the body loop of `readUnifiedChunk` -/

/-- the rest of the input is empty or begins with a line whose first byte is `'@'` -/
def HunkStart (rest : List Line) : Prop := rest = [] ∨ ∃ t ls, rest = ('@' :: t) :: ls

theorem readUnifiedBody_lines (ps : List (EditOp × Line)) (h : NoRepl ps) (rest : List Line)
    (ch : Chunk Line) :
    readUnifiedBody (ps.map wline ++ rest) ch
      = readUnifiedBody rest { ch with edits := addLines ch.edits ps } := by
  induction ps generalizing ch with
  | nil => simp [addLines]
  | cons p ps ih =>
    have h' : NoRepl ps := fun q hq => h q (by simp [hq])
    have hp := h p (by simp)
    obtain ⟨op, t⟩ := p
    simp only [List.map_cons, List.cons_append]
    cases op with
    | replace => exact absurd rfl hp
    | drop =>
      rw [wline, readUnifiedBody]
      simp only [MdiffFmt.rdUniEmit, MdiffFmt.rdUniDrop, show ¬ ('-' = ' ') by decide, if_false, if_true]
      rw [ih h']; rfl
    | emit =>
      rw [wline, readUnifiedBody]
      simp only [MdiffFmt.rdUniEmit, if_true]
      rw [ih h']; rfl
    | copy =>
      rw [wline, readUnifiedBody]
      simp only [MdiffFmt.rdUniEmit, MdiffFmt.rdUniDrop, MdiffFmt.rdUniCopy,
        show ¬ ('+' = ' ') by decide, show ¬ ('+' = '-') by decide, if_false, if_true]
      rw [ih h']; rfl

theorem readUnifiedBody_stop (rest : List Line) (ch : Chunk Line) (h : HunkStart rest) :
    readUnifiedBody rest ch = .ok ch rest := by
  rcases h with rfl | ⟨t, ls, rfl⟩
  · rfl
  · rw [readUnifiedBody]
    simp only [MdiffFmt.rdUniEmit, MdiffFmt.rdUniDrop, MdiffFmt.rdUniCopy, MdiffFmt.rdUniHunk,
      show ¬ ('@' = ' ') by decide, show ¬ ('@' = '-') by decide, show ¬ ('@' = '+') by decide,
      if_false, if_true]

/-- **body**: the lines written for `es`, followed by the end of input or the next hunk header,
are read back as `regroup es` -/
theorem readUnifiedBody_edits (es : List (Edit Line)) (rest : List Line) (h : HunkStart rest)
    (ls le rs re : Nat) :
    readUnifiedBody (es.flatMap unifiedEdit ++ rest) ⟨[], ls, le, rs, re⟩
      = .ok ⟨regroup es, ls, le, rs, re⟩ rest := by
  rw [flatMap_unifiedEdit, readUnifiedBody_lines _ (noRepl_flat es), readUnifiedBody_stop _ _ h]
  rfl

/-! ## `strings.Fields` on a hunk header -/

def NoSpace (w : Line) : Prop := ∀ c ∈ w, isSpace c = false

theorem fieldsAux_word (w : Line) (h : NoSpace w) (rest cur : Line) :
    fieldsAux (w ++ rest) cur = fieldsAux rest (w.reverse ++ cur) := by
  induction w generalizing cur with
  | nil => simp
  | cons c w ih =>
    have hc : isSpace c = false := h c (by simp)
    have hw : NoSpace w := fun d hd => h d (by simp [hd])
    simp only [List.cons_append, fieldsAux, hc, Bool.false_eq_true, if_false]
    rw [ih hw]; simp

theorem fieldsAux_space (rest cur : Line) (h : cur ≠ []) :
    fieldsAux (' ' :: rest) cur = cur.reverse :: fieldsAux rest [] := by
  have : isSpace ' ' = true := by decide
  simp only [fieldsAux, this, if_true, if_neg h]

theorem fieldsAux_end (cur : Line) (h : cur ≠ []) : fieldsAux [] cur = [cur.reverse] := by
  simp only [fieldsAux, if_neg h]

/-- a word followed by a space and more text -/
theorem fields_word_space (w : Line) (h : NoSpace w) (hne : w ≠ []) (rest : Line) :
    fieldsAux (w ++ ' ' :: rest) [] = w :: fieldsAux rest [] := by
  rw [fieldsAux_word w h, fieldsAux_space _ _ (by simpa using hne)]; simp

theorem fields_word_end (w : Line) (h : NoSpace w) (hne : w ≠ []) :
    fieldsAux w [] = [w] := by
  have := fieldsAux_word w h [] []
  rw [List.append_nil] at this
  rw [this, fieldsAux_end _ (by simpa using hne)]; simp

theorem fields_four (w1 w2 w3 w4 : Line) (h1 : NoSpace w1) (h2 : NoSpace w2) (h3 : NoSpace w3)
    (h4 : NoSpace w4) (n1 : w1 ≠ []) (n2 : w2 ≠ []) (n3 : w3 ≠ []) (n4 : w4 ≠ []) :
    fields (w1 ++ ' ' :: (w2 ++ ' ' :: (w3 ++ ' ' :: w4))) = [w1, w2, w3, w4] := by
  rw [fields, fields_word_space w1 h1 n1, fields_word_space w2 h2 n2, fields_word_space w3 h3 n3,
    fields_word_end w4 h4 n4]

theorem digit_noSpace {c : Char} (h : c.isDigit = true) : isSpace c = false := by
  have n1 : c ≠ ' ' := digit_ne h (by decide)
  have n2 : c ≠ '\t' := digit_ne h (by decide)
  have n3 : c ≠ '\n' := digit_ne h (by decide)
  have n4 : c ≠ '\x0b' := digit_ne h (by decide)
  have n5 : c ≠ '\x0c' := digit_ne h (by decide)
  have n6 : c ≠ '\r' := digit_ne h (by decide)
  simp [isSpace, n1, n2, n3, n4, n5, n6]

/-- the characters of `uspan`: the side byte, digits, commas -/
theorem uspan_chars (side : Char) (s e : Nat) :
    ∀ c ∈ uspan [side] s e, c = side ∨ c.isDigit = true ∨ c = ',' := by
  intro c hc
  rw [uspan_eq] at hc
  split at hc
  · simp only [List.mem_append, List.mem_cons, List.not_mem_nil, or_false] at hc
    rcases hc with h | h
    · exact Or.inl h
    · exact Or.inr (Or.inl (itoa_digit _ c h))
  · simp only [List.mem_append, List.mem_cons, List.not_mem_nil, or_false] at hc
    rcases hc with (h | h) | h | h
    · exact Or.inl h
    · exact Or.inr (Or.inl (itoa_digit _ c h))
    · exact Or.inr (Or.inr h)
    · exact Or.inr (Or.inl (itoa_digit _ c h))

theorem uspan_noSpace (side : Char) (hs : isSpace side = false) (s e : Nat) :
    NoSpace (uspan [side] s e) := by
  intro c hc
  rcases uspan_chars side s e c hc with rfl | h | rfl
  · exact hs
  · exact digit_noSpace h
  · decide

theorem uspan_noNl (side : Char) (hs : side ≠ '\n') (s e : Nat) : NoNl (uspan [side] s e) := by
  intro hc
  rcases uspan_chars side s e _ hc with h | h | h
  · exact hs h.symm
  · exact absurd h (by decide)
  · exact absurd h (by decide)

theorem uspan_ne_nil (side : Char) (s e : Nat) : uspan [side] s e ≠ [] := by
  rw [uspan_eq]; split <;> simp

/-! ## the hunk header -/

/-- the `@@ -l,n +r,m @@` line -/
def hunkLine (ls le rs re : Nat) : Line :=
  str "@@ " ++ uspan ['-'] ls le ++ [' '] ++ uspan ['+'] rs re ++ str " @@"

theorem hunkLine_eq (ls le rs re : Nat) :
    hunkLine ls le rs re
      = ['@', '@'] ++ ' ' :: (uspan ['-'] ls le ++ ' ' :: (uspan ['+'] rs re ++ ' ' :: ['@', '@'])) := by
  have e1 : str "@@ " = ['@', '@', ' '] := rfl
  have e2 : str " @@" = [' ', '@', '@'] := rfl
  simp [hunkLine, e1, e2]

theorem hunkLine_head (ls le rs re : Nat) : ∃ t, hunkLine ls le rs re = '@' :: t := by
  rw [hunkLine_eq]; exact ⟨_, rfl⟩

theorem fields_hunkLine (ls le rs re : Nat) :
    fields (hunkLine ls le rs re) = [['@', '@'], uspan ['-'] ls le, uspan ['+'] rs re, ['@', '@']] := by
  rw [hunkLine_eq]
  exact fields_four _ _ _ _ (by unfold NoSpace; decide) (uspan_noSpace '-' (by decide) _ _)
    (uspan_noSpace '+' (by decide) _ _) (by unfold NoSpace; decide) (by simp) (uspan_ne_nil _ _ _)
    (uspan_ne_nil _ _ _) (by simp)

theorem unifiedChunk_eq (c : Chunk Line) :
    unifiedChunk c = hunkLine c.lstart c.lend c.rstart c.rend :: c.edits.flatMap unifiedEdit := rfl

/-- **hunk**: header and body of one chunk, followed by the end of input or the next hunk header;
needs `start ≤ end` and no range of exactly one line (F5) -/
theorem readUnifiedChunk_chunk (es : List (Edit Line)) (ls le rs re : Nat) (rest : List Line)
    (h : HunkStart rest) (hl : ls ≤ le) (hr : rs ≤ re) (hl1 : le - ls ≠ 1) (hr1 : re - rs ≠ 1) :
    readUnifiedChunk (hunkLine ls le rs re :: (es.flatMap unifiedEdit ++ rest))
      = .ok ⟨regroup es, ls, le, rs, re⟩ rest := by
  have e : str "@@" = ['@', '@'] := rfl
  rw [readUnifiedChunk, fields_hunkLine]
  simp only [e, ne_eq, not_true_eq_false, or_self, if_false, parseSpan_uspan, if_neg hl1, if_neg hr1,
    MdiffFmt.uniLStart, MdiffFmt.uniLEnd, MdiffFmt.uniRStart, MdiffFmt.uniREnd]
  have e1 : ls + (le - ls) = le := by omega
  have e2 : rs + (re - rs) = re := by omega
  rw [e1, e2]
  exact readUnifiedBody_edits es rest h ls le rs re

/-! ## the loop over hunks -/

/-- the chunk `ReadUnified` returns for a written chunk -/
def regroupChunk (c : Chunk Line) : Chunk Line := { c with edits := regroup c.edits }

def RangesOK (c : Chunk Line) : Prop :=
  c.lstart ≤ c.lend ∧ c.rstart ≤ c.rend ∧ c.lend - c.lstart ≠ 1 ∧ c.rend - c.rstart ≠ 1

theorem hunkStart_chunks (cs : List (Chunk Line)) : HunkStart (cs.flatMap unifiedChunk) := by
  cases cs with
  | nil => exact Or.inl rfl
  | cons c cs =>
    obtain ⟨t, ht⟩ := hunkLine_head c.lstart c.lend c.rstart c.rend
    exact Or.inr ⟨t, c.edits.flatMap unifiedEdit ++ cs.flatMap unifiedChunk, by
      rw [List.flatMap_cons, unifiedChunk_eq, ht]; rfl⟩

theorem readUnifiedChunks_chunks (cs : List (Chunk Line)) (hok : ∀ c ∈ cs, RangesOK c) :
    ∀ (acc : List (Chunk Line)) (f : Nat), (cs.flatMap unifiedChunk).length + 1 ≤ f →
      readUnifiedChunks f (cs.flatMap unifiedChunk) acc = some (acc ++ cs.map regroupChunk) := by
  induction cs with
  | nil =>
    intro acc f hf
    obtain ⟨f0, rfl⟩ : ∃ f0, f = f0 + 1 := ⟨f - 1, by omega⟩
    simp [readUnifiedChunks, readUnifiedChunk]
  | cons c cs ih =>
    intro acc f hf
    obtain ⟨f0, rfl⟩ : ∃ f0, f = f0 + 1 := ⟨f - 1, by omega⟩
    obtain ⟨h1, h2, h3, h4⟩ := hok c (by simp)
    have e : (c :: cs).flatMap unifiedChunk
        = hunkLine c.lstart c.lend c.rstart c.rend
            :: (c.edits.flatMap unifiedEdit ++ cs.flatMap unifiedChunk) := by
      rw [List.flatMap_cons, unifiedChunk_eq]; rfl
    rw [e] at hf ⊢
    rw [readUnifiedChunks, readUnifiedChunk_chunk _ _ _ _ _ _ (hunkStart_chunks cs) h1 h2 h3 h4]
    simp only
    rw [ih (fun c' hc' => hok c' (by simp [hc'])) _ f0
      (by simp only [List.length_cons, List.length_append] at hf; omega)]
    simp [regroupChunk]

/-! ## no written line contains a newline -/

theorem noNl_hunkLine (ls le rs re : Nat) : NoNl (hunkLine ls le rs re) := by
  unfold hunkLine
  exact noNl_append (noNl_append (noNl_append (noNl_append (by unfold NoNl; decide)
    (uspan_noNl '-' (by decide) _ _)) (by unfold NoNl; decide)) (uspan_noNl '+' (by decide) _ _))
    (by unfold NoNl; decide)

theorem noNl_unifiedEdit (e : Edit Line) (h : (∀ l ∈ e.X, NoNl l) ∧ (∀ l ∈ e.Y, NoNl l)) :
    ∀ l ∈ unifiedEdit e, NoNl l := by
  have hd : NoNl (str MdiffFmt.uniDrop) := by unfold NoNl; decide
  have he : NoNl (str MdiffFmt.uniEmit) := by unfold NoNl; decide
  have hc : NoNl (str MdiffFmt.uniCopy) := by unfold NoNl; decide
  intro l hl
  unfold unifiedEdit at hl
  split at hl
  · exact noNl_writeLines _ _ hd h.1 l hl
  · exact noNl_writeLines _ _ he h.1 l hl
  · exact noNl_writeLines _ _ hc h.2 l hl
  · rcases List.mem_append.mp hl with hl | hl
    · exact noNl_writeLines _ _ hd h.1 l hl
    · exact noNl_writeLines _ _ hc h.2 l hl

theorem noNl_chunks (cs : List (Chunk Line)) (h : ∀ c ∈ cs, EditsNoNl c.edits) :
    ∀ l ∈ cs.flatMap unifiedChunk, NoNl l := by
  intro l hl
  simp only [List.mem_flatMap] at hl
  obtain ⟨c, hc, hl⟩ := hl
  rw [unifiedChunk_eq, List.mem_cons] at hl
  rcases hl with rfl | hl
  · exact noNl_hunkLine _ _ _ _
  · simp only [List.mem_flatMap] at hl
    obtain ⟨e, he, hl⟩ := hl
    exact noNl_unifiedEdit e (h c hc e he) l hl

/-! ## the file header -/

/-- the `FileInfo` that comes back: empty names are written (and read) as `a` / `b` -/
def normFi (f : FileInfo) : FileInfo :=
  ⟨orDefault f.left ['a'], orDefault f.right ['b'], f.leftTime, f.rightTime⟩

/-- a file name that survives: no newline, no tab (`parseFileLine` cuts at the first tab) -/
def NameOK (n : Line) : Prop := '\n' ∉ n ∧ '\t' ∉ n

/-- a (formatted) timestamp that survives: no newline, and `time.Parse(TimeFormat, ·)` returns it
(the opaque assumption `Parse ∘ Format = id`; times are carried in formatted form) -/
def TimeOK (pt : Line → Option Line) (t : Option Line) : Prop :=
  ∀ s, t = some s → NoNl s ∧ pt s = some s

def HeaderOK (pt : Line → Option Line) (f : FileInfo) : Prop :=
  NameOK (orDefault f.left ['a']) ∧ NameOK (orDefault f.right ['b']) ∧
  TimeOK pt f.leftTime ∧ TimeOK pt f.rightTime

theorem parseFileLine_none (pt : Line → Option Line) (n : Line) (hn : '\t' ∉ n) :
    parseFileLine pt n = (n, none) := by
  simp only [parseFileLine, cut_none '\t' n hn]

theorem parseFileLine_some (pt : Line → Option Line) (n s : Line) (hn : '\t' ∉ n) (hs : pt s = some s) :
    parseFileLine pt (n ++ '\t' :: s) = (n, some s) := by
  simp only [parseFileLine, cut_append '\t' n s hn, hs]

theorem readUnifiedHeader_some (pt : Line → Option Line) (nl nr : Line) (tl tr : Option Line)
    (rest : List Line) (hl : '\t' ∉ nl) (hr : '\t' ∉ nr) (htl : TimeOK pt tl) (htr : TimeOK pt tr) :
    readUnifiedHeader pt
      (fmtFileHeader (str "--- ") nl tl :: fmtFileHeader (str "+++ ") nr tr :: rest)
      = some (some ⟨nl, nr, tl, tr⟩, rest) := by
  rw [readUnifiedHeader]
  cases tl with
  | none =>
    cases tr with
    | none =>
      simp only [fmtFileHeader, List.append_nil, cutPrefix_append,
        parseFileLine_none pt _ hl, parseFileLine_none pt _ hr]
    | some b =>
      simp only [fmtFileHeader, List.append_assoc, List.append_nil, cutPrefix_append,
        parseFileLine_none pt _ hl, parseFileLine_some pt _ _ hr (htr b rfl).2]
  | some a =>
    cases tr with
    | none =>
      simp only [fmtFileHeader, List.append_assoc, List.append_nil, cutPrefix_append,
        parseFileLine_some pt _ _ hl (htl a rfl).2, parseFileLine_none pt _ hr]
    | some b =>
      simp only [fmtFileHeader, List.append_assoc, cutPrefix_append,
        parseFileLine_some pt _ _ hl (htl a rfl).2, parseFileLine_some pt _ _ hr (htr b rfl).2]

theorem readUnifiedHeader_hunk (pt : Line → Option Line) (t : Line) (rest : List Line) :
    readUnifiedHeader pt (('@' :: t) :: rest) = some (none, ('@' :: t) :: rest) := by
  have e : str "--- " = ['-', '-', '-', ' '] := rfl
  rw [readUnifiedHeader, e, cutPrefix_ne _ _ _ _ (by decide)]

theorem noNl_fmtFileHeader (pfx n : Line) (t : Option Line) (hp : NoNl pfx) (hn : NoNl n)
    (ht : ∀ s, t = some s → NoNl s) : NoNl (fmtFileHeader pfx n t) := by
  unfold fmtFileHeader
  refine noNl_append (noNl_append hp hn) ?_
  cases t with
  | none => unfold NoNl; simp
  | some s =>
    intro h
    rcases List.mem_cons.mp h with h | h
    · exact absurd h (by decide)
    · exact ht s rfl h

/-! ## re-formatting the parsed patch -/

theorem unifiedChunk_regroup (c : Chunk Line) : unifiedChunk (regroupChunk c) = unifiedChunk c := by
  simp only [unifiedChunk_eq, regroupChunk, flatMap_unifiedEdit_regroup]

theorem flatMap_unifiedChunk_regroup (cs : List (Chunk Line)) :
    (cs.map regroupChunk).flatMap unifiedChunk = cs.flatMap unifiedChunk := by
  induction cs with
  | nil => rfl
  | cons c cs ih => rw [List.map_cons, List.flatMap_cons, List.flatMap_cons, ih, unifiedChunk_regroup]

theorem orDefault_idem (n d : Line) (hd : d ≠ []) : orDefault (orDefault n d) d = orDefault n d := by
  unfold orDefault
  by_cases h : n = []
  · simp [h, hd]
  · simp [h]

theorem unified_regroup (cs : List (Chunk Line)) (fi : Option FileInfo) :
    unified (cs.map regroupChunk) (fi.map normFi) = unified cs fi := by
  unfold unified
  rw [List.length_map, flatMap_unifiedChunk_regroup]
  cases fi with
  | none => rfl
  | some f =>
    simp only [Option.map, normFi, orDefault_idem _ ['a'] (by simp), orDefault_idem _ ['b'] (by simp)]

/-! ## `ReadUnified ∘ Unified` -/

theorem readUnified_chunks (pt : Line → Option Line) (cs : List (Chunk Line)) (hcs : cs ≠ [])
    (hok : ∀ c ∈ cs, RangesOK c) :
    readUnified pt (cs.flatMap unifiedChunk) = some ⟨none, cs.map regroupChunk⟩ := by
  have hh : readUnifiedHeader pt (cs.flatMap unifiedChunk) = some (none, cs.flatMap unifiedChunk) := by
    rcases hunkStart_chunks cs with h | ⟨t, ls, h⟩
    · cases cs with
      | nil => exact absurd rfl hcs
      | cons c cs => rw [List.flatMap_cons, unifiedChunk_eq] at h; simp at h
    · rw [h]; exact readUnifiedHeader_hunk pt t ls
  unfold readUnified
  rw [hh]
  simp only [readUnifiedChunks_chunks cs hok [] _ (Nat.le_refl _), Option.map, List.nil_append]

theorem readUnified_header (pt : Line → Option Line) (cs : List (Chunk Line)) (f : FileInfo)
    (hok : ∀ c ∈ cs, RangesOK c) (hf : HeaderOK pt f) :
    readUnified pt
      (fmtFileHeader (str "--- ") (orDefault f.left ['a']) f.leftTime ::
       fmtFileHeader (str "+++ ") (orDefault f.right ['b']) f.rightTime :: cs.flatMap unifiedChunk)
      = some ⟨some (normFi f), cs.map regroupChunk⟩ := by
  obtain ⟨h1, h2, h3, h4⟩ := hf
  unfold readUnified
  rw [readUnifiedHeader_some pt _ _ _ _ _ h1.2 h2.2 h3 h4]
  simp only [readUnifiedChunks_chunks cs hok [] _ (Nat.le_refl _), Option.map, List.nil_append, normFi]

/-- all lines written by `Unified` are newline-free -/
theorem noNl_unified (pt : Line → Option Line) (cs : List (Chunk Line)) (fi : Option FileInfo)
    (hnl : ∀ c ∈ cs, EditsNoNl c.edits) (hfi : ∀ f, fi = some f → HeaderOK pt f) :
    ∀ l ∈ unified cs fi, NoNl l := by
  intro l hl
  unfold unified at hl
  split at hl
  · simp at hl
  · cases fi with
    | none => exact noNl_chunks cs hnl l (by simpa using hl)
    | some f =>
      obtain ⟨h1, h2, h3, h4⟩ := hfi f rfl
      simp only [List.cons_append, List.nil_append, List.mem_cons] at hl
      rcases hl with rfl | rfl | hl
      · exact noNl_fmtFileHeader _ _ _ (by unfold NoNl; decide) h1.1 (fun s hs => (h3 s hs).1)
      · exact noNl_fmtFileHeader _ _ _ (by unfold NoNl; decide) h2.1 (fun s hs => (h4 s hs).1)
      · exact noNl_chunks cs hnl l hl

theorem readUnified_unified (pt : Line → Option Line) (cs : List (Chunk Line)) (fi : Option FileInfo)
    (hcs : cs ≠ []) (hok : ∀ c ∈ cs, RangesOK c) (hfi : ∀ f, fi = some f → HeaderOK pt f) :
    readUnified pt (unified cs fi) = some ⟨fi.map normFi, cs.map regroupChunk⟩ := by
  have hlen : ¬ cs.length = 0 := by
    cases cs with
    | nil => exact absurd rfl hcs
    | cons c cs => simp
  unfold unified
  rw [if_neg hlen]
  cases fi with
  | none => exact readUnified_chunks pt cs hcs hok
  | some f => exact readUnified_header pt cs f hok (hfi f rfl)

/-! ## when the same edits come back -/

/-- the last edit of `acc` (if any) is not of class `op` -/
def LastNe (acc : List (Edit Line)) (op : EditOp) : Prop := ∀ e, acc.getLast? = some e → e.op ≠ op

theorem addLine_lastNe (acc : List (Edit Line)) (op : EditOp) (t : Line) (h : LastNe acc op) :
    addLine acc op t = acc ++ [match op with
      | .copy => (⟨op, [], [t]⟩ : Edit Line)
      | _ => ⟨op, [t], []⟩] := by
  rcases List.eq_nil_or_concat acc with rfl | ⟨init, e, rfl⟩
  · rw [addLine_nil]; rfl
  · rw [List.concat_eq_append] at h ⊢
    exact addLine_concat_ne _ _ _ _ (h e List.getLast?_concat)

theorem addLines_cons (acc : List (Edit Line)) (p : EditOp × Line) (ps : List (EditOp × Line)) :
    addLines acc (p :: ps) = addLines (addLine acc p.1 p.2) ps := rfl

theorem addLines_append (acc : List (Edit Line)) (a b : List (EditOp × Line)) :
    addLines acc (a ++ b) = addLines (addLines acc a) b := by
  simp [addLines, List.foldl_append]

theorem addLines_runX (op : EditOp) (hop : op ≠ .copy) (init : List (Edit Line)) (X0 X Y0 : List Line) :
    addLines (init ++ [⟨op, X0, Y0⟩]) (X.map fun x => (op, x)) = init ++ [⟨op, X0 ++ X, Y0⟩] := by
  induction X generalizing X0 with
  | nil => simp [addLines]
  | cons x X ih =>
    rw [List.map_cons, addLines_cons]
    have := addLine_concat_same init ⟨op, X0, Y0⟩ x
    simp only at this
    rw [this]
    cases op with
    | copy => exact absurd rfl hop
    | drop => rw [ih]; simp
    | emit => rw [ih]; simp
    | replace => rw [ih]; simp

theorem addLines_runY (init : List (Edit Line)) (X0 Y0 Y : List Line) :
    addLines (init ++ [⟨.copy, X0, Y0⟩]) (Y.map fun y => (EditOp.copy, y))
      = init ++ [⟨.copy, X0, Y0 ++ Y⟩] := by
  induction Y generalizing Y0 with
  | nil => simp [addLines]
  | cons y Y ih =>
    rw [List.map_cons, addLines_cons]
    have := addLine_concat_same init ⟨.copy, X0, Y0⟩ y
    simp only at this
    rw [this, ih]; simp

/-- an edit as `New`/`AddContext`/`Unify` without Replace produce it: not empty, unused field empty -/
def CanonEdit (e : Edit Line) : Prop :=
  match e.op with
  | .drop => e.X ≠ [] ∧ e.Y = []
  | .emit => e.X ≠ [] ∧ e.Y = []
  | .copy => e.Y ≠ [] ∧ e.X = []
  | .replace => False

/-- no two adjacent edits of the same class -/
def NoAdj : List (Edit Line) → Prop
  | a :: b :: r => a.op ≠ b.op ∧ NoAdj (b :: r)
  | _ => True

theorem addLines_edit (acc : List (Edit Line)) (e : Edit Line) (hc : CanonEdit e)
    (hl : LastNe acc e.op) : addLines acc (flatEdit e) = acc ++ [e] := by
  obtain ⟨op, X, Y⟩ := e
  cases op with
  | replace => exact absurd hc (by simp [CanonEdit])
  | drop =>
    obtain ⟨hX, rfl⟩ := hc
    cases X with
    | nil => exact absurd rfl hX
    | cons x X =>
      simp only [flatEdit, List.map_cons]
      rw [addLines_cons, addLine_lastNe _ _ _ hl]
      simp only
      rw [addLines_runX _ (by decide)]; simp
  | emit =>
    obtain ⟨hX, rfl⟩ := hc
    cases X with
    | nil => exact absurd rfl hX
    | cons x X =>
      simp only [flatEdit, List.map_cons]
      rw [addLines_cons, addLine_lastNe _ _ _ hl]
      simp only
      rw [addLines_runX _ (by decide)]; simp
  | copy =>
    obtain ⟨hY, rfl⟩ := hc
    cases Y with
    | nil => exact absurd rfl hY
    | cons y Y =>
      simp only [flatEdit, List.map_cons]
      rw [addLines_cons, addLine_lastNe _ _ _ hl]
      simp only
      rw [addLines_runY]; simp

theorem addLines_canon (es : List (Edit Line)) (hc : ∀ e ∈ es, CanonEdit e) (hadj : NoAdj es) :
    ∀ acc : List (Edit Line), (∀ e, es.head? = some e → LastNe acc e.op) →
      addLines acc (flat es) = acc ++ es := by
  induction es with
  | nil => intro acc _; simp [flat, addLines]
  | cons e es ih =>
    intro acc hl
    rw [flat_cons, addLines_append, addLines_edit acc e (hc e (by simp)) (hl e rfl)]
    have hadj' : NoAdj es := by
      cases es with
      | nil => trivial
      | cons b r => exact hadj.2
    rw [ih (fun e' he' => hc e' (by simp [he'])) hadj' (acc ++ [e])]
    · simp
    · intro b hb e' he'
      rw [List.getLast?_concat] at he'
      cases he'
      cases es with
      | nil => cases hb
      | cons b' r => cases hb; exact hadj.1

/-- **the same edits come back** when there is nothing to fuse or split -/
theorem regroup_canonical (es : List (Edit Line)) (hc : ∀ e ∈ es, CanonEdit e) (hadj : NoAdj es) :
    regroup es = es := by
  rw [regroup, addLines_canon es hc hadj [] (fun e _ e' he' => by cases he')]; simp

/-- a Replace comes back as its Drop half followed by its Copy half -/
theorem regroup_replace (X Y : List Line) (hX : X ≠ []) (hY : Y ≠ []) :
    regroup [⟨.replace, X, Y⟩] = [⟨.drop, X, []⟩, ⟨.copy, [], Y⟩] := by
  have e : flat [(⟨.replace, X, Y⟩ : Edit Line)]
      = flatEdit ⟨.drop, X, []⟩ ++ flatEdit ⟨.copy, [], Y⟩ := by simp [flat, flatEdit]
  rw [regroup, e, addLines_append,
    addLines_edit [] ⟨.drop, X, []⟩ ⟨hX, rfl⟩ (fun e' he' => by cases he'),
    addLines_edit _ ⟨.copy, [], Y⟩ ⟨hY, rfl⟩ (fun e' he' => by
      rw [List.nil_append, List.getLast?_singleton] at he'; cases he'; simp)]
  rfl

end MdsVerif.Proofs.MdiffUnified
