import MdsVerif.Proofs.MdiffFmt
/-!
# Lemmas for the unified-format round trip `ReadUnified ∘ Unified` (model `Model/MdiffFmt.lean`) — C14

`flat` flattens edits to the sequence of written lines with their class, `regroup` is what
`readUnifiedBody` rebuilds from them (`addLine` folded from `[]`).  The reader is followed layer by
layer: `strings.Fields` on the hunk header, `parseSpan` on the two ranges (`parseSpan_uspan`, hence
the hypothesis "no range of length 1", F5), the body loop, the loop over hunks, the file header.
All proofs unfold the regenerated facts of `Gen.MdiffFmt`.
-/
namespace MdsVerif.Proofs.MdiffUnified
open MdsVerif.Model.Edit MdsVerif.Model.Mdiff MdsVerif.Model.MdiffFmt MdsVerif.Proofs.MdiffFmt
open MdsVerif.Gen

/-! ## `flat`, `regroup` -/

/-- the lines an edit contributes to a hunk body, with their class (a Replace: its drops, then its
copies — the order in which `Unified` writes them) -/
def flatEdit (e : Edit Line) : List (EditOp × Line) :=
  match e.op with
  | .drop => e.X.map fun x => (EditOp.drop, x)
  | .emit => e.X.map fun x => (EditOp.emit, x)
  | .copy => e.Y.map fun y => (EditOp.copy, y)
  | .replace => (e.X.map fun x => (EditOp.drop, x)) ++ (e.Y.map fun y => (EditOp.copy, y))

def flat (es : List (Edit Line)) : List (EditOp × Line) := es.flatMap flatEdit

/-- `add(op, text)` of `readUnifiedChunk` folded over classified lines -/
def addLines (acc : List (Edit Line)) (ps : List (EditOp × Line)) : List (Edit Line) :=
  ps.foldl (fun a p => addLine a p.1 p.2) acc

/-- what `readUnifiedChunk` rebuilds from the body written for `es`: adjacent lines of the same
class are fused into one edit, a Replace comes back as its Drop half followed by its Copy half -/
def regroup (es : List (Edit Line)) : List (Edit Line) := addLines [] (flat es)

/-- the line written for a classified line -/
def wline (p : EditOp × Line) : Line :=
  (match p.1 with
   | .drop => '-'
   | .emit => ' '
   | .copy => '+'
   | .replace => '!') :: p.2

def NoRepl (ps : List (EditOp × Line)) : Prop := ∀ p ∈ ps, p.1 ≠ EditOp.replace

theorem noRepl_flatEdit (e : Edit Line) : NoRepl (flatEdit e) := by
  intro p hp
  unfold flatEdit at hp
  split at hp
  · simp only [List.mem_map] at hp; obtain ⟨x, _, rfl⟩ := hp; simp
  · simp only [List.mem_map] at hp; obtain ⟨x, _, rfl⟩ := hp; simp
  · simp only [List.mem_map] at hp; obtain ⟨x, _, rfl⟩ := hp; simp
  · simp only [List.mem_append, List.mem_map] at hp
    rcases hp with ⟨x, _, rfl⟩ | ⟨x, _, rfl⟩ <;> simp

theorem noRepl_flat (es : List (Edit Line)) : NoRepl (flat es) := by
  intro p hp
  simp only [flat, List.mem_flatMap] at hp
  obtain ⟨e, _, hp⟩ := hp
  exact noRepl_flatEdit e p hp

theorem flat_cons (e : Edit Line) (es : List (Edit Line)) : flat (e :: es) = flatEdit e ++ flat es := by
  simp [flat]

theorem flat_append (a b : List (Edit Line)) : flat (a ++ b) = flat a ++ flat b := by
  simp [flat]

theorem unifiedEdit_wline (e : Edit Line) : unifiedEdit e = (flatEdit e).map wline := by
  obtain ⟨op, X, Y⟩ := e
  cases op <;>
    simp [unifiedEdit, flatEdit, writeLines, wline, str, MdiffFmt.uniDrop, MdiffFmt.uniEmit,
      MdiffFmt.uniCopy, Function.comp_def]

theorem flatMap_unifiedEdit (es : List (Edit Line)) :
    es.flatMap unifiedEdit = (flat es).map wline := by
  induction es with
  | nil => rfl
  | cons e es ih => rw [List.flatMap_cons, flat_cons, List.map_append, ih, unifiedEdit_wline]

/-! ## `addLine` -/

theorem addLine_nil (op : EditOp) (t : Line) :
    addLine [] op t = [match op with
      | .copy => (⟨op, [], [t]⟩ : Edit Line)
      | _ => ⟨op, [t], []⟩] := by
  cases op <;> simp [addLine]

theorem addLine_concat_same (init : List (Edit Line)) (e : Edit Line) (t : Line) :
    addLine (init ++ [e]) e.op t = init ++ [match e.op with
      | .copy => { e with Y := e.Y ++ [t] }
      | _ => { e with X := e.X ++ [t] }] := by
  obtain ⟨op, X, Y⟩ := e
  cases op <;> simp [addLine]

theorem addLine_concat_ne (init : List (Edit Line)) (e : Edit Line) (op : EditOp) (t : Line)
    (h : e.op ≠ op) :
    addLine (init ++ [e]) op t = init ++ [e] ++ [match op with
      | .copy => (⟨op, [], [t]⟩ : Edit Line)
      | _ => ⟨op, [t], []⟩] := by
  simp only [addLine, List.getLast?_concat, if_neg h]
  cases op <;> simp

theorem flat_addLine (acc : List (Edit Line)) (op : EditOp) (t : Line) (hop : op ≠ .replace) :
    flat (addLine acc op t) = flat acc ++ [(op, t)] := by
  rcases List.eq_nil_or_concat acc with rfl | ⟨init, e, rfl⟩
  · rw [addLine_nil]
    cases op <;> simp [flat, flatEdit] at hop ⊢
  · rw [List.concat_eq_append]
    by_cases h : e.op = op
    · subst h
      rw [addLine_concat_same]
      obtain ⟨op, X, Y⟩ := e
      cases op <;> simp [flat, flatEdit] at hop ⊢
    · rw [addLine_concat_ne _ _ _ _ h, flat_append]
      cases op <;> simp [flat, flatEdit] at hop ⊢

theorem flat_addLines (ps : List (EditOp × Line)) (h : NoRepl ps) (acc : List (Edit Line)) :
    flat (addLines acc ps) = flat acc ++ ps := by
  induction ps generalizing acc with
  | nil => simp [addLines]
  | cons p ps ih =>
    have h' : NoRepl ps := fun q hq => h q (by simp [hq])
    have : addLines acc (p :: ps) = addLines (addLine acc p.1 p.2) ps := rfl
    rw [this, ih h', flat_addLine _ _ _ (h p (by simp))]
    simp

/-- flattening what the reader rebuilds gives the lines that were written -/
theorem flat_regroup (es : List (Edit Line)) : flat (regroup es) = flat es := by
  rw [regroup, flat_addLines _ (noRepl_flat es)]; simp [flat]

theorem flatMap_unifiedEdit_regroup (es : List (Edit Line)) :
    (regroup es).flatMap unifiedEdit = es.flatMap unifiedEdit := by
  rw [flatMap_unifiedEdit, flatMap_unifiedEdit, flat_regroup]

/-! ## the body loop of `readUnifiedChunk` -/

/-- the rest of the input is empty or begins with a line whose first byte is `'@'` -/
def HunkStart (rest : List Line) : Prop := rest = [] ∨ ∃ t ls, rest = ('@' :: t) :: ls

theorem readUnifiedBody_lines (ps : List (EditOp × Line)) (h : NoRepl ps) (rest : List Line)
    (ch : Chunk Line) :
    readUnifiedBody (ps.map wline ++ rest) ch
      = readUnifiedBody rest { ch with edits := addLines ch.edits ps } := by
  induction ps generalizing ch with
  | nil => simp [addLines]
  | cons p ps ih =>
    have h' : NoRepl ps := fun q hq => h q (by simp [hq])
    have hp := h p (by simp)
    obtain ⟨op, t⟩ := p
    simp only [List.map_cons, List.cons_append]
    cases op with
    | replace => exact absurd rfl hp
    | drop =>
      rw [wline, readUnifiedBody]
      simp only [MdiffFmt.rdUniEmit, MdiffFmt.rdUniDrop, show ¬ ('-' = ' ') by decide, if_false, if_true]
      rw [ih h']; rfl
    | emit =>
      rw [wline, readUnifiedBody]
      simp only [MdiffFmt.rdUniEmit, if_true]
      rw [ih h']; rfl
    | copy =>
      rw [wline, readUnifiedBody]
      simp only [MdiffFmt.rdUniEmit, MdiffFmt.rdUniDrop, MdiffFmt.rdUniCopy,
        show ¬ ('+' = ' ') by decide, show ¬ ('+' = '-') by decide, if_false, if_true]
      rw [ih h']; rfl

theorem readUnifiedBody_stop (rest : List Line) (ch : Chunk Line) (h : HunkStart rest) :
    readUnifiedBody rest ch = .ok ch rest := by
  rcases h with rfl | ⟨t, ls, rfl⟩
  · rfl
  · rw [readUnifiedBody]
    simp only [MdiffFmt.rdUniEmit, MdiffFmt.rdUniDrop, MdiffFmt.rdUniCopy, MdiffFmt.rdUniHunk,
      show ¬ ('@' = ' ') by decide, show ¬ ('@' = '-') by decide, show ¬ ('@' = '+') by decide,
      if_false, if_true]

/-- **body**: the lines written for `es`, followed by the end of input or the next hunk header,
are read back as `regroup es` -/
theorem readUnifiedBody_edits (es : List (Edit Line)) (rest : List Line) (h : HunkStart rest)
    (ls le rs re : Nat) :
    readUnifiedBody (es.flatMap unifiedEdit ++ rest) ⟨[], ls, le, rs, re⟩
      = .ok ⟨regroup es, ls, le, rs, re⟩ rest := by
  rw [flatMap_unifiedEdit, readUnifiedBody_lines _ (noRepl_flat es), readUnifiedBody_stop _ _ h]
  rfl

/-! ## `strings.Fields` on a hunk header -/

def NoSpace (w : Line) : Prop := ∀ c ∈ w, isSpace c = false

theorem fieldsAux_word (w : Line) (h : NoSpace w) (rest cur : Line) :
    fieldsAux (w ++ rest) cur = fieldsAux rest (w.reverse ++ cur) := by
  induction w generalizing cur with
  | nil => simp
  | cons c w ih =>
    have hc : isSpace c = false := h c (by simp)
    have hw : NoSpace w := fun d hd => h d (by simp [hd])
    simp only [List.cons_append, fieldsAux, hc, Bool.false_eq_true, if_false]
    rw [ih hw]; simp

theorem fieldsAux_space (rest cur : Line) (h : cur ≠ []) :
    fieldsAux (' ' :: rest) cur = cur.reverse :: fieldsAux rest [] := by
  have : isSpace ' ' = true := by decide
  simp only [fieldsAux, this, if_true, if_neg h]

theorem fieldsAux_end (cur : Line) (h : cur ≠ []) : fieldsAux [] cur = [cur.reverse] := by
  simp only [fieldsAux, if_neg h]

/-- a word followed by a space and more text -/
theorem fields_word_space (w : Line) (h : NoSpace w) (hne : w ≠ []) (rest : Line) :
    fieldsAux (w ++ ' ' :: rest) [] = w :: fieldsAux rest [] := by
  rw [fieldsAux_word w h, fieldsAux_space _ _ (by simpa using hne)]; simp

theorem fields_word_end (w : Line) (h : NoSpace w) (hne : w ≠ []) :
    fieldsAux w [] = [w] := by
  have := fieldsAux_word w h [] []
  rw [List.append_nil] at this
  rw [this, fieldsAux_end _ (by simpa using hne)]; simp

theorem fields_four (w1 w2 w3 w4 : Line) (h1 : NoSpace w1) (h2 : NoSpace w2) (h3 : NoSpace w3)
    (h4 : NoSpace w4) (n1 : w1 ≠ []) (n2 : w2 ≠ []) (n3 : w3 ≠ []) (n4 : w4 ≠ []) :
    fields (w1 ++ ' ' :: (w2 ++ ' ' :: (w3 ++ ' ' :: w4))) = [w1, w2, w3, w4] := by
  rw [fields, fields_word_space w1 h1 n1, fields_word_space w2 h2 n2, fields_word_space w3 h3 n3,
    fields_word_end w4 h4 n4]

theorem digit_noSpace {c : Char} (h : c.isDigit = true) : isSpace c = false := by
  have n1 : c ≠ ' ' := digit_ne h (by decide)
  have n2 : c ≠ '\t' := digit_ne h (by decide)
  have n3 : c ≠ '\n' := digit_ne h (by decide)
  have n4 : c ≠ '\x0b' := digit_ne h (by decide)
  have n5 : c ≠ '\x0c' := digit_ne h (by decide)
  have n6 : c ≠ '\r' := digit_ne h (by decide)
  simp [isSpace, n1, n2, n3, n4, n5, n6]

/-- the characters of `uspan`: the side byte, digits, commas -/
theorem uspan_chars (side : Char) (s e : Nat) :
    ∀ c ∈ uspan [side] s e, c = side ∨ c.isDigit = true ∨ c = ',' := by
  intro c hc
  rw [uspan_eq] at hc
  split at hc
  · simp only [List.mem_append, List.mem_cons, List.not_mem_nil, or_false] at hc
    rcases hc with h | h
    · exact Or.inl h
    · exact Or.inr (Or.inl (itoa_digit _ c h))
  · simp only [List.mem_append, List.mem_cons, List.not_mem_nil, or_false] at hc
    rcases hc with (h | h) | h | h
    · exact Or.inl h
    · exact Or.inr (Or.inl (itoa_digit _ c h))
    · exact Or.inr (Or.inr h)
    · exact Or.inr (Or.inl (itoa_digit _ c h))

theorem uspan_noSpace (side : Char) (hs : isSpace side = false) (s e : Nat) :
    NoSpace (uspan [side] s e) := by
  intro c hc
  rcases uspan_chars side s e c hc with rfl | h | rfl
  · exact hs
  · exact digit_noSpace h
  · decide

theorem uspan_noNl (side : Char) (hs : side ≠ '\n') (s e : Nat) : NoNl (uspan [side] s e) := by
  intro hc
  rcases uspan_chars side s e _ hc with h | h | h
  · exact hs h.symm
  · exact absurd h (by decide)
  · exact absurd h (by decide)

theorem uspan_ne_nil (side : Char) (s e : Nat) : uspan [side] s e ≠ [] := by
  rw [uspan_eq]; split <;> simp

/-! ## the hunk header -/

/-- the `@@ -l,n +r,m @@` line -/
def hunkLine (ls le rs re : Nat) : Line :=
  str "@@ " ++ uspan ['-'] ls le ++ [' '] ++ uspan ['+'] rs re ++ str " @@"

theorem hunkLine_eq (ls le rs re : Nat) :
    hunkLine ls le rs re
      = ['@', '@'] ++ ' ' :: (uspan ['-'] ls le ++ ' ' :: (uspan ['+'] rs re ++ ' ' :: ['@', '@'])) := by
  have e1 : str "@@ " = ['@', '@', ' '] := rfl
  have e2 : str " @@" = [' ', '@', '@'] := rfl
  simp [hunkLine, e1, e2]

theorem hunkLine_head (ls le rs re : Nat) : ∃ t, hunkLine ls le rs re = '@' :: t := by
  rw [hunkLine_eq]; exact ⟨_, rfl⟩

theorem fields_hunkLine (ls le rs re : Nat) :
    fields (hunkLine ls le rs re) = [['@', '@'], uspan ['-'] ls le, uspan ['+'] rs re, ['@', '@']] := by
  rw [hunkLine_eq]
  exact fields_four _ _ _ _ (by unfold NoSpace; decide) (uspan_noSpace '-' (by decide) _ _)
    (uspan_noSpace '+' (by decide) _ _) (by unfold NoSpace; decide) (by simp) (uspan_ne_nil _ _ _)
    (uspan_ne_nil _ _ _) (by simp)

theorem unifiedChunk_eq (c : Chunk Line) :
    unifiedChunk c = hunkLine c.lstart c.lend c.rstart c.rend :: c.edits.flatMap unifiedEdit := rfl

/-- **hunk**: header and body of one chunk, followed by the end of input or the next hunk header;
needs `start ≤ end` and no range of exactly one line (F5) -/
theorem readUnifiedChunk_chunk (es : List (Edit Line)) (ls le rs re : Nat) (rest : List Line)
    (h : HunkStart rest) (hl : ls ≤ le) (hr : rs ≤ re) (hl1 : le - ls ≠ 1) (hr1 : re - rs ≠ 1) :
    readUnifiedChunk (hunkLine ls le rs re :: (es.flatMap unifiedEdit ++ rest))
      = .ok ⟨regroup es, ls, le, rs, re⟩ rest := by
  have e : str "@@" = ['@', '@'] := rfl
  rw [readUnifiedChunk, fields_hunkLine]
  simp only [e, ne_eq, not_true_eq_false, or_self, if_false, parseSpan_uspan, if_neg hl1, if_neg hr1,
    MdiffFmt.uniLStart, MdiffFmt.uniLEnd, MdiffFmt.uniRStart, MdiffFmt.uniREnd]
  have e1 : ls + (le - ls) = le := by omega
  have e2 : rs + (re - rs) = re := by omega
  rw [e1, e2]
  exact readUnifiedBody_edits es rest h ls le rs re

/-! ## the loop over hunks -/

/-- the chunk `ReadUnified` returns for a written chunk -/
def regroupChunk (c : Chunk Line) : Chunk Line := { c with edits := regroup c.edits }

def RangesOK (c : Chunk Line) : Prop :=
  c.lstart ≤ c.lend ∧ c.rstart ≤ c.rend ∧ c.lend - c.lstart ≠ 1 ∧ c.rend - c.rstart ≠ 1

theorem hunkStart_chunks (cs : List (Chunk Line)) : HunkStart (cs.flatMap unifiedChunk) := by
  cases cs with
  | nil => exact Or.inl rfl
  | cons c cs =>
    obtain ⟨t, ht⟩ := hunkLine_head c.lstart c.lend c.rstart c.rend
    exact Or.inr ⟨t, c.edits.flatMap unifiedEdit ++ cs.flatMap unifiedChunk, by
      rw [List.flatMap_cons, unifiedChunk_eq, ht]; rfl⟩

theorem readUnifiedChunks_chunks (cs : List (Chunk Line)) (hok : ∀ c ∈ cs, RangesOK c) :
    ∀ (acc : List (Chunk Line)) (f : Nat), (cs.flatMap unifiedChunk).length + 1 ≤ f →
      readUnifiedChunks f (cs.flatMap unifiedChunk) acc = some (acc ++ cs.map regroupChunk) := by
  induction cs with
  | nil =>
    intro acc f hf
    obtain ⟨f0, rfl⟩ : ∃ f0, f = f0 + 1 := ⟨f - 1, by omega⟩
    simp [readUnifiedChunks, readUnifiedChunk]
  | cons c cs ih =>
    intro acc f hf
    obtain ⟨f0, rfl⟩ : ∃ f0, f = f0 + 1 := ⟨f - 1, by omega⟩
    obtain ⟨h1, h2, h3, h4⟩ := hok c (by simp)
    have e : (c :: cs).flatMap unifiedChunk
        = hunkLine c.lstart c.lend c.rstart c.rend
            :: (c.edits.flatMap unifiedEdit ++ cs.flatMap unifiedChunk) := by
      rw [List.flatMap_cons, unifiedChunk_eq]; rfl
    rw [e] at hf ⊢
    rw [readUnifiedChunks, readUnifiedChunk_chunk _ _ _ _ _ _ (hunkStart_chunks cs) h1 h2 h3 h4]
    simp only
    rw [ih (fun c' hc' => hok c' (by simp [hc'])) _ f0
      (by simp only [List.length_cons, List.length_append] at hf; omega)]
    simp [regroupChunk]

end MdsVerif.Proofs.MdiffUnified
