import MdsVerif.Proofs.Lcs
import MdsVerif.Spec.EditScript
/-!
# The greedy re-matching loop of `editScriptFunc` (model: `Model.Edit.scriptLoop`)

Ported from `design-prototypes/Edit.lean` and extended by canonicity and the empty-iff-equal
rule.  Loop invariant: `Opt l r c` — the remaining `lcs[i:]` is a common subsequence of the
remaining `lhs[lpos:]`, `rhs[rpos:]` that no common subsequence exceeds.  `Spans es l r` is the
suffix form of validity (each `X`/`Y` is a prefix of what is left); `spans_validFrom` turns it into
the offset form `Spec.EditScript.ValidFrom`.
-/
namespace MdsVerif.Proofs.EditScript
open List MdsVerif.Model.Edit MdsVerif.Spec.Subseq MdsVerif.Spec.EditScript MdsVerif.Proofs.Lcs

variable {α : Type}

/-! ## the model functions with the regenerated facts (`Gen.Edit`) written out

The proofs below unfold `gapEdits`, `tailEdits`, `scriptLoop`, `dropSingleEmit` only through these lemmas;
each stops compiling when the corresponding expression of slice/edit.go changes. -/
section facts
open MdsVerif.Gen.Edit

/-- the fuse rule as written in edit.go, on the gap `dl = lhs[lpos:lend]`, `dr = rhs[rpos:rend]` -/
theorem gapEdits_def (dl dr : List α) :
    gapEdits dl dr =
      (if dl.length > 0 ∧ dr.length > 0 then [Edit.mk .replace dl dr]
       else if dl.length > 0 then (if dr.length > 0 then [Edit.mk .drop dl [], Edit.mk .copy [] dr] else [Edit.mk .drop dl []])
       else if dr.length > 0 then [Edit.mk .copy [] dr] else []) := by
  cases dl <;> cases dr <;>
    simp [gapEdits, gapEditsWith, gapReplace, gapDrop, gapCopy, gapReplaceRpos] <;> omega

/-- the trailing gap `dl = lhs[lpos:]`, `dr = rhs[rpos:]` after the loop, as written in edit.go -/
theorem tailEdits_def (dl dr : List α) :
    tailEdits dl dr =
      (if dl.length > 0 ∧ dr.length > 0 then [Edit.mk .replace dl dr]
       else if dl.length > 0 then (if dr.length > 0 then [Edit.mk .drop dl [], Edit.mk .copy [] dr] else [Edit.mk .drop dl []])
       else if dr.length > 0 then [Edit.mk .copy [] dr] else []) := by
  cases dl <;> cases dr <;>
    simp [tailEdits, gapEditsWith, tailReplace, tailDrop, tailCopy, tailReplaceRpos] <;> omega

/-- the trailing gap is handled by the same case analysis -/
theorem tailEdits_eq (dl dr : List α) : tailEdits dl dr = gapEdits dl dr := by
  rw [tailEdits_def, gapEdits_def]

theorem scriptLoop_zero (eq : α → α → Bool) (l r c : List α) : scriptLoop eq 0 l r c = none := by
  simp [scriptLoop]

theorem scriptLoop_nil (eq : α → α → Bool) (f : Nat) (l r : List α) :
    scriptLoop eq (f + 1) l r [] = some (gapEdits l r) := by
  simp [scriptLoop, tailEdits_eq]

/-- one iteration: the two scans, `m := 1` and the run extension, the Emit `lhs[lpos : lpos+m]`, the advance -/
theorem scriptLoop_cons (eq : α → α → Bool) (f : Nat) (l r : List α) (x : α) (c : List α) :
    scriptLoop eq (f + 1) l r (x :: c) =
      (do let (dl, l') ← scanTo eq x l
          let (dr, r') ← scanTo eq x r
          let m1 ← runLen eq (l'.drop 1) (r'.drop 1) c
          let rest ← scriptLoop eq f (l'.drop (1 + m1)) (r'.drop (1 + m1)) (c.drop m1)
          pure (gapEdits dl dr ++ Edit.mk .emit (l'.take (1 + m1)) [] :: rest)) := by
  simp only [scriptLoop, runFirst, emitFrom, emitLo, emitHi, List.drop_zero, Nat.sub_zero, Nat.zero_add,
    List.drop_succ_cons, Nat.add_comm 1]

theorem dropSingleEmit_def (out : List (Edit α)) :
    dropSingleEmit out = match out with
      | [e] => if e.op = .emit then [] else out
      | _ => out := by
  match out with
  | [] => simp [dropSingleEmit]
  | [e] => by_cases h : e.op = .emit <;> simp [dropSingleEmit, singleLen, singleOp, EditOp.ofGen, h]
  | _ :: _ :: _ => simp [dropSingleEmit, singleLen]; omega

end facts

/-- `c` is a common subsequence of `l`, `r` of maximal length -/
def Opt (l r c : List α) : Prop :=
  c <+ l ∧ c <+ r ∧ ∀ s, s <+ l → s <+ r → s.length ≤ c.length

/-- suffix form of validity: executing `es` consumes exactly `l` and produces exactly `r` -/
def Spans : List (Edit α) → List α → List α → Prop
  | [], l, r => l = [] ∧ r = []
  | e :: es, l, r =>
    match e.op with
    | .drop => e.Y = [] ∧ ∃ l', l = e.X ++ l' ∧ Spans es l' r
    | .emit => e.Y = [] ∧ ∃ l' r', l = e.X ++ l' ∧ r = e.X ++ r' ∧ Spans es l' r'
    | .copy => e.X = [] ∧ ∃ r', r = e.Y ++ r' ∧ Spans es l r'
    | .replace => ∃ l' r', l = e.X ++ l' ∧ r = e.Y ++ r' ∧ Spans es l' r'

theorem isSpan_append (pl X l' : List α) : IsSpan (pl ++ (X ++ l')) pl.length X := by
  unfold IsSpan
  rw [List.drop_left]
  exact List.prefix_append X l'

/-- from the suffix form to the offset form -/
theorem spans_validFrom : ∀ (es : List (Edit α)) (l r pl pr : List α), Spans es l r →
    ValidFrom (pl ++ l) (pr ++ r) es pl.length pr.length := by
  intro es
  induction es with
  | nil =>
    intro l r pl pr h
    obtain ⟨h1, h2⟩ := h
    subst h1; subst h2
    simp [ValidFrom]
  | cons e es ih =>
    intro l r pl pr h
    obtain ⟨op, X, Y⟩ := e
    cases op
    · -- drop
      obtain ⟨hY, l', hl, hs⟩ := h
      simp only at hY hl
      subst hl
      have := ih l' r (pl ++ X) pr hs
      simp only [List.append_assoc, List.length_append] at this
      simp only [ValidFrom]
      exact ⟨isSpan_append pl X l', hY, this⟩
    · -- emit
      obtain ⟨hY, l', r', hl, hr, hs⟩ := h
      simp only at hY hl hr
      subst hl; subst hr
      have := ih l' r' (pl ++ X) (pr ++ X) hs
      simp only [List.append_assoc, List.length_append] at this
      simp only [ValidFrom]
      exact ⟨isSpan_append pl X l', isSpan_append pr X r', hY, this⟩
    · -- copy
      obtain ⟨hX, r', hr, hs⟩ := h
      simp only at hX hr
      subst hr
      have := ih l r' pl (pr ++ Y) hs
      simp only [List.append_assoc, List.length_append] at this
      simp only [ValidFrom]
      exact ⟨hX, isSpan_append pr Y r', this⟩
    · -- replace
      obtain ⟨l', r', hl, hr, hs⟩ := h
      simp only at hl hr
      subst hl; subst hr
      have := ih l' r' (pl ++ X) (pr ++ Y) hs
      simp only [List.append_assoc, List.length_append] at this
      simp only [ValidFrom]
      exact ⟨isSpan_append pl X l', isSpan_append pr Y r', this⟩

/-- the script starts with a non-Emit edit (or is empty) -/
def StartsNonEmit (es : List (Edit α)) : Prop := ∀ e es', es = e :: es' → e.op ≠ .emit

/-- the first elements, if both exist, differ -/
def HeadsDiffer (l r : List α) : Prop := ∀ y y' l0 r0, l = y :: l0 → r = y' :: r0 → y ≠ y'

/-! ## the fuse rule -/

theorem gapEdits_cases (dl dr : List α) :
    (dl = [] ∧ dr = [] ∧ gapEdits dl dr = []) ∨
    (dl ≠ [] ∧ dr = [] ∧ gapEdits dl dr = [⟨.drop, dl, []⟩]) ∨
    (dl = [] ∧ dr ≠ [] ∧ gapEdits dl dr = [⟨.copy, [], dr⟩]) ∨
    (dl ≠ [] ∧ dr ≠ [] ∧ gapEdits dl dr = [⟨.replace, dl, dr⟩]) := by
  cases dl <;> cases dr <;> simp [gapEdits_def]

theorem spans_gap (dl dr : List α) (es : List (Edit α)) (l r : List α) (h : Spans es l r) :
    Spans (gapEdits dl dr ++ es) (dl ++ l) (dr ++ r) := by
  rcases gapEdits_cases dl dr with ⟨h1, h2, h3⟩ | ⟨_, h2, h3⟩ | ⟨h1, _, h3⟩ | ⟨_, _, h3⟩
  · subst h1; subst h2; rw [h3]; simpa using h
  · subst h2; rw [h3]; exact ⟨rfl, l, rfl, by simpa using h⟩
  · subst h1; rw [h3]; exact ⟨rfl, r, rfl, by simpa using h⟩
  · rw [h3]; exact ⟨l, r, rfl, rfl, h⟩

theorem emitted_gap (dl dr : List α) (es : List (Edit α)) :
    emitted (gapEdits dl dr ++ es) = emitted es := by
  rcases gapEdits_cases dl dr with ⟨_, _, h3⟩ | ⟨_, _, h3⟩ | ⟨_, _, h3⟩ | ⟨_, _, h3⟩ <;>
    rw [h3] <;> simp [emitted]

theorem nonEmpty_gap (dl dr : List α) : ∀ e ∈ gapEdits dl dr, NonEmpty e := by
  rcases gapEdits_cases dl dr with ⟨_, _, h3⟩ | ⟨h1, _, h3⟩ | ⟨_, h2, h3⟩ | ⟨h1, h2, h3⟩ <;>
    rw [h3] <;> simp [NonEmpty, *]

theorem startsNonEmit_gap (dl dr : List α) : StartsNonEmit (gapEdits dl dr) := by
  intro e es' he
  rcases gapEdits_cases dl dr with ⟨_, _, h3⟩ | ⟨_, _, h3⟩ | ⟨_, _, h3⟩ | ⟨_, _, h3⟩ <;>
    rw [h3] at he <;> simp at he <;> (try (obtain ⟨he, _⟩ := he; subst he; simp))

theorem alternates_gap (dl dr : List α) : Alternates (gapEdits dl dr) := by
  rcases gapEdits_cases dl dr with ⟨_, _, h3⟩ | ⟨_, _, h3⟩ | ⟨_, _, h3⟩ | ⟨_, _, h3⟩ <;>
    rw [h3] <;> simp [Alternates]

/-- a gap followed by an Emit followed by a script that does not start with an Emit -/
theorem alternates_gap_emit (dl dr X : List α) (rest : List (Edit α))
    (h1 : Alternates rest) (h2 : StartsNonEmit rest) :
    Alternates (gapEdits dl dr ++ ⟨.emit, X, []⟩ :: rest) := by
  have hemit : Alternates (⟨.emit, X, []⟩ :: rest) := by
    cases rest with
    | nil => simp [Alternates]
    | cons f rest' =>
      exact ⟨Or.inl ⟨rfl, h2 f rest' rfl⟩, h1⟩
  rcases gapEdits_cases dl dr with ⟨_, _, h3⟩ | ⟨_, _, h3⟩ | ⟨_, _, h3⟩ | ⟨_, _, h3⟩ <;> rw [h3]
  · simpa using hemit
  · exact ⟨Or.inr ⟨by simp, rfl⟩, hemit⟩
  · exact ⟨Or.inr ⟨by simp, rfl⟩, hemit⟩
  · exact ⟨Or.inr ⟨by simp, rfl⟩, hemit⟩

/-! ## the scans -/

variable {eq : α → α → Bool}

theorem scanTo_spec (heq : ∀ a b, eq a b = true ↔ a = b) (x : α) :
    ∀ (l c : List α), (x :: c) <+ l →
    ∃ d l0, scanTo eq x l = some (d, x :: l0) ∧ l = d ++ x :: l0 ∧ c <+ l0 ∧
      (d = [] → ∃ l0', l = x :: l0') := by
  intro l
  induction l with
  | nil => intro c h; cases h
  | cons a l ih =>
    intro c h
    by_cases hax : a = x
    · subst hax
      have he : eq a a = true := (heq a a).mpr rfl
      exact ⟨[], l, by simp [scanTo, he], rfl, tail_sub_ h, fun _ => ⟨l, rfl⟩⟩
    · have he : eq a x = false := by
        cases h' : eq a x
        · rfl
        · exact absurd ((heq a x).mp h') hax
      rcases List.sublist_cons_iff.mp h with h' | ⟨r, hr, _⟩
      · obtain ⟨d, l0, hs, hl, hc, _⟩ := ih c h'
        exact ⟨a :: d, l0, by simp [scanTo, he, hs], by simp [hl], hc, by simp⟩
      · cases hr; exact absurd rfl hax
where
  tail_sub_ {c : α} {s' l : List α} {a : α} (h : (c :: s') <+ (a :: l)) : s' <+ l := by
    rcases List.sublist_cons_iff.mp h with h | ⟨r, hr, hs⟩
    · exact (List.sublist_cons_self c s').trans h
    · cases hr; exact hs

theorem tail_sub' {c : α} {s' l : List α} {a : α} (h : (c :: s') <+ (a :: l)) : s' <+ l := by
  rcases List.sublist_cons_iff.mp h with h | ⟨r, hr, hs⟩
  · exact (List.sublist_cons_self c s').trans h
  · cases hr; exact hs

theorem opt_split {l r c dl l' dr r' : List α} {x : α} (h : Opt l r (x :: c))
    (hl : l = dl ++ x :: l') (hr : r = dr ++ x :: r') (hcl : c <+ l') (hcr : c <+ r') :
    Opt l' r' c := by
  refine ⟨hcl, hcr, ?_⟩
  intro s hs1 hs2
  have h1 : (x :: s) <+ l := by
    rw [hl]; exact (List.cons_sublist_cons.mpr hs1).trans (List.sublist_append_right _ _)
  have h2 : (x :: s) <+ r := by
    rw [hr]; exact (List.cons_sublist_cons.mpr hs2).trans (List.sublist_append_right _ _)
  have := h.2.2 _ h1 h2
  simpa using this

theorem opt_step {l r c : List α} {y z : α} (h : Opt (y :: l) (y :: r) (z :: c)) : Opt l r c := by
  refine ⟨tail_sub' h.1, tail_sub' h.2.1, ?_⟩
  intro s hs1 hs2
  have := h.2.2 (y :: s) (List.cons_sublist_cons.mpr hs1) (List.cons_sublist_cons.mpr hs2)
  simpa using this

theorem runLen_nil (l r : List α) : runLen eq l r [] = some 0 := by
  cases l <;> cases r <;> simp [runLen]

/-- the run extension never reads out of range, extends by a common prefix, keeps `Opt`, and stops
either at the end of `lcs` or where the next elements differ -/
theorem runLen_spec (heq : ∀ a b, eq a b = true ↔ a = b) : ∀ (c l r : List α), Opt l r c →
    ∃ m, runLen eq l r c = some m ∧ m ≤ c.length ∧ m ≤ l.length ∧ l.take m = r.take m ∧
      Opt (l.drop m) (r.drop m) (c.drop m) ∧
      (c.drop m = [] ∨ HeadsDiffer (l.drop m) (r.drop m)) := by
  intro c
  induction c with
  | nil =>
    intro l r h
    exact ⟨0, runLen_nil l r, by simp, by simp, by simp, by simpa using h, Or.inl (by simp)⟩
  | cons z c ih =>
    intro l r h
    match l, r, h with
    | [], _, h => cases h.1
    | _ :: _, [], h => cases h.2.1
    | y :: l, y' :: r, h =>
      by_cases hy : y = y'
      · subst hy
        have he : eq y y = true := (heq y y).mpr rfl
        obtain ⟨m, hm, h1, h2, h3, h4, h5⟩ := ih l r (opt_step h)
        refine ⟨m + 1, by simp [runLen, he, hm], by simp; omega, by simp; omega, by simp [h3],
          by simpa using h4, by simpa using h5⟩
      · have he : eq y y' = false := by
          cases h' : eq y y'
          · rfl
          · exact absurd ((heq y y').mp h') hy
        refine ⟨0, by simp [runLen, he], by simp, by simp, by simp, by simpa using h, Or.inr ?_⟩
        intro a a' l0 r0 h1 h2
        simp at h1 h2
        rw [← h1.1, ← h2.1]; exact hy

/-! ## the loop -/

/-- **EditScript core**: with a maximal common subsequence `c` the loop never indexes out of
range and never runs out of fuel; its output is valid, emits `|c|` elements, has no empty edit,
alternates, and starts with a non-Emit when `c = []` or the inputs start differently. -/
theorem scriptLoop_spec (heq : ∀ a b, eq a b = true ↔ a = b) :
    ∀ (fuel : Nat) (c l r : List α), c.length < fuel → Opt l r c →
    ∃ es, scriptLoop eq fuel l r c = some es ∧ Spans es l r ∧ emitted es = c.length ∧
      (∀ e ∈ es, NonEmpty e) ∧ Alternates es ∧
      ((c = [] ∨ HeadsDiffer l r) → StartsNonEmit es) := by
  intro fuel
  induction fuel with
  | zero => intro c l r h; omega
  | succ f ih =>
    intro c l r hf h
    cases c with
    | nil =>
      refine ⟨gapEdits l r, by simp [scriptLoop_nil], ?_, ?_, nonEmpty_gap l r, alternates_gap l r,
        fun _ => startsNonEmit_gap l r⟩
      · have := spans_gap l r [] [] [] ⟨rfl, rfl⟩
        simpa using this
      · have := emitted_gap l r []
        simpa [emitted] using this
    | cons x c =>
      obtain ⟨dl, l0, hsl, hl, hcl, hdl⟩ := scanTo_spec heq x l c h.1
      obtain ⟨dr, r0, hsr, hr, hcr, hdr⟩ := scanTo_spec heq x r c h.2.1
      have ho := opt_split h hl hr hcl hcr
      obtain ⟨m1, hm, hm1, hm2, htake, ho2, hstop⟩ := runLen_spec heq c l0 r0 ho
      obtain ⟨rest, hrest, hsp, hem, hne, halt, hstart⟩ :=
        ih (c.drop m1) (l0.drop m1) (r0.drop m1) (by simp at hf ⊢; omega) ho2
      have hstart' := hstart hstop
      refine ⟨gapEdits dl dr ++ ⟨.emit, x :: l0.take m1, []⟩ :: rest, ?_, ?_, ?_, ?_, ?_, ?_⟩
      · simp [scriptLoop_cons, hsl, hsr, hm, hrest, Nat.add_comm 1 m1]
      · rw [hl, hr]
        apply spans_gap
        refine ⟨rfl, l0.drop m1, r0.drop m1, ?_, ?_, hsp⟩
        · simp
        · simp only [List.cons_append, htake, List.take_append_drop]
      · rw [emitted_gap]
        simp only [emitted, if_true, List.length_cons, List.length_take, hem, List.length_drop]
        omega
      · intro e he
        rcases List.mem_append.mp he with he | he
        · exact nonEmpty_gap dl dr e he
        · rcases List.mem_cons.mp he with he | he
          · subst he; simp [NonEmpty]
          · exact hne e he
      · exact alternates_gap_emit dl dr _ rest halt hstart'
      · intro hc
        rcases hc with hc | hc
        · cases hc
        · intro e es' hes
          rcases gapEdits_cases dl dr with ⟨h1, h2, _⟩ | ⟨_, _, h3⟩ | ⟨_, _, h3⟩ | ⟨_, _, h3⟩
          · obtain ⟨l0', hl'⟩ := hdl h1
            obtain ⟨r0', hr'⟩ := hdr h2
            exact absurd rfl (hc x x l0' r0' hl' hr')
          all_goals
            rw [h3] at hes
            simp at hes
            obtain ⟨hes, _⟩ := hes
            subst hes
            simp

/-! ## equal inputs -/

theorem runLen_self (heq : ∀ a b, eq a b = true ↔ a = b) :
    ∀ t : List α, runLen eq t t t = some t.length := by
  intro t
  induction t with
  | nil => simp [runLen]
  | cons y t ih =>
    have he : eq y y = true := (heq y y).mpr rfl
    simp [runLen, he, ih]

theorem scriptLoop_self (heq : ∀ a b, eq a b = true ↔ a = b) (x : α) (t : List α) (f : Nat) :
    scriptLoop eq (f + 2) (x :: t) (x :: t) (x :: t) = some [⟨.emit, x :: t, []⟩] := by
  have he : eq x x = true := (heq x x).mpr rfl
  simp [scriptLoop_cons, scriptLoop_nil, scanTo, he, runLen_self heq t, Nat.add_comm 1 t.length, gapEdits_def]

/-! ## the whole function -/

theorem dropSingleEmit_cases (es : List (Edit α)) :
    (dropSingleEmit es = es ∧ ¬ ∃ e, es = [e] ∧ e.op = .emit) ∨
    (dropSingleEmit es = [] ∧ ∃ e, es = [e] ∧ e.op = .emit) := by
  match es with
  | [] => left; simp [dropSingleEmit_def]
  | [e] =>
    by_cases h : e.op = .emit
    · right; simp [dropSingleEmit_def, h]
    · left; simp [dropSingleEmit_def, h]
  | _ :: _ :: _ => left; simp [dropSingleEmit_def]

variable [DecidableEq α]

/-- the script before the single-emit special case -/
theorem rawScript_spec (heq : ∀ a b, eq a b = true ↔ a = b) (lhs rhs : List α) :
    ∃ es, rawScript? eq lhs rhs = some es ∧ Spans es lhs rhs ∧ emitted es = lcsLen lhs rhs ∧
      (∀ e ∈ es, NonEmpty e) ∧ Alternates es := by
  obtain ⟨c, hc, h1, h2, h3⟩ := lcsFunc_spec heq lhs rhs
  obtain ⟨es, hes, hsp, hem, hne, halt, _⟩ :=
    scriptLoop_spec heq (c.length + 1) c lhs rhs (by omega) ⟨h1, h2, h3⟩
  refine ⟨es, by simp [rawScript?, hc, hes], hsp, ?_, hne, halt⟩
  rw [hem]; exact length_eq_lcsLen h1 h2 h3

/-- equal inputs: the raw script is one Emit (or nothing), the returned script is empty -/
theorem editScriptFunc_self (heq : ∀ a b, eq a b = true ↔ a = b) (l : List α) :
    editScriptFunc? eq l l = some [] := by
  cases l with
  | nil => simp [editScriptFunc?, rawScript?, lcsFunc?_def, scriptLoop_nil, gapEdits_def, dropSingleEmit_def]
  | cons x t =>
    obtain ⟨c, hc, h1, _, h3⟩ := lcsFunc_spec heq (x :: t) (x :: t)
    have hlen := h3 (x :: t) (Sublist.refl _) (Sublist.refl _)
    have hce : c = x :: t := h1.eq_of_length_le hlen
    subst hce
    simp [editScriptFunc?, rawScript?, hc, scriptLoop_self heq x t t.length, dropSingleEmit_def]

/-- **editScriptFunc**: total, valid, minimal, canonical, empty iff equal. -/
theorem editScriptFunc_spec (heq : ∀ a b, eq a b = true ↔ a = b) (lhs rhs : List α) :
    ∃ es, editScriptFunc? eq lhs rhs = some es ∧ Valid es lhs rhs ∧
      (es ≠ [] → emitted es = lcsLen lhs rhs) ∧ Canonical es ∧ (es = [] ↔ lhs = rhs) := by
  obtain ⟨raw, hraw, hsp, hem, hne, halt⟩ := rawScript_spec heq lhs rhs
  have hfun : editScriptFunc? eq lhs rhs = some (dropSingleEmit raw) := by
    simp [editScriptFunc?, hraw]
  have hiff_l : lhs = rhs → dropSingleEmit raw = [] := by
    intro h
    subst h
    have := editScriptFunc_self heq lhs
    rw [hfun] at this
    exact Option.some.inj this
  rcases dropSingleEmit_cases raw with ⟨hd, _⟩ | ⟨hd, e, he, hop⟩
  · -- returned as is
    rw [hd] at hfun hiff_l
    refine ⟨raw, hfun, ?_, fun _ => hem, ⟨hne, halt⟩, ?_⟩
    · by_cases hnil : raw = []
      · subst hnil
        obtain ⟨h1, h2⟩ := hsp
        exact Or.inl ⟨rfl, by rw [h1, h2]⟩
      · have := spans_validFrom raw lhs rhs [] [] hsp
        exact Or.inr ⟨hnil, by simpa using this⟩
    · constructor
      · intro hnil
        subst hnil
        obtain ⟨h1, h2⟩ := hsp
        rw [h1, h2]
      · exact hiff_l
  · -- the single Emit is dropped
    have heq' : lhs = rhs := by
      subst he
      obtain ⟨op, X, Y⟩ := e
      simp only at hop
      subst hop
      obtain ⟨_, l', r', hl, hr, hl', hr'⟩ := hsp
      simp only at hl hr
      rw [hl, hr, hl', hr']
    rw [hd] at hfun
    exact ⟨[], hfun, Or.inl ⟨rfl, heq'⟩, fun h => absurd rfl h, ⟨by simp, by simp [Alternates]⟩,
      ⟨fun _ => heq', fun _ => rfl⟩⟩

/-! ## no valid script keeps more than `lcsLen` elements -/

omit [DecidableEq α] in
theorem isSpan_drop {l : List α} {i : Nat} {X : List α} (h : IsSpan l i X) :
    l.drop i = X ++ l.drop (i + X.length) := by
  obtain ⟨t, ht⟩ := h
  have : l.drop (i + X.length) = t := by
    rw [← List.drop_drop, ← ht, List.drop_left]
  rw [this, ht]

omit [DecidableEq α] in
/-- the emitted elements of a valid script form a common subsequence of what is left of both inputs -/
theorem validFrom_common (lhs rhs : List α) : ∀ (es : List (Edit α)) (i j : Nat),
    ValidFrom lhs rhs es i j →
    ∃ s, s <+ lhs.drop i ∧ s <+ rhs.drop j ∧ s.length = emitted es := by
  intro es
  induction es with
  | nil => intro i j _; exact ⟨[], nil_sublist _, nil_sublist _, rfl⟩
  | cons e es ih =>
    intro i j h
    obtain ⟨op, X, Y⟩ := e
    cases op <;> simp only [ValidFrom] at h
    · obtain ⟨h1, _, h3⟩ := h
      obtain ⟨s, s1, s2, s3⟩ := ih _ _ h3
      refine ⟨s, ?_, s2, by simp [emitted, s3]⟩
      rw [isSpan_drop h1]; exact s1.trans (List.sublist_append_right _ _)
    · obtain ⟨h1, h2, _, h4⟩ := h
      obtain ⟨s, s1, s2, s3⟩ := ih _ _ h4
      refine ⟨X ++ s, ?_, ?_, by simp [emitted, s3]⟩
      · rw [isSpan_drop h1]; exact List.Sublist.append (Sublist.refl _) s1
      · rw [isSpan_drop h2]; exact List.Sublist.append (Sublist.refl _) s2
    · obtain ⟨_, h2, h3⟩ := h
      obtain ⟨s, s1, s2, s3⟩ := ih _ _ h3
      refine ⟨s, s1, ?_, by simp [emitted, s3]⟩
      rw [isSpan_drop h2]; exact s2.trans (List.sublist_append_right _ _)
    · obtain ⟨h1, h2, h3⟩ := h
      obtain ⟨s, s1, s2, s3⟩ := ih _ _ h3
      refine ⟨s, ?_, ?_, by simp [emitted, s3]⟩
      · rw [isSpan_drop h1]; exact s1.trans (List.sublist_append_right _ _)
      · rw [isSpan_drop h2]; exact s2.trans (List.sublist_append_right _ _)

theorem validFrom_emitted_le (lhs rhs : List α) (es : List (Edit α))
    (h : ValidFrom lhs rhs es 0 0) : emitted es ≤ lcsLen lhs rhs := by
  obtain ⟨s, s1, s2, s3⟩ := validFrom_common lhs rhs es 0 0 h
  rw [← s3]
  exact lcsLen_upper lhs rhs s (by simpa using s1) (by simpa using s2)

omit [DecidableEq α] in
/-- what `Alternates` says about neighbours -/
theorem alternates_adjacent : ∀ (es : List (Edit α)), Alternates es →
    ∀ i (h : i + 1 < es.length), AdjOk es[i] es[i+1] := by
  intro es
  induction es with
  | nil => intro _ i h; simp at h
  | cons e es ih =>
    intro ha i h
    cases es with
    | nil => simp at h
    | cons f es' =>
      obtain ⟨h1, h2⟩ := ha
      cases i with
      | zero => simpa using h1
      | succ i =>
        have := ih h2 i (by simp at h ⊢; omega)
        simpa using this

end MdsVerif.Proofs.EditScript
