import MdsVerif.Proofs.MdiffUnified
/-!
# `ReadGitPatch` on git-style wrapped unified diffs (model `Model/MdiffFmt.lean`) — property C14

A git-style patch text is a sequence of sections `diff … / header lines … / --- a / +++ b / hunks`.
`readGitPatch` returns, for every section, the file names and, chunk for chunk, what `ReadUnified`
returns for the unified part (same F5 restriction: no range of exactly one line).
-/
namespace MdsVerif.Proofs.MdiffGit
open MdsVerif.Model.Edit MdsVerif.Model.Mdiff MdsVerif.Model.MdiffFmt
open MdsVerif.Proofs.MdiffFmt MdsVerif.Proofs.MdiffUnified
open MdsVerif.Gen

/-- the rest of the input is empty or begins with a `d…` line (the next `diff ` section) -/
def DiffStart (rest : List Line) : Prop := rest = [] ∨ ∃ t ls, rest = ('d' :: t) :: ls

theorem scanToPrefix_hit (pfx l : Line) (ls : List Line) (h : pfx.isPrefixOf l = true) :
    scanToPrefix pfx (l :: ls) = some (l :: ls) := by
  simp [scanToPrefix, h]

theorem scanToPrefix_skip (pfx : Line) (a b : List Line) (h : ∀ l ∈ a, pfx.isPrefixOf l = false) :
    scanToPrefix pfx (a ++ b) = scanToPrefix pfx b := by
  induction a with
  | nil => rfl
  | cons l a ih =>
    simp only [List.cons_append, scanToPrefix, h l (by simp), Bool.false_eq_true, if_false]
    exact ih (fun l' hl' => h l' (by simp [hl']))

theorem readUnifiedBody_diff (t : Line) (ls : List Line) (ch : Chunk Line) :
    readUnifiedBody (('d' :: t) :: ls) ch = .unexpected ch (('d' :: t) :: ls) := by
  rw [readUnifiedBody]
  simp only [MdiffFmt.rdUniEmit, MdiffFmt.rdUniDrop, MdiffFmt.rdUniCopy, MdiffFmt.rdUniHunk,
    show ¬ ('d' = ' ') by decide, show ¬ ('d' = '-') by decide, show ¬ ('d' = '+') by decide,
    show ¬ ('d' = '@') by decide, if_false]

/-- one hunk followed by the next `diff ` section: the chunk is appended and the caller is told
about the unexpected prefix -/
theorem readUnifiedChunk_chunk_diff (es : List (Edit Line)) (ls le rs re : Nat) (t : Line) (rest : List Line)
    (hl : ls ≤ le) (hr : rs ≤ re) (hl1 : le - ls ≠ 1) (hr1 : re - rs ≠ 1) :
    readUnifiedChunk (hunkLine ls le rs re :: (es.flatMap unifiedEdit ++ ('d' :: t) :: rest))
      = .unexpected ⟨regroup es, ls, le, rs, re⟩ (('d' :: t) :: rest) := by
  have e : str "@@" = ['@', '@'] := rfl
  rw [readUnifiedChunk, fields_hunkLine]
  simp only [e, ne_eq, not_true_eq_false, or_self, if_false, parseSpan_uspan, if_neg hl1, if_neg hr1,
    MdiffFmt.uniLStart, MdiffFmt.uniLEnd, MdiffFmt.uniRStart, MdiffFmt.uniREnd]
  have e1 : ls + (le - ls) = le := by omega
  have e2 : rs + (re - rs) = re := by omega
  rw [e1, e2, flatMap_unifiedEdit, readUnifiedBody_lines _ (noRepl_flat es), readUnifiedBody_diff]
  rfl

theorem hunkStart_append (cs : List (Chunk Line)) (hcs : cs ≠ []) (tail : List Line) :
    HunkStart (cs.flatMap unifiedChunk ++ tail) := by
  cases cs with
  | nil => exact absurd rfl hcs
  | cons c cs =>
    obtain ⟨t, ht⟩ := hunkLine_head c.lstart c.lend c.rstart c.rend
    exact Or.inr ⟨t, c.edits.flatMap unifiedEdit ++ cs.flatMap unifiedChunk ++ tail, by
      rw [List.flatMap_cons, unifiedChunk_eq, ht]; simp⟩

/-- the inner loop of `ReadGitPatch` over the hunks of one section, up to the end of input or the
next `diff ` line -/
theorem readGitChunks_chunks (cs : List (Chunk Line)) (hok : ∀ c ∈ cs, RangesOK c) (hcs : cs ≠ [])
    (tail : List Line) (htail : DiffStart tail) :
    ∀ (acc : List (Chunk Line)) (f : Nat), (cs.flatMap unifiedChunk ++ tail).length + 1 ≤ f →
      readGitChunks f (cs.flatMap unifiedChunk ++ tail) acc = some (acc ++ cs.map regroupChunk, tail) := by
  induction cs with
  | nil => exact absurd rfl hcs
  | cons c cs ih =>
    intro acc f hf
    obtain ⟨f0, rfl⟩ : ∃ f0, f = f0 + 1 := ⟨f - 1, by omega⟩
    obtain ⟨h1, h2, h3, h4⟩ := hok c (by simp)
    have e : (c :: cs).flatMap unifiedChunk ++ tail
        = hunkLine c.lstart c.lend c.rstart c.rend
            :: (c.edits.flatMap unifiedEdit ++ (cs.flatMap unifiedChunk ++ tail)) := by
      rw [List.flatMap_cons, unifiedChunk_eq]; simp
    rw [e] at hf ⊢
    by_cases hcs' : cs = []
    · subst hcs'
      simp only [List.flatMap_nil, List.nil_append, List.map_cons, List.map_nil] at hf ⊢
      rcases htail with rfl | ⟨t, ls, rfl⟩
      · rw [readGitChunks, readUnifiedChunk_chunk _ _ _ _ _ _ (Or.inl rfl) h1 h2 h3 h4]
        simp only
        obtain ⟨f1, rfl⟩ : ∃ f1, f0 = f1 + 1 := ⟨f0 - 1, by simp at hf; omega⟩
        simp [readGitChunks, readUnifiedChunk, regroupChunk]
      · rw [readGitChunks, readUnifiedChunk_chunk_diff _ _ _ _ _ _ _ h1 h2 h3 h4]
        simp [regroupChunk]
    · rw [readGitChunks, readUnifiedChunk_chunk _ _ _ _ _ _ (hunkStart_append cs hcs' tail) h1 h2 h3 h4]
      simp only
      rw [ih (fun c' hc' => hok c' (by simp [hc'])) hcs' _ f0
        (by simp only [List.length_cons, List.length_append] at hf ⊢; omega)]
      simp [regroupChunk]

/-- one section of a git-style patch: the lines before the unified header (the first begins with
`diff `, none begins with `--- `), the file info, the chunks -/
structure Section where
  pre : List Line
  fi : FileInfo
  chunks : List (Chunk Line)

def Section.text (s : Section) : List Line := s.pre ++ unified s.chunks (some s.fi)

def Section.OK (pt : Line → Option Line) (s : Section) : Prop :=
  (∃ t hs, s.pre = (str "diff " ++ t) :: hs) ∧ (∀ l ∈ s.pre, (str "--- ").isPrefixOf l = false) ∧
  s.chunks ≠ [] ∧ (∀ c ∈ s.chunks, RangesOK c) ∧ HeaderOK pt s.fi

def gitText (ss : List Section) : List Line := ss.flatMap Section.text

theorem diffStart_gitText (pt : Line → Option Line) (ss : List Section) (h : ∀ s ∈ ss, s.OK pt) :
    DiffStart (gitText ss) := by
  cases ss with
  | nil => exact Or.inl rfl
  | cons s ss =>
    obtain ⟨⟨t, hs, hp⟩, -⟩ := h s (by simp)
    refine Or.inr ⟨['i', 'f', 'f', ' '] ++ t, hs ++ unified s.chunks (some s.fi) ++ gitText ss, ?_⟩
    simp [gitText, Section.text, hp, str]

theorem readGitLoop_sections (pt : Line → Option Line) (ss : List Section) (h : ∀ s ∈ ss, s.OK pt) :
    ∀ (out : List Patch) (f : Nat), (gitText ss).length + 1 ≤ f → (ss = [] → out ≠ []) →
      readGitLoop pt f (gitText ss) out
        = some (out ++ ss.map fun s => ⟨some (normFi s.fi), s.chunks.map regroupChunk⟩) := by
  induction ss with
  | nil =>
    intro out f hf hout
    obtain ⟨f0, rfl⟩ : ∃ f0, f = f0 + 1 := ⟨f - 1, by omega⟩
    have : out.length ≠ 0 := by
      intro h0; exact hout rfl (List.eq_nil_of_length_eq_zero h0)
    simp [gitText, readGitLoop, scanToPrefix, this]
  | cons s ss ih =>
    intro out f hf _
    obtain ⟨f0, rfl⟩ : ∃ f0, f = f0 + 1 := ⟨f - 1, by omega⟩
    obtain ⟨⟨t, hs, hp⟩, hno, hcs, hok, hfi⟩ := h s (by simp)
    have hlen : s.chunks.length ≠ 0 := fun h0 => hcs (List.eq_nil_of_length_eq_zero h0)
    have etext : gitText (s :: ss)
        = s.pre ++ (fmtFileHeader (str "--- ") (orDefault s.fi.left ['a']) s.fi.leftTime ::
            fmtFileHeader (str "+++ ") (orDefault s.fi.right ['b']) s.fi.rightTime ::
            (s.chunks.flatMap unifiedChunk ++ gitText ss)) := by
      simp [gitText, Section.text, unified, hlen]
    rw [etext] at hf ⊢
    have hdiff : scanToPrefix (str "diff ")
        (s.pre ++ (fmtFileHeader (str "--- ") (orDefault s.fi.left ['a']) s.fi.leftTime ::
            fmtFileHeader (str "+++ ") (orDefault s.fi.right ['b']) s.fi.rightTime ::
            (s.chunks.flatMap unifiedChunk ++ gitText ss)))
        = some (s.pre ++ (fmtFileHeader (str "--- ") (orDefault s.fi.left ['a']) s.fi.leftTime ::
            fmtFileHeader (str "+++ ") (orDefault s.fi.right ['b']) s.fi.rightTime ::
            (s.chunks.flatMap unifiedChunk ++ gitText ss))) := by
      rw [hp, List.cons_append]
      exact scanToPrefix_hit _ _ _ (by simp [List.isPrefixOf_iff_prefix])
    have hhdr : scanToPrefix (str "--- ")
        (s.pre ++ (fmtFileHeader (str "--- ") (orDefault s.fi.left ['a']) s.fi.leftTime ::
            fmtFileHeader (str "+++ ") (orDefault s.fi.right ['b']) s.fi.rightTime ::
            (s.chunks.flatMap unifiedChunk ++ gitText ss)))
        = some (fmtFileHeader (str "--- ") (orDefault s.fi.left ['a']) s.fi.leftTime ::
            fmtFileHeader (str "+++ ") (orDefault s.fi.right ['b']) s.fi.rightTime ::
            (s.chunks.flatMap unifiedChunk ++ gitText ss)) := by
      rw [scanToPrefix_skip _ _ _ hno]
      exact scanToPrefix_hit _ _ _ (by simp [fmtFileHeader, List.isPrefixOf_iff_prefix, List.append_assoc])
    obtain ⟨h1, h2, h3, h4⟩ := hfi
    rw [readGitLoop, hdiff]
    simp only [hhdr, readUnifiedHeader_some pt _ _ _ _ _ h1.2 h2.2 h3 h4]
    rw [readGitChunks_chunks s.chunks hok hcs (gitText ss)
      (diffStart_gitText pt ss (fun s' hs' => h s' (by simp [hs']))) [] _ (Nat.le_refl _)]
    simp only [List.nil_append]
    rw [ih (fun s' hs' => h s' (by simp [hs'])) _ f0
      (by simp only [List.length_cons, List.length_append] at hf ⊢; omega) (fun _ => by simp)]
    simp [normFi]

end MdsVerif.Proofs.MdiffGit
