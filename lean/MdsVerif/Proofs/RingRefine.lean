import MdsVerif.Proofs.RingCycle
import MdsVerif.Spec.Cycles
/-!
# The ring register machine refines the list-of-cycles reference (helper lemmas for C10)

`Spec.Cycles` numbers elements in creation order along the cycle (`Of 1 2 3` creates ids
`n, n+1, n+2` whose cycle reads `[n, n+1, n+2]`), the model allocates heap cells in the order the
loop of `New` links them (`[n, n+2, n+1]`).  The simulation relation therefore carries a renaming
`ρ` of cells to element ids.  Outputs (`Out`) contain values, lengths and booleans only, never a
pointer, so the refinement theorem itself is an equality of output lists.
-/
namespace MdsVerif.Proofs.Ring
open MdsVerif.Model.Ring MdsVerif.Spec

/-! ## Part A: what `New`/`Of` allocate -/

/-- one iteration of the loop of `New`: only `next r` and the fresh cell's link change; one zero value is appended -/
theorem newStep_frame (h : Heap) (hi : Inv h) (r : Nat) (hr : r < h.size) :
    (∀ j, j ≠ r → j < h.size → (newLoop 1 h r).nx j = h.nx j) ∧ (newLoop 1 h r).vals = h.vals ++ [0] := by
  obtain ⟨i1, s1, e1, n1, p1, f1⟩ := newRing_inv h hi
  have hr1 : r < h.newRing.1.size := by omega
  have hre : r ≠ h.size := by omega
  refine ⟨?_, rfl⟩
  intro j hj hlt
  have hje : j ≠ h.size := by omega
  have : (newLoop 1 h r).nx j = h.newRing.1.nx j := by
    simp only [newLoop, e1, nx_setNext, nx_setPrev, size_setNext, size_setPrev]
    simp [hj, hje]
  rw [this]; exact (f1 j hlt).1

/-- the loop of `New` inserts exactly the `k` fresh cells `size … size+k-1` directly after `r`, touches no
other cell's `next` and appends `k` zero values -/
theorem newLoop_spec : ∀ (k : Nat) (h : Heap) (r : Nat) (as : List Nat), Inv h → Cyc h (r :: as) →
    ∃ mid, mid.length = k ∧ Cyc (newLoop k h r) (r :: (mid ++ as)) ∧ Inv (newLoop k h r) ∧
      (newLoop k h r).size = h.size + k ∧ (∀ x, x ∈ mid ↔ h.size ≤ x ∧ x < h.size + k) ∧
      (∀ j, j ≠ r → j < h.size → (newLoop k h r).nx j = h.nx j) ∧
      (newLoop k h r).vals = h.vals ++ List.replicate k 0 := by
  intro k
  induction k with
  | zero =>
    intro h r as hi hc
    exact ⟨[], rfl, by simpa [newLoop] using hc, hi, rfl, by intro x; simp, fun _ _ _ => rfl, by simp [newLoop]⟩
  | succ k ih =>
    intro h r as hi hc
    have hr : r < h.size := hc.bound r (by simp)
    obtain ⟨c1, i1, s1⟩ := newStep_cyc h hi r as hc
    obtain ⟨f1, v1⟩ := newStep_frame h hi r hr
    obtain ⟨mid, ml, c2, i2, s2, m2, f2, v2⟩ := ih (newLoop 1 h r) r (h.size :: as) i1 c1
    refine ⟨mid ++ [h.size], by simp [ml], ?_, ?_, ?_, ?_, ?_, ?_⟩
    · rw [newLoop_succ]; simpa using c2
    · rw [newLoop_succ]; exact i2
    · rw [newLoop_succ, s2, s1]; omega
    · intro x
      rw [List.mem_append, m2 x, s1]
      simp only [List.mem_singleton]
      omega
    · intro j hj hlt
      rw [newLoop_succ, f2 j hj (by omega), f1 j hj hlt]
    · rw [newLoop_succ, v2, v1, List.append_assoc]
      congr 1

/-- facts about a freshly allocated ring: `h'` extends `h` by the cells of one new cycle `r :: l`
carrying `vs`; nothing else changed -/
structure Alloc (h h' : Heap) (r : Nat) (l : List Nat) (vs : List Int) : Prop where
  cyc : Cyc h' (r :: l)
  inv : Inv h'
  size : h'.size = h.size + vs.length
  vals : (r :: l).map h'.val = vs
  fresh : ∀ x, x ∈ r :: l ↔ h.size ≤ x ∧ x < h'.size
  nx : ∀ j, j < h.size → h'.nx j = h.nx j
  val : ∀ j, j < h.size → h'.val j = h.val j

theorem val_append_left (h : Heap) (l : List Int) (j : Nat) (hj : j < h.vals.length) :
    (h.vals ++ l).getD j 0 = h.vals.getD j 0 := by
  simp [List.getD_eq_getElem?_getD, List.getElem?_append_left hj]

/-- `New(n)` for `n > 0`, before any value is set -/
theorem new_alloc (h : Heap) (hi : Inv h) (n : Int) (hn : 0 < n) :
    ∃ r l, (new h n).2 = some r ∧ Alloc h (new h n).1 r l (List.replicate n.toNat 0) := by
  obtain ⟨i1, s1, e1, n1, p1, f1⟩ := newRing_inv h hi
  have c0 : Cyc h.newRing.1 [h.size] := ⟨by simp, by simp [Lk, n1], by simp, by intro i hi; simp at hi; omega⟩
  obtain ⟨mid, ml, c1, i2, s2, m2, f2, v2⟩ := newLoop_spec (n.toNat - 1) h.newRing.1 h.size [] i1 c0
  have hnew : new h n = (newLoop (n.toNat - 1) h.newRing.1 h.size, some h.size) := by
    have : ¬ n ≤ 0 := by omega
    simp only [new, this, if_false, e1]
  simp only [List.append_nil] at c1
  have hv : h.newRing.1.vals = h.vals ++ [0] := rfl
  have hvals : (newLoop (n.toNat - 1) h.newRing.1 h.size).vals = h.vals ++ List.replicate n.toNat 0 := by
    rw [v2, hv, List.append_assoc]
    congr 1
    have : n.toNat = (n.toNat - 1) + 1 := by omega
    rw [this, List.replicate_succ]; simp
  have hsz : (newLoop (n.toNat - 1) h.newRing.1 h.size).size = h.size + n.toNat := by rw [s2, s1]; omega
  have hfresh : ∀ x, x ∈ h.size :: mid ↔ h.size ≤ x ∧ x < (newLoop (n.toNat - 1) h.newRing.1 h.size).size := by
    intro x; rw [List.mem_cons, m2 x, hsz, s1]; omega
  refine ⟨h.size, mid, by rw [hnew], ?_⟩
  rw [hnew]
  refine ⟨c1, i2, by rw [hsz]; simp, ?_, hfresh, ?_, ?_⟩
  · -- all fresh values are zero
    rw [List.eq_replicate_iff]
    refine ⟨by simp [ml]; omega, ?_⟩
    intro b hb
    obtain ⟨x, hx, rfl⟩ := List.mem_map.mp hb
    have hx' := (hfresh x).mp hx
    show (newLoop (n.toNat - 1) h.newRing.1 h.size).vals.getD x 0 = 0
    rw [hvals, List.getD_eq_getElem?_getD, List.getElem?_append_right (by rw [hi.vlen]; exact hx'.1)]
    rw [hsz] at hx'
    have : x - h.vals.length < n.toNat := by rw [hi.vlen]; show x - h.size < _; omega
    simp [this]
  · intro j hj
    rw [f2 j (by omega) (by omega)]; exact (f1 j hj).1
  · intro j hj
    show (newLoop (n.toNat - 1) h.newRing.1 h.size).vals.getD j 0 = h.vals.getD j 0
    rw [hvals]; exact val_append_left h _ j (by rw [hi.vlen]; exact hj)

/-- `Of(v, vs...)` -/
theorem of_alloc (h : Heap) (hi : Inv h) (v : Int) (vs : List Int) :
    ∃ r l, (of h (v :: vs)).2 = some r ∧ Alloc h (of h (v :: vs)).1 r l (v :: vs) := by
  have hpos : (0 : Int) < ((v :: vs).length : Nat) := by simp only [List.length_cons]; omega
  obtain ⟨r, l, e, a⟩ := new_alloc h hi _ hpos
  have hnew : new h ((v :: vs).length : Nat) = ((new h ((v :: vs).length : Nat)).1, some r) := by
    rw [← e]
  have hof := of_eq h (v :: vs) _ r hnew
  have hlen : (r :: l).length = (v :: vs).length := by
    have := congrArg List.length a.vals
    simpa using this
  have hb : ∀ i ∈ r :: l, i < (new h ((v :: vs).length : Nat)).1.vals.length := by
    intro i hi'; rw [a.inv.vlen]; exact a.cyc.bound i hi'
  obtain ⟨e1, e2, e3, e4⟩ := ofLoop_spec (v :: vs) (r :: l) _ r a.cyc.lk a.cyc.nodup hlen hb
  simp only [List.headD_cons] at e1 e2 e3 e4
  have hsz : (ofLoop (v :: vs) (new h ((v :: vs).length : Nat)).1 r).size = (new h ((v :: vs).length : Nat)).1.size :=
    congrArg List.length e1
  have hnx : ∀ k, (ofLoop (v :: vs) (new h ((v :: vs).length : Nat)).1 r).nx k = (new h ((v :: vs).length : Nat)).1.nx k := by
    intro k; show (ofLoop _ _ _).next.getD k 0 = _; rw [e1]; rfl
  refine ⟨r, l, by rw [hof], ?_⟩
  rw [hof]
  refine ⟨?_, (ofLoop_inv (v :: vs) _ r a.inv).1, ?_, e3, ?_, ?_, ?_⟩
  · exact cyc_frame _ _ _ a.cyc (by rw [hsz]; exact Nat.le_refl _) (fun k _ => hnx k)
  · show (ofLoop _ _ _).size = _
    rw [hsz, a.size]; simp
  · intro x; show x ∈ r :: l ↔ _ ∧ x < (ofLoop _ _ _).size
    rw [hsz]; exact a.fresh x
  · intro j hj; show (ofLoop _ _ _).nx j = _
    rw [hnx]; exact a.nx j hj
  · intro j hj; show (ofLoop _ _ _).val j = _
    rw [e4 j (fun hm => by have := (a.fresh j).mp hm; omega)]
    exact a.val j hj

/-! ## Part B: the simulation relation and the reference's `cycleOf` -/

theorem rot_at (a b : List Nat) (x : Nat) (hx : x ∉ a) :
    (a ++ x :: b).drop ((a ++ x :: b).idxOf x) ++ (a ++ x :: b).take ((a ++ x :: b).idxOf x) = x :: (b ++ a) := by
  have : (a ++ x :: b).idxOf x = a.length := by
    rw [List.idxOf_append, if_neg hx]; simp
  rw [this]; simp

/-- model state `s`, reference state `c`, renaming `ρ` of heap cells to element ids -/
structure Sim (s : St) (c : Cycles.C) (ρ : Nat → Nat) : Prop where
  rinv : RInv s
  vlen : c.vals.length = s.h.size
  rlt : ∀ i, i < s.h.size → ρ i < s.h.size
  rinj : ∀ i j, i < s.h.size → j < s.h.size → ρ i = ρ j → i = j
  val : ∀ i, i < s.h.size → c.val (ρ i) = s.h.val i
  regs : ∀ i, c.reg i = (s.reg i).map ρ
  rlen : c.regs.length = s.regs.length
  cyc : ∀ cy ∈ c.cycles, ∃ m, Cyc s.h m ∧ cy = m.map ρ
  cover : ∀ q, q < s.h.size → ∃ cy ∈ c.cycles, ρ q ∈ cy

theorem mem_map_rho {h : Heap} {ρ : Nat → Nat} (rinj : ∀ i j, i < h.size → j < h.size → ρ i = ρ j → i = j)
    {m : List Nat} (hm : ∀ i ∈ m, i < h.size) {q : Nat} (hq : q < h.size) : ρ q ∈ m.map ρ ↔ q ∈ m := by
  constructor
  · intro hx
    obtain ⟨x, hx, e⟩ := List.mem_map.mp hx
    have := rinj x q (hm x hx) hq e
    exact this ▸ hx
  · exact fun hx => List.mem_map.mpr ⟨q, hx, rfl⟩

/-- the reference's `cycleOf` of the id of `q` is the renamed model cycle read from `q` -/
theorem cycleOf_eq {s : St} {c : Cycles.C} {ρ : Nat → Nat} (hs : Sim s c ρ) (q : Nat) (l : List Nat)
    (hc : Cyc s.h (q :: l)) : c.cycleOf (ρ q) = (q :: l).map ρ := by
  have hq : q < s.h.size := hc.bound q (by simp)
  unfold Cycles.C.cycleOf
  cases hf : c.cycles.find? (·.contains (ρ q)) with
  | none =>
    obtain ⟨cy, hcy, hm⟩ := hs.cover q hq
    have := List.find?_eq_none.mp hf cy hcy
    simp at this; exact absurd hm this
  | some cy =>
    have hp := List.find?_some hf
    have hcy := List.mem_of_find?_eq_some hf
    obtain ⟨m, cm, rfl⟩ := hs.cyc cy hcy
    have hqm : q ∈ m := (mem_map_rho hs.rinj cm.bound hq).mp (by simpa using hp)
    obtain ⟨a, b, e, c'⟩ := cyc_from_mem s.h m cm q hqm
    have hl : b ++ a = l := cyc_unique s.h q _ _ c' hc
    subst e
    have hnd := cm.nodup
    rw [List.nodup_append] at hnd
    have hqa : ρ q ∉ a.map ρ := by
      intro hx
      have := (mem_map_rho hs.rinj (fun i hi => cm.bound i (by simp [hi])) hq).mp hx
      exact hnd.2.2 q this q (by simp) rfl
    simp only [List.map_append, List.map_cons]
    rw [rot_at _ _ _ hqa, ← hl]
    simp

/-! ## Part C: registers, observations -/

theorem creg_setReg (c : Cycles.C) (d : Nat) (p : Ptr) (i : Nat) :
    (c.setReg d p).reg i = if i = d ∧ d < c.regs.length then p else c.reg i := by
  simp only [Cycles.C.setReg, Cycles.C.reg, List.getD_eq_getElem?_getD, List.getElem?_set]
  by_cases h1 : d = i
  · subst h1
    by_cases hlt : d < c.regs.length <;> simp [hlt]
  · have : ¬ i = d := fun e => h1 e.symm
    simp [h1, this]

/-- re-establish the relation after an operation that allocates nothing: new heap with the same cells and
values, new list of reference cycles, one register assigned -/
theorem sim_same_cells {s : St} {c : Cycles.C} {ρ : Nat → Nat} (hs : Sim s c ρ) (h' : Heap)
    (cycles' : List (List Nat)) (d : Nat) (p : Ptr)
    (hi : Inv h') (hsz : h'.size = s.h.size) (hv : h'.vals = s.h.vals)
    (hp : ∀ q, p = some q → q < s.h.size)
    (hcyc : ∀ cy ∈ cycles', ∃ m, Cyc h' m ∧ cy = m.map ρ)
    (hcov : ∀ q, q < s.h.size → ∃ cy ∈ cycles', ρ q ∈ cy) :
    Sim ({ s with h := h' }.setReg d p) ({ c with cycles := cycles' }.setReg d (p.map ρ)) ρ := by
  have hh : ({ s with h := h' }.setReg d p).h = h' := rfl
  refine ⟨rinv_setReg s h' d p hs.rinv hi (by omega) (fun q hq => by rw [hsz]; exact hp q hq), ?_, ?_, ?_, ?_, ?_, ?_, ?_, ?_⟩
  · rw [hh, hsz]; exact hs.vlen
  · rw [hh, hsz]; exact hs.rlt
  · rw [hh, hsz]; exact hs.rinj
  · intro i hi'
    rw [hh, hsz] at hi'
    have := hs.val i hi'
    show c.vals.getD (ρ i) 0 = h'.vals.getD i 0
    rw [hv]; exact this
  · intro i
    rw [creg_setReg, reg_setReg]
    have h1 : ({ c with cycles := cycles' } : Cycles.C).regs.length = ({ s with h := h' } : St).regs.length := hs.rlen
    rw [h1]
    split
    · rfl
    · exact hs.regs i
  · simp [Cycles.C.setReg, St.setReg, hs.rlen]
  · exact hcyc
  · intro q hq; rw [hh, hsz] at hq; exact hcov q hq

/-- assigning a register, nothing else -/
theorem sim_setReg {s : St} {c : Cycles.C} {ρ : Nat → Nat} (hs : Sim s c ρ) (d : Nat) (p : Ptr)
    (hp : ∀ q, p = some q → q < s.h.size) : Sim (s.setReg d p) (c.setReg d (p.map ρ)) ρ :=
  sim_same_cells hs s.h c.cycles d p hs.rinv.inv rfl rfl hp hs.cyc hs.cover

theorem cyc_nx_head {h : Heap} {q : Nat} {l : List Nat} (hc : Cyc h (q :: l)) : h.nx q = l.headD q := by
  have := hc.lk; simp only [Lk, List.headD_cons] at this; exact this.1

theorem cyc_pv {h : Heap} (hi : Inv h) {q : Nat} {l : List Nat} (hc : Cyc h (q :: l)) : h.pv q = l.getLastD q := by
  by_cases hl : l = []
  · subst hl
    have hn := cyc_nx_head hc
    simp only [List.headD_nil] at hn
    have := hi.pn q (hc.bound q (by simp))
    rw [hn] at this; simpa using this
  · obtain ⟨cs, c0, e⟩ := exists_snoc l hl
    subst e
    have := cyc_pv_head h hi (q :: cs) c0 (by simpa using hc)
    simpa [List.getLastD_concat] using this

/-- `At` (either direction) in the reference is the renamed `At` of the model -/
theorem at_sim {s : St} {c : Cycles.C} {ρ : Nat → Nat} (hs : Sim s c ρ) (r : Ptr)
    (hr : ∀ q, r = some q → q < s.h.size) (n : Int) :
    Cycles.step.at? c (r.map ρ) n = (at_ s.h r n).map ρ := by
  cases r with
  | none => simp [Cycles.step.at?, at_]
  | some q =>
    obtain ⟨l, hc⟩ := cyc_exists s.h hs.rinv.inv q (hr q rfl)
    have hcy := cycleOf_eq hs q l hc
    simp only [Option.map_some, Cycles.step.at?, hcy, List.length_map, List.length_cons]
    cases n with
    | ofNat k =>
      have h1 := (at_cyc s.h hs.rinv.inv q l hc k).1
      rw [Int.ofNat_eq_natCast, h1]
      simp only [Int.natAbs_natCast, Int.toNat_natCast]
      by_cases hk : k ≤ l.length
      · have : ¬ (k ≥ l.length + 1) := by omega
        have h0 : (k : Int) ≥ 0 := by omega
        simp only [hk, this, if_true, if_false, h0, List.getElem?_map]
      · have : k ≥ l.length + 1 := by omega
        simp [hk, this]
    | negSucc k =>
      have h1 := (at_cyc s.h hs.rinv.inv q l hc (k + 1)).2
      have e : Int.negSucc k = -(((k + 1 : Nat)) : Int) := rfl
      rw [e, h1]
      have hna : (-(((k + 1 : Nat)) : Int)).natAbs = k + 1 := by
        rw [Int.natAbs_neg]; exact Int.natAbs_natCast (k + 1)
      have hneg : ¬ (-(((k + 1 : Nat)) : Int) ≥ 0) := by omega
      rw [hna]
      by_cases hk : k + 1 ≤ l.length
      · have : ¬ (k + 1 ≥ l.length + 1) := by omega
        simp only [hk, this, if_true, if_false, hneg, List.getElem?_map]
        congr 1
        -- (q :: l.reverse)[k+1]? = (q :: l)[l.length + 1 - (k+1)]?
        have e1 : l.length + 1 - (k + 1) = (l.length - (k + 1)) + 1 := by omega
        rw [e1, List.getElem?_cons_succ, List.getElem?_cons_succ, List.getElem?_reverse (by omega)]
        congr 1; omega
      · have : k + 1 ≥ l.length + 1 := by omega
        simp [hk, this]

end MdsVerif.Proofs.Ring
