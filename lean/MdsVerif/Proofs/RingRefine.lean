import MdsVerif.Proofs.RingCycle
import MdsVerif.Spec.Cycles
/-!
# The ring register machine refines the list-of-cycles reference (helper lemmas for C10)

`Spec.Cycles` numbers elements in creation order along the cycle (`Of 1 2 3` creates ids
`n, n+1, n+2` whose cycle reads `[n, n+1, n+2]`), the model allocates heap cells in the order the
loop of `New` links them (`[n, n+2, n+1]`).  The simulation relation therefore carries a renaming
`ρ` of cells to element ids.  Outputs (`Out`) contain values, lengths and booleans only, never a
pointer, so the refinement theorem itself is an equality of output lists.
-/
namespace MdsVerif.Proofs.Ring
open MdsVerif.Model.Ring MdsVerif.Spec

/-! ## Part A: what `New`/`Of` allocate -/

/-- one iteration of the loop of `New`: only `next r` and the fresh cell's link change; one zero value is appended -/
theorem newStep_frame (h : Heap) (hi : Inv h) (r : Nat) (hr : r < h.size) :
    (∀ j, j ≠ r → j < h.size → (newLoop 1 h r).nx j = h.nx j) ∧ (newLoop 1 h r).vals = h.vals ++ [0] := by
  obtain ⟨i1, s1, e1, n1, p1, f1⟩ := newRing_inv h hi
  have hr1 : r < h.newRing.1.size := by omega
  have hre : r ≠ h.size := by omega
  refine ⟨?_, rfl⟩
  intro j hj hlt
  have hje : j ≠ h.size := by omega
  have : (newLoop 1 h r).nx j = h.newRing.1.nx j := by
    simp only [newLoop_zero, newLoop_succ', e1, nx_setNext, nx_setPrev, size_setNext, size_setPrev]
    simp [hj, hje]
  rw [this]; exact (f1 j hlt).1

/-- the loop of `New` inserts exactly the `k` fresh cells `size … size+k-1` directly after `r`, touches no
other cell's `next` and appends `k` zero values -/
theorem newLoop_spec : ∀ (k : Nat) (h : Heap) (r : Nat) (as : List Nat), Inv h → Cyc h (r :: as) →
    ∃ mid, mid.length = k ∧ Cyc (newLoop k h r) (r :: (mid ++ as)) ∧ Inv (newLoop k h r) ∧
      (newLoop k h r).size = h.size + k ∧ (∀ x, x ∈ mid ↔ h.size ≤ x ∧ x < h.size + k) ∧
      (∀ j, j ≠ r → j < h.size → (newLoop k h r).nx j = h.nx j) ∧
      (newLoop k h r).vals = h.vals ++ List.replicate k 0 := by
  intro k
  induction k with
  | zero =>
    intro h r as hi hc
    exact ⟨[], rfl, by simpa [newLoop_zero, newLoop_succ'] using hc, hi, rfl, by intro x; simp, fun _ _ _ => rfl, by simp [newLoop_zero]⟩
  | succ k ih =>
    intro h r as hi hc
    have hr : r < h.size := hc.bound r (by simp)
    obtain ⟨c1, i1, s1⟩ := newStep_cyc h hi r as hc
    obtain ⟨f1, v1⟩ := newStep_frame h hi r hr
    obtain ⟨mid, ml, c2, i2, s2, m2, f2, v2⟩ := ih (newLoop 1 h r) r (h.size :: as) i1 c1
    refine ⟨mid ++ [h.size], by simp [ml], ?_, ?_, ?_, ?_, ?_, ?_⟩
    · rw [newLoop_succ]; simpa using c2
    · rw [newLoop_succ]; exact i2
    · rw [newLoop_succ, s2, s1]; omega
    · intro x
      rw [List.mem_append, m2 x, s1]
      simp only [List.mem_singleton]
      omega
    · intro j hj hlt
      rw [newLoop_succ, f2 j hj (by omega), f1 j hj hlt]
    · rw [newLoop_succ, v2, v1, List.append_assoc]
      congr 1

/-- facts about a freshly allocated ring: `h'` extends `h` by the cells of one new cycle `r :: l`
carrying `vs`; nothing else changed -/
structure Alloc (h h' : Heap) (r : Nat) (l : List Nat) (vs : List Int) : Prop where
  cyc : Cyc h' (r :: l)
  inv : Inv h'
  size : h'.size = h.size + vs.length
  vals : (r :: l).map h'.val = vs
  fresh : ∀ x, x ∈ r :: l ↔ h.size ≤ x ∧ x < h'.size
  nx : ∀ j, j < h.size → h'.nx j = h.nx j
  val : ∀ j, j < h.size → h'.val j = h.val j

theorem val_append_left (h : Heap) (l : List Int) (j : Nat) (hj : j < h.vals.length) :
    (h.vals ++ l).getD j 0 = h.vals.getD j 0 := by
  simp [List.getD_eq_getElem?_getD, List.getElem?_append_left hj]

/-- `New(n)` for `n > 0`, before any value is set -/
theorem new_alloc (h : Heap) (hi : Inv h) (n : Int) (hn : 0 < n) :
    ∃ r l, (new h n).2 = some r ∧ Alloc h (new h n).1 r l (List.replicate n.toNat 0) := by
  obtain ⟨i1, s1, e1, n1, p1, f1⟩ := newRing_inv h hi
  have c0 : Cyc h.newRing.1 [h.size] := ⟨by simp, by simp [Lk, n1], by simp, by intro i hi; simp at hi; omega⟩
  obtain ⟨mid, ml, c1, i2, s2, m2, f2, v2⟩ := newLoop_spec (n.toNat - 1) h.newRing.1 h.size [] i1 c0
  have hnew : new h n = (newLoop (n.toNat - 1) h.newRing.1 h.size, some h.size) := by
    have : ¬ n ≤ 0 := by omega
    simp only [new_def, this, if_false, e1]
  simp only [List.append_nil] at c1
  have hv : h.newRing.1.vals = h.vals ++ [0] := rfl
  have hvals : (newLoop (n.toNat - 1) h.newRing.1 h.size).vals = h.vals ++ List.replicate n.toNat 0 := by
    rw [v2, hv, List.append_assoc]
    congr 1
    have : n.toNat = (n.toNat - 1) + 1 := by omega
    rw [this, List.replicate_succ]; simp
  have hsz : (newLoop (n.toNat - 1) h.newRing.1 h.size).size = h.size + n.toNat := by rw [s2, s1]; omega
  have hfresh : ∀ x, x ∈ h.size :: mid ↔ h.size ≤ x ∧ x < (newLoop (n.toNat - 1) h.newRing.1 h.size).size := by
    intro x; rw [List.mem_cons, m2 x, hsz, s1]; omega
  refine ⟨h.size, mid, by rw [hnew], ?_⟩
  rw [hnew]
  refine ⟨c1, i2, by rw [hsz]; simp, ?_, hfresh, ?_, ?_⟩
  · -- all fresh values are zero
    rw [List.eq_replicate_iff]
    refine ⟨by simp [ml]; omega, ?_⟩
    intro b hb
    obtain ⟨x, hx, rfl⟩ := List.mem_map.mp hb
    have hx' := (hfresh x).mp hx
    show (newLoop (n.toNat - 1) h.newRing.1 h.size).vals.getD x 0 = 0
    rw [hvals, List.getD_eq_getElem?_getD, List.getElem?_append_right (by rw [hi.vlen]; exact hx'.1)]
    rw [hsz] at hx'
    have : x - h.vals.length < n.toNat := by rw [hi.vlen]; show x - h.size < _; omega
    simp [this]
  · intro j hj
    rw [f2 j (by omega) (by omega)]; exact (f1 j hj).1
  · intro j hj
    show (newLoop (n.toNat - 1) h.newRing.1 h.size).vals.getD j 0 = h.vals.getD j 0
    rw [hvals]; exact val_append_left h _ j (by rw [hi.vlen]; exact hj)

/-- `Of(v, vs...)` -/
theorem of_alloc (h : Heap) (hi : Inv h) (v : Int) (vs : List Int) :
    ∃ r l, (of h (v :: vs)).2 = some r ∧ Alloc h (of h (v :: vs)).1 r l (v :: vs) := by
  have hpos : (0 : Int) < ((v :: vs).length : Nat) := by simp only [List.length_cons]; omega
  obtain ⟨r, l, e, a⟩ := new_alloc h hi _ hpos
  have hnew : new h ((v :: vs).length : Nat) = ((new h ((v :: vs).length : Nat)).1, some r) := by
    rw [← e]
  have hof := of_eq h (v :: vs) _ r hnew
  have hlen : (r :: l).length = (v :: vs).length := by
    have := congrArg List.length a.vals
    simpa using this
  have hb : ∀ i ∈ r :: l, i < (new h ((v :: vs).length : Nat)).1.vals.length := by
    intro i hi'; rw [a.inv.vlen]; exact a.cyc.bound i hi'
  obtain ⟨e1, e2, e3, e4⟩ := ofLoop_spec (v :: vs) (r :: l) _ r a.cyc.lk a.cyc.nodup hlen hb
  simp only [List.headD_cons] at e1 e2 e3 e4
  have hsz : (ofLoop (v :: vs) (new h ((v :: vs).length : Nat)).1 r).size = (new h ((v :: vs).length : Nat)).1.size :=
    congrArg List.length e1
  have hnx : ∀ k, (ofLoop (v :: vs) (new h ((v :: vs).length : Nat)).1 r).nx k = (new h ((v :: vs).length : Nat)).1.nx k := by
    intro k; show (ofLoop _ _ _).next.getD k 0 = _; rw [e1]; rfl
  refine ⟨r, l, by rw [hof], ?_⟩
  rw [hof]
  refine ⟨?_, (ofLoop_inv (v :: vs) _ r a.inv).1, ?_, e3, ?_, ?_, ?_⟩
  · exact cyc_frame _ _ _ a.cyc (by rw [hsz]; exact Nat.le_refl _) (fun k _ => hnx k)
  · show (ofLoop _ _ _).size = _
    rw [hsz, a.size]; simp
  · intro x; show x ∈ r :: l ↔ _ ∧ x < (ofLoop _ _ _).size
    rw [hsz]; exact a.fresh x
  · intro j hj; show (ofLoop _ _ _).nx j = _
    rw [hnx]; exact a.nx j hj
  · intro j hj; show (ofLoop _ _ _).val j = _
    rw [e4 j (fun hm => by have := (a.fresh j).mp hm; omega)]
    exact a.val j hj

/-! ## Part B: the simulation relation and the reference's `cycleOf` -/

theorem rot_at (a b : List Nat) (x : Nat) (hx : x ∉ a) :
    (a ++ x :: b).drop ((a ++ x :: b).idxOf x) ++ (a ++ x :: b).take ((a ++ x :: b).idxOf x) = x :: (b ++ a) := by
  have : (a ++ x :: b).idxOf x = a.length := by
    rw [List.idxOf_append, if_neg hx]; simp
  rw [this]; simp

/-- model state `s`, reference state `c`, renaming `ρ` of heap cells to element ids -/
structure Sim (s : St) (c : Cycles.C) (ρ : Nat → Nat) : Prop where
  rinv : RInv s
  vlen : c.vals.length = s.h.size
  rlt : ∀ i, i < s.h.size → ρ i < s.h.size
  rinj : ∀ i j, i < s.h.size → j < s.h.size → ρ i = ρ j → i = j
  val : ∀ i, i < s.h.size → c.val (ρ i) = s.h.val i
  regs : ∀ i, c.reg i = (s.reg i).map ρ
  rlen : c.regs.length = s.regs.length
  cyc : ∀ cy ∈ c.cycles, ∃ m, Cyc s.h m ∧ cy = m.map ρ
  cover : ∀ q, q < s.h.size → ∃ cy ∈ c.cycles, ρ q ∈ cy

theorem mem_map_rho {h : Heap} {ρ : Nat → Nat} (rinj : ∀ i j, i < h.size → j < h.size → ρ i = ρ j → i = j)
    {m : List Nat} (hm : ∀ i ∈ m, i < h.size) {q : Nat} (hq : q < h.size) : ρ q ∈ m.map ρ ↔ q ∈ m := by
  constructor
  · intro hx
    obtain ⟨x, hx, e⟩ := List.mem_map.mp hx
    have := rinj x q (hm x hx) hq e
    exact this ▸ hx
  · exact fun hx => List.mem_map.mpr ⟨q, hx, rfl⟩

/-- the reference's `cycleOf` of the id of `q` is the renamed model cycle read from `q` -/
theorem cycleOf_eq {s : St} {c : Cycles.C} {ρ : Nat → Nat} (hs : Sim s c ρ) (q : Nat) (l : List Nat)
    (hc : Cyc s.h (q :: l)) : c.cycleOf (ρ q) = (q :: l).map ρ := by
  have hq : q < s.h.size := hc.bound q (by simp)
  unfold Cycles.C.cycleOf
  cases hf : c.cycles.find? (·.contains (ρ q)) with
  | none =>
    obtain ⟨cy, hcy, hm⟩ := hs.cover q hq
    have := List.find?_eq_none.mp hf cy hcy
    simp at this; exact absurd hm this
  | some cy =>
    have hp := List.find?_some hf
    have hcy := List.mem_of_find?_eq_some hf
    obtain ⟨m, cm, rfl⟩ := hs.cyc cy hcy
    have hqm : q ∈ m := (mem_map_rho hs.rinj cm.bound hq).mp (by simpa using hp)
    obtain ⟨a, b, e, c'⟩ := cyc_from_mem s.h m cm q hqm
    have hl : b ++ a = l := cyc_unique s.h q _ _ c' hc
    subst e
    have hnd := cm.nodup
    rw [List.nodup_append] at hnd
    have hqa : ρ q ∉ a.map ρ := by
      intro hx
      have := (mem_map_rho hs.rinj (fun i hi => cm.bound i (by simp [hi])) hq).mp hx
      exact hnd.2.2 q this q (by simp) rfl
    simp only [List.map_append, List.map_cons]
    rw [rot_at _ _ _ hqa, ← hl]
    simp

/-! ## Part C: registers, observations -/

theorem creg_setReg (c : Cycles.C) (d : Nat) (p : Ptr) (i : Nat) :
    (c.setReg d p).reg i = if i = d ∧ d < c.regs.length then p else c.reg i := by
  simp only [Cycles.C.setReg, Cycles.C.reg, List.getD_eq_getElem?_getD, List.getElem?_set]
  by_cases h1 : d = i
  · subst h1
    by_cases hlt : d < c.regs.length <;> simp [hlt]
  · have : ¬ i = d := fun e => h1 e.symm
    simp [h1, this]

/-- re-establish the relation after an operation that allocates nothing: new heap with the same cells and
values, new list of reference cycles, one register assigned -/
theorem sim_same_cells {s : St} {c : Cycles.C} {ρ : Nat → Nat} (hs : Sim s c ρ) (h' : Heap)
    (cycles' : List (List Nat)) (d : Nat) (p : Ptr)
    (hi : Inv h') (hsz : h'.size = s.h.size) (hv : h'.vals = s.h.vals)
    (hp : ∀ q, p = some q → q < s.h.size)
    (hcyc : ∀ cy ∈ cycles', ∃ m, Cyc h' m ∧ cy = m.map ρ)
    (hcov : ∀ q, q < s.h.size → ∃ cy ∈ cycles', ρ q ∈ cy) :
    Sim ({ s with h := h' }.setReg d p) ({ c with cycles := cycles' }.setReg d (p.map ρ)) ρ := by
  have hh : ({ s with h := h' }.setReg d p).h = h' := rfl
  refine ⟨rinv_setReg s h' d p hs.rinv hi (by omega) (fun q hq => by rw [hsz]; exact hp q hq), ?_, ?_, ?_, ?_, ?_, ?_, ?_, ?_⟩
  · rw [hh, hsz]; exact hs.vlen
  · rw [hh, hsz]; exact hs.rlt
  · rw [hh, hsz]; exact hs.rinj
  · intro i hi'
    rw [hh, hsz] at hi'
    have := hs.val i hi'
    show c.vals.getD (ρ i) 0 = h'.vals.getD i 0
    rw [hv]; exact this
  · intro i
    rw [creg_setReg, reg_setReg]
    have h1 : ({ c with cycles := cycles' } : Cycles.C).regs.length = ({ s with h := h' } : St).regs.length := hs.rlen
    rw [h1]
    split
    · rfl
    · exact hs.regs i
  · simp [Cycles.C.setReg, St.setReg, hs.rlen]
  · exact hcyc
  · intro q hq; rw [hh, hsz] at hq; exact hcov q hq

/-- assigning a register, nothing else -/
theorem sim_setReg {s : St} {c : Cycles.C} {ρ : Nat → Nat} (hs : Sim s c ρ) (d : Nat) (p : Ptr)
    (hp : ∀ q, p = some q → q < s.h.size) : Sim (s.setReg d p) (c.setReg d (p.map ρ)) ρ :=
  sim_same_cells hs s.h c.cycles d p hs.rinv.inv rfl rfl hp hs.cyc hs.cover

theorem cyc_nx_head {h : Heap} {q : Nat} {l : List Nat} (hc : Cyc h (q :: l)) : h.nx q = l.headD q := by
  have := hc.lk; simp only [Lk, List.headD_cons] at this; exact this.1

theorem cyc_pv {h : Heap} (hi : Inv h) {q : Nat} {l : List Nat} (hc : Cyc h (q :: l)) : h.pv q = l.getLastD q := by
  by_cases hl : l = []
  · subst hl
    have hn := cyc_nx_head hc
    simp only [List.headD_nil] at hn
    have := hi.pn q (hc.bound q (by simp))
    rw [hn] at this; simpa using this
  · obtain ⟨cs, c0, e⟩ := exists_snoc l hl
    subst e
    have := cyc_pv_head h hi (q :: cs) c0 (by simpa using hc)
    simpa [List.getLastD_concat] using this

/-- `At` (either direction) in the reference is the renamed `At` of the model -/
theorem at_sim {s : St} {c : Cycles.C} {ρ : Nat → Nat} (hs : Sim s c ρ) (r : Ptr)
    (hr : ∀ q, r = some q → q < s.h.size) (n : Int) :
    Cycles.step.at? c (r.map ρ) n = (at_ s.h r n).map ρ := by
  cases r with
  | none => simp [Cycles.step.at?, at_none]
  | some q =>
    obtain ⟨l, hc⟩ := cyc_exists s.h hs.rinv.inv q (hr q rfl)
    have hcy := cycleOf_eq hs q l hc
    simp only [Option.map_some, Cycles.step.at?, hcy, List.length_map, List.length_cons]
    cases n with
    | ofNat k =>
      have h1 := (at_cyc s.h hs.rinv.inv q l hc k).1
      rw [Int.ofNat_eq_natCast, h1]
      simp only [Int.natAbs_natCast, Int.toNat_natCast]
      by_cases hk : k ≤ l.length
      · have : ¬ (k ≥ l.length + 1) := by omega
        have h0 : (k : Int) ≥ 0 := by omega
        simp only [hk, this, if_true, if_false, h0, List.getElem?_map]
      · have : k ≥ l.length + 1 := by omega
        simp [hk, this]
    | negSucc k =>
      have h1 := (at_cyc s.h hs.rinv.inv q l hc (k + 1)).2
      have e : Int.negSucc k = -(((k + 1 : Nat)) : Int) := rfl
      rw [e, h1]
      have hna : (-(((k + 1 : Nat)) : Int)).natAbs = k + 1 := by
        rw [Int.natAbs_neg]; exact Int.natAbs_natCast (k + 1)
      have hneg : ¬ (-(((k + 1 : Nat)) : Int) ≥ 0) := by omega
      rw [hna]
      by_cases hk : k + 1 ≤ l.length
      · have : ¬ (k + 1 ≥ l.length + 1) := by omega
        simp only [hk, this, if_true, if_false, hneg, List.getElem?_map]
        congr 1
        -- (q :: l.reverse)[k+1]? = (q :: l)[l.length + 1 - (k+1)]?
        have e1 : l.length + 1 - (k + 1) = (l.length - (k + 1)) + 1 := by omega
        rw [e1, List.getElem?_cons_succ, List.getElem?_cons_succ, List.getElem?_reverse (by omega)]
        congr 1; omega
      · have : k + 1 ≥ l.length + 1 := by omega
        simp [hk, this]

/-! ## Part D: surgery (`Pop`, `Join`) -/

/-- generic re-linking step: the cells `A` (a union of cycles of `h`) are re-linked into the cycles
`news` of `h'`, every other cell keeps its `next`; the reference drops the cycles meeting `A`
(`keep`) and appends the renamed `news` -/
theorem sim_surgery {s : St} {c : Cycles.C} {ρ : Nat → Nat} (hs : Sim s c ρ) (h' : Heap)
    (hsz : h'.size = s.h.size) (A : List Nat)
    (hnx : ∀ k, k ∉ A → h'.nx k = s.h.nx k)
    (hA : ∀ m, Cyc s.h m → (∃ x ∈ m, x ∈ A) → ∀ y ∈ m, y ∈ A)
    (news : List (List Nat)) (hnews : ∀ m ∈ news, Cyc h' m) (hcovA : ∀ x ∈ A, ∃ m ∈ news, x ∈ m)
    (keep : List Nat → Bool) (hkeep : ∀ m, Cyc s.h m → (keep (m.map ρ) = true ↔ ∀ x ∈ m, x ∉ A)) :
    (∀ cy ∈ c.cycles.filter keep ++ news.map (List.map ρ), ∃ m, Cyc h' m ∧ cy = m.map ρ) ∧
    (∀ q, q < s.h.size → ∃ cy ∈ c.cycles.filter keep ++ news.map (List.map ρ), ρ q ∈ cy) := by
  constructor
  · intro cy hcy
    rcases List.mem_append.mp hcy with hcy | hcy
    · obtain ⟨hin, hk⟩ := List.mem_filter.mp hcy
      obtain ⟨m, cm, rfl⟩ := hs.cyc cy hin
      have hd := (hkeep m cm).mp hk
      exact ⟨m, cyc_frame s.h h' m cm (by omega) (fun k hk' => hnx k (hd k hk')), rfl⟩
    · obtain ⟨m, hm, rfl⟩ := List.mem_map.mp hcy
      exact ⟨m, hnews m hm, rfl⟩
  · intro q hq
    by_cases hqa : q ∈ A
    · obtain ⟨m, hm, hqm⟩ := hcovA q hqa
      exact ⟨m.map ρ, List.mem_append.mpr (Or.inr (List.mem_map.mpr ⟨m, hm, rfl⟩)), List.mem_map.mpr ⟨q, hqm, rfl⟩⟩
    · obtain ⟨cy, hcy, hqc⟩ := hs.cover q hq
      obtain ⟨m, cm, rfl⟩ := hs.cyc cy hcy
      have hqm : q ∈ m := (mem_map_rho hs.rinj cm.bound hq).mp hqc
      refine ⟨m.map ρ, List.mem_append.mpr (Or.inl (List.mem_filter.mpr ⟨hcy, ?_⟩)), hqc⟩
      rw [hkeep m cm]
      intro x hx hxa
      exact hqa (hA m cm ⟨x, hx, hxa⟩ q hqm)

/-- the reference's filter "cycle does not contain the id of `q`" keeps exactly the cycles disjoint from `q`'s cycle -/
theorem keep_not_contains {s : St} {c : Cycles.C} {ρ : Nat → Nat} (hs : Sim s c ρ) (q : Nat) (l : List Nat)
    (hc : Cyc s.h (q :: l)) (m : List Nat) (cm : Cyc s.h m) :
    ((!(m.map ρ).contains (ρ q)) = true ↔ ∀ x ∈ m, x ∉ q :: l) := by
  have hq : q < s.h.size := hc.bound q (by simp)
  have hiff := mem_map_rho hs.rinj cm.bound hq (m := m)
  simp only [Bool.not_eq_true', List.contains_eq_mem, decide_eq_false_iff_not, hiff]
  constructor
  · intro hqm x hx hxa
    exact hqm (cyc_mem_of_common s.h m (q :: l) cm hc x hx hxa q (by simp))
  · intro hd hqm
    exact hd q hqm (by simp)

theorem cyc_closed {h : Heap} {q : Nat} {l : List Nat} (hc : Cyc h (q :: l)) (m : List Nat) (cm : Cyc h m)
    (hx : ∃ x ∈ m, x ∈ q :: l) : ∀ y ∈ m, y ∈ q :: l := by
  obtain ⟨x, xm, xa⟩ := hx
  exact cyc_mem_of_common h (q :: l) m hc cm x xa xm

/-- `Pop` step -/
theorem sim_pop {s : St} {c : Cycles.C} {ρ : Nat → Nat} (hs : Sim s c ρ) (d r : Nat) :
    Sim (step s (.pop d r)).1 (Cycles.step c (.pop d r)).1 ρ ∧
      (step s (.pop d r)).2 = (Cycles.step c (.pop d r)).2 := by
  have hreg := hs.regs r
  cases hr : s.reg r with
  | none =>
    rw [hr] at hreg
    simp only [step, Cycles.step, hr, hreg, Option.map_none, pop_none]
    exact ⟨sim_setReg hs d none (by simp), trivial⟩
  | some q =>
    rw [hr] at hreg
    have hq := hs.rinv.regs r q hr
    obtain ⟨l, hc, hsing, hmany, i', sz, v⟩ := pop_any s.h hs.rinv.inv q hq
    have hcy := cycleOf_eq hs q l hc
    simp only [step, Cycles.step, hr, hreg, Option.map_some, hcy, List.map_cons, List.drop_one, List.tail_cons]
    by_cases hl : l = []
    · subst hl
      simp only [List.map_nil, List.isEmpty_nil, if_true, hsing rfl]
      exact ⟨sim_setReg hs d (some q) (by intro x hx; cases hx; exact hq), trivial⟩
    · have hne : (l.map ρ).isEmpty = false := by cases l <;> simp_all
      simp only [hne, Bool.false_eq_true, if_false]
      refine ⟨?_, trivial⟩
      obtain ⟨c1, c2⟩ := hmany hl
      have hpvq : s.h.pv q ∈ q :: l := by
        rw [cyc_pv hs.rinv.inv hc]; exact List.getLastD_mem_cons
      have hpne : s.h.pv q ≠ q := by
        rw [cyc_pv hs.rinv.inv hc]
        have hn := hc.nodup; rw [List.nodup_cons] at hn
        intro e
        have : l.getLastD q ∈ l := by
          obtain ⟨cs, c0, rfl⟩ := exists_snoc l hl
          simp
        exact hn.1 (e ▸ this)
      obtain ⟨g1, g2⟩ := sim_surgery hs (pop s.h (some q)) sz (q :: l)
        (fun k hk => by
          rw [pop_nx s.h hs.rinv.inv q hq hpne k]
          have h1 : k ≠ s.h.pv q := fun e => hk (e ▸ hpvq)
          have h2 : k ≠ q := fun e => hk (by simp [e])
          simp [h1, h2])
        (fun m cm hx => cyc_closed hc m cm hx)
        [l, [q]]
        (by intro m hm; simp only [List.mem_cons, List.not_mem_nil, or_false] at hm
            rcases hm with rfl | rfl
            · exact c2
            · exact c1)
        (by intro x hx
            rcases List.mem_cons.mp hx with rfl | hx
            · exact ⟨[x], by simp, by simp⟩
            · exact ⟨l, by simp, hx⟩)
        (fun cy => !cy.contains (ρ q)) (fun m cm => keep_not_contains hs q l hc m cm)
      exact sim_same_cells hs (pop s.h (some q)) _ d (some q) i' sz v
        (by intro x hx; cases hx; exact hq) g1 g2

theorem cyc_pv_mem {h : Heap} (hi : Inv h) {c : List Nat} (hc : Cyc h c) {x : Nat} (hx : x ∈ c) : h.pv x ∈ c := by
  obtain ⟨a, b, e, c'⟩ := cyc_from_mem h c hc x hx
  have := cyc_pv hi c'
  have hm : (b ++ a).getLastD x ∈ x :: (b ++ a) := List.getLastD_mem_cons
  rw [← this] at hm
  rw [e]
  simp only [List.mem_cons, List.mem_append] at hm ⊢
  rcases hm with h1 | h1 | h1
  · exact Or.inr (Or.inl h1)
  · exact Or.inr (Or.inr h1)
  · exact Or.inl h1

theorem ok_inj {α : Type} {a b : α} (h : (Res.ok a : Res α) = .ok b) : a = b := by cases h; rfl

/-- `Join` step -/
theorem sim_join {s : St} {c : Cycles.C} {ρ : Nat → Nat} (hs : Sim s c ρ) (d r t : Nat) :
    Sim (step s (.join d r t)).1 (Cycles.step c (.join d r t)).1 ρ ∧
      (step s (.join d r t)).2 = (Cycles.step c (.join d r t)).2 := by
  have hregr := hs.regs r
  have hregt := hs.regs t
  cases hr : s.reg r with
  | none =>
    rw [hr] at hregr
    cases ht : s.reg t with
    | none =>
      rw [ht] at hregt
      simp only [step, Cycles.step, hr, ht, hregr, hregt, Option.map_none, join_nn]
      exact ⟨sim_setReg hs d none (by simp), trivial⟩
    | some b =>
      rw [ht] at hregt
      simp only [step, Cycles.step, hr, ht, hregr, hregt, Option.map_none, Option.map_some, join_ns]
      exact ⟨hs, trivial⟩
  | some a =>
    rw [hr] at hregr
    cases ht : s.reg t with
    | none =>
      rw [ht] at hregt
      simp only [step, Cycles.step, hr, ht, hregr, hregt, Option.map_none, Option.map_some, join_sn]
      exact ⟨hs, trivial⟩
    | some b =>
      rw [ht] at hregt
      have ha := hs.rinv.regs r a hr
      have hb := hs.rinv.regs t b ht
      have hi := hs.rinv.inv
      obtain ⟨l, hc, hnear, hsame, hdiff, htri⟩ := join_any s.h hi a b ha hb
      have hcy := cycleOf_eq hs a l hc
      have hnd := hc.nodup
      rw [List.nodup_cons] at hnd
      have hcont : ((a :: l).map ρ).contains (ρ b) = decide (b ∈ a :: l) := by
        have := mem_map_rho hs.rinj hc.bound hb (m := a :: l)
        by_cases hm : b ∈ a :: l
        · simp only [hm, decide_true]; simpa using this.mpr hm
        · simp only [hm, decide_false]
          have : ρ b ∉ (a :: l).map ρ := fun h => hm (this.mp h)
          simpa using this
      simp only [step, Cycles.step, hr, ht, hregr, hregt, Option.map_some, hcy, hcont]
      rcases htri with hba | hbl | hnot
      · -- s = r
        subst hba
        have hj := hnear (Or.inl rfl)
        simp only [hj, List.mem_cons, true_or, decide_true, if_true, List.map_cons, List.idxOf_cons_self,
          Nat.zero_le]
        exact ⟨sim_setReg hs d none (by simp), trivial⟩
      · -- s on the ring of r
        have hba : b ≠ a := fun e => hnd.1 (e ▸ hbl)
        have hmem : b ∈ a :: l := by simp [hbl]
        obtain ⟨m, rest, e⟩ := List.append_of_mem hbl
        have hbm : b ∉ m := by
          intro hm; rw [e] at hnd
          have := hnd.2; rw [List.nodup_append] at this
          exact this.2.2 b hm b (by simp) rfl
        have hrb : ρ b ∉ (a :: m).map ρ := by
          intro hx
          have := (mem_map_rho hs.rinj (fun i hi' => hc.bound i (by
            rw [e]; simp only [List.mem_cons, List.mem_append] at hi' ⊢
            rcases hi' with h1 | h1
            · exact Or.inl h1
            · exact Or.inr (Or.inl h1))) hb).mp hx
          rcases List.mem_cons.mp this with h1 | h1
          · exact hba h1
          · exact hbm h1
        have hidx : ((a :: l).map ρ).idxOf (ρ b) = m.length + 1 := by
          rw [e]
          have : (a :: (m ++ b :: rest)).map ρ = (a :: m).map ρ ++ (ρ b :: rest.map ρ) := by simp
          rw [this, List.idxOf_append, if_neg hrb]; simp
        simp only [hmem, decide_true, if_true, hidx]
        by_cases hm : m = []
        · subst hm
          have hj := hnear (Or.inr (by rw [e]; rfl))
          simp only [hj, List.length_nil, Nat.zero_add, Nat.le_refl, if_true]
          exact ⟨sim_setReg hs d none (by simp), trivial⟩
        · have hlen : ¬ (m.length + 1 ≤ 1) := by
            have : m.length ≠ 0 := fun h0 => hm (List.eq_nil_of_length_eq_zero h0)
            omega
          obtain ⟨h', hj, c1, c2, i', sz, v⟩ := hsame m rest e hm
          simp only [hj, hlen, if_false]
          refine ⟨?_, trivial⟩
          -- frame from `join_nx`
          have hnab : s.h.nx a ≠ b := by
            rw [cyc_nx_head hc, e]; cases m with
            | nil => exact absurd rfl hm
            | cons x m' =>
              simp only [List.cons_append, List.headD_cons]
              intro ex; exact hbm (by simp [ex])
          obtain ⟨h'', hj', _, _, _, hnx⟩ := join_nx s.h hi a b ha hb (fun e' => hba e'.symm) hnab
          have hh : h' = h'' := by
            have := ok_inj (hj.symm.trans hj'); exact (Prod.mk.inj this).1
          subst hh
          have hpvb : s.h.pv b ∈ a :: l := cyc_pv_mem hi hc hmem
          have htake : ((a :: l).map ρ).take (m.length + 1) = (a :: m).map ρ := by
            rw [e]
            have : (a :: (m ++ b :: rest)).map ρ = (a :: m).map ρ ++ (ρ b :: rest.map ρ) := by simp
            rw [this, List.take_left' (by simp)]
          have hdrop : ((a :: l).map ρ).drop (m.length + 1) = (b :: rest).map ρ := by
            rw [e]
            have : (a :: (m ++ b :: rest)).map ρ = (a :: m).map ρ ++ (ρ b :: rest.map ρ) := by simp
            rw [this, List.drop_left' (by simp)]; simp
          obtain ⟨g1, g2⟩ := sim_surgery hs h' sz (a :: l)
            (fun k hk => by
              rw [hnx k]
              have h1 : k ≠ a := fun e' => hk (by simp [e'])
              have h2 : k ≠ s.h.pv b := fun e' => hk (e' ▸ hpvb)
              simp [h1, h2])
            (fun m' cm hx => cyc_closed hc m' cm hx)
            [a :: b :: rest, m]
            (by intro m' hm'; simp only [List.mem_cons, List.not_mem_nil, or_false] at hm'
                rcases hm' with rfl | rfl
                · exact c1
                · exact c2)
            (by intro x hx
                rw [e] at hx
                simp only [List.mem_cons, List.mem_append] at hx
                rcases hx with h1 | h1 | h1 | h1
                · exact ⟨a :: b :: rest, by simp, by simp [h1]⟩
                · exact ⟨m, by simp, h1⟩
                · exact ⟨a :: b :: rest, by simp, by simp [h1]⟩
                · exact ⟨a :: b :: rest, by simp, by simp [h1]⟩)
            (fun cy => !cy.contains (ρ a)) (fun m' cm => keep_not_contains hs a l hc m' cm)
          have hhead : ((((a :: l).map ρ).take (m.length + 1)).drop 1).head? = (m.head?).map ρ := by
            rw [htake]; cases m <;> simp
          rw [hhead, htake, hdrop]
          have := sim_same_cells hs h' _ d m.head? i' sz v
            (by intro x hx
                have : x ∈ m := List.mem_of_mem_head? hx
                exact c2.bound x this |> fun h0 => by rw [sz] at h0; exact h0) g1 g2
          simpa [Cycles.C.without] using this
      · -- different rings
        have hnm : ¬ (b ∈ a :: l) := hnot
        obtain ⟨l', h', c2, hj, c3, i', sz, v⟩ := hdiff hnot
        have hcy2 := cycleOf_eq hs b l' c2
        simp only [hnm, decide_false, Bool.false_eq_true, if_false, hj, hcy2]
        refine ⟨?_, trivial⟩
        have hba : a ≠ b := fun e' => hnot (by simp [e'])
        have hnab : s.h.nx a ≠ b := by
          rw [cyc_nx_head hc]; intro ex
          apply hnot
          cases l with
          | nil => simp at ex; exact absurd ex hba
          | cons x l0 => simp at ex; simp [ex]
        obtain ⟨h'', hj', _, _, _, hnx⟩ := join_nx s.h hi a b ha hb hba hnab
        have hh : h' = h'' := by
          have := ok_inj (hj.symm.trans hj'); exact (Prod.mk.inj this).1
        subst hh
        have hpvb : s.h.pv b ∈ b :: l' := cyc_pv_mem hi c2 (by simp)
        obtain ⟨g1, g2⟩ := sim_surgery hs h' sz ((a :: l) ++ (b :: l'))
          (fun k hk => by
            rw [hnx k]
            have h1 : k ≠ a := fun e' => hk (by simp [e'])
            have h2 : k ≠ s.h.pv b := fun e' => hk (by
              rw [e']; exact List.mem_append.mpr (Or.inr hpvb))
            simp [h1, h2])
          (fun m' cm hx y hy => by
            obtain ⟨x, xm, xa⟩ := hx
            rcases List.mem_append.mp xa with h1 | h1
            · exact List.mem_append.mpr (Or.inl (cyc_closed hc m' cm ⟨x, xm, h1⟩ y hy))
            · exact List.mem_append.mpr (Or.inr (cyc_closed c2 m' cm ⟨x, xm, h1⟩ y hy)))
          [a :: ((b :: l') ++ l)]
          (by intro m' hm'; simp only [List.mem_cons, List.not_mem_nil, or_false] at hm'; subst hm'; exact c3)
          (by intro x hx
              refine ⟨a :: ((b :: l') ++ l), by simp, ?_⟩
              simp only [List.mem_cons, List.mem_append] at hx ⊢
              rcases hx with (h1 | h1) | (h1 | h1)
              · exact Or.inl h1
              · exact Or.inr (Or.inr h1)
              · exact Or.inr (Or.inl (Or.inl h1))
              · exact Or.inr (Or.inl (Or.inr h1)))
          (fun cy => !cy.contains (ρ b) && !cy.contains (ρ a))
          (fun m' cm => by
            have k1 := keep_not_contains hs a l hc m' cm
            have k2 := keep_not_contains hs b l' c2 m' cm
            rw [Bool.and_eq_true, k1, k2]
            constructor
            · intro ⟨h2, h1⟩ x hx hxa
              rcases List.mem_append.mp hxa with h3 | h3
              · exact h1 x hx h3
              · exact h2 x hx h3
            · intro hall
              exact ⟨fun x hx hxa => hall x hx (List.mem_append.mpr (Or.inr hxa)),
                fun x hx hxa => hall x hx (List.mem_append.mpr (Or.inl hxa))⟩)
        have hhd : (((a :: l).map ρ).drop 1).headD (ρ a) = ρ (l.headD a) := by cases l <;> simp
        rw [hhd]
        have := sim_same_cells hs h' _ d (some (l.headD a)) i' sz v
          (by intro x hx; cases hx
              have : l.headD a ∈ a :: l := by cases l <;> simp
              exact hc.bound _ this) g1 g2
        simpa [Cycles.C.without, List.filter_filter] using this

/-! ## Part E: allocation (`New`, `Of`) extends the renaming -/

theorem idxOf_getElem_of_nodup : ∀ (L : List Nat) (i : Nat) (hi : i < L.length), L.Nodup → L.idxOf L[i] = i := by
  intro L
  induction L with
  | nil => intro i hi; simp at hi
  | cons a L ih =>
    intro i hi hn
    rw [List.nodup_cons] at hn
    cases i with
    | zero => simp
    | succ i =>
      have hi' : i < L.length := by simpa using hi
      have hne : a ≠ L[i] := fun e => hn.1 (e ▸ List.getElem_mem hi')
      simp only [List.getElem_cons_succ, List.idxOf_cons]
      have : (a == L[i]) = false := by simpa using hne
      rw [this]; simp [ih i hi' hn.2]

theorem map_idxOf_range (L : List Nat) (hn : L.Nodup) (n0 : Nat) :
    L.map (fun x => n0 + L.idxOf x) = List.range' n0 L.length := by
  apply List.ext_getElem
  · simp
  · intro i h1 h2
    simp only [List.length_map] at h1
    simp [idxOf_getElem_of_nodup L i h1 hn]

/-- the renaming after an allocation: old cells keep their ids, the `j`-th cell of the new cycle gets id `size + j` -/
def extend (ρ : Nat → Nat) (n0 : Nat) (L : List Nat) : Nat → Nat :=
  fun i => if i < n0 then ρ i else n0 + L.idxOf i

theorem sim_alloc {s : St} {c : Cycles.C} {ρ : Nat → Nat} (hs : Sim s c ρ) (h' : Heap) (r : Nat) (l : List Nat)
    (vs : List Int) (a : Alloc s.h h' r l vs) (d : Nat) :
    Sim ({ s with h := h' }.setReg d (some r)) ((c.fresh vs).1.setReg d (c.fresh vs).2) (extend ρ s.h.size (r :: l)) := by
  have hlen : (r :: l).length = vs.length := by
    have := congrArg List.length a.vals; simpa using this
  have hvs : vs.isEmpty = false := by cases vs <;> simp_all
  have hfresh : c.fresh vs = ({ c with vals := c.vals ++ vs, cycles := c.cycles ++ [List.range' c.vals.length vs.length] },
      some c.vals.length) := by simp [Cycles.C.fresh, hvs]
  rw [hfresh]
  have hold : ∀ i, i < s.h.size → extend ρ s.h.size (r :: l) i = ρ i := fun i hi => by simp [extend, hi]
  have hnew : ∀ i, i ∈ r :: l → extend ρ s.h.size (r :: l) i = s.h.size + (r :: l).idxOf i := fun i hi => by
    have := ((a.fresh i).mp hi).1
    have : ¬ i < s.h.size := by omega
    simp [extend, this]
  have hmapnew : (r :: l).map (extend ρ s.h.size (r :: l)) = List.range' c.vals.length vs.length := by
    rw [hs.vlen, ← hlen, ← map_idxOf_range (r :: l) a.cyc.nodup s.h.size]
    exact List.map_congr_left (fun x hx => hnew x hx)
  have hmapold : ∀ m, Cyc s.h m → m.map (extend ρ s.h.size (r :: l)) = m.map ρ := fun m cm =>
    List.map_congr_left (fun x hx => hold x (cm.bound x hx))
  have hh : ({ s with h := h' }.setReg d (some r)).h = h' := rfl
  have hr0 : (r :: l).idxOf r = 0 := by simp
  refine ⟨rinv_setReg s h' d (some r) hs.rinv a.inv (by rw [a.size]; omega)
      (fun q hq => by cases hq; exact a.cyc.bound r (by simp)), ?_, ?_, ?_, ?_, ?_, ?_, ?_, ?_⟩
  · rw [hh, a.size]; simp [Cycles.C.setReg, hs.vlen]
  · intro i hi
    rw [hh] at hi ⊢
    by_cases h0 : i < s.h.size
    · rw [hold i h0, a.size]; have := hs.rlt i h0; omega
    · have him : i ∈ r :: l := (a.fresh i).mpr ⟨by omega, hi⟩
      rw [hnew i him, a.size, ← hlen]
      have := List.idxOf_lt_length_of_mem him
      omega
  · intro i j hi hj e
    rw [hh] at hi hj
    by_cases h0 : i < s.h.size
    · by_cases h1 : j < s.h.size
      · rw [hold i h0, hold j h1] at e; exact hs.rinj i j h0 h1 e
      · have hjm : j ∈ r :: l := (a.fresh j).mpr ⟨by omega, hj⟩
        rw [hold i h0, hnew j hjm] at e; have := hs.rlt i h0; omega
    · have him : i ∈ r :: l := (a.fresh i).mpr ⟨by omega, hi⟩
      by_cases h1 : j < s.h.size
      · rw [hnew i him, hold j h1] at e; have := hs.rlt j h1; omega
      · have hjm : j ∈ r :: l := (a.fresh j).mpr ⟨by omega, hj⟩
        rw [hnew i him, hnew j hjm] at e
        have e' : (r :: l).idxOf i = (r :: l).idxOf j := by omega
        have g1 := List.getElem_idxOf (List.idxOf_lt_length_of_mem him)
        have g2 := List.getElem_idxOf (List.idxOf_lt_length_of_mem hjm)
        rw [← g1, ← g2]; simp only [e']
  · intro i hi
    rw [hh] at hi ⊢
    show (c.vals ++ vs).getD (extend ρ s.h.size (r :: l) i) 0 = h'.val i
    by_cases h0 : i < s.h.size
    · rw [hold i h0, a.val i h0, ← hs.val i h0]
      have : ρ i < c.vals.length := by rw [hs.vlen]; exact hs.rlt i h0
      simp [Cycles.C.val, List.getD_eq_getElem?_getD, List.getElem?_append_left this]
    · have him : i ∈ r :: l := (a.fresh i).mpr ⟨by omega, hi⟩
      have hk := List.idxOf_lt_length_of_mem him
      rw [hnew i him, ← hs.vlen, List.getD_eq_getElem?_getD, List.getElem?_append_right (by omega)]
      have e1 : c.vals.length + (r :: l).idxOf i - c.vals.length = (r :: l).idxOf i := by omega
      rw [e1]
      have hk' : (r :: l).idxOf i < vs.length := by rw [← hlen]; exact hk
      rw [List.getElem?_eq_getElem hk']
      have := a.vals
      have e2 : vs[(r :: l).idxOf i] = ((r :: l).map h'.val)[(r :: l).idxOf i]'(by simpa using hk) := by
        simp only [this]
      rw [e2, List.getElem_map, List.getElem_idxOf hk]
      rfl
  · intro i
    rw [creg_setReg, reg_setReg]
    have h1 : ({ c with vals := c.vals ++ vs, cycles := c.cycles ++ [List.range' c.vals.length vs.length] } : Cycles.C).regs.length
        = ({ s with h := h' } : St).regs.length := hs.rlen
    rw [h1]
    split
    · simp only [Option.map_some]
      rw [hnew r (by simp), hr0, hs.vlen]; rfl
    · show c.reg i = (s.reg i).map _
      rw [hs.regs i]
      cases hq : s.reg i with
      | none => rfl
      | some q => simp only [Option.map_some]; rw [hold q (hs.rinv.regs i q hq)]
  · simp [Cycles.C.setReg, St.setReg, hs.rlen]
  · intro cy hcy
    have hcy' : cy ∈ c.cycles ++ [List.range' c.vals.length vs.length] := hcy
    rcases List.mem_append.mp hcy' with h1 | h1
    · obtain ⟨m, cm, rfl⟩ := hs.cyc cy h1
      refine ⟨m, ?_, (hmapold m cm).symm⟩
      rw [hh]
      exact cyc_frame s.h h' m cm (by rw [a.size]; omega) (fun k hk => a.nx k (cm.bound k hk))
    · simp only [List.mem_singleton] at h1
      exact ⟨r :: l, by rw [hh]; exact a.cyc, by rw [h1, hmapnew]⟩
  · intro q hq
    rw [hh] at hq
    show ∃ cy ∈ c.cycles ++ [List.range' c.vals.length vs.length], _
    by_cases h0 : q < s.h.size
    · obtain ⟨cy, hcy, hm⟩ := hs.cover q h0
      exact ⟨cy, List.mem_append.mpr (Or.inl hcy), by rw [hold q h0]; exact hm⟩
    · have hqm : q ∈ r :: l := (a.fresh q).mpr ⟨by omega, hq⟩
      refine ⟨_, List.mem_append.mpr (Or.inr (List.mem_singleton.mpr rfl)), ?_⟩
      rw [← hmapnew]
      exact List.mem_map.mpr ⟨q, hqm, rfl⟩

/-! ## Part F: one step, histories -/

theorem map_val_rho {s : St} {c : Cycles.C} {ρ : Nat → Nat} (hs : Sim s c ρ) (m : List Nat)
    (hm : ∀ x ∈ m, x < s.h.size) : (m.map ρ).map c.val = m.map s.h.val := by
  rw [List.map_map]
  exact List.map_congr_left (fun x hx => hs.val x (hm x hx))

/-- **one-step simulation**: same output, and the states are related again (under a possibly extended renaming) -/
theorem step_sim {s : St} {c : Cycles.C} {ρ : Nat → Nat} (hs : Sim s c ρ) (op : Op) :
    ∃ ρ', Sim (step s op).1 (Cycles.step c op).1 ρ' ∧ (step s op).2 = (Cycles.step c op).2 := by
  have hi := hs.rinv.inv
  cases op with
  | of d vs =>
    cases vs with
    | nil =>
      have h1 : of s.h [] = (s.h, none) := by simp [of, new_def]
      have h2 : c.fresh [] = (c, none) := by simp [Cycles.C.fresh]
      simp only [step, Cycles.step, h1, h2]
      exact ⟨ρ, sim_setReg hs d none (by simp), trivial⟩
    | cons v vs =>
      obtain ⟨r, l, e, a⟩ := of_alloc s.h hi v vs
      have h1 : of s.h (v :: vs) = ((of s.h (v :: vs)).1, some r) := by rw [← e]
      refine ⟨extend ρ s.h.size (r :: l), ?_, by simp [step, Cycles.step]⟩
      have := sim_alloc hs _ r l (v :: vs) a d
      simp only [step, Cycles.step]
      rw [h1]
      exact this
  | new d n =>
    by_cases hn : n ≤ 0
    · have h1 : new s.h n = (s.h, none) := by simp [new_def, hn]
      have h0 : n.toNat = 0 := by omega
      have h2 : c.fresh (List.replicate n.toNat 0) = (c, none) := by simp [Cycles.C.fresh, h0]
      simp only [step, Cycles.step, h1, h2]
      exact ⟨ρ, sim_setReg hs d none (by simp), trivial⟩
    · obtain ⟨r, l, e, a⟩ := new_alloc s.h hi n (by omega)
      have h1 : new s.h n = ((new s.h n).1, some r) := by rw [← e]
      refine ⟨extend ρ s.h.size (r :: l), ?_, by simp [step, Cycles.step]⟩
      have := sim_alloc hs _ r l _ a d
      simp only [step, Cycles.step]
      rw [h1]
      exact this
  | join d r t => exact ⟨ρ, sim_join hs d r t⟩
  | pop d r => exact ⟨ρ, sim_pop hs d r⟩
  | next d r =>
    have hreg := hs.regs r
    cases hr : s.reg r with
    | none =>
      rw [hr] at hreg
      simp only [step, Cycles.step, hr, hreg, Option.map_none]
      exact ⟨ρ, hs, trivial⟩
    | some q =>
      rw [hr] at hreg
      have hq := hs.rinv.regs r q hr
      obtain ⟨l, hc⟩ := cyc_exists s.h hi q hq
      simp only [step, Cycles.step, hr, hreg, Option.map_some, cycleOf_eq hs q l hc]
      refine ⟨ρ, ?_, trivial⟩
      have e : ((q :: l).map ρ).getD 1 (ρ q) = ρ (s.h.nx q) := by
        rw [cyc_nx_head hc]; cases l <;> simp
      rw [e]
      exact sim_setReg hs d (some (s.h.nx q)) (by intro x hx; cases hx; exact hi.nlt q hq)
  | prev d r =>
    have hreg := hs.regs r
    cases hr : s.reg r with
    | none =>
      rw [hr] at hreg
      simp only [step, Cycles.step, hr, hreg, Option.map_none]
      exact ⟨ρ, hs, trivial⟩
    | some q =>
      rw [hr] at hreg
      have hq := hs.rinv.regs r q hr
      obtain ⟨l, hc⟩ := cyc_exists s.h hi q hq
      simp only [step, Cycles.step, hr, hreg, Option.map_some, cycleOf_eq hs q l hc]
      refine ⟨ρ, ?_, trivial⟩
      have e : ((q :: l).map ρ).getLastD (ρ q) = ρ (s.h.pv q) := by
        rw [cyc_pv hi hc, List.getLastD_map, List.getLastD_cons]
      rw [e]
      exact sim_setReg hs d (some (s.h.pv q)) (by intro x hx; cases hx; exact hi.plt q hq)
  | at_ d r n =>
    have hat := at_sim hs (s.reg r) (fun q hq => hs.rinv.regs r q hq) n
    simp only [step, Cycles.step, hs.regs r, hat]
    exact ⟨ρ, sim_setReg hs d _ (at_lt s.h hi (s.reg r) n (fun q hq => hs.rinv.regs r q hq)), trivial⟩
  | peek r n =>
    have hat := at_sim hs (s.reg r) (fun q hq => hs.rinv.regs r q hq) n
    have hlt := at_lt s.h hi (s.reg r) n (fun q hq => hs.rinv.regs r q hq)
    simp only [step, Cycles.step, hs.regs r, hat, peek]
    cases hx : at_ s.h (s.reg r) n with
    | none => exact ⟨ρ, hs, rfl⟩
    | some x =>
      simp only [Option.map_some]
      exact ⟨ρ, hs, by rw [hs.val x (hlt x hx)]⟩
  | len r =>
    have hreg := hs.regs r
    cases hr : s.reg r with
    | none =>
      rw [hr] at hreg
      simp only [step, Cycles.step, hr, hreg, Option.map_none, len, scan]
      exact ⟨ρ, hs, rfl⟩
    | some q =>
      rw [hr] at hreg
      obtain ⟨l, hc⟩ := cyc_exists s.h hi q (hs.rinv.regs r q hr)
      simp only [step, Cycles.step, hr, hreg, Option.map_some, cycleOf_eq hs q l hc, len, scan_cyc s.h q l hc none]
      exact ⟨ρ, hs, by simp⟩
  | each r k =>
    have hreg := hs.regs r
    cases hr : s.reg r with
    | none =>
      rw [hr] at hreg
      simp only [step, Cycles.step, hr, hreg, Option.map_none, each, scan]
      exact ⟨ρ, hs, rfl⟩
    | some q =>
      rw [hr] at hreg
      obtain ⟨l, hc⟩ := cyc_exists s.h hi q (hs.rinv.regs r q hr)
      simp only [step, Cycles.step, hr, hreg, Option.map_some, cycleOf_eq hs q l hc, each,
        scan_cyc s.h q l hc (some k)]
      refine ⟨ρ, hs, ?_⟩
      rw [← List.map_take, map_val_rho hs _ (fun x hx => hc.bound x (List.mem_of_mem_take hx))]
  | isEmpty r =>
    simp only [step, Cycles.step, hs.regs r]
    exact ⟨ρ, hs, by cases s.reg r <;> rfl⟩

theorem sim_init : Sim ({} : St) ({} : Cycles.C) id := by
  refine ⟨rinv_init, rfl, ?_, ?_, ?_, ?_, rfl, ?_, ?_⟩
  · intro i hi; simp [Heap.size] at hi
  · intro i j hi; simp [Heap.size] at hi
  · intro i hi; simp [Heap.size] at hi
  · intro i
    rw [reg_init]
    show (List.replicate 8 (none : Ptr)).getD i none = none
    exact reg_init i
  · intro cy hcy; simp at hcy
  · intro q hq; simp [Heap.size] at hq

/-- **the ring register machine refines the list-of-cycles reference**: from related states every history
produces the same outputs -/
theorem run_sim : ∀ (ops : List Op) (s : St) (c : Cycles.C) (ρ : Nat → Nat), Sim s c ρ →
    run s ops = Cycles.run c ops := by
  intro ops
  induction ops with
  | nil => intro s c ρ _; rfl
  | cons op ops ih =>
    intro s c ρ hs
    obtain ⟨ρ', h1, h2⟩ := step_sim hs op
    simp only [run, Cycles.run, h2, ih _ _ ρ' h1]

end MdsVerif.Proofs.Ring
