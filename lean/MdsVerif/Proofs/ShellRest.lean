import MdsVerif.Proofs.ShellFsm
import MdsVerif.Proofs.ShellScanner
/-!
# `Rest` returns exactly the bytes after the SHORTEST prefix that ends the tokens seen (C16)

`nexts_feed` (`Proofs/ShellScanner.lean`) says that after `k` successful `Next` calls the consumed
bytes are a prefix on which the transducer emits exactly the `k` tokens and is back between words.
Here: the LAST consumed byte is the one whose transition emits the `k`-th token
(`nexts_feed_last`), hence on every proper prefix the transducer has emitted fewer than `k` tokens,
and — in terms of the reference tokenizer only — the consumed prefix satisfies
`Spec.Posix.endsTokens toks` while no proper prefix of it does (`consumed_shortest`).
-/
namespace MdsVerif.Proofs.ShellRest
open MdsVerif.Gen.ShellTable MdsVerif.Model.Shell MdsVerif.Spec.Posix
open MdsVerif.Proofs.ShellFsm MdsVerif.Proofs.ShellScanner

theorem feed_state_ne : ∀ (a : Bytes) (st : St) (acc : Bytes), st ≠ .stNone →
    (feed st acc a).2.1 ≠ .stNone := by
  intro a
  induction a with
  | nil => intro st acc h; simpa [feed] using h
  | cons c a ih =>
    intro st acc hst
    have hcl := update_closed st (classOf c) hst
    rcases hu : update st (classOf c) with ⟨st', x⟩
    rw [hu] at hcl
    cases x <;> simp only [feed, hu]
    case push => exact ih _ _ hcl.1
    case xpush => exact ih _ _ hcl.1
    case drop => exact ih _ _ hcl.1
    case emit => exact ih _ _ hcl.1
    case panic => exact absurd rfl hcl.2

/-- the transducer run to the end of `a ++ b`: the tokens emitted on `a`, then the run over `b`
from where `a` left it -/
theorem run_append (a b : Bytes) (st : St) (acc : Bytes) (hst : st ≠ .stNone) :
    (run st acc (a ++ b)).1 = (feed st acc a).1 ++ (run (feed st acc a).2.1 (feed st acc a).2.2 b).1 := by
  have hne := feed_state_ne a st acc hst
  rw [run_of_feed (a ++ b) st acc hst, feed_append a st acc b hst,
    run_of_feed b (feed st acc a).2.1 (feed st acc a).2.2 hne]
  simp [List.append_assoc]

/-- one ordinary byte, then the end of the input: at most one token, whatever the state -/
theorem run_one_other (st : St) (acc : Bytes) : (run st acc [120]).1.length ≤ 1 := by
  have hc : classOf 120 = .clOther := by decide
  cases st <;> simp [run, update, hc, eofNoToken, xpushBytes]

theorem run_break_other : (run .stBreak [] [120]).1 = [[120]] := by decide

theorem refSplit_fields (q : Bytes) : (refSplit q).1 = (run .stBreak [] q).1 := by
  have := (fsm_eq_ref_all q).1
  simp only [runB] at this
  rw [refSplit, ← this]

/-- the reference fields of `p` followed by one ordinary byte: at most one more than the tokens the
transducer has emitted on `p` -/
theorem fields_le (p : Bytes) :
    (refSplit (p ++ [120])).1.length ≤ (feed .stBreak [] p).1.length + 1 := by
  rw [refSplit_fields, run_append p [120] .stBreak [] (by decide), List.length_append]
  have := run_one_other (feed .stBreak [] p).2.1 (feed .stBreak [] p).2.2
  omega

theorem feed_prefix_le (p q : Bytes) :
    (feed .stBreak [] p).1.length ≤ (feed .stBreak [] (p ++ q)).1.length := by
  rw [feed_append p .stBreak [] q (by decide)]
  simp

/-- a `Next` that returns a token before the end of the input stops at the byte whose transition
emits it: on the consumed bytes without the last one nothing is emitted -/
theorem nextLoop_emit_last (tail : Tail) : ∀ (rem : Bytes) (st : St) (acc : Bytes), st ≠ .stNone →
    (nextLoop tail st acc rem).2 = .ret true → (nextLoop tail st acc rem).1.err = .nil →
    ∃ p0 b, p0 ++ b :: (nextLoop tail st acc rem).1.rem = rem ∧ (feed st acc p0).1 = [] := by
  intro rem
  induction rem with
  | nil => intro st acc _; cases tail <;> simp [nextLoop]
  | cons c r ih =>
    intro st acc hst
    have hcl := update_closed st (classOf c) hst
    rcases hu : update st (classOf c) with ⟨st', x⟩
    rw [hu] at hcl
    cases x <;> simp only [nextLoop, hu]
    case emit =>
      intro _ _
      exact ⟨[], c, by simp, by simp [feed]⟩
    case panic => simp
    all_goals
      intro h1 h2
      obtain ⟨p0, b, e1, e2⟩ := ih st' _ hcl.1 h1 h2
      exact ⟨c :: p0, b, by simp [e1], by simp only [feed, hu]; exact e2⟩

/-- `nexts_feed` with the position of the last emission: for `k ≥ 1` the consumed prefix is
`c0 ++ [b]` and on `c0` the transducer has emitted fewer tokens than were returned -/
theorem nexts_feed_last : ∀ (k : Nat) (s s' : Scanner) (ts : List Bytes),
    s.err = .nil → s.st = .stBreak → nexts k s = some (s', ts) →
    ∃ consumed, consumed ++ s'.rem = s.rem ∧ feed .stBreak [] consumed = (ts, .stBreak, []) ∧
      s'.tail = s.tail ∧
      (k = 0 → consumed = []) ∧
      (0 < k → ∃ c0 b, consumed = c0 ++ [b] ∧ (feed .stBreak [] c0).1.length < ts.length) := by
  intro k
  induction k with
  | zero =>
    intro s s' ts _ _ h
    simp only [nexts, Option.some.injEq, Prod.mk.injEq] at h
    obtain ⟨rfl, rfl⟩ := h
    exact ⟨[], by simp [feed]⟩
  | succ k ih =>
    intro s s' ts he hst h
    rw [nexts] at h
    rcases hn : s.next with ⟨s1, o⟩
    rw [hn] at h
    cases o with
    | panic => simp at h
    | ret b =>
      cases b
      · simp at h
      · simp only at h
        by_cases he1 : s1.err = .nil
        · simp only [he1, if_true] at h
          rcases hk : nexts k s1 with _ | ⟨s2, ts2⟩
          · rw [hk] at h; simp at h
          · rw [hk] at h
            simp only [Option.some.injEq, Prod.mk.injEq] at h
            obtain ⟨rfl, rfl⟩ := h
            have hl := next_live s he
            rw [hn] at hl
            have hA := nextLoop_emit s.tail s.rem s.st [] (by rw [hst]; decide)
            have hB := nextLoop_emit_last s.tail s.rem s.st [] (by rw [hst]; decide)
            rw [← hl] at hA hB
            obtain ⟨pre, e1, e2, e3, e4⟩ := hA rfl he1
            obtain ⟨p0, b0, g1, g2⟩ := hB rfl he1
            simp only at e1 e2 e3 e4 g1 g2
            have hpre : pre = p0 ++ [b0] := by
              have : pre ++ s1.rem = (p0 ++ [b0]) ++ s1.rem := by rw [e1, ← g1]; simp
              exact List.append_cancel_right this
            rw [hst] at e2 g2
            obtain ⟨c2, f1, f2, f3, f4, f5⟩ := ih s1 s2 ts2 he1 e3 hk
            refine ⟨pre ++ c2, by rw [List.append_assoc, f1, e1], ?_, f3.trans e4, by simp, fun _ => ?_⟩
            · rw [feed_append pre .stBreak [] c2 (by decide), e2]
              simp [f2]
            · cases k with
              | zero =>
                have hc2 := f4 rfl
                subst hc2
                simp only [nexts, Option.some.injEq, Prod.mk.injEq] at hk
                obtain ⟨_, rfl⟩ := hk
                exact ⟨p0, b0, by simp [hpre], by simp [g2]⟩
              | succ k =>
                obtain ⟨c0, b, hc, hlt⟩ := f5 (Nat.succ_pos k)
                refine ⟨pre ++ c0, b, by rw [hc, List.append_assoc], ?_⟩
                rw [feed_append pre .stBreak [] c0 (by decide), e2]
                simp only [List.length_append, List.length_cons, List.length_nil]
                omega
        · simp [he1] at h

/-- **the consumed prefix is the shortest one that ends the tokens**, in terms of the reference
tokenizer only: it satisfies `endsTokens toks`, and no proper prefix of it does -/
theorem consumed_shortest (input : Bytes) (tail : Tail) (k : Nat) (s : Scanner) (toks : List Bytes)
    (h : nexts k (Scanner.new input tail) = some (s, toks)) :
    ∃ consumed, consumed ++ s.rest.2.1 = input ∧ s.rest.2.2 = tail ∧
      endsTokens toks consumed = true ∧
      ∀ p q, p ++ q = consumed → q ≠ [] → endsTokens toks p = false := by
  obtain ⟨consumed, h1, h2, h3, h4, h5⟩ := nexts_feed_last k (Scanner.new input tail) s toks rfl rfl h
  have hlen : toks.length = (feed .stBreak [] consumed).1.length := by rw [h2]
  refine ⟨consumed, h1, h3, ?_, ?_⟩
  · -- endsTokens toks consumed
    have hr := run_of_feed consumed .stBreak [] (by decide)
    rw [h2] at hr
    have e1 : refSplit consumed = (toks, true) := by
      have := (fsm_eq_ref_all consumed).1
      simp only [runB, hr] at this
      rw [refSplit, ← this]
      simp [run, eofNoToken, okSt, completeStates]
    have e2 : (refSplit (consumed ++ [120])).1 = toks ++ [[120]] := by
      rw [refSplit_fields, run_append consumed [120] .stBreak [] (by decide), h2]
      exact congrArg _ run_break_other
    simp [endsTokens, e1, e2]
  · intro p q hpq hq
    cases k with
    | zero =>
      have := h4 rfl
      rw [this] at hpq
      have : q = [] := by
        have := congrArg List.length hpq
        simp at this
        exact this.2
      exact absurd this hq
    | succ k =>
      obtain ⟨c0, b, hc, hlt⟩ := h5 (Nat.succ_pos k)
      -- `p` is a prefix of `c0`
      have hp : ∃ r, p ++ r = c0 := by
        obtain ⟨q0, ql, rfl⟩ : ∃ q0 ql, q = q0 ++ [ql] :=
          ⟨q.dropLast, q.getLast hq, (List.dropLast_concat_getLast hq).symm⟩
        rw [hc, ← List.append_assoc] at hpq
        have := List.append_inj' hpq rfl
        exact ⟨q0, this.1⟩
      obtain ⟨r, rfl⟩ := hp
      have h6 := feed_prefix_le p r
      have h7 := fields_le p
      -- the second conjunct of `endsTokens` fails: too few fields
      have hne : ((refSplit (p ++ [120])).1 == toks ++ [[120]]) = false := by
        apply Bool.eq_false_iff.mpr
        intro hbeq
        have := congrArg List.length (eq_of_beq hbeq)
        simp at this
        omega
      simp [endsTokens, hne]

/-- the search of `Spec.Posix.consumedFrom` finds `n` if `input.take n` ends the tokens and no
shorter prefix from `k` on does -/
theorem consumedFrom_spec (toks : List Bytes) (input : Bytes) : ∀ (fuel k n : Nat), k ≤ n →
    n ≤ input.length → n - k < fuel → endsTokens toks (input.take n) = true →
    (∀ j, k ≤ j → j < n → endsTokens toks (input.take j) = false) →
    consumedFrom toks input fuel k = some n := by
  intro fuel
  induction fuel with
  | zero => intro k n _ _ h; omega
  | succ fuel ih =>
    intro k n hkn hn hf hyes hno
    rw [consumedFrom]
    by_cases hk : k = n
    · subst hk; rw [if_pos hyes]
    · rw [if_neg (by rw [hno k (Nat.le_refl _) (by omega)]; simp), if_neg (by omega)]
      exact ih (k + 1) n (by omega) hn (by omega) hyes (fun j h1 h2 => hno j (by omega) h2)

/-- **`Rest` returns exactly the input minus `Spec.Posix.consumedPrefix`** -/
theorem rest_after_consumedPrefix (input : Bytes) (tail : Tail) (k : Nat) (s : Scanner)
    (toks : List Bytes) (h : nexts k (Scanner.new input tail) = some (s, toks)) :
    ∃ consumed, consumedPrefix toks input = some consumed ∧ consumed ++ s.rest.2.1 = input ∧
      s.rest.2.2 = tail := by
  obtain ⟨consumed, h1, h2, h3, h4⟩ := consumed_shortest input tail k s toks h
  refine ⟨consumed, ?_, h1, h2⟩
  have htake : input.take consumed.length = consumed := by rw [← h1]; simp
  have hlen : consumed.length ≤ input.length := by rw [← h1]; simp
  unfold consumedPrefix
  rw [consumedFrom_spec toks input (input.length + 1) 0 consumed.length (Nat.zero_le _) hlen (by omega)
    (by rw [htake]; exact h3) ?_]
  · simp [htake]
  · intro j _ hj
    have e : input.take j = consumed.take j := by
      rw [← htake, List.take_take]; congr 1; omega
    rw [e]
    refine h4 (consumed.take j) (consumed.drop j) (List.take_append_drop j consumed) ?_
    intro h0
    have := congrArg List.length h0
    simp at this
    omega

end MdsVerif.Proofs.ShellRest
