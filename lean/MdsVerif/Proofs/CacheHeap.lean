import MdsVerif.Proofs.Cache
import MdsVerif.Proofs.Heapq
/-!
# Heap order of the LRU store's heap (bridge between the C05 heap-order lemmas and the C08 refinement)

`Proofs/Cache.lean` reduces "the cache refines the reference LRU cache" to a heap invariant that puts a
minimal `lastAccess` at the root (`HeapInv`: kept by `pop` at every offset and by `add` of the newest
element; `HeapInv0`: kept by `pop 0` and by `add` of the newest element).  Here both are instantiated with
heap order (`Proofs.Heapq.HeapFrom ltEntry · 0`):

* `heapInv_repaired` — for the repaired configuration (`CfgRepaired`: `parent i = (i-1)/2`, guarded sift-up
  in `pop`), from `pop_heap`/`add_heap`;
* `heapInv0_std` — for the standard child layout with *any* `parent i < i` and `pop` without sift-up (the
  pinned configuration, F1 and F2 present): `pop 0` keeps heap order (`pop0_heap`), and `add` of an element
  newer than all others never swaps (`add_max_heap`), so F1 (wrong parent index) is unreachable from the
  cache and F2 (no sift-up) is reachable only through removal of an interior slot;
* `heapInvB_std` — for the same configurations, `pop` at every offset keeps heap order on heaps of at most
  4 elements (F2 needs an interior offset `≥ 3`, i.e. at least 5 elements).
-/
namespace MdsVerif.Proofs.CacheHeap
open MdsVerif.Model.Heapq hiding step clear set Op Out S
open MdsVerif.Model.Cache
open MdsVerif

/-- heap order of the store's heap on `lastAccess` -/
def HeapOrd (h : H Entry) : Prop := Proofs.Heapq.HeapFrom ltEntry h 0

theorem ltEntry_order : Proofs.Heapq.OrderOK ltEntry where
  le_total := fun a b => by
    simp only [Proofs.Heapq.le, Cache.ltEntry_def, Bool.not_eq_true', decide_eq_false_iff_not]; omega
  le_trans := fun a b c => by
    simp only [Proofs.Heapq.le, Cache.ltEntry_def, Bool.not_eq_true', decide_eq_false_iff_not]; omega

theorem cfgOK_heapq {cfg : Cfg} (ok : Proofs.Cache.CfgOK cfg) : Proofs.Heapq.CfgOK cfg := ⟨ok.parent_lt, ok.left_gt⟩
theorem cfgOK_cache {cfg : Cfg} (ok : Proofs.Heapq.CfgOK cfg) : Proofs.Cache.CfgOK cfg := ⟨ok.parent_lt, ok.left_gt⟩

/-- in heap order the root carries a minimal timestamp -/
theorem minOK_of_heapOrd (h : H Entry) (hh : HeapOrd h) : Proofs.Cache.minOK h = true := by
  simp only [Proofs.Cache.minOK, List.all_eq_true, decide_eq_true_eq]
  intro e he
  have := Proofs.Heapq.heap_root_min_mem ltEntry_order h hh e he
  simpa [Cache.ltEntry_def] using this

theorem heapOrd_log (h : H Entry) (l : List (Entry × Nat)) (hh : HeapOrd h) : HeapOrd { h with log := l } :=
  fun k hk c hc hcl => hh k hk c hc hcl

theorem heapOrd_nil : HeapOrd ({ data := [] } : H Entry) := fun k _ c _ hcl => by simp [H.len] at hcl

theorem newest_max {h : H Entry} {v : Entry} (hv : ∀ e ∈ h.data, e.lastAccess < v.lastAccess) :
    ∀ x ∈ h.data, ltEntry v x = false := by
  intro x hx
  have := hv x hx
  simp only [Cache.ltEntry_def, decide_eq_false_iff_not]; omega

/-- **repaired configuration**: heap order is an invariant of everything the LRU store does to its heap -/
theorem heapInv_repaired {cfg : Cfg} (hr : Proofs.Heapq.CfgRepaired cfg) : Proofs.Cache.HeapInv cfg HeapOrd where
  nil := heapOrd_nil
  log := heapOrd_log
  pop := fun h i hh hi => Proofs.Heapq.pop_heap hr ltEntry_order h i hi hh
  add := fun h v hh _ => Proofs.Heapq.add_heap hr ltEntry_order h v hh
  min := minOK_of_heapOrd

/-- **pinned-style configurations** (standard child layout, any `parent i < i`, no sift-up in `pop`): heap
order is kept by `pop 0` and by `add` of the newest element -/
theorem heapInv0_std {cfg : Cfg} (hs : Proofs.Heapq.CfgStd cfg) (hc : Proofs.Heapq.CfgOK cfg) : Proofs.Cache.HeapInv0 cfg HeapOrd where
  nil := heapOrd_nil
  log := heapOrd_log
  pop0 := fun h hh _ => Proofs.Heapq.pop0_heap hs ltEntry_order h hh
  add := fun h v hh hv => Proofs.Heapq.add_max_heap hc h v (newest_max hv) hh
  min := minOK_of_heapOrd

/-- … and, on heaps of at most 4 elements, by `pop` at **every** offset: an offset `< 4` is `≤ 2` (the
moved element's new parent is the root, `pop_shallow_heap`) or the last slot (`pop_last_heap`); the first
interior removal that needs a sift-up is at offset 3 of a heap of 5 -/
theorem heapInvB_std {cfg : Cfg} (hs : Proofs.Heapq.CfgStd cfg) (hc : Proofs.Heapq.CfgOK cfg) :
    Proofs.Cache.HeapInvB cfg HeapOrd 4 :=
  { heapInv0_std hs hc with
    popB := fun h i hh hi hB => by
      by_cases h2 : i ≤ 2
      · exact Proofs.Heapq.pop_shallow_heap hs ltEntry_order h i hi h2 hh
      · exact Proofs.Heapq.pop_last_heap hs.toCfgLayout.left_gt h i (by simp only [H.len]; omega) hh }

end MdsVerif.Proofs.CacheHeap
