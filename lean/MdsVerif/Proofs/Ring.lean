import MdsVerif.Model.Ring
/-!
# Heap-level lemmas for `ring.Ring` (helper lemmas for C10)

`Inv h`: the three arrays have one length, `next`/`prev` stay inside the heap and are mutually
inverse.  Every constructor and every surgery (`newRing`, the loop of `New`, `Of`, `Join`, `Pop`)
preserves it.
-/
namespace MdsVerif.Proofs.Ring
open MdsVerif.Model.Ring

/-! ## the model functions with the regenerated tables and facts (`Gen.Ring`) written out

`Model.Ring.join`, `pop`, `newLoop` interpret the assignment tables that `extract/ring.go` regenerates from
ring.go; these lemmas restate them with the pinned statements written out, and every proof below (and in
`Proofs.RingCycle`, `Proofs.RingRefine`, `Props.C10`) unfolds them only through these.  A reordered or changed
assignment in ring.go changes the table and these lemmas stop compiling. -/
section facts
open MdsVerif.Gen.Ring

theorem get_next (h : Heap) (i : Nat) : h.get .next i = h.nx i := rfl
theorem get_prev (h : Heap) (i : Nat) : h.get .prev i = h.pv i := rfl

theorem join_nn (h : Heap) : join h none none = .ok (h, none) := rfl
theorem join_ns (h : Heap) (s : Nat) : join h none (some s) = .panicNil := rfl
theorem join_sn (h : Heap) (r : Nat) : join h (some r) none = .panicNil := by
  simp [join, joinEarly, anyEq, evalPath, bindLocals, joinLocals]

theorem join_ss (h : Heap) (r s : Nat) :
    join h (some r) (some s) =
      if r = s || h.nx r = s then .ok (h, none) else
      let rnext := h.nx r
      let sprev := h.pv s
      let h1 := h.setNext r s            -- r.next = s
      let h2 := h1.setPrev s r           -- s.prev = r
      let h3 := h2.setNext sprev rnext   -- sprev.next = rnext
      let h4 := h3.setPrev rnext sprev   -- rnext.prev = sprev
      .ok (h4, some rnext) := by
  by_cases h1 : r = s <;> by_cases h2 : h.nx r = s <;>
    simp [join, joinEarly, joinLocals, joinAssigns, joinReturn, anyEq, evalPath, Heap.get, bindLocals, execAssigns,
      Heap.setF, h1, h2]

theorem pop_none (h : Heap) : pop h none = h := rfl

theorem pop_some (h : Heap) (r : Nat) :
    pop h (some r) =
      if h.pv r ≠ r then
        let rprev := h.pv r
        let rnext := h.nx r
        let h1 := h.setNext rprev (h.nx r)     -- rprev.next = r.next
        let h2 := h1.setPrev rnext (h1.pv r)   -- rnext.prev = r.prev
        let h3 := h2.setPrev r r
        h3.setNext r r
      else h := by
  by_cases h1 : h.pv r = r <;>
    simp [pop, popGuard, popLocals, popAssigns, allNe, evalPath, Heap.get, bindLocals, execAssigns, Heap.setF, h1]

theorem newLoop_zero (h : Heap) (r : Nat) : newLoop 0 h r = h := rfl

theorem newLoop_succ' (k : Nat) (h : Heap) (r : Nat) :
    newLoop (k + 1) h r =
      (let (h1, e) := h.newRing
       let h2 := h1.setNext e (h1.nx r)      -- elt.next = r.next
       let h3 := h2.setPrev (h2.nx r) e      -- r.next.prev = elt
       let h4 := h3.setPrev e r              -- elt.prev = r
       let h5 := h4.setNext r e              -- r.next = elt
       newLoop k h5 r) := by
  simp [newLoop, newAssigns, evalPath, Heap.get, execAssigns, Heap.setF]

theorem new_def (h : Heap) (n : Int) :
    new h n = if n ≤ 0 then (h, none) else
      let (h1, r) := h.newRing
      (newLoop (n.toNat - 1) h1 r, some r) := by
  simp [new, newNil]

theorem at_none (h : Heap) (n : Int) : at_ h none n = none := rfl

theorem at_some (h : Heap) (r : Nat) (n : Int) :
    at_ h (some r) n = if n < 0 then atLoop h.pv r (-n).toNat r else atLoop h.nx r n.toNat r := by
  have e1 : h.get .prev = h.pv := rfl
  have e2 : h.get .next = h.nx := rfl
  simp [at_, atNeg, atStepBack, atStepFwd, atBack, atFwd, e1, e2, Int.ediv_neg, Int.ediv_one]

end facts

theorem getD_set (l : List Nat) (i j k : Nat) :
    (l.set i j).getD k 0 = if k = i ∧ i < l.length then j else l.getD k 0 := by
  simp only [List.getD_eq_getElem?_getD, List.getElem?_set]
  by_cases hki : i = k
  · subst hki
    by_cases hlt : i < l.length <;> simp [hlt]
  · have : ¬ k = i := fun e => hki e.symm
    simp [hki, this]

theorem getD_append (l : List Nat) (a k : Nat) :
    (l ++ [a]).getD k 0 = if k = l.length then a else l.getD k 0 := by
  simp only [List.getD_eq_getElem?_getD]
  by_cases h1 : k < l.length
  · rw [List.getElem?_append_left h1]; simp [Nat.ne_of_lt h1]
  · by_cases h2 : k = l.length
    · subst h2; simp
    · rw [List.getElem?_eq_none (by simp; omega), List.getElem?_eq_none (by omega)]; simp [h2]

structure Inv (h : Heap) : Prop where
  plen : h.prev.length = h.next.length
  vlen : h.vals.length = h.next.length
  nlt : ∀ i, i < h.size → h.nx i < h.size
  plt : ∀ i, i < h.size → h.pv i < h.size
  pn : ∀ i, i < h.size → h.pv (h.nx i) = i
  np : ∀ i, i < h.size → h.nx (h.pv i) = i

theorem inv_empty : Inv {} := ⟨rfl, rfl, by simp [Heap.size], by simp [Heap.size], by simp [Heap.size], by simp [Heap.size]⟩

/-- a heap described pointwise: sizes and the two link functions -/
theorem inv_of (h : Heap) (n : Nat) (hn : h.next.length = n) (hp : h.prev.length = n) (hv : h.vals.length = n)
    (H : ∀ i, i < n → h.nx i < n ∧ h.pv i < n ∧ h.pv (h.nx i) = i ∧ h.nx (h.pv i) = i) : Inv h := by
  have hsz : h.size = n := hn
  refine ⟨by omega, by omega, ?_, ?_, ?_, ?_⟩ <;> intro i hi <;> rw [hsz] at * <;> have := H i hi
  · exact this.1
  · exact this.2.1
  · exact this.2.2.1
  · exact this.2.2.2

theorem nx_inj (h : Heap) (hi : Inv h) (a b : Nat) (ha : a < h.size) (hb : b < h.size) (e : h.nx a = h.nx b) :
    a = b := by
  have := hi.pn a ha; rw [e, hi.pn b hb] at this; exact this.symm

theorem pv_inj (h : Heap) (hi : Inv h) (a b : Nat) (ha : a < h.size) (hb : b < h.size) (e : h.pv a = h.pv b) :
    a = b := by
  have := hi.np a ha; rw [e, hi.np b hb] at this; exact this.symm

/-! ## newRing -/

theorem newRing_inv (h : Heap) (hi : Inv h) :
    Inv h.newRing.1 ∧ h.newRing.1.size = h.size + 1 ∧ h.newRing.2 = h.size ∧
      h.newRing.1.nx h.size = h.size ∧ h.newRing.1.pv h.size = h.size ∧
      (∀ k, k < h.size → h.newRing.1.nx k = h.nx k ∧ h.newRing.1.pv k = h.pv k) := by
  have hnx : ∀ k, h.newRing.1.nx k = if k = h.size then h.size else h.nx k := by
    intro k; exact getD_append h.next h.next.length k
  have hpv : ∀ k, h.newRing.1.pv k = if k = h.size then h.size else h.pv k := by
    intro k; have := getD_append h.prev h.next.length k; rw [hi.plen] at this; exact this
  refine ⟨?_, by simp [Heap.newRing, Heap.size], rfl, by simp [hnx], by simp [hpv], ?_⟩
  · apply inv_of _ (h.size + 1) (by simp [Heap.newRing, Heap.size]) (by simp [Heap.newRing, Heap.size, hi.plen])
      (by simp [Heap.newRing, Heap.size, hi.vlen])
    intro i hlt
    by_cases he : i = h.size
    · subst he; simp [hnx, hpv]
    · have hi' : i < h.size := by omega
      have h1 := hi.nlt i hi'; have h2 := hi.plt i hi'
      have h3 : h.nx i ≠ h.size := by omega
      have h4 : h.pv i ≠ h.size := by omega
      simp only [hnx, hpv, he, h3, h4, if_false]
      exact ⟨by omega, by omega, hi.pn i hi', hi.np i hi'⟩
  · intro k hk
    have : k ≠ h.size := by omega
    simp [hnx, hpv, this]

/-! ## Join -/

theorem nx_setNext (h : Heap) (i j k : Nat) :
    (h.setNext i j).nx k = if k = i ∧ i < h.size then j else h.nx k := getD_set h.next i j k
theorem pv_setPrev (h : Heap) (i j k : Nat) :
    (h.setPrev i j).pv k = if k = i ∧ i < h.prev.length then j else h.pv k := getD_set h.prev i j k
@[simp] theorem pv_setNext (h : Heap) (i j k : Nat) : (h.setNext i j).pv k = h.pv k := rfl
@[simp] theorem nx_setPrev (h : Heap) (i j k : Nat) : (h.setPrev i j).nx k = h.nx k := rfl
@[simp] theorem pv_setVal (h : Heap) (i : Nat) (v : Int) (k : Nat) : (h.setVal i v).pv k = h.pv k := rfl
@[simp] theorem nx_setVal (h : Heap) (i : Nat) (v : Int) (k : Nat) : (h.setVal i v).nx k = h.nx k := rfl
@[simp] theorem size_setNext (h : Heap) (i j : Nat) : (h.setNext i j).size = h.size := by
  simp [Heap.setNext, Heap.size]
@[simp] theorem size_setPrev (h : Heap) (i j : Nat) : (h.setPrev i j).size = h.size := rfl
@[simp] theorem size_setVal (h : Heap) (i : Nat) (v : Int) : (h.setVal i v).size = h.size := rfl
@[simp] theorem plen_setPrev (h : Heap) (i j : Nat) : (h.setPrev i j).prev.length = h.prev.length := by
  simp [Heap.setPrev]
@[simp] theorem plen_setNext (h : Heap) (i j : Nat) : (h.setNext i j).prev.length = h.prev.length := rfl
@[simp] theorem nlen_setNext (h : Heap) (i j : Nat) : (h.setNext i j).next.length = h.next.length := by
  simp [Heap.setNext]
@[simp] theorem nlen_setPrev (h : Heap) (i j : Nat) : (h.setPrev i j).next.length = h.next.length := rfl
@[simp] theorem vlen_setNext (h : Heap) (i j : Nat) : (h.setNext i j).vals.length = h.vals.length := rfl
@[simp] theorem vlen_setPrev (h : Heap) (i j : Nat) : (h.setPrev i j).vals.length = h.vals.length := rfl
@[simp] theorem vals_setNext (h : Heap) (i j : Nat) : (h.setNext i j).vals = h.vals := rfl
@[simp] theorem vals_setPrev (h : Heap) (i j : Nat) : (h.setPrev i j).vals = h.vals := rfl

/-- the general surgery: redirect `next a := b'`, `next c := d'` and `prev b' := a`, `prev d' := c`
where `b' = next c`, `d' = next a` (exchange the successors of `a` and `c`).  `Join` (a = r,
c = s.prev), `Pop` (a = r.prev, c = r) and the loop of `New` (a = r, c = the fresh cell) are all of
this form. -/
theorem exchange_inv (h h' : Heap) (hi : Inv h) (a c : Nat) (ha : a < h.size) (hc : c < h.size)
    (hs : h'.next.length = h.next.length) (hp : h'.prev.length = h.next.length) (hv : h'.vals.length = h.next.length)
    (hnx : ∀ k, h'.nx k = if k = a then h.nx c else if k = c then h.nx a else h.nx k)
    (hpv : ∀ k, h'.pv k = if k = h.nx c then a else if k = h.nx a then c else h.pv k) : Inv h' := by
  apply inv_of h' h.size hs hp hv
  intro i hlt
  have hna := hi.nlt a ha; have hnc := hi.nlt c hc
  refine ⟨?_, ?_, ?_, ?_⟩
  · rw [hnx]; split
    · exact hnc
    · split
      · exact hna
      · exact hi.nlt i hlt
  · rw [hpv]; split
    · exact ha
    · split
      · exact hc
      · exact hi.plt i hlt
  · rw [hnx]
    by_cases h1 : i = a
    · simp [h1, hpv]
    · by_cases h2 : i = c
      · subst h2
        simp only [h1, if_false, if_true, hpv]
        by_cases h3 : h.nx a = h.nx i
        · exact absurd (nx_inj h hi a i ha hc h3) (fun e => h1 e.symm)
        · simp [h3]
      · simp only [h1, h2, if_false, hpv]
        have h3 : h.nx i ≠ h.nx c := fun e => h2 (nx_inj h hi i c hlt hc e)
        have h4 : h.nx i ≠ h.nx a := fun e => h1 (nx_inj h hi i a hlt ha e)
        simp [h3, h4, hi.pn i hlt]
  · rw [hpv]
    by_cases h1 : i = h.nx c
    · simp [h1, hnx]
    · by_cases h2 : i = h.nx a
      · subst h2
        rw [if_neg h1, if_pos rfl, hnx c]
        by_cases h3 : c = a
        · subst h3; simp
        · simp [h3]
      · simp only [h1, h2, if_false, hnx]
        have h3 : h.pv i ≠ a := fun e => h2 (by rw [← e, hi.np i hlt])
        have h4 : h.pv i ≠ c := fun e => h1 (by rw [← e, hi.np i hlt])
        simp [h3, h4, hi.np i hlt]

theorem join_inv (h : Heap) (hi : Inv h) (r s : Nat) (hr : r < h.size) (hs : s < h.size) :
    ∃ h' p, join h (some r) (some s) = .ok (h', p) ∧ Inv h' ∧ h'.size = h.size ∧ h'.vals = h.vals ∧
      (∀ q, p = some q → q < h.size) := by
  by_cases hc : (r = s || h.nx r = s) = true
  · exact ⟨h, none, by simp [join_ss, hc], hi, rfl, rfl, by simp⟩
  · simp only [Bool.or_eq_true, decide_eq_true_eq, not_or] at hc
    refine ⟨(((h.setNext r s).setPrev s r).setNext (h.pv s) (h.nx r)).setPrev (h.nx r) (h.pv s), some (h.nx r),
      by simp [join_ss, hc], ?_, by simp, by simp, ?_⟩
    · have hsp := hi.plt s hs
      have hrn := hi.nlt r hr
      have hne : h.pv s ≠ r := fun e => hc.2 (by rw [← e, hi.np s hs])
      have hne2 : h.nx r ≠ s := hc.2
      apply exchange_inv h _ hi r (h.pv s) hr hsp (by simp) (by simp [hi.plen]) (by simp [hi.vlen])
      · intro k
        simp only [nx_setPrev, nx_setNext, size_setNext, size_setPrev, hi.np s hs]
        by_cases h1 : k = h.pv s
        · have : k ≠ r := fun e => hne (by rw [← h1, e])
          simp [h1, hsp, this, hne]
        · by_cases h2 : k = r <;> simp [h1, h2, hr, hne.symm]
      · intro k
        simp only [pv_setPrev, pv_setNext, plen_setPrev, plen_setNext, hi.np s hs]
        have hs' : s < h.prev.length := by rw [hi.plen]; exact hs
        have hrn' : h.nx r < h.prev.length := by rw [hi.plen]; exact hrn
        by_cases h1 : k = h.nx r
        · have : k ≠ s := fun e => hne2 (by rw [← h1, e])
          simp [h1, hrn', this, hne2]
        · by_cases h2 : k = s <;> simp [h1, h2, hs', hne2.symm]
    · intro q hq; simp at hq; subst hq; exact hi.nlt r hr

theorem pop_inv (h : Heap) (hi : Inv h) (r : Nat) (hr : r < h.size) :
    Inv (pop h (some r)) ∧ (pop h (some r)).size = h.size ∧ (pop h (some r)).vals = h.vals ∧
      (pop h (some r)).nx r = r ∧ (pop h (some r)).pv r = r := by
  by_cases hc : h.pv r = r
  · have hn : h.nx r = r := by have := hi.np r hr; rw [hc] at this; exact this
    simp [pop_some, hc, hi, hn]
  · have hrp := hi.plt r hr
    have hrn := hi.nlt r hr
    have hr' : r < h.prev.length := by rw [hi.plen]; exact hr
    have hrn' : h.nx r < h.prev.length := by rw [hi.plen]; exact hrn
    have hnr : h.nx r ≠ r := fun e => hc (by have := hi.pn r hr; rw [e] at this; exact this)
    have hnx : ∀ k, (pop h (some r)).nx k = if k = h.pv r then h.nx r else if k = r then r else h.nx k := by
      intro k
      simp only [pop_some, hc, ne_eq, not_false_eq_true, if_true, nx_setNext, nx_setPrev, size_setPrev, size_setNext]
      by_cases h1 : k = r
      · have : r ≠ h.pv r := fun e => hc e.symm
        simp [h1, hr, this]
      · by_cases h2 : k = h.pv r <;> simp [h1, h2, hrp, hc]
    have hpv : ∀ k, (pop h (some r)).pv k = if k = h.nx r then h.pv r else if k = r then r else h.pv k := by
      intro k
      simp only [pop_some, hc, ne_eq, not_false_eq_true, if_true, pv_setNext, pv_setPrev, plen_setPrev, plen_setNext]
      by_cases h1 : k = r
      · have : r ≠ h.nx r := fun e => hnr e.symm
        simp [h1, hr', this]
      · by_cases h2 : k = h.nx r <;> simp [h1, h2, hrn', hnr]
    have hne1 : r ≠ h.pv r := fun e => hc e.symm
    have hne2 : r ≠ h.nx r := fun e => hnr e.symm
    refine ⟨?_, by simp [pop_some, hc], by simp [pop_some, hc], by simp [hnx, hne1], by simp [hpv, hne2]⟩
    apply exchange_inv h _ hi (h.pv r) r hrp hr (by simp [pop_some, hc]) (by simp [pop_some, hc, hi.plen])
      (by simp [pop_some, hc, hi.vlen])
    · intro k; rw [hnx, hi.np r hr]
    · intro k; rw [hpv, hi.np r hr]

/-! ## New / Of -/

theorem newLoop_inv : ∀ (k : Nat) (h : Heap) (r : Nat), Inv h → r < h.size →
    Inv (newLoop k h r) ∧ (newLoop k h r).size = h.size + k := by
  intro k
  induction k with
  | zero => intro h r hi _; exact ⟨hi, rfl⟩
  | succ k ih =>
    intro h r hi hr
    obtain ⟨i1, s1, e1, n1, p1, f1⟩ := newRing_inv h hi
    have hr1 : r < h.newRing.1.size := by omega
    have hre : r ≠ h.size := by omega
    have hpl : h.newRing.1.prev.length = h.newRing.1.size := i1.plen
    have hstep : Inv ((((h.newRing.1.setNext h.size (h.newRing.1.nx r)).setPrev
        ((h.newRing.1.setNext h.size (h.newRing.1.nx r)).nx r) h.size).setPrev h.size r).setNext r h.size) := by
      apply exchange_inv h.newRing.1 _ i1 r h.size hr1 (by omega) (by simp) (by simp [i1.plen]) (by simp [i1.vlen])
      · intro k
        simp only [nx_setNext, nx_setPrev, size_setNext, size_setPrev, n1]
        by_cases h1 : k = r
        · simp [h1, hr1]
        · by_cases h2 : k = h.size <;> simp [h1, h2, s1, hre.symm]
      · intro k
        simp only [pv_setNext, pv_setPrev, plen_setPrev, plen_setNext, nx_setNext, n1, hpl, s1]
        have hnr : h.newRing.1.nx r < h.size + 1 := by have := i1.nlt r hr1; omega
        by_cases h1 : k = h.size
        · simp [h1, hre]
        · simp [h1, hre, hnr]
    have := ih _ r hstep (by simpa [s1] using hr1)
    simp only [newLoop_succ', e1]
    refine ⟨this.1, ?_⟩
    rw [this.2]; simp [s1]; omega

theorem new_inv (h : Heap) (hi : Inv h) (n : Int) :
    Inv (new h n).1 ∧ h.size ≤ (new h n).1.size ∧ (∀ q, (new h n).2 = some q → q < (new h n).1.size) := by
  by_cases hn : n ≤ 0
  · simp [new_def, hn, hi]
  · obtain ⟨i1, s1, e1, _, _, _⟩ := newRing_inv h hi
    have := newLoop_inv (n.toNat - 1) h.newRing.1 h.newRing.2 i1 (by omega)
    simp only [new_def, hn, if_false]
    refine ⟨this.1, by rw [this.2]; omega, ?_⟩
    intro q hq; simp at hq; subst hq; rw [this.2]; omega

theorem setVal_inv (h : Heap) (hi : Inv h) (i : Nat) (v : Int) : Inv (h.setVal i v) :=
  ⟨hi.plen, by simpa [Heap.setVal] using hi.vlen, hi.nlt, hi.plt, hi.pn, hi.np⟩

theorem ofLoop_inv : ∀ (vs : List Int) (h : Heap) (cur : Nat), Inv h →
    Inv (ofLoop vs h cur) ∧ (ofLoop vs h cur).size = h.size := by
  intro vs
  induction vs with
  | nil => intro h cur hi; exact ⟨hi, rfl⟩
  | cons v vs ih =>
    intro h cur hi
    have := ih (h.setVal cur v) ((h.setVal cur v).nx cur) (setVal_inv h hi cur v)
    simpa [ofLoop] using this

theorem of_inv (h : Heap) (hi : Inv h) (vs : List Int) :
    Inv (of h vs).1 ∧ h.size ≤ (of h vs).1.size ∧ (∀ q, (of h vs).2 = some q → q < (of h vs).1.size) := by
  have hn := new_inv h hi vs.length
  unfold of
  cases hnew : new h vs.length with
  | mk h1 p =>
    rw [hnew] at hn
    cases p with
    | none => simpa using hn
    | some r =>
      have := ofLoop_inv vs h1 r hn.1
      simp only
      refine ⟨this.1, by rw [this.2]; exact hn.2.1, ?_⟩
      intro q hq; rw [this.2]; exact hn.2.2 q hq

/-! ## the register machine keeps the invariant -/

/-- state invariant: the heap invariant, and every register is nil or a cell of the heap -/
structure RInv (s : St) : Prop where
  inv : Inv s.h
  regs : ∀ i q, s.reg i = some q → q < s.h.size

theorem reg_setReg (s : St) (d : Nat) (p : Ptr) (i : Nat) :
    (s.setReg d p).reg i = if i = d ∧ d < s.regs.length then p else s.reg i := by
  simp only [St.setReg, St.reg, List.getD_eq_getElem?_getD, List.getElem?_set]
  by_cases h1 : d = i
  · subst h1
    by_cases hlt : d < s.regs.length <;> simp [hlt]
  · have : ¬ i = d := fun e => h1 e.symm
    simp [h1, this]

theorem rinv_setReg (s : St) (h' : Heap) (d : Nat) (p : Ptr) (hs : RInv s) (hi : Inv h')
    (hsz : s.h.size ≤ h'.size) (hp : ∀ q, p = some q → q < h'.size) :
    RInv ({ s with h := h' }.setReg d p) := by
  refine ⟨hi, ?_⟩
  intro i q hq
  rw [reg_setReg] at hq
  split at hq
  · exact hp q hq
  · have := hs.regs i q hq
    exact Nat.lt_of_lt_of_le this hsz

theorem atLoop_lt (step : Nat → Nat) (r n0 : Nat) (hstep : ∀ i, i < n0 → step i < n0) :
    ∀ (n cur : Nat), cur < n0 → ∀ q, atLoop step r n cur = some q → q < n0 := by
  intro n
  induction n with
  | zero => intro cur hc q hq; simp [atLoop] at hq; omega
  | succ n ih =>
    intro cur hc q hq
    simp only [atLoop] at hq
    split at hq
    · simp at hq
    · exact ih (step cur) (hstep cur hc) q hq

theorem at_lt (h : Heap) (hi : Inv h) (r : Ptr) (n : Int) (hr : ∀ q, r = some q → q < h.size) :
    ∀ q, at_ h r n = some q → q < h.size := by
  intro q hq
  cases r with
  | none => simp [at_none] at hq
  | some r =>
    have hr' := hr r rfl
    simp only [at_some] at hq
    split at hq
    · exact atLoop_lt h.pv r h.size hi.plt _ r hr' q hq
    · exact atLoop_lt h.nx r h.size hi.nlt _ r hr' q hq

theorem step_rinv (s : St) (op : Op) (hs : RInv s) : RInv (step s op).1 := by
  have hself : ∀ d p, (∀ q, p = some q → q < s.h.size) → RInv (s.setReg d p) := fun d p hp =>
    rinv_setReg s s.h d p hs hs.inv (Nat.le_refl _) hp
  cases op with
  | of d vs =>
    have := of_inv s.h hs.inv vs
    simp only [step]
    exact rinv_setReg s _ d _ hs this.1 this.2.1 this.2.2
  | new d n =>
    have := new_inv s.h hs.inv n
    simp only [step]
    exact rinv_setReg s _ d _ hs this.1 this.2.1 this.2.2
  | join d r t =>
    simp only [step]
    cases hr : s.reg r with
    | none => cases ht : s.reg t with
      | none => simpa [join_nn, join_ns, join_sn, join_ss] using hself d none (by simp)
      | some b => simpa [join_nn, join_ns, join_sn, join_ss] using hs
    | some a => cases ht : s.reg t with
      | none => simpa [join_nn, join_ns, join_sn, join_ss] using hs
      | some b =>
        obtain ⟨h', p, e, i', sz, _, hp⟩ := join_inv s.h hs.inv a b (hs.regs r a hr) (hs.regs t b ht)
        rw [e]
        exact rinv_setReg s h' d p hs i' (by omega) (fun q hq => by rw [sz]; exact hp q hq)
  | pop d r =>
    simp only [step]
    cases hr : s.reg r with
    | none => simpa [pop_none, pop_some] using hself d none (by simp)
    | some a =>
      have := pop_inv s.h hs.inv a (hs.regs r a hr)
      exact rinv_setReg s _ d _ hs this.1 (by omega) (fun q hq => by
        simp at hq; subst hq; rw [this.2.1]; exact hs.regs r _ hr)
  | next d r =>
    simp only [step]
    cases hr : s.reg r with
    | none => exact hs
    | some a => exact hself d _ (fun q hq => by simp at hq; subst hq; exact hs.inv.nlt a (hs.regs r a hr))
  | prev d r =>
    simp only [step]
    cases hr : s.reg r with
    | none => exact hs
    | some a => exact hself d _ (fun q hq => by simp at hq; subst hq; exact hs.inv.plt a (hs.regs r a hr))
  | at_ d r n =>
    simp only [step]
    exact hself d _ (at_lt s.h hs.inv (s.reg r) n (fun q hq => hs.regs r q hq))
  | peek r n => simp only [step]; exact hs
  | len r => simp only [step]; split <;> exact hs
  | each r k => simp only [step]; split <;> exact hs
  | isEmpty r => exact hs

theorem reg_init (i : Nat) : ({} : St).reg i = none := by
  show (List.replicate 8 (none : Ptr)).getD i none = none
  rw [List.getD_eq_getElem?_getD]
  cases hx : (List.replicate 8 (none : Ptr))[i]? with
  | none => rfl
  | some x =>
    have hm := List.mem_of_getElem? hx
    simp only [List.mem_replicate] at hm
    simp [hm.2]

theorem rinv_init : RInv {} := ⟨inv_empty, fun i q hq => by rw [reg_init] at hq; simp at hq⟩

/-! ## cycles as lists -/

/-- the cells `xs` follow each other by `next`, the last one is followed by `e` -/
def Lk (h : Heap) : List Nat → Nat → Prop
  | [], _ => True
  | a :: l, e => h.nx a = l.headD e ∧ Lk h l e

theorem lk_append (h : Heap) (l1 l2 : List Nat) (e : Nat) :
    Lk h (l1 ++ l2) e ↔ Lk h l1 (l2.headD e) ∧ Lk h l2 e := by
  induction l1 with
  | nil => simp [Lk]
  | cons a l ih =>
    simp only [List.cons_append, Lk, ih]
    have : (l ++ l2).headD e = l.headD (l2.headD e) := by cases l <;> simp
    rw [this]
    constructor
    · rintro ⟨h1, h2, h3⟩; exact ⟨⟨h1, h2⟩, h3⟩
    · rintro ⟨⟨h1, h2⟩, h3⟩; exact ⟨h1, h2, h3⟩

theorem lk_congr (h h' : Heap) (xs : List Nat) (e : Nat) (hc : ∀ a ∈ xs, h'.nx a = h.nx a) :
    Lk h' xs e ↔ Lk h xs e := by
  induction xs with
  | nil => simp [Lk]
  | cons a l ih =>
    simp only [Lk]
    rw [hc a (by simp), ih (fun b hb => hc b (by simp [hb]))]

/-- `c` is a cycle of `next`, read from its first element -/
structure Cyc (h : Heap) (c : List Nat) : Prop where
  ne : c ≠ []
  lk : Lk h c (c.headD 0)
  nodup : c.Nodup
  bound : ∀ i ∈ c, i < h.size

theorem headD_snoc_append (cs : List Nat) (c : Nat) (as : List Nat) (d d' : Nat) :
    ((cs ++ [c]) ++ as).headD d = (cs ++ [c]).headD d' := by cases cs <;> simp

/-- exchange of successors between two different cycles merges them:
`[a as…]`, `[cs… c]` become `[a cs… c as…]` -/
theorem exchange_merge (h h' : Heap) (a c : Nat) (as cs : List Nat) (hsz : h'.size = h.size)
    (hnx : ∀ k, h'.nx k = if k = a then h.nx c else if k = c then h.nx a else h.nx k)
    (h1 : Cyc h (a :: as)) (h2 : Cyc h (cs ++ [c])) (hd : ∀ x ∈ a :: as, x ∉ cs ++ [c]) :
    Cyc h' (a :: ((cs ++ [c]) ++ as)) := by
  have n1 := h1.nodup; rw [List.nodup_cons] at n1
  have n2 := h2.nodup; rw [List.nodup_append] at n2
  have hac : a ≠ c := fun e => hd a (by simp) (by simp [e])
  have l1 := h1.lk; simp only [List.headD_cons, Lk] at l1
  have l2 := h2.lk; rw [lk_append] at l2
  simp only [Lk, List.headD_cons, List.headD_nil, and_true] at l2
  -- the head of the second cycle is `next c`
  have hhead : (cs ++ [c]).headD 0 = h.nx c := l2.2.symm
  refine ⟨by simp, ?_, ?_, ?_⟩
  · simp only [List.headD_cons, Lk]
    refine ⟨?_, ?_⟩
    · rw [hnx, if_pos rfl, headD_snoc_append cs c as a 0, hhead]
    · rw [lk_append, lk_append]
      refine ⟨⟨?_, ?_⟩, ?_⟩
      · rw [lk_congr h h' cs _ ?_]
        · simpa using l2.1
        · intro x hx
          have hxa : x ≠ a := fun e => hd a (by simp) (by simp [← e, hx])
          have hxc : x ≠ c := fun e => n2.2.2 x hx c (by simp) e
          rw [hnx]; simp [hxa, hxc]
      · simp only [Lk, List.headD_nil, and_true]
        rw [hnx, if_neg hac.symm, if_pos rfl, l1.1]
      · rw [lk_congr h h' as _ ?_]
        · exact l1.2
        · intro x hx
          have hxa : x ≠ a := fun e => n1.1 (e ▸ hx)
          have hxc : x ≠ c := fun e => hd x (by simp [hx]) (by simp [e])
          rw [hnx]; simp [hxa, hxc]
  · rw [List.nodup_cons, List.nodup_append]
    refine ⟨?_, h2.nodup, n1.2, ?_⟩
    · intro hm
      rw [List.mem_append] at hm
      rcases hm with hm | hm
      · exact hd a (by simp) hm
      · exact n1.1 hm
    · intro x hx y hy e
      exact hd y (by simp [hy]) (e ▸ hx)
  · intro i hi
    rw [hsz]
    rw [List.mem_cons, List.mem_append] at hi
    rcases hi with hi | hi | hi
    · subst hi; exact h1.bound _ (by simp)
    · exact h2.bound i hi
    · exact h1.bound i (by simp [hi])

/-- exchange of successors inside one cycle splits it:
`[a m… c rest…]` becomes `[a rest…]` and `[m… c]` -/
theorem exchange_split (h h' : Heap) (a c : Nat) (m rest : List Nat) (hsz : h'.size = h.size)
    (hnx : ∀ k, h'.nx k = if k = a then h.nx c else if k = c then h.nx a else h.nx k)
    (h1 : Cyc h (a :: ((m ++ [c]) ++ rest))) :
    Cyc h' (a :: rest) ∧ Cyc h' (m ++ [c]) := by
  have n1 := h1.nodup
  rw [List.nodup_cons, List.nodup_append, List.nodup_append] at n1
  obtain ⟨na, ⟨nm, _, nmc⟩, nr, nmr⟩ := n1
  have nam : a ∉ m := fun hm => na (by simp [hm])
  have nar : a ∉ rest := fun hm => na (by simp [hm])
  have hac : a ≠ c := fun e => na (by simp [e])
  have l1 := h1.lk
  simp only [List.headD_cons, Lk] at l1
  obtain ⟨la, l1⟩ := l1
  rw [lk_append, lk_append] at l1
  simp only [Lk, List.headD_cons, List.headD_nil, and_true] at l1
  obtain ⟨⟨lm, lc⟩, lr⟩ := l1
  -- next a = head of (m ++ [c]), next c = rest.headD a
  have hna : h.nx a = (m ++ [c]).headD 0 := by
    rw [la]; exact headD_snoc_append m c rest a 0
  refine ⟨⟨by simp, ?_, ?_, ?_⟩, ⟨by simp, ?_, ?_, ?_⟩⟩
  · simp only [List.headD_cons, Lk]
    refine ⟨by rw [hnx, if_pos rfl, lc], ?_⟩
    rw [lk_congr h h' rest _ ?_]
    · exact lr
    · intro x hx
      have hxa : x ≠ a := fun e => nar (e ▸ hx)
      have hxc : x ≠ c := fun e => nmr c (by simp) x hx e.symm
      rw [hnx]; simp [hxa, hxc]
  · rw [List.nodup_cons]; exact ⟨nar, nr⟩
  · intro i hi; rw [hsz]; apply h1.bound
    rw [List.mem_cons] at hi
    rcases hi with hi | hi <;> simp [hi]
  · rw [lk_append]
    simp only [Lk, List.headD_cons, List.headD_nil, and_true]
    refine ⟨?_, ?_⟩
    · rw [lk_congr h h' m _ ?_]
      · exact lm
      · intro x hx
        have hxa : x ≠ a := fun e => nam (e ▸ hx)
        have hxc : x ≠ c := fun e => nmc x hx c (by simp) e
        rw [hnx]; simp [hxa, hxc]
    · rw [hnx, if_neg hac.symm, if_pos rfl, hna]
  · rw [List.nodup_append]; exact ⟨nm, by simp, nmc⟩
  · intro i hi; rw [hsz]; apply h1.bound
    rw [List.mem_append, List.mem_singleton] at hi
    rcases hi with hi | hi <;> simp [hi]

/-- with `Inv`, the predecessor of the head of a cycle is its last element -/
theorem cyc_pv_head (h : Heap) (hi : Inv h) (cs : List Nat) (c : Nat) (hc : Cyc h (cs ++ [c])) :
    h.pv ((cs ++ [c]).headD 0) = c := by
  have l := hc.lk
  rw [lk_append] at l
  simp only [Lk, List.headD_cons, List.headD_nil, and_true] at l
  rw [← l.2]
  exact hi.pn c (hc.bound c (by simp))

/-- what `Join` does to `next` when it does anything: the successors of `r` and of `s.prev` are exchanged -/
theorem join_nx (h : Heap) (hi : Inv h) (r s : Nat) (hr : r < h.size) (hs : s < h.size)
    (h1 : r ≠ s) (h2 : h.nx r ≠ s) :
    ∃ h', join h (some r) (some s) = .ok (h', some (h.nx r)) ∧ h'.size = h.size ∧ h'.vals = h.vals ∧ Inv h' ∧
      ∀ k, h'.nx k = if k = r then h.nx (h.pv s) else if k = h.pv s then h.nx r else h.nx k := by
  obtain ⟨h', p, e, i', sz, v, _⟩ := join_inv h hi r s hr hs
  have hj : join h (some r) (some s) =
      .ok ((((h.setNext r s).setPrev s r).setNext (h.pv s) (h.nx r)).setPrev (h.nx r) (h.pv s), some (h.nx r)) := by
    simp [join_ss, h1, h2]
  rw [hj] at e
  injection e with e; injection e with e1 e2
  subst e1
  refine ⟨_, hj, sz, v, i', ?_⟩
  intro k
  have hsp := hi.plt s hs
  have hne : h.pv s ≠ r := fun e => h2 (by rw [← e, hi.np s hs])
  simp only [nx_setPrev, nx_setNext, size_setNext, size_setPrev, hi.np s hs]
  by_cases h3 : k = h.pv s
  · simp [h3, hsp, hne]
  · by_cases h4 : k = r <;> simp [h3, h4, hr, hne.symm]

theorem pop_nx (h : Heap) (hi : Inv h) (r : Nat) (hr : r < h.size) (hc : h.pv r ≠ r) :
    ∀ k, (pop h (some r)).nx k = if k = h.pv r then h.nx r else if k = r then h.nx (h.pv r) else h.nx k := by
  intro k
  have hrp := hi.plt r hr
  simp only [pop_some, hc, ne_eq, not_false_eq_true, if_true, nx_setNext, nx_setPrev, size_setPrev, size_setNext,
    hi.np r hr]
  by_cases h1 : k = r
  · have : r ≠ h.pv r := fun e => hc e.symm
    simp [h1, hr, this]
  · by_cases h2 : k = h.pv r <;> simp [h1, h2, hrp, hc]

theorem exists_snoc (l : List Nat) (hl : l ≠ []) : ∃ cs c, l = cs ++ [c] := by
  rcases List.eq_nil_or_concat l with h | ⟨cs, c, h⟩
  · exact absurd h hl
  · exact ⟨cs, c, by simpa using h⟩

/-! ## `New` and `Of` build one cycle carrying the given values -/

theorem cyc_frame (h h' : Heap) (c : List Nat) (hc : Cyc h c) (hsz : h.size ≤ h'.size)
    (hnx : ∀ k ∈ c, h'.nx k = h.nx k) : Cyc h' c :=
  ⟨hc.ne, (lk_congr h h' c _ hnx).mpr hc.lk, hc.nodup, fun i hi => Nat.lt_of_lt_of_le (hc.bound i hi) hsz⟩

/-- one iteration of the loop of `New`: the fresh cell is inserted directly after `r` -/
theorem newStep_cyc (h : Heap) (hi : Inv h) (r : Nat) (as : List Nat) (hc : Cyc h (r :: as)) :
    Cyc (newLoop 1 h r) (r :: h.size :: as) ∧ Inv (newLoop 1 h r) ∧ (newLoop 1 h r).size = h.size + 1 := by
  have hr : r < h.size := hc.bound r (by simp)
  obtain ⟨i1, s1, e1, n1, p1, f1⟩ := newRing_inv h hi
  have hr1 : r < h.newRing.1.size := by omega
  have hre : r ≠ h.size := by omega
  have hl := newLoop_inv 1 h r hi hr
  refine ⟨?_, hl.1, hl.2⟩
  have c1 : Cyc h.newRing.1 (r :: as) :=
    cyc_frame h _ _ hc (by omega) (fun k hk => (f1 k (hc.bound k hk)).1)
  have c2 : Cyc h.newRing.1 ([] ++ [h.size]) :=
    ⟨by simp, by simp [Lk, n1], by simp, by intro i hi; simp at hi; omega⟩
  have := exchange_merge h.newRing.1 (newLoop 1 h r) r h.size as [] (by rw [hl.2, s1]) ?_ c1 c2
    (by intro x hx; have := hc.bound x hx; simp; omega)
  · simpa using this
  · intro k
    simp only [newLoop_zero, newLoop_succ', e1, nx_setNext, nx_setPrev, size_setNext, size_setPrev, n1]
    by_cases h1 : k = r
    · simp [h1, hr1]
    · by_cases h2 : k = h.size <;> simp [h1, h2, s1, hre.symm]

theorem newLoop_succ (k : Nat) (h : Heap) (r : Nat) : newLoop (k + 1) h r = newLoop k (newLoop 1 h r) r := rfl

theorem newLoop_cyc : ∀ (k : Nat) (h : Heap) (r : Nat) (as : List Nat), Inv h → Cyc h (r :: as) →
    ∃ mid, mid.length = k ∧ Cyc (newLoop k h r) (r :: (mid ++ as)) ∧ Inv (newLoop k h r) := by
  intro k
  induction k with
  | zero => intro h r as hi hc; exact ⟨[], rfl, by simpa [newLoop_zero, newLoop_succ'] using hc, hi⟩
  | succ k ih =>
    intro h r as hi hc
    obtain ⟨c1, i1, _⟩ := newStep_cyc h hi r as hc
    obtain ⟨mid, ml, c2, i2⟩ := ih (newLoop 1 h r) r (h.size :: as) i1 c1
    refine ⟨mid ++ [h.size], by simp [ml], ?_, ?_⟩
    · rw [newLoop_succ]; simpa using c2
    · rw [newLoop_succ]; exact i2

theorem ofLoop_spec : ∀ (vs : List Int) (c : List Nat) (h : Heap) (e : Nat), Lk h c e → c.Nodup →
    c.length = vs.length → (∀ i ∈ c, i < h.vals.length) →
    (ofLoop vs h (c.headD e)).next = h.next ∧ (ofLoop vs h (c.headD e)).prev = h.prev ∧
    c.map (ofLoop vs h (c.headD e)).val = vs ∧ (∀ j, j ∉ c → (ofLoop vs h (c.headD e)).val j = h.val j) := by
  intro vs
  induction vs with
  | nil =>
    intro c h e _ _ hl _
    have : c = [] := List.length_eq_zero_iff.mp hl
    subst this; simp [ofLoop]
  | cons v vs ih =>
    intro c h e hlk hn hl hb
    cases c with
    | nil => simp at hl
    | cons a l =>
      rw [List.nodup_cons] at hn
      simp only [Lk] at hlk
      simp only [List.headD_cons, ofLoop, nx_setVal, hlk.1]
      have hlk' : Lk (h.setVal a v) l e := (lk_congr h (h.setVal a v) l e (fun _ _ => rfl)).mpr hlk.2
      obtain ⟨e1, e2, e3, e4⟩ := ih l (h.setVal a v) e hlk' hn.2 (by simpa using hl)
        (fun i hi => by simpa [Heap.setVal] using hb i (by simp [hi]))
      refine ⟨e1, e2, ?_, ?_⟩
      · simp only [List.map_cons, e3]
        rw [e4 a hn.1]
        have : a < h.vals.length := hb a (by simp)
        simp [Heap.val, Heap.setVal, List.getD_eq_getElem?_getD, this]
      · intro j hj
        simp only [List.mem_cons, not_or] at hj
        rw [e4 j hj.2]
        simp [Heap.val, Heap.setVal, List.getD_eq_getElem?_getD, List.getElem?_set, Ne.symm hj.1]

theorem of_eq (h : Heap) (vs : List Int) (h1 : Heap) (r : Nat) (hn : new h vs.length = (h1, some r)) :
    of h vs = (ofLoop vs h1 r, some r) := by unfold of; rw [hn]

theorem of_cyc (h : Heap) (hi : Inv h) (v : Int) (vs : List Int) :
    ∃ r l, (of h (v :: vs)).2 = some r ∧ Cyc (of h (v :: vs)).1 (r :: l) ∧
      (r :: l).map (of h (v :: vs)).1.val = v :: vs ∧ Inv (of h (v :: vs)).1 := by
  obtain ⟨i1, s1, e1, n1, p1, f1⟩ := newRing_inv h hi
  have c0 : Cyc h.newRing.1 [h.size] := ⟨by simp, by simp [Lk, n1], by simp, by intro i hi; simp at hi; omega⟩
  obtain ⟨mid, ml, c1, i2⟩ := newLoop_cyc vs.length h.newRing.1 h.size [] i1 c0
  have hnew : new h ((v :: vs).length : Nat) = (newLoop vs.length h.newRing.1 h.size, some h.size) := by
    have : ¬ (((v :: vs).length : Nat) : Int) ≤ 0 := by simp only [List.length_cons]; omega
    have h2 : (((v :: vs).length : Nat) : Int).toNat - 1 = vs.length := by simp
    simp only [new_def, this, if_false, e1, h2]
  simp only [List.append_nil] at c1
  have hb : ∀ i ∈ h.size :: mid, i < (newLoop vs.length h.newRing.1 h.size).vals.length := by
    intro i hi'; rw [i2.vlen]; exact c1.bound i hi'
  obtain ⟨e1', e2', e3', _⟩ := ofLoop_spec (v :: vs) (h.size :: mid) _ h.size c1.lk c1.nodup (by simp [ml]) hb
  simp only [List.headD_cons] at e1' e2' e3'
  have hof := of_eq h (v :: vs) _ _ hnew
  refine ⟨h.size, mid, by rw [hof], ?_, ?_, ?_⟩
  · rw [hof]
    have hsz : (ofLoop (v :: vs) (newLoop vs.length h.newRing.1 h.size) h.size).size =
        (newLoop vs.length h.newRing.1 h.size).size := congrArg List.length e1'
    exact cyc_frame _ _ _ c1 (by show _ ≤ (ofLoop _ _ _).size; rw [hsz]; exact Nat.le_refl _)
      (fun k _ => by show (ofLoop _ _ _).nx k = _; simp [Heap.nx, e1'])
  · rw [hof]; exact e3'
  · rw [hof]
    exact (ofLoop_inv (v :: vs) _ h.size i2).1

/-! ## observations relative to the cycle: `scan` (Each, Len) and `At` -/

theorem cyc_length_le (h : Heap) (c : List Nat) (hc : Cyc h c) : c.length ≤ h.size := by
  have := List.Nodup.length_le_of_subset hc.nodup (l₂ := List.range h.size)
    (fun x hx => List.mem_range.mpr (hc.bound x hx))
  simpa using this

theorem scanLoop_lk (h : Heap) (r : Nat) : ∀ (l : List Nat) (cur fuel : Nat) (stop : Option Nat),
    Lk h (cur :: l) r → r ∉ l → l.length + 1 ≤ fuel →
    scanLoop h r fuel cur stop =
      .ok (match stop with | none => cur :: l | some k => (cur :: l).take (k + 1)) := by
  intro l
  induction l with
  | nil =>
    intro cur fuel stop hl _ hf
    obtain ⟨f, rfl⟩ : ∃ f, fuel = f + 1 := ⟨fuel - 1, by omega⟩
    simp only [Lk, List.headD_nil, and_true] at hl
    cases stop with
    | none => simp [scanLoop, hl]
    | some k => cases k <;> simp [scanLoop, hl]
  | cons q l ih =>
    intro cur fuel stop hl hr hf
    obtain ⟨f, rfl⟩ : ∃ f, fuel = f + 1 := ⟨fuel - 1, by omega⟩
    simp only [Lk, List.headD_cons] at hl
    have hq : q ≠ r := fun e => hr (by simp [e])
    have ih' := fun st => ih q f st hl.2 (fun hm => hr (by simp [hm])) (by simp at hf; omega)
    cases stop with
    | none => simp [scanLoop, hl.1, hq, ih']
    | some k =>
      cases k with
      | zero => simp [scanLoop]
      | succ k => simp [scanLoop, hl.1, hq, ih']

/-- `Each` (stopped after `k+1` elements or never) and `Len` read the cycle from `r` -/
theorem scan_cyc (h : Heap) (r : Nat) (l : List Nat) (hc : Cyc h (r :: l)) (stop : Option Nat) :
    scan h (some r) stop = .ok (match stop with | none => r :: l | some k => (r :: l).take (k + 1)) := by
  have hn := hc.nodup; rw [List.nodup_cons] at hn
  have := cyc_length_le h _ hc
  simp only [List.length_cons] at this
  exact scanLoop_lk h r l r (h.size + 1) stop (by simpa using hc.lk) hn.1 (by omega)

/-- paths of an arbitrary step function (used for `next` and for `prev`) -/
def LkF (f : Nat → Nat) : List Nat → Nat → Prop
  | [], _ => True
  | a :: l, e => f a = l.headD e ∧ LkF f l e

theorem lk_eq_lkF (h : Heap) (c : List Nat) (e : Nat) : Lk h c e ↔ LkF h.nx c e := by
  induction c with
  | nil => simp [Lk, LkF]
  | cons a l ih => simp [Lk, LkF, ih]

theorem lkF_append (f : Nat → Nat) (l1 l2 : List Nat) (e : Nat) :
    LkF f (l1 ++ l2) e ↔ LkF f l1 (l2.headD e) ∧ LkF f l2 e := by
  induction l1 with
  | nil => simp [LkF]
  | cons a l ih =>
    simp only [List.cons_append, LkF, ih]
    have : (l ++ l2).headD e = l.headD (l2.headD e) := by cases l <;> simp
    rw [this]
    constructor
    · rintro ⟨h1, h2, h3⟩; exact ⟨⟨h1, h2⟩, h3⟩
    · rintro ⟨⟨h1, h2⟩, h3⟩; exact ⟨h1, h2, h3⟩

/-- walking `prev` reads a `next`-path backwards -/
theorem lkF_reverse (h : Heap) (hi : Inv h) : ∀ (l : List Nat) (a e : Nat),
    (∀ i ∈ a :: l, i < h.size) → LkF h.nx (a :: l) e → LkF h.pv (e :: l.reverse) a := by
  intro l
  induction l with
  | nil =>
    intro a e hb hl
    simp only [LkF, List.headD_nil, and_true] at hl
    simp only [List.reverse_nil, LkF, List.headD_nil, and_true]
    rw [← hl]; exact hi.pn a (hb a (by simp))
  | cons q l ih =>
    intro a e hb hl
    simp only [LkF, List.headD_cons] at hl
    have := ih q e (fun i hi' => hb i (by simp [hi'])) (by simpa [LkF] using hl.2)
    rw [List.reverse_cons, ← List.cons_append, lkF_append]
    refine ⟨by simpa using this, ?_⟩
    simp only [LkF, List.headD_nil, and_true]
    rw [← hl.1]; exact hi.pn a (hb a (by simp))

/-- the loop of `At` along any step function: the element at offset `n`, nil once the start comes up again -/
theorem atLoop_lkF (f : Nat → Nat) (r : Nat) : ∀ (n : Nat) (l : List Nat) (cur : Nat),
    LkF f (cur :: l) r → r ∉ l →
    atLoop f r n cur = if n ≤ l.length then (cur :: l)[n]? else none := by
  intro n
  induction n with
  | zero => intro l cur _ _; simp [atLoop]
  | succ n ih =>
    intro l cur hl hr
    simp only [LkF] at hl
    cases l with
    | nil => simp at hl; simp [atLoop, hl]
    | cons q l =>
      simp only [List.headD_cons] at hl
      have hq : q ≠ r := fun e => hr (by simp [e])
      simp only [atLoop, hl.1, hq, if_false]
      rw [ih l q hl.2 (fun hm => hr (by simp [hm]))]
      simp

/-- `At(n)`: offset `n ≥ 0` along `next`, offset `-n` along `prev` (= the cycle read backwards); nil
as soon as `|n|` reaches the length of the cycle -/
theorem at_cyc (h : Heap) (hi : Inv h) (r : Nat) (l : List Nat) (hc : Cyc h (r :: l)) (n : Nat) :
    at_ h (some r) (n : Int) = (if n ≤ l.length then (r :: l)[n]? else none) ∧
    at_ h (some r) (-(n : Int)) = (if n ≤ l.length then (r :: l.reverse)[n]? else none) := by
  have hn := hc.nodup; rw [List.nodup_cons] at hn
  have hl : LkF h.nx (r :: l) r := (lk_eq_lkF h _ _).mp (by simpa using hc.lk)
  have hp : LkF h.pv (r :: l.reverse) r := lkF_reverse h hi l r r hc.bound hl
  constructor
  · have : ¬ ((n : Int) < 0) := by omega
    simp only [at_some, this, if_false, Int.toNat_natCast]
    exact atLoop_lkF h.nx r n l r hl hn.1
  · by_cases h0 : n = 0
    · subst h0; simp [at_some, atLoop]
    · have : (-(n : Int)) < 0 := by omega
      simp only [at_some, this, if_true, Int.neg_neg, Int.toNat_natCast]
      have := atLoop_lkF h.pv r n l.reverse r hp (by simpa using hn.1)
      simpa using this

end MdsVerif.Proofs.Ring
