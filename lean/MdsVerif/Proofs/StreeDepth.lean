import MdsVerif.Proofs.StreeGoat
import MdsVerif.Proofs.StreeHist
/-!
# C02: heights under the operations of `T`

Removal never deepens; `Get` makes at most `height` comparisons; height of the result of
`Add`/`Replace`/`Remove`/`New` on the tree object.  Heights in nodes.
-/
namespace MdsVerif.Proofs.Stree
open MdsVerif.Model.Stree MdsVerif.Spec MdsVerif.Gen
open MdsVerif.Spec.SortedSet (Asc ins SortCompact)
open Std (TransCmp)

variable {α : Type} {cmp : α → α → Ordering}

theorem toList_nil_height {t : Tree α} (h : t.toList = []) : t.height = 0 := by
  cases t with
  | nil => rfl
  | node l x r => simp [Tree.toList] at h

theorem popMin_height : ∀ (l : Tree α) (x : α) (r : Tree α),
    (popMin l x r).2.height ≤ (Tree.node l x r).height := by
  intro l
  induction l with
  | nil => intro x r; simp [popMin, Tree.height]
  | node ll lx lr ih _ =>
    intro x r
    have := ih lx lr
    simp only [popMin, Tree.height] at this ⊢
    omega

/-- `node.remove` never deepens the tree -/
theorem remove_height (k : α) : ∀ (t : Tree α), (remove cmp k t).1.height ≤ t.height := by
  intro t
  induction t with
  | nil => simp [remove]
  | node l x r ihl ihr =>
    cases hc : cmp k x with
    | lt => simp only [remove, hc, Tree.height]; omega
    | gt => simp only [remove, hc, Tree.height]; omega
    | eq =>
      cases l with
      | nil => simp [remove, hc, Tree.height]
      | node ll lx lr =>
        cases r with
        | nil => simp [remove, hc, Tree.height]
        | node rl rx rr =>
          have := popMin_height rl rx rr
          simp only [remove, hc, Tree.height] at this ⊢
          omega

/-- `Get` makes at most `height` (nodes) comparator calls -/
theorem getC_steps (k : α) : ∀ (t : Tree α), (getC cmp k t).2 ≤ t.height := by
  intro t
  induction t with
  | nil => simp [getC, Tree.height]
  | node l x r ihl ihr =>
    cases hc : cmp k x <;> simp only [getC, hc, Tree.height] <;> omega

theorem insertTop_height (hlim : ∀ β n, β < 1000 → 1 ≤ n → Nat.log2 n ≤ exactLimit β n)
    (t : T α) (k : α) (rep : Bool) (hs : t.size = t.root.size) (hβ : t.β < 1000)
    {t' : T α} {b : Bool} (h : t.insertTop cmp k rep = some (t', b)) :
    t'.root.height ≤ max t.root.height (exactLimit t.β (t.size + 1) + 2) ∧
    (b = false → t'.root.height = t.root.height) := by
  unfold T.insertTop at h
  cases hi : insert cmp t.lim k rep t.root (Int.ofNat (t.lim (Stree.limitArg t.size))) with
  | none => rw [hi] at h; simp at h
  | some q =>
    rw [hi] at h
    simp only [Option.some.injEq, Prod.mk.injEq] at h
    obtain ⟨h1, h2⟩ := h
    subst h1 h2
    rw [hs] at hi
    have := Goat.add_height cmp (lim := t.lim) (fun n hn => hlim t.β n hβ hn) k rep t.root hi
    rw [hs]
    exact ⟨this.2.1, this.2.2⟩

theorem remove_top_height [TransCmp cmp] (t : T α) (k : α) (hw : WF cmp t)
    {t' : T α} {b : Bool} (h : t.remove cmp k = some (t', b)) :
    t'.root.height ≤ max t.root.height (DSW.hgt t'.root.size) := by
  have hrm := remove_height (cmp := cmp) k t.root
  unfold T.remove at h
  by_cases hb : (Model.Stree.remove cmp k t.root).2 = true
  · simp only [hb, if_true] at h
    by_cases hr : Stree.deleteRebuild (t.size - 1) (Stree.deleteThreshold t.max t.β) = true
    · simp only [hr, if_true] at h
      cases hw' : rewrite (Model.Stree.remove cmp k t.root).1 (t.size - 1) with
      | none => rw [hw'] at h; simp at h
      | some root' =>
        rw [hw'] at h
        simp only [Option.some.injEq, Prod.mk.injEq] at h
        obtain ⟨h1, _⟩ := h
        subst h1
        show root'.height ≤ max t.root.height (DSW.hgt root'.size)
        -- the true size of the tree after removal
        obtain ⟨r1, r2⟩ := remove_ok (cmp := cmp) k t.root hw.1
        have hl := remove_length (cmp := cmp) k t.root.toList
        rw [← r2, hb] at hl
        have hs1 : t.size - 1 = (Model.Stree.remove cmp k t.root).1.size := by
          rw [size_eq_length, r1, hw.2, size_eq_length]; simp at hl; omega
        have hsz := rewrite_size hs1 hw'
        by_cases h0 : t.size - 1 = 0
        · obtain ⟨t'', e1, e2⟩ := rewrite_ok (Model.Stree.remove cmp k t.root).1 (t.size - 1) hs1
          rw [hw'] at e1; cases e1
          have : (Model.Stree.remove cmp k t.root).1.toList = [] := by
            apply List.eq_nil_of_length_eq_zero; rw [← size_eq_length]; omega
          rw [toList_nil_height (by rw [e2, this])]; omega
        · have := DSW.rewrite_height hs1 (by omega) hw'
          have e : DSW.hgt root'.size = Nat.log2 (t.size - 1) + 1 := by
            rw [hsz, ← hs1]; simp [DSW.hgt, h0]
          omega
    · simp only [hr] at h
      simp only [Bool.false_eq_true, if_false, Option.some.injEq, Prod.mk.injEq] at h
      obtain ⟨h1, _⟩ := h
      subst h1
      show (Model.Stree.remove cmp k t.root).1.height ≤ _
      omega
  · simp only [hb] at h
    simp only [Bool.false_eq_true, if_false, Option.some.injEq, Prod.mk.injEq] at h
    obtain ⟨h1, _⟩ := h
    subst h1
    show (Model.Stree.remove cmp k t.root).1.height ≤ _
    omega

theorem new_height {srt : List α → List α} {β : Int} {keys : List α} {t : T α}
    (h : T.new srt β keys = some t) : t.root.height = DSW.hgt t.size := by
  unfold T.new at h
  by_cases hb : Stree.betaOutOfRange β = true
  · simp [hb] at h
  · simp only [hb] at h
    cases keys with
    | nil => simp at h; subst h; simp [Tree.height, DSW.hgt]
    | cons k ks =>
      simp at h; subst h
      show (extract (srt (k :: ks))).height = DSW.hgt (srt (k :: ks)).length
      exact DSW.extract_height _

end MdsVerif.Proofs.Stree
