import MdsVerif.Model.Slice
import MdsVerif.Proofs.SliceDefs
/-!
# The two-cursor loop of `slice.Partition`

Loop invariant (the picture in the Go source): the window is `K ++ W ++ R` with
`|K| = i`, `|K| + |W| = j`, `K` the kept elements found so far in their original
order, `W` a non-empty run of unkept elements, `R` the part not yet looked at
(still in its original order).  One iteration scans `R = U ++ y :: R''`
(`U` unkept, `y` kept), swaps the first element of `W` with `y`, and continues
with `K ++ [y]`, `W' ++ U ++ [x]`, `R''`.
-/
namespace MdsVerif.Proofs.Partition
open MdsVerif.Model.Slice
variable {α : Type} [Inhabited α]

theorem swap_decomp (A B C : List α) (x y : α) :
    swap (A ++ x :: (B ++ y :: C)) A.length (A.length + (B.length + 1)) = A ++ y :: (B ++ x :: C) := by
  have e1 : (A ++ x :: (B ++ y :: C)).getD (A.length + (B.length + 1)) default = y := by
    rw [List.getD_eq_getElem?_getD, List.getElem?_append_right (by omega)]
    simp
  have e2 : (A ++ x :: (B ++ y :: C)).getD A.length default = x := by
    rw [List.getD_eq_getElem?_getD, List.getElem?_append_right (by omega)]
    simp
  unfold swap
  rw [e1, e2]
  rw [List.set_append_right _ _ (by omega)]
  simp only [Nat.sub_self, List.set_cons_zero]
  rw [List.set_append_right _ _ (by omega)]
  simp only [Nat.add_sub_cancel_left, List.set_cons_succ]
  rw [List.set_append_right _ _ (by omega)]
  simp

omit [Inhabited α] in
theorem swap_perm (A B C : List α) (x y : α) :
    (A ++ y :: (B ++ x :: C)).Perm (A ++ x :: (B ++ y :: C)) := by
  apply List.Perm.append_left
  have h1 : (y :: (B ++ x :: C)).Perm (y :: x :: (B ++ C)) := (List.perm_middle).cons y
  have h2 : (x :: (B ++ y :: C)).Perm (x :: y :: (B ++ C)) := (List.perm_middle).cons x
  exact h1.trans ((List.Perm.swap x y _).trans h2.symm)

/-- the right scan stops at the first kept element of the unexamined part `R` -/
theorem scanUnkept_split (keep : α → Bool) : ∀ (R P : List α) (f : Nat), R.length ≤ f →
    ∃ U R', R = U ++ R' ∧ (∀ u ∈ U, keep u = false) ∧
      (R' = [] ∨ ∃ y R'', R' = y :: R'' ∧ keep y = true) ∧
      scanUnkept keep (P ++ R) f P.length = P.length + U.length
  | [], P, f, _ => by
    refine ⟨[], [], rfl, by simp, Or.inl rfl, ?_⟩
    cases f <;> simp [scanUnkept]
  | a :: R, P, f, hf => by
    obtain ⟨f, rfl⟩ : ∃ f', f = f' + 1 := ⟨f - 1, by simp at hf; omega⟩
    have hget : (P ++ a :: R).getD P.length default = a := by
      rw [List.getD_eq_getElem?_getD, List.getElem?_append_right (by omega)]; simp
    have hlt : P.length < (P ++ a :: R).length := by simp
    by_cases hk : keep a = false
    · obtain ⟨U, R', hR, hU, hR', hs⟩ := scanUnkept_split keep R (P ++ [a]) f (by simp at hf; omega)
      refine ⟨a :: U, R', by simp [hR], ?_, hR', ?_⟩
      · intro u hu
        rcases List.mem_cons.mp hu with rfl | hu
        · exact hk
        · exact hU u hu
      · have e : (P ++ [a]) ++ R = P ++ a :: R := by simp
        simp only [scanUnkept, hget, hk, hlt, and_self, if_true]
        rw [e] at hs
        simp only [List.length_append, List.length_singleton] at hs
        rw [hs]; simp only [List.length_cons]; omega
    · refine ⟨[], a :: R, rfl, by simp, Or.inr ⟨a, R, rfl, by simpa using hk⟩, ?_⟩
      simp [scanUnkept, hk]

/-- the left scan stops at the first unkept element -/
theorem scanKept_split (keep : α → Bool) : ∀ (R P : List α) (f : Nat), R.length ≤ f →
    ∃ K R', R = K ++ R' ∧ (∀ k ∈ K, keep k = true) ∧
      (R' = [] ∨ ∃ x R'', R' = x :: R'' ∧ keep x = false) ∧
      scanKept keep (P ++ R) f P.length = P.length + K.length
  | [], P, f, _ => by
    refine ⟨[], [], rfl, by simp, Or.inl rfl, ?_⟩
    cases f <;> simp [scanKept]
  | a :: R, P, f, hf => by
    obtain ⟨f, rfl⟩ : ∃ f', f = f' + 1 := ⟨f - 1, by simp at hf; omega⟩
    have hget : (P ++ a :: R).getD P.length default = a := by
      rw [List.getD_eq_getElem?_getD, List.getElem?_append_right (by omega)]; simp
    have hlt : P.length < (P ++ a :: R).length := by simp
    by_cases hk : keep a = true
    · obtain ⟨K, R', hR, hK, hR', hs⟩ := scanKept_split keep R (P ++ [a]) f (by simp at hf; omega)
      refine ⟨a :: K, R', by simp [hR], ?_, hR', ?_⟩
      · intro u hu
        rcases List.mem_cons.mp hu with rfl | hu
        · exact hk
        · exact hK u hu
      · have e : (P ++ [a]) ++ R = P ++ a :: R := by simp
        simp only [scanKept, hget, hk, hlt, and_self, if_true]
        rw [e] at hs
        simp only [List.length_append, List.length_singleton] at hs
        rw [hs]; simp only [List.length_cons]; omega
    · refine ⟨[], a :: R, rfl, by simp, Or.inr ⟨a, R, rfl, by simpa using hk⟩, ?_⟩
      simp [scanKept, hk]

omit [Inhabited α] in
theorem filter_unkept (keep : α → Bool) (U : List α) (hU : ∀ u ∈ U, keep u = false) :
    U.filter keep = [] := by
  rw [List.filter_eq_nil_iff]; intro u hu; simp [hU u hu]

/-- **loop invariant ⇒ postcondition** for the main loop of `Partition` -/
theorem partLoop_spec (keep : α → Bool) : ∀ (fuel : Nat) (K W R : List α),
    W ≠ [] → (∀ w ∈ W, keep w = false) → R.length < fuel →
    ∃ vs', partLoop keep fuel (K ++ (W ++ R)) K.length (K.length + W.length)
        = some (vs', K.length + (R.filter keep).length) ∧
      vs'.take (K.length + (R.filter keep).length) = K ++ R.filter keep ∧
      vs'.Perm (K ++ (W ++ R))
  | 0, _, _, _, _, _, h => by omega
  | f + 1, K, W, R, hW, hWu, hf => by
    obtain ⟨x, W', rfl⟩ := List.exists_cons_of_ne_nil hW
    have hi : K.length < (K ++ (x :: W' ++ R)).length := by simp
    have hfu : (K ++ (x :: W' ++ R)).length - (K.length + (x :: W').length) = R.length := by
      simp; omega
    obtain ⟨U, R', hR, hU, hR', hs⟩ := scanUnkept_split keep R (K ++ x :: W') R.length (Nat.le_refl _)
    have eassoc : (K ++ x :: W') ++ R = K ++ (x :: W' ++ R) := by simp
    rw [eassoc] at hs
    have hPl : (K ++ x :: W').length = K.length + (x :: W').length := by simp
    rw [hPl] at hs
    simp only [partLoop_zero, partLoop_succ, if_pos hi, hfu, hs]
    rcases hR' with rfl | ⟨y, R'', rfl, hy⟩
    · -- the right cursor reached the end
      simp only [List.append_nil] at hR; subst hR
      have hlen : K.length + (x :: W').length + R.length = (K ++ (x :: W' ++ R)).length := by
        simp; omega
      rw [if_pos hlen, filter_unkept keep R hU]
      exact ⟨_, rfl, by simp, List.Perm.refl _⟩
    · subst hR
      have hne : ¬ (K.length + (x :: W').length + U.length = (K ++ (x :: W' ++ (U ++ y :: R''))).length) := by
        simp; omega
      rw [if_neg hne]
      -- the swap
      have e1 : K ++ (x :: W' ++ (U ++ y :: R'')) = K ++ x :: ((W' ++ U) ++ y :: R'') := by simp
      have e2 : K.length + (x :: W').length + U.length = K.length + ((W' ++ U).length + 1) := by
        simp; omega
      rw [e1, e2, swap_decomp]
      -- re-establish the invariant
      have e3 : K ++ y :: ((W' ++ U) ++ x :: R'') = (K ++ [y]) ++ ((W' ++ U ++ [x]) ++ R'') := by simp
      have e4 : K.length + 1 = (K ++ [y]).length := by simp
      have e5 : K.length + ((W' ++ U).length + 1) + 1 = (K ++ [y]).length + (W' ++ U ++ [x]).length := by
        simp; omega
      rw [e3, e4, e5]
      obtain ⟨vs', h1, h2, h3⟩ := partLoop_spec keep f (K ++ [y]) (W' ++ U ++ [x]) R'' (by simp)
        (by
          intro w hw
          simp only [List.mem_append, List.mem_singleton] at hw
          rcases hw with (hw | hw) | rfl
          · exact hWu w (List.mem_cons_of_mem _ hw)
          · exact hU w hw
          · exact hWu _ (List.mem_cons_self ..))
        (by simp at hf; omega)
      have hfil : (U ++ y :: R'').filter keep = y :: R''.filter keep := by
        rw [List.filter_append, filter_unkept keep U hU, List.nil_append, List.filter_cons, if_pos hy]
      have hr : (K ++ [y]).length + (R''.filter keep).length
          = K.length + ((U ++ y :: R'').filter keep).length := by
        rw [hfil]; simp; omega
      rw [hr] at h1 h2
      refine ⟨vs', h1, ?_, ?_⟩
      · rw [h2, hfil]; simp
      · rw [← e3] at h3
        exact h3.trans (swap_perm K (W' ++ U) R'' x y)

/-- **Partition on the window**: the loop terminates within its fuel; the first `r` cells of the
rearranged window are exactly the kept elements in their original order; the window is a
permutation of the original. -/
theorem partitionW_spec (keep : α → Bool) (vs : List α) :
    ∃ vs', partitionW keep vs = some (vs', (vs.filter keep).length) ∧
      vs'.take (vs.filter keep).length = vs.filter keep ∧ vs'.Perm vs := by
  obtain ⟨K, R', hR, hK, hR', hs⟩ := scanKept_split keep vs [] vs.length (Nat.le_refl _)
  simp only [List.nil_append, List.length_nil, Nat.zero_add] at hs
  have hKf : K.filter keep = K := List.filter_eq_self.mpr hK
  simp only [partitionW_def]
  simp only [hs]
  rcases hR' with rfl | ⟨x, R, rfl, hx⟩
  · -- everything is kept
    simp only [List.append_nil] at hR; subst hR
    refine ⟨vs, ?_, by rw [hKf]; simp, List.Perm.refl _⟩
    rw [hKf]
    simp [partLoop_zero, partLoop_succ]
  · subst hR
    obtain ⟨vs', h1, h2, h3⟩ := partLoop_spec keep ((K ++ x :: R).length + 1) K [x] R (by simp)
      (by intro w hw; simp only [List.mem_singleton] at hw; subst hw; exact hx) (by simp; omega)
    have hfil : (K ++ x :: R).filter keep = K ++ R.filter keep := by
      rw [List.filter_append, hKf, List.filter_cons, if_neg (by simp [hx])]
    have hlen : ((K ++ x :: R).filter keep).length = K.length + (R.filter keep).length := by
      rw [hfil]; simp
    have e : K ++ ([x] ++ R) = K ++ x :: R := by simp
    rw [e] at h1 h3
    simp only [List.length_singleton] at h1
    rw [hlen, hfil]
    exact ⟨vs', h1, h2, h3⟩

end MdsVerif.Proofs.Partition
