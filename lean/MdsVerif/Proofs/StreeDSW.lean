import MdsVerif.Proofs.Stree
/-!
# C02: the Day–Stout–Warren `vineToTree` yields minimal height

First on the list of left-subtree heights along the right spine (`vineH_height`, ported from the
design-phase sketch), then transported to the model's `vineToTree`/`rewrite` on trees
(`vineToTree_height`, `rewrite_height`).  Also `extract` (used by `New`) builds height ⌊log₂ n⌋+1.
Heights are in NODES (`Tree.height`); depth in edges = height − 1.
-/
namespace MdsVerif.Proofs.Stree.DSW
open MdsVerif.Model.Stree MdsVerif.Gen


/-- height (in nodes) of the right-nested tree whose p-th spine node has a left subtree of height `l[p]` -/
def spH : List Nat → Nat
  | [] => 0
  | h :: rest => 1 + max h (spH rest)

/-- `rotateLeft count` on heights: the first `count` pairs (C,R) become R with left = node(x, C, y) -/
def rotH : Nat → List Nat → Option (List Nat)
  | 0, l => some l
  | n+1, a :: b :: rest => (rotH n rest).map (fun t => (1 + max a b) :: t)
  | _+1, _ => none

/-- the compress passes of vineToTree: `for left > 1 { left /= 2; rotateLeft(left) }` -/
def passes : Nat → Nat → List Nat → Option (List Nat)
  | 0, _, l => some l
  | f+1, left, l =>
    if left > 1 then
      match rotH (left / 2) l with
      | some l' => passes f (left / 2) l'
      | none => none
    else some l

/-- all entries bounded -/
def AllLe (l : List Nat) (B : Nat) : Prop := ∀ h ∈ l, h ≤ B
/-- tail entry t bounded by (j-1-t)+b -/
def TailOk (tail : List Nat) (j b : Nat) : Prop :=
  tail.length = j ∧ ∀ t (ht : t < tail.length), tail[t] + t + 1 ≤ j + b

/-- rotating m pairs of a prefix of length 2m+1: new prefix of length m, last element survives -/
theorem rotH_pre (m : Nat) : ∀ (pre : List Nat) (rest : List Nat) (B : Nat),
    pre.length = 2*m → AllLe pre B →
    ∃ pre', rotH m (pre ++ rest) = some (pre' ++ rest) ∧ pre'.length = m ∧ AllLe pre' (B+1) := by
  induction m with
  | zero =>
    intro pre rest B hl _
    have : pre = [] := List.eq_nil_of_length_eq_zero (by omega)
    subst this
    exact ⟨[], by simp [rotH], rfl, by intro h hh; cases hh⟩
  | succ m ih =>
    intro pre rest B hl hB
    match pre, hl with
    | a :: b :: pre2, hl =>
      have hl2 : pre2.length = 2*m := by simp at hl; omega
      have hB2 : AllLe pre2 B := fun h hh => hB h (by simp [hh])
      obtain ⟨p', hr, hlen, hle⟩ := ih pre2 rest B hl2 hB2
      refine ⟨(1 + max a b) :: p', ?_, by simp [hlen], ?_⟩
      · simp [rotH, hr]
      · intro h hh
        rcases List.mem_cons.mp hh with rfl | hh
        · have ha := hB a (by simp); have hb := hB b (by simp); omega
        · exact hle h hh

theorem spH_final : ∀ (l : List Nat) (K b : Nat),
    l.length = K → (∀ p (hp : p < l.length), l[p] + p + 1 ≤ K + b) → spH l ≤ K + b := by
  intro l
  induction l with
  | nil => intro K b _ _; simp [spH]
  | cons h rest ih =>
    intro K b hl hb
    have h0 := hb 0 (by simp)
    simp at h0
    have hr : spH rest ≤ (K - 1) + b := by
      apply ih (K-1) b (by simp at hl; omega)
      intro p hp
      have := hb (p+1) (by simp; omega)
      simp at this
      simp at hl; omega
    simp [spH]
    simp at hl
    omega

/-- main pass induction: P = 2^q, prefix length P-1 -/
theorem passes_bound : ∀ (q : Nat) (fuel j b : Nat) (pre tail : List Nat),
    1 ≤ q → q ≤ fuel → pre.length + 1 = 2^q → AllLe pre (j + b) → TailOk tail j b →
    ∃ l', passes fuel (2^q - 1) (pre ++ tail) = some l' ∧ spH l' ≤ j + q + b := by
  intro q
  induction q with
  | zero => intro _ _ _ _ _ h; omega
  | succ q ih =>
    intro fuel j b pre tail _ hf hlen hpre htail
    match fuel, hf with
    | fuel+1, hf =>
    by_cases hq : q = 0
    · -- P = 2: left = 1, loop exits
      subst hq
      have hl1 : pre.length = 1 := by simpa using hlen
      refine ⟨pre ++ tail, by simp [passes], ?_⟩
      apply spH_final (pre ++ tail) (j+1) b
      · simp [hl1, htail.1]; omega
      · intro p hp
        match pre, hl1 with
        | [x], _ =>
          cases p with
          | zero => have := hpre x (by simp); simp; omega
          | succ p =>
            have hp' : p < tail.length := by simp at hp; omega
            have := htail.2 p hp'
            simp; omega
    · have hq1 : 1 ≤ q := by omega
      have hP : 2^(q+1) = 2 * 2^q := by rw [Nat.pow_succ]; omega
      have hpos : 1 ≤ 2^q := Nat.one_le_two_pow
      have h2 : 2 ≤ 2^q := by
        calc 2 = 2^1 := rfl
          _ ≤ 2^q := Nat.pow_le_pow_right (by omega) hq1
      have hleft : 2^(q+1) - 1 > 1 := by omega
      have hhalf : (2^(q+1) - 1) / 2 = 2^q - 1 := by omega
      -- split pre = pre0 ++ [last]
      have hne : pre ≠ [] := by intro h; subst h; simp at hlen; omega
      obtain ⟨pre0, lst, rfl⟩ : ∃ p0 x, pre = p0 ++ [x] := ⟨pre.dropLast, pre.getLast hne, (List.dropLast_concat_getLast hne).symm⟩
      have hl0 : pre0.length = 2 * (2^q - 1) := by simp at hlen; omega
      have hB0 : AllLe pre0 (j+b) := fun h hh => hpre h (by simp [hh])
      obtain ⟨p', hr, hlen', hle'⟩ := rotH_pre (2^q - 1) pre0 (lst :: tail) (j+b) hl0 hB0
      have hlst : lst ≤ j + b := hpre lst (by simp)
      have htail' : TailOk (lst :: tail) (j+1) b := by
        refine ⟨by simp [htail.1], ?_⟩
        intro t ht
        cases t with
        | zero => simp; omega
        | succ t =>
          have ht' : t < tail.length := by simp at ht; omega
          have := htail.2 t ht'
          simp; omega
      have hle'' : AllLe p' ((j+1) + b) := fun h hh => by have := hle' h hh; omega
      obtain ⟨l', hp, hb⟩ := ih fuel (j+1) b p' (lst :: tail) hq1 (by omega) (by omega) hle'' htail'
      refine ⟨l', ?_, by omega⟩
      have happ : pre0 ++ [lst] ++ tail = pre0 ++ lst :: tail := by simp
      simp only [passes, hleft, if_true, hhalf, happ, hr]
      exact hp


/-- heights-level vineToTree -/
def vineH (n : Nat) : Option (List Nat) :=
  let step := Stree.stepFinal (stepUp (n+2) n Stree.stepInit)
  match rotH (n - step) (List.replicate n 0) with
  | some l => passes (n+2) step l
  | none => none

theorem vineH_height (n : Nat) (hn : 1 ≤ n) :
    ∃ l, vineH n = some l ∧ spH l ≤ Nat.log2 n + 1 := by
  obtain ⟨k, hstep, ha, hb⟩ := step_spec n
  have hp : 2^(k+1) = 2 * 2^k := by rw [Nat.pow_succ]; omega
  have hpos : 1 ≤ 2^k := Nat.one_le_two_pow
  have hk1 : 1 ≤ k := by
    rcases Nat.eq_zero_or_pos k with h | h
    · subst h; simp at hb; omega
    · exact h
  -- leaf pass
  let m := n - (2^k - 1)
  have hm : 2*m ≤ n := by simp only [m]; omega
  have hrep : List.replicate n 0 = List.replicate (2*m) 0 ++ List.replicate (n - 2*m) 0 := by
    rw [List.replicate_append_replicate]; congr 1; omega
  obtain ⟨pre', hr, hlen', hle'⟩ := rotH_pre m (List.replicate (2*m) 0) (List.replicate (n - 2*m) 0) 0
    (by simp) (by intro h hh; simp [List.mem_replicate] at hh; omega)
  let b := if m = 0 then 0 else 1
  have hall : AllLe (pre' ++ List.replicate (n - 2*m) 0) (0 + b) := by
    intro h hh
    rcases List.mem_append.mp hh with hh | hh
    · have := hle' h hh
      by_cases hm0 : m = 0
      · have : pre' = [] := List.eq_nil_of_length_eq_zero (by omega)
        subst this; cases hh
      · simp [b, hm0]; omega
    · simp [List.mem_replicate] at hh; omega
  have hlenp : (pre' ++ List.replicate (n - 2*m) 0).length + 1 = 2^k := by
    simp [hlen']; simp only [m]; omega
  have hkn : k ≤ n + 2 := by
    have : k < 2^k := Nat.lt_two_pow_self
    omega
  obtain ⟨l', hp', hb'⟩ := passes_bound k (n+2) 0 b (pre' ++ List.replicate (n - 2*m) 0) [] hk1 hkn hlenp hall
    ⟨rfl, by intro t ht; simp at ht⟩
  refine ⟨l', ?_, ?_⟩
  · simp only [vineH, hstep]
    show (match rotH m (List.replicate n 0) with | some l => passes (n+2) (2^k - 1) l | none => none) = some l'
    rw [hrep, hr]
    simpa using hp'
  · -- k + b ≤ log2 n + 1
    have hn0 : n ≠ 0 := by omega
    by_cases hm0 : m = 0
    · have hb0 : b = 0 := by simp [b, hm0]
      have hnk : n = 2^k - 1 := by simp only [m] at hm0; omega
      have : k - 1 ≤ Nat.log2 n := by
        rw [Nat.le_log2 hn0]
        have : 2^k = 2 * 2^(k-1) := by
          have : k = (k-1)+1 := by omega
          rw [this, Nat.pow_succ]; simp; omega
        have : 1 ≤ 2^(k-1) := Nat.one_le_two_pow
        omega
      omega
    · have hb1 : b = 1 := by simp [b, hm0]
      have : k ≤ Nat.log2 n := by
        rw [Nat.le_log2 hn0]; simp only [m] at hm0; omega
      omega



/-! ## transport to trees -/
variable {α : Type}

/-- left-subtree heights along a spine -/
def hts (sp : Spine α) : List Nat := sp.map fun p => p.1.height

theorem rotateLeft_hts : ∀ (c : Nat) (sp : Spine α), rotH c (hts sp) = (rotateLeft c sp).map hts := by
  intro c
  induction c with
  | zero => intro sp; rfl
  | succ c ih =>
    intro sp
    match sp with
    | [] => rfl
    | [_] => rfl
    | (x, a) :: (y, b) :: rest =>
      have := ih rest
      simp only [hts, List.map_cons, rotH, rotateLeft] at this ⊢
      rw [this]
      cases rotateLeft c rest <;> simp [Tree.height, hts]

theorem passes_hts : ∀ (f left : Nat) (sp : Spine α),
    passes f left (hts sp) = (Model.Stree.passes f left sp).map hts := by
  intro f
  induction f with
  | zero => intro left sp; rfl
  | succ f ih =>
    intro left sp
    by_cases hl : left > 1
    · simp only [passes, Model.Stree.passes, Stree.packCond, Stree.packNext, hl, decide_true, if_true,
        rotateLeft_hts]
      cases rotateLeft (left / 2) sp with
      | none => rfl
      | some sp' => simp [ih]
    · simp [passes, Model.Stree.passes, Stree.packCond, hl]

theorem spineToTree_height (sp : Spine α) : (spineToTree sp).height = spH (hts sp) := by
  induction sp with
  | nil => rfl
  | cons a rest ih => obtain ⟨l, x⟩ := a; simp [spineToTree, Tree.height, spH, hts] at ih ⊢; rw [ih]

/-- **DSW height**: `vineToTree` on a vine of `n ≥ 1` nodes returns a tree of height at most
`⌊log₂ n⌋ + 1` nodes, i.e. the minimum possible height -/
theorem vineToTree_height (vine : List α) (n : Nat) (hn : n = vine.length) (h1 : 1 ≤ n)
    {t : Tree α} (ht : vineToTree vine n = some t) : t.height ≤ Nat.log2 n + 1 := by
  obtain ⟨l, hl, hb⟩ := vineH_height n h1
  have h0 : hts (vine.map fun x => ((Tree.nil : Tree α), x)) = List.replicate n 0 := by
    subst hn
    simp only [hts, List.map_map]
    rw [List.eq_replicate_iff]
    simp [Tree.height]
  simp only [vineToTree, Stree.leafCount] at ht
  simp only [vineH, ← h0, rotateLeft_hts] at hl
  cases hr : rotateLeft (n - Stree.stepFinal (stepUp (n + 2) n Stree.stepInit))
      (vine.map fun x => ((Tree.nil : Tree α), x)) with
  | none => rw [hr] at hl; simp at hl
  | some sp1 =>
    rw [hr] at hl ht
    simp only [Option.map_some, passes_hts] at hl ht
    cases hp : Model.Stree.passes (n + 2) (Stree.stepFinal (stepUp (n + 2) n Stree.stepInit)) sp1 with
    | none => rw [hp] at hl; simp at hl
    | some sp2 =>
      rw [hp] at hl ht
      simp at hl ht
      subst hl ht
      rw [spineToTree_height]; exact hb

theorem rewrite_height {t t' : Tree α} {n : Nat} (hn : n = t.size) (h1 : 1 ≤ n)
    (h : rewrite t n = some t') : t'.height ≤ Nat.log2 n + 1 := by
  simp only [rewrite, treeToVine_ok] at h
  exact vineToTree_height t.toList n (by rw [hn, size_eq_length]) h1 h

/-! ## `extract` builds minimal height -/

/-- height in nodes of a minimal-height tree of `n` nodes -/
def hgt (n : Nat) : Nat := if n = 0 then 0 else Nat.log2 n + 1

theorem log2_mono {a b : Nat} (ha : a ≠ 0) (h : a ≤ b) : Nat.log2 a ≤ Nat.log2 b := by
  rw [Nat.le_log2 (by omega)]
  exact Nat.le_trans (Nat.log2_self_le ha) h

theorem hgt_mono {a b : Nat} (h : a ≤ b) : hgt a ≤ hgt b := by
  unfold hgt
  by_cases ha : a = 0
  · simp [ha]
  · have hb : b ≠ 0 := by omega
    have := log2_mono ha h
    simp [ha, hb]; exact this

theorem log2_half {L : Nat} (h : 2 ≤ L) : Nat.log2 L = Nat.log2 (L / 2) + 1 := by
  have h2 : L / 2 ≠ 0 := by omega
  have hL : L ≠ 0 := by omega
  have a1 : 2 ^ Nat.log2 (L / 2) ≤ L / 2 := Nat.log2_self_le h2
  have a2 : L / 2 < 2 ^ (Nat.log2 (L / 2) + 1) := (Nat.log2_lt h2).mp (Nat.lt_succ_self _)
  apply Nat.le_antisymm
  · have : Nat.log2 L < Nat.log2 (L / 2) + 2 := by
      rw [Nat.log2_lt hL, Nat.pow_succ]; omega
    omega
  · rw [Nat.le_log2 hL, Nat.pow_succ]; omega

theorem hgt_half {L : Nat} (h : 1 ≤ L) : hgt L = 1 + hgt (L / 2) := by
  unfold hgt
  by_cases h1 : L = 1
  · subst h1; simp [Nat.log2_def]
  · have : L / 2 ≠ 0 := by omega
    have hL : L ≠ 0 := by omega
    simp [this, hL, log2_half (by omega : 2 ≤ L)]; omega

theorem extractF_height : ∀ (f : Nat) (ks : List α), ks.length ≤ f → (extractF f ks).height = hgt ks.length := by
  intro f
  induction f with
  | zero =>
    intro ks h
    have : ks = [] := List.eq_nil_of_length_eq_zero (by omega)
    subst this; simp [extractF, Tree.height, hgt]
  | succ f ih =>
    intro ks h
    match ks, h with
    | [], _ => simp [extractF, Tree.height, hgt]
    | k :: ks', h =>
      have hL : (k :: ks').length = ks'.length + 1 := rfl
      have h' : ks'.length + 1 ≤ f + 1 := h
      have hmid : Stree.extractMid (k :: ks').length = ks'.length / 2 := by
        rw [hL]; simp only [Stree.extractMid]; omega
      have e0 : extractF (f+1) (k :: ks') =
          match (k :: ks').drop (Stree.extractMid (k :: ks').length) with
          | [] => .nil
          | x :: rest => .node (extractF f ((k :: ks').take (Stree.extractMid (k :: ks').length))) x (extractF f rest) := by
        simp only [extractF]; rfl
      rw [e0, hmid]
      have hd : ((k :: ks').drop (ks'.length / 2)).length = ks'.length + 1 - ks'.length / 2 := by
        rw [List.length_drop, hL]
      cases hdr : (k :: ks').drop (ks'.length / 2) with
      | nil => rw [hdr] at hd; simp at hd; omega
      | cons x rest =>
        have h1 : ((k :: ks').take (ks'.length / 2)).length = ks'.length / 2 := by
          rw [List.length_take, hL]; omega
        have h2 : rest.length = (ks'.length + 1) / 2 := by
          rw [hdr] at hd; simp only [List.length_cons] at hd; omega
        simp only [Tree.height, ih _ (by omega : ((k :: ks').take (ks'.length / 2)).length ≤ f),
          ih _ (by omega : rest.length ≤ f), h1, h2, hL]
        have hm := hgt_mono (by omega : ks'.length / 2 ≤ (ks'.length + 1) / 2)
        rw [hgt_half (by omega : 1 ≤ ks'.length + 1)]
        omega

theorem extract_height (ks : List α) : (extract ks).height = hgt ks.length :=
  extractF_height _ ks (Nat.le_refl _)

end MdsVerif.Proofs.Stree.DSW
