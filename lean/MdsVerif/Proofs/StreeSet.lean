import MdsVerif.Proofs.Stree
/-!
# C01: `insert` / `remove` / queries of the stree model refine the sorted-list operations
-/
namespace MdsVerif.Proofs.Stree
open MdsVerif.Model.Stree MdsVerif.Spec MdsVerif.Gen
open MdsVerif.Spec.SortedSet (Asc ins)
open Std (TransCmp OrientedCmp)

variable {α : Type} {cmp : α → α → Ordering}

/-! ## order facts -/

theorem gt_of_lt_gt [TransCmp cmp] {a x k : α} (h1 : cmp a x = .lt) (h2 : cmp k x = .gt) : cmp k a = .gt := by
  rw [OrientedCmp.gt_iff_lt] at h2 ⊢
  exact TransCmp.lt_trans h1 h2

theorem gt_of_lt_eq [TransCmp cmp] {a x k : α} (h1 : cmp a x = .lt) (h2 : cmp k x = .eq) : cmp k a = .gt := by
  rw [OrientedCmp.gt_iff_lt]
  exact TransCmp.lt_of_lt_of_eq h1 (OrientedCmp.eq_symm h2)

theorem asc_node {A B : List α} {x : α} :
    Asc cmp (A ++ x :: B) ↔ Asc cmp A ∧ Asc cmp B ∧ (∀ a ∈ A, cmp a x = .lt) ∧ (∀ b ∈ B, cmp x b = .lt) ∧
      (∀ a ∈ A, ∀ b ∈ B, cmp a b = .lt) := by
  simp only [Asc, List.pairwise_append, List.pairwise_cons, List.mem_cons]
  constructor
  · rintro ⟨h1, ⟨h2, h3⟩, h4⟩
    exact ⟨h1, h3, fun a ha => h4 a ha x (Or.inl rfl), h2, fun a ha b hb => h4 a ha b (Or.inr hb)⟩
  · rintro ⟨h1, h2, h3, h4, h5⟩
    refine ⟨h1, ⟨h4, h2⟩, ?_⟩
    intro a ha b hb
    rcases hb with rfl | hb
    · exact h3 a ha
    · exact h5 a ha b hb

/-! ## the list operations on `A ++ x :: B` -/

theorem ins_append_lt (rep : Bool) {k x : α} (h : cmp k x = .lt) (A B : List α) :
    ins cmp rep k (A ++ x :: B) = ((ins cmp rep k A).1 ++ x :: B, (ins cmp rep k A).2) := by
  induction A with
  | nil => simp [ins, h]
  | cons a A ih =>
    simp only [List.cons_append, ins]
    cases hc : cmp k a <;> simp [ih]

theorem ins_append_gt (rep : Bool) {k x : α} (h : cmp k x = .gt) (A B : List α)
    (hA : ∀ a ∈ A, cmp k a = .gt) :
    ins cmp rep k (A ++ x :: B) = (A ++ x :: (ins cmp rep k B).1, (ins cmp rep k B).2) := by
  induction A with
  | nil => simp [ins, h]
  | cons a A ih =>
    have ha := hA a (by simp)
    simp only [List.cons_append, ins, ha]
    rw [ih (fun b hb => hA b (by simp [hb]))]

theorem ins_append_eq (rep : Bool) {k x : α} (h : cmp k x = .eq) (A B : List α)
    (hA : ∀ a ∈ A, cmp k a = .gt) :
    ins cmp rep k (A ++ x :: B) = (A ++ (if rep then k else x) :: B, false) := by
  induction A with
  | nil => simp [ins, h]
  | cons a A ih =>
    have ha := hA a (by simp)
    simp only [List.cons_append, ins, ha]
    rw [ih (fun b hb => hA b (by simp [hb]))]

theorem remove_append_lt {k x : α} (h : cmp k x = .lt) (A B : List α) :
    SortedSet.remove cmp k (A ++ x :: B) =
      ((SortedSet.remove cmp k A).1 ++ x :: B, (SortedSet.remove cmp k A).2) := by
  induction A with
  | nil => simp [SortedSet.remove, h]
  | cons a A ih =>
    simp only [List.cons_append, SortedSet.remove]
    cases hc : cmp k a <;> simp [ih]

theorem remove_append_gt {k x : α} (h : cmp k x = .gt) (A B : List α) (hA : ∀ a ∈ A, cmp k a = .gt) :
    SortedSet.remove cmp k (A ++ x :: B) =
      (A ++ x :: (SortedSet.remove cmp k B).1, (SortedSet.remove cmp k B).2) := by
  induction A with
  | nil => simp [SortedSet.remove, h]
  | cons a A ih =>
    have ha := hA a (by simp)
    simp only [List.cons_append, SortedSet.remove, ha]
    rw [ih (fun b hb => hA b (by simp [hb]))]

theorem remove_append_eq {k x : α} (h : cmp k x = .eq) (A B : List α) (hA : ∀ a ∈ A, cmp k a = .gt) :
    SortedSet.remove cmp k (A ++ x :: B) = (A ++ B, true) := by
  induction A with
  | nil => simp [SortedSet.remove, h]
  | cons a A ih =>
    have ha := hA a (by simp)
    simp only [List.cons_append, SortedSet.remove, ha]
    rw [ih (fun b hb => hA b (by simp [hb]))]

/-! ## list-level invariants of the specification -/

theorem mem_ins {rep : Bool} {k z : α} : ∀ {l : List α}, z ∈ (ins cmp rep k l).1 → z = k ∨ z ∈ l := by
  intro l
  induction l with
  | nil => simp [ins]
  | cons x xs ih =>
    simp only [ins]
    cases hc : cmp k x
    · simp
    · cases rep <;> simp <;> try (intro h; rcases h with h | h <;> simp [h])
    · simp only [List.mem_cons]
      intro h
      rcases h with h | h
      · exact Or.inr (Or.inl h)
      · rcases ih h with h | h
        · exact Or.inl h
        · exact Or.inr (Or.inr h)

theorem ins_asc [TransCmp cmp] (rep : Bool) (k : α) : ∀ {l : List α}, Asc cmp l → Asc cmp (ins cmp rep k l).1 := by
  intro l
  induction l with
  | nil => intro _; simp [ins, Asc]
  | cons x xs ih =>
    intro h
    have hx : ∀ y ∈ xs, cmp x y = .lt := (List.pairwise_cons.mp h).1
    have hxs : Asc cmp xs := (List.pairwise_cons.mp h).2
    simp only [ins]
    cases hc : cmp k x
    · refine List.pairwise_cons.mpr ⟨?_, h⟩
      intro y hy
      rcases List.mem_cons.mp hy with rfl | hy
      · exact hc
      · exact TransCmp.lt_trans hc (hx y hy)
    · refine List.pairwise_cons.mpr ⟨?_, hxs⟩
      intro y hy
      cases rep
      · exact hx y hy
      · exact TransCmp.lt_of_eq_of_lt hc (hx y hy)
    · refine List.pairwise_cons.mpr ⟨?_, ih hxs⟩
      intro y hy
      rcases mem_ins hy with rfl | hy
      · exact OrientedCmp.gt_iff_lt.mp hc
      · exact hx y hy

theorem ins_length (rep : Bool) (k : α) (l : List α) :
    (ins cmp rep k l).1.length = l.length + (if (ins cmp rep k l).2 then 1 else 0) := by
  induction l with
  | nil => simp [ins]
  | cons x xs ih =>
    have h3 : cmp k x = .lt ∨ cmp k x = .eq ∨ cmp k x = .gt := by cases cmp k x <;> simp
    rcases h3 with hc | hc | hc <;> simp [ins, hc, ih]
    omega

theorem remove_sublist (k : α) (l : List α) : (SortedSet.remove cmp k l).1.Sublist l := by
  induction l with
  | nil => simp [SortedSet.remove]
  | cons x xs ih =>
    simp only [SortedSet.remove]
    cases hc : cmp k x <;> simp [ih]

theorem remove_asc (k : α) {l : List α} (h : Asc cmp l) : Asc cmp (SortedSet.remove cmp k l).1 :=
  List.Pairwise.sublist (remove_sublist k l) h

theorem remove_length (k : α) (l : List α) :
    (SortedSet.remove cmp k l).1.length + (if (SortedSet.remove cmp k l).2 then 1 else 0) = l.length := by
  induction l with
  | nil => simp [SortedSet.remove]
  | cons x xs ih =>
    have h3 : cmp k x = .lt ∨ cmp k x = .eq ∨ cmp k x = .gt := by cases cmp k x <;> simp
    rcases h3 with hc | hc | hc <;> simp [SortedSet.remove, hc]
    omega

/-! ## insert -/

/-- what one activation of `insert` returns, in terms of the key list -/
def InsPost (cmp : α → α → Ordering) (rep : Bool) (k : α) (t : Tree α) (q : Res α) : Prop :=
  q.1.toList = (ins cmp rep k t.toList).1 ∧ q.2.1 = (ins cmp rep k t.toList).2 ∧
  (q.2.2.1 = 0 ∨ q.2.2.1 = q.1.size)

theorem goat_ok (lim : Nat → Nat) (root sib : Tree α) (added : Bool) (sz h : Nat)
    (hsz : sz = 0 ∨ sib.size + 1 + sz = root.size) :
    ∃ q, goat lim root sib added sz h = some q ∧ q.1.toList = root.toList ∧ q.2.1 = added ∧
      (q.2.2.1 = 0 ∨ q.2.2.1 = q.1.size) ∧ q.2.2.2 = h := by
  unfold goat
  by_cases h0 : sz > 0
  · have hs : sib.size + 1 + sz = root.size := by omega
    simp only [h0, if_true, Stree.rootSize]
    by_cases hk : Stree.goatKeeps h (lim (sib.size + 1 + sz)) = true
    · simp only [hk, if_true]
      exact ⟨_, rfl, rfl, rfl, Or.inr hs, rfl⟩
    · obtain ⟨t', h1, h2⟩ := rewrite_ok root (sib.size + 1 + sz) hs
      simp only [hk, h1]
      exact ⟨_, rfl, h2, rfl, Or.inl rfl, rfl⟩
  · have : sz = 0 := by omega
    subst this
    simp only [h0, if_false]
    exact ⟨_, rfl, rfl, rfl, Or.inl rfl, rfl⟩

/-- **`insert` refines the list insertion** (any depth limit function, any limit): it never
panics, the new key list is `ins rep k`, the flag is "was absent", and the returned size is 0 or
the size of the returned subtree. -/
theorem insert_ok [TransCmp cmp] (lim : Nat → Nat) (k : α) (rep : Bool) :
    ∀ (t : Tree α) (limit : Int), Asc cmp t.toList →
      ∃ q, insert cmp lim k rep t limit = some q ∧ InsPost cmp rep k t q := by
  intro t
  induction t with
  | nil =>
    intro limit _
    refine ⟨_, rfl, ?_, ?_, ?_⟩
    · simp [Tree.toList, ins]
    · simp [Tree.toList, ins]
    · by_cases ho : Stree.overLimit limit = true <;> simp [ho, Tree.size]
  | node l x r ihl ihr =>
    intro limit hasc
    simp only [Tree.toList] at hasc
    obtain ⟨hl, hr, hlx, hxr, hlr⟩ := asc_node.mp hasc
    cases hc : cmp k x with
    | lt =>
      obtain ⟨q, hq, h1, h2, h3⟩ := ihl (Stree.limitDown limit) hl
      obtain ⟨q', hg, g1, g2, g3, _⟩ := goat_ok lim (.node q.1 x r) r q.2.1 q.2.2.1 (q.2.2.2 + 1)
        (by rcases h3 with h3 | h3
            · exact Or.inl h3
            · right; simp only [Tree.size]; omega)
      refine ⟨q', by simp only [Model.Stree.insert, hc, hq, hg], ?_, ?_, g3⟩
      · rw [g1]; simp only [Tree.toList, h1, ins_append_lt rep hc]
      · rw [g2, h2]; simp only [Tree.toList, ins_append_lt rep hc]
    | gt =>
      have hA : ∀ a ∈ l.toList, cmp k a = .gt := fun a ha => gt_of_lt_gt (hlx a ha) hc
      obtain ⟨q, hq, h1, h2, h3⟩ := ihr (Stree.limitDown limit) hr
      obtain ⟨q', hg, g1, g2, g3, _⟩ := goat_ok lim (.node l x q.1) l q.2.1 q.2.2.1 (q.2.2.2 + 1)
        (by rcases h3 with h3 | h3
            · exact Or.inl h3
            · right; simp only [Tree.size]; omega)
      refine ⟨q', by simp only [Model.Stree.insert, hc, hq, hg], ?_, ?_, g3⟩
      · rw [g1]; simp only [Tree.toList, h1, ins_append_gt rep hc _ _ hA]
      · rw [g2, h2]; simp only [Tree.toList, ins_append_gt rep hc _ _ hA]
    | eq =>
      have hA : ∀ a ∈ l.toList, cmp k a = .gt := fun a ha => gt_of_lt_eq (hlx a ha) hc
      refine ⟨(.node l (if rep then k else x) r, false, 0, 0), by simp only [Model.Stree.insert, hc], ?_, ?_, Or.inl rfl⟩
      · simp only [Tree.toList, ins_append_eq rep hc _ _ hA]
      · simp only [Tree.toList, ins_append_eq rep hc _ _ hA]

/-! ## remove -/

theorem popMin_toList : ∀ (l : Tree α) (x : α) (r : Tree α),
    (popMin l x r).1 :: (popMin l x r).2.toList = (Tree.node l x r).toList := by
  intro l
  induction l with
  | nil => intro x r; simp [popMin, Tree.toList]
  | node ll lx lr ih _ =>
    intro x r
    have := ih lx lr
    simp only [popMin, Tree.toList] at this ⊢
    rw [← List.cons_append, this]

theorem remove_ok [TransCmp cmp] (k : α) : ∀ (t : Tree α), Asc cmp t.toList →
    (remove cmp k t).1.toList = (SortedSet.remove cmp k t.toList).1 ∧
    (remove cmp k t).2 = (SortedSet.remove cmp k t.toList).2 := by
  intro t
  induction t with
  | nil => intro _; simp [remove, Tree.toList, SortedSet.remove]
  | node l x r ihl ihr =>
    intro hasc
    simp only [Tree.toList] at hasc
    obtain ⟨hl, hr, hlx, hxr, hlr⟩ := asc_node.mp hasc
    cases hc : cmp k x with
    | lt =>
      obtain ⟨h1, h2⟩ := ihl hl
      simp only [remove, hc, Tree.toList, remove_append_lt hc, h1, h2, and_self]
    | gt =>
      have hA : ∀ a ∈ l.toList, cmp k a = .gt := fun a ha => gt_of_lt_gt (hlx a ha) hc
      obtain ⟨h1, h2⟩ := ihr hr
      simp only [remove, hc, Tree.toList, remove_append_gt hc _ _ hA, h1, h2, and_self]
    | eq =>
      have hA : ∀ a ∈ l.toList, cmp k a = .gt := fun a ha => gt_of_lt_eq (hlx a ha) hc
      simp only [Tree.toList, remove_append_eq hc _ _ hA]
      cases l with
      | nil => simp [remove, hc, Tree.toList]
      | node ll lx lr =>
        cases r with
        | nil => simp [remove, hc, Tree.toList]
        | node rl rx rr =>
          have := popMin_toList rl rx rr
          simp only [remove, hc, Tree.toList] at this ⊢
          rw [this]; simp

end MdsVerif.Proofs.Stree
