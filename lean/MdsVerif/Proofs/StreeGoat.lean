import MdsVerif.Proofs.StreeDSW
/-!
# C02: the scapegoat step — one `insert` keeps the height within `max H (lim(size+1) + 2)`

Port of the design-phase sketch onto the real model (`insert` with `Option`, `rewrite` = the DSW
rebuild).  No assumption on the comparator; the depth-limit function only has to dominate `log₂`.
Heights in nodes.
-/
namespace MdsVerif.Proofs.Stree.Goat
open MdsVerif.Model.Stree MdsVerif.Gen MdsVerif.Proofs.Stree

variable {α : Type} (cmp : α → α → Ordering) (lim : Nat → Nat)

/-- what one activation of `insert` guarantees about heights -/
def Post (t : Tree α) (limit : Int) (ins : Tree α) (added : Bool) (sz h : Nat) : Prop :=
  (added = false → ins.height = t.height ∧ sz = 0 ∧ ins.size = t.size) ∧
  (added = true →
    ins.size = t.size + 1 ∧ h ≤ t.height ∧
    (¬ limit < (h : Int) → sz = 0 ∧ ins.height ≤ max t.height (h + 1)) ∧
    (limit < (h : Int) →
      (sz = 0 ∧ ins.height ≤ max t.height h) ∨
      (0 < sz ∧ sz = ins.size ∧ ins.height ≤ max t.height (h + 1) ∧ (h = 0 ∨ h ≤ lim sz))))

def PostQ (t : Tree α) (limit : Int) (q : Res α) : Prop :=
  Post lim t limit q.1 q.2.1 q.2.2.1 q.2.2.2

variable {lim}

theorem goat_post (hlim : ∀ n, 1 ≤ n → Nat.log2 n ≤ lim n) (c sib t root' : Tree α) (limit : Int)
    (ins : Tree α) (added : Bool) (sz h : Nat)
    (ht : t.height = 1 + max c.height sib.height) (hts : t.size = 1 + c.size + sib.size)
    (hr : root'.height = 1 + max ins.height sib.height) (hrs : root'.size = 1 + ins.size + sib.size)
    (hq : Post lim c (limit - 1) ins added sz h) {q' : Res α}
    (hg : goat lim root' sib added sz (h + 1) = some q') :
    PostQ lim t limit q' := by
  obtain ⟨hq1, hq2⟩ := hq
  cases added with
  | false =>
    obtain ⟨hh, hs, hsz⟩ := hq1 rfl
    subst hs
    have e : goat lim root' sib false 0 (h + 1) = some (root', false, 0, h + 1) := by simp [goat]
    rw [e] at hg; cases hg; unfold PostQ Post; dsimp only
    exact ⟨fun _ => ⟨by show root'.height = _; omega, rfl, by show root'.size = _; omega⟩,
      fun h => absurd h (by decide)⟩
  | true =>
    obtain ⟨hsize, hle, hnf, hf⟩ := hq2 rfl
    by_cases hs0 : sz = 0
    · subst hs0
      have e : goat lim root' sib true 0 (h + 1) = some (root', true, 0, h + 1) := by simp [goat]
      rw [e] at hg; cases hg; unfold PostQ Post; dsimp only
      refine ⟨fun h => absurd h (by decide), fun _ => ⟨by show root'.size = _; omega, by show h + 1 ≤ _; omega, ?_, ?_⟩⟩
      · intro hn
        have hn' : ¬ limit < ((h + 1 : Nat) : Int) := hn
        have := hnf (by omega)
        exact ⟨rfl, by show root'.height ≤ _; omega⟩
      · intro hfl
        have hfl' : limit < ((h + 1 : Nat) : Int) := hfl
        rcases hf (by omega) with ⟨_, hb⟩ | ⟨hpos, _⟩
        · left; exact ⟨rfl, by show root'.height ≤ _; omega⟩
        · omega
    · have hpos : 0 < sz := Nat.pos_of_ne_zero hs0
      have hfl : limit - 1 < (h : Int) := by
        rcases Int.lt_or_le (limit - 1) (h : Int) with h1 | h1
        · exact h1
        · have := (hnf (by omega)).1; omega
      rcases hf hfl with ⟨h0, _⟩ | ⟨_, hszeq, hht, hlim'⟩
      · omega
      have hrsz : sib.size + 1 + sz = root'.size := by omega
      by_cases hnot : h + 1 ≤ lim (sib.size + 1 + sz)
      · have e : goat lim root' sib true sz (h + 1) = some (root', true, sib.size + 1 + sz, h + 1) := by
          simp [goat, hpos, Stree.rootSize, Stree.goatKeeps, hnot]
        rw [e] at hg; cases hg; unfold PostQ Post; dsimp only
        refine ⟨fun h => absurd h (by decide), fun _ => ⟨by show root'.size = _; omega, by show h + 1 ≤ _; omega,
          fun hn => ?_, fun _ => ?_⟩⟩
        · have hn' : ¬ limit < ((h + 1 : Nat) : Int) := hn
          omega
        · right
          exact ⟨by show 0 < sib.size + 1 + sz; omega, hrsz, by show root'.height ≤ _; omega, Or.inr hnot⟩
      · cases hw : rewrite root' (sib.size + 1 + sz) with
        | none => simp [goat, hpos, Stree.rootSize, Stree.goatKeeps, hnot, hw] at hg
        | some t' =>
          have e : goat lim root' sib true sz (h + 1) = some (t', true, 0, h + 1) := by
            simp [goat, hpos, Stree.rootSize, Stree.goatKeeps, hnot, hw]
          rw [e] at hg; cases hg; unfold PostQ Post; dsimp only
          have hb := DSW.rewrite_height hrsz (by omega) hw
          have hsz' := rewrite_size hrsz hw
          have hl := hlim (sib.size + 1 + sz) (by omega)
          refine ⟨fun h => absurd h (by decide), fun _ => ⟨?_, by show h + 1 ≤ _; omega, fun hn => ?_, fun _ => ?_⟩⟩
          · show t'.size = _; omega
          · have hn' : ¬ limit < ((h + 1 : Nat) : Int) := hn
            omega
          · left
            exact ⟨rfl, by show t'.height ≤ _; omega⟩

theorem insert_post (hlim : ∀ n, 1 ≤ n → Nat.log2 n ≤ lim n) (key : α) (replace : Bool) :
    ∀ (t : Tree α) (limit : Int) {q : Res α}, insert cmp lim key replace t limit = some q →
      PostQ lim t limit q := by
  intro t
  induction t with
  | nil =>
    intro limit q hq
    by_cases hl : limit < 0
    · have e : insert cmp lim key replace .nil limit = some (.node .nil key .nil, true, 1, 0) := by
        simp [Model.Stree.insert, Stree.overLimit, hl]
      rw [e] at hq; cases hq; unfold PostQ Post; dsimp only
      refine ⟨fun h => absurd h (by decide), fun _ => ⟨by simp [Tree.size], by simp, fun hn => ?_, fun _ => ?_⟩⟩
      · exact absurd (by simpa using hl) hn
      · right; simp [Tree.size, Tree.height]
    · have e : insert cmp lim key replace .nil limit = some (.node .nil key .nil, true, 0, 0) := by
        simp [Model.Stree.insert, Stree.overLimit, hl]
      rw [e] at hq; cases hq; unfold PostQ Post; dsimp only
      refine ⟨fun h => absurd h (by decide), fun _ => ⟨by simp [Tree.size], by simp, fun _ => ?_, fun hf => ?_⟩⟩
      · simp [Tree.height]
      · exact absurd (by simpa using hf) hl
  | node l x r ihl ihr =>
    intro limit q hq
    cases hc : cmp key x with
    | lt =>
      cases hi : insert cmp lim key replace l (limit - 1) with
      | none => simp [Model.Stree.insert, hc, Stree.limitDown, hi] at hq
      | some p =>
        have hg : goat lim (.node p.1 x r) r p.2.1 p.2.2.1 (p.2.2.2 + 1) = some q := by
          simpa [Model.Stree.insert, hc, Stree.limitDown, hi] using hq
        exact goat_post hlim l r (.node l x r) _ limit _ _ _ _ (by simp [Tree.height]) (by simp [Tree.size])
          (by simp [Tree.height]) (by simp [Tree.size]) (ihl (limit - 1) hi) hg
    | gt =>
      cases hi : insert cmp lim key replace r (limit - 1) with
      | none => simp [Model.Stree.insert, hc, Stree.limitDown, hi] at hq
      | some p =>
        have hg : goat lim (.node l x p.1) l p.2.1 p.2.2.1 (p.2.2.2 + 1) = some q := by
          simpa [Model.Stree.insert, hc, Stree.limitDown, hi] using hq
        exact goat_post hlim r l (.node l x r) _ limit _ _ _ _ (by simp [Tree.height, Nat.max_comm])
          (by simp [Tree.size]; omega) (by simp [Tree.height, Nat.max_comm]) (by simp [Tree.size]; omega)
          (ihr (limit - 1) hi) hg
    | eq =>
      have e : insert cmp lim key replace (.node l x r) limit =
          some (.node l (if replace then key else x) r, false, 0, 0) := by simp [Model.Stree.insert, hc]
      rw [e] at hq; cases hq; unfold PostQ Post; dsimp only
      exact ⟨fun _ => ⟨by simp [Tree.height], rfl, by simp [Tree.size]⟩, fun h => absurd h (by decide)⟩

/-- **C02 step**: one `Add`/`Replace` (started with the limit `lim (size+1)`, `size` the true size)
leaves no pending goat at the root and keeps the height (in nodes) within
`max H (lim (size+1) + 2)`, `H` the height before. -/
theorem add_height (hlim : ∀ n, 1 ≤ n → Nat.log2 n ≤ lim n) (key : α) (replace : Bool) (t : Tree α)
    {q : Res α} (hq : insert cmp lim key replace t (Int.ofNat (lim (Stree.limitArg t.size))) = some q) :
    q.2.2.1 = 0 ∧ q.1.height ≤ max t.height (lim (t.size + 1) + 2) ∧
      (q.2.1 = false → q.1.height = t.height) := by
  have hp := insert_post cmp hlim key replace t _ hq
  obtain ⟨ins, added, sz, h⟩ := q
  obtain ⟨h1, h2⟩ := hp
  simp only [Stree.limitArg] at h1 h2 ⊢
  cases added with
  | false =>
    obtain ⟨a, b, _⟩ := h1 rfl
    exact ⟨b, by omega, fun _ => a⟩
  | true =>
    obtain ⟨hsz, hle, hnf, hf⟩ := h2 rfl
    refine ⟨?_, ?_, fun h => absurd h (by decide)⟩
    all_goals
      by_cases hfl : Int.ofNat (lim (t.size + 1)) < (h : Int)
      · rcases hf hfl with ⟨a, b⟩ | ⟨hpos, hszeq, _, hlim'⟩
        · first | exact a | (show ins.height ≤ _; omega)
        · exfalso
          have hl0 := hlim (t.size + 1) (by omega)
          have hfl' : lim (t.size + 1) < h := by simpa using hfl
          rcases hlim' with h0 | hl
          · omega
          · rw [hszeq, hsz] at hl; omega
      · obtain ⟨a, b⟩ := hnf hfl
        have hfl' : ¬ lim (t.size + 1) < h := by simpa using hfl
        first | exact a | (show ins.height ≤ _; omega)

end MdsVerif.Proofs.Stree.Goat
