import MdsVerif.Model.Cursor
/-!
# `stree.Cursor` navigates the in-order sequence (helper lemmas for C03)

The zipper view of a position `p = (root, dirs)` whose current node is `node l x r`:

  `root.toList = p.before ++ x :: p.after`,
  `p.before = ctxBefore root dirs ++ l.toList`, `p.after = r.toList ++ ctxAfter root dirs`.

`next_spec` / `prev_spec` say that `Next`/`Prev` move this decomposition by exactly one element
and become invalid exactly when `after` / `before` is empty.  They are *structural* facts (true
of every binary tree); the order enters only through `Ordered` (the in-order list is strictly
ascending), which makes "one position to the right" the next larger key.
-/
namespace MdsVerif.Proofs.Cursor
open MdsVerif.Model.Stree MdsVerif.Model.Cursor

variable {α : Type}

/-! ## the regenerated facts (`Gen.Cursor`) in the form the proofs use

`Model.Cursor` takes the child/descent directions, the `HasNext`/`HasPrev` formula, the truncation of
`Next`/`Prev`, `HasParent`'s test and `Up`'s new length from `Gen.Cursor` (regenerated from cursor.go on every
run).  The lemmas of this section restate every model function that does so with the pinned facts written
out; everything below (and `Props.C03`) unfolds those functions only through them. -/
section facts

theorem pathTake_succ (p : Pos α) (j : Nat) : pathTake p ((j : Int) + 1) = some { p with dirs := p.dirs.take j } := by
  have h : ((j : Int) + 1).toNat = j + 1 := by omega
  simp only [pathTake, h, Nat.add_one_ne_zero, if_false, Nat.add_sub_cancel]

theorem findNext_def (p : Pos α) :
    findNext p =
      match right p.cur with
      | .node l x r => .child (.node l x r)
      | .nil =>
        match walkUp .L p.dirs p.dirs.length with
        | some j => .anc j
        | none => .none := rfl

theorem findPrev_def (p : Pos α) :
    findPrev p =
      match left p.cur with
      | .node l x r => .child (.node l x r)
      | .nil =>
        match walkUp .R p.dirs p.dirs.length with
        | some j => .anc j
        | none => .none := rfl

theorem hasNext_def (c : Cursor α) :
    hasNext c =
      match c with
      | none => false
      | some p => match findNext p with | .child _ => true | .anc _ => true | .none => false := by
  cases c with
  | none => rfl
  | some p =>
    simp only [hasNext]
    cases findNext p with
    | child _ => rfl
    | anc j => simp [Gen.Cursor.hasNextOf]
    | none => rfl

theorem hasPrev_def (c : Cursor α) :
    hasPrev c =
      match c with
      | none => false
      | some p => match findPrev p with | .child _ => true | .anc _ => true | .none => false := by
  cases c with
  | none => rfl
  | some p =>
    simp only [hasPrev]
    cases findPrev p with
    | child _ => rfl
    | anc j => simp [Gen.Cursor.hasPrevOf]
    | none => rfl

theorem next_def (c : Cursor α) :
    next c =
      match c with
      | none => none
      | some p =>
        match findNext p with
        | .child m => some { p with dirs := p.dirs ++ .R :: spineL m }
        | .anc j => some { p with dirs := p.dirs.take j }
        | .none => none := by
  cases c with
  | none => rfl
  | some p =>
    simp only [next]
    cases findNext p with
    | child _ => rfl
    | anc j =>
      have : Gen.Cursor.nextTruncates (j : Int) = true := by simp [Gen.Cursor.nextTruncates]
      simp only [this, if_true, Gen.Cursor.nextTruncLen, pathTake_succ]
    | none => rfl

theorem prev_def (c : Cursor α) :
    prev c =
      match c with
      | none => none
      | some p =>
        match findPrev p with
        | .child m => some { p with dirs := p.dirs ++ .L :: spineR m }
        | .anc j => some { p with dirs := p.dirs.take j }
        | .none => none := by
  cases c with
  | none => rfl
  | some p =>
    simp only [prev]
    cases findPrev p with
    | child _ => rfl
    | anc j =>
      have : Gen.Cursor.prevTruncates (j : Int) = true := by simp [Gen.Cursor.prevTruncates]
      simp only [this, if_true, Gen.Cursor.prevTruncLen, pathTake_succ]
    | none => rfl

theorem hasLeft_def (c : Cursor α) :
    hasLeft c = match c with | none => false | some p => !isNil (left p.cur) := by
  cases c <;> rfl

theorem hasRight_def (c : Cursor α) :
    hasRight c = match c with | none => false | some p => !isNil (right p.cur) := by
  cases c <;> rfl

theorem hasParent_def (c : Cursor α) :
    hasParent c = match c with | none => false | some p => decide (p.dirs.length + 1 > 1) := by
  cases c with
  | none => rfl
  | some p =>
    simp only [hasParent, Gen.Cursor.hasParentTest]
    rw [decide_eq_decide]; omega

theorem goLeft_def (c : Cursor α) :
    goLeft c =
      match c with
      | none => none
      | some p => if isNil (left p.cur) then none else some { p with dirs := p.dirs ++ [.L] } := by
  cases c <;> rfl

theorem goRight_def (c : Cursor α) :
    goRight c =
      match c with
      | none => none
      | some p => if isNil (right p.cur) then none else some { p with dirs := p.dirs ++ [.R] } := by
  cases c <;> rfl

theorem up_def (c : Cursor α) :
    up c =
      match c with
      | none => none
      | some p => if p.dirs.length = 0 then none else some { p with dirs := p.dirs.dropLast } := by
  cases c with
  | none => rfl
  | some p =>
    have h : (Gen.Cursor.upLen ((p.dirs.length + 1 : Nat) : Int)).toNat = p.dirs.length := by
      simp only [Gen.Cursor.upLen]; omega
    simp only [up, pathTake, h, List.dropLast_eq_take]

theorem min_def (c : Cursor α) :
    MdsVerif.Model.Cursor.min c =
      match c with
      | none => none
      | some p => some { p with dirs := p.dirs ++ spineL p.cur } := by
  cases c <;> rfl

theorem max_def (c : Cursor α) :
    MdsVerif.Model.Cursor.max c =
      match c with
      | none => none
      | some p => some { p with dirs := p.dirs ++ spineR p.cur } := by
  cases c <;> rfl

end facts

/-! ## contexts -/

/-- keys of `t` in order that come before the subtree at `ds` -/
def ctxBefore : Tree α → List Dir → List α
  | _, [] => []
  | .nil, _ :: _ => []
  | .node l _ _, .L :: ds => ctxBefore l ds
  | .node l x r, .R :: ds => l.toList ++ x :: ctxBefore r ds

/-- keys of `t` in order that come after the subtree at `ds` -/
def ctxAfter : Tree α → List Dir → List α
  | _, [] => []
  | .nil, _ :: _ => []
  | .node l x r, .L :: ds => ctxAfter l ds ++ x :: r.toList
  | .node _ _ r, .R :: ds => ctxAfter r ds

@[simp] theorem sub_nil_dirs (t : Tree α) : sub t [] = t := by
  cases t <;> rfl

@[simp] theorem sub_nil' (ds : List Dir) : sub (.nil : Tree α) ds = .nil := by
  cases ds <;> rfl

@[simp] theorem ctxBefore_nil (ds : List Dir) : ctxBefore (.nil : Tree α) ds = [] := by
  cases ds <;> rfl

@[simp] theorem ctxAfter_nil (ds : List Dir) : ctxAfter (.nil : Tree α) ds = [] := by
  cases ds <;> rfl

theorem toList_split (t : Tree α) (ds : List Dir) :
    t.toList = ctxBefore t ds ++ (sub t ds).toList ++ ctxAfter t ds := by
  induction ds generalizing t with
  | nil => simp [ctxBefore, ctxAfter, sub]
  | cons d ds ih =>
    cases t with
    | nil => simp [Tree.toList]
    | node l x r =>
      cases d with
      | L => simp only [ctxBefore, ctxAfter, sub, Tree.toList]; rw [ih l]; simp
      | R => simp only [ctxBefore, ctxAfter, sub, Tree.toList]; rw [ih r]; simp

theorem sub_append (t : Tree α) (a b : List Dir) : sub t (a ++ b) = sub (sub t a) b := by
  induction a generalizing t with
  | nil => simp
  | cons d a ih =>
    cases t with
    | nil => simp
    | node l x r => cases d <;> simp [sub, ih]

theorem ctxBefore_append (t : Tree α) (a b : List Dir) :
    ctxBefore t (a ++ b) = ctxBefore t a ++ ctxBefore (sub t a) b := by
  induction a generalizing t with
  | nil => simp [ctxBefore, sub]
  | cons d a ih =>
    cases t with
    | nil => simp
    | node l x r => cases d <;> simp [sub, ctxBefore, ih]

theorem ctxAfter_append (t : Tree α) (a b : List Dir) :
    ctxAfter t (a ++ b) = ctxAfter (sub t a) b ++ ctxAfter t a := by
  induction a generalizing t with
  | nil => simp [ctxAfter, sub]
  | cons d a ih =>
    cases t with
    | nil => simp
    | node l x r => cases d <;> simp [sub, ctxAfter, ih]

theorem isNil_eq_false {t : Tree α} : isNil t = false ↔ ∃ l x r, t = .node l x r := by
  cases t <;> simp [isNil]

/-- a prefix of a path that stays inside the tree stays inside the tree -/
theorem sub_prefix_ne_nil {t : Tree α} {a b : List Dir} (h : isNil (sub t (a ++ b)) = false) :
    isNil (sub t a) = false := by
  rw [sub_append] at h
  cases hs : sub t a with
  | nil => rw [hs] at h; simp [isNil] at h
  | node => rfl

/-! ## zipper decomposition of a position -/

end MdsVerif.Proofs.Cursor
namespace MdsVerif.Model.Cursor
open MdsVerif.Proofs.Cursor
/-- the keys before the cursor's key, in order -/
def Pos.before {α : Type} (p : Pos α) : List α := ctxBefore p.root p.dirs ++ (left p.cur).toList
/-- the keys after the cursor's key, in order -/
def Pos.after {α : Type} (p : Pos α) : List α := (right p.cur).toList ++ ctxAfter p.root p.dirs
end MdsVerif.Model.Cursor
namespace MdsVerif.Proofs.Cursor
open MdsVerif.Model.Stree MdsVerif.Model.Cursor
variable {α : Type}

theorem Pos.zipper (p : Pos α) {l r : Tree α} {x : α} (h : p.cur = .node l x r) :
    p.root.toList = p.before ++ x :: p.after := by
  have := toList_split p.root p.dirs
  unfold Pos.cur at h
  rw [this, h]
  simp [Pos.before, Pos.after, Pos.cur, h, left, right, Tree.toList]

/-! ## the spines -/

theorem spineL_node_node (a : Tree α) (y : α) (b : Tree α) (x : α) (r : Tree α) :
    spineL (.node (.node a y b) x r) = .L :: spineL (.node a y b) := rfl

theorem spineR_node_node (l : Tree α) (x : α) (a : Tree α) (y : α) (b : Tree α) :
    spineR (.node l x (.node a y b)) = .R :: spineR (.node a y b) := rfl

theorem snoc_induction {β : Type} {P : List β → Prop} (h0 : P [])
    (h1 : ∀ pre e, P pre → P (pre ++ [e])) : ∀ l, P l := by
  intro l
  have : ∀ r : List β, P r.reverse := by
    intro r
    induction r with
    | nil => simpa
    | cons e r ih => simpa using h1 _ e ih
  simpa using this l.reverse

theorem spineL_spec (l : Tree α) (x : α) (r : Tree α) :
    ∃ y r', sub (.node l x r) (spineL (.node l x r)) = .node .nil y r' ∧
      ctxBefore (.node l x r) (spineL (.node l x r)) = [] ∧
      (Tree.node l x r).toList = y :: (r'.toList ++ ctxAfter (.node l x r) (spineL (.node l x r))) := by
  induction l generalizing x r with
  | nil => exact ⟨x, r, by simp [spineL, sub, ctxBefore, ctxAfter, Tree.toList]⟩
  | node ll lx lr ihl _ =>
    obtain ⟨y, r', h1, h2, h3⟩ := ihl lx lr
    refine ⟨y, r', ?_, ?_, ?_⟩
    · rw [spineL_node_node]; simpa [sub] using h1
    · rw [spineL_node_node]; simpa [ctxBefore] using h2
    · rw [spineL_node_node]; simp only [ctxAfter]
      rw [Tree.toList, h3]; simp

theorem spineR_spec (l : Tree α) (x : α) (r : Tree α) :
    ∃ y l', sub (.node l x r) (spineR (.node l x r)) = .node l' y .nil ∧
      ctxAfter (.node l x r) (spineR (.node l x r)) = [] ∧
      (Tree.node l x r).toList = (ctxBefore (.node l x r) (spineR (.node l x r)) ++ l'.toList) ++ [y] := by
  induction r generalizing x l with
  | nil => exact ⟨x, l, by simp [spineR, sub, ctxBefore, ctxAfter, Tree.toList]⟩
  | node rl rx rr _ ihr =>
    obtain ⟨y, l', h1, h2, h3⟩ := ihr rl rx
    refine ⟨y, l', ?_, ?_, ?_⟩
    · rw [spineR_node_node]; simpa [sub] using h1
    · rw [spineR_node_node]; simpa [ctxAfter] using h2
    · rw [spineR_node_node]; simp only [ctxBefore]
      rw [Tree.toList, h3]; simp

/-! ## the walk-up loop -/

theorem walkUp_lt {d : Dir} {dirs : List Dir} {n j : Nat} (h : walkUp d dirs n = some j) : j < n := by
  induction n with
  | zero => simp [walkUp] at h
  | succ n ih =>
    simp only [walkUp] at h
    split at h
    · cases h; omega
    · have := ih h; omega

/-- the loop only looks at indices below its argument -/
theorem walkUp_prefix (d : Dir) (pre suf : List Dir) (n : Nat) (hn : n ≤ pre.length) :
    walkUp d (pre ++ suf) n = walkUp d pre n := by
  induction n with
  | zero => rfl
  | succ n ih =>
    simp only [walkUp]
    rw [List.getElem?_append_left (by omega), ih (by omega)]

theorem walkUp_snoc (d e : Dir) (pre : List Dir) :
    walkUp d (pre ++ [e]) (pre.length + 1) = if e = d then some pre.length else walkUp d pre pre.length := by
  simp only [walkUp]
  rw [walkUp_prefix d pre [e] pre.length (Nat.le_refl _)]
  simp

/-- what `findNext`'s loop finds: no ancestor reached through a left step = nothing follows the
subtree; otherwise the deepest such ancestor `path[j]`, which is the next key -/
theorem walkUpL_spec (root : Tree α) (dirs : List Dir) (hw : isNil (sub root dirs) = false) :
    match walkUp .L dirs dirs.length with
    | none => ctxAfter root dirs = []
    | some j => ∃ l' x' r', sub root (dirs.take j) = .node l' x' r' ∧
        ctxAfter root dirs = x' :: (r'.toList ++ ctxAfter root (dirs.take j)) ∧
        ctxBefore root dirs ++ (sub root dirs).toList = ctxBefore root (dirs.take j) ++ l'.toList := by
  induction dirs using snoc_induction with
  | h0 => simp [walkUp, ctxAfter]
  | h1 pre e ih =>
    have hpre := sub_prefix_ne_nil hw
    obtain ⟨l0, x0, r0, h0⟩ := isNil_eq_false.mp hpre
    rw [List.length_append, List.length_singleton, walkUp_snoc]
    cases e with
    | L =>
      simp only [if_true]
      refine ⟨l0, x0, r0, by simpa using h0, ?_, ?_⟩
      · rw [ctxAfter_append, h0]; simp [ctxAfter]
      · rw [ctxBefore_append, sub_append, h0]; simp [ctxBefore, sub]
    | R =>
      have hne : (Dir.R = Dir.L) = False := by simp
      simp only [hne, if_false]
      have ih := ih hpre
      have hA : ctxAfter root (pre ++ [.R]) = ctxAfter root pre := by
        rw [ctxAfter_append, h0]; simp [ctxAfter]
      have hB : ctxBefore root (pre ++ [.R]) ++ (sub root (pre ++ [.R])).toList =
          ctxBefore root pre ++ (sub root pre).toList := by
        rw [ctxBefore_append, sub_append, h0]; simp [ctxBefore, sub, Tree.toList]
      cases hwu : walkUp .L pre pre.length with
      | none => rw [hwu] at ih; simpa [hA] using ih
      | some j =>
        rw [hwu] at ih
        have hj := walkUp_lt hwu
        obtain ⟨l', x', r', h1, h2, h3⟩ := ih
        have ht : (pre ++ [Dir.R]).take j = pre.take j := by
          rw [List.take_append_of_le_length (by omega)]
        refine ⟨l', x', r', by rw [ht]; exact h1, by rw [ht, hA]; exact h2, by rw [ht, hB]; exact h3⟩

theorem walkUpR_spec (root : Tree α) (dirs : List Dir) (hw : isNil (sub root dirs) = false) :
    match walkUp .R dirs dirs.length with
    | none => ctxBefore root dirs = []
    | some j => ∃ l' x' r', sub root (dirs.take j) = .node l' x' r' ∧
        ctxBefore root dirs = (ctxBefore root (dirs.take j) ++ l'.toList) ++ [x'] ∧
        (sub root dirs).toList ++ ctxAfter root dirs = r'.toList ++ ctxAfter root (dirs.take j) := by
  induction dirs using snoc_induction with
  | h0 => simp [walkUp, ctxBefore]
  | h1 pre e ih =>
    have hpre := sub_prefix_ne_nil hw
    obtain ⟨l0, x0, r0, h0⟩ := isNil_eq_false.mp hpre
    rw [List.length_append, List.length_singleton, walkUp_snoc]
    cases e with
    | R =>
      simp only [if_true]
      refine ⟨l0, x0, r0, by simpa using h0, ?_, ?_⟩
      · rw [ctxBefore_append, h0]; simp [ctxBefore]
      · rw [ctxAfter_append, sub_append, h0]; simp [ctxAfter, sub]
    | L =>
      have hne : (Dir.L = Dir.R) = False := by simp
      simp only [hne, if_false]
      have ih := ih hpre
      have hB : ctxBefore root (pre ++ [.L]) = ctxBefore root pre := by
        rw [ctxBefore_append, h0]; simp [ctxBefore]
      have hA : (sub root (pre ++ [.L])).toList ++ ctxAfter root (pre ++ [.L]) =
          (sub root pre).toList ++ ctxAfter root pre := by
        rw [ctxAfter_append, sub_append, h0]; simp [ctxAfter, sub, Tree.toList]
      cases hwu : walkUp .R pre pre.length with
      | none => rw [hwu] at ih; simpa [hB] using ih
      | some j =>
        rw [hwu] at ih
        have hj := walkUp_lt hwu
        obtain ⟨l', x', r', h1, h2, h3⟩ := ih
        have ht : (pre ++ [Dir.L]).take j = pre.take j := by
          rw [List.take_append_of_le_length (by omega)]
        refine ⟨l', x', r', by rw [ht]; exact h1, by rw [ht, hB]; exact h2, by rw [ht, hA]; exact h3⟩

/-! ## `Next` and `Prev` -/

theorem key?_some {p : Pos α} {l r : Tree α} {x : α} (h : p.cur = .node l x r) : key? (some p) = some x := by
  simp [key?, h]

/-- **Next is the in-order successor.**  With `root.toList = before ++ x :: after`: `Next` is
invalid iff `after = []`; otherwise the new cursor is inside the same tree, shows the head of
`after`, and its decomposition is the old one moved by one. -/
theorem next_spec (p : Pos α) (l r : Tree α) (x : α) (h : p.cur = .node l x r) :
    (p.after = [] ∧ next (some p) = none) ∨
    (∃ p' y, next (some p) = some p' ∧ p'.WF ∧ p'.root = p.root ∧ key? (some p') = some y ∧
      p.after = y :: p'.after ∧ p'.before = p.before ++ [x]) := by
  have hw : isNil (sub p.root p.dirs) = false := by
    have : sub p.root p.dirs = .node l x r := h
    rw [this]; rfl
  cases r with
  | node rl rx rr =>
    right
    obtain ⟨y, r', h1, h2, h3⟩ := spineL_spec rl rx rr
    have hcur : sub p.root (p.dirs ++ .R :: spineL (.node rl rx rr)) = .node .nil y r' := by
      rw [sub_append]
      have : sub p.root p.dirs = .node l x (.node rl rx rr) := h
      rw [this]; simpa [sub] using h1
    refine ⟨{ p with dirs := p.dirs ++ .R :: spineL (.node rl rx rr) }, y, ?_, ?_, rfl, ?_, ?_, ?_⟩
    · simp [next_def, findNext_def, h, right]
    · show isNil (sub _ _) = false
      rw [hcur]; rfl
    · exact key?_some hcur
    · have hA : ctxAfter p.root (p.dirs ++ .R :: spineL (.node rl rx rr)) =
          ctxAfter (.node rl rx rr) (spineL (.node rl rx rr)) ++ ctxAfter p.root p.dirs := by
        rw [ctxAfter_append]
        have : sub p.root p.dirs = .node l x (.node rl rx rr) := h
        rw [this]; simp [ctxAfter]
      simp only [Pos.after, Pos.cur, hcur, right, hA]
      have : sub p.root p.dirs = .node l x (.node rl rx rr) := h
      rw [this]; simp only [right]; rw [h3]; simp
    · have hB : ctxBefore p.root (p.dirs ++ .R :: spineL (.node rl rx rr)) =
          ctxBefore p.root p.dirs ++ (l.toList ++ [x]) := by
        rw [ctxBefore_append]
        have : sub p.root p.dirs = .node l x (.node rl rx rr) := h
        rw [this]; simp [ctxBefore, h2]
      simp only [Pos.before, Pos.cur, hcur, left, hB]
      have : sub p.root p.dirs = .node l x (.node rl rx rr) := h
      rw [this]; simp [left, Tree.toList]
  | nil =>
    have hs : sub p.root p.dirs = .node l x .nil := h
    have hspec := walkUpL_spec p.root p.dirs hw
    cases hwu : walkUp .L p.dirs p.dirs.length with
    | none =>
      left
      rw [hwu] at hspec
      refine ⟨by simp [Pos.after, Pos.cur, hs, right, hspec, Tree.toList], ?_⟩
      simp [next_def, findNext_def, h, right, hwu]
    | some j =>
      right
      rw [hwu] at hspec
      obtain ⟨l', x', r', h1, h2, h3⟩ := hspec
      refine ⟨{ p with dirs := p.dirs.take j }, x', ?_, ?_, rfl, ?_, ?_, ?_⟩
      · simp [next_def, findNext_def, h, right, hwu]
      · show isNil (sub _ _) = false
        rw [h1]; rfl
      · exact key?_some h1
      · simp only [Pos.after, Pos.cur, hs, h1, right, h2]; simp [Tree.toList]
      · simp only [Pos.before, Pos.cur, hs, h1, left]
        rw [← h3, hs]; simp [Tree.toList]

/-- **Prev is the in-order predecessor** (mirror image of `next_spec`). -/
theorem prev_spec (p : Pos α) (l r : Tree α) (x : α) (h : p.cur = .node l x r) :
    (p.before = [] ∧ prev (some p) = none) ∨
    (∃ p' y, prev (some p) = some p' ∧ p'.WF ∧ p'.root = p.root ∧ key? (some p') = some y ∧
      p.before = p'.before ++ [y] ∧ p'.after = x :: p.after) := by
  have hw : isNil (sub p.root p.dirs) = false := by
    have : sub p.root p.dirs = .node l x r := h
    rw [this]; rfl
  cases l with
  | node ll lx lr =>
    right
    obtain ⟨y, l', h1, h2, h3⟩ := spineR_spec ll lx lr
    have hcur : sub p.root (p.dirs ++ .L :: spineR (.node ll lx lr)) = .node l' y .nil := by
      rw [sub_append]
      have : sub p.root p.dirs = .node (.node ll lx lr) x r := h
      rw [this]; simpa [sub] using h1
    refine ⟨{ p with dirs := p.dirs ++ .L :: spineR (.node ll lx lr) }, y, ?_, ?_, rfl, ?_, ?_, ?_⟩
    · simp [prev_def, findPrev_def, h, left]
    · show isNil (sub _ _) = false
      rw [hcur]; rfl
    · exact key?_some hcur
    · have hB : ctxBefore p.root (p.dirs ++ .L :: spineR (.node ll lx lr)) =
          ctxBefore p.root p.dirs ++ ctxBefore (.node ll lx lr) (spineR (.node ll lx lr)) := by
        rw [ctxBefore_append]
        have : sub p.root p.dirs = .node (.node ll lx lr) x r := h
        rw [this]; simp [ctxBefore]
      simp only [Pos.before, Pos.cur, hcur, left, hB]
      have : sub p.root p.dirs = .node (.node ll lx lr) x r := h
      rw [this]; simp only [left]; rw [h3]; simp
    · have hA : ctxAfter p.root (p.dirs ++ .L :: spineR (.node ll lx lr)) =
          (x :: r.toList) ++ ctxAfter p.root p.dirs := by
        rw [ctxAfter_append]
        have : sub p.root p.dirs = .node (.node ll lx lr) x r := h
        rw [this]; simp [ctxAfter, h2]
      simp only [Pos.after, Pos.cur, hcur, right, hA]
      have : sub p.root p.dirs = .node (.node ll lx lr) x r := h
      rw [this]; simp [right, Tree.toList]
  | nil =>
    have hs : sub p.root p.dirs = .node .nil x r := h
    have hspec := walkUpR_spec p.root p.dirs hw
    cases hwu : walkUp .R p.dirs p.dirs.length with
    | none =>
      left
      rw [hwu] at hspec
      refine ⟨by simp [Pos.before, Pos.cur, hs, left, hspec, Tree.toList], ?_⟩
      simp [prev_def, findPrev_def, h, left, hwu]
    | some j =>
      right
      rw [hwu] at hspec
      obtain ⟨l', x', r', h1, h2, h3⟩ := hspec
      refine ⟨{ p with dirs := p.dirs.take j }, x', ?_, ?_, rfl, ?_, ?_, ?_⟩
      · simp [prev_def, findPrev_def, h, left, hwu]
      · show isNil (sub _ _) = false
        rw [h1]; rfl
      · exact key?_some h1
      · simp only [Pos.before, Pos.cur, hs, h1, left, h2]; simp [Tree.toList]
      · simp only [Pos.after, Pos.cur, hs, h1, right]
        rw [← h3, hs]; simp [Tree.toList]

/-- `HasNext` predicts exactly whether `Next` stays valid -/
theorem hasNext_eq (c : Cursor α) : hasNext c = valid (next c) := by
  cases c with
  | none => rfl
  | some p => simp only [hasNext_def, next_def]; cases findNext p <;> rfl

theorem hasPrev_eq (c : Cursor α) : hasPrev c = valid (prev c) := by
  cases c with
  | none => rfl
  | some p => simp only [hasPrev_def, prev_def]; cases findPrev p <;> rfl

/-! ## order -/

/-- a search tree: the in-order key list is strictly ascending -/
def Ordered (cmp : α → α → Ordering) (t : Tree α) : Prop :=
  t.toList.Pairwise (fun a b => cmp a b = .lt)

theorem Ordered.node_iff {cmp : α → α → Ordering} {l r : Tree α} {x : α} :
    Ordered cmp (.node l x r) ↔ Ordered cmp l ∧ Ordered cmp r ∧ (∀ y ∈ l.toList, cmp y x = .lt) ∧
      (∀ y ∈ r.toList, cmp x y = .lt) ∧ (∀ a ∈ l.toList, ∀ b ∈ r.toList, cmp a b = .lt) := by
  simp only [Ordered, Tree.toList, List.pairwise_append, List.pairwise_cons, List.mem_cons]
  constructor
  · rintro ⟨h1, ⟨h2, h3⟩, h4⟩
    exact ⟨h1, h3, fun y hy => h4 y hy x (Or.inl rfl), h2, fun a ha b hb => h4 a ha b (Or.inr hb)⟩
  · rintro ⟨h1, h2, h3, h4, h5⟩
    refine ⟨h1, ⟨h4, h2⟩, ?_⟩
    intro a ha b hb
    rcases hb with rfl | hb
    · exact h3 a ha
    · exact h5 a ha b hb

theorem Ordered.sub {cmp : α → α → Ordering} {t : Tree α} (h : Ordered cmp t) (ds : List Dir) :
    Ordered cmp (sub t ds) := by
  unfold Ordered at *
  rw [toList_split t ds] at h
  exact h.sublist (List.infix_append _ _ _).sublist

theorem sub_toList_subset (t : Tree α) (ds : List Dir) {y : α} (hy : y ∈ (sub t ds).toList) : y ∈ t.toList := by
  rw [toList_split t ds]; simp [hy]

theorem pairwise_mem {R : α → α → Prop} {l : List α} (h : l.Pairwise R) {a b : α} (ha : a ∈ l) (hb : b ∈ l) :
    a = b ∨ R a b ∨ R b a := by
  induction l with
  | nil => cases ha
  | cons c l ih =>
    rw [List.pairwise_cons] at h
    rcases List.mem_cons.mp ha with rfl | ha' <;> rcases List.mem_cons.mp hb with rfl | hb'
    · exact Or.inl rfl
    · exact Or.inr (Or.inl (h.1 _ hb'))
    · exact Or.inr (Or.inr (h.1 _ ha'))
    · exact ih h.2 ha' hb'

/-- a class of equivalent keys has at most one stored representative -/
theorem Ordered.unique {cmp : α → α → Ordering} [Std.TransCmp cmp] {t : Tree α} (h : Ordered cmp t)
    {k y1 y2 : α} (h1 : y1 ∈ t.toList) (h2 : y2 ∈ t.toList) (e1 : cmp k y1 = .eq) (e2 : cmp k y2 = .eq) :
    y1 = y2 := by
  rcases pairwise_mem h h1 h2 with rfl | hlt | hlt
  · rfl
  · have := Std.TransCmp.lt_of_eq_of_lt e1 hlt; rw [e2] at this; cases this
  · have := Std.TransCmp.lt_of_eq_of_lt e2 hlt; rw [e1] at this; cases this

/-! ## `Tree.Cursor(key)` -/

section
variable (cmp : α → α → Ordering)

/-- the search stops on a node only when the comparison says equal -/
theorem find_some (k : α) (t : Tree α) {a b : Tree α} {x : α}
    (h : sub t (pathDirs cmp k t) = .node a x b) : cmp k x = .eq ∧ x ∈ t.toList := by
  induction t with
  | nil => simp [pathDirs] at h
  | node l y r ihl ihr =>
    simp only [pathDirs] at h
    cases hc : cmp k y with
    | lt => rw [hc] at h; have := ihl (by simpa [sub] using h); exact ⟨this.1, by simp [Tree.toList, this.2]⟩
    | gt => rw [hc] at h; have := ihr (by simpa [sub] using h); exact ⟨this.1, by simp [Tree.toList, this.2]⟩
    | eq =>
      rw [hc] at h
      simp at h
      obtain ⟨_, rfl, _⟩ := h
      exact ⟨hc, by simp [Tree.toList]⟩

/-- the search leaves an ordered tree only when no stored key is equivalent -/
theorem find_none [Std.TransCmp cmp] (k : α) (t : Tree α) (ho : Ordered cmp t)
    (h : sub t (pathDirs cmp k t) = .nil) : ∀ y ∈ t.toList, cmp k y ≠ .eq := by
  induction t with
  | nil => intro y hy; cases hy
  | node l x r ihl ihr =>
    obtain ⟨hl, hr, hlx, hxr, _⟩ := Ordered.node_iff.mp ho
    simp only [pathDirs] at h
    intro y hy
    simp only [Tree.toList, List.mem_append, List.mem_cons] at hy
    cases hc : cmp k x with
    | lt =>
      rw [hc] at h
      rcases hy with hy | rfl | hy
      · exact ihl hl (by simpa [sub] using h) y hy
      · rw [hc]; simp
      · rw [Std.TransCmp.lt_trans hc (hxr y hy)]; simp
    | gt =>
      rw [hc] at h
      rcases hy with hy | rfl | hy
      · have h1 : cmp x k = .lt := Std.OrientedCmp.lt_of_gt hc
        have h2 : cmp y k = .lt := Std.TransCmp.lt_trans (hlx y hy) h1
        rw [Std.OrientedCmp.gt_of_lt h2]; simp
      · rw [hc]; simp
      · exact ihr hr (by simpa [sub] using h) y hy
    | eq => rw [hc] at h; simp at h

/-- **`Cursor(key)` is valid exactly for present keys** -/
theorem ofKey_valid_iff [Std.TransCmp cmp] (root : Tree α) (ho : Ordered cmp root) (k : α) :
    valid (ofKey cmp root k) = true ↔ ∃ y ∈ root.toList, cmp k y = .eq := by
  cases hs : sub root (pathDirs cmp k root) with
  | nil =>
    have hn : ofKey cmp root k = none := by simp [ofKey, hs]
    have := find_none cmp k root ho hs
    rw [hn]
    simp only [valid, Option.isSome_none, Bool.false_eq_true, false_iff]
    rintro ⟨y, hy, he⟩; exact this y hy he
  | node a x b =>
    have ⟨he, hm⟩ := find_some cmp k root hs
    have hx : cmp x k = .eq := Std.OrientedCmp.eq_symm he
    have hn : ofKey cmp root k = some { root := root, dirs := pathDirs cmp k root } := by
      simp [ofKey, hs, hx]
    rw [hn]
    simp only [valid, Option.isSome_some, true_iff]
    exact ⟨x, hm, he⟩

/-- **…and then reports the stored representative**, from a well-formed position in `root` -/
theorem ofKey_some (root : Tree α) (k : α) {p : Pos α} (h : ofKey cmp root k = some p) :
    p.root = root ∧ p.WF ∧ ∃ x, key? (some p) = some x ∧ cmp k x = .eq ∧ x ∈ root.toList := by
  cases hs : sub root (pathDirs cmp k root) with
  | nil => simp [ofKey, hs] at h
  | node a x b =>
    simp only [ofKey, hs] at h
    split at h
    · cases h
    · cases h
      have ⟨he, hm⟩ := find_some cmp k root hs
      exact ⟨rfl, by show isNil (sub _ _) = false; rw [hs]; rfl, x, key?_some hs, he, hm⟩

/-- `Root()` is valid iff the tree is non-empty, and is then the position with no context -/
theorem ofRoot_spec (root : Tree α) :
    (root = .nil ∧ ofRoot root = none) ∨
    (∃ p, ofRoot root = some p ∧ p.root = root ∧ p.dirs = [] ∧ p.WF) := by
  cases root with
  | nil => exact Or.inl ⟨rfl, rfl⟩
  | node l x r => exact Or.inr ⟨_, rfl, rfl, rfl, rfl⟩

end

/-! ## `Left`, `Right`, `Up`, `Min`, `Max`, `Inorder` -/

theorem goLeft_spec (p : Pos α) (l r : Tree α) (x : α) (h : p.cur = .node l x r) :
    (l = .nil ∧ goLeft (some p) = none) ∨
    (∃ p', goLeft (some p) = some p' ∧ p'.WF ∧ p'.root = p.root ∧ p'.dirs = p.dirs ++ [.L] ∧ p'.cur = l) := by
  have hs : sub p.root p.dirs = .node l x r := h
  cases l with
  | nil => left; simp [goLeft_def, h, left, isNil]
  | node a y b =>
    right
    have hc : sub p.root (p.dirs ++ [.L]) = .node a y b := by rw [sub_append, hs]; simp [sub]
    exact ⟨{ p with dirs := p.dirs ++ [.L] }, by simp [goLeft_def, h, left, isNil],
      by show isNil (sub _ _) = false; rw [hc]; rfl, rfl, rfl, hc⟩

theorem goRight_spec (p : Pos α) (l r : Tree α) (x : α) (h : p.cur = .node l x r) :
    (r = .nil ∧ goRight (some p) = none) ∨
    (∃ p', goRight (some p) = some p' ∧ p'.WF ∧ p'.root = p.root ∧ p'.dirs = p.dirs ++ [.R] ∧ p'.cur = r) := by
  have hs : sub p.root p.dirs = .node l x r := h
  cases r with
  | nil => left; simp [goRight_def, h, right, isNil]
  | node a y b =>
    right
    have hc : sub p.root (p.dirs ++ [.R]) = .node a y b := by rw [sub_append, hs]; simp [sub]
    exact ⟨{ p with dirs := p.dirs ++ [.R] }, by simp [goRight_def, h, right, isNil],
      by show isNil (sub _ _) = false; rw [hc]; rfl, rfl, rfl, hc⟩

/-- everything at or below the left child is smaller, everything at or below the right child larger -/
theorem below_left_lt {cmp : α → α → Ordering} (p : Pos α) (ho : Ordered cmp p.root) (l r : Tree α) (x : α)
    (h : p.cur = .node l x r) (more : List Dir) :
    ∀ y ∈ (sub p.root (p.dirs ++ .L :: more)).toList, cmp y x = .lt := by
  have hs : sub p.root p.dirs = .node l x r := h
  intro y hy
  rw [sub_append, hs] at hy
  have hy' : y ∈ l.toList := sub_toList_subset l more (by simpa [sub] using hy)
  have := Ordered.node_iff.mp (hs ▸ ho.sub p.dirs)
  exact this.2.2.1 y hy'

theorem below_right_gt {cmp : α → α → Ordering} (p : Pos α) (ho : Ordered cmp p.root) (l r : Tree α) (x : α)
    (h : p.cur = .node l x r) (more : List Dir) :
    ∀ y ∈ (sub p.root (p.dirs ++ .R :: more)).toList, cmp x y = .lt := by
  have hs : sub p.root p.dirs = .node l x r := h
  intro y hy
  rw [sub_append, hs] at hy
  have hy' : y ∈ r.toList := sub_toList_subset r more (by simpa [sub] using hy)
  have := Ordered.node_iff.mp (hs ▸ ho.sub p.dirs)
  exact this.2.2.2.1 y hy'

/-- `Up` drops the last step: invalid at the root, otherwise the parent (whose left or right child
is the old current node) -/
theorem up_spec (p : Pos α) (hw : p.WF) :
    (p.dirs = [] ∧ up (some p) = none) ∨
    (∃ p' d, up (some p) = some p' ∧ p'.WF ∧ p'.root = p.root ∧ p.dirs = p'.dirs ++ [d] ∧
      (match d with | .L => left p'.cur | .R => right p'.cur) = p.cur) := by
  rcases hd : p.dirs with _ | ⟨d0, ds0⟩
  · left; simp [up_def, hd]
  · right
    have hne : p.dirs ≠ [] := by rw [hd]; simp
    have hsplit : p.dirs = p.dirs.dropLast ++ [p.dirs.getLast hne] := (List.dropLast_concat_getLast hne).symm
    refine ⟨{ p with dirs := p.dirs.dropLast }, p.dirs.getLast hne, ?_, ?_, rfl, ?_, ?_⟩
    · simp [up_def, hd]
    · show isNil (sub _ _) = false
      have : isNil (sub p.root (p.dirs.dropLast ++ [p.dirs.getLast hne])) = false := by rw [← hsplit]; exact hw
      exact sub_prefix_ne_nil this
    · rw [← hd]; exact hsplit
    · show _ = sub p.root p.dirs
      conv => rhs; rw [hsplit, sub_append]
      show _ = sub (sub p.root p.dirs.dropLast) [p.dirs.getLast hne]
      cases hc : sub p.root p.dirs.dropLast with
      | nil => cases p.dirs.getLast hne <;> simp [Pos.cur, hc, left, right]
      | node a y b => cases p.dirs.getLast hne <;> simp [Pos.cur, hc, left, right, sub]

theorem min_spec (p : Pos α) (l r : Tree α) (x : α) (h : p.cur = .node l x r) :
    ∃ p' y r', min (some p) = some p' ∧ p'.WF ∧ p'.root = p.root ∧ p'.dirs = p.dirs ++ spineL p.cur ∧
      p'.cur = .node .nil y r' ∧ p.cur.toList.head? = some y := by
  have hs : sub p.root p.dirs = .node l x r := h
  obtain ⟨y, r', h1, _, h3⟩ := spineL_spec l x r
  have hc : sub p.root (p.dirs ++ spineL (.node l x r)) = .node .nil y r' := by rw [sub_append, hs, h1]
  refine ⟨{ p with dirs := p.dirs ++ spineL p.cur }, y, r', rfl, ?_, rfl, rfl, ?_, ?_⟩
  · show isNil (sub _ _) = false
    rw [h, hc]; rfl
  · show sub _ _ = _
    rw [h, hc]
  · rw [h, h3]; rfl

theorem max_spec (p : Pos α) (l r : Tree α) (x : α) (h : p.cur = .node l x r) :
    ∃ p' y l', max (some p) = some p' ∧ p'.WF ∧ p'.root = p.root ∧ p'.dirs = p.dirs ++ spineR p.cur ∧
      p'.cur = .node l' y .nil ∧ p.cur.toList.getLast? = some y := by
  have hs : sub p.root p.dirs = .node l x r := h
  obtain ⟨y, l', h1, _, h3⟩ := spineR_spec l x r
  have hc : sub p.root (p.dirs ++ spineR (.node l x r)) = .node l' y .nil := by rw [sub_append, hs, h1]
  refine ⟨{ p with dirs := p.dirs ++ spineR p.cur }, y, l', rfl, ?_, rfl, rfl, ?_, ?_⟩
  · show isNil (sub _ _) = false
    rw [h, hc]; rfl
  · show sub _ _ = _
    rw [h, hc]
  · rw [h, h3]; simp

/-- the collecting consumer that never stops gathers the in-order list -/
theorem inorderF_collect_none (t : Tree α) (acc : List α) :
    MdsVerif.Model.Stree.inorderF (collect none) t acc = (t.toList.reverse ++ acc, true) := by
  induction t generalizing acc with
  | nil => simp [MdsVerif.Model.Stree.inorderF, Tree.toList]
  | node l x r ihl ihr =>
    simp only [MdsVerif.Model.Stree.inorderF, ihl, Bool.not_true, Bool.false_eq_true, ↓reduceIte, collect]
    rw [ihr]; simp [Tree.toList]

/-- **`Inorder` lists exactly the keys of the cursor's subtree, in order** -/
theorem inorder_subtree (p : Pos α) : inorder (some p) none = p.cur.toList := by
  simp [inorder, MdsVerif.Model.Cursor.inorderF, inorderF_collect_none]

end MdsVerif.Proofs.Cursor
