/-!
# The patience invariant, generic in the "may follow" relation

Ported unchanged from `design-prototypes/LIS.lean`: an abstract version of `LISFunc`/`LNDSFunc`
in which `tails[ℓ]` carries its whole chain, generic in `R` (`<` for LIS, `≤` for LNDS) over a
total preorder `le`.  `result_spec`: the result is `R`-increasing, a subsequence of the input, and
no `R`-increasing subsequence is longer.  `Proofs/Lis.lean` shows that the executable model with
`tails`/`prev` index arrays and the two binary searches refines this one.
-/
namespace MdsVerif.Proofs.Patience
open List
variable {α : Type}

structure Ax (le R : α → α → Prop) : Prop where
  refl : ∀ a, le a a
  trans : ∀ {a b c}, le a b → le b c → le a c
  R_le : ∀ {a b}, R a b → le a b
  nR_le : ∀ {a b}, ¬ R a b → le b a
  R_left : ∀ {a b c}, le a b → R b c → R a c
  R_trans : ∀ {a b c}, R a b → R b c → R a c

/-- a reversed chain: head is the LAST element of the subsequence -/
def RChain (R : α → α → Prop) (t : List α) : Prop := t.Pairwise (fun later earlier => R earlier later)

variable (le R : α → α → Prop) [DecidableRel R]

/-- a tail: (last element, rest of the chain reversed) -/
abbrev Tail (α : Type) := α × List α
def Tail.chain (t : Tail α) : List α := t.1 :: t.2

/-- number of leading tails whose last element may be followed by v -/
def cnt (v : α) : List (Tail α) → Nat
  | [] => 0
  | t :: ts => if R t.1 v then 1 + cnt v ts else 0

def base (tails : List (Tail α)) (r : Nat) : List α :=
  if r = 0 then [] else match tails[r-1]? with
    | some t => t.chain
    | none => []

def step (tails : List (Tail α)) (v : α) : List (Tail α) :=
  let r := cnt R v tails
  if r = tails.length then tails ++ [(v, base tails r)] else tails.set r (v, base tails r)

def run : List (Tail α) → List α → List (Tail α)
  | tails, [] => tails
  | tails, v :: vs => run (step R tails v) vs

def result (vs : List α) : List α :=
  match (run R [] vs).getLast? with
  | some t => t.chain.reverse
  | none => []

theorem cnt_le (v : α) : ∀ ts : List (Tail α), cnt R v ts ≤ ts.length := by
  intro ts; induction ts with
  | nil => simp [cnt]
  | cons t ts ih => simp only [cnt]; split <;> simp <;> omega

theorem cnt_lt (v : α) : ∀ (ts : List (Tail α)) i (hi : i < ts.length), i < cnt R v ts → R ts[i].1 v := by
  intro ts; induction ts with
  | nil => intro i hi; simp at hi
  | cons t ts ih =>
    intro i hi hlt
    simp only [cnt] at hlt
    split at hlt
    · cases i with
      | zero => simpa
      | succ i => simp; exact ih i (by simp at hi; omega) (by omega)
    · omega

theorem cnt_stop (v : α) : ∀ (ts : List (Tail α)) (h : cnt R v ts < ts.length), ¬ R ts[cnt R v ts].1 v := by
  intro ts; induction ts with
  | nil => intro h; simp at h
  | cons t ts ih =>
    intro h
    by_cases hR : R t.1 v
    · have e : cnt R v (t :: ts) = 1 + cnt R v ts := by simp [cnt, hR]
      have h' : cnt R v ts < ts.length := by rw [e] at h; simp at h; omega
      have := ih h'
      simp only [e]
      have e2 : (t :: ts)[1 + cnt R v ts]'(by simp; omega) = ts[cnt R v ts] := by
        simp [Nat.add_comm 1]
      rw [e2]; exact this
    · have e : cnt R v (t :: ts) = 0 := by simp [cnt, hR]
      simp only [e]; simpa using hR

/-- characterisation of the new tails -/
theorem step_length (tails : List (Tail α)) (v : α) :
    (step R tails v).length = if cnt R v tails = tails.length then tails.length + 1 else tails.length := by
  unfold step; simp only; split <;> simp

theorem step_get_r (tails : List (Tail α)) (v : α) (hi : cnt R v tails < (step R tails v).length) :
    (step R tails v)[cnt R v tails] = (v, base tails (cnt R v tails)) := by
  unfold step at hi ⊢
  simp only at hi ⊢
  by_cases hr : cnt R v tails = tails.length
  · simp only [hr, if_true]; simp
  · simp only [if_neg hr]; simp

theorem step_get_ne (tails : List (Tail α)) (v : α) (i : Nat) (hi : i < (step R tails v).length)
    (hne : i ≠ cnt R v tails) : ∃ h : i < tails.length, (step R tails v)[i] = tails[i] := by
  have hc := cnt_le R v tails
  unfold step at hi ⊢
  simp only at hi ⊢
  by_cases hr : cnt R v tails = tails.length
  · simp only [hr, if_true] at hi ⊢
    have hlt : i < tails.length := by simp at hi; omega
    exact ⟨hlt, by rw [List.getElem_append_left hlt]⟩
  · simp only [if_neg hr] at hi ⊢
    have hlt : i < tails.length := by simpa using hi
    exact ⟨hlt, by rw [List.getElem_set_ne (by omega)]⟩

theorem step_len_ge (tails : List (Tail α)) (v : α) :
    tails.length ≤ (step R tails v).length ∧ cnt R v tails < (step R tails v).length := by
  have h1 := step_length R tails v; have h2 := cnt_le R v tails
  split at h1 <;> omega


structure Inv (rp : List α) (tails : List (Tail α)) : Prop where
  chain : ∀ i (hi : i < tails.length),
    RChain R tails[i].chain ∧ tails[i].chain <+ rp ∧ tails[i].2.length = i
  sorted : ∀ i j (hi : i < tails.length) (hj : j < tails.length), i ≤ j → le tails[i].1 tails[j].1
  best : ∀ x s', (x :: s') <+ rp → RChain R (x :: s') →
    ∃ (h : s'.length < tails.length), le tails[s'.length].1 x

variable {le R}

theorem cnt_ge (ax : Ax le R) {rp : List α} {tails : List (Tail α)} (inv : Inv le R rp tails) (v : α)
    (i : Nat) (hi : i < tails.length) (hge : cnt R v tails ≤ i) : ¬ R tails[i].1 v := by
  intro hR
  have hlt : cnt R v tails < tails.length := by omega
  have hs := inv.sorted (cnt R v tails) i hlt hi hge
  exact cnt_stop R v tails hlt (ax.R_left hs hR)

theorem base_facts (ax : Ax le R) {rp : List α} {tails : List (Tail α)} (inv : Inv le R rp tails) (v : α) :
    RChain R (v :: base tails (cnt R v tails)) ∧ (v :: base tails (cnt R v tails)) <+ (v :: rp) ∧
    (base tails (cnt R v tails)).length = cnt R v tails := by
  have hc := cnt_le R v tails
  unfold base
  by_cases h0 : cnt R v tails = 0
  · simp [h0, RChain]
  · have hlt : cnt R v tails - 1 < tails.length := by omega
    simp only [if_neg h0, List.getElem?_eq_getElem hlt]
    obtain ⟨hch, hsub, hlen⟩ := inv.chain _ hlt
    have hR : R tails[cnt R v tails - 1].1 v := cnt_lt R v tails _ hlt (by omega)
    refine ⟨?_, List.cons_sublist_cons.mpr hsub, ?_⟩
    · unfold RChain at hch ⊢
      rw [List.pairwise_cons]
      refine ⟨?_, hch⟩
      intro e he
      simp only [Tail.chain] at he hch
      rcases List.mem_cons.mp he with rfl | he
      · exact hR
      · have := (List.pairwise_cons.mp hch).1 e he
        exact ax.R_trans this hR
    · simp [Tail.chain, hlen]; omega

theorem step_inv (ax : Ax le R) {rp : List α} {tails : List (Tail α)} (inv : Inv le R rp tails) (v : α) :
    Inv le R (v :: rp) (step R tails v) := by
  have hc := cnt_le R v tails
  obtain ⟨hge, hrlt⟩ := step_len_ge R tails v
  obtain ⟨bch, bsub, blen⟩ := base_facts ax inv v
  have hnew := step_get_r R tails v hrlt
  constructor
  · -- chain
    intro i hi
    by_cases h : i = cnt R v tails
    · subst h
      rw [hnew]
      exact ⟨bch, bsub, blen⟩
    · obtain ⟨hlt, he⟩ := step_get_ne R tails v i hi h
      rw [he]
      obtain ⟨a, b, c⟩ := inv.chain i hlt
      exact ⟨a, b.trans (List.sublist_cons_self v rp), c⟩
  · -- sorted
    intro i j hi hj hij
    by_cases h1 : i = cnt R v tails <;> by_cases h2 : j = cnt R v tails
    · subst h1; have : j = cnt R v tails := h2
      subst this; exact ax.refl _
    · subst h1
      obtain ⟨hlt, he⟩ := step_get_ne R tails v j hj h2
      rw [hnew, he]
      exact ax.nR_le (cnt_ge ax inv v j hlt hij)
    · subst h2
      obtain ⟨hlt, he⟩ := step_get_ne R tails v i hi h1
      rw [hnew, he]
      exact ax.R_le (cnt_lt R v tails i hlt (by omega))
    · obtain ⟨hlt1, he1⟩ := step_get_ne R tails v i hi h1
      obtain ⟨hlt2, he2⟩ := step_get_ne R tails v j hj h2
      rw [he1, he2]; exact inv.sorted i j hlt1 hlt2 hij
  · -- best
    intro x s' hsub hch
    rcases List.sublist_cons_iff.mp hsub with hold | ⟨r', hr', hs'⟩
    · -- the chain lies in the old prefix
      obtain ⟨hlt, hle⟩ := inv.best x s' hold hch
      refine ⟨by omega, ?_⟩
      by_cases h : s'.length = cnt R v tails
      · have hlt' : cnt R v tails < tails.length := by omega
        have e : (step R tails v)[s'.length]'(by omega) = (v, base tails (cnt R v tails)) := by
          simp only [h]; exact hnew
        rw [e]
        have : le v tails[cnt R v tails].1 := ax.nR_le (cnt_stop R v tails hlt')
        simp only [h] at hle
        exact ax.trans this hle
      · obtain ⟨_, he⟩ := step_get_ne R tails v s'.length (by omega) h
        rw [he]; exact hle
    · -- the chain ends with v
      cases hr'
      have hall : ∀ e ∈ s', R e v := (List.pairwise_cons.mp hch).1
      have hch' : RChain R s' := (List.pairwise_cons.mp hch).2
      -- s'.length ≤ cnt
      have hbound : s'.length ≤ cnt R v tails := by
        cases s' with
        | nil => simp
        | cons y s'' =>
          obtain ⟨hlt, hle⟩ := inv.best y s'' hs' hch'
          have hRy : R y v := hall y (by simp)
          have hRh : R tails[s''.length].1 v := ax.R_left hle hRy
          rcases Nat.lt_or_ge s''.length (cnt R v tails) with h | h
          · simp; omega
          · exact absurd hRh (cnt_ge ax inv v _ hlt h)
      by_cases h : s'.length = cnt R v tails
      · refine ⟨by omega, ?_⟩
        have e : (step R tails v)[s'.length]'(by omega) = (v, base tails (cnt R v tails)) := by
          simp only [h]; exact hnew
        rw [e]; exact ax.refl _
      · have hlt : s'.length < cnt R v tails := by omega
        have hlt2 : s'.length < tails.length := by omega
        refine ⟨by omega, ?_⟩
        obtain ⟨_, he⟩ := step_get_ne R tails v s'.length (by omega) h
        rw [he]
        exact ax.R_le (cnt_lt R v tails _ hlt2 hlt)


theorem run_inv (ax : Ax le R) : ∀ (vs rp : List α) (tails : List (Tail α)), Inv le R rp tails →
    Inv le R (vs.reverse ++ rp) (run R tails vs) := by
  intro vs
  induction vs with
  | nil => intro rp tails h; simpa [run] using h
  | cons v vs ih =>
    intro rp tails h
    have := ih (v :: rp) _ (step_inv ax h v)
    simpa [run] using this

omit [DecidableRel R] in
theorem inv_init : Inv le R ([] : List α) [] :=
  ⟨fun i hi => by simp at hi, fun i j hi => by simp at hi, fun x s' h => by cases h⟩

/-- **LIS / LNDS**: the result is an R-increasing subsequence of the input and no R-increasing
    subsequence of the input is longer. -/
theorem result_spec (ax : Ax le R) (vs : List α) :
    (result R vs).Pairwise R ∧ result R vs <+ vs ∧
    ∀ s, s <+ vs → s.Pairwise R → s.length ≤ (result R vs).length := by
  have inv := run_inv ax vs [] [] inv_init
  simp only [List.append_nil] at inv
  unfold result
  cases hl : (run R [] vs).getLast? with
  | none =>
    have hnil : run R [] vs = [] := List.getLast?_eq_none_iff.mp hl
    refine ⟨by simp, by simp, ?_⟩
    intro s hs hp
    cases hrev : s.reverse with
    | nil => have : s = [] := by simpa using hrev
             simp [this]
    | cons x s' =>
      have hsub : (x :: s') <+ vs.reverse := by rw [← hrev]; exact List.reverse_sublist.mpr hs
      have hch : RChain R (x :: s') := by
        rw [← hrev]; unfold RChain; rw [List.pairwise_reverse]; exact hp
      obtain ⟨hlt, _⟩ := inv.best x s' hsub hch
      rw [hnil] at hlt; simp at hlt
  | some t =>
    have hne : run R [] vs ≠ [] := by intro h; rw [h] at hl; simp at hl
    have hlast : t = (run R [] vs)[(run R [] vs).length - 1]'(by
        have := List.length_pos_iff.mpr hne; omega) := by
      rw [List.getLast?_eq_some_getLast hne] at hl
      rw [← List.getLast_eq_getElem hne]; exact (Option.some.inj hl).symm
    obtain ⟨hch, hsub, hlen⟩ := inv.chain ((run R [] vs).length - 1) (by
        have := List.length_pos_iff.mpr hne; omega)
    rw [← hlast] at hch hsub hlen
    refine ⟨?_, ?_, ?_⟩
    · unfold RChain at hch; rw [List.pairwise_reverse]; exact hch
    · have := List.reverse_sublist.mpr hsub; simpa using this
    · intro s hs hp
      cases hrev : s.reverse with
      | nil => have : s = [] := by simpa using hrev
               simp [this]
      | cons x s' =>
        have hsub' : (x :: s') <+ vs.reverse := by rw [← hrev]; exact List.reverse_sublist.mpr hs
        have hch' : RChain R (x :: s') := by
          rw [← hrev]; unfold RChain; rw [List.pairwise_reverse]; exact hp
        obtain ⟨hlt, _⟩ := inv.best x s' hsub' hch'
        have hsl : s.length = s'.length + 1 := by
          have := congrArg List.length hrev; simpa using this
        have hpos := List.length_pos_iff.mpr hne
        simp [Tail.chain, hlen]; omega

end MdsVerif.Proofs.Patience
