import MdsVerif.Model.Slice
import MdsVerif.Proofs.SliceDefs
import MdsVerif.Proofs.Rot
/-!
# Glue: the list-backed `Model.Slice.rotateW` is the function-array model of `Proofs/Rot.lean`

* `rotInner_sim`, `rotOuter_sim`: the list loops simulate the function-array loops step by step
  (`toFn (l.set i v) = upd (toFn l) i v`), preserving the length;
* `gcdLoop_eq`: Go's `gcd` loop computes `Nat.gcd` within its fuel;
* `rotCore_spec`: for `0 < k < n` the loops terminate and move index `i` to `(i + k) mod n`;
* `rotateW_eq`: the `sliceCheck` normalisation of a negative `k` and the `k ∈ {0, n}` early return.
-/
namespace MdsVerif.Proofs.Rotate
open MdsVerif.Model.Slice MdsVerif.Proofs
variable {α : Type} [Inhabited α]

/-- a list read as a total function (what `ss[i]` means for `i < len`) -/
def toFn (l : List α) : Nat → α := fun i => l.getD i default

theorem toFn_set (l : List α) (i : Nat) (v : α) (hi : i < l.length) :
    toFn (l.set i v) = Rot.upd (toFn l) i v := by
  funext x
  simp only [toFn, Rot.upd, List.getD_eq_getElem?_getD, List.getElem?_set]
  by_cases hx : x = i
  · subst hx; simp [hi]
  · have : ¬ i = x := fun h => hx h.symm
    simp [hx, this]

theorem rotInner_sim (n k j : Nat) (hn : 0 < n) : ∀ (fuel : Nat) (l : List α) (i : Nat) (cur : α),
    l.length = n →
    match rotInner n k j fuel l i cur with
    | some l' => l'.length = n ∧ Rot.inner n k j fuel (toFn l) i cur = some (toFn l')
    | none => Rot.inner n k j fuel (toFn l) i cur = none
  | 0, _, _, _, _ => by simp [rotInner_zero, rotInner_succ, Rot.inner]
  | f + 1, l, i, cur, hl => by
    have hnext : (i + k) % n < l.length := by rw [hl]; exact Nat.mod_lt _ hn
    simp only [rotInner_zero, rotInner_succ, Rot.inner]
    by_cases he : (i + k) % n = j
    · simp only [if_pos he]
      exact ⟨by simp [hl], by rw [toFn_set l _ cur hnext]⟩
    · simp only [if_neg he]
      have := rotInner_sim n k j hn f (l.set ((i + k) % n) cur) ((i + k) % n)
        (l.getD ((i + k) % n) default) (by simp [hl])
      rw [toFn_set l _ cur hnext] at this
      exact this

theorem rotOuter_sim (n k : Nat) (hn : 0 < n) : ∀ (c j : Nat) (l : List α), l.length = n →
    match rotOuter n k c j l with
    | some l' => l'.length = n ∧ Rot.outer n k c j (toFn l) = some (toFn l')
    | none => Rot.outer n k c j (toFn l) = none
  | 0, _, l, hl => by simp [rotOuter, Rot.outer, hl]
  | c + 1, j, l, hl => by
    have h1 := rotInner_sim n k j hn (n + 1) l j (l.getD j default) hl
    simp only [rotOuter, Rot.outer]
    have e : toFn l j = l.getD j default := rfl
    rw [e]
    cases hr : rotInner n k j (n + 1) l j (l.getD j default) with
    | none => rw [hr] at h1; simp only [h1]
    | some l' =>
      rw [hr] at h1
      simp only [h1.2]
      exact rotOuter_sim n k hn c (j + 1) l' h1.1

/-- Go's `gcd(a, b)` loop is `Nat.gcd` and needs at most `b + 1` iterations -/
theorem gcdLoop_eq : ∀ (f a b : Nat), b < f → gcdLoop f a b = some (Nat.gcd a b)
  | 0, _, _, h => by omega
  | f + 1, a, b, h => by
    by_cases hb : b = 0
    · subst hb; simp [gcdLoop_zero, gcdLoop_succ]
    · have hlt : a % b < b := Nat.mod_lt _ (by omega)
      simp only [gcdLoop_zero, gcdLoop_succ, ne_eq, hb, not_false_eq_true, if_true]
      rw [gcdLoop_eq f b (a % b) (by omega)]
      congr 1
      rw [Nat.gcd_comm a b, Nat.gcd_rec b a, Nat.gcd_comm]

/-- the cycle-chasing loops on the list: termination and `r[(i+k) % n] = ss[i]` -/
theorem rotCore_spec (ss : List α) (k : Nat) (hk : 0 < k) (hkn : k < ss.length) :
    ∃ r, rotOuter ss.length k (Nat.gcd k ss.length) 0 ss = some r ∧ r.length = ss.length ∧
      ∀ i, i < ss.length → r[(i + k) % ss.length]? = ss[i]? := by
  have hn : 0 < ss.length := by omega
  obtain ⟨f, hf, hspec⟩ := Rot.rotate_spec ss.length k hk hkn (toFn ss)
  have hsim := rotOuter_sim ss.length k hn (Nat.gcd k ss.length) 0 ss rfl
  unfold Rot.rotate at hf
  cases hr : rotOuter ss.length k (Nat.gcd k ss.length) 0 ss with
  | none => rw [hr] at hsim; simp only at hsim; rw [hsim] at hf; cases hf
  | some r =>
    rw [hr] at hsim
    obtain ⟨hlen, hsim⟩ := hsim
    rw [hf] at hsim
    cases hsim
    refine ⟨r, rfl, hlen, fun i hi => ?_⟩
    have hidx : (i + k) % ss.length < r.length := by rw [hlen]; exact Nat.mod_lt _ hn
    have := hspec i hi
    simp only [toFn, List.getD_eq_getElem?_getD, List.getElem?_eq_getElem hidx,
      List.getElem?_eq_getElem hi, Option.getD_some] at this
    rw [List.getElem?_eq_getElem hidx, List.getElem?_eq_getElem hi, this]

/-- the normalised offset of `sliceCheck` -/
def normK (n : Nat) (k : Int) : Nat := (if k < 0 then k + n else k).toNat

/-- `Rotate` outside `-n ≤ k ≤ n` panics -/
theorem rotateW_panic (ss : List α) (k : Int) (hk : k < -(ss.length : Int) ∨ (ss.length : Int) < k) :
    rotateW ss k = .panic "offset out of range" := by
  simp only [rotateW_def, sliceCheck_def]
  by_cases hneg : k < 0
  · have : ¬ (k + (ss.length : Int) ≥ 0 ∧ k + (ss.length : Int) ≤ ss.length) := by omega
    simp only [hneg, if_true, decide_eq_false this]
    rfl
  · have : ¬ (k ≥ 0 ∧ k ≤ (ss.length : Int)) := by omega
    simp only [hneg, if_false, decide_eq_false this]
    rfl

/-- `Rotate` for `-n ≤ k ≤ n`: early return when the normalised offset is `0` or `n`, otherwise the
cycle-chasing loops with `g = gcd` -/
theorem rotateW_eq (ss : List α) (k : Int) (hk : -(ss.length : Int) ≤ k ∧ k ≤ ss.length) :
    rotateW ss k =
      if normK ss.length k = 0 ∨ normK ss.length k = ss.length then .ok ss
      else match rotOuter ss.length (normK ss.length k) (Nat.gcd (normK ss.length k) ss.length) 0 ss with
        | some r => .ok r
        | none => .hang := by
  simp only [rotateW_def, sliceCheck_def]; unfold normK
  by_cases hneg : k < 0
  · have h1 : (k + (ss.length : Int) ≥ 0 ∧ k + (ss.length : Int) ≤ ss.length) := by omega
    simp only [hneg, if_true, h1, and_self, decide_true, Bool.not_true, Bool.false_eq_true, if_false]
    by_cases he : k + (ss.length : Int) = 0 ∨ k + (ss.length : Int) = ss.length
    · have : (k + (ss.length : Int)).toNat = 0 ∨ (k + (ss.length : Int)).toNat = ss.length := by omega
      rw [if_pos he, if_pos this]
    · have : ¬ ((k + (ss.length : Int)).toNat = 0 ∨ (k + (ss.length : Int)).toNat = ss.length) := by omega
      rw [if_neg he, if_neg this, gcdLoop_eq _ _ _ (Nat.lt_succ_self _)]
      simp only
      split <;> rename_i heq <;> simp only [heq]
  · have h1 : (k ≥ 0 ∧ k ≤ (ss.length : Int)) := by omega
    simp only [hneg, if_false, h1, and_self, decide_true, Bool.not_true, Bool.false_eq_true]
    by_cases he : k = 0 ∨ k = (ss.length : Int)
    · have : k.toNat = 0 ∨ k.toNat = ss.length := by omega
      rw [if_pos he, if_pos this]
    · have : ¬ (k.toNat = 0 ∨ k.toNat = ss.length) := by omega
      rw [if_neg he, if_neg this, gcdLoop_eq _ _ _ (Nat.lt_succ_self _)]
      simp only
      split <;> rename_i heq <;> simp only [heq]

/-- the integer index `(i + k) mod n` of the property text is `(i + normK n k) % n` -/
theorem idx_norm (n : Nat) (k : Int) (hk : -(n : Int) ≤ k ∧ k ≤ n) (i : Nat) :
    (((i : Int) + k) % (n : Int)).toNat = (i + normK n k) % n := by
  unfold normK
  by_cases hneg : k < 0
  · simp only [hneg, if_true]
    have e : (i : Int) + k = ((i + (k + (n : Int)).toNat : Nat) : Int) - (n : Int) := by omega
    rw [e, Int.sub_emod_right, ← Int.natCast_emod, Int.toNat_natCast]
  · simp only [hneg, if_false]
    have e : (i : Int) + k = ((i + k.toNat : Nat) : Int) := by omega
    rw [e, ← Int.natCast_emod, Int.toNat_natCast]

end MdsVerif.Proofs.Rotate
