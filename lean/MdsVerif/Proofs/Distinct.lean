import MdsVerif.Model.Distinct
/-!
# Lemmas about the executable model of `distinct.Counter` (deterministic part; core Lean only)
-/
namespace MdsVerif.Proofs.Distinct
open MdsVerif.Model.Distinct

/-! ### the threshold `p = MaxUint64 >> k` and `Count`'s scale `1 << LeadingZeros64(p)` -/

theorem pOf_succ_eq : ∀ k, k < 65 → pOf k + 1 = 2 ^ (64 - k) := by decide
theorem clz_pOf_lt : ∀ k, k < 65 → clz64 (pOf k) = k := by decide
theorem pOf_lt_max_small : ∀ k, k < 65 → (pOf k < maxU64 ↔ k ≠ 0) := by decide
theorem pOf_zero : pOf 0 = maxU64 := by decide

theorem pOf_ge64 (k : Nat) (h : 64 ≤ k) : pOf k = 0 := by
  unfold pOf
  rw [Nat.shiftRight_eq_div_pow]
  apply Nat.div_eq_of_lt
  calc maxU64 < 2 ^ 64 := by decide
    _ ≤ 2 ^ k := Nat.pow_le_pow_right (by decide) h

theorem pOf_lt_max (k : Nat) : pOf k < maxU64 ↔ k ≠ 0 := by
  by_cases h : k < 65
  · exact pOf_lt_max_small k h
  · have h0 : pOf k = 0 := pOf_ge64 k (by omega)
    rw [h0]
    constructor
    · intro _; omega
    · intro _; decide

theorem clz_pOf (k : Nat) : clz64 (pOf k) = min k 64 := by
  by_cases h : k < 65
  · rw [clz_pOf_lt k h]; omega
  · rw [pOf_ge64 k (by omega)]
    have : clz64 0 = 64 := by decide
    rw [this]; omega

/-- `Count` is `Len · 2^k` as a `uint64` while `k < 64`, and `0` once the threshold has reached `0` (`k ≥ 64`:
    Go's `1 << 64` is `0`). -/
theorem count_eq (s : St) :
    s.count = if s.k < 64 then (s.buf.length * 2 ^ s.k) % 2 ^ 64 else 0 := by
  unfold St.count
  by_cases h : s.k < 64
  · have h1 : clz64 (pOf s.k) = s.k := clz_pOf_lt s.k (by omega)
    have h2 : (2 : Nat) ^ s.k < 2 ^ 64 := Nat.pow_lt_pow_right (by decide) h
    simp only [h1, h, if_true, Nat.one_shiftLeft, Nat.mod_eq_of_lt h2]
  · have h1 : clz64 (pOf s.k) = 64 := by rw [clz_pOf]; omega
    have h3 : (1 <<< 64) % 2 ^ 64 = 0 := by decide
    simp only [h1, h, if_false, h3, Nat.mul_zero, Nat.zero_mod]

/-! ### `ins` and the halving pass -/

theorem ins_length_ge (v : Nat) (b : List Nat) : b.length ≤ (ins v b).length := by
  unfold ins; split <;> simp

theorem ins_length_le (v : Nat) (b : List Nat) : (ins v b).length ≤ b.length + 1 := by
  unfold ins; split <;> simp

theorem mem_ins {x v : Nat} {b : List Nat} : x ∈ ins v b ↔ x ∈ b ∨ x = v := by
  unfold ins
  split
  · constructor
    · exact Or.inl
    · rintro (h | rfl)
      · exact h
      · assumption
  · simp

theorem ins_nodup {v : Nat} {b : List Nat} (h : b.Nodup) : (ins v b).Nodup := by
  unfold ins
  split
  · exact h
  · rename_i hv
    rw [List.nodup_append]
    refine ⟨h, by simp, ?_⟩
    intro a ha b hb
    simp at hb
    subst hb
    intro e; subst e; exact hv ha

theorem halve_sublist (ko : Bool) : ∀ (l : List Nat) (nb rnd : Nat) (ws : List Nat),
    (halve ko l nb rnd ws).1.Sublist l := by
  intro l
  induction l with
  | nil => intro nb rnd ws; simp [halve]
  | cons e es ih =>
    intro nb rnd ws
    simp only [halve]
    split <;> split <;>
      first
      | exact List.Sublist.cons_cons e (ih _ _ _)
      | exact List.Sublist.cons e (ih _ _ _)

theorem halve_length_le (ko : Bool) (l : List Nat) (nb rnd : Nat) (ws : List Nat) :
    (halve ko l nb rnd ws).1.length ≤ l.length := (halve_sublist ko l nb rnd ws).length_le

/-- the visiting order actually used: the oracle if it is a permutation of the buffer, else the buffer itself -/
theorem order_perm (order b : List Nat) : (if order.isPerm b then order else b).Perm b := by
  split
  · rename_i h; exact List.isPerm_iff.mp h
  · exact List.Perm.refl _

/-! ### one `Add` -/

theorem add_cap (ko : Bool) (s : St) (v : Nat) (ws ord : List Nat) : (add ko s v ws ord).1.cap = s.cap := by
  unfold add; dsimp only
  split
  · rfl
  · split <;> rfl

theorem add_k_mono (ko : Bool) (s : St) (v : Nat) (ws ord : List Nat) : s.k ≤ (add ko s v ws ord).1.k := by
  unfold add; dsimp only
  split
  · exact Nat.le_refl _
  · split
    · exact Nat.le_succ _
    · exact Nat.le_refl _

theorem add_k_le_succ (ko : Bool) (s : St) (v : Nat) (ws ord : List Nat) : (add ko s v ws ord).1.k ≤ s.k + 1 := by
  unfold add; dsimp only
  split
  · exact Nat.le_succ _
  · split
    · exact Nat.le_refl _
    · exact Nat.le_succ _

/-- `k` changes exactly when a halving pass ran -/
theorem add_k_eq (ko : Bool) (s : St) (v : Nat) (ws ord : List Nat) :
    (add ko s v ws ord).1.k = if (add ko s v ws ord).2.halved then s.k + 1 else s.k := by
  unfold add; dsimp only
  split
  · rfl
  · split <;> rfl

/-- the threshold never underflows: once `p = 0` (`k = 64`) every `Add` takes the drop branch -/
theorem add_k_le_64 (ko : Bool) (s : St) (v : Nat) (ws ord : List Nat) (h : s.k ≤ 64) :
    (add ko s v ws ord).1.k ≤ 64 := by
  unfold add; dsimp only
  split
  · exact h
  · rename_i hc
    split
    · by_cases h64 : s.k = 64
      · exfalso; apply hc
        rw [h64, pOf_ge64 64 (Nat.le_refl _)]
        exact ⟨by decide, Nat.zero_le _⟩
      · show s.k + 1 ≤ 64
        omega
    · exact h

/-- exact regime: at `k = 0` no word is drawn and the value is simply inserted, as long as the buffer stays
    below the size -/
theorem add_exact (ko : Bool) (s : St) (v : Nat) (ws ord : List Nat) (hk : s.k = 0)
    (hl : (ins v s.buf).length < s.cap) :
    add ko s v ws ord = ({ s with buf := ins v s.buf }, {}) := by
  unfold add; dsimp only
  have hp : ¬ pOf s.k < maxU64 := by rw [hk, pOf_zero]; exact Nat.lt_irrefl _
  rw [if_neg (fun h => hp h.1), if_neg (Nat.not_le.mpr hl)]
  simp [hp]

theorem add_len_bound (ko : Bool) (s : St) (v : Nat) (ws ord : List Nat) (hl : s.buf.length ≤ s.cap) :
    (add ko s v ws ord).1.buf.length ≤ s.cap ∨
      ((add ko s v ws ord).2.halved = true ∧ (add ko s v ws ord).2.keptAll = true) := by
  unfold add; dsimp only
  split
  · left
    exact Nat.le_trans (List.length_erase_le) hl
  · split
    · by_cases hk : (halve ko (if ord.isPerm (ins v s.buf) then ord else ins v s.buf) 0 0
          (ws.drop (if pOf s.k < maxU64 then 1 else 0))).1.length = (ins v s.buf).length
      · right; exact ⟨rfl, by simp [hk]⟩
      · left
        have h1 := halve_length_le ko (if ord.isPerm (ins v s.buf) then ord else ins v s.buf) 0 0
          (ws.drop (if pOf s.k < maxU64 then 1 else 0))
        have h2 := (order_perm ord (ins v s.buf)).length_eq
        have h3 := ins_length_le v s.buf
        show (halve ko _ 0 0 _).1.length ≤ s.cap
        omega
    · left
      rename_i h
      show (ins v s.buf).length ≤ s.cap
      omega

theorem add_nodup (ko : Bool) (s : St) (v : Nat) (ws ord : List Nat) (h : s.buf.Nodup) :
    (add ko s v ws ord).1.buf.Nodup := by
  unfold add; dsimp only
  split
  · exact h.erase v
  · split
    · exact (halve_sublist ko _ 0 0 _).nodup
        ((order_perm ord (ins v s.buf)).nodup_iff.mpr (ins_nodup h))
    · exact ins_nodup h

/-- whatever `Add` leaves in the buffer was in the buffer before or is the value just added -/
theorem add_mem (ko : Bool) (s : St) (v : Nat) (ws ord : List Nat) {x : Nat}
    (hx : x ∈ (add ko s v ws ord).1.buf) : x ∈ s.buf ∨ x = v := by
  unfold add at hx; dsimp only at hx
  split at hx
  · exact Or.inl (List.mem_of_mem_erase hx)
  · split at hx
    · have h1 := (halve_sublist ko _ 0 0 _).subset hx
      exact mem_ins.mp ((order_perm ord (ins v s.buf)).mem_iff.mp h1)
    · exact mem_ins.mp hx

/-! ### histories -/

/-- the values of the `Add`s of a history -/
def valsOf : List Op → List Nat
  | [] => []
  | .add v _ _ :: r => v :: valsOf r
  | .reset :: r => valsOf r

def allAdds : List Op → Prop
  | [] => True
  | .add _ _ _ :: r => allAdds r
  | .reset :: _ => False

/-- the distinct values of `b` followed by those of a stream, in order of first occurrence -/
def seenFrom (b : List Nat) (vs : List Nat) : List Nat := vs.foldl (fun acc v => ins v acc) b

theorem seenFrom_length_ge (vs : List Nat) : ∀ b, b.length ≤ (seenFrom b vs).length := by
  induction vs with
  | nil => intro b; exact Nat.le_refl _
  | cons v vs ih => intro b; exact Nat.le_trans (ins_length_ge v b) (ih (ins v b))

theorem seenFrom_nodup (vs : List Nat) : ∀ b, b.Nodup → (seenFrom b vs).Nodup := by
  induction vs with
  | nil => intro b h; exact h
  | cons v vs ih => intro b h; exact ih (ins v b) (ins_nodup h)

theorem mem_seenFrom {x : Nat} (vs : List Nat) : ∀ b, x ∈ seenFrom b vs ↔ x ∈ b ∨ x ∈ vs := by
  induction vs with
  | nil => intro b; simp [seenFrom]
  | cons v vs ih =>
    intro b
    show x ∈ seenFrom (ins v b) vs ↔ _
    rw [ih (ins v b), mem_ins, List.mem_cons]
    constructor
    · rintro ((h | h) | h)
      · exact Or.inl h
      · exact Or.inr (Or.inl h)
      · exact Or.inr (Or.inr h)
    · rintro (h | h | h)
      · exact Or.inl (Or.inl h)
      · exact Or.inl (Or.inr h)
      · exact Or.inr h

/-- exact regime over a whole history of `Add`s from a state with `k = 0` -/
theorem run_exact (ko : Bool) : ∀ (ops : List Op) (s : St), allAdds ops → s.k = 0 →
    (seenFrom s.buf (valsOf ops)).length < s.cap →
    run ko s ops = { s with buf := seenFrom s.buf (valsOf ops) } ∧
    ∀ o ∈ outs ko s ops, o.2 = {} ∧ o.1.k = 0 := by
  intro ops
  induction ops with
  | nil => intro s _ _ _; exact ⟨rfl, by simp [outs]⟩
  | cons op ops ih =>
    intro s ha hk hl
    cases op with
    | reset => exact absurd ha (by simp [allAdds])
    | add v ws ord =>
      have hl' : (ins v s.buf).length < s.cap :=
        Nat.lt_of_le_of_lt (seenFrom_length_ge (valsOf ops) (ins v s.buf)) hl
      have hstep : step ko s (.add v ws ord) = ({ s with buf := ins v s.buf }, {}) :=
        add_exact ko s v ws ord hk hl'
      have := ih { s with buf := ins v s.buf } ha hk hl
      simp only [run, outs, hstep]
      refine ⟨this.1, ?_⟩
      intro o ho
      rcases List.mem_cons.mp ho with rfl | ho
      · exact ⟨rfl, hk⟩
      · exact this.2 o ho

theorem step_cap (ko : Bool) (s : St) (op : Op) : (step ko s op).1.cap = s.cap := by
  cases op with
  | add v ws ord => exact add_cap ko s v ws ord
  | reset => rfl

/-- `Len ≤ size` along a history, as long as no halving pass keeps every element -/
theorem run_len_bound (ko : Bool) : ∀ (ops : List Op) (s : St), s.buf.length ≤ s.cap →
    (∀ o ∈ outs ko s ops, o.2.keptAll = false) → ∀ o ∈ outs ko s ops, o.1.buf.length ≤ s.cap := by
  intro ops
  induction ops with
  | nil => intro s _ _ o ho; simp [outs] at ho
  | cons op ops ih =>
    intro s hl hk o ho
    simp only [outs] at ho hk
    have h1 : (step ko s op).1.buf.length ≤ s.cap := by
      cases op with
      | reset => simp [step, St.reset]
      | add v ws ord =>
        rcases add_len_bound ko s v ws ord hl with h | ⟨_, h⟩
        · exact h
        · have := hk (step ko s (.add v ws ord)) (List.mem_cons_self)
          simp only [step] at this
          rw [this] at h; cases h
    rcases List.mem_cons.mp ho with rfl | ho
    · exact h1
    · have hc := step_cap ko s op
      have := ih (step ko s op).1 (by rw [hc]; exact h1)
        (fun o ho => hk o (List.mem_cons_of_mem _ ho)) o ho
      rw [hc] at this; exact this

/-- `k ≤ 64` along every history from a fresh counter -/
theorem run_k_le_64 (ko : Bool) : ∀ (ops : List Op) (s : St), s.k ≤ 64 → (run ko s ops).k ≤ 64 := by
  intro ops
  induction ops with
  | nil => intro s h; exact h
  | cons op ops ih =>
    intro s h
    apply ih
    cases op with
    | reset => simp [step, St.reset]
    | add v ws ord => exact add_k_le_64 ko s v ws ord h

/-! ## unconditional bounds on `Len` (audit item 6)

`Add` either drops (never longer), or inserts (one longer) and then — if the capacity test fires —
runs ONE halving pass and raises `k`; otherwise the buffer is below the capacity.  So the excess of
`Len` over the size is at most the number of halving passes since construction/`Reset` (= `k`), more
precisely at most the number of those passes that kept every element. -/

/-- one `Add`: the excess over the capacity grows by at most one, and only in a pass that kept everything -/
theorem add_len_excess (ko : Bool) (s : St) (v : Nat) (ws ord : List Nat) (j : Nat)
    (hl : s.buf.length ≤ s.cap + j) :
    (add ko s v ws ord).1.buf.length ≤ s.cap + j + (if (add ko s v ws ord).2.keptAll then 1 else 0) := by
  unfold add; dsimp only
  split
  · have := List.length_erase_le (a := v) (l := s.buf)
    simp only [Bool.false_eq_true, if_false]; omega
  · split
    · have h1 := halve_length_le ko (if ord.isPerm (ins v s.buf) then ord else ins v s.buf) 0 0
        (ws.drop (if pOf s.k < maxU64 then 1 else 0))
      have h2 := (order_perm ord (ins v s.buf)).length_eq
      have h3 := ins_length_le v s.buf
      by_cases hk : (halve ko (if ord.isPerm (ins v s.buf) then ord else ins v s.buf) 0 0
          (ws.drop (if pOf s.k < maxU64 then 1 else 0))).1.length = (ins v s.buf).length
      · simp only [hk, beq_self_eq_true, if_true]; omega
      · have : ((halve ko (if ord.isPerm (ins v s.buf) then ord else ins v s.buf) 0 0
            (ws.drop (if pOf s.k < maxU64 then 1 else 0))).1.length == (ins v s.buf).length) = false := by
          simpa using hk
        simp only [this, Bool.false_eq_true, if_false]
        show (halve ko _ 0 0 _).1.length ≤ _
        omega
    · rename_i h
      simp only [Bool.false_eq_true, if_false]
      show (ins v s.buf).length ≤ _
      omega

/-- one `Add`: `Len ≤ cap + k` is preserved -/
theorem add_len_le_k (ko : Bool) (s : St) (v : Nat) (ws ord : List Nat) (hl : s.buf.length ≤ s.cap + s.k) :
    (add ko s v ws ord).1.buf.length ≤ s.cap + (add ko s v ws ord).1.k := by
  have h := add_len_excess ko s v ws ord s.k hl
  have hk := add_k_eq ko s v ws ord
  have hka : (add ko s v ws ord).2.keptAll = true → (add ko s v ws ord).2.halved = true := by
    unfold add; dsimp only
    split
    · simp
    · split <;> simp
  by_cases hh : (add ko s v ws ord).2.halved = true
  · rw [hk, if_pos hh]; split at h <;> omega
  · have : (add ko s v ws ord).2.keptAll = false := by
      cases hc : (add ko s v ws ord).2.keptAll
      · rfl
      · exact absurd (hka hc) hh
    rw [this] at h
    rw [hk, if_neg hh]; simpa using h

/-- number of halving passes of a history that kept every element -/
def keptAllCount (l : List (St × Out)) : Nat := (l.filter (fun o => o.2.keptAll)).length

theorem run_len_excess (ko : Bool) : ∀ (ops : List Op) (s : St) (j : Nat), s.buf.length ≤ s.cap + j →
    (run ko s ops).buf.length ≤ s.cap + j + keptAllCount (outs ko s ops) := by
  intro ops
  induction ops with
  | nil => intro s j h; simpa [run, outs, keptAllCount] using h
  | cons op ops ih =>
    intro s j h
    have hc := step_cap ko s op
    have hstep : (step ko s op).1.buf.length ≤ s.cap + j + (if (step ko s op).2.keptAll then 1 else 0) := by
      cases op with
      | reset => simp [step, St.reset]
      | add v ws ord => exact add_len_excess ko s v ws ord j h
    have := ih (step ko s op).1 (j + (if (step ko s op).2.keptAll then 1 else 0)) (by rw [hc]; omega)
    rw [hc] at this
    simp only [run, outs, keptAllCount, List.filter_cons] at this ⊢
    split
    · rename_i hk; rw [hk] at this; simp only [if_true, List.length_cons] at this ⊢
      omega
    · rename_i hk
      have hk' : (step ko s op).2.keptAll = false := by simpa using hk
      rw [hk'] at this; simp only [Bool.false_eq_true, if_false] at this
      omega

theorem run_len_le_k (ko : Bool) : ∀ (ops : List Op) (s : St), s.buf.length ≤ s.cap + s.k →
    (run ko s ops).buf.length ≤ s.cap + (run ko s ops).k := by
  intro ops
  induction ops with
  | nil => intro s h; exact h
  | cons op ops ih =>
    intro s h
    have hc := step_cap ko s op
    have := ih (step ko s op).1 (by
      rw [hc]
      cases op with
      | reset => simp [step, St.reset]
      | add v ws ord => exact add_len_le_k ko s v ws ord h)
    rw [hc] at this
    exact this

end MdsVerif.Proofs.Distinct
