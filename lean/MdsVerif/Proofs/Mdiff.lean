import MdsVerif.Spec.Mdiff
import MdsVerif.Spec.EditScript
/-!
# Lemmas about the mdiff model: `New`, `AddContext`, `UnifyChunks` (property C13)
-/
namespace MdsVerif.Proofs.Mdiff
open MdsVerif.Model.Edit MdsVerif.Model.Mdiff MdsVerif.Spec.Mdiff MdsVerif.Spec

variable {α : Type}

/-! ## spans -/

theorem span_self (l : List α) (s : Nat) : span l s s = [] := by simp [span]

theorem span_append (l : List α) {a b c : Nat} (h1 : 1 ≤ a) (h2 : a ≤ b) (h3 : b ≤ c) :
    span l a b ++ span l b c = span l a c := by
  unfold span
  have e1 : c - a = (b - a) + (c - b) := by omega
  rw [e1, List.take_add, List.drop_drop]
  have e2 : a - 1 + (b - a) = b - 1 := by omega
  rw [e2]

theorem span_drop (l : List α) {a b : Nat} (h1 : 1 ≤ a) (h2 : a ≤ b) :
    span l a b ++ l.drop (b - 1) = l.drop (a - 1) := by
  unfold span
  have e2 : b - 1 = (a - 1) + (b - a) := by omega
  rw [e2, ← List.drop_drop, List.take_append_drop]

theorem length_span (l : List α) {a b : Nat} (h1 : 1 ≤ a) (h3 : b ≤ l.length + 1) :
    (span l a b).length = b - a := by
  unfold span
  rw [List.length_take, List.length_drop]; omega

theorem span_to_end (l : List α) (a : Nat) : span l a (l.length + 1) = l.drop (a - 1) := by
  unfold span
  apply List.take_of_length_le
  rw [List.length_drop]; omega

theorem span_of_isSpan {l : List α} {i : Nat} {X : List α} (h : EditScript.IsSpan l i X) :
    span l (i + 1) (i + 1 + X.length) = X := by
  obtain ⟨t, ht⟩ := h
  unfold span
  have : i + 1 + X.length - (i + 1) = X.length := by omega
  rw [this, Nat.add_sub_cancel, ← ht, List.take_left]

theorem validFrom_le {L R : List α} : ∀ (es : List (Edit α)) (i j : Nat),
    EditScript.ValidFrom L R es i j → i ≤ L.length ∧ j ≤ R.length
  | [], i, j, h => by simp only [EditScript.ValidFrom] at h; omega
  | e :: es, i, j, h => by
    simp only [EditScript.ValidFrom] at h
    split at h
    · have := validFrom_le es _ _ h.2.2; omega
    · have := validFrom_le es _ _ h.2.2.2; omega
    · have := validFrom_le es _ _ h.2.2; omega
    · have := validFrom_le es _ _ h.2.2; omega


/-! ## consumed / produced -/

theorem consumed_append (a b : List (Edit α)) : consumed (a ++ b) = consumed a ++ consumed b := by
  simp [consumed]
theorem produced_append (a b : List (Edit α)) : produced (a ++ b) = produced a ++ produced b := by
  simp [produced]
theorem consumed_single (e : Edit α) : consumed [e] = consumedOf e := by simp [consumed]
theorem produced_single (e : Edit α) : produced [e] = producedOf e := by simp [produced]
theorem consumed_nil : consumed ([] : List (Edit α)) = [] := rfl
theorem produced_nil : produced ([] : List (Edit α)) = [] := rfl

/-! ## equal gaps, alignment, patch -/

/-- `L[a, c) = R[b, d)`, same length -/
def GapEq (L R : List α) (a b c d : Nat) : Prop :=
  a ≤ c ∧ b ≤ d ∧ c - a = d - b ∧ span L a c = span R b d

theorem GapEq.refl (L R : List α) (a b : Nat) : GapEq L R a b a b :=
  ⟨Nat.le_refl _, Nat.le_refl _, by omega, by rw [span_self, span_self]⟩

theorem GapEq.trans {L R : List α} {a b c d e f : Nat} (ha : 1 ≤ a) (hb : 1 ≤ b)
    (h1 : GapEq L R a b c d) (h2 : GapEq L R c d e f) : GapEq L R a b e f := by
  obtain ⟨p1, p2, p3, p4⟩ := h1
  obtain ⟨q1, q2, q3, q4⟩ := h2
  refine ⟨by omega, by omega, by omega, ?_⟩
  rw [← span_append L ha p1 q1, ← span_append R hb p2 q2, p4, q4]

/-- the gap before every chunk is the same text in `L` and `R`, and so is the tail after the
last chunk; `(lp, rp)` is the position after the previous chunk -/
def Aligned (L R : List α) : Nat → Nat → List (Chunk α) → Prop
  | lp, rp, [] => L.drop (lp - 1) = R.drop (rp - 1)
  | lp, rp, c :: cs => GapEq L R lp rp c.lstart c.rstart ∧ Aligned L R c.lend c.rend cs

theorem patchFrom_of_aligned {L R : List α} : ∀ (cs : List (Chunk α)) (lp rp : Nat),
    1 ≤ lp → 1 ≤ rp → AllOK cs L R → Aligned L R lp rp cs → patchFrom L lp cs = R.drop (rp - 1)
  | [], lp, rp, _, _, _, h => h
  | c :: cs, lp, rp, h1, h2, hok, h => by
    obtain ⟨⟨g1, g2, g3, g4⟩, hal⟩ := h
    have hc := hok c (List.mem_cons_self ..)
    have ih := patchFrom_of_aligned cs c.lend c.rend (by have := hc.l1; have := hc.l2; omega)
      (by have := hc.r1; have := hc.r2; omega) (fun d hd => hok d (List.mem_cons_of_mem _ hd)) hal
    simp only [patchFrom]
    rw [ih, g4, hc.prod, List.append_assoc, span_drop R hc.r1 hc.r2, span_drop R h2 g2]

theorem patch_of_aligned {L R : List α} {cs : List (Chunk α)} (hok : AllOK cs L R)
    (h : Aligned L R 1 1 cs) : patch L cs = R :=
  patchFrom_of_aligned cs 1 1 (Nat.le_refl _) (Nat.le_refl _) hok h


theorem gapEq_end {L R : List α} {a b : Nat} (h : GapEq L R a b (L.length + 1) (R.length + 1)) :
    L.drop (a - 1) = R.drop (b - 1) := by
  have := h.2.2.2
  rwa [span_to_end, span_to_end] at this

/-! ## New -/

/-- the last two lines of `New` -/
def finish (r : List (Chunk α) × Chunk α) : List (Chunk α) :=
  if r.2.lend = r.2.lstart ∧ r.2.rend = r.2.rstart then r.1 else r.1 ++ [r.2]

theorem newChunks_eq (es : List (Edit α)) :
    newChunks es = finish (newLoop es [] ⟨[], 1, 1, 1, 1⟩ 1 1) := rfl

theorem startChunk_prefix (done : List (Chunk α)) (cur : Chunk α) (lcur rcur : Nat) :
    startChunk done cur lcur rcur =
      (done ++ (startChunk [] cur lcur rcur).1, (startChunk [] cur lcur rcur).2) := by
  unfold startChunk
  split
  · split <;> simp
  · simp

theorem newLoop_prefix : ∀ (es : List (Edit α)) (done : List (Chunk α)) (cur : Chunk α)
    (lcur rcur : Nat), newLoop es done cur lcur rcur =
      (done ++ (newLoop es [] cur lcur rcur).1, (newLoop es [] cur lcur rcur).2)
  | [], done, cur, lcur, rcur => by simp [newLoop]
  | e :: es, done, cur, lcur, rcur => by
    rw [newLoop, newLoop, startChunk_prefix done]
    generalize (startChunk [] cur lcur rcur).1 = d
    generalize (startChunk [] cur lcur rcur).2 = c
    cases e.op <;> simp only <;> rw [newLoop_prefix es (done ++ d), newLoop_prefix es d] <;>
      simp

theorem finish_prefix (d : List (Chunk α)) (r : List (Chunk α) × Chunk α) :
    finish (d ++ r.1, r.2) = d ++ finish r := by
  unfold finish; split <;> simp

/-- state of the loop of `New`: `(pl, pr)` is the end of the previous chunk -/
structure Inv (L R : List α) (pl pr : Nat) (cur : Chunk α) (lcur rcur : Nat) : Prop where
  pl1 : 1 ≤ pl
  pr1 : 1 ≤ pr
  ok : ChunkOK cur L R
  gap : GapEq L R pl pr cur.lstart cur.rstart
  emitted : GapEq L R cur.lend cur.rend lcur rcur
  bl : lcur ≤ L.length + 1
  br : rcur ≤ R.length + 1
  noemit : ∀ e ∈ cur.edits, e.op ≠ .emit

/-- what the loop of `New` delivers from a state on -/
structure Res (L R : List α) (pl pr ls rs : Nat) (out : List (Chunk α)) : Prop where
  ok : AllOK out L R
  asc : Ascending out
  na : NonAdjacent out
  al : Aligned L R pl pr out
  noemit : ∀ c ∈ out, ∀ e ∈ c.edits, e.op ≠ .emit
  nonempty : ∀ c ∈ out, c.lstart < c.lend ∨ c.rstart < c.rend
  head : ∀ h ∈ out.head?, ls ≤ h.lstart ∧ rs ≤ h.rstart

theorem startChunk_spec {L R : List α} {pl pr : Nat} {cur : Chunk α} {lcur rcur : Nat}
    (h : Inv L R pl pr cur lcur rcur) :
    ∃ d cur' pl' pr', startChunk [] cur lcur rcur = (d, cur') ∧ Inv L R pl' pr' cur' lcur rcur ∧
      cur'.lend = lcur ∧ cur'.rend = rcur ∧
      ((d = [] ∧ pl' = pl ∧ pr' = pr ∧ cur.lstart ≤ cur'.lstart ∧ cur.rstart ≤ cur'.rstart) ∨
       (d = [cur] ∧ pl' = cur.lend ∧ pr' = cur.rend ∧
         (cur.lstart < cur.lend ∨ cur.rstart < cur.rend) ∧
         cur.lend < cur'.lstart ∧ cur.rend < cur'.rstart)) := by
  obtain ⟨e1, e2, e3, e4⟩ := h.emitted
  have hok := h.ok
  have o1 := hok.l1; have o2 := hok.l2; have o4 := hok.r1; have o5 := hok.r2
  unfold startChunk
  by_cases hg : lcur > cur.lend ∨ rcur > cur.rend
  · rw [if_pos hg]
    by_cases hn : cur.lend ≠ cur.lstart ∨ cur.rend ≠ cur.rstart
    · rw [if_pos hn]
      refine ⟨_, _, cur.lend, cur.rend, rfl, ?_, rfl, rfl, Or.inr ⟨rfl, rfl, rfl, by omega, ?_, ?_⟩⟩
      · exact ⟨by omega, by omega,
          ⟨by show 1 ≤ lcur; omega, Nat.le_refl _, h.bl, by show 1 ≤ rcur; omega, Nat.le_refl _, h.br,
            by show consumed [] = span L lcur lcur; rw [span_self]; rfl,
            by show produced [] = span R rcur rcur; rw [span_self]; rfl⟩,
          h.emitted, GapEq.refl .., h.bl, h.br, by intro e he; cases he⟩
      · show cur.lend < lcur; omega
      · show cur.rend < rcur; omega
    · rw [if_neg hn]
      have hn1 : cur.lend = cur.lstart := by omega
      have hn2 : cur.rend = cur.rstart := by omega
      refine ⟨_, _, pl, pr, rfl, ?_, rfl, rfl, Or.inl ⟨rfl, rfl, rfl, ?_, ?_⟩⟩
      · refine ⟨h.pl1, h.pr1,
          ⟨by show 1 ≤ lcur; omega, Nat.le_refl _, h.bl, by show 1 ≤ rcur; omega, Nat.le_refl _, h.br,
            ?_, ?_⟩, ?_, GapEq.refl .., h.bl, h.br, h.noemit⟩
        · show consumed cur.edits = span L lcur lcur
          rw [span_self, hok.cons, hn1, span_self]
        · show produced cur.edits = span R rcur rcur
          rw [span_self, hok.prod, hn2, span_self]
        · show GapEq L R pl pr lcur rcur
          have := h.emitted
          rw [hn1, hn2] at this
          exact GapEq.trans h.pl1 h.pr1 h.gap this
      · show cur.lstart ≤ lcur; omega
      · show cur.rstart ≤ rcur; omega
  · rw [if_neg hg]
    exact ⟨_, _, pl, pr, rfl, h, by omega, by omega, Or.inl ⟨rfl, rfl, rfl, Nat.le_refl _, Nat.le_refl _⟩⟩


theorem inv_push {L R : List α} {pl pr : Nat} {cur c2 : Chunk α} {lcur rcur : Nat} (e : Edit α)
    (h : Inv L R pl pr cur lcur rcur) (hl : cur.lend = lcur) (hr : cur.rend = rcur)
    (hop : e.op ≠ .emit)
    (hx : span L lcur (lcur + (consumedOf e).length) = consumedOf e)
    (hy : span R rcur (rcur + (producedOf e).length) = producedOf e)
    (bl : lcur + (consumedOf e).length ≤ L.length + 1)
    (br : rcur + (producedOf e).length ≤ R.length + 1)
    (c1 : c2.edits = cur.edits ++ [e]) (c3 : c2.lstart = cur.lstart) (c4 : c2.rstart = cur.rstart)
    (c5 : c2.lend = cur.lend + (consumedOf e).length)
    (c6 : c2.rend = cur.rend + (producedOf e).length) :
    Inv L R pl pr c2 (lcur + (consumedOf e).length) (rcur + (producedOf e).length) := by
  have hok := h.ok
  have o1 := hok.l1; have o2 := hok.l2; have o4 := hok.r1; have o5 := hok.r2
  refine ⟨h.pl1, h.pr1, ⟨by omega, by omega, by omega, by omega, by omega, by omega, ?_, ?_⟩, ?_, ?_,
    bl, br, ?_⟩
  · rw [c1, consumed_append, consumed_single, hok.cons, c3, c5,
      ← span_append L o1 o2 (Nat.le_add_right _ _), hl, hx]
  · rw [c1, produced_append, produced_single, hok.prod, c4, c6,
      ← span_append R o4 o5 (Nat.le_add_right _ _), hr, hy]
  · rw [c3, c4]; exact h.gap
  · rw [c5, c6, hl, hr]; exact GapEq.refl ..
  · intro e' he'
    rw [c1] at he'
    rcases List.mem_append.1 he' with h1 | h1
    · exact h.noemit e' h1
    · rw [List.mem_singleton.1 h1]; exact hop

theorem res_cons {L R : List α} {pl pr : Nat} {cur : Chunk α} {lcur rcur : Nat}
    (h : Inv L R pl pr cur lcur rcur) {ls rs : Nat} {out : List (Chunk α)}
    (hne : cur.lstart < cur.lend ∨ cur.rstart < cur.rend)
    (hl : cur.lend < ls) (hr : cur.rend < rs)
    (hres : Res L R cur.lend cur.rend ls rs out) :
    Res L R pl pr cur.lstart cur.rstart (cur :: out) := by
  refine ⟨?_, ?_, ?_, ⟨h.gap, hres.al⟩, ?_, ?_, ?_⟩
  · intro c hc
    rcases List.mem_cons.1 hc with rfl | hc
    · exact h.ok
    · exact hres.ok c hc
  · cases out with
    | nil => trivial
    | cons d out =>
      have := hres.head d rfl
      exact ⟨by omega, by omega, hres.asc⟩
  · cases out with
    | nil => trivial
    | cons d out =>
      have := hres.head d rfl
      exact ⟨by omega, hres.na⟩
  · intro c hc
    rcases List.mem_cons.1 hc with rfl | hc
    · exact h.noemit
    · exact hres.noemit c hc
  · intro c hc
    rcases List.mem_cons.1 hc with rfl | hc
    · exact hne
    · exact hres.nonempty c hc
  · intro x hx
    simp only [List.head?_cons, Option.mem_def, Option.some.injEq] at hx
    subst hx
    exact ⟨Nat.le_refl _, Nat.le_refl _⟩

theorem Res.mono {L R : List α} {pl pr ls rs ls' rs' : Nat} {out : List (Chunk α)}
    (h : Res L R pl pr ls rs out) (h1 : ls' ≤ ls) (h2 : rs' ≤ rs) : Res L R pl pr ls' rs' out :=
  ⟨h.ok, h.asc, h.na, h.al, h.noemit, h.nonempty, fun x hx => by have := h.head x hx; omega⟩

theorem newLoop_res {L R : List α} : ∀ (es : List (Edit α)) (cur : Chunk α) (lcur rcur pl pr : Nat),
    Inv L R pl pr cur lcur rcur → EditScript.ValidFrom L R es (lcur - 1) (rcur - 1) →
    Res L R pl pr cur.lstart cur.rstart (finish (newLoop es [] cur lcur rcur))
  | [], cur, lcur, rcur, pl, pr, h, hv => by
    simp only [EditScript.ValidFrom] at hv
    have hok := h.ok
    have o1 := hok.l1; have o2 := hok.l2; have o4 := hok.r1; have o5 := hok.r2
    obtain ⟨e1, e2, e3, e4⟩ := h.emitted
    have hl : lcur = L.length + 1 := by omega
    have hr : rcur = R.length + 1 := by omega
    have hem := h.emitted
    rw [hl, hr] at hem
    have hnl : newLoop [] [] cur lcur rcur = ([], cur) := rfl
    rw [hnl]
    show Res L R pl pr cur.lstart cur.rstart
      (if cur.lend = cur.lstart ∧ cur.rend = cur.rstart then [] else [] ++ [cur])
    by_cases hn : cur.lend = cur.lstart ∧ cur.rend = cur.rstart
    · rw [if_pos hn]
      have hg := h.gap
      rw [← hn.1, ← hn.2] at hg
      refine ⟨(by intro c hc; cases hc), trivial, trivial,
        gapEq_end (GapEq.trans h.pl1 h.pr1 hg hem), (by intro c hc; cases hc),
        (by intro c hc; cases hc), (by intro x hx; cases hx)⟩
    · rw [if_neg hn]
      refine ⟨?_, trivial, trivial, ⟨h.gap, gapEq_end hem⟩, ?_, ?_, ?_⟩
      · intro c hc
        have hc : c = cur := by simpa using hc
        rw [hc]; exact hok
      · intro c hc
        have hc : c = cur := by simpa using hc
        rw [hc]; exact h.noemit
      · intro c hc
        have hc : c = cur := by simpa using hc
        rw [hc]; omega
      · intro x hx
        simp only [List.nil_append, List.head?_cons, Option.mem_def, Option.some.injEq] at hx
        subst hx; exact ⟨Nat.le_refl _, Nat.le_refl _⟩
  | e :: es, cur, lcur, rcur, pl, pr, h, hv => by
    obtain ⟨d, cur', pl', pr', hsc, hinv, hl, hr, hcases⟩ := startChunk_spec h
    have hok := h.ok
    have o1 := hok.l1; have o2 := hok.l2; have o4 := hok.r1; have o5 := hok.r2
    have hlc : 1 ≤ lcur := by have := h.emitted.1; omega
    have hrc : 1 ≤ rcur := by have := h.emitted.2.1; omega
    -- finishing argument, common to the four kinds of edit
    have key : ∀ (c2 : Chunk α) (l2 r2 : Nat), c2.lstart = cur'.lstart → c2.rstart = cur'.rstart →
        Inv L R pl' pr' c2 l2 r2 → EditScript.ValidFrom L R es (l2 - 1) (r2 - 1) →
        Res L R pl pr cur.lstart cur.rstart (finish (newLoop es d c2 l2 r2)) := by
      intro c2 l2 r2 hs1 hs2 hinv2 hv2
      have ih := newLoop_res es c2 l2 r2 pl' pr' hinv2 hv2
      rw [newLoop_prefix, finish_prefix]
      rcases hcases with ⟨rfl, rfl, rfl, q1, q2⟩ | ⟨rfl, rfl, rfl, q0, q1, q2⟩
      · exact ih.mono (by omega) (by omega)
      · exact res_cons h q0 (by omega) (by omega) ih
    rw [newLoop, hsc]
    simp only [EditScript.ValidFrom] at hv
    cases hop : e.op <;> simp only [hop] at hv ⊢
    · -- drop
      obtain ⟨hx, hy, hv⟩ := hv
      have hb := validFrom_le _ _ _ hv
      have hx' := span_of_isSpan hx
      have e1 : lcur - 1 + 1 = lcur := by omega
      rw [e1] at hx'
      have hc : consumedOf e = e.X := by simp [consumedOf, hop]
      have hp : producedOf e = [] := by simp [producedOf, hop]
      have := inv_push (c2 := { cur' with lend := cur'.lend + e.X.length, edits := cur'.edits ++ [e] })
        e hinv hl hr (by rw [hop]; exact fun h => nomatch h) (by rw [hc]; exact hx')
        (by rw [hp]; exact span_self ..) (by rw [hc]; omega) (by rw [hp]; exact h.br)
        rfl rfl rfl (by rw [hc]) (by rw [hp]; rfl)
      rw [hc, hp] at this
      exact key _ _ _ rfl rfl this (by
        have e2 : lcur + e.X.length - 1 = lcur - 1 + e.X.length := by omega
        rw [e2]; exact hv)
    · -- emit
      obtain ⟨hx, hy, hy0, hv⟩ := hv
      have hb := validFrom_le _ _ _ hv
      have hx' := span_of_isSpan hx
      have hy' := span_of_isSpan hy
      have e1 : lcur - 1 + 1 = lcur := by omega
      have e1' : rcur - 1 + 1 = rcur := by omega
      rw [e1] at hx'; rw [e1'] at hy'
      refine key cur' _ _ rfl rfl ⟨hinv.pl1, hinv.pr1, hinv.ok, hinv.gap, ?_, by omega, by omega,
        hinv.noemit⟩ (by
        have e2 : lcur + e.X.length - 1 = lcur - 1 + e.X.length := by omega
        have e3 : rcur + e.X.length - 1 = rcur - 1 + e.X.length := by omega
        rw [e2, e3]; exact hv)
      rw [hl, hr]
      exact ⟨by omega, by omega, by omega, by rw [hx', hy']⟩
    · -- copy
      obtain ⟨hx, hy, hv⟩ := hv
      have hb := validFrom_le _ _ _ hv
      have hy' := span_of_isSpan hy
      have e1 : rcur - 1 + 1 = rcur := by omega
      rw [e1] at hy'
      have hc : consumedOf e = [] := by simp [consumedOf, hop]
      have hp : producedOf e = e.Y := by simp [producedOf, hop]
      have := inv_push (c2 := { cur' with rend := cur'.rend + e.Y.length, edits := cur'.edits ++ [e] })
        e hinv hl hr (by rw [hop]; exact fun h => nomatch h) (by rw [hc]; exact span_self ..)
        (by rw [hp]; exact hy') (by rw [hc]; exact h.bl) (by rw [hp]; omega)
        rfl rfl rfl (by rw [hc]; rfl) (by rw [hp])
      rw [hc, hp] at this
      exact key _ _ _ rfl rfl this (by
        have e2 : rcur + e.Y.length - 1 = rcur - 1 + e.Y.length := by omega
        rw [e2]; exact hv)
    · -- replace
      obtain ⟨hx, hy, hv⟩ := hv
      have hb := validFrom_le _ _ _ hv
      have hx' := span_of_isSpan hx
      have hy' := span_of_isSpan hy
      have e1 : lcur - 1 + 1 = lcur := by omega
      have e1' : rcur - 1 + 1 = rcur := by omega
      rw [e1] at hx'; rw [e1'] at hy'
      have hc : consumedOf e = e.X := by simp [consumedOf, hop]
      have hp : producedOf e = e.Y := by simp [producedOf, hop]
      have := inv_push
        (c2 := ⟨cur'.edits ++ [e], cur'.lstart, cur'.lend + e.X.length, cur'.rstart, cur'.rend + e.Y.length⟩)
        e hinv hl hr (by rw [hop]; exact fun h => nomatch h) (by rw [hc]; exact hx')
        (by rw [hp]; exact hy') (by rw [hc]; omega) (by rw [hp]; omega)
        rfl rfl rfl (by rw [hc]) (by rw [hp])
      rw [hc, hp] at this
      exact key _ _ _ rfl rfl this (by
        have e2 : lcur + e.X.length - 1 = lcur - 1 + e.X.length := by omega
        have e3 : rcur + e.Y.length - 1 = rcur - 1 + e.Y.length := by omega
        rw [e2, e3]; exact hv)


theorem edits_ne_nil_of_range {L R : List α} {c : Chunk α} (hok : ChunkOK c L R)
    (h : c.lstart < c.lend ∨ c.rstart < c.rend) : c.edits ≠ [] := by
  intro he
  have h1 := congrArg List.length hok.cons
  have h2 := congrArg List.length hok.prod
  rw [he, consumed_nil, length_span L hok.l1 hok.l3] at h1
  rw [he, produced_nil, length_span R hok.r1 hok.r3] at h2
  simp only [List.length_nil] at h1 h2
  omega

theorem newChunks_res {L R : List α} (es : List (Edit α)) (h : EditScript.Valid es L R) :
    Res L R 1 1 1 1 (newChunks es) := by
  rcases h with ⟨rfl, rfl⟩ | ⟨_, hv⟩
  · show Res L L 1 1 1 1 []
    exact ⟨(by intro c hc; cases hc), trivial, trivial, rfl, (by intro c hc; cases hc),
      (by intro c hc; cases hc), (by intro x hx; cases hx)⟩
  · rw [newChunks_eq]
    refine newLoop_res es ⟨[], 1, 1, 1, 1⟩ 1 1 1 1 ?_ hv
    exact ⟨Nat.le_refl _, Nat.le_refl _,
      ⟨Nat.le_refl _, Nat.le_refl _, by show 1 ≤ L.length + 1; omega, Nat.le_refl _, Nat.le_refl _,
        by show 1 ≤ R.length + 1; omega, by show consumed [] = span L 1 1; rw [span_self]; rfl,
        by show produced [] = span R 1 1; rw [span_self]; rfl⟩,
      GapEq.refl .., GapEq.refl .., by omega, by omega, by intro e he; cases he⟩


/-! ## AddContext -/

theorem commonPrefix_spec [DecidableEq α] : ∀ (n : Nat) (a b : List α),
    (commonPrefix n a b).length ≤ n ∧ commonPrefix n a b <+: a ∧ commonPrefix n a b <+: b
  | 0, a, b => by simp [commonPrefix]
  | n + 1, [], b => by simp [commonPrefix]
  | n + 1, x :: a, [] => by simp [commonPrefix]
  | n + 1, x :: a, y :: b => by
    rw [commonPrefix]
    by_cases h : x = y
    · subst h
      obtain ⟨h1, h2, h3⟩ := commonPrefix_spec n a b
      simp only [if_true, List.length_cons, List.cons_prefix_cons, true_and]
      exact ⟨by omega, h2, h3⟩
    · simp [h]

/-- `[Emit p]` unless `p` is empty -/
def emitOpt (p : List α) : List (Edit α) := if p = [] then [] else [⟨.emit, p, []⟩]

theorem consumed_emitOpt (p : List α) : consumed (emitOpt p) = p := by
  unfold emitOpt; split
  · rename_i h; rw [h]; rfl
  · simp [consumed, consumedOf]
theorem produced_emitOpt (p : List α) : produced (emitOpt p) = p := by
  unfold emitOpt; split
  · rename_i h; rw [h]; rfl
  · simp [produced, producedOf]

theorem withCtx_eq (c : Chunk α) (pre post : List α) :
    withCtx c pre post = ⟨emitOpt pre ++ c.edits ++ emitOpt post, c.lstart - pre.length,
      c.lend + post.length, c.rstart - pre.length, c.rend + post.length⟩ := by
  cases pre <;> cases post <;> simp [withCtx, emitOpt]

/-- what `AddContext` guarantees about the context lines of one chunk -/
structure CtxFacts (L R : List α) (c : Chunk α) (pre post : List α) : Prop where
  prel : pre.length < c.lstart
  prer : pre.length < c.rstart
  preL : span L (c.lstart - pre.length) c.lstart = pre
  preR : span R (c.rstart - pre.length) c.rstart = pre
  postl : c.lend + post.length ≤ L.length + 1
  postr : c.rend + post.length ≤ R.length + 1
  postL : span L c.lend (c.lend + post.length) = post
  postR : span R c.rend (c.rend + post.length) = post

theorem span_of_suffix_take {l p : List α} {s : Nat} (hs : 1 ≤ s) (hl : s ≤ l.length + 1)
    (h : p <:+ l.take (s - 1)) : p.length < s ∧ span l (s - p.length) s = p := by
  obtain ⟨t, ht⟩ := h
  have hlen := congrArg List.length ht
  rw [List.length_append, List.length_take] at hlen
  have h1 : p.length < s := by omega
  refine ⟨h1, ?_⟩
  have hl2 : l = t ++ p ++ l.drop (s - 1) := by rw [ht, List.take_append_drop]
  unfold span
  have e1 : s - p.length - 1 = t.length := by omega
  have e2 : s - (s - p.length) = p.length := by omega
  rw [e1, e2]
  conv => lhs; rw [hl2]
  rw [List.append_assoc, List.drop_left, List.take_left]

theorem span_of_prefix_drop {l p : List α} {s : Nat} (hs : 1 ≤ s) (hl : s ≤ l.length + 1)
    (h : p <+: l.drop (s - 1)) : s + p.length ≤ l.length + 1 ∧ span l s (s + p.length) = p := by
  obtain ⟨t, ht⟩ := h
  have hlen := congrArg List.length ht
  rw [List.length_append, List.length_drop] at hlen
  refine ⟨by omega, ?_⟩
  unfold span
  have e2 : s + p.length - s = p.length := by omega
  rw [e2, ← ht, List.take_left]

theorem ctxFacts_of {L R : List α} {c : Chunk α} (hok : ChunkOK c L R) {pre post : List α}
    (h1 : pre <:+ L.take (c.lstart - 1)) (h2 : pre <:+ R.take (c.rstart - 1))
    (h3 : post <+: L.drop (c.lend - 1)) (h4 : post <+: R.drop (c.rend - 1)) :
    CtxFacts L R c pre post := by
  have o1 := hok.l1; have o2 := hok.l2; have o3 := hok.l3
  have o4 := hok.r1; have o5 := hok.r2; have o6 := hok.r3
  have a := span_of_suffix_take o1 (by omega) h1
  have b := span_of_suffix_take o4 (by omega) h2
  have c' := span_of_prefix_drop (by omega) o3 h3
  have d := span_of_prefix_drop (by omega) o6 h4
  exact ⟨a.1, b.1, a.2, b.2, c'.1, d.1, c'.2, d.2⟩

theorem withCtx_ok {L R : List α} {c : Chunk α} (hok : ChunkOK c L R) {pre post : List α}
    (h : CtxFacts L R c pre post) : ChunkOK (withCtx c pre post) L R := by
  have o1 := hok.l1; have o2 := hok.l2; have o3 := hok.l3
  have o4 := hok.r1; have o5 := hok.r2; have o6 := hok.r3
  have p1 := h.prel; have p2 := h.prer; have p3 := h.postl; have p4 := h.postr
  rw [withCtx_eq]
  refine ⟨by show 1 ≤ c.lstart - pre.length; omega, by show c.lstart - pre.length ≤ c.lend + post.length; omega,
    p3, by show 1 ≤ c.rstart - pre.length; omega, by show c.rstart - pre.length ≤ c.rend + post.length; omega,
    p4, ?_, ?_⟩
  · show consumed (emitOpt pre ++ c.edits ++ emitOpt post) =
      span L (c.lstart - pre.length) (c.lend + post.length)
    rw [consumed_append, consumed_append, consumed_emitOpt, consumed_emitOpt, hok.cons,
      ← span_append L (a := c.lstart - pre.length) (b := c.lend) (by omega) (by omega) (by omega),
      ← span_append L (a := c.lstart - pre.length) (b := c.lstart) (by omega) (by omega) o2,
      h.preL, h.postL]
  · show produced (emitOpt pre ++ c.edits ++ emitOpt post) =
      span R (c.rstart - pre.length) (c.rend + post.length)
    rw [produced_append, produced_append, produced_emitOpt, produced_emitOpt, hok.prod,
      ← span_append R (a := c.rstart - pre.length) (b := c.rend) (by omega) (by omega) (by omega),
      ← span_append R (a := c.rstart - pre.length) (b := c.rstart) (by omega) (by omega) o5,
      h.preR, h.postR]

theorem withCtx_isCtxOf (c : Chunk α) {pre post : List α} (h1 : pre.length ≤ c.lstart)
    (h2 : pre.length ≤ c.rstart) : IsCtxOf c (withCtx c pre post) pre post := by
  rw [withCtx_eq]
  refine ⟨rfl, ?_, ?_, rfl, rfl⟩
  · show c.lstart - pre.length + pre.length = c.lstart; omega
  · show c.rstart - pre.length + pre.length = c.rstart; omega


/-- the bound on the post-context: it ends before the next chunk (or the end of the input) -/
def PostBound (L : List α) (lend : Nat) (post : List α) : List (Chunk α) → Prop
  | [] => lend + post.length ≤ L.length + 1
  | d :: _ => post.length ≤ d.lstart - lend

/-- the result of the bounded `AddContext` loop, chunk by chunk; `p` is `prevEnd` -/
def CtxRel (L R : List α) (n : Nat) : Nat → List (Chunk α) → List (Chunk α) → Prop
  | _, [], [] => True
  | p, c :: cs, c' :: cs' => (∃ pre post, c' = withCtx c pre post ∧ CtxFacts L R c pre post ∧
      pre.length ≤ n ∧ post.length ≤ n ∧ pre.length ≤ c.lstart - p ∧ PostBound L c.lend post cs) ∧
      CtxRel L R n c.lend cs cs'
  | _, _, _ => False

theorem addCtxLoop_rel [DecidableEq α] {L R : List α} (n : Nat) : ∀ (cs : List (Chunk α)) (p : Nat),
    AllOK cs L R → ∃ cs', addCtxLoop true L R n p cs = some cs' ∧ CtxRel L R n p cs cs'
  | [], p, _ => ⟨[], rfl, trivial⟩
  | c :: cs, p, hok => by
    have hc := hok c (List.mem_cons_self ..)
    obtain ⟨cs', h1, h2⟩ := addCtxLoop_rel n cs c.lend (fun d hd => hok d (List.mem_cons_of_mem _ hd))
    have o1 := hc.l1; have o2 := hc.l2; have o3 := hc.l3
    have o4 := hc.r1; have o5 := hc.r2; have o6 := hc.r3
    obtain ⟨a1, a2, a3⟩ := commonPrefix_spec n (L.take (c.lstart - 1)).reverse (R.take (c.rstart - 1)).reverse
    obtain ⟨b1, b2, b3⟩ := commonPrefix_spec n (L.drop (c.lend - 1)) (R.drop (c.rend - 1))
    have hf : findContext? L R c n = some
        ((commonPrefix n (L.take (c.lstart - 1)).reverse (R.take (c.rstart - 1)).reverse).reverse,
          commonPrefix n (L.drop (c.lend - 1)) (R.drop (c.rend - 1))) := by
      unfold findContext? ctxPre? ctxPost
      rw [if_neg (by omega)]; rfl
    generalize hpre : (commonPrefix n (L.take (c.lstart - 1)).reverse (R.take (c.rstart - 1)).reverse).reverse = pre at hf
    generalize hpost : commonPrefix n (L.drop (c.lend - 1)) (R.drop (c.rend - 1)) = post at hf b1 b2 b3
    have s1 : pre <:+ L.take (c.lstart - 1) := by
      rw [← hpre, ← List.reverse_prefix, List.reverse_reverse]; exact a2
    have s2 : pre <:+ R.take (c.rstart - 1) := by
      rw [← hpre, ← List.reverse_prefix, List.reverse_reverse]; exact a3
    have s0 : pre.length ≤ n := by rw [← hpre, List.length_reverse]; exact a1
    rw [addCtxLoop.eq_def]; simp only [hf]
    simp only [if_true, h1, Option.map_some]
    refine ⟨_, rfl, ⟨_, _, rfl, ?_, ?_, ?_, ?_, ?_⟩, h2⟩
    · exact ctxFacts_of hc ((List.drop_suffix _ _).trans s1) ((List.drop_suffix _ _).trans s2)
        ((List.take_prefix _ _).trans b2) ((List.take_prefix _ _).trans b3)
    · rw [List.length_drop]; omega
    · rw [List.length_take]; omega
    · rw [List.length_drop]; omega
    · cases cs with
      | nil => simp only [PostBound, List.length_take]; omega
      | cons d cs => simp only [PostBound, List.length_take]; omega


theorem ctxFacts_nil {L R : List α} {c : Chunk α} (hok : ChunkOK c L R) : CtxFacts L R c [] [] := by
  have o1 := hok.l1; have o2 := hok.l2; have o3 := hok.l3
  have o4 := hok.r1; have o5 := hok.r2; have o6 := hok.r3
  exact ⟨o1, o4, span_self .., span_self .., o3, o6, span_self .., span_self ..⟩

theorem withCtx_nil (c : Chunk α) : withCtx c [] [] = c := rfl

theorem ctxRel_self {L R : List α} (n : Nat) : ∀ (cs : List (Chunk α)) (p : Nat), AllOK cs L R →
    CtxRel L R n p cs cs
  | [], _, _ => trivial
  | c :: cs, p, hok => by
    have hc := hok c (List.mem_cons_self ..)
    refine ⟨⟨[], [], rfl, ctxFacts_nil hc, Nat.zero_le _, Nat.zero_le _, Nat.zero_le _, ?_⟩,
      ctxRel_self n cs c.lend (fun d hd => hok d (List.mem_cons_of_mem _ hd))⟩
    cases cs with
    | nil => exact hc.l3
    | cons d cs => exact Nat.zero_le _

theorem addContext_rel [DecidableEq α] {L R : List α} (n : Nat) (cs : List (Chunk α))
    (hok : AllOK cs L R) :
    ∃ cs', addContextChunks L R n cs = some cs' ∧ CtxRel L R n 1 cs cs' := by
  unfold addContextChunks addContextWith
  by_cases h : n = 0 ∨ cs.length = 0
  · rw [if_pos h]; exact ⟨cs, rfl, ctxRel_self n cs 1 hok⟩
  · rw [if_neg h]; exact addCtxLoop_rel n cs 1 hok

theorem ctxRel_ok {L R : List α} {n : Nat} : ∀ (cs cs' : List (Chunk α)) (p : Nat),
    AllOK cs L R → CtxRel L R n p cs cs' → AllOK cs' L R ∧ AllCtxOf n cs cs'
  | [], [], _, _, _ => ⟨(by intro c hc; cases hc), trivial⟩
  | [], _ :: _, _, _, h => h.elim
  | _ :: _, [], _, _, h => h.elim
  | c :: cs, c' :: cs', p, hok, h => by
    obtain ⟨⟨pre, post, rfl, hf, h1, h2, h3, h4⟩, hrel⟩ := h
    have hc := hok c (List.mem_cons_self ..)
    obtain ⟨ih1, ih2⟩ := ctxRel_ok cs cs' c.lend (fun d hd => hok d (List.mem_cons_of_mem _ hd)) hrel
    refine ⟨?_, ⟨pre, post, h1, h2, withCtx_isCtxOf c (Nat.le_of_lt hf.prel) (Nat.le_of_lt hf.prer)⟩, ih2⟩
    intro d hd
    rcases List.mem_cons.1 hd with rfl | hd
    · exact withCtx_ok hc hf
    · exact ih1 d hd

/-- context stays inside the gap between the original chunks -/
theorem ctxRel_gap {L R : List α} {n : Nat} : ∀ (cs cs' : List (Chunk α)) (p : Nat),
    Ascending cs → CtxRel L R n p cs cs' →
    ∀ (i : Nat) (c d c' d' : Chunk α), cs[i]? = some c → cs[i + 1]? = some d → cs'[i]? = some c' →
      cs'[i + 1]? = some d' → c'.lend ≤ d.lstart ∧ c.lend ≤ d'.lstart
  | [], [], _, _, _ => by intro i c d c' d' h; cases h
  | [], _ :: _, _, _, h => h.elim
  | _ :: _, [], _, _, h => h.elim
  | [_], [_], _, _, _ => by
    intro i c d c' d' _ h; cases i <;> cases h
  | [_], _ :: _ :: _, _, _, h => h.2.elim
  | _ :: _ :: _, [_], _, _, h => h.2.elim
  | a :: b :: cs, a' :: b' :: cs', p, hasc, h => by
    intro i c d c' d' h1 h2 h3 h4
    cases i with
    | zero =>
      simp only [List.getElem?_cons_zero, List.getElem?_cons_succ, Option.some.injEq, Nat.zero_add] at h1 h2 h3 h4
      subst h1 h2 h3 h4
      obtain ⟨⟨pre, post, rfl, hf, q1, q2, q3, q4⟩, ⟨pre2, post2, rfl, hf2, r1, r2, r3, r4⟩, _⟩ := h
      have := hasc.1
      simp only [PostBound] at q4
      rw [withCtx_eq, withCtx_eq]
      show a.lend + post.length ≤ b.lstart ∧ a.lend ≤ b.lstart - pre2.length
      omega
    | succ i =>
      simp only [List.getElem?_cons_succ] at h1 h2 h3 h4
      exact ctxRel_gap (b :: cs) (b' :: cs') a.lend hasc.2.2 h.2 i c d c' d' h1 h2 h3 h4



/-! ## UnifyChunks -/

/-- a chunk `core` followed by post-context `post` -/
def mkLast (core : Chunk α) (post : List α) : Chunk α :=
  ⟨core.edits ++ emitOpt post, core.lstart, core.lend + post.length, core.rstart,
    core.rend + post.length⟩

theorem emitOpt_nil : emitOpt ([] : List α) = [] := rfl
theorem emitOpt_of_ne {p : List α} (h : p ≠ []) : emitOpt p = [⟨.emit, p, []⟩] := by
  unfold emitOpt; rw [if_neg h]

theorem withCtx_mkLast (c : Chunk α) (pre post : List α) :
    withCtx c pre post = mkLast (withCtx c pre []) post := by
  rw [withCtx_eq, withCtx_eq]; simp [mkLast, emitOpt_nil]

theorem mergeInto_nolap {last c l2 c2 : Chunk α} (h : last.lend - c.lstart = 0)
    (hf : fuseBoundary last c = .ok (l2, c2)) :
    mergeInto last c = .ok ⟨l2.edits ++ c2.edits, l2.lstart, c2.lend, l2.rstart, c2.rend⟩ := by
  unfold mergeInto
  simp [h, hf, bind, Except.bind, pure, Except.pure]

theorem mergeInto_lap {last c l1 c1 l2 c2 : Chunk α} (h : last.lend - c.lstart > 0)
    (ht : trimOverlap last c (last.lend - c.lstart) = .ok (l1, c1)) (hm : ¬ c1.lstart < l1.lend)
    (hf : fuseBoundary l1 c1 = .ok (l2, c2)) :
    mergeInto last c = .ok ⟨l2.edits ++ c2.edits, l2.lstart, c2.lend, l2.rstart, c2.rend⟩ := by
  unfold mergeInto
  simp [h, ht, hm, hf, bind, Except.bind, pure, Except.pure]

theorem trim_mkLast (core c : Chunk α) {post : List α} {lap : Nat} (hp : post ≠ [])
    (hlap : lap ≤ post.length) :
    trimOverlap (mkLast core post) c lap = .ok (mkLast core (post.take (post.length - lap)), c) := by
  unfold trimOverlap
  have h1 : (mkLast core post).edits.getLast? = some ⟨.emit, post, []⟩ := by
    show (core.edits ++ emitOpt post).getLast? = _
    rw [emitOpt_of_ne hp, List.getLast?_concat]
  rw [h1]
  simp only [if_true]
  congr 2
  show Chunk.mk _ _ _ _ _ = Chunk.mk _ _ _ _ _
  have hlen : (post.take (post.length - lap)).length = post.length - lap := by
    rw [List.length_take]; omega
  congr 1
  · show (if lap ≥ post.length then (core.edits ++ emitOpt post).dropLast
        else (core.edits ++ emitOpt post).dropLast ++ [⟨.emit, post.take (post.length - lap), []⟩]) = _
    rw [emitOpt_of_ne hp, List.dropLast_concat]
    by_cases h : lap ≥ post.length
    · rw [if_pos h]
      have : post.length - lap = 0 := by omega
      rw [this, List.take_zero, emitOpt_nil, List.append_nil]
    · rw [if_neg h, emitOpt_of_ne]
      intro h0
      rw [h0] at hlen; simp at hlen; omega
  · show core.lend + post.length - lap = core.lend + _
    rw [hlen]; omega
  · show core.rend + post.length - lap = core.rend + _
    rw [hlen]; omega


theorem fuse_mkLast (core c : Chunk α) (post1 pre2 post2 : List α) {es fs : List (Edit α)}
    {e f : Edit α} (hcore : core.edits = es ++ [e]) (he : e.op ≠ .emit)
    (hc : c.edits = f :: fs) (hf : f.op ≠ .emit) (hne : post1 ≠ [] ∨ pre2 ≠ []) :
    ∃ l2 c2, fuseBoundary (mkLast core post1) (withCtx c pre2 post2) = .ok (l2, c2) ∧
      l2.edits ++ c2.edits =
        core.edits ++ [⟨.emit, post1 ++ pre2, []⟩] ++ c.edits ++ emitOpt post2 ∧
      l2.lstart = core.lstart ∧ l2.rstart = core.rstart ∧
      c2.lend = c.lend + post2.length ∧ c2.rend = c.rend + post2.length := by
  rw [withCtx_eq]
  unfold fuseBoundary
  by_cases h1 : post1 = []
  · subst h1
    have hp2 : pre2 ≠ [] := by rcases hne with h | h; exact absurd rfl h; exact h
    have g1 : (mkLast core []).edits.getLast? = some e := by
      show (core.edits ++ emitOpt []).getLast? = _
      rw [emitOpt_nil, List.append_nil, hcore, List.getLast?_concat]
    rw [g1]
    simp only [if_neg he]
    refine ⟨_, _, rfl, ?_, rfl, rfl, rfl, rfl⟩
    show core.edits ++ emitOpt [] ++ (emitOpt pre2 ++ c.edits ++ emitOpt post2) = _
    rw [emitOpt_nil, emitOpt_of_ne hp2]
    simp
  · have g1 : (mkLast core post1).edits.getLast? = some ⟨.emit, post1, []⟩ := by
      show (core.edits ++ emitOpt post1).getLast? = _
      rw [emitOpt_of_ne h1, List.getLast?_concat]
    rw [g1]
    simp only [if_true]
    by_cases h2 : pre2 = []
    · subst h2
      have g2 : (Chunk.mk (emitOpt [] ++ c.edits ++ emitOpt post2) (c.lstart - ([] : List α).length)
          (c.lend + post2.length) (c.rstart - ([] : List α).length) (c.rend + post2.length)).edits.head?
          = some f := by
        show (emitOpt [] ++ c.edits ++ emitOpt post2).head? = _
        rw [emitOpt_nil, hc]; rfl
      rw [g2]
      simp only [if_neg hf]
      refine ⟨_, _, rfl, ?_, rfl, rfl, rfl, rfl⟩
      show core.edits ++ emitOpt post1 ++ (emitOpt [] ++ c.edits ++ emitOpt post2) = _
      rw [emitOpt_nil, emitOpt_of_ne h1]
      simp
    · have g2 : (Chunk.mk (emitOpt pre2 ++ c.edits ++ emitOpt post2) (c.lstart - pre2.length)
          (c.lend + post2.length) (c.rstart - pre2.length) (c.rend + post2.length)).edits.head?
          = some ⟨.emit, pre2, []⟩ := by
        show (emitOpt pre2 ++ c.edits ++ emitOpt post2).head? = _
        rw [emitOpt_of_ne h2]; rfl
      rw [g2]
      simp only [if_true]
      refine ⟨_, _, rfl, ?_, rfl, rfl, rfl, rfl⟩
      show (core.edits ++ emitOpt post1).dropLast ++ [⟨.emit, post1 ++ pre2, []⟩] ++
        (emitOpt pre2 ++ c.edits ++ emitOpt post2).tail = _
      rw [emitOpt_of_ne h1, emitOpt_of_ne h2, List.dropLast_concat]
      simp


theorem mid_eq {l post pre : List α} {a b k : Nat} (ha : 1 ≤ a)
    (hpost : span l a (a + post.length) = post) (hpre : span l (b - pre.length) b = pre)
    (hk : k ≤ post.length) (hab : a + k = b - pre.length) :
    post.take k ++ pre = span l a b := by
  have h1 : post.take k = span l a (a + k) := by
    conv => lhs; rw [← hpost]
    unfold span
    rw [List.take_take]
    congr 1; omega
  rw [h1, ← hpre, hab]
  exact span_append l (by omega) (by omega) (by omega)

/-- the merged chunk so far: a correct chunk `core` ending in a non-Emit edit, followed by
post-context `post` -/
structure LastInv (L R : List α) (core : Chunk α) (post : List α) : Prop where
  ok : ChunkOK core L R
  lastne : ∃ es e, core.edits = es ++ [e] ∧ e.op ≠ .emit
  postl : core.lend + post.length ≤ L.length + 1
  postr : core.rend + post.length ≤ R.length + 1
  postL : span L core.lend (core.lend + post.length) = post
  postR : span R core.rend (core.rend + post.length) = post

theorem merge_spec {L R : List α} {core c : Chunk α} {post pre2 post2 : List α}
    (hl : LastInv L R core post) (hc : ChunkOK c L R) (hf : CtxFacts L R c pre2 post2)
    (hcne : c.edits ≠ []) (hcno : ∀ e ∈ c.edits, e.op ≠ .emit)
    (hgap : GapEq L R core.lend core.rend c.lstart c.rstart) (hstrict : core.lend < c.lstart)
    (hpre : pre2.length ≤ c.lstart - core.lend)
    (hov : c.lstart - pre2.length ≤ core.lend + post.length) :
    ∃ core', mergeInto (mkLast core post) (withCtx c pre2 post2) = .ok (mkLast core' post2) ∧
      LastInv L R core' post2 ∧ core'.lstart = core.lstart ∧ core'.rstart = core.rstart ∧
      core'.lend = c.lend ∧ core'.rend = c.rend ∧
      ∃ mid, core'.edits = core.edits ++ [⟨.emit, mid, []⟩] ++ c.edits ∧
        mid.length ≤ post.length + pre2.length := by
  obtain ⟨g1, g2, g3, g4⟩ := hgap
  have hok := hl.ok
  have o1 := hok.l1; have o2 := hok.l2; have o3 := hok.l3
  have o4 := hok.r1; have o5 := hok.r2; have o6 := hok.r3
  have q1 := hc.l1; have q2 := hc.l2; have q3 := hc.l3
  have q4 := hc.r1; have q5 := hc.r2; have q6 := hc.r3
  have p1 := hf.prel; have p2 := hf.prer
  obtain ⟨es, e, hes, he⟩ := hl.lastne
  obtain ⟨f, fs, hfs⟩ := List.exists_cons_of_ne_nil hcne
  have hfop : f.op ≠ .emit := hcno f (by rw [hfs]; exact List.mem_cons_self ..)
  -- the overlap and what is left of `post`
  generalize hlap : core.lend + post.length - (c.lstart - pre2.length) = lap
  generalize hpost1 : post.take (post.length - lap) = post1
  have hlen1 : post1.length = post.length - lap := by rw [← hpost1, List.length_take]; omega
  have hne : post1 ≠ [] ∨ pre2 ≠ [] := by
    by_cases h1 : post1 = []
    · right; intro h2; rw [h1] at hlen1; rw [h2] at hov hlap hpre; simp at hlen1 hov hlap hpre; omega
    · exact Or.inl h1
  obtain ⟨l2, c2, hfuse, r1, r2, r3, r4, r5⟩ :=
    fuse_mkLast core c post1 pre2 post2 hes he hfs hfop hne
  have hmidL : post1 ++ pre2 = span L core.lend c.lstart := by
    rw [← hpost1]
    exact mid_eq (by omega) hl.postL hf.preL (by omega) (by omega)
  have hmidR : post1 ++ pre2 = span R core.rend c.rstart := by
    rw [← hpost1]
    exact mid_eq (by omega) hl.postR hf.preR (by omega) (by omega)
  refine ⟨⟨core.edits ++ [⟨.emit, post1 ++ pre2, []⟩] ++ c.edits, core.lstart, c.lend, core.rstart,
    c.rend⟩, ?_, ⟨⟨o1, by show core.lstart ≤ c.lend; omega, q3, o4, by show core.rstart ≤ c.rend; omega,
      q6, ?_, ?_⟩, ?_, hf.postl, hf.postr, hf.postL, hf.postR⟩, rfl, rfl, rfl, rfl,
      post1 ++ pre2, rfl, by rw [List.length_append, hlen1]; omega⟩
  · -- the computation
    have hres : (⟨l2.edits ++ c2.edits, l2.lstart, c2.lend, l2.rstart, c2.rend⟩ : Chunk α) =
        mkLast ⟨core.edits ++ [⟨.emit, post1 ++ pre2, []⟩] ++ c.edits, core.lstart, c.lend,
          core.rstart, c.rend⟩ post2 := by
      rw [r1, r2, r3, r4, r5]; rfl
    rw [← hres]
    have hlapeq : (mkLast core post).lend - (withCtx c pre2 post2).lstart = lap := by
      rw [withCtx_eq]; exact hlap
    by_cases h0 : lap = 0
    · have : post1 = post := by
        rw [← hpost1, h0, Nat.sub_zero, List.take_length]
      rw [this] at hfuse
      exact mergeInto_nolap (by rw [hlapeq, h0]) hfuse
    · have hpne : post ≠ [] := by
        intro h; rw [h] at hlap; simp at hlap; omega
      refine mergeInto_lap (l1 := mkLast core post1) (c1 := withCtx c pre2 post2)
        (by rw [hlapeq]; omega) ?_ ?_ hfuse
      · rw [hlapeq, trim_mkLast core _ hpne (by omega), hpost1]
      · rw [withCtx_eq]
        show ¬ c.lstart - pre2.length < core.lend + post1.length
        omega
  · show consumed (core.edits ++ [⟨.emit, post1 ++ pre2, []⟩] ++ c.edits) = span L core.lstart c.lend
    rw [consumed_append, consumed_append, consumed_single, hok.cons, hc.cons]
    show span L core.lstart core.lend ++ (post1 ++ pre2) ++ span L c.lstart c.lend = _
    rw [hmidL, span_append L o1 o2 (by omega), span_append L o1 (by omega) q2]
  · show produced (core.edits ++ [⟨.emit, post1 ++ pre2, []⟩] ++ c.edits) = span R core.rstart c.rend
    rw [produced_append, produced_append, produced_single, hok.prod, hc.prod]
    show span R core.rstart core.rend ++ (post1 ++ pre2) ++ span R c.rstart c.rend = _
    rw [hmidR, span_append R o4 o5 (by omega), span_append R o4 (by omega) q5]
  · refine ⟨core.edits ++ [⟨.emit, post1 ++ pre2, []⟩] ++ c.edits.dropLast, c.edits.getLast hcne, ?_,
      hcno _ (List.getLast_mem hcne)⟩
    show core.edits ++ [⟨.emit, post1 ++ pre2, []⟩] ++ c.edits = _
    rw [List.append_assoc _ c.edits.dropLast, List.dropLast_concat_getLast]


theorem span_sub (l : List α) {a c x y : Nat} (ha : 1 ≤ a) :
    span l (a + x) (c - y) = ((span l a c).drop x).take (c - y - (a + x)) := by
  unfold span
  rw [List.drop_take, List.take_take, List.drop_drop]
  have e1 : min (c - y - (a + x)) (c - a - x) = c - y - (a + x) := by omega
  have e2 : a - 1 + x = a + x - 1 := by omega
  rw [e1, e2]

theorem gapEq_sub {L R : List α} {a b c d x y : Nat} (h : GapEq L R a b c d) (ha : 1 ≤ a)
    (hb : 1 ≤ b) (hxy : x + y ≤ c - a) : GapEq L R (a + x) (b + x) (c - y) (d - y) := by
  obtain ⟨h1, h2, h3, h4⟩ := h
  refine ⟨by omega, by omega, by omega, ?_⟩
  rw [span_sub L ha, span_sub R hb, h4]
  congr 1; omega

theorem mkLast_ok {L R : List α} {core : Chunk α} {post : List α} (h : LastInv L R core post) :
    ChunkOK (mkLast core post) L R := by
  have hok := h.ok
  have o1 := hok.l1; have o2 := hok.l2; have o4 := hok.r1; have o5 := hok.r2
  refine ⟨o1, by show core.lstart ≤ core.lend + post.length; omega, h.postl, o4,
    by show core.rstart ≤ core.rend + post.length; omega, h.postr, ?_, ?_⟩
  · show consumed (core.edits ++ emitOpt post) = span L core.lstart (core.lend + post.length)
    rw [consumed_append, consumed_emitOpt, hok.cons, ← span_append L o1 o2 (Nat.le_add_right _ _),
      h.postL]
  · show produced (core.edits ++ emitOpt post) = span R core.rstart (core.rend + post.length)
    rw [produced_append, produced_emitOpt, hok.prod, ← span_append R o4 o5 (Nat.le_add_right _ _),
      h.postR]

theorem nonAdjacent_cons {c : Chunk α} {cs : List (Chunk α)} (h : NonAdjacent (c :: cs)) :
    (∀ d ∈ cs.head?, c.lend < d.lstart) ∧ NonAdjacent cs := by
  cases cs with
  | nil => exact ⟨(by intro d hd; cases hd), trivial⟩
  | cons d cs =>
    refine ⟨?_, h.2⟩
    intro d' hd'
    simp only [List.head?_cons, Option.mem_def, Option.some.injEq] at hd'
    subst hd'; exact h.1

/-- a chunk with pre-context only, as the `core` of a `LastInv` -/
theorem lastInv_of_ctx {L R : List α} {c : Chunk α} {pre post : List α} (hc : ChunkOK c L R)
    (hf : CtxFacts L R c pre post) (hcne : c.edits ≠ []) (hcno : ∀ e ∈ c.edits, e.op ≠ .emit) :
    LastInv L R ⟨emitOpt pre ++ c.edits, c.lstart - pre.length, c.lend, c.rstart - pre.length, c.rend⟩
      post ∧
    withCtx c pre post =
      mkLast ⟨emitOpt pre ++ c.edits, c.lstart - pre.length, c.lend, c.rstart - pre.length, c.rend⟩ post := by
  refine ⟨⟨?_, ?_, hf.postl, hf.postr, hf.postL, hf.postR⟩, ?_⟩
  · have h0 : CtxFacts L R c pre [] :=
      ⟨hf.prel, hf.prer, hf.preL, hf.preR, hc.l3, hc.r3, span_self .., span_self ..⟩
    have := withCtx_ok hc h0
    rw [withCtx_eq] at this
    simpa [emitOpt_nil] using this
  · refine ⟨emitOpt pre ++ c.edits.dropLast, c.edits.getLast hcne, ?_, hcno _ (List.getLast_mem hcne)⟩
    show emitOpt pre ++ c.edits = _
    rw [List.append_assoc, List.dropLast_concat_getLast]
  · rw [withCtx_eq]; rfl

theorem unifyLoop_spec {L R : List α} {n : Nat} : ∀ (rest rest' init : List (Chunk α))
    (core : Chunk α) (post : List α),
    LastInv L R core post → AllOK rest L R →
    (∀ c ∈ rest, c.edits ≠ [] ∧ ∀ e ∈ c.edits, e.op ≠ .emit) →
    (∀ d ∈ rest.head?, core.lend < d.lstart) → NonAdjacent rest →
    Aligned L R core.lend core.rend rest → CtxRel L R n core.lend rest rest' →
    PostBound L core.lend post rest →
    ∃ h t, unifyLoop init (mkLast core post) rest' = .ok (init ++ h :: t) ∧
      h.lstart = core.lstart ∧ h.rstart = core.rstart ∧ AllOK (h :: t) L R ∧
      Ascending (h :: t) ∧ NonAdjacent (h :: t) ∧ Aligned L R h.lend h.rend t
  | [], [], init, core, post, hl, _, _, _, _, hal, _, _ => by
    refine ⟨mkLast core post, [], rfl, rfl, rfl, ?_, trivial, trivial, ?_⟩
    · intro c hc
      have hc : c = mkLast core post := by simpa using hc
      rw [hc]; exact mkLast_ok hl
    · show L.drop (core.lend + post.length - 1) = R.drop (core.rend + post.length - 1)
      have hal : L.drop (core.lend - 1) = R.drop (core.rend - 1) := hal
      have o1 := hl.ok.l1; have o2 := hl.ok.l2; have o4 := hl.ok.r1; have o5 := hl.ok.r2
      have e1 : core.lend + post.length - 1 = core.lend - 1 + post.length := by omega
      have e2 : core.rend + post.length - 1 = core.rend - 1 + post.length := by omega
      rw [e1, e2, ← List.drop_drop, ← List.drop_drop, hal]
  | [], _ :: _, _, _, _, _, _, _, _, _, _, h, _ => h.elim
  | _ :: _, [], _, _, _, _, _, _, _, _, _, h, _ => h.elim
  | c :: cs, c' :: cs', init, core, post, hl, hok, hne, hhead, hna, hal, hrel, hpb => by
    obtain ⟨⟨pre2, post2, rfl, hf, _, _, hpre, hpb2⟩, hrel2⟩ := hrel
    obtain ⟨hgap, hal2⟩ := hal
    have hc := hok c (List.mem_cons_self ..)
    have hok2 : AllOK cs L R := fun d hd => hok d (List.mem_cons_of_mem _ hd)
    have hne2 : ∀ c ∈ cs, c.edits ≠ [] ∧ ∀ e ∈ c.edits, e.op ≠ .emit :=
      fun d hd => hne d (List.mem_cons_of_mem _ hd)
    obtain ⟨hcne, hcno⟩ := hne c (List.mem_cons_self ..)
    obtain ⟨hhead2, hna2⟩ := nonAdjacent_cons hna
    have hstrict : core.lend < c.lstart := hhead c rfl
    have hpost : post.length ≤ c.lstart - core.lend := hpb
    have o1 := hl.ok.l1; have o2 := hl.ok.l2; have o4 := hl.ok.r1; have o5 := hl.ok.r2
    have q1 := hc.l1; have q2 := hc.l2; have q4 := hc.r1; have q5 := hc.r2
    have p1 := hf.prel; have p2 := hf.prer
    obtain ⟨g1, g2, g3, g4⟩ := hgap
    rw [unifyLoop]
    by_cases hgt : (withCtx c pre2 post2).lstart > (mkLast core post).lend
    · rw [if_pos hgt]
      obtain ⟨hl2, heq⟩ := lastInv_of_ctx hc hf hcne hcno
      rw [heq]
      rw [withCtx_eq] at hgt
      have hgt : c.lstart - pre2.length > core.lend + post.length := hgt
      obtain ⟨h2, t2, hrun, a1, a2, a3, a4, a5, a6⟩ :=
        unifyLoop_spec cs cs' (init ++ [mkLast core post]) _ post2 hl2 hok2 hne2 hhead2 hna2 hal2
          hrel2 hpb2
      have a1 : h2.lstart = c.lstart - pre2.length := a1
      have a2 : h2.rstart = c.rstart - pre2.length := a2
      refine ⟨mkLast core post, h2 :: t2, ?_, rfl, rfl, ?_, ?_, ?_, ?_, a6⟩
      · rw [hrun]; simp
      · intro d hd
        rcases List.mem_cons.1 hd with rfl | hd
        · exact mkLast_ok hl
        · exact a3 d hd
      · refine ⟨?_, ?_, a4⟩
        · show core.lend + post.length ≤ h2.lstart; omega
        · show core.rend + post.length ≤ h2.rstart; omega
      · refine ⟨?_, a5⟩
        show core.lend + post.length < h2.lstart; omega
      · show GapEq L R (core.lend + post.length) (core.rend + post.length) h2.lstart h2.rstart
        rw [a1, a2]
        exact gapEq_sub ⟨g1, g2, g3, g4⟩ (by omega) (by omega) (by omega)
    · rw [if_neg hgt]
      rw [withCtx_eq] at hgt
      have hgt : ¬ c.lstart - pre2.length > core.lend + post.length := hgt
      obtain ⟨core', hm, hl', b1, b2, b3, b4, _⟩ :=
        merge_spec hl hc hf hcne hcno ⟨g1, g2, g3, g4⟩ hstrict hpre (by omega)
      rw [hm]
      simp only []
      rw [← b3] at hhead2 hrel2 hpb2 hal2
      rw [← b4] at hal2
      obtain ⟨h2, t2, hrun, a1, a2, a3⟩ :=
        unifyLoop_spec cs cs' init core' post2 hl' hok2 hne2 hhead2 hna2 hal2 hrel2 hpb2
      exact ⟨h2, t2, hrun, by rw [a1, b1], by rw [a2, b2], a3⟩


theorem unify_rel {L R : List α} {n : Nat} {cs cs' : List (Chunk α)} (hok : AllOK cs L R)
    (hna : NonAdjacent cs) (hal : Aligned L R 1 1 cs)
    (hne : ∀ c ∈ cs, c.edits ≠ [] ∧ ∀ e ∈ c.edits, e.op ≠ .emit)
    (hrel : CtxRel L R n 1 cs cs') :
    ∃ u, unifyChunks cs' = .ok u ∧ AllOK u L R ∧ Ascending u ∧ NonAdjacent u ∧
      Aligned L R 1 1 u := by
  match cs, cs', hrel with
  | [], [], _ => exact ⟨[], rfl, (by intro c hc; cases hc), trivial, trivial, hal⟩
  | c :: rest, c' :: rest', hrel =>
    obtain ⟨⟨pre, post, rfl, hf, _, _, hpre, hpb⟩, hrel2⟩ := hrel
    obtain ⟨hgap, hal2⟩ := hal
    have hc := hok c (List.mem_cons_self ..)
    obtain ⟨hcne, hcno⟩ := hne c (List.mem_cons_self ..)
    obtain ⟨hhead, hna2⟩ := nonAdjacent_cons hna
    obtain ⟨hl, heq⟩ := lastInv_of_ctx hc hf hcne hcno
    obtain ⟨h, t, hrun, a1, a2, a3, a4, a5, a6⟩ :=
      unifyLoop_spec rest rest' [] _ post hl (fun d hd => hok d (List.mem_cons_of_mem _ hd))
        (fun d hd => hne d (List.mem_cons_of_mem _ hd)) hhead hna2 hal2 hrel2 hpb
    have a1 : h.lstart = c.lstart - pre.length := a1
    have a2 : h.rstart = c.rstart - pre.length := a2
    refine ⟨h :: t, ?_, a3, a4, a5, ?_, a6⟩
    · rw [unifyChunks, heq, hrun]; rfl
    · show GapEq L R 1 1 h.lstart h.rstart
      rw [a1, a2]
      exact gapEq_sub (x := 0) hgap (Nat.le_refl _) (Nat.le_refl _) (by omega)

theorem unifyLoop_id : ∀ (rest init : List (Chunk α)) (last : Chunk α),
    NonAdjacent (last :: rest) → unifyLoop init last rest = .ok (init ++ last :: rest)
  | [], init, last, _ => rfl
  | c :: cs, init, last, h => by
    rw [unifyLoop, if_pos h.1, unifyLoop_id cs (init ++ [last]) c h.2]
    simp

theorem unifyChunks_id (cs : List (Chunk α)) (h : NonAdjacent cs) : unifyChunks cs = .ok cs := by
  cases cs with
  | nil => rfl
  | cons c cs => rw [unifyChunks, unifyLoop_id cs [] c h]; rfl


end MdsVerif.Proofs.Mdiff
