import MdsVerif.Spec.Mdiff
import MdsVerif.Spec.EditScript
/-!
# Lemmas about the mdiff model: `New`, `AddContext`, `UnifyChunks` (property C13)
-/
namespace MdsVerif.Proofs.Mdiff
open MdsVerif.Model.Edit MdsVerif.Model.Mdiff MdsVerif.Spec.Mdiff MdsVerif.Spec

variable {α : Type}

end MdsVerif.Proofs.Mdiff
