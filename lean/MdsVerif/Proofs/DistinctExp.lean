import MdsVerif.Proofs.Distinct
import Mathlib.Algebra.Order.Field.Rat
import Mathlib.Algebra.BigOperators.Group.List.Basic
import Mathlib.Algebra.BigOperators.Ring.Finset
import Mathlib.Data.Finset.Card
import Mathlib.Tactic.Ring
import Mathlib.Tactic.FieldSimp
import Mathlib.Tactic.Linarith
import Mathlib.Tactic.Positivity
import Mathlib.Algebra.Order.BigOperators.Group.Finset
import Mathlib.Algebra.Order.Field.Basic
/-!
# Exact expectation of the CVM estimator (`distinct.Counter`) in a finite-distribution monad over ℚ

`Dist α = List (ℚ × α)` with `E`, `dpure`, `dbind`, `coin`.  `addD q s v` is the *idealised probabilistic
semantics* of `Model.Distinct.add` — it shares the state type, `ins`, `erase`, the capacity test and the
single halving pass with the executable model, and replaces "the next scripted word" by

* a coin with keep-probability `q k` at level `k ≥ 1` (no coin at level 0) — for the code's fixed-point
  threshold this is `qFix k = pOf k / 2^64`, the fraction of 64-bit words `w` with `¬ (pOf k ≤ w)`
  (`coin_fraction`), and
* one independent fair bit per buffered element in the halving pass (either polarity of the low-bit test
  gives a fair bit).

That random words are uniform and independent (ChaCha8) is an assumption, not a theorem.
-/
namespace MdsVerif.Proofs.DistinctExp
open MdsVerif.Model.Distinct MdsVerif.Proofs.Distinct

abbrev Dist (α : Type) := List (ℚ × α)

def E {α} (d : Dist α) (f : α → ℚ) : ℚ := (d.map (fun p => p.1 * f p.2)).sum
def dpure {α} (a : α) : Dist α := [(1, a)]
def dbind {α β} (d : Dist α) (f : α → Dist β) : Dist β :=
  d.flatMap (fun p => (f p.2).map (fun r => (p.1 * r.1, r.2)))
def coin (q : ℚ) : Dist Bool := [(q, true), (1 - q, false)]

/-- all weights are non-negative -/
def NonNeg {α} (d : Dist α) : Prop := ∀ p ∈ d, 0 ≤ p.1

@[simp] theorem E_pure {α} (a : α) (f : α → ℚ) : E (dpure a) f = f a := by simp [E, dpure]

theorem E_scale {α} (c : ℚ) (d : Dist α) (f : α → ℚ) :
    E (d.map (fun r => (c * r.1, r.2))) f = c * E d f := by
  induction d with
  | nil => simp [E]
  | cons p d ih =>
    simp only [E, List.map_cons, List.sum_cons] at ih ⊢
    rw [ih]; ring

theorem E_smul {α} (c : ℚ) (d : Dist α) (f : α → ℚ) : E d (fun a => c * f a) = c * E d f := by
  induction d with
  | nil => simp [E]
  | cons p d ih =>
    simp only [E, List.map_cons, List.sum_cons] at ih ⊢
    rw [ih]; ring

theorem E_append {α} (d1 d2 : Dist α) (f : α → ℚ) : E (d1 ++ d2) f = E d1 f + E d2 f := by
  simp [E]

theorem E_bind {α β} (d : Dist α) (g : α → Dist β) (f : β → ℚ) :
    E (dbind d g) f = E d (fun a => E (g a) f) := by
  induction d with
  | nil => simp [E, dbind]
  | cons p d ih =>
    have : dbind (p :: d) g = (g p.2).map (fun r => (p.1 * r.1, r.2)) ++ dbind d g := by
      simp [dbind]
    rw [this, E_append, E_scale, ih]
    simp [E]

theorem E_coin (q : ℚ) (f : Bool → ℚ) : E (coin q) f = q * f true + (1 - q) * f false := by
  simp [E, coin]

theorem E_congr {α} (d : Dist α) (f g : α → ℚ) (h : ∀ p ∈ d, f p.2 = g p.2) : E d f = E d g := by
  induction d with
  | nil => simp [E]
  | cons p d ih =>
    simp only [E, List.map_cons, List.sum_cons] at ih ⊢
    rw [h p (by simp), ih (fun r hr => h r (by simp [hr]))]

theorem E_mono {α} (d : Dist α) (hd : NonNeg d) (f g : α → ℚ) (h : ∀ p ∈ d, f p.2 ≤ g p.2) :
    E d f ≤ E d g := by
  induction d with
  | nil => simp [E]
  | cons p d ih =>
    simp only [E, List.map_cons, List.sum_cons] at ih ⊢
    have h1 : p.1 * f p.2 ≤ p.1 * g p.2 :=
      mul_le_mul_of_nonneg_left (h p (by simp)) (hd p (by simp))
    have h2 := ih (fun r hr => hd r (by simp [hr])) (fun r hr => h r (by simp [hr]))
    linarith

theorem E_finset_sum {α ι} (d : Dist α) (S : Finset ι) (f : ι → α → ℚ) :
    E d (fun a => ∑ x ∈ S, f x a) = ∑ x ∈ S, E d (f x) := by
  induction d with
  | nil => simp [E]
  | cons p d ih =>
    have hc : ∀ g : α → ℚ, E (p :: d) g = p.1 * g p.2 + E d g := by
      intro g; simp [E]
    rw [hc, ih, Finset.mul_sum, ← Finset.sum_add_distrib]
    apply Finset.sum_congr rfl
    intro x _
    rw [hc]

theorem mem_dbind {α β} {d : Dist α} {g : α → Dist β} {r : ℚ × β} (h : r ∈ dbind d g) :
    ∃ p ∈ d, ∃ r' ∈ g p.2, r.2 = r'.2 ∧ r.1 = p.1 * r'.1 := by
  simp only [dbind, List.mem_flatMap, List.mem_map] at h
  obtain ⟨p, hp, r', hr', rfl⟩ := h
  exact ⟨p, hp, r', hr', rfl, rfl⟩

theorem nonneg_dbind {α β} {d : Dist α} {g : α → Dist β} (hd : NonNeg d) (hg : ∀ p ∈ d, NonNeg (g p.2)) :
    NonNeg (dbind d g) := by
  intro r hr
  obtain ⟨p, hp, r', hr', _, e⟩ := mem_dbind hr
  rw [e]; exact mul_nonneg (hd p hp) (hg p hp r' hr')

theorem nonneg_pure {α} (a : α) : NonNeg (dpure a) := by
  intro p hp; simp only [dpure, List.mem_singleton] at hp; subst hp; exact zero_le_one

theorem nonneg_coin {q : ℚ} (h0 : 0 ≤ q) (h1 : q ≤ 1) : NonNeg (coin q) := by
  intro p hp
  simp only [coin, List.mem_cons, List.not_mem_nil, or_false] at hp
  rcases hp with rfl | rfl
  · exact h0
  · show 0 ≤ 1 - q; linarith

/-! ### the halving pass: every buffered element survives with probability 1/2, independently -/

def halveD : List Nat → Dist (List Nat)
  | [] => dpure []
  | x :: xs => dbind (coin (1/2)) (fun keep => dbind (halveD xs) (fun ys => dpure (if keep then x :: ys else ys)))

def ind (x : Nat) (l : List Nat) : ℚ := if x ∈ l then 1 else 0

theorem E_halve_one : ∀ l : List Nat, E (halveD l) (fun _ => 1) = 1 := by
  intro l; induction l with
  | nil => simp [halveD]
  | cons a l ih => simp [halveD, E_bind, E_coin, ih]; try ring

theorem E_halve (x : Nat) : ∀ l : List Nat, l.Nodup → E (halveD l) (ind x) = (1/2) * ind x l := by
  intro l
  induction l with
  | nil => intro _; simp [halveD, ind]
  | cons a l ih =>
    intro hnd
    have hnd' := (List.nodup_cons.mp hnd).2
    have ha := (List.nodup_cons.mp hnd).1
    simp only [halveD, E_bind, E_coin, E_pure, if_true, Bool.false_eq_true, if_false]
    by_cases hxa : x = a
    · subst hxa
      have h1 : (fun ys : List Nat => ind x (x :: ys)) = fun _ => 1 := by funext ys; simp [ind]
      have h2 : ind x l = 0 := by simp [ind, ha]
      rw [h1, E_halve_one, ih hnd', h2]
      simp [ind]
    · have h1 : (fun ys : List Nat => ind x (a :: ys)) = ind x := by
        funext ys; simp [ind, hxa]
      rw [h1, ih hnd']
      by_cases hxl : x ∈ l <;> simp [ind, hxa, hxl]; ring

theorem halveD_sub : ∀ (l : List Nat) (p : ℚ × List Nat), p ∈ halveD l → p.2.Sublist l := by
  intro l
  induction l with
  | nil => intro p hp; simp [halveD, dpure] at hp; subst hp; exact List.Sublist.refl _
  | cons a l ih =>
    intro p hp
    simp only [halveD] at hp
    obtain ⟨c, _, r, hr, e1, _⟩ := mem_dbind hp
    obtain ⟨ys, hys, r2, hr2, e2, _⟩ := mem_dbind hr
    simp only [dpure, List.mem_singleton] at hr2
    subst hr2
    rw [e1, e2]
    have := ih ys hys
    split
    · exact List.Sublist.cons_cons a this
    · exact List.Sublist.cons a this

theorem nonneg_halveD : ∀ l : List Nat, NonNeg (halveD l) := by
  intro l
  induction l with
  | nil => exact nonneg_pure _
  | cons a l ih =>
    simp only [halveD]
    exact nonneg_dbind (nonneg_coin (by norm_num) (by norm_num))
      (fun _ _ => nonneg_dbind ih (fun _ _ => nonneg_pure _))

/-! ### `Add` -/

def phi (x : Nat) (s : St) : ℚ := 2 ^ s.k * ind x s.buf

/-- what happens once the coin has said "keep": insert, and one halving pass when the buffer is full -/
def keepD (s : St) (b : List Nat) : Dist St :=
  if s.cap ≤ b.length
    then dbind (halveD b) (fun b' => dpure { s with buf := b', k := s.k + 1 })
    else dpure { s with buf := b }

/-- idealised `Counter.Add`: coin against the level-k threshold (no coin at level 0), remove on failure,
    insert on success, one halving pass when the buffer is full -/
def addD (q : Nat → ℚ) (s : St) (v : Nat) : Dist St :=
  dbind (if s.k = 0 then dpure true else coin (q s.k)) fun keep =>
    if keep then keepD s (ins v s.buf) else dpure { s with buf := s.buf.erase v }

theorem keep_branch (s : St) (b : List Nat) (x : Nat) (hnd : b.Nodup) :
    E (keepD s b) (phi x) = 2 ^ s.k * ind x b := by
  unfold keepD
  by_cases hc : s.cap ≤ b.length
  · rw [if_pos hc, E_bind]
    simp only [E_pure, phi]
    have hE : E (halveD b) (fun a => (2:ℚ) ^ (s.k + 1) * ind x a) = 2 ^ (s.k + 1) * E (halveD b) (ind x) :=
      E_smul _ _ _
    rw [hE, E_halve x _ hnd, pow_succ]; ring
  · rw [if_neg hc]; simp [phi]

theorem keep_mass (s : St) (b : List Nat) : E (keepD s b) (fun _ => 1) = 1 := by
  unfold keepD
  split
  · rw [E_bind]; simp [E_halve_one]
  · simp

theorem keep_support (s : St) (b : List Nat) : ∀ r ∈ keepD s b,
    r.2.buf.Sublist b ∧ r.2.cap = s.cap ∧ r.2.k ≤ s.k + 1 := by
  intro r hr
  unfold keepD at hr
  by_cases hc : s.cap ≤ b.length
  · rw [if_pos hc] at hr
    obtain ⟨ys, hys, r2, hr2, e2, _⟩ := mem_dbind hr
    simp only [dpure, List.mem_singleton] at hr2; subst hr2
    rw [e2]; exact ⟨halveD_sub _ ys hys, rfl, Nat.le_refl _⟩
  · rw [if_neg hc] at hr
    simp only [dpure, List.mem_singleton] at hr; subst hr
    exact ⟨List.Sublist.refl _, rfl, Nat.le_succ _⟩

theorem nonneg_keepD (s : St) (b : List Nat) : NonNeg (keepD s b) := by
  unfold keepD
  split
  · exact nonneg_dbind (nonneg_halveD b) (fun _ _ => nonneg_pure _)
  · exact nonneg_pure _

theorem ind_ins_other {x v : Nat} (b : List Nat) (hxv : x ≠ v) : ind x (ins v b) = ind x b := by
  simp [ind, mem_ins, hxv]

theorem ind_ins_self (x : Nat) (b : List Nat) : ind x (ins x b) = 1 := by
  simp [ind, mem_ins]

/-- martingale step: an Add of v ≠ x leaves E[2^k·1_{x∈buf}] unchanged, whatever q is -/
theorem step_other (q : Nat → ℚ) (s : St) (v x : Nat) (hnd : s.buf.Nodup) (hxv : x ≠ v) :
    E (addD q s v) (phi x) = phi x s := by
  have hk := keep_branch s (ins v s.buf) x (ins_nodup hnd)
  have hdrop : phi x ({ s with buf := s.buf.erase v } : St) = phi x s := by
    simp [phi, ind, List.mem_erase_of_ne hxv]
  unfold addD
  rw [E_bind]
  by_cases h0 : s.k = 0
  · simp only [h0, if_true, E_pure]
    rw [h0] at hk; rw [hk, ind_ins_other _ hxv]; simp [phi, h0]
  · simp only [if_neg h0, E_coin, if_true, Bool.false_eq_true, if_false, E_pure]
    rw [hk, ind_ins_other _ hxv, hdrop]; simp only [phi]; ring

/-- the level function: what an Add of x itself resets E[2^k·1_{x∈buf}] to -/
def g (q : Nat → ℚ) (k : Nat) : ℚ := if k = 0 then 1 else 2 ^ k * q k

theorem step_self (q : Nat → ℚ) (s : St) (x : Nat) (hnd : s.buf.Nodup) :
    E (addD q s x) (phi x) = g q s.k := by
  have hk := keep_branch s (ins x s.buf) x (ins_nodup hnd)
  have hdrop : phi x ({ s with buf := s.buf.erase x } : St) = 0 := by
    simp [phi, ind, List.Nodup.mem_erase_iff hnd]
  unfold addD g
  rw [E_bind]
  by_cases h0 : s.k = 0
  · simp only [h0, if_true, E_pure]
    rw [h0] at hk; rw [hk, ind_ins_self]; simp
  · simp only [if_neg h0, E_coin, if_true, Bool.false_eq_true, if_false, E_pure]
    rw [hk, ind_ins_self, hdrop]; ring

/-- support of one idealised Add: duplicate-free, inside `buf ∪ {v}`, same size, `k` grows by at most one -/
theorem add_support (q : Nat → ℚ) (s : St) (v : Nat) (hnd : s.buf.Nodup) :
    ∀ p ∈ addD q s v, p.2.buf.Nodup ∧ (∀ x ∈ p.2.buf, x ∈ s.buf ∨ x = v) ∧ p.2.cap = s.cap ∧ p.2.k ≤ s.k + 1 := by
  intro p hp
  unfold addD at hp
  obtain ⟨c, _, r, hr, e1, _⟩ := mem_dbind hp
  rw [e1]
  by_cases hc : c.2 = true
  · rw [if_pos hc] at hr
    obtain ⟨h1, h2, h3⟩ := keep_support s _ r hr
    exact ⟨h1.nodup (ins_nodup hnd), fun x hx => mem_ins.mp (h1.subset hx), h2, h3⟩
  · rw [if_neg hc] at hr
    simp only [dpure, List.mem_singleton] at hr; subst hr
    exact ⟨hnd.erase v, fun x hx => Or.inl (List.mem_of_mem_erase hx), rfl, Nat.le_succ _⟩

theorem add_mass (q : Nat → ℚ) (s : St) (v : Nat) : E (addD q s v) (fun _ => 1) = 1 := by
  unfold addD
  rw [E_bind]
  by_cases h0 : s.k = 0
  · simp only [h0, if_true, E_pure]; rw [keep_mass]
  · simp only [if_neg h0, E_coin, if_true, Bool.false_eq_true, if_false, E_pure]; rw [keep_mass]; ring

theorem nonneg_addD (q : Nat → ℚ) (h0 : ∀ k, 0 ≤ q k) (h1 : ∀ k, q k ≤ 1) (s : St) (v : Nat) :
    NonNeg (addD q s v) := by
  unfold addD
  apply nonneg_dbind
  · split
    · exact nonneg_pure _
    · exact nonneg_coin (h0 _) (h1 _)
  · intro p _
    split
    · exact nonneg_keepD _ _
    · exact nonneg_pure _

/-! ### whole streams -/

def runD (q : Nat → ℚ) : St → List Nat → Dist St
  | s, [] => dpure s
  | s, v :: vs => dbind (addD q s v) (fun s' => runD q s' vs)

theorem run_mass (q : Nat → ℚ) : ∀ (vs : List Nat) (s : St), E (runD q s vs) (fun _ => 1) = 1 := by
  intro vs
  induction vs with
  | nil => intro s; simp [runD]
  | cons v vs ih =>
    intro s
    simp only [runD]
    rw [E_bind, E_congr _ _ (fun _ => 1) (fun p _ => ih p.2)]
    exact add_mass q s v

theorem run_support (q : Nat → ℚ) : ∀ (vs : List Nat) (s : St), s.buf.Nodup →
    ∀ p ∈ runD q s vs, p.2.buf.Nodup ∧ (∀ x ∈ p.2.buf, x ∈ s.buf ∨ x ∈ vs) := by
  intro vs
  induction vs with
  | nil =>
    intro s hnd p hp
    simp only [runD, dpure, List.mem_singleton] at hp; subst hp
    exact ⟨hnd, fun x hx => Or.inl hx⟩
  | cons v vs ih =>
    intro s hnd p hp
    simp only [runD] at hp
    obtain ⟨r, hr, p', hp', e, _⟩ := mem_dbind hp
    obtain ⟨h1, h2, _, _⟩ := add_support q s v hnd r hr
    obtain ⟨h3, h4⟩ := ih r.2 h1 p' hp'
    rw [e]
    refine ⟨h3, fun x hx => ?_⟩
    rcases h4 x hx with h | h
    · rcases h2 x h with h | h
      · exact Or.inl h
      · exact Or.inr (by simp [h])
    · exact Or.inr (by simp [h])

theorem nonneg_runD (q : Nat → ℚ) (h0 : ∀ k, 0 ≤ q k) (h1 : ∀ k, q k ≤ 1) :
    ∀ (vs : List Nat) (s : St), NonNeg (runD q s vs) := by
  intro vs
  induction vs with
  | nil => intro s; exact nonneg_pure _
  | cons v vs ih =>
    intro s
    simp only [runD]
    exact nonneg_dbind (nonneg_addD q h0 h1 s v) (fun p _ => ih p.2)

/-- **Unbiasedness of the algorithm's logic, per value**: if the level-k coin has probability exactly 2^{-k},
    then for every stream and every x, E[2^k·1_{x∈buf}] is 1 if x occurred and is unchanged otherwise. -/
theorem run_phi (q : Nat → ℚ) (hq : ∀ k, k ≠ 0 → 2 ^ k * q k = 1) (x : Nat) :
    ∀ (vs : List Nat) (s : St), s.buf.Nodup →
    E (runD q s vs) (phi x) = if x ∈ vs then 1 else phi x s := by
  intro vs
  induction vs with
  | nil => intro s _; simp [runD]
  | cons v vs ih =>
    intro s hnd
    simp only [runD]
    rw [E_bind]
    rw [E_congr _ _ (fun s' => if x ∈ vs then 1 else phi x s')
      (fun p hp => ih p.2 (add_support q s v hnd p hp).1)]
    by_cases hxs : x ∈ vs
    · simp only [hxs, if_true, List.mem_cons, or_true]
      exact add_mass q s v
    · simp only [hxs, if_false, List.mem_cons, or_false]
      by_cases hxv : x = v
      · subst hxv
        simp only [if_true]
        rw [step_self q s x hnd]
        unfold g
        split
        · rfl
        · exact hq _ (by assumption)
      · simp only [hxv, if_false]
        exact step_other q s v x hnd hxv

/-- the (unbounded, rational) estimate `Len · 2^k` -/
def countQ (s : St) : ℚ := 2 ^ s.k * (s.buf.length : ℚ)

/-- `Len·2^k = Σ_{x ∈ S} 2^k·1_{x∈buf}` for any finite `S ⊇ buf` -/
theorem countQ_eq_sum (s : St) (S : Finset Nat) (hnd : s.buf.Nodup) (hsub : ∀ x ∈ s.buf, x ∈ S) :
    countQ s = ∑ x ∈ S, phi x s := by
  unfold countQ phi ind
  rw [← Finset.mul_sum, Finset.sum_boole]
  congr 2
  rw [← List.toFinset_card_of_nodup hnd]
  congr 1
  ext x
  simp only [List.mem_toFinset, Finset.mem_filter]
  exact ⟨fun h => ⟨hsub x h, h⟩, fun h => h.2⟩

/-- expectation of the estimate as a sum over the distinct values of the stream -/
theorem E_count_eq_sum (q : Nat → ℚ) (size : Nat) (vs : List Nat) :
    E (runD q (new size) vs) countQ = ∑ x ∈ vs.toFinset, E (runD q (new size) vs) (phi x) := by
  rw [← E_finset_sum]
  apply E_congr
  intro p hp
  obtain ⟨h1, h2⟩ := run_support q vs (new size) List.nodup_nil p hp
  apply countQ_eq_sum _ _ h1
  intro x hx
  rcases h2 x hx with h | h
  · exact absurd h (by simp [new])
  · exact List.mem_toFinset.mpr h

/-- **E[Count] = D** for exact `2^-k` coins: every stream, every buffer size. -/
theorem unbiased (q : Nat → ℚ) (hq : ∀ k, k ≠ 0 → 2 ^ k * q k = 1) (size : Nat) (vs : List Nat) :
    E (runD q (new size) vs) countQ = (vs.toFinset.card : ℚ) := by
  rw [E_count_eq_sum]
  rw [Finset.sum_congr rfl (fun x hx => by
    rw [run_phi q hq x vs (new size) List.nodup_nil, if_pos (List.mem_toFinset.mp hx)])]
  simp

/-! ### the code's fixed-point coin `qFix k = pOf k / 2^64 = 2^-k − 2^-64` -/

/-- martingale part for an arbitrary coin: a value that does not occur in the stream keeps its φ -/
theorem run_phi_notin (q : Nat → ℚ) (x : Nat) :
    ∀ (vs : List Nat) (s : St), s.buf.Nodup → x ∉ vs → E (runD q s vs) (phi x) = phi x s := by
  intro vs
  induction vs with
  | nil => intro s _ _; simp [runD]
  | cons v vs ih =>
    intro s hnd hx
    have hxv : x ≠ v := fun e => hx (by simp [e])
    have hxs : x ∉ vs := fun e => hx (by simp [e])
    simp only [runD]
    rw [E_bind, E_congr _ _ (phi x) (fun p hp => ih p.2 (add_support q s v hnd p hp).1 hxs)]
    exact step_other q s v x hnd hxv

theorem E_const {α} (d : Dist α) (c : ℚ) (hm : E d (fun _ => 1) = 1) : E d (fun _ => c) = c := by
  have := E_smul c d (fun _ => 1)
  simp only [mul_one] at this
  rw [this, hm, mul_one]

/-- upper bound: with a coin that never over-weights (`2^k q_k ≤ 1`), `E[2^k·1_{x∈buf}] ≤ 1` -/
theorem run_phi_le (q : Nat → ℚ) (h0 : ∀ k, 0 ≤ q k) (h1 : ∀ k, q k ≤ 1) (hg : ∀ k, g q k ≤ 1) (x : Nat) :
    ∀ (vs : List Nat) (s : St), s.buf.Nodup → x ∈ vs → E (runD q s vs) (phi x) ≤ 1 := by
  intro vs
  induction vs with
  | nil => intro s _ hx; simp at hx
  | cons v vs ih =>
    intro s hnd hx
    simp only [runD]
    rw [E_bind]
    by_cases hxs : x ∈ vs
    · calc E (addD q s v) (fun a => E (runD q a vs) (phi x))
          ≤ E (addD q s v) (fun _ => 1) :=
            E_mono _ (nonneg_addD q h0 h1 s v) _ _ (fun p hp => ih p.2 (add_support q s v hnd p hp).1 hxs)
        _ = 1 := add_mass q s v
    · have hxv : x = v := by
        rcases List.mem_cons.mp hx with h | h
        · exact h
        · exact absurd h hxs
      subst hxv
      rw [E_congr _ _ (phi x) (fun p hp => run_phi_notin q x vs p.2 (add_support q s x hnd p hp).1 hxs),
        step_self q s x hnd]
      exact hg _

/-- lower bound: if `c ≤ g q k` at every level `k ≤ K`, then `c ≤ E[2^k·1_{x∈buf}]` for every stream with
    `k₀ + (number of Adds) ≤ K` (each Add raises `k` by at most one) -/
theorem run_phi_ge (q : Nat → ℚ) (h0 : ∀ k, 0 ≤ q k) (h1 : ∀ k, q k ≤ 1) (c : ℚ) (K : Nat)
    (hlow : ∀ k, k ≤ K → c ≤ g q k) (x : Nat) :
    ∀ (vs : List Nat) (s : St), s.buf.Nodup → x ∈ vs → s.k + vs.length ≤ K →
      c ≤ E (runD q s vs) (phi x) := by
  intro vs
  induction vs with
  | nil => intro s _ hx; simp at hx
  | cons v vs ih =>
    intro s hnd hx hK
    simp only [List.length_cons] at hK
    simp only [runD]
    rw [E_bind]
    by_cases hxs : x ∈ vs
    · calc c = E (addD q s v) (fun _ => c) := (E_const _ c (add_mass q s v)).symm
        _ ≤ E (addD q s v) (fun a => E (runD q a vs) (phi x)) :=
            E_mono _ (nonneg_addD q h0 h1 s v) _ _ (fun p hp => by
              obtain ⟨hn, _, _, hk⟩ := add_support q s v hnd p hp
              exact ih p.2 hn hxs (by omega))
    · have hxv : x = v := by
        rcases List.mem_cons.mp hx with h | h
        · exact h
        · exact absurd h hxs
      subst hxv
      rw [E_congr _ _ (phi x) (fun p hp => run_phi_notin q x vs p.2 (add_support q s x hnd p hp).1 hxs),
        step_self q s x hnd]
      exact hlow _ (by omega)

/-- the keep-probability of the code's coin at level `k`: the threshold over `2^64` -/
def qFix (k : Nat) : ℚ := (pOf k : ℚ) / 2 ^ 64

/-- `qFix k` is the fraction of 64-bit words on which the model's coin test `pOf k ≤ word` fails (keep) -/
theorem coin_fraction (k : Nat) :
    ((Finset.range (2 ^ 64)).filter (fun w => ¬ pOf k ≤ w)).card = pOf k := by
  have hp : pOf k ≤ 2 ^ 64 := by
    unfold pOf
    exact Nat.le_trans (Nat.shiftRight_le _ _) (by decide)
  have : (Finset.range (2 ^ 64)).filter (fun w => ¬ pOf k ≤ w) = Finset.range (pOf k) := by
    ext w
    simp only [Finset.mem_filter, Finset.mem_range]
    omega
  rw [this, Finset.card_range]

theorem pOf_cast (k : Nat) (hk : k ≤ 64) : (pOf k : ℚ) = 2 ^ (64 - k) - 1 := by
  have := pOf_succ_eq k (by omega)
  have h2 : ((pOf k + 1 : Nat) : ℚ) = ((2 ^ (64 - k) : Nat) : ℚ) := by rw [this]
  push_cast at h2
  linarith

theorem qFix_nonneg (k : Nat) : 0 ≤ qFix k := by
  unfold qFix; positivity

theorem qFix_le_one (k : Nat) : qFix k ≤ 1 := by
  unfold qFix
  rw [div_le_one (by positivity)]
  have hp : pOf k ≤ 2 ^ 64 := by
    unfold pOf
    exact Nat.le_trans (Nat.shiftRight_le _ _) (by decide)
  exact_mod_cast hp

/-- the level function of the code's coin: `1` at level 0, `1 − 2^k/2^64` at levels `1..64` -/
theorem g_qFix (k : Nat) (hk : k ≤ 64) : g qFix k = if k = 0 then 1 else 1 - 2 ^ k / 2 ^ 64 := by
  unfold g
  split
  · rfl
  · unfold qFix
    rw [pOf_cast k hk]
    have h : (2 : ℚ) ^ k * 2 ^ (64 - k) = 2 ^ 64 := by
      rw [← pow_add]; congr 1; omega
    have h64 : (2 : ℚ) ^ 64 ≠ 0 := by positivity
    field_simp
    linarith

theorem g_qFix_big (k : Nat) (hk : 64 ≤ k) : g qFix k = 0 := by
  unfold g qFix
  rw [if_neg (by omega), pOf_ge64 k hk]
  simp

theorem g_qFix_le_one (k : Nat) : g qFix k ≤ 1 := by
  by_cases hk : k ≤ 64
  · rw [g_qFix k hk]
    split
    · exact le_refl _
    · have : (0 : ℚ) ≤ 2 ^ k / 2 ^ 64 := by positivity
      linarith
  · rw [g_qFix_big k (by omega)]; exact zero_le_one

theorem g_qFix_ge (k K : Nat) (hk : k ≤ K) : 1 - (2 : ℚ) ^ K / 2 ^ 64 ≤ g qFix k := by
  have hpow : (2 : ℚ) ^ k ≤ 2 ^ K := pow_le_pow_right₀ (by norm_num) hk
  have hdiv : (2 : ℚ) ^ k / 2 ^ 64 ≤ 2 ^ K / 2 ^ 64 := div_le_div_of_nonneg_right hpow (by positivity)
  by_cases h64 : k ≤ 64
  · rw [g_qFix k h64]
    split
    · have : (0 : ℚ) ≤ 2 ^ K / 2 ^ 64 := by positivity
      linarith
    · linarith
  · rw [g_qFix_big k (by omega)]
    have h1 : (2 : ℚ) ^ 64 ≤ 2 ^ k := pow_le_pow_right₀ (by norm_num) (by omega)
    have h2 : (1 : ℚ) ≤ 2 ^ k / 2 ^ 64 := by
      rw [le_div_iff₀ (by positivity)]; linarith
    linarith

/-- **Two-sided bound for the code's coin** (`q_k = 2^-k − 2^-64`): for every stream of `n` Adds with `D`
    distinct values and every buffer size, `D·(1 − 2^n/2^64) ≤ E[Count] ≤ D`. -/
theorem bias_bound (size : Nat) (vs : List Nat) :
    (vs.toFinset.card : ℚ) * (1 - 2 ^ vs.length / 2 ^ 64) ≤ E (runD qFix (new size) vs) countQ ∧
    E (runD qFix (new size) vs) countQ ≤ (vs.toFinset.card : ℚ) := by
  rw [E_count_eq_sum]
  constructor
  · have := Finset.sum_le_sum (s := vs.toFinset) (f := fun _ => (1 : ℚ) - 2 ^ vs.length / 2 ^ 64)
      (g := fun x => E (runD qFix (new size) vs) (phi x))
      (fun x hx => run_phi_ge qFix qFix_nonneg qFix_le_one _ vs.length
        (fun k hk => g_qFix_ge k vs.length hk) x vs (new size) List.nodup_nil (List.mem_toFinset.mp hx)
        (by simp [new]))
    rw [Finset.sum_const, nsmul_eq_mul] at this
    exact this
  · have := Finset.sum_le_sum (s := vs.toFinset) (f := fun x => E (runD qFix (new size) vs) (phi x))
      (g := fun _ => (1 : ℚ))
      (fun x hx => run_phi_le qFix qFix_nonneg qFix_le_one g_qFix_le_one x vs (new size) List.nodup_nil
        (List.mem_toFinset.mp hx))
    simpa [Finset.sum_const, nsmul_eq_mul] using this

end MdsVerif.Proofs.DistinctExp
