import MdsVerif.Proofs.MdiffApply
/-!
# What `Read` returns for `Normal`'s output describes the same patch (C14, composed round trip)

`Props.C14.normal_roundtrip` says `Read(Normal(cs))` returns `normalChunks cs` (one chunk per change
command).  Here: if `cs` is `AllOK` and `Aligned` for `L`, `R`, so is `normalChunks cs` — hence
`patch L (normalChunks cs) = R`: parsing the normal rendering back gives chunks that still describe
the change from `L` to `R`, at the line ranges of the individual commands.
-/
namespace MdsVerif.Proofs.MdiffNormalRT
open MdsVerif.Model.Edit MdsVerif.Model.Mdiff MdsVerif.Model.MdiffFmt MdsVerif.Proofs.MdiffFmt
open MdsVerif.Spec MdsVerif.Spec.Mdiff MdsVerif.Proofs.Mdiff MdsVerif.Proofs.MdiffApply

theorem aligned_of_gap {L R : List Line} {a b c d : Nat} (ha : 1 ≤ a) (hb : 1 ≤ b)
    (hg : GapEq L R a b c d) : ∀ (rest : List (Chunk Line)), Aligned L R c d rest → Aligned L R a b rest
  | [], h => by
    obtain ⟨g1, g2, _, g4⟩ := hg
    show L.drop (a - 1) = R.drop (b - 1)
    have h : L.drop (c - 1) = R.drop (d - 1) := h
    rw [← span_drop L ha g1, ← span_drop R hb g2, g4, h]
  | x :: xs, h => ⟨GapEq.trans ha hb hg h.1, h.2⟩

theorem normalChunksOf_ok {L R : List Line} (es : List (Edit Line)) :
    ∀ (lp rp le re lp0 rp0 : Nat) (rest : List (Chunk Line)),
      1 ≤ lp0 → 1 ≤ rp0 → 1 ≤ lp → 1 ≤ rp →
      consumed es = span L lp le → produced es = span R rp re →
      lp ≤ le → le ≤ L.length + 1 → rp ≤ re → re ≤ R.length + 1 →
      GapEq L R lp0 rp0 lp rp → Aligned L R le re rest →
      (∀ c ∈ normalChunksOf es lp rp, ChunkOK c L R) ∧
      Aligned L R lp0 rp0 (normalChunksOf es lp rp ++ rest) := by
  induction es with
  | nil =>
    intro lp rp le re lp0 rp0 rest h0 h0' hl hr hc hp h1 h2 h3 h4 hg hal
    have e1 := span_nil_eq hc hl h1 h2
    have e2 := span_nil_eq hp hr h3 h4
    subst e1; subst e2
    exact ⟨(by intro c hc; cases hc), by simpa [normalChunksOf] using aligned_of_gap h0 h0' hg rest hal⟩
  | cons e es ih =>
    intro lp rp le re lp0 rp0 rest h0 h0' hl hr hc hp h1 h2 h3 h4 hg hal
    rw [consumed_cons] at hc
    rw [produced_cons] at hp
    obtain ⟨c1, c2, c3⟩ := span_split hc hl h1 h2
    obtain ⟨p1, p2, p3⟩ := span_split hp hr h3 h4
    obtain ⟨op, X, Y⟩ := e
    cases op with
    | drop =>
      simp only [consumedOf, producedOf, List.length_nil, Nat.add_zero] at c1 c2 c3 p1 p2 p3
      obtain ⟨i1, i2⟩ := ih (lp + X.length) rp le re (lp + X.length) rp rest (by omega) hr (by omega) hr
        c3 p3 c1 h2 h3 h4 (GapEq.refl L R _ _) hal
      simp only [normalChunksOf]
      refine ⟨?_, hg, i2⟩
      intro c hc
      rcases List.mem_cons.1 hc with rfl | hc
      · exact ⟨hl, by simp, by show lp + X.length ≤ _; omega, hr, Nat.le_refl _, by show rp ≤ _; omega,
          by show consumed [_] = _; rw [consumed_single]; exact c2,
          by show produced [_] = span R rp rp; rw [produced_single, span_self]; rfl⟩
      · exact i1 c hc
    | emit =>
      simp only [consumedOf, producedOf] at c1 c2 c3 p1 p2 p3
      have hg2 : GapEq L R lp rp (lp + X.length) (rp + X.length) :=
        ⟨by omega, by omega, by omega, by rw [← c2, ← p2]⟩
      simp only [normalChunksOf]
      exact ih _ _ le re lp0 rp0 rest h0 h0' (by omega) (by omega) c3 p3 c1 h2 p1 h4
        (GapEq.trans h0 h0' hg hg2) hal
    | copy =>
      simp only [consumedOf, producedOf, List.length_nil, Nat.add_zero] at c1 c2 c3 p1 p2 p3
      obtain ⟨i1, i2⟩ := ih lp (rp + Y.length) le re lp (rp + Y.length) rest hl (by omega) hl (by omega)
        c3 p3 h1 h2 p1 h4 (GapEq.refl L R _ _) hal
      simp only [normalChunksOf]
      refine ⟨?_, hg, i2⟩
      intro c hc
      rcases List.mem_cons.1 hc with rfl | hc
      · exact ⟨hl, Nat.le_refl _, by show lp ≤ _; omega, hr, by simp, by show rp + Y.length ≤ _; omega,
          by show consumed [_] = span L lp lp; rw [consumed_single, span_self]; rfl,
          by show produced [_] = _; rw [produced_single]; exact p2⟩
      · exact i1 c hc
    | replace =>
      simp only [consumedOf, producedOf] at c1 c2 c3 p1 p2 p3
      obtain ⟨i1, i2⟩ := ih (lp + X.length) (rp + Y.length) le re (lp + X.length) (rp + Y.length) rest
        (by omega) (by omega) (by omega) (by omega) c3 p3 c1 h2 p1 h4 (GapEq.refl L R _ _) hal
      simp only [normalChunksOf]
      refine ⟨?_, hg, i2⟩
      intro c hc
      rcases List.mem_cons.1 hc with rfl | hc
      · exact ⟨hl, by simp, by show lp + X.length ≤ _; omega, hr, by simp,
          by show rp + Y.length ≤ _; omega,
          by show consumed [_] = _; rw [consumed_single]; exact c2,
          by show produced [_] = _; rw [produced_single]; exact p2⟩
      · exact i1 c hc

theorem normalChunks_ok {L R : List Line} : ∀ (cs : List (Chunk Line)) (lp rp : Nat), 1 ≤ lp → 1 ≤ rp →
    AllOK cs L R → Aligned L R lp rp cs →
    AllOK (normalChunks cs) L R ∧ Aligned L R lp rp (normalChunks cs)
  | [], _, _, _, _, _, hal => ⟨(by intro c hc; cases hc), hal⟩
  | c :: cs, lp, rp, hl, hr, hok, hal => by
    have hc := hok c (List.mem_cons_self ..)
    obtain ⟨hg, hal'⟩ := hal
    have o1 := hc.l1; have o2 := hc.l2; have o4 := hc.r1; have o5 := hc.r2
    obtain ⟨i1, i2⟩ := normalChunks_ok cs c.lend c.rend (by omega) (by omega)
      (fun d hd => hok d (List.mem_cons_of_mem _ hd)) hal'
    obtain ⟨j1, j2⟩ := normalChunksOf_ok c.edits c.lstart c.rstart c.lend c.rend lp rp (normalChunks cs)
      hl hr o1 o4 hc.cons hc.prod o2 hc.l3 o5 hc.r3 hg i2
    have e : normalChunks (c :: cs) = normalChunksOf c.edits c.lstart c.rstart ++ normalChunks cs := by
      simp [normalChunks]
    rw [e]
    refine ⟨?_, j2⟩
    intro d hd
    rcases List.mem_append.1 hd with hd | hd
    · exact j1 d hd
    · exact i1 d hd

/-- the lines of a chunk of Emit-free `EditOK` edits that is `ChunkOK` are lines of `L` and `R` -/
theorem editsNoNl_of_ok {L R : List Line} {c : Chunk Line} (hc : ChunkOK c L R)
    (hed : ∀ e ∈ c.edits, EditOK e) (hno : ∀ e ∈ c.edits, e.op ≠ .emit)
    (hL : ∀ l ∈ L, NoNl l) (hR : ∀ l ∈ R, NoNl l) : EditsNoNl c.edits := by
  have hcons : ∀ l ∈ consumed c.edits, NoNl l := by
    intro l hl
    rw [hc.cons] at hl
    exact hL l (List.mem_of_mem_drop (List.mem_of_mem_take hl))
  have hprod : ∀ l ∈ produced c.edits, NoNl l := by
    intro l hl
    rw [hc.prod] at hl
    exact hR l (List.mem_of_mem_drop (List.mem_of_mem_take hl))
  intro e he
  have h1 : ∀ l ∈ consumedOf e, NoNl l := fun l hl =>
    hcons l (List.mem_flatMap.2 ⟨e, he, hl⟩)
  have h2 : ∀ l ∈ producedOf e, NoNl l := fun l hl =>
    hprod l (List.mem_flatMap.2 ⟨e, he, hl⟩)
  have hok := hed e he
  have hne := hno e he
  obtain ⟨op, X, Y⟩ := e
  cases op with
  | drop =>
    simp only [EditOK] at hok
    obtain ⟨_, rfl⟩ := hok
    exact ⟨h1, by intro l hl; cases hl⟩
  | emit => exact absurd rfl hne
  | copy =>
    simp only [EditOK] at hok
    obtain ⟨_, rfl⟩ := hok
    exact ⟨(by intro l hl; cases hl), h2⟩
  | replace => exact ⟨h1, h2⟩

end MdsVerif.Proofs.MdiffNormalRT
