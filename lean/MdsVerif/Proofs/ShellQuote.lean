import MdsVerif.Proofs.ShellFsm
/-!
# `Quote`/`Join` against the table-driven tokenizer and against `posixWord`

The character sets (`allQuote = mustQuote ++ shouldQuote ++ spaces`), the quote
and escape bytes, the spelling of the empty string and the separator come from
`Gen.ShellTable` (regenerated from the Go constants); the set of bytes special
to a POSIX shell comes from `Spec.Posix.specials` (written from the standard).
`specials_covered` is where a metacharacter deleted from the Go constants
breaks the proof.
-/
namespace MdsVerif.Proofs.ShellQuote
open MdsVerif.Gen.ShellTable MdsVerif.Model.Shell MdsVerif.Spec.Posix MdsVerif.Proofs.ShellFsm

theorem quoteByte_eq : quoteByte = 39 := rfl
theorem quoteByteLoop_eq : quoteByteLoop = 39 := rfl
theorem escapeByte_eq : escapeByte = 92 := rfl
theorem emptyQuoted_eq : emptyQuoted = [39, 39] := rfl
theorem joinSep_eq : joinSep = 32 := rfl

theorem class39 : classOf 39 = .clSingle := by decide
theorem class92 : classOf 92 = .clQuote := by decide
theorem class32 : classOf 32 = .clBreak := by decide

/-- a byte that needs no quoting is of class `clOther` -/
theorem class_plain (c : UInt8) (h1 : c ≠ 39) (h2 : allQuote.contains c = false) : classOf c = .clOther := by
  simp only [allQuote, mustQuote, shouldQuote, spaces, List.cons_append, List.nil_append,
    List.contains_cons, List.contains_nil, Bool.or_false, Bool.or_eq_false_iff,
    beq_eq_false_iff_ne, ne_eq] at h2
  unfold classOf
  have h32 : c ≠ 32 := by intro h; simp [h] at h2
  have h9 : c ≠ 9 := by intro h; simp [h] at h2
  have h10 : c ≠ 10 := by intro h; simp [h] at h2
  have h92 : c ≠ 92 := by intro h; simp [h] at h2
  have h34 : c ≠ 34 := by intro h; simp [h] at h2
  simp [h32, h9, h10, h92, h34, h1]

/-- inside single quotes every byte except `'` is pushed -/
theorem single_push (c : UInt8) (h : c ≠ 39) (acc rest : Bytes) :
    run .stSingle acc (c :: rest) = run .stSingle (c :: acc) rest := by
  rcases classOf_cases c with ⟨h', hc⟩ | ⟨h', hc⟩ | ⟨h', hc⟩ | ⟨h', hc⟩ | ⟨h', hc⟩ | ⟨h', hc⟩ | ⟨_, _, _, _, _, _, hc⟩
  all_goals first | (exact absurd h' h) | (simp [run, update, hc])

def Plain (other : Bool) (s : Bytes) : Prop :=
  other = false → ∀ c ∈ s, c ≠ 39 → allQuote.contains c = false

/-- main loop lemma, started in `stWord` (not in quotes) or `stSingle` (in quotes) -/
theorem qloop_run (other : Bool) : ∀ (s : Bytes) (inq : Bool) (acc rest : Bytes), Plain other s →
    run (if inq then .stSingle else .stWord) acc (qloop other inq s ++ rest) = run .stWord (s.reverse ++ acc) rest := by
  intro s
  induction s with
  | nil =>
    intro inq acc rest _
    cases inq <;> simp [qloop, quoteByteLoop_eq, run, update, class39]
  | cons ch s ih =>
    intro inq acc rest hp
    have hp' : Plain other s := fun ho c hc => hp ho c (by simp [hc])
    by_cases h39 : ch = 39
    · subst h39
      cases inq
      · have := ih false (39 :: acc) rest hp'
        simp only [Bool.false_eq_true, if_false] at this
        simp [qloop, quoteByteLoop_eq, escapeByte_eq, run, update, class39, class92, this]
      · have := ih false (39 :: acc) rest hp'
        simp only [Bool.false_eq_true, if_false] at this
        simp [qloop, quoteByteLoop_eq, escapeByte_eq, run, update, class39, class92, this]
    · cases inq
      · cases other
        · have hplain := class_plain ch h39 (hp rfl ch (by simp) h39)
          have := ih false (ch :: acc) rest hp'
          simp only [Bool.false_eq_true, if_false] at this
          simp [qloop, quoteByteLoop_eq, h39, run, update, hplain, this]
        · have := ih true (ch :: acc) rest hp'
          simp only [if_true] at this
          have e1 : ∀ X, run .stWord acc (39 :: X) = run .stSingle acc X := by
            intro X; simp [run, update, class39]
          simp only [qloop, quoteByteLoop_eq, h39, if_false, Bool.not_false, Bool.and_self, if_true, Bool.false_eq_true,
            List.cons_append, List.nil_append]
          rw [e1, single_push ch h39, this]
          simp
      · have := ih true (ch :: acc) rest hp'
        simp only [if_true] at this
        simp [qloop, quoteByteLoop_eq, h39, single_push ch h39, this]

theorem plain_of_hasOther {s : Bytes} (h : hasOther s = false) : Plain false s := by
  intro _ c hc h39
  simp only [hasOther, List.any_eq_false] at h
  have := h c hc
  simpa [quoteByte_eq, h39] using this

theorem plain_true (s : Bytes) : Plain true s := fun h => by cases h

theorem no_quote_of_hasQ {s : Bytes} (h : hasQ s = false) : ∀ c ∈ s, c ≠ 39 := by
  intro c hc h39
  subst h39
  simp only [hasQ, List.any_eq_false] at h
  have := h 39 hc
  simp [quoteByte_eq] at this

/-- pushing a run of plain bytes -/
theorem plain_run : ∀ (s acc rest : Bytes), (∀ c ∈ s, c ≠ 39 ∧ allQuote.contains c = false) →
    run .stWord acc (s ++ rest) = run .stWord (s.reverse ++ acc) rest := by
  intro s
  induction s with
  | nil => intro acc rest _; simp
  | cons c s ih =>
    intro acc rest h
    have hc := h c (by simp)
    have := ih (c :: acc) rest (fun d hd => h d (by simp [hd]))
    simp [run, update, class_plain c hc.1 hc.2, this]

/-- `Quote(s)` read from inside a word appends exactly `s` to the current token -/
theorem quote_run_word (s acc rest : Bytes) :
    run .stWord acc (quote s ++ rest) = run .stWord (s.reverse ++ acc) rest := by
  unfold quote
  by_cases hs : s = []
  · subst hs; simp [emptyQuoted_eq, run, update, class39]
  · simp only [if_neg hs]
    by_cases hraw : (!hasQ s && !hasOther s) = true
    · simp only [hraw, if_true]
      apply plain_run
      intro c hc
      simp only [Bool.and_eq_true, Bool.not_eq_true'] at hraw
      have hq : c ≠ 39 := no_quote_of_hasQ hraw.1 c hc
      exact ⟨hq, plain_of_hasOther hraw.2 rfl c hc hq⟩
    · simp only [hraw, Bool.false_eq_true, if_false]
      have hp : Plain (hasOther s) s := by
        cases ho : hasOther s
        · exact plain_of_hasOther ho
        · exact plain_true s
      have := qloop_run (hasOther s) s false acc rest hp
      simpa using this

/-- … and the same from a break: the quoted text starts a new token -/
theorem quote_run_brk (s rest : Bytes) :
    run .stBreak [] (quote s ++ rest) = run .stWord s.reverse rest := by
  have hw := quote_run_word s [] rest
  simp only [List.append_nil] at hw
  rw [← hw]
  unfold quote
  by_cases hs : s = []
  · subst hs; simp [emptyQuoted_eq, run, update, class39]
  · simp only [if_neg hs]
    match s, hs with
    | c :: t, _ =>
    by_cases hraw : (!hasQ (c :: t) && !hasOther (c :: t)) = true
    · simp only [hraw, if_true]
      simp only [Bool.and_eq_true, Bool.not_eq_true'] at hraw
      have hq : c ≠ 39 := no_quote_of_hasQ hraw.1 c (by simp)
      have hpl := class_plain c hq (plain_of_hasOther hraw.2 rfl c (by simp) hq)
      simp [run, update, hpl]
    · simp only [hraw, Bool.false_eq_true, if_false]
      by_cases h39 : c = 39
      · subst h39; simp [qloop, quoteByteLoop_eq, escapeByte_eq, run, update, class39, class92]
      · cases ho : hasOther (c :: t)
        · have hpl := class_plain c h39 (plain_of_hasOther ho rfl c (by simp) h39)
          simp [qloop, quoteByteLoop_eq, h39, run, update, hpl]
        · simp [qloop, quoteByteLoop_eq, h39, run, update, class39]

/-- the rest of a `Join`, read from inside the previous word -/
theorem run_joinRest : ∀ (ss : List Bytes) (acc : Bytes),
    run .stWord acc (joinRest ss) = (acc.reverse :: ss, .stWord) := by
  intro ss
  induction ss with
  | nil => intro acc; simp [joinRest, run, eofNoToken]
  | cons s ss ih =>
    intro acc
    simp only [joinRest, joinSep_eq, run, update, class32]
    rw [quote_run_brk, ih]
    simp

/-- **Split ∘ Join** on the fused transducer -/
theorem run_join (ss : List Bytes) :
    run .stBreak [] (join ss) = (ss, if ss = [] then St.stBreak else St.stWord) := by
  cases ss with
  | nil => simp [join, run, eofNoToken]
  | cons s ss =>
    simp only [join]
    rw [quote_run_brk, run_joinRest]
    simp

/-! ### POSIX evaluation of the quoted word -/

/-- every special byte other than `'` is in the Go quoting set (fails if a metacharacter is deleted
    from `mustQuote`/`shouldQuote`/`spaces`) -/
theorem specials_covered (c : UInt8) (h : specials.contains c = true) (h39 : c ≠ 39) :
    allQuote.contains c = true := by
  simp only [specials, List.contains_cons, List.contains_nil, Bool.or_false, Bool.or_eq_true,
    beq_iff_eq] at h
  rcases h with h | h | h | h | h | h | h | h | h | h | h | h | h | h | h | h | h | h | h | h | h | h
  all_goals first | (exact absurd h h39) | (subst h; decide)

theorem pw_qloop (other : Bool) : ∀ (s : Bytes) (inq : Bool), Plain other s →
    pw inq (qloop other inq s) = some s := by
  intro s
  induction s with
  | nil => intro inq _; cases inq <;> simp [qloop, quoteByteLoop_eq, pw]
  | cons ch s ih =>
    intro inq hp
    have hp' : Plain other s := fun ho c hc => hp ho c (by simp [hc])
    by_cases h39 : ch = 39
    · subst h39
      cases inq <;> simp [qloop, quoteByteLoop_eq, escapeByte_eq, pw, ih false hp']
    · cases inq
      · cases other
        · have hnot : allQuote.contains ch = false := hp rfl ch (by simp) h39
          have hns : specials.contains ch = false := by
            cases hsp : specials.contains ch
            · rfl
            · have := specials_covered ch hsp h39; rw [hnot] at this; cases this
          have h92 : ch ≠ 92 := by intro h; subst h; revert hnot; decide
          have e : qloop false false (ch :: s) = ch :: qloop false false s := by
            simp [qloop, quoteByteLoop_eq, h39]
          rw [e, pw.eq_def]
          have hns' : ¬ ch ∈ specials := by
            intro hm; rw [List.contains_iff_mem.mpr hm] at hns; cases hns
          simp [h39, h92, hns', ih false hp']
        · simp [qloop, quoteByteLoop_eq, pw, h39, ih true hp']
      · simp [qloop, quoteByteLoop_eq, pw, h39, ih true hp']

theorem qloop_raw : ∀ (t : Bytes), (∀ c ∈ t, c ≠ 39) → qloop false false t = t := by
  intro t
  induction t with
  | nil => intro _; simp [qloop]
  | cons c t ih =>
    intro h
    simp [qloop, quoteByteLoop_eq, h c (by simp), ih (fun d hd => h d (by simp [hd]))]

theorem pw_quote (s : Bytes) : pw false (quote s) = some s := by
  unfold quote
  by_cases hs : s = []
  · subst hs; simp [emptyQuoted_eq, pw]
  · simp only [if_neg hs]
    by_cases hraw : (!hasQ s && !hasOther s) = true
    · simp only [hraw, if_true]
      simp only [Bool.and_eq_true, Bool.not_eq_true'] at hraw
      have := pw_qloop false s false (plain_of_hasOther hraw.2)
      rwa [qloop_raw s (no_quote_of_hasQ hraw.1)] at this
    · simp only [hraw, Bool.false_eq_true, if_false]
      have hp : Plain (hasOther s) s := by
        cases ho : hasOther s
        · exact plain_of_hasOther ho
        · exact plain_true s
      exact pw_qloop (hasOther s) s false hp

end MdsVerif.Proofs.ShellQuote
