import MdsVerif.Proofs.ShellFsm
/-!
# Scanner lemmas: permanence of the end, `Complete`, `Rest`, fragmentation
-/
namespace MdsVerif.Proofs.ShellScanner
open MdsVerif.Gen.ShellTable MdsVerif.Model.Shell MdsVerif.Proofs.ShellFsm

/-! ### the reader delivers the concatenation of its fragments, whatever they are -/

theorem readByteAux_spec : ∀ (chunks : List Bytes) (buf : Bytes),
    match buf ++ chunks.flatten with
    | [] => (readByteAux buf chunks).1 = none
    | c :: r => (readByteAux buf chunks).1 = some c ∧
        (readByteAux buf chunks).2.1 ++ (readByteAux buf chunks).2.2.flatten = r := by
  intro chunks
  induction chunks with
  | nil => intro buf; cases buf <;> simp [readByteAux]
  | cons ch chunks ih =>
    intro buf
    cases buf with
    | nil => simpa [readByteAux] using ih ch
    | cons c b => simp [readByteAux]

/-- the bytes still to be delivered by a reader -/
def pending (r : Reader) : Bytes := r.buf ++ r.chunks.flatten

theorem readByte_spec (r : Reader) :
    match pending r with
    | [] => r.readByte.1 = none
    | c :: rest => r.readByte.1 = some c ∧ pending r.readByte.2 = rest ∧ r.readByte.2.tail = r.tail := by
  have := readByteAux_spec r.chunks r.buf
  unfold pending Reader.readByte
  cases h : r.buf ++ r.chunks.flatten with
  | nil => rw [h] at this; simpa using this
  | cons c rest => rw [h] at this; simpa using this

theorem drainLoop_eq : ∀ (l : Bytes) (r : Reader) (n : Nat), pending r = l → l.length < n → drainLoop n r = l := by
  intro l
  induction l with
  | nil =>
    intro r n hp hn
    obtain ⟨k, rfl⟩ : ∃ k, n = k + 1 := ⟨n - 1, by simp at hn; omega⟩
    have := readByte_spec r
    rw [hp] at this
    rw [drainLoop]
    rcases hr : r.readByte with ⟨o, r'⟩
    rw [hr] at this
    simp only at this
    subst this
    rfl
  | cons c l ih =>
    intro r n hp hn
    obtain ⟨k, rfl⟩ : ∃ k, n = k + 1 := ⟨n - 1, by simp at hn; omega⟩
    have := readByte_spec r
    rw [hp] at this
    rw [drainLoop]
    rcases hr : r.readByte with ⟨o, r'⟩
    rw [hr] at this
    obtain ⟨h1, h2, _⟩ := this
    simp only at h1 h2
    subst h1
    simp only
    rw [ih r' k h2 (by simp at hn; omega)]

/-- `ReadByte` after `ReadByte` delivers `buf ++ chunks.flatten`: the fragmentation is invisible -/
theorem drain_eq (r : Reader) : r.drain = r.buf ++ r.chunks.flatten := by
  unfold Reader.drain
  exact drainLoop_eq _ r _ rfl (by simp)

/-! ### once `Next` has returned false it returns false forever -/

theorem nextLoop_false (tail : Tail) : ∀ (rem : Bytes) (st : St) (acc : Bytes),
    (nextLoop tail st acc rem).2 = .ret false → (nextLoop tail st acc rem).1.err ≠ .nil := by
  intro rem
  induction rem with
  | nil => intro st acc; cases tail <;> simp [nextLoop]
  | cons c r ih =>
    intro st acc
    rcases hu : update st (classOf c) with ⟨st', a⟩
    cases a <;> simp only [nextLoop, hu] <;> first | exact ih _ _ | simp

theorem next_false_dead (s : Scanner) (h : s.next.2 = .ret false) : s.next.1.err ≠ .nil := by
  by_cases he : s.err = .nil
  · rw [next_live s he] at h ⊢
    exact nextLoop_false _ _ _ _ h
  · rw [next_dead s he]; exact he

theorem splitLoop_dead (n : Nat) (s : Scanner) (h : s.err ≠ .nil) : splitLoop n s = (s, [], false) := by
  cases n with
  | zero => rfl
  | succ k => rw [splitLoop_succ, next_dead s h]; rfl

theorem eachLoop_dead (n k : Nat) (s : Scanner) (h : s.err ≠ .nil) : eachLoop n k s = (s, [], false) := by
  cases n with
  | zero => rfl
  | succ m => rw [eachLoop.eq_def]; simp only [next_dead s h]

/-- an operation other than `Reset` -/
def Op.noReset : Op → Bool
  | .reset _ _ => false
  | _ => true

/-- the output yields no token: `Next` false, `Split`/`Each` empty (and no panic) -/
def Out.noToken : Out → Prop
  | .next o => o = .ret false
  | .toks ts p => ts = [] ∧ p = false
  | _ => True

theorem dead_step (s : Scanner) (op : Op) (h : s.err ≠ .nil) (hop : Op.noReset op = true) :
    (s.step op).1.err ≠ .nil ∧ Out.noToken (s.step op).2 := by
  cases op with
  | next => simp [Scanner.step, next_dead s h, h, Out.noToken]
  | split => simp [Scanner.step, Scanner.split, splitLoop_dead _ s h, h, Out.noToken]
  | each k => simp [Scanner.step, Scanner.each, eachLoop_dead _ _ s h, h, Out.noToken]
  | rest => simp [Scanner.step, Scanner.rest, Out.noToken]
  | reset _ _ => simp [Op.noReset] at hop

theorem dead_run : ∀ (ops : List Op) (s : Scanner), s.err ≠ .nil → (∀ op ∈ ops, Op.noReset op = true) →
    (s.runOps ops).1.err ≠ .nil ∧ ∀ o ∈ (s.runOps ops).2, Out.noToken o := by
  intro ops
  induction ops with
  | nil => intro s h _; simp [Scanner.runOps, h]
  | cons op ops ih =>
    intro s h hops
    have h1 := dead_step s op h (hops op (by simp))
    have h2 := ih (s.step op).1 h1.1 (fun o ho => hops o (by simp [ho]))
    simp only [Scanner.runOps]
    refine ⟨h2.1, ?_⟩
    intro o ho
    simp only [List.mem_cons] at ho
    rcases ho with rfl | ho
    · exact h1.2
    · exact h2.2 o ho

/-! ### `Complete` -/

/-- every `emit` transition lands in a state in which `Complete` reports true -/
theorem emit_complete (st : St) (cl : Cl) (h : (update st cl).2 = .emit) :
    completeStates.contains (update st cl).1 = true := by
  cases st <;> cases cl <;> first | (exact absurd h (by decide)) | decide

theorem nextLoop_mid_complete (tail : Tail) : ∀ (rem : Bytes) (st : St) (acc : Bytes),
    (nextLoop tail st acc rem).2 = .ret true → (nextLoop tail st acc rem).1.err = .nil →
    (nextLoop tail st acc rem).1.complete = true := by
  intro rem
  induction rem with
  | nil => intro st acc; cases tail <;> simp [nextLoop]
  | cons c r ih =>
    intro st acc
    rcases hu : update st (classOf c) with ⟨st', a⟩
    have hem := emit_complete st (classOf c)
    rw [hu] at hem
    cases a <;> simp only [nextLoop, hu] <;> first | exact ih _ _ | skip
    · intro _ _; simpa [Scanner.complete] using hem rfl
    · simp

/-! ### `Rest`: what is left is a suffix of the input -/

theorem nextLoop_suffix (tail : Tail) : ∀ (rem : Bytes) (st : St) (acc : Bytes),
    ∃ pre, pre ++ (nextLoop tail st acc rem).1.rem = rem ∧ (nextLoop tail st acc rem).1.tail = tail := by
  intro rem
  induction rem with
  | nil => intro st acc; cases tail <;> exact ⟨[], by simp [nextLoop]⟩
  | cons c r ih =>
    intro st acc
    rcases hu : update st (classOf c) with ⟨st', a⟩
    cases a <;> simp only [nextLoop, hu]
    case emit => exact ⟨[c], by simp⟩
    case panic => exact ⟨[c], by simp⟩
    all_goals
      obtain ⟨pre, h1, h2⟩ := ih st' _
      exact ⟨c :: pre, by simp [h1], h2⟩

/-- `s'` still has to read a suffix of what `s` had to read, from the same source -/
def Suffix (s s' : Scanner) : Prop := (∃ pre, pre ++ s'.rem = s.rem) ∧ s'.tail = s.tail

theorem Suffix.refl (s : Scanner) : Suffix s s := ⟨⟨[], rfl⟩, rfl⟩

theorem Suffix.trans {a b c : Scanner} (h1 : Suffix a b) (h2 : Suffix b c) : Suffix a c := by
  obtain ⟨⟨p1, e1⟩, t1⟩ := h1
  obtain ⟨⟨p2, e2⟩, t2⟩ := h2
  exact ⟨⟨p1 ++ p2, by rw [List.append_assoc, e2, e1]⟩, t2.trans t1⟩

theorem next_suffix (s : Scanner) : Suffix s s.next.1 := by
  by_cases he : s.err = .nil
  · rw [next_live s he]
    obtain ⟨pre, h1, h2⟩ := nextLoop_suffix s.tail s.rem s.st []
    exact ⟨⟨pre, h1⟩, h2⟩
  · rw [next_dead s he]; exact Suffix.refl s

theorem splitLoop_suffix : ∀ (n : Nat) (s : Scanner), Suffix s (splitLoop n s).1 := by
  intro n
  induction n with
  | zero => intro s; exact Suffix.refl s
  | succ k ih =>
    intro s
    rw [splitLoop_succ]
    have := next_suffix s
    rcases hn : s.next with ⟨s', o⟩
    rw [hn] at this
    cases o with
    | ret b =>
      cases b
      · exact this
      · exact this.trans (ih s')
    | panic => exact this

theorem eachLoop_suffix : ∀ (n k : Nat) (s : Scanner), Suffix s (eachLoop n k s).1 := by
  intro n
  induction n with
  | zero => intro k s; exact Suffix.refl s
  | succ m ih =>
    intro k s
    have := next_suffix s
    rw [eachLoop.eq_def]
    simp only []
    rcases hn : s.next with ⟨s', o⟩
    rw [hn] at this
    cases o with
    | ret b =>
      cases b
      · exact this
      · simp only []
        split
        · exact this
        · exact this.trans (ih (k - 1) s')
    | panic => exact this

theorem step_suffix (s : Scanner) (op : Op) (hop : Op.noReset op = true) : Suffix s (s.step op).1 := by
  cases op with
  | next => exact next_suffix s
  | split => exact splitLoop_suffix (s.rem.length + 2) s
  | each k => exact eachLoop_suffix (s.rem.length + 2) k s
  | rest => exact ⟨⟨s.rem, by simp [Scanner.step, Scanner.rest]⟩, rfl⟩
  | reset _ _ => simp [Op.noReset] at hop

theorem run_suffix : ∀ (ops : List Op) (s : Scanner), (∀ op ∈ ops, Op.noReset op = true) →
    Suffix s (s.runOps ops).1 := by
  intro ops
  induction ops with
  | nil => intro s _; exact Suffix.refl s
  | cons op ops ih =>
    intro s hops
    simp only [Scanner.runOps]
    exact (step_suffix s op (hops op (by simp))).trans (ih _ (fun o ho => hops o (by simp [ho])))

/-! ### the tokens seen so far are the reference fields of the consumed prefix -/

/-- the transducer on a prefix of the input: tokens emitted, state and current token afterwards
    (no end-of-input treatment) -/
def feed : St → Bytes → Bytes → List Bytes × St × Bytes
  | st, acc, [] => ([], st, acc)
  | st, acc, c :: rest =>
    match update st (classOf c) with
    | (st', .push) => feed st' (c :: acc) rest
    | (st', .xpush) => feed st' ((xpushBytes c).reverse ++ acc) rest
    | (st', .drop) => feed st' acc rest
    | (st', .emit) => let r := feed st' [] rest; (acc.reverse :: r.1, r.2)
    | (_, .panic) => ([], .stNone, [])

theorem feed_append : ∀ (a : Bytes) (st : St) (acc b : Bytes), st ≠ .stNone →
    feed st acc (a ++ b) =
      ((feed st acc a).1 ++ (feed (feed st acc a).2.1 (feed st acc a).2.2 b).1,
       (feed (feed st acc a).2.1 (feed st acc a).2.2 b).2) := by
  intro a
  induction a with
  | nil => intro st acc b _; simp [feed]
  | cons c a ih =>
    intro st acc b hst
    have hcl := update_closed st (classOf c) hst
    rcases hu : update st (classOf c) with ⟨st', x⟩
    rw [hu] at hcl
    cases x <;> simp only [List.cons_append, feed, hu]
    case push => exact ih _ _ _ hcl.1
    case xpush => exact ih _ _ _ hcl.1
    case drop => exact ih _ _ _ hcl.1
    case emit => rw [ih _ _ _ hcl.1]
    case panic => exact absurd rfl hcl.2

theorem run_of_feed : ∀ (a : Bytes) (st : St) (acc : Bytes), st ≠ .stNone →
    run st acc a = ((feed st acc a).1 ++ (run (feed st acc a).2.1 (feed st acc a).2.2 []).1,
                    (run (feed st acc a).2.1 (feed st acc a).2.2 []).2) := by
  intro a
  induction a with
  | nil => intro st acc _; simp [feed]
  | cons c a ih =>
    intro st acc hst
    have hcl := update_closed st (classOf c) hst
    rcases hu : update st (classOf c) with ⟨st', x⟩
    rw [hu] at hcl
    cases x <;> simp only [feed, run, hu]
    case push => exact ih _ _ hcl.1
    case xpush => exact ih _ _ hcl.1
    case drop => exact ih _ _ hcl.1
    case emit => rw [ih _ _ hcl.1]; simp only [List.cons_append, run]
    case panic => exact absurd rfl hcl.2

/-- every `emit` transition lands in `stBreak`… -/
theorem emit_break (st : St) (cl : Cl) (h : (update st cl).2 = .emit) : (update st cl).1 = .stBreak := by
  cases st <;> cases cl <;> first | (exact absurd h (by decide)) | rfl

/-- a `Next` that returns a token before the end of the input has consumed a prefix on which the
    transducer emits exactly that token and is back between words -/
theorem nextLoop_emit (tail : Tail) : ∀ (rem : Bytes) (st : St) (acc : Bytes), st ≠ .stNone →
    (nextLoop tail st acc rem).2 = .ret true → (nextLoop tail st acc rem).1.err = .nil →
    ∃ pre, pre ++ (nextLoop tail st acc rem).1.rem = rem ∧
      feed st acc pre = ([(nextLoop tail st acc rem).1.cur], .stBreak, []) ∧
      (nextLoop tail st acc rem).1.st = .stBreak ∧ (nextLoop tail st acc rem).1.tail = tail := by
  intro rem
  induction rem with
  | nil => intro st acc _; cases tail <;> simp [nextLoop]
  | cons c r ih =>
    intro st acc hst
    have hcl := update_closed st (classOf c) hst
    have hem := emit_break st (classOf c)
    rcases hu : update st (classOf c) with ⟨st', x⟩
    rw [hu] at hcl hem
    cases x <;> simp only [nextLoop, hu]
    case emit =>
      intro _ _
      have : st' = .stBreak := hem rfl
      subst this
      exact ⟨[c], by simp [feed, hu]⟩
    case panic => simp
    all_goals
      intro h1 h2
      obtain ⟨pre, e1, e2, e3, e4⟩ := ih st' _ hcl.1 h1 h2
      exact ⟨c :: pre, by simp [e1], by simp only [feed, hu]; exact e2, e3, e4⟩

/-- `k` calls of `Next`, each returning a token before the end of the input (`Err() == nil`):
    the scanner afterwards and the tokens, or `none` if some call did not -/
def nexts : Nat → Scanner → Option (Scanner × List Bytes)
  | 0, s => some (s, [])
  | k + 1, s =>
    match s.next with
    | (s', .ret true) =>
      if s'.err = .nil then
        match nexts k s' with
        | some (s'', ts) => some (s'', s'.cur :: ts)
        | none => none
      else none
    | _ => none

theorem nexts_feed : ∀ (k : Nat) (s s' : Scanner) (ts : List Bytes),
    s.err = .nil → s.st = .stBreak → nexts k s = some (s', ts) →
    ∃ consumed, consumed ++ s'.rem = s.rem ∧ feed .stBreak [] consumed = (ts, .stBreak, []) ∧
      s'.tail = s.tail := by
  intro k
  induction k with
  | zero =>
    intro s s' ts _ _ h
    simp only [nexts, Option.some.injEq, Prod.mk.injEq] at h
    obtain ⟨rfl, rfl⟩ := h
    exact ⟨[], by simp [feed]⟩
  | succ k ih =>
    intro s s' ts he hst h
    rw [nexts] at h
    rcases hn : s.next with ⟨s1, o⟩
    rw [hn] at h
    cases o with
    | panic => simp at h
    | ret b =>
      cases b
      · simp at h
      · simp only at h
        by_cases he1 : s1.err = .nil
        · simp only [he1, if_true] at h
          rcases hk : nexts k s1 with _ | ⟨s2, ts2⟩
          · rw [hk] at h; simp at h
          · rw [hk] at h
            simp only [Option.some.injEq, Prod.mk.injEq] at h
            obtain ⟨rfl, rfl⟩ := h
            have hl := next_live s he
            rw [hn] at hl
            have hA := nextLoop_emit s.tail s.rem s.st [] (by rw [hst]; decide)
            rw [← hl] at hA
            obtain ⟨pre, e1, e2, e3, e4⟩ := hA rfl he1
            simp only at e1 e2 e3 e4
            obtain ⟨c2, f1, f2, f3⟩ := ih s1 s2 ts2 he1 e3 hk
            refine ⟨pre ++ c2, by rw [List.append_assoc, f1, e1], ?_, f3.trans e4⟩
            rw [hst] at e2
            rw [feed_append pre .stBreak [] c2 (by decide), e2]
            simp [f2]
        · simp [he1] at h

end MdsVerif.Proofs.ShellScanner
