import MdsVerif.Spec.Bytes
/-!
# The key order of `CompareNatural` is a total preorder whose zero is key equality
(helper lemmas for C20; about `Spec.Bytes` only)
-/
set_option linter.unusedSimpArgs false
namespace MdsVerif.Proofs.NatOrder
open MdsVerif.Spec.Bytes (Tok cmpNat lexBytes high cmpTok cmpKey)

/-! ### bytes -/

theorem lex_cons (x y : UInt8) (xs ys : List UInt8) :
    lexBytes (x :: xs) (y :: ys) =
      if x.toNat < y.toNat then -1 else if y.toNat < x.toNat then 1 else lexBytes xs ys := rfl

theorem lex_range : ∀ p q : List UInt8, lexBytes p q = -1 ∨ lexBytes p q = 0 ∨ lexBytes p q = 1
  | [], [] => by simp [lexBytes]
  | [], _ :: _ => by simp [lexBytes]
  | _ :: _, [] => by simp [lexBytes]
  | x :: xs, y :: ys => by
    rw [lex_cons]; split
    · simp
    · split
      · simp
      · exact lex_range xs ys

theorem lex_antisymm : ∀ p q : List UInt8, lexBytes q p = - lexBytes p q
  | [], [] => by simp [lexBytes]
  | [], _ :: _ => by simp [lexBytes]
  | _ :: _, [] => by simp [lexBytes]
  | x :: xs, y :: ys => by
    rw [lex_cons, lex_cons]
    have := lex_antisymm xs ys
    split <;> split <;> (try split) <;> first | omega | simp | skip
    all_goals first | omega | exact this

theorem lex_zero : ∀ p q : List UInt8, lexBytes p q = 0 ↔ p = q
  | [], [] => by simp [lexBytes]
  | [], _ :: _ => by simp [lexBytes]
  | _ :: _, [] => by simp [lexBytes]
  | x :: xs, y :: ys => by
    rw [lex_cons]
    have ih := lex_zero xs ys
    split
    · rename_i h; simp; intro he; subst he; omega
    · split
      · rename_i h; simp; intro he; subst he; omega
      · rename_i h1 h2
        have : x = y := UInt8.toNat_inj.mp (by omega)
        subst this; simp [ih]

theorem lex_trans : ∀ p q r : List UInt8, lexBytes p q ≤ 0 → lexBytes q r ≤ 0 → lexBytes p r ≤ 0
  | [], _, [] => by simp [lexBytes]
  | [], _, _ :: _ => by simp [lexBytes]
  | _ :: _, [], _ => by simp [lexBytes]
  | _ :: _, _ :: _, [] => by simp [lexBytes]
  | x :: xs, y :: ys, z :: zs => by
    rw [lex_cons, lex_cons, lex_cons]
    intro h1 h2
    have ih := lex_trans xs ys zs
    split at h1 <;> split at h2 <;> split <;> (try split at h1) <;> (try split at h2) <;> (try split) <;>
      first | omega | exact ih h1 h2

theorem high_mono (q r : List UInt8) (h : lexBytes q r ≤ 0) (hq : high q = true) : high r = true := by
  rcases q with _ | ⟨c, q⟩
  · simp [high] at hq
  rcases r with _ | ⟨d, r⟩
  · simp [lexBytes] at h
  rw [lex_cons] at h
  simp only [high, decide_eq_true_eq, UInt8.lt_iff_toNat_lt] at hq ⊢
  split at h
  · omega
  · split at h
    · omega
    · omega

theorem low_le_high (p r : List UInt8) (hp : high p = false) (hr : high r = true) : lexBytes p r ≤ 0 := by
  rcases r with _ | ⟨d, r⟩
  · simp [high] at hr
  rcases p with _ | ⟨c, p⟩
  · simp [lexBytes]
  rw [lex_cons]
  simp only [high, decide_eq_true_eq, decide_eq_false_iff_not, UInt8.lt_iff_toNat_lt] at hp hr
  split
  · omega
  · omega

/-! ### tokens -/

theorem cmpNat_range (v w : Nat) : cmpNat v w = -1 ∨ cmpNat v w = 0 ∨ cmpNat v w = 1 := by
  unfold cmpNat; split
  · simp
  · split <;> simp

theorem tok_range : ∀ x y : Tok, cmpTok x y = -1 ∨ cmpTok x y = 0 ∨ cmpTok x y = 1
  | .num v, .num w => cmpNat_range v w
  | .str p, .str q => lex_range p q
  | .num _, .str q => by simp only [cmpTok]; split <;> simp
  | .str p, .num _ => by simp only [cmpTok]; split <;> simp

theorem tok_antisymm : ∀ x y : Tok, cmpTok y x = - cmpTok x y
  | .num v, .num w => by simp only [cmpTok, cmpNat]; split <;> split <;> (try split) <;> omega
  | .str p, .str q => lex_antisymm p q
  | .num _, .str q => by simp only [cmpTok]; split <;> simp
  | .str p, .num _ => by simp only [cmpTok]; split <;> simp

theorem tok_zero : ∀ x y : Tok, cmpTok x y = 0 ↔ x = y
  | .num v, .num w => by
    simp only [cmpTok, cmpNat, Tok.num.injEq]; split
    · constructor <;> intro h <;> omega
    · split
      · constructor <;> intro h <;> omega
      · constructor <;> intro _ <;> omega
  | .str p, .str q => by simp only [cmpTok, Tok.str.injEq]; exact lex_zero p q
  | .num _, .str q => by simp only [cmpTok]; split <;> simp
  | .str p, .num _ => by simp only [cmpTok]; split <;> simp

theorem tok_trans : ∀ x y z : Tok, cmpTok x y ≤ 0 → cmpTok y z ≤ 0 → cmpTok x z ≤ 0
  | .num u, .num v, .num w => by
    simp only [cmpTok, cmpNat]; intro h1 h2
    split at h1 <;> split at h2 <;> split <;> (try split at h1) <;> (try split at h2) <;> (try split) <;> omega
  | .str p, .str q, .str r => lex_trans p q r
  | .num _, .num _, .str q => by
    simp only [cmpTok]; intro _ h2; split at h2 <;> simp_all
  | .num _, .str q, .num _ => by
    simp only [cmpTok]; intro h1 h2; split at h1 <;> simp_all
  | .num _, .str q, .str r => by
    simp only [cmpTok]; intro h1 h2
    by_cases hq : high q = true
    · simp [high_mono q r h2 hq]
    · simp [hq] at h1
  | .str p, .num _, .num _ => by
    simp only [cmpTok]; intro h1 _; exact h1
  | .str p, .num _, .str r => by
    simp only [cmpTok]; intro h1 h2
    by_cases hp : high p = true
    · simp [hp] at h1
    · by_cases hr : high r = true
      · exact low_le_high p r (by simpa using hp) hr
      · simp [hr] at h2
  | .str p, .str q, .num _ => by
    simp only [cmpTok]; intro h1 h2
    by_cases hp : high p = true
    · have := high_mono p q h1 hp; simp [this] at h2
    · simp [hp]

/-! ### keys (lexicographic lifting) -/

theorem key_range : ∀ k l : List Tok, cmpKey k l = -1 ∨ cmpKey k l = 0 ∨ cmpKey k l = 1
  | [], [] => by simp [cmpKey]
  | [], _ :: _ => by simp [cmpKey]
  | _ :: _, [] => by simp [cmpKey]
  | x :: xs, y :: ys => by
    simp only [cmpKey]; split
    · exact tok_range x y
    · exact key_range xs ys

theorem key_antisymm : ∀ k l : List Tok, cmpKey l k = - cmpKey k l
  | [], [] => by simp [cmpKey]
  | [], _ :: _ => by simp [cmpKey]
  | _ :: _, [] => by simp [cmpKey]
  | x :: xs, y :: ys => by
    simp only [cmpKey, tok_antisymm x y]
    have := key_antisymm xs ys
    by_cases h : cmpTok x y = 0
    · simp [h, this]
    · have : - cmpTok x y ≠ 0 := by omega
      simp [h, this]

theorem key_zero : ∀ k l : List Tok, cmpKey k l = 0 ↔ k = l
  | [], [] => by simp [cmpKey]
  | [], _ :: _ => by simp [cmpKey]
  | _ :: _, [] => by simp [cmpKey]
  | x :: xs, y :: ys => by
    simp only [cmpKey, List.cons.injEq]
    by_cases h : cmpTok x y = 0
    · have hxy := (tok_zero x y).mp h
      subst hxy
      simp [h, key_zero xs ys]
    · have hne : x ≠ y := fun he => h ((tok_zero x y).mpr he)
      simp [h, hne]

theorem key_trans : ∀ k l m : List Tok, cmpKey k l ≤ 0 → cmpKey l m ≤ 0 → cmpKey k m ≤ 0
  | [], _, [] => by simp [cmpKey]
  | [], _, _ :: _ => by simp [cmpKey]
  | _ :: _, [], _ => by simp [cmpKey]
  | _ :: _, _ :: _, [] => by simp [cmpKey]
  | x :: xs, y :: ys, z :: zs => by
    simp only [cmpKey]
    intro h1 h2
    by_cases hxy : cmpTok x y = 0
    · have := (tok_zero x y).mp hxy; subst this
      by_cases hyz : cmpTok x z = 0
      · simp only [hxy, hyz, ne_eq, not_true_eq_false, if_false] at h1 h2 ⊢
        exact key_trans xs ys zs h1 h2
      · simp only [hyz, ne_eq, not_false_eq_true, if_true] at h2 ⊢
        exact h2
    · simp only [hxy, ne_eq, not_false_eq_true, if_true] at h1
      by_cases hyz : cmpTok y z = 0
      · have := (tok_zero y z).mp hyz; subst this
        simp only [hxy, ne_eq, not_false_eq_true, if_true]
        exact h1
      · simp only [hyz, ne_eq, not_false_eq_true, if_true] at h2
        have hle := tok_trans x y z h1 h2
        have hne : cmpTok x z ≠ 0 := by
          intro h0
          have := (tok_zero x z).mp h0; subst this
          have := tok_antisymm x y
          omega
        simp only [hne, ne_eq, not_false_eq_true, if_true]
        exact hle

end MdsVerif.Proofs.NatOrder
