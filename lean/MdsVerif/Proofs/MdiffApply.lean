import MdsVerif.Proofs.MdiffFmt
import MdsVerif.Proofs.Mdiff
import MdsVerif.Spec.DiffApply
/-!
# The renderings of a diff, applied by the published rules, give `Right` — lemmas for C14 (apply)

The reference appliers of `Spec.DiffApply` run on the text written by the model's `normal`,
`unified`, `context` (`Model.MdiffFmt`, with the regenerated facts of `Gen.MdiffFmt`).

Format-independent part: `At L R s lp rp` — the applier state `s` stands at the aligned position
`(lp, rp)`: everything of `L` before `lp` has been accounted for and corresponds to `R` before
`rp` (`s.out ++ L[s.pos, lp) = R[1, rp)`).  `At.gap` moves along a common gap, `At.hunk` is one
`St.hunk`, `At.finish` the final copy.
-/
namespace MdsVerif.Proofs.MdiffApply
open MdsVerif.Model.Edit MdsVerif.Model.Mdiff MdsVerif.Model.MdiffFmt MdsVerif.Proofs.MdiffFmt
open MdsVerif.Spec MdsVerif.Spec.Mdiff MdsVerif.Proofs.Mdiff MdsVerif.Gen

/-! ## numbers and ranges of the reference parser -/

theorem num_itoa (n : Nat) : DiffApply.num? (itoa n) = some n := by
  unfold DiffApply.num?
  rw [if_pos ⟨itoa_ne_nil n, List.all_eq_true.mpr (itoa_digit n)⟩]
  have h := @Nat.ofDigitChars_ten_toDigits n
  rw [Nat.ofDigitChars_eq_foldl] at h
  have e : '0'.toNat = 48 := by decide
  rw [e] at h
  simp only [itoa]
  rw [h]

theorem splitFirst_none (sep : Char) (l : Line) (h : sep ∉ l) :
    DiffApply.splitFirst sep l = (l, none) := by
  induction l with
  | nil => rfl
  | cons c l ih =>
    have hc : c ≠ sep := fun e => h (by simp [e])
    simp [DiffApply.splitFirst, hc, ih (fun e => h (by simp [e]))]

theorem splitFirst_append (sep : Char) (a b : Line) (h : sep ∉ a) :
    DiffApply.splitFirst sep (a ++ sep :: b) = (a, some b) := by
  induction a with
  | nil => simp [DiffApply.splitFirst]
  | cons c a ih =>
    have hc : c ≠ sep := fun e => h (by simp [e])
    simp [DiffApply.splitFirst, hc, ih (fun e => h (by simp [e]))]

theorem range_itoa (n : Nat) : DiffApply.range? (itoa n) = some (n, none) := by
  simp only [DiffApply.range?, splitFirst_none ',' _ (not_mem_itoa n ',' (by decide)), num_itoa,
    Option.map]

theorem range_pair (a b : Nat) : DiffApply.range? (itoa a ++ ',' :: itoa b) = some (a, some b) := by
  simp only [DiffApply.range?, splitFirst_append ',' _ _ (not_mem_itoa a ',' (by decide)), num_itoa]

theorem range_dspan (s e : Nat) :
    DiffApply.range? (dspan s e) = some (s, if e - s = 1 then none else some (e - 1)) := by
  rw [dspan_eq]
  by_cases h : e - s = 1
  · simp only [if_pos h, range_itoa]
  · simp only [if_neg h, range_pair]

/-! ## spans -/

theorem linesIncl_eq_span (L : List Line) (a b : Nat) : DiffApply.linesIncl L a b = span L a (b + 1) := rfl

/-- a prefix of a span is a span -/
theorem span_split {α : Type} {l a b : List α} {s e : Nat} (h : a ++ b = span l s e) (hs : 1 ≤ s)
    (hse : s ≤ e) (he : e ≤ l.length + 1) :
    s + a.length ≤ e ∧ a = span l s (s + a.length) ∧ b = span l (s + a.length) e := by
  have hlen : a.length + b.length = e - s := by
    rw [← List.length_append, h, length_span l hs he]
  have h1 : s + a.length ≤ e := by omega
  have hsp := span_append l hs (Nat.le_add_right s a.length) h1
  rw [← hsp] at h
  have hl : a.length = (span l s (s + a.length)).length := by
    rw [length_span l hs (by omega)]; omega
  have := List.append_inj h hl
  exact ⟨h1, this.1, this.2⟩

/-! ## the applier state at an aligned position -/

structure At (L R : List Line) (s : DiffApply.St) (lp rp : Nat) : Prop where
  p1 : 1 ≤ s.pos
  p2 : s.pos ≤ lp
  l3 : lp ≤ L.length + 1
  r1 : 1 ≤ rp
  r3 : rp ≤ R.length + 1
  out : s.out ++ span L s.pos lp = span R 1 rp

theorem At.init (L R : List Line) : At L R ⟨[], 1⟩ 1 1 :=
  ⟨Nat.le_refl _, Nat.le_refl _, by omega, Nat.le_refl _, by omega, by simp [span_self]⟩

theorem At.gap {L R : List Line} {s : DiffApply.St} {lp rp lp' rp' : Nat} (h : At L R s lp rp)
    (g : GapEq L R lp rp lp' rp') (hl : lp' ≤ L.length + 1) (hr : rp' ≤ R.length + 1) :
    At L R s lp' rp' := by
  obtain ⟨g1, g2, _, g4⟩ := g
  refine ⟨h.p1, by have := h.p2; omega, hl, by have := h.r1; omega, hr, ?_⟩
  rw [← span_append L h.p1 h.p2 g1, ← List.append_assoc, h.out, g4,
    span_append R (Nat.le_refl _) h.r1 g2]

theorem At.hunk {L R : List Line} {s : DiffApply.St} {lp rp : Nat} (h : At L R s lp rp)
    (old new : List Line) (ho : old = span L lp (lp + old.length))
    (hn : new = span R rp (rp + new.length))
    (hl : lp + old.length ≤ L.length + 1) (hr : rp + new.length ≤ R.length + 1) :
    ∃ s', s.hunk L lp old new rp = some s' ∧ At L R s' (lp + old.length) (rp + new.length) := by
  have hp1 := h.p1; have hp2 := h.p2; have hr1 := h.r1
  unfold DiffApply.St.hunk
  rw [if_neg (by omega)]
  have e1 : DiffApply.linesIncl L lp (lp + old.length - 1) = old := by
    by_cases hz : old.length = 0
    · have : old = [] := List.length_eq_zero_iff.mp hz
      subst this
      simp only [linesIncl_eq_span, span, List.length_nil, Nat.add_zero]
      have : lp - 1 + 1 - lp = 0 := by omega
      rw [this, List.take_zero]
    · rw [linesIncl_eq_span]
      have : lp + old.length - 1 + 1 = lp + old.length := by omega
      rw [this]; exact ho.symm
  rw [if_neg (by rw [e1]; simp)]
  have e2 : s.out ++ DiffApply.linesIncl L s.pos (lp - 1) = span R 1 rp := by
    rw [linesIncl_eq_span]
    have : lp - 1 + 1 = lp := by omega
    rw [this]; exact h.out
  simp only [e2]
  have e3 : (span R 1 rp).length + 1 = rp := by
    rw [length_span R (Nat.le_refl _) h.r3]; omega
  rw [if_neg (by omega)]
  refine ⟨_, rfl, ⟨by simp only; omega, by simp only; omega, hl, by omega, hr, ?_⟩⟩
  simp only [span_self, List.append_nil]
  rw [← span_append R (Nat.le_refl _) h.r1 (Nat.le_add_right rp new.length), ← hn]

theorem At.finish {L R : List Line} {s : DiffApply.St} {lp rp : Nat} (h : At L R s lp rp)
    (e : L.drop (lp - 1) = R.drop (rp - 1)) : s.finish L = R := by
  unfold DiffApply.St.finish
  rw [← span_drop L h.p1 h.p2, ← List.append_assoc, h.out, e, span_drop R (Nat.le_refl _) h.r1]
  simp

end MdsVerif.Proofs.MdiffApply
