import MdsVerif.Proofs.MdiffFmt
import MdsVerif.Proofs.Mdiff
import MdsVerif.Spec.DiffApply
/-!
# The renderings of a diff, applied by the published rules, give `Right` — lemmas for C14 (apply)

The reference appliers of `Spec.DiffApply` run on the text written by the model's `normal`,
`unified`, `context` (`Model.MdiffFmt`, with the regenerated facts of `Gen.MdiffFmt`).

Format-independent part: `At L R s lp rp` — the applier state `s` stands at the aligned position
`(lp, rp)`: everything of `L` before `lp` has been accounted for and corresponds to `R` before
`rp` (`s.out ++ L[s.pos, lp) = R[1, rp)`).  `At.gap` moves along a common gap, `At.hunk` is one
`St.hunk`, `At.finish` the final copy.
-/
namespace MdsVerif.Proofs.MdiffApply
open MdsVerif.Model.Edit MdsVerif.Model.Mdiff MdsVerif.Model.MdiffFmt MdsVerif.Proofs.MdiffFmt
open MdsVerif.Spec MdsVerif.Spec.Mdiff MdsVerif.Proofs.Mdiff MdsVerif.Gen

/-! ## numbers and ranges of the reference parser -/

theorem num_itoa (n : Nat) : DiffApply.num? (itoa n) = some n := by
  unfold DiffApply.num?
  rw [if_pos ⟨itoa_ne_nil n, List.all_eq_true.mpr (itoa_digit n)⟩]
  have h := @Nat.ofDigitChars_ten_toDigits n
  rw [Nat.ofDigitChars_eq_foldl] at h
  have e : '0'.toNat = 48 := by decide
  rw [e] at h
  simp only [itoa]
  rw [h]

theorem splitFirst_none (sep : Char) (l : Line) (h : sep ∉ l) :
    DiffApply.splitFirst sep l = (l, none) := by
  induction l with
  | nil => rfl
  | cons c l ih =>
    have hc : c ≠ sep := fun e => h (by simp [e])
    simp [DiffApply.splitFirst, hc, ih (fun e => h (by simp [e]))]

theorem splitFirst_append (sep : Char) (a b : Line) (h : sep ∉ a) :
    DiffApply.splitFirst sep (a ++ sep :: b) = (a, some b) := by
  induction a with
  | nil => simp [DiffApply.splitFirst]
  | cons c a ih =>
    have hc : c ≠ sep := fun e => h (by simp [e])
    simp [DiffApply.splitFirst, hc, ih (fun e => h (by simp [e]))]

theorem range_itoa (n : Nat) : DiffApply.range? (itoa n) = some (n, none) := by
  simp only [DiffApply.range?, splitFirst_none ',' _ (not_mem_itoa n ',' (by decide)), num_itoa,
    Option.map]

theorem range_pair (a b : Nat) : DiffApply.range? (itoa a ++ ',' :: itoa b) = some (a, some b) := by
  simp only [DiffApply.range?, splitFirst_append ',' _ _ (not_mem_itoa a ',' (by decide)), num_itoa]

theorem range_dspan (s e : Nat) :
    DiffApply.range? (dspan s e) = some (s, if e - s = 1 then none else some (e - 1)) := by
  rw [dspan_eq]
  by_cases h : e - s = 1
  · simp only [if_pos h, range_itoa]
  · simp only [if_neg h, range_pair]

/-! ## spans -/

theorem linesIncl_eq_span (L : List Line) (a b : Nat) : DiffApply.linesIncl L a b = span L a (b + 1) := rfl

/-- a prefix of a span is a span -/
theorem span_split {α : Type} {l a b : List α} {s e : Nat} (h : a ++ b = span l s e) (hs : 1 ≤ s)
    (hse : s ≤ e) (he : e ≤ l.length + 1) :
    s + a.length ≤ e ∧ a = span l s (s + a.length) ∧ b = span l (s + a.length) e := by
  have hlen : a.length + b.length = e - s := by
    rw [← List.length_append, h, length_span l hs he]
  have h1 : s + a.length ≤ e := by omega
  have hsp := span_append l hs (Nat.le_add_right s a.length) h1
  rw [← hsp] at h
  have hl : a.length = (span l s (s + a.length)).length := by
    rw [length_span l hs (by omega)]; omega
  have := List.append_inj h hl
  exact ⟨h1, this.1, this.2⟩

/-! ## the applier state at an aligned position -/

structure At (L R : List Line) (s : DiffApply.St) (lp rp : Nat) : Prop where
  p1 : 1 ≤ s.pos
  p2 : s.pos ≤ lp
  l3 : lp ≤ L.length + 1
  r1 : 1 ≤ rp
  r3 : rp ≤ R.length + 1
  out : s.out ++ span L s.pos lp = span R 1 rp

theorem At.init (L R : List Line) : At L R ⟨[], 1⟩ 1 1 :=
  ⟨Nat.le_refl _, Nat.le_refl _, by omega, Nat.le_refl _, by omega, by simp [span_self]⟩

theorem At.gap {L R : List Line} {s : DiffApply.St} {lp rp lp' rp' : Nat} (h : At L R s lp rp)
    (g : GapEq L R lp rp lp' rp') (hl : lp' ≤ L.length + 1) (hr : rp' ≤ R.length + 1) :
    At L R s lp' rp' := by
  obtain ⟨g1, g2, _, g4⟩ := g
  refine ⟨h.p1, by have := h.p2; omega, hl, by have := h.r1; omega, hr, ?_⟩
  rw [← span_append L h.p1 h.p2 g1, ← List.append_assoc, h.out, g4,
    span_append R (Nat.le_refl _) h.r1 g2]

theorem At.hunk {L R : List Line} {s : DiffApply.St} {lp rp : Nat} (h : At L R s lp rp)
    (old new : List Line) (ho : old = span L lp (lp + old.length))
    (hn : new = span R rp (rp + new.length))
    (hl : lp + old.length ≤ L.length + 1) (hr : rp + new.length ≤ R.length + 1) :
    ∃ s', s.hunk L lp old new rp = some s' ∧ At L R s' (lp + old.length) (rp + new.length) := by
  have hp1 := h.p1; have hp2 := h.p2; have hr1 := h.r1
  unfold DiffApply.St.hunk
  rw [if_neg (by omega)]
  have e1 : DiffApply.linesIncl L lp (lp + old.length - 1) = old := by
    by_cases hz : old.length = 0
    · have : old = [] := List.length_eq_zero_iff.mp hz
      subst this
      simp only [linesIncl_eq_span, span, List.length_nil, Nat.add_zero]
      have : lp - 1 + 1 - lp = 0 := by omega
      rw [this, List.take_zero]
    · rw [linesIncl_eq_span]
      have : lp + old.length - 1 + 1 = lp + old.length := by omega
      rw [this]; exact ho.symm
  rw [if_neg (by rw [e1]; simp)]
  have e2 : s.out ++ DiffApply.linesIncl L s.pos (lp - 1) = span R 1 rp := by
    rw [linesIncl_eq_span]
    have : lp - 1 + 1 = lp := by omega
    rw [this]; exact h.out
  simp only [e2]
  have e3 : (span R 1 rp).length + 1 = rp := by
    rw [length_span R (Nat.le_refl _) h.r3]; omega
  rw [if_neg (by omega)]
  refine ⟨_, rfl, ⟨by simp only; omega, by simp only; omega, hl, by omega, hr, ?_⟩⟩
  simp only [span_self, List.append_nil]
  rw [← span_append R (Nat.le_refl _) h.r1 (Nat.le_add_right rp new.length), ← hn]

theorem At.finish {L R : List Line} {s : DiffApply.St} {lp rp : Nat} (h : At L R s lp rp)
    (e : L.drop (lp - 1) = R.drop (rp - 1)) : s.finish L = R := by
  unfold DiffApply.St.finish
  rw [← span_drop L h.p1 h.p2, ← List.append_assoc, h.out, e, span_drop R (Nat.le_refl _) h.r1]
  simp

/-! ## the normal format -/

theorem takeWhile_stop {α : Type} (p : α → Bool) (a : List α) (k : α) (b : List α)
    (ha : ∀ c ∈ a, p c = true) (hk : p k = false) : (a ++ k :: b).takeWhile p = a := by
  rw [List.takeWhile_append_of_pos ha, List.takeWhile_cons_of_neg (by simp [hk])]; simp

theorem dropPrefix_append (p x : Line) : DiffApply.dropPrefix? p (p ++ x) = some x := by
  simp [DiffApply.dropPrefix?, List.isPrefixOf_iff_prefix]

theorem takeMarked_writeLines (pfx : Line) (X rest : List Line) :
    DiffApply.takeMarked pfx X.length (writeLines pfx X ++ rest) = some (X, rest) := by
  induction X with
  | nil => simp [writeLines, DiffApply.takeMarked]
  | cons x X ih =>
    have : writeLines pfx (x :: X) ++ rest = (pfx ++ x) :: (writeLines pfx X ++ rest) := by
      simp [writeLines]
    rw [this, List.length_cons, DiffApply.takeMarked, dropPrefix_append]
    simp only [ih, Option.map]

theorem parseNormalCmd_cmd (a b : Line) (k : Char) (x y : Nat × Option Nat) (ha : SpanChars a)
    (hk : k = 'a' ∨ k = 'c' ∨ k = 'd') (hx : DiffApply.range? a = some x)
    (hy : DiffApply.range? b = some y) : DiffApply.parseNormalCmd (a ++ k :: b) = some (x, k, y) := by
  have hk' : (k.isDigit || k == ',') = false := by rcases hk with rfl | rfl | rfl <;> decide
  have ht : (a ++ k :: b).takeWhile (fun c => c.isDigit || c == ',') = a := by
    apply takeWhile_stop _ a k b _ hk'
    intro c hc
    rcases ha c hc with h | h
    · simp [h]
    · simp [h]
  unfold DiffApply.parseNormalCmd
  simp only [ht, List.drop_left, if_pos hk, hx, hy]

/-- the optional second number of a `dspan`, defaulted to the first: the inclusive end -/
theorem hi_getD {s e : Nat} (h : s < e) :
    (if e - s = 1 then (none : Option Nat) else some (e - 1)).getD s = e - 1 := by
  split
  · simp only [Option.getD]; omega
  · rfl

theorem hi_isSome_none : (none : Option Nat).isSome = false := rfl

theorem ne_nil_length {α : Type} {X : List α} (h : X ≠ []) : 1 ≤ X.length := by
  cases X with | nil => exact absurd rfl h | cons a b => simp

theorem applyNormalLoop_drop {L R : List Line} (f : Nat) (X : List Line) (lpos rpos : Nat)
    (rest : List Line) (s : DiffApply.St) (hX : X ≠ []) (hat : At L R s lpos rpos)
    (hs : X = span L lpos (lpos + X.length)) (hl : lpos + X.length ≤ L.length + 1) :
    ∃ s', DiffApply.applyNormalLoop L (f + 1)
      ((dspan lpos (lpos + X.length) ++ ['d'] ++ itoa (MdiffFmt.normalDropRight lpos rpos))
        :: (writeLines (str MdiffFmt.nrmDel) X ++ rest)) s = DiffApply.applyNormalLoop L f rest s' ∧
      At L R s' (lpos + X.length) rpos := by
  have hk := ne_nil_length hX
  have hr1 := hat.r1
  obtain ⟨s', h1, h2⟩ := hat.hunk X [] hs (by simp [span_self]) hl (by have := hat.r3; simpa using this)
  refine ⟨s', ?_, by simpa using h2⟩
  have hp := parseNormalCmd_cmd (dspan lpos (lpos + X.length)) (itoa (MdiffFmt.normalDropRight lpos rpos)) 'd'
    _ _ (spanChars_dspan _ _) (by simp) (range_dspan _ _) (range_itoa _)
  have e0 : dspan lpos (lpos + X.length) ++ ['d'] ++ itoa (MdiffFmt.normalDropRight lpos rpos)
      = dspan lpos (lpos + X.length) ++ 'd' :: itoa (MdiffFmt.normalDropRight lpos rpos) := by simp
  have hg := hi_getD (show lpos < lpos + X.length by omega)
  have e1 : lpos + X.length - 1 + 1 - lpos = X.length := by omega
  have e2 : MdiffFmt.normalDropRight lpos rpos + 1 = rpos := by simp only [MdiffFmt.normalDropRight]; omega
  have hd1 : ('d' = 'a') = False := by decide
  rw [DiffApply.applyNormalLoop, e0, hp]
  simp only [hg, Option.getD_none, hd1, if_false, if_true, hi_isSome_none, e1, str_wdel,
    takeMarked_writeLines, e2, h1, Bool.false_eq_true]
  rw [if_neg (by omega)]

theorem applyNormalLoop_copy {L R : List Line} (f : Nat) (Y : List Line) (lpos rpos : Nat)
    (rest : List Line) (s : DiffApply.St) (hY : Y ≠ []) (hat : At L R s lpos rpos)
    (hs : Y = span R rpos (rpos + Y.length)) (hr : rpos + Y.length ≤ R.length + 1) :
    ∃ s', DiffApply.applyNormalLoop L (f + 1)
      ((itoa (MdiffFmt.normalAddLeft lpos rpos) ++ ['a'] ++ dspan rpos (rpos + Y.length))
        :: (writeLines (str MdiffFmt.nrmIns) Y ++ rest)) s = DiffApply.applyNormalLoop L f rest s' ∧
      At L R s' lpos (rpos + Y.length) := by
  have hk := ne_nil_length hY
  have hl1 : 1 ≤ lpos := Nat.le_trans hat.p1 hat.p2
  obtain ⟨s', h1, h2⟩ := hat.hunk [] Y (by simp [span_self]) hs (by have := hat.l3; simpa using this) hr
  refine ⟨s', ?_, by simpa using h2⟩
  have hp := parseNormalCmd_cmd (itoa (MdiffFmt.normalAddLeft lpos rpos)) (dspan rpos (rpos + Y.length)) 'a'
    _ _ (spanChars_itoa _) (by simp) (range_itoa _) (range_dspan _ _)
  have e0 : itoa (MdiffFmt.normalAddLeft lpos rpos) ++ ['a'] ++ dspan rpos (rpos + Y.length)
      = itoa (MdiffFmt.normalAddLeft lpos rpos) ++ 'a' :: dspan rpos (rpos + Y.length) := by simp
  have hg := hi_getD (show rpos < rpos + Y.length by omega)
  have e1 : rpos + Y.length - 1 + 1 - rpos = Y.length := by omega
  have e2 : MdiffFmt.normalAddLeft lpos rpos + 1 = lpos := by simp only [MdiffFmt.normalAddLeft]; omega
  rw [DiffApply.applyNormalLoop, e0, hp]
  simp only [hg, Option.getD_none, if_true, hi_isSome_none, e1, str_wins,
    takeMarked_writeLines, e2, h1, Bool.false_eq_true, if_false]
  rw [if_neg (by omega)]

theorem applyNormalLoop_replace {L R : List Line} (f : Nat) (X Y : List Line) (lpos rpos : Nat)
    (rest : List Line) (s : DiffApply.St) (hX : X ≠ []) (hY : Y ≠ []) (hat : At L R s lpos rpos)
    (hsx : X = span L lpos (lpos + X.length)) (hl : lpos + X.length ≤ L.length + 1)
    (hsy : Y = span R rpos (rpos + Y.length)) (hr : rpos + Y.length ≤ R.length + 1) :
    ∃ s', DiffApply.applyNormalLoop L (f + 1)
      ((dspan lpos (lpos + X.length) ++ ['c'] ++ dspan rpos (rpos + Y.length))
        :: (writeLines (str MdiffFmt.nrmDel) X ++ [str "---"] ++ writeLines (str MdiffFmt.nrmIns) Y ++ rest)) s
        = DiffApply.applyNormalLoop L f rest s' ∧
      At L R s' (lpos + X.length) (rpos + Y.length) := by
  have hkx := ne_nil_length hX
  have hky := ne_nil_length hY
  obtain ⟨s', h1, h2⟩ := hat.hunk X Y hsx hsy hl hr
  refine ⟨s', ?_, h2⟩
  have hp := parseNormalCmd_cmd (dspan lpos (lpos + X.length)) (dspan rpos (rpos + Y.length)) 'c'
    _ _ (spanChars_dspan _ _) (by simp) (range_dspan _ _) (range_dspan _ _)
  have e0 : dspan lpos (lpos + X.length) ++ ['c'] ++ dspan rpos (rpos + Y.length)
      = dspan lpos (lpos + X.length) ++ 'c' :: dspan rpos (rpos + Y.length) := by simp
  have hgx := hi_getD (show lpos < lpos + X.length by omega)
  have hgy := hi_getD (show rpos < rpos + Y.length by omega)
  have e1 : lpos + X.length - 1 + 1 - lpos = X.length := by omega
  have e2 : rpos + Y.length - 1 + 1 - rpos = Y.length := by omega
  have hc1 : ('c' = 'a') = False := by decide
  have hc2 : ('c' = 'd') = False := by decide
  have e3 : writeLines (str MdiffFmt.nrmDel) X ++ [str "---"] ++ writeLines (str MdiffFmt.nrmIns) Y ++ rest
      = writeLines ['<', ' '] X ++ (['-', '-', '-'] :: (writeLines ['>', ' '] Y ++ rest)) := by
    simp [str_wdel, str_wins]; rfl
  rw [DiffApply.applyNormalLoop, e0, hp, e3]
  simp only [hgx, hgy, hc1, hc2, if_false, e1, e2, takeMarked_writeLines, h1, ne_eq, not_true_eq_false]
  rw [if_neg (by omega)]

theorem consumed_cons {α : Type} (e : Edit α) (es : List (Edit α)) :
    consumed (e :: es) = consumedOf e ++ consumed es := by simp [consumed]
theorem produced_cons {α : Type} (e : Edit α) (es : List (Edit α)) :
    produced (e :: es) = producedOf e ++ produced es := by simp [produced]

theorem span_nil_eq {α : Type} {l : List α} {s e : Nat} (h : [] = span l s e) (hs : 1 ≤ s) (hse : s ≤ e)
    (he : e ≤ l.length + 1) : e = s := by
  have := length_span l hs he
  rw [← h] at this
  simp at this; omega

/-- the edits of one chunk: `normalEdits` applied command by command -/
theorem applyNormalLoop_edits {L R : List Line} (es : List (Edit Line)) :
    ∀ (lpos rpos le re : Nat) (rest : List Line) (s : DiffApply.St) (f : Nat),
      At L R s lpos rpos → (∀ e ∈ es, EditOK e) →
      consumed es = span L lpos le → produced es = span R rpos re →
      lpos ≤ le → le ≤ L.length + 1 → rpos ≤ re → re ≤ R.length + 1 →
      (normalEdits es lpos rpos ++ rest).length + 1 ≤ f →
      ∃ f' s', rest.length + 1 ≤ f' ∧
        DiffApply.applyNormalLoop L f (normalEdits es lpos rpos ++ rest) s
          = DiffApply.applyNormalLoop L f' rest s' ∧ At L R s' le re := by
  induction es with
  | nil =>
    intro lpos rpos le re rest s f hat _ hc hp h1 h2 h3 h4 hf
    have hl1 : 1 ≤ lpos := Nat.le_trans hat.p1 hat.p2
    have e1 := span_nil_eq hc hl1 h1 h2
    have e2 := span_nil_eq hp hat.r1 h3 h4
    subst e1; subst e2
    exact ⟨f, s, by simpa [normalEdits] using hf, by simp [normalEdits], hat⟩
  | cons e es ih =>
    intro lpos rpos le re rest s f hat hok hc hp h1 h2 h3 h4 hf
    have hl1 : 1 ≤ lpos := Nat.le_trans hat.p1 hat.p2
    have hr1 := hat.r1
    have hok' : ∀ e ∈ es, EditOK e := fun e' he' => hok e' (by simp [he'])
    have he := hok e (by simp)
    rw [consumed_cons] at hc
    rw [produced_cons] at hp
    obtain ⟨c1, c2, c3⟩ := span_split hc hl1 h1 h2
    obtain ⟨p1, p2, p3⟩ := span_split hp hr1 h3 h4
    obtain ⟨op, X, Y⟩ := e
    cases op with
    | drop =>
      simp only [EditOK] at he
      obtain ⟨hX, rfl⟩ := he
      simp only [consumedOf, producedOf, List.length_nil, Nat.add_zero] at c1 c2 c3 p1 p2 p3
      simp only [normalEdits] at hf ⊢
      obtain ⟨f0, rfl⟩ : ∃ f0, f = f0 + 1 := ⟨f - 1, by omega⟩
      have e1 : (dspan lpos (lpos + X.length) ++ ['d'] ++ itoa (MdiffFmt.normalDropRight lpos rpos)) ::
            writeLines (str MdiffFmt.nrmDel) X ++ normalEdits es (lpos + X.length) rpos ++ rest
          = (dspan lpos (lpos + X.length) ++ ['d'] ++ itoa (MdiffFmt.normalDropRight lpos rpos)) ::
            (writeLines (str MdiffFmt.nrmDel) X ++ (normalEdits es (lpos + X.length) rpos ++ rest)) := by simp
      rw [e1] at hf ⊢
      obtain ⟨s1, hs1, hat1⟩ := applyNormalLoop_drop f0 X lpos rpos
        (normalEdits es (lpos + X.length) rpos ++ rest) s hX hat c2 (by omega)
      obtain ⟨f', s', hf', h, hat'⟩ := ih (lpos + X.length) rpos le re rest s1 f0 hat1 hok' c3 p3
        c1 h2 h3 h4
        (by simp only [List.length_cons, List.length_append] at hf ⊢; omega)
      exact ⟨f', s', hf', by rw [hs1, h], hat'⟩
    | emit =>
      simp only [consumedOf, producedOf] at c1 c2 c3 p1 p2 p3
      simp only [normalEdits] at hf ⊢
      have hg : GapEq L R lpos rpos (lpos + X.length) (rpos + X.length) :=
        ⟨by omega, by omega, by omega, by rw [← c2, ← p2]⟩
      exact ih _ _ le re rest s f (hat.gap hg (by omega) (by omega)) hok' c3 p3 c1 h2 p1 h4 hf
    | copy =>
      simp only [EditOK] at he
      obtain ⟨hY, rfl⟩ := he
      simp only [consumedOf, producedOf, List.length_nil, Nat.add_zero] at c1 c2 c3 p1 p2 p3
      simp only [normalEdits] at hf ⊢
      obtain ⟨f0, rfl⟩ : ∃ f0, f = f0 + 1 := ⟨f - 1, by omega⟩
      have e1 : (itoa (MdiffFmt.normalAddLeft lpos rpos) ++ ['a'] ++ dspan rpos (rpos + Y.length)) ::
            writeLines (str MdiffFmt.nrmIns) Y ++ normalEdits es lpos (rpos + Y.length) ++ rest
          = (itoa (MdiffFmt.normalAddLeft lpos rpos) ++ ['a'] ++ dspan rpos (rpos + Y.length)) ::
            (writeLines (str MdiffFmt.nrmIns) Y ++ (normalEdits es lpos (rpos + Y.length) ++ rest)) := by simp
      rw [e1] at hf ⊢
      obtain ⟨s1, hs1, hat1⟩ := applyNormalLoop_copy f0 Y lpos rpos
        (normalEdits es lpos (rpos + Y.length) ++ rest) s hY hat p2 (by omega)
      obtain ⟨f', s', hf', h, hat'⟩ := ih lpos (rpos + Y.length) le re rest s1 f0 hat1 hok' c3 p3
        h1 h2 p1 h4
        (by simp only [List.length_cons, List.length_append] at hf ⊢; omega)
      exact ⟨f', s', hf', by rw [hs1, h], hat'⟩
    | replace =>
      simp only [EditOK] at he
      obtain ⟨hX, hY⟩ := he
      simp only [consumedOf, producedOf] at c1 c2 c3 p1 p2 p3
      simp only [normalEdits] at hf ⊢
      obtain ⟨f0, rfl⟩ : ∃ f0, f = f0 + 1 := ⟨f - 1, by omega⟩
      have e1 : (dspan lpos (lpos + X.length) ++ ['c'] ++ dspan rpos (rpos + Y.length)) ::
            writeLines (str MdiffFmt.nrmDel) X ++ [str "---"] ++ writeLines (str MdiffFmt.nrmIns) Y ++
              normalEdits es (lpos + X.length) (rpos + Y.length) ++ rest
          = (dspan lpos (lpos + X.length) ++ ['c'] ++ dspan rpos (rpos + Y.length)) ::
            (writeLines (str MdiffFmt.nrmDel) X ++ [str "---"] ++ writeLines (str MdiffFmt.nrmIns) Y ++
              (normalEdits es (lpos + X.length) (rpos + Y.length) ++ rest)) := by simp
      rw [e1] at hf ⊢
      obtain ⟨s1, hs1, hat1⟩ := applyNormalLoop_replace f0 X Y lpos rpos
        (normalEdits es (lpos + X.length) (rpos + Y.length) ++ rest) s hX hY hat c2 (by omega) p2 (by omega)
      obtain ⟨f', s', hf', h, hat'⟩ := ih (lpos + X.length) (rpos + Y.length) le re rest s1 f0 hat1 hok' c3 p3
        c1 h2 p1 h4
        (by simp only [List.length_cons, List.length_append] at hf ⊢; omega)
      exact ⟨f', s', hf', by rw [hs1, h], hat'⟩

theorem applyNormalLoop_chunks {L R : List Line} (cs : List (Chunk Line)) :
    ∀ (lp rp : Nat) (s : DiffApply.St) (f : Nat), At L R s lp rp → AllOK cs L R →
      Aligned L R lp rp cs → (∀ c ∈ cs, ∀ e ∈ c.edits, EditOK e) → (normal cs).length + 1 ≤ f →
      DiffApply.applyNormalLoop L f (normal cs) s = some R := by
  induction cs with
  | nil =>
    intro lp rp s f hat _ hal _ hf
    obtain ⟨f0, rfl⟩ : ∃ f0, f = f0 + 1 := ⟨f - 1, by omega⟩
    simp only [normal, List.flatMap_nil, DiffApply.applyNormalLoop]
    rw [hat.finish hal]
  | cons c cs ih =>
    intro lp rp s f hat hok hal hed hf
    have hc := hok c (by simp)
    obtain ⟨hg, hal'⟩ := hal
    rw [normal_cons] at hf ⊢
    have hat1 := hat.gap hg (by have := hc.l2; have := hc.l3; omega) (by have := hc.r2; have := hc.r3; omega)
    obtain ⟨f', s', hf', h, hat'⟩ := applyNormalLoop_edits c.edits c.lstart c.rstart c.lend c.rend
      (normal cs) s f hat1 (hed c (by simp)) hc.cons hc.prod hc.l2 hc.l3 hc.r2 hc.r3 hf
    rw [h]
    exact ih c.lend c.rend s' f' hat' (fun d hd => hok d (by simp [hd])) hal'
      (fun d hd => hed d (by simp [hd])) hf'

theorem applyNormal_chunks {L R : List Line} (cs : List (Chunk Line)) (hok : AllOK cs L R)
    (hal : Aligned L R 1 1 cs) (hed : ∀ c ∈ cs, ∀ e ∈ c.edits, EditOK e) :
    DiffApply.applyNormal (normal cs) L = some R :=
  applyNormalLoop_chunks cs 1 1 ⟨[], 1⟩ _ (At.init L R) hok hal hed (Nat.le_refl _)

/-! ## the edits inside the chunks of `New` -/

theorem startChunk_all {α : Type} (Q : Edit α → Prop) (done : List (Chunk α)) (cur : Chunk α)
    (l r : Nat) (hd : ∀ d ∈ done, ∀ e ∈ d.edits, Q e) (hc : ∀ e ∈ cur.edits, Q e) :
    (∀ d ∈ (startChunk done cur l r).1, ∀ e ∈ d.edits, Q e) ∧
    (∀ e ∈ (startChunk done cur l r).2.edits, Q e) := by
  unfold startChunk
  split
  · split
    · refine ⟨?_, by intro e he; cases he⟩
      intro d hd' e he
      rcases List.mem_append.mp hd' with h | h
      · exact hd d h e he
      · rw [List.mem_singleton.mp h] at he; exact hc e he
    · exact ⟨hd, hc⟩
  · exact ⟨hd, hc⟩

theorem newLoop_all {α : Type} (Q : Edit α → Prop) : ∀ (es : List (Edit α)) (done : List (Chunk α))
    (cur : Chunk α) (l r : Nat), (∀ e ∈ es, Q e) → (∀ d ∈ done, ∀ e ∈ d.edits, Q e) →
    (∀ e ∈ cur.edits, Q e) →
    (∀ d ∈ (newLoop es done cur l r).1, ∀ e ∈ d.edits, Q e) ∧
    (∀ e ∈ (newLoop es done cur l r).2.edits, Q e)
  | [], done, cur, l, r, _, hd, hc => by simpa [newLoop] using ⟨hd, hc⟩
  | e :: es, done, cur, l, r, hes, hd, hc => by
    have hs := startChunk_all Q done cur l r hd hc
    have hes' : ∀ e ∈ es, Q e := fun e' he' => hes e' (by simp [he'])
    have hq := hes e (by simp)
    have hpush : ∀ e' ∈ (startChunk done cur l r).2.edits ++ [e], Q e' := by
      intro e' he'
      rcases List.mem_append.mp he' with h | h
      · exact hs.2 e' h
      · rw [List.mem_singleton.mp h]; exact hq
    rw [newLoop]
    cases e.op <;> simp only
    · exact newLoop_all Q es _ _ _ _ hes' hs.1 hpush
    · exact newLoop_all Q es _ _ _ _ hes' hs.1 hs.2
    · exact newLoop_all Q es _ _ _ _ hes' hs.1 hpush
    · exact newLoop_all Q es _ _ _ _ hes' hs.1 hpush

theorem newChunks_all {α : Type} (Q : Edit α → Prop) (es : List (Edit α)) (h : ∀ e ∈ es, Q e) :
    ∀ c ∈ newChunks es, ∀ e ∈ c.edits, Q e := by
  have r := newLoop_all Q es [] ⟨[], 1, 1, 1, 1⟩ 1 1 h (by intro d hd; cases hd) (by intro e he; cases he)
  rw [newChunks_eq]
  unfold Proofs.Mdiff.finish
  split
  · exact r.1
  · intro c hc e he
    rcases List.mem_append.mp hc with h' | h'
    · exact r.1 c h' e he
    · rw [List.mem_singleton.mp h'] at he; exact r.2 e he

/-- a valid script has the unused field of every Drop and Copy empty -/
theorem validFrom_unused {L R : List Line} : ∀ (es : List (Edit Line)) (i j : Nat),
    EditScript.ValidFrom L R es i j → ∀ e ∈ es, (e.op = .drop → e.Y = []) ∧ (e.op = .copy → e.X = [])
  | [], _, _, _, e, he => by cases he
  | e :: es, i, j, h, e', he' => by
    simp only [EditScript.ValidFrom] at h
    rcases List.mem_cons.mp he' with rfl | hm
    · split at h
      · rename_i hop; exact ⟨fun _ => h.2.1, fun h' => (by rw [hop] at h'; cases h')⟩
      · rename_i hop; exact ⟨fun h' => (by rw [hop] at h'; cases h'), fun h' => (by rw [hop] at h'; cases h')⟩
      · rename_i hop; exact ⟨fun h' => (by rw [hop] at h'; cases h'), fun _ => h.1⟩
      · rename_i hop; exact ⟨fun h' => (by rw [hop] at h'; cases h'), fun h' => (by rw [hop] at h'; cases h')⟩
    · split at h
      · exact validFrom_unused es _ _ h.2.2 e' hm
      · exact validFrom_unused es _ _ h.2.2.2 e' hm
      · exact validFrom_unused es _ _ h.2.2 e' hm
      · exact validFrom_unused es _ _ h.2.2 e' hm

/-- valid + canonical ⇒ every edit of the script is `EditOK` -/
theorem editOK_of_valid_canonical {L R : List Line} (es : List (Edit Line))
    (hv : EditScript.Valid es L R) (hc : EditScript.Canonical es) : ∀ e ∈ es, EditOK e := by
  intro e he
  have hu : (e.op = .drop → e.Y = []) ∧ (e.op = .copy → e.X = []) := by
    rcases hv with ⟨rfl, _⟩ | ⟨_, hv⟩
    · cases he
    · exact validFrom_unused es 0 0 hv e he
  have hn := hc.1 e he
  unfold EditOK
  unfold EditScript.NonEmpty at hn
  split <;> rename_i hop <;> simp only [hop] at hn
  · exact ⟨hn, hu.1 hop⟩
  · exact ⟨hn, hu.2 hop⟩
  · exact hn
  · trivial

/-! ## decidability (for the non-vacuity examples) -/

instance decEditOK (e : Edit Line) : Decidable (EditOK e) :=
  match e with
  | ⟨.drop, X, Y⟩ => inferInstanceAs (Decidable (X ≠ [] ∧ Y = []))
  | ⟨.copy, X, Y⟩ => inferInstanceAs (Decidable (Y ≠ [] ∧ X = []))
  | ⟨.replace, X, Y⟩ => inferInstanceAs (Decidable (X ≠ [] ∧ Y ≠ []))
  | ⟨.emit, _, _⟩ => inferInstanceAs (Decidable True)

instance decGapEq {α : Type} [DecidableEq α] (L R : List α) (a b c d : Nat) :
    Decidable (GapEq L R a b c d) :=
  inferInstanceAs (Decidable (a ≤ c ∧ b ≤ d ∧ c - a = d - b ∧ span L a c = span R b d))

instance decAligned {α : Type} [DecidableEq α] (L R : List α) :
    ∀ (lp rp : Nat) (cs : List (Chunk α)), Decidable (Aligned L R lp rp cs)
  | lp, rp, [] => inferInstanceAs (Decidable (L.drop (lp - 1) = R.drop (rp - 1)))
  | lp, rp, c :: cs =>
    have := decAligned L R c.lend c.rend cs
    inferInstanceAs (Decidable (GapEq L R lp rp c.lstart c.rstart ∧ Aligned L R c.lend c.rend cs))

end MdsVerif.Proofs.MdiffApply
