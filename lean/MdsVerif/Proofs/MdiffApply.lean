import MdsVerif.Proofs.MdiffFmt
import MdsVerif.Proofs.Mdiff
import MdsVerif.Spec.DiffApply
/-!
# The renderings of a diff, applied by the published rules, give `Right` — lemmas for C14 (apply)

The reference appliers of `Spec.DiffApply` run on the text written by the model's `normal`,
`unified`, `context` (`Model.MdiffFmt`, with the regenerated facts of `Gen.MdiffFmt`).

Format-independent part: `At L R s lp rp` — the applier state `s` stands at the aligned position
`(lp, rp)`: everything of `L` before `lp` has been accounted for and corresponds to `R` before
`rp` (`s.out ++ L[s.pos, lp) = R[1, rp)`).  `At.gap` moves along a common gap, `At.hunk` is one
`St.hunk`, `At.finish` the final copy.

Then, per format: one command / one hunk of the writer's text is one `St.hunk` of the applier
(`applyNormalLoop_edits`, `applyUnifiedLoop_chunk`, `ctx_chunk_step`), induction over the chunks
(`applyNormal_chunks`, `applyUnified_chunks`, `applyContext_chunks`); the edits inside the chunks of
`New` (`newChunks_all`, `editOK_of_valid_canonical`) and of `AddContext`/`Unify` (`Good`,
`addContextChunks_good`, `unifyChunks_good`).
-/
namespace MdsVerif.Proofs.MdiffApply
open MdsVerif.Model.Edit MdsVerif.Model.Mdiff MdsVerif.Model.MdiffFmt MdsVerif.Proofs.MdiffFmt
open MdsVerif.Spec MdsVerif.Spec.Mdiff MdsVerif.Proofs.Mdiff MdsVerif.Gen

/-! ## numbers and ranges of the reference parser -/

theorem num_itoa (n : Nat) : DiffApply.num? (itoa n) = some n := by
  unfold DiffApply.num?
  rw [if_pos ⟨itoa_ne_nil n, List.all_eq_true.mpr (itoa_digit n)⟩]
  have h := @Nat.ofDigitChars_ten_toDigits n
  rw [Nat.ofDigitChars_eq_foldl] at h
  have e : '0'.toNat = 48 := by decide
  rw [e] at h
  simp only [itoa]
  rw [h]

theorem splitFirst_none (sep : Char) (l : Line) (h : sep ∉ l) :
    DiffApply.splitFirst sep l = (l, none) := by
  induction l with
  | nil => rfl
  | cons c l ih =>
    have hc : c ≠ sep := fun e => h (by simp [e])
    simp [DiffApply.splitFirst, hc, ih (fun e => h (by simp [e]))]

theorem splitFirst_append (sep : Char) (a b : Line) (h : sep ∉ a) :
    DiffApply.splitFirst sep (a ++ sep :: b) = (a, some b) := by
  induction a with
  | nil => simp [DiffApply.splitFirst]
  | cons c a ih =>
    have hc : c ≠ sep := fun e => h (by simp [e])
    simp [DiffApply.splitFirst, hc, ih (fun e => h (by simp [e]))]

theorem range_itoa (n : Nat) : DiffApply.range? (itoa n) = some (n, none) := by
  simp only [DiffApply.range?, splitFirst_none ',' _ (not_mem_itoa n ',' (by decide)), num_itoa,
    Option.map]

theorem range_pair (a b : Nat) : DiffApply.range? (itoa a ++ ',' :: itoa b) = some (a, some b) := by
  simp only [DiffApply.range?, splitFirst_append ',' _ _ (not_mem_itoa a ',' (by decide)), num_itoa]

theorem range_dspan (s e : Nat) :
    DiffApply.range? (dspan s e) = some (s, if e - s = 1 then none else some (e - 1)) := by
  rw [dspan_eq]
  by_cases h : e - s = 1
  · simp only [if_pos h, range_itoa]
  · simp only [if_neg h, range_pair]

/-! ## spans -/

theorem linesIncl_eq_span (L : List Line) (a b : Nat) : DiffApply.linesIncl L a b = span L a (b + 1) := rfl

/-- a prefix of a span is a span -/
theorem span_split {α : Type} {l a b : List α} {s e : Nat} (h : a ++ b = span l s e) (hs : 1 ≤ s)
    (hse : s ≤ e) (he : e ≤ l.length + 1) :
    s + a.length ≤ e ∧ a = span l s (s + a.length) ∧ b = span l (s + a.length) e := by
  have hlen : a.length + b.length = e - s := by
    rw [← List.length_append, h, length_span l hs he]
  have h1 : s + a.length ≤ e := by omega
  have hsp := span_append l hs (Nat.le_add_right s a.length) h1
  rw [← hsp] at h
  have hl : a.length = (span l s (s + a.length)).length := by
    rw [length_span l hs (by omega)]; omega
  have := List.append_inj h hl
  exact ⟨h1, this.1, this.2⟩

/-! ## the applier state at an aligned position -/

structure At (L R : List Line) (s : DiffApply.St) (lp rp : Nat) : Prop where
  p1 : 1 ≤ s.pos
  p2 : s.pos ≤ lp
  l3 : lp ≤ L.length + 1
  r1 : 1 ≤ rp
  r3 : rp ≤ R.length + 1
  out : s.out ++ span L s.pos lp = span R 1 rp

theorem At.init (L R : List Line) : At L R ⟨[], 1⟩ 1 1 :=
  ⟨Nat.le_refl _, Nat.le_refl _, by omega, Nat.le_refl _, by omega, by simp [span_self]⟩

theorem At.gap {L R : List Line} {s : DiffApply.St} {lp rp lp' rp' : Nat} (h : At L R s lp rp)
    (g : GapEq L R lp rp lp' rp') (hl : lp' ≤ L.length + 1) (hr : rp' ≤ R.length + 1) :
    At L R s lp' rp' := by
  obtain ⟨g1, g2, _, g4⟩ := g
  refine ⟨h.p1, by have := h.p2; omega, hl, by have := h.r1; omega, hr, ?_⟩
  rw [← span_append L h.p1 h.p2 g1, ← List.append_assoc, h.out, g4,
    span_append R (Nat.le_refl _) h.r1 g2]

theorem At.hunk {L R : List Line} {s : DiffApply.St} {lp rp : Nat} (h : At L R s lp rp)
    (old new : List Line) (ho : old = span L lp (lp + old.length))
    (hn : new = span R rp (rp + new.length))
    (hl : lp + old.length ≤ L.length + 1) (hr : rp + new.length ≤ R.length + 1) :
    ∃ s', s.hunk L lp old new rp = some s' ∧ At L R s' (lp + old.length) (rp + new.length) := by
  have hp1 := h.p1; have hp2 := h.p2; have hr1 := h.r1
  unfold DiffApply.St.hunk
  rw [if_neg (by omega)]
  have e1 : DiffApply.linesIncl L lp (lp + old.length - 1) = old := by
    by_cases hz : old.length = 0
    · have : old = [] := List.length_eq_zero_iff.mp hz
      subst this
      simp only [linesIncl_eq_span, span, List.length_nil, Nat.add_zero]
      have : lp - 1 + 1 - lp = 0 := by omega
      rw [this, List.take_zero]
    · rw [linesIncl_eq_span]
      have : lp + old.length - 1 + 1 = lp + old.length := by omega
      rw [this]; exact ho.symm
  rw [if_neg (by rw [e1]; simp)]
  have e2 : s.out ++ DiffApply.linesIncl L s.pos (lp - 1) = span R 1 rp := by
    rw [linesIncl_eq_span]
    have : lp - 1 + 1 = lp := by omega
    rw [this]; exact h.out
  simp only [e2]
  have e3 : (span R 1 rp).length + 1 = rp := by
    rw [length_span R (Nat.le_refl _) h.r3]; omega
  rw [if_neg (by omega)]
  refine ⟨_, rfl, ⟨by simp only; omega, by simp only; omega, hl, by omega, hr, ?_⟩⟩
  simp only [span_self, List.append_nil]
  rw [← span_append R (Nat.le_refl _) h.r1 (Nat.le_add_right rp new.length), ← hn]

theorem At.finish {L R : List Line} {s : DiffApply.St} {lp rp : Nat} (h : At L R s lp rp)
    (e : L.drop (lp - 1) = R.drop (rp - 1)) : s.finish L = R := by
  unfold DiffApply.St.finish
  rw [← span_drop L h.p1 h.p2, ← List.append_assoc, h.out, e, span_drop R (Nat.le_refl _) h.r1]
  simp

/-! ## the normal format -/

theorem takeWhile_stop {α : Type} (p : α → Bool) (a : List α) (k : α) (b : List α)
    (ha : ∀ c ∈ a, p c = true) (hk : p k = false) : (a ++ k :: b).takeWhile p = a := by
  rw [List.takeWhile_append_of_pos ha, List.takeWhile_cons_of_neg (by simp [hk])]; simp

theorem dropPrefix_append (p x : Line) : DiffApply.dropPrefix? p (p ++ x) = some x := by
  simp [DiffApply.dropPrefix?, List.isPrefixOf_iff_prefix]

theorem takeMarked_writeLines (pfx : Line) (X rest : List Line) :
    DiffApply.takeMarked pfx X.length (writeLines pfx X ++ rest) = some (X, rest) := by
  induction X with
  | nil => simp [writeLines, DiffApply.takeMarked]
  | cons x X ih =>
    have : writeLines pfx (x :: X) ++ rest = (pfx ++ x) :: (writeLines pfx X ++ rest) := by
      simp [writeLines]
    rw [this, List.length_cons, DiffApply.takeMarked, dropPrefix_append]
    simp only [ih, Option.map]

theorem parseNormalCmd_cmd (a b : Line) (k : Char) (x y : Nat × Option Nat) (ha : SpanChars a)
    (hk : k = 'a' ∨ k = 'c' ∨ k = 'd') (hx : DiffApply.range? a = some x)
    (hy : DiffApply.range? b = some y) : DiffApply.parseNormalCmd (a ++ k :: b) = some (x, k, y) := by
  have hk' : (k.isDigit || k == ',') = false := by rcases hk with rfl | rfl | rfl <;> decide
  have ht : (a ++ k :: b).takeWhile (fun c => c.isDigit || c == ',') = a := by
    apply takeWhile_stop _ a k b _ hk'
    intro c hc
    rcases ha c hc with h | h
    · simp [h]
    · simp [h]
  unfold DiffApply.parseNormalCmd
  simp only [ht, List.drop_left, if_pos hk, hx, hy]

/-- the optional second number of a `dspan`, defaulted to the first: the inclusive end -/
theorem hi_getD {s e : Nat} (h : s < e) :
    (if e - s = 1 then (none : Option Nat) else some (e - 1)).getD s = e - 1 := by
  split
  · simp only [Option.getD]; omega
  · rfl

theorem hi_isSome_none : (none : Option Nat).isSome = false := rfl

theorem ne_nil_length {α : Type} {X : List α} (h : X ≠ []) : 1 ≤ X.length := by
  cases X with | nil => exact absurd rfl h | cons a b => simp

theorem applyNormalLoop_drop {L R : List Line} (f : Nat) (X : List Line) (lpos rpos : Nat)
    (rest : List Line) (s : DiffApply.St) (hX : X ≠ []) (hat : At L R s lpos rpos)
    (hs : X = span L lpos (lpos + X.length)) (hl : lpos + X.length ≤ L.length + 1) :
    ∃ s', DiffApply.applyNormalLoop L (f + 1)
      ((dspan lpos (lpos + X.length) ++ ['d'] ++ itoa (MdiffFmt.normalDropRight lpos rpos))
        :: (writeLines (str MdiffFmt.nrmDel) X ++ rest)) s = DiffApply.applyNormalLoop L f rest s' ∧
      At L R s' (lpos + X.length) rpos := by
  have hk := ne_nil_length hX
  have hr1 := hat.r1
  obtain ⟨s', h1, h2⟩ := hat.hunk X [] hs (by simp [span_self]) hl (by have := hat.r3; simpa using this)
  refine ⟨s', ?_, by simpa using h2⟩
  have hp := parseNormalCmd_cmd (dspan lpos (lpos + X.length)) (itoa (MdiffFmt.normalDropRight lpos rpos)) 'd'
    _ _ (spanChars_dspan _ _) (by simp) (range_dspan _ _) (range_itoa _)
  have e0 : dspan lpos (lpos + X.length) ++ ['d'] ++ itoa (MdiffFmt.normalDropRight lpos rpos)
      = dspan lpos (lpos + X.length) ++ 'd' :: itoa (MdiffFmt.normalDropRight lpos rpos) := by simp
  have hg := hi_getD (show lpos < lpos + X.length by omega)
  have e1 : lpos + X.length - 1 + 1 - lpos = X.length := by omega
  have e2 : MdiffFmt.normalDropRight lpos rpos + 1 = rpos := by simp only [MdiffFmt.normalDropRight]; omega
  have hd1 : ('d' = 'a') = False := by decide
  rw [DiffApply.applyNormalLoop, e0, hp]
  simp only [hg, Option.getD_none, hd1, if_false, if_true, hi_isSome_none, e1, str_wdel,
    takeMarked_writeLines, e2, h1, Bool.false_eq_true]
  rw [if_neg (by omega)]

theorem applyNormalLoop_copy {L R : List Line} (f : Nat) (Y : List Line) (lpos rpos : Nat)
    (rest : List Line) (s : DiffApply.St) (hY : Y ≠ []) (hat : At L R s lpos rpos)
    (hs : Y = span R rpos (rpos + Y.length)) (hr : rpos + Y.length ≤ R.length + 1) :
    ∃ s', DiffApply.applyNormalLoop L (f + 1)
      ((itoa (MdiffFmt.normalAddLeft lpos rpos) ++ ['a'] ++ dspan rpos (rpos + Y.length))
        :: (writeLines (str MdiffFmt.nrmIns) Y ++ rest)) s = DiffApply.applyNormalLoop L f rest s' ∧
      At L R s' lpos (rpos + Y.length) := by
  have hk := ne_nil_length hY
  have hl1 : 1 ≤ lpos := Nat.le_trans hat.p1 hat.p2
  obtain ⟨s', h1, h2⟩ := hat.hunk [] Y (by simp [span_self]) hs (by have := hat.l3; simpa using this) hr
  refine ⟨s', ?_, by simpa using h2⟩
  have hp := parseNormalCmd_cmd (itoa (MdiffFmt.normalAddLeft lpos rpos)) (dspan rpos (rpos + Y.length)) 'a'
    _ _ (spanChars_itoa _) (by simp) (range_itoa _) (range_dspan _ _)
  have e0 : itoa (MdiffFmt.normalAddLeft lpos rpos) ++ ['a'] ++ dspan rpos (rpos + Y.length)
      = itoa (MdiffFmt.normalAddLeft lpos rpos) ++ 'a' :: dspan rpos (rpos + Y.length) := by simp
  have hg := hi_getD (show rpos < rpos + Y.length by omega)
  have e1 : rpos + Y.length - 1 + 1 - rpos = Y.length := by omega
  have e2 : MdiffFmt.normalAddLeft lpos rpos + 1 = lpos := by simp only [MdiffFmt.normalAddLeft]; omega
  rw [DiffApply.applyNormalLoop, e0, hp]
  simp only [hg, Option.getD_none, if_true, hi_isSome_none, e1, str_wins,
    takeMarked_writeLines, e2, h1, Bool.false_eq_true, if_false]
  rw [if_neg (by omega)]

theorem applyNormalLoop_replace {L R : List Line} (f : Nat) (X Y : List Line) (lpos rpos : Nat)
    (rest : List Line) (s : DiffApply.St) (hX : X ≠ []) (hY : Y ≠ []) (hat : At L R s lpos rpos)
    (hsx : X = span L lpos (lpos + X.length)) (hl : lpos + X.length ≤ L.length + 1)
    (hsy : Y = span R rpos (rpos + Y.length)) (hr : rpos + Y.length ≤ R.length + 1) :
    ∃ s', DiffApply.applyNormalLoop L (f + 1)
      ((dspan lpos (lpos + X.length) ++ ['c'] ++ dspan rpos (rpos + Y.length))
        :: (writeLines (str MdiffFmt.nrmDel) X ++ [str "---"] ++ writeLines (str MdiffFmt.nrmIns) Y ++ rest)) s
        = DiffApply.applyNormalLoop L f rest s' ∧
      At L R s' (lpos + X.length) (rpos + Y.length) := by
  have hkx := ne_nil_length hX
  have hky := ne_nil_length hY
  obtain ⟨s', h1, h2⟩ := hat.hunk X Y hsx hsy hl hr
  refine ⟨s', ?_, h2⟩
  have hp := parseNormalCmd_cmd (dspan lpos (lpos + X.length)) (dspan rpos (rpos + Y.length)) 'c'
    _ _ (spanChars_dspan _ _) (by simp) (range_dspan _ _) (range_dspan _ _)
  have e0 : dspan lpos (lpos + X.length) ++ ['c'] ++ dspan rpos (rpos + Y.length)
      = dspan lpos (lpos + X.length) ++ 'c' :: dspan rpos (rpos + Y.length) := by simp
  have hgx := hi_getD (show lpos < lpos + X.length by omega)
  have hgy := hi_getD (show rpos < rpos + Y.length by omega)
  have e1 : lpos + X.length - 1 + 1 - lpos = X.length := by omega
  have e2 : rpos + Y.length - 1 + 1 - rpos = Y.length := by omega
  have hc1 : ('c' = 'a') = False := by decide
  have hc2 : ('c' = 'd') = False := by decide
  have e3 : writeLines (str MdiffFmt.nrmDel) X ++ [str "---"] ++ writeLines (str MdiffFmt.nrmIns) Y ++ rest
      = writeLines ['<', ' '] X ++ (['-', '-', '-'] :: (writeLines ['>', ' '] Y ++ rest)) := by
    simp [str_wdel, str_wins]; rfl
  rw [DiffApply.applyNormalLoop, e0, hp, e3]
  simp only [hgx, hgy, hc1, hc2, if_false, e1, e2, takeMarked_writeLines, h1, ne_eq, not_true_eq_false]
  rw [if_neg (by omega)]

theorem consumed_cons {α : Type} (e : Edit α) (es : List (Edit α)) :
    consumed (e :: es) = consumedOf e ++ consumed es := by simp [consumed]
theorem produced_cons {α : Type} (e : Edit α) (es : List (Edit α)) :
    produced (e :: es) = producedOf e ++ produced es := by simp [produced]

theorem span_nil_eq {α : Type} {l : List α} {s e : Nat} (h : [] = span l s e) (hs : 1 ≤ s) (hse : s ≤ e)
    (he : e ≤ l.length + 1) : e = s := by
  have := length_span l hs he
  rw [← h] at this
  simp at this; omega

/-- the edits of one chunk: `normalEdits` applied command by command -/
theorem applyNormalLoop_edits {L R : List Line} (es : List (Edit Line)) :
    ∀ (lpos rpos le re : Nat) (rest : List Line) (s : DiffApply.St) (f : Nat),
      At L R s lpos rpos → (∀ e ∈ es, EditOK e) →
      consumed es = span L lpos le → produced es = span R rpos re →
      lpos ≤ le → le ≤ L.length + 1 → rpos ≤ re → re ≤ R.length + 1 →
      (normalEdits es lpos rpos ++ rest).length + 1 ≤ f →
      ∃ f' s', rest.length + 1 ≤ f' ∧
        DiffApply.applyNormalLoop L f (normalEdits es lpos rpos ++ rest) s
          = DiffApply.applyNormalLoop L f' rest s' ∧ At L R s' le re := by
  induction es with
  | nil =>
    intro lpos rpos le re rest s f hat _ hc hp h1 h2 h3 h4 hf
    have hl1 : 1 ≤ lpos := Nat.le_trans hat.p1 hat.p2
    have e1 := span_nil_eq hc hl1 h1 h2
    have e2 := span_nil_eq hp hat.r1 h3 h4
    subst e1; subst e2
    exact ⟨f, s, by simpa [normalEdits] using hf, by simp [normalEdits], hat⟩
  | cons e es ih =>
    intro lpos rpos le re rest s f hat hok hc hp h1 h2 h3 h4 hf
    have hl1 : 1 ≤ lpos := Nat.le_trans hat.p1 hat.p2
    have hr1 := hat.r1
    have hok' : ∀ e ∈ es, EditOK e := fun e' he' => hok e' (by simp [he'])
    have he := hok e (by simp)
    rw [consumed_cons] at hc
    rw [produced_cons] at hp
    obtain ⟨c1, c2, c3⟩ := span_split hc hl1 h1 h2
    obtain ⟨p1, p2, p3⟩ := span_split hp hr1 h3 h4
    obtain ⟨op, X, Y⟩ := e
    cases op with
    | drop =>
      simp only [EditOK] at he
      obtain ⟨hX, rfl⟩ := he
      simp only [consumedOf, producedOf, List.length_nil, Nat.add_zero] at c1 c2 c3 p1 p2 p3
      simp only [normalEdits] at hf ⊢
      obtain ⟨f0, rfl⟩ : ∃ f0, f = f0 + 1 := ⟨f - 1, by omega⟩
      have e1 : (dspan lpos (lpos + X.length) ++ ['d'] ++ itoa (MdiffFmt.normalDropRight lpos rpos)) ::
            writeLines (str MdiffFmt.nrmDel) X ++ normalEdits es (lpos + X.length) rpos ++ rest
          = (dspan lpos (lpos + X.length) ++ ['d'] ++ itoa (MdiffFmt.normalDropRight lpos rpos)) ::
            (writeLines (str MdiffFmt.nrmDel) X ++ (normalEdits es (lpos + X.length) rpos ++ rest)) := by simp
      rw [e1] at hf ⊢
      obtain ⟨s1, hs1, hat1⟩ := applyNormalLoop_drop f0 X lpos rpos
        (normalEdits es (lpos + X.length) rpos ++ rest) s hX hat c2 (by omega)
      obtain ⟨f', s', hf', h, hat'⟩ := ih (lpos + X.length) rpos le re rest s1 f0 hat1 hok' c3 p3
        c1 h2 h3 h4
        (by simp only [List.length_cons, List.length_append] at hf ⊢; omega)
      exact ⟨f', s', hf', by rw [hs1, h], hat'⟩
    | emit =>
      simp only [consumedOf, producedOf] at c1 c2 c3 p1 p2 p3
      simp only [normalEdits] at hf ⊢
      have hg : GapEq L R lpos rpos (lpos + X.length) (rpos + X.length) :=
        ⟨by omega, by omega, by omega, by rw [← c2, ← p2]⟩
      exact ih _ _ le re rest s f (hat.gap hg (by omega) (by omega)) hok' c3 p3 c1 h2 p1 h4 hf
    | copy =>
      simp only [EditOK] at he
      obtain ⟨hY, rfl⟩ := he
      simp only [consumedOf, producedOf, List.length_nil, Nat.add_zero] at c1 c2 c3 p1 p2 p3
      simp only [normalEdits] at hf ⊢
      obtain ⟨f0, rfl⟩ : ∃ f0, f = f0 + 1 := ⟨f - 1, by omega⟩
      have e1 : (itoa (MdiffFmt.normalAddLeft lpos rpos) ++ ['a'] ++ dspan rpos (rpos + Y.length)) ::
            writeLines (str MdiffFmt.nrmIns) Y ++ normalEdits es lpos (rpos + Y.length) ++ rest
          = (itoa (MdiffFmt.normalAddLeft lpos rpos) ++ ['a'] ++ dspan rpos (rpos + Y.length)) ::
            (writeLines (str MdiffFmt.nrmIns) Y ++ (normalEdits es lpos (rpos + Y.length) ++ rest)) := by simp
      rw [e1] at hf ⊢
      obtain ⟨s1, hs1, hat1⟩ := applyNormalLoop_copy f0 Y lpos rpos
        (normalEdits es lpos (rpos + Y.length) ++ rest) s hY hat p2 (by omega)
      obtain ⟨f', s', hf', h, hat'⟩ := ih lpos (rpos + Y.length) le re rest s1 f0 hat1 hok' c3 p3
        h1 h2 p1 h4
        (by simp only [List.length_cons, List.length_append] at hf ⊢; omega)
      exact ⟨f', s', hf', by rw [hs1, h], hat'⟩
    | replace =>
      simp only [EditOK] at he
      obtain ⟨hX, hY⟩ := he
      simp only [consumedOf, producedOf] at c1 c2 c3 p1 p2 p3
      simp only [normalEdits] at hf ⊢
      obtain ⟨f0, rfl⟩ : ∃ f0, f = f0 + 1 := ⟨f - 1, by omega⟩
      have e1 : (dspan lpos (lpos + X.length) ++ ['c'] ++ dspan rpos (rpos + Y.length)) ::
            writeLines (str MdiffFmt.nrmDel) X ++ [str "---"] ++ writeLines (str MdiffFmt.nrmIns) Y ++
              normalEdits es (lpos + X.length) (rpos + Y.length) ++ rest
          = (dspan lpos (lpos + X.length) ++ ['c'] ++ dspan rpos (rpos + Y.length)) ::
            (writeLines (str MdiffFmt.nrmDel) X ++ [str "---"] ++ writeLines (str MdiffFmt.nrmIns) Y ++
              (normalEdits es (lpos + X.length) (rpos + Y.length) ++ rest)) := by simp
      rw [e1] at hf ⊢
      obtain ⟨s1, hs1, hat1⟩ := applyNormalLoop_replace f0 X Y lpos rpos
        (normalEdits es (lpos + X.length) (rpos + Y.length) ++ rest) s hX hY hat c2 (by omega) p2 (by omega)
      obtain ⟨f', s', hf', h, hat'⟩ := ih (lpos + X.length) (rpos + Y.length) le re rest s1 f0 hat1 hok' c3 p3
        c1 h2 p1 h4
        (by simp only [List.length_cons, List.length_append] at hf ⊢; omega)
      exact ⟨f', s', hf', by rw [hs1, h], hat'⟩

theorem applyNormalLoop_chunks {L R : List Line} (cs : List (Chunk Line)) :
    ∀ (lp rp : Nat) (s : DiffApply.St) (f : Nat), At L R s lp rp → AllOK cs L R →
      Aligned L R lp rp cs → (∀ c ∈ cs, ∀ e ∈ c.edits, EditOK e) → (normal cs).length + 1 ≤ f →
      DiffApply.applyNormalLoop L f (normal cs) s = some R := by
  induction cs with
  | nil =>
    intro lp rp s f hat _ hal _ hf
    obtain ⟨f0, rfl⟩ : ∃ f0, f = f0 + 1 := ⟨f - 1, by omega⟩
    simp only [normal, List.flatMap_nil, DiffApply.applyNormalLoop]
    rw [hat.finish hal]
  | cons c cs ih =>
    intro lp rp s f hat hok hal hed hf
    have hc := hok c (by simp)
    obtain ⟨hg, hal'⟩ := hal
    rw [normal_cons] at hf ⊢
    have hat1 := hat.gap hg (by have := hc.l2; have := hc.l3; omega) (by have := hc.r2; have := hc.r3; omega)
    obtain ⟨f', s', hf', h, hat'⟩ := applyNormalLoop_edits c.edits c.lstart c.rstart c.lend c.rend
      (normal cs) s f hat1 (hed c (by simp)) hc.cons hc.prod hc.l2 hc.l3 hc.r2 hc.r3 hf
    rw [h]
    exact ih c.lend c.rend s' f' hat' (fun d hd => hok d (by simp [hd])) hal'
      (fun d hd => hed d (by simp [hd])) hf'

theorem applyNormal_chunks {L R : List Line} (cs : List (Chunk Line)) (hok : AllOK cs L R)
    (hal : Aligned L R 1 1 cs) (hed : ∀ c ∈ cs, ∀ e ∈ c.edits, EditOK e) :
    DiffApply.applyNormal (normal cs) L = some R :=
  applyNormalLoop_chunks cs 1 1 ⟨[], 1⟩ _ (At.init L R) hok hal hed (Nat.le_refl _)

/-! ## the edits inside the chunks of `New` -/

theorem startChunk_all {α : Type} (Q : Edit α → Prop) (done : List (Chunk α)) (cur : Chunk α)
    (l r : Nat) (hd : ∀ d ∈ done, ∀ e ∈ d.edits, Q e) (hc : ∀ e ∈ cur.edits, Q e) :
    (∀ d ∈ (startChunk done cur l r).1, ∀ e ∈ d.edits, Q e) ∧
    (∀ e ∈ (startChunk done cur l r).2.edits, Q e) := by
  unfold startChunk
  split
  · split
    · refine ⟨?_, by intro e he; cases he⟩
      intro d hd' e he
      rcases List.mem_append.mp hd' with h | h
      · exact hd d h e he
      · rw [List.mem_singleton.mp h] at he; exact hc e he
    · exact ⟨hd, hc⟩
  · exact ⟨hd, hc⟩

theorem newLoop_all {α : Type} (Q : Edit α → Prop) : ∀ (es : List (Edit α)) (done : List (Chunk α))
    (cur : Chunk α) (l r : Nat), (∀ e ∈ es, Q e) → (∀ d ∈ done, ∀ e ∈ d.edits, Q e) →
    (∀ e ∈ cur.edits, Q e) →
    (∀ d ∈ (newLoop es done cur l r).1, ∀ e ∈ d.edits, Q e) ∧
    (∀ e ∈ (newLoop es done cur l r).2.edits, Q e)
  | [], done, cur, l, r, _, hd, hc => by simpa [newLoop] using ⟨hd, hc⟩
  | e :: es, done, cur, l, r, hes, hd, hc => by
    have hs := startChunk_all Q done cur l r hd hc
    have hes' : ∀ e ∈ es, Q e := fun e' he' => hes e' (by simp [he'])
    have hq := hes e (by simp)
    have hpush : ∀ e' ∈ (startChunk done cur l r).2.edits ++ [e], Q e' := by
      intro e' he'
      rcases List.mem_append.mp he' with h | h
      · exact hs.2 e' h
      · rw [List.mem_singleton.mp h]; exact hq
    rw [newLoop]
    cases e.op <;> simp only
    · exact newLoop_all Q es _ _ _ _ hes' hs.1 hpush
    · exact newLoop_all Q es _ _ _ _ hes' hs.1 hs.2
    · exact newLoop_all Q es _ _ _ _ hes' hs.1 hpush
    · exact newLoop_all Q es _ _ _ _ hes' hs.1 hpush

theorem newChunks_all {α : Type} (Q : Edit α → Prop) (es : List (Edit α)) (h : ∀ e ∈ es, Q e) :
    ∀ c ∈ newChunks es, ∀ e ∈ c.edits, Q e := by
  have r := newLoop_all Q es [] ⟨[], 1, 1, 1, 1⟩ 1 1 h (by intro d hd; cases hd) (by intro e he; cases he)
  rw [newChunks_eq]
  unfold Proofs.Mdiff.finish
  split
  · exact r.1
  · intro c hc e he
    rcases List.mem_append.mp hc with h' | h'
    · exact r.1 c h' e he
    · rw [List.mem_singleton.mp h'] at he; exact r.2 e he

/-- a valid script has the unused field of every Drop and Copy empty -/
theorem validFrom_unused {L R : List Line} : ∀ (es : List (Edit Line)) (i j : Nat),
    EditScript.ValidFrom L R es i j → ∀ e ∈ es, (e.op = .drop → e.Y = []) ∧ (e.op = .copy → e.X = [])
  | [], _, _, _, e, he => by cases he
  | e :: es, i, j, h, e', he' => by
    simp only [EditScript.ValidFrom] at h
    rcases List.mem_cons.mp he' with rfl | hm
    · split at h
      · rename_i hop; exact ⟨fun _ => h.2.1, fun h' => (by rw [hop] at h'; cases h')⟩
      · rename_i hop; exact ⟨fun h' => (by rw [hop] at h'; cases h'), fun h' => (by rw [hop] at h'; cases h')⟩
      · rename_i hop; exact ⟨fun h' => (by rw [hop] at h'; cases h'), fun _ => h.1⟩
      · rename_i hop; exact ⟨fun h' => (by rw [hop] at h'; cases h'), fun h' => (by rw [hop] at h'; cases h')⟩
    · split at h
      · exact validFrom_unused es _ _ h.2.2 e' hm
      · exact validFrom_unused es _ _ h.2.2.2 e' hm
      · exact validFrom_unused es _ _ h.2.2 e' hm
      · exact validFrom_unused es _ _ h.2.2 e' hm

/-- valid + canonical ⇒ every edit of the script is `EditOK` -/
theorem editOK_of_valid_canonical {L R : List Line} (es : List (Edit Line))
    (hv : EditScript.Valid es L R) (hc : EditScript.Canonical es) : ∀ e ∈ es, EditOK e := by
  intro e he
  have hu : (e.op = .drop → e.Y = []) ∧ (e.op = .copy → e.X = []) := by
    rcases hv with ⟨rfl, _⟩ | ⟨_, hv⟩
    · cases he
    · exact validFrom_unused es 0 0 hv e he
  have hn := hc.1 e he
  unfold EditOK
  unfold EditScript.NonEmpty at hn
  split <;> rename_i hop <;> simp only [hop] at hn
  · exact ⟨hn, hu.1 hop⟩
  · exact ⟨hn, hu.2 hop⟩
  · exact hn
  · trivial

/-! ## decidability (for the non-vacuity examples) -/

instance decEditOK (e : Edit Line) : Decidable (EditOK e) :=
  match e with
  | ⟨.drop, X, Y⟩ => inferInstanceAs (Decidable (X ≠ [] ∧ Y = []))
  | ⟨.copy, X, Y⟩ => inferInstanceAs (Decidable (Y ≠ [] ∧ X = []))
  | ⟨.replace, X, Y⟩ => inferInstanceAs (Decidable (X ≠ [] ∧ Y ≠ []))
  | ⟨.emit, _, _⟩ => inferInstanceAs (Decidable True)

instance decGapEq {α : Type} [DecidableEq α] (L R : List α) (a b c d : Nat) :
    Decidable (GapEq L R a b c d) :=
  inferInstanceAs (Decidable (a ≤ c ∧ b ≤ d ∧ c - a = d - b ∧ span L a c = span R b d))

instance decAligned {α : Type} [DecidableEq α] (L R : List α) :
    ∀ (lp rp : Nat) (cs : List (Chunk α)), Decidable (Aligned L R lp rp cs)
  | lp, rp, [] => inferInstanceAs (Decidable (L.drop (lp - 1) = R.drop (rp - 1)))
  | lp, rp, c :: cs =>
    have := decAligned L R c.lend c.rend cs
    inferInstanceAs (Decidable (GapEq L R lp rp c.lstart c.rstart ∧ Aligned L R c.lend c.rend cs))


/-! # the unified format: `applyUnified (unified cs fi) L = some R` -/

/-! ## the body of a hunk -/

theorem str_uniDrop : str MdiffFmt.uniDrop = ['-'] := rfl
theorem str_uniEmit : str MdiffFmt.uniEmit = [' '] := rfl
theorem str_uniCopy : str MdiffFmt.uniCopy = ['+'] := rfl

theorem unifiedBody_zero (rest : List Line) :
    DiffApply.unifiedBody 0 0 rest = some ([], [], rest) := by
  cases rest <;> rfl

theorem unifiedBody_minus (x : Line) (s t : Nat) (rest : List Line) :
    DiffApply.unifiedBody (s + 1) t (('-' :: x) :: rest)
      = (DiffApply.unifiedBody s t rest).map fun p => (x :: p.1, p.2.1, p.2.2) := rfl

theorem unifiedBody_plus (x : Line) (s t : Nat) (rest : List Line) :
    DiffApply.unifiedBody s (t + 1) (('+' :: x) :: rest)
      = (DiffApply.unifiedBody s t rest).map fun p => (p.1, x :: p.2.1, p.2.2) := by
  rw [DiffApply.unifiedBody.eq_def]
  simp

theorem unifiedBody_space (x : Line) (s t : Nat) (rest : List Line) :
    DiffApply.unifiedBody (s + 1) (t + 1) ((' ' :: x) :: rest)
      = (DiffApply.unifiedBody s t rest).map fun p => (x :: p.1, x :: p.2.1, p.2.2) := rfl

theorem unifiedBody_drop (X : List Line) (s t : Nat) (rest : List Line) :
    DiffApply.unifiedBody (X.length + s) t (writeLines ['-'] X ++ rest)
      = (DiffApply.unifiedBody s t rest).map fun p => (X ++ p.1, p.2.1, p.2.2) := by
  induction X with
  | nil =>
    simp only [writeLines, List.length_nil, Nat.zero_add, List.map_nil, List.nil_append]
    cases DiffApply.unifiedBody s t rest <;> rfl
  | cons x X ih =>
    have e : (x :: X).length + s = (X.length + s) + 1 := by simp only [List.length_cons]; omega
    rw [e]
    simp only [writeLines, List.map_cons, List.cons_append, List.nil_append] at ih ⊢
    rw [unifiedBody_minus, ih]
    cases DiffApply.unifiedBody s t rest <;> simp

theorem unifiedBody_copy (Y : List Line) (s t : Nat) (rest : List Line) :
    DiffApply.unifiedBody s (Y.length + t) (writeLines ['+'] Y ++ rest)
      = (DiffApply.unifiedBody s t rest).map fun p => (p.1, Y ++ p.2.1, p.2.2) := by
  induction Y with
  | nil =>
    simp only [writeLines, List.length_nil, Nat.zero_add, List.map_nil, List.nil_append]
    cases DiffApply.unifiedBody s t rest <;> rfl
  | cons x X ih =>
    have e : (x :: X).length + t = (X.length + t) + 1 := by simp only [List.length_cons]; omega
    rw [e]
    simp only [writeLines, List.map_cons, List.cons_append, List.nil_append] at ih ⊢
    rw [unifiedBody_plus, ih]
    cases DiffApply.unifiedBody s t rest <;> simp

theorem unifiedBody_emit (X : List Line) (s t : Nat) (rest : List Line) :
    DiffApply.unifiedBody (X.length + s) (X.length + t) (writeLines [' '] X ++ rest)
      = (DiffApply.unifiedBody s t rest).map fun p => (X ++ p.1, X ++ p.2.1, p.2.2) := by
  induction X with
  | nil =>
    simp only [writeLines, List.length_nil, Nat.zero_add, List.map_nil, List.nil_append]
    cases DiffApply.unifiedBody s t rest <;> rfl
  | cons x X ih =>
    have e : (x :: X).length + s = (X.length + s) + 1 := by simp only [List.length_cons]; omega
    have e' : (x :: X).length + t = (X.length + t) + 1 := by simp only [List.length_cons]; omega
    rw [e, e']
    simp only [writeLines, List.map_cons, List.cons_append, List.nil_append] at ih ⊢
    rw [unifiedBody_space, ih]
    cases DiffApply.unifiedBody s t rest <;> simp

theorem unifiedBody_edits (es : List (Edit Line)) (s t : Nat) (rest : List Line) :
    DiffApply.unifiedBody ((consumed es).length + s) ((produced es).length + t)
        (es.flatMap unifiedEdit ++ rest)
      = (DiffApply.unifiedBody s t rest).map fun p => (consumed es ++ p.1, produced es ++ p.2.1, p.2.2) := by
  induction es with
  | nil =>
    simp only [consumed, produced, List.flatMap_nil, List.length_nil, Nat.zero_add, List.nil_append]
    cases DiffApply.unifiedBody s t rest <;> rfl
  | cons e es ih =>
    obtain ⟨op, X, Y⟩ := e
    have hc : consumed (⟨op, X, Y⟩ :: es) = consumedOf ⟨op, X, Y⟩ ++ consumed es := by simp [consumed]
    have hp : produced (⟨op, X, Y⟩ :: es) = producedOf ⟨op, X, Y⟩ ++ produced es := by simp [produced]
    rw [hc, hp, List.flatMap_cons, List.append_assoc]
    cases op
    · -- drop
      simp only [consumedOf, producedOf, unifiedEdit, str_uniDrop, List.nil_append,
        List.length_append, Nat.add_assoc]
      rw [unifiedBody_drop, ih]
      cases DiffApply.unifiedBody s t rest <;> simp
    · -- emit
      simp only [consumedOf, producedOf, unifiedEdit, str_uniEmit, List.length_append, Nat.add_assoc]
      rw [unifiedBody_emit, ih]
      cases DiffApply.unifiedBody s t rest <;> simp
    · -- copy
      simp only [consumedOf, producedOf, unifiedEdit, str_uniCopy, List.nil_append,
        List.length_append, Nat.add_assoc]
      rw [unifiedBody_copy, ih]
      cases DiffApply.unifiedBody s t rest <;> simp
    · -- replace
      simp only [consumedOf, producedOf, unifiedEdit, str_uniDrop, str_uniCopy,
        List.length_append, Nat.add_assoc, List.append_assoc]
      rw [unifiedBody_drop, unifiedBody_copy, ih]
      cases DiffApply.unifiedBody s t rest <;> simp

theorem unifiedBody_chunk (es : List (Edit Line)) (rest : List Line) :
    DiffApply.unifiedBody (consumed es).length (produced es).length (es.flatMap unifiedEdit ++ rest)
      = some (consumed es, produced es, rest) := by
  have := unifiedBody_edits es 0 0 rest
  simp only [Nat.add_zero, unifiedBody_zero, Option.map, List.append_nil] at this
  exact this

/-! ## the hunk header -/

/-- what `uspan` writes after the side byte -/
def urange (s e : Nat) : Line := if e - s = 1 then itoa s else itoa s ++ ',' :: itoa (e - s)

theorem uspan_cons (c : Char) (s e : Nat) : uspan [c] s e = c :: urange s e := by
  rw [uspan_eq, urange]
  by_cases h : e - s = 1
  · simp only [if_pos h, List.cons_append, List.nil_append]
  · simp only [if_neg h, List.cons_append, List.nil_append]

theorem urange_nospace (s e : Nat) : ' ' ∉ urange s e := by
  have h1 := not_mem_itoa s ' ' (by decide)
  have h2 := not_mem_itoa (e - s) ' ' (by decide)
  unfold urange
  by_cases h : e - s = 1
  · rw [if_pos h]; exact h1
  · rw [if_neg h]
    intro hm
    rcases List.mem_append.mp hm with hm | hm
    · exact h1 hm
    · rcases List.mem_cons.mp hm with hm | hm
      · exact absurd hm (by decide)
      · exact h2 hm

theorem range_urange (s e : Nat) :
    DiffApply.range? (urange s e) = some (s, if e - s = 1 then none else some (e - s)) := by
  unfold urange
  by_cases h : e - s = 1
  · simp only [if_pos h, range_itoa]
  · simp only [if_neg h, range_pair]

theorem takeWhile_nospace (a rest : Line) (h : ' ' ∉ a) :
    (a ++ ' ' :: rest).takeWhile (· ≠ ' ') = a := by
  induction a with
  | nil => simp
  | cons c a ih =>
    have hc : c ≠ ' ' := fun e => h (by simp [e])
    have ih' := ih (fun e => h (by simp [e]))
    rw [List.cons_append, List.takeWhile_cons, if_pos (decide_eq_true hc), ih']

theorem parseUnifiedHeader_mk (a b : Line) (ha : ' ' ∉ a) (hb : ' ' ∉ b)
    (x y : Nat × Option Nat) (hx : DiffApply.range? a = some x) (hy : DiffApply.range? b = some y) :
    DiffApply.parseUnifiedHeader ('@' :: '@' :: ' ' :: '-' :: (a ++ ' ' :: '+' :: (b ++ [' ', '@', '@'])))
      = some (x, y) := by
  unfold DiffApply.parseUnifiedHeader
  have d1 : DiffApply.dropPrefix? ['@', '@', ' ', '-']
      ('@' :: '@' :: ' ' :: '-' :: (a ++ ' ' :: '+' :: (b ++ [' ', '@', '@'])))
      = some (a ++ ' ' :: '+' :: (b ++ [' ', '@', '@'])) := by
    simp [DiffApply.dropPrefix?, List.isPrefixOf]
  rw [d1]
  simp only [takeWhile_nospace _ _ ha, List.drop_left]
  have d2 : DiffApply.dropPrefix? [' ', '+'] (' ' :: '+' :: (b ++ [' ', '@', '@']))
      = some (b ++ [' ', '@', '@']) := by
    simp [DiffApply.dropPrefix?, List.isPrefixOf]
  rw [d2]
  simp only [takeWhile_nospace _ _ hb, List.drop_left]
  rw [if_pos (by simp [List.isPrefixOf])]
  simp only [hx, hy]

theorem parseUnifiedHeader_chunk (ls le rs re : Nat) :
    DiffApply.parseUnifiedHeader
        (str "@@ " ++ uspan ['-'] ls le ++ [' '] ++ uspan ['+'] rs re ++ str " @@")
      = some ((ls, if le - ls = 1 then none else some (le - ls)),
              (rs, if re - rs = 1 then none else some (re - rs))) := by
  have e : str "@@ " ++ uspan ['-'] ls le ++ [' '] ++ uspan ['+'] rs re ++ str " @@"
      = '@' :: '@' :: ' ' :: '-' :: (urange ls le ++ ' ' :: '+' :: (urange rs re ++ [' ', '@', '@'])) := by
    rw [uspan_cons, uspan_cons]
    have e1 : str "@@ " = ['@', '@', ' '] := rfl
    have e2 : str " @@" = [' ', '@', '@'] := rfl
    rw [e1, e2]
    simp only [List.cons_append, List.nil_append, List.append_assoc]
  rw [e]
  exact parseUnifiedHeader_mk _ _ (urange_nospace ls le) (urange_nospace rs re) _ _
    (range_urange ls le) (range_urange rs re)

/-! ## one chunk -/

theorem count_getD (n : Nat) : (if n = 1 then (none : Option Nat) else some n).getD 1 = n := by
  by_cases h : n = 1
  · rw [if_pos h, h]; rfl
  · rw [if_neg h]; rfl

/-- the applier's own account of the new-file position agrees with the aligned position -/
theorem At.newPos {L R : List Line} {s : DiffApply.St} {lp rp : Nat} (h : At L R s lp rp) :
    s.newPos L lp = rp := by
  have hp2 := h.p2; have hp1 := h.p1
  unfold DiffApply.St.newPos
  rw [linesIncl_eq_span]
  have : lp - 1 + 1 = lp := by omega
  rw [this, h.out, length_span R (Nat.le_refl _) h.r3]
  have := h.r1
  omega

/-- one hunk.  `hne`: the chunk's LEFT range is not empty, or the applier reads an empty left range
the way it is written (`asWritten = true`).  An empty RIGHT range needs no hypothesis. -/
theorem applyUnifiedLoop_chunk (aw : Bool) (L R : List Line) (c : Chunk Line) (rest : List Line) (f : Nat)
    (s : DiffApply.St) (lp rp : Nat) (h : At L R s lp rp) (g : GapEq L R lp rp c.lstart c.rstart)
    (hc : ChunkOK c L R) (hne : aw = true ∨ c.lstart < c.lend) :
    ∃ s', DiffApply.applyUnifiedLoop aw L (f + 1) (unifiedChunk c ++ rest) s
        = DiffApply.applyUnifiedLoop aw L f rest s' ∧ At L R s' c.lend c.rend := by
  have hl1 := hc.l1; have hl2 := hc.l2; have hl3 := hc.l3
  have hr1 := hc.r1; have hr2 := hc.r2; have hr3 := hc.r3
  have h' := h.gap g (by omega) (by omega)
  have hol : (consumed c.edits).length = c.lend - c.lstart := by
    rw [hc.cons, length_span L hc.l1 hc.l3]
  have hnl : (produced c.edits).length = c.rend - c.rstart := by
    rw [hc.prod, length_span R hc.r1 hc.r3]
  have el : c.lstart + (consumed c.edits).length = c.lend := by omega
  have er : c.rstart + (produced c.edits).length = c.rend := by omega
  obtain ⟨s', hs, hat⟩ := h'.hunk (consumed c.edits) (produced c.edits)
    (by rw [el]; exact hc.cons) (by rw [er]; exact hc.prod) (by omega) (by omega)
  rw [el, er] at hat
  refine ⟨s', ?_, hat⟩
  unfold unifiedChunk
  rw [List.cons_append, DiffApply.applyUnifiedLoop, parseUnifiedHeader_chunk]
  simp only [count_getD]
  rw [← hol, ← hnl, unifiedBody_chunk]
  simp only
  have e1 : (if (consumed c.edits).length = 0 ∧ aw = false then c.lstart + 1 else c.lstart) = c.lstart := by
    rw [if_neg]
    rintro ⟨h0, ha⟩
    rcases hne with hne | hne
    · rw [ha] at hne; exact Bool.noConfusion hne
    · omega
  rw [e1]
  have e2 : (if (produced c.edits).length = 0 then s.newPos L c.lstart else c.rstart) = c.rstart := by
    by_cases h0 : (produced c.edits).length = 0
    · rw [if_pos h0]; exact h'.newPos
    · rw [if_neg h0]
  rw [e2, hs]

/-! ## all chunks -/

theorem unifiedChunk_length_pos (c : Chunk Line) : 1 ≤ (unifiedChunk c).length := by
  unfold unifiedChunk
  rw [List.length_cons]; omega

theorem applyUnifiedLoop_chunks (aw : Bool) (L R : List Line) : ∀ (cs : List (Chunk Line)) (f : Nat)
    (s : DiffApply.St) (lp rp : Nat), (cs.flatMap unifiedChunk).length + 1 ≤ f → At L R s lp rp →
    AllOK cs L R → Aligned L R lp rp cs → (∀ c ∈ cs, aw = true ∨ c.lstart < c.lend) →
    DiffApply.applyUnifiedLoop aw L f (cs.flatMap unifiedChunk) s = some R
  | [], f, s, lp, rp, hf, h, _, hal, _ => by
    obtain ⟨f', rfl⟩ : ∃ f', f = f' + 1 := ⟨f - 1, by omega⟩
    rw [List.flatMap_nil, DiffApply.applyUnifiedLoop, h.finish hal]
  | c :: cs, f, s, lp, rp, hf, h, hok, hal, hne => by
    obtain ⟨f', rfl⟩ : ∃ f', f = f' + 1 := ⟨f - 1, by omega⟩
    rw [List.flatMap_cons] at hf ⊢
    rw [List.length_append] at hf
    have := unifiedChunk_length_pos c
    obtain ⟨s', hs, hat⟩ := applyUnifiedLoop_chunk aw L R c (cs.flatMap unifiedChunk) f' s lp rp h hal.1
      (hok c (List.mem_cons_self ..)) (hne c (List.mem_cons_self ..))
    rw [hs]
    exact applyUnifiedLoop_chunks aw L R cs f' s' c.lend c.rend (by omega) hat
      (fun d hd => hok d (List.mem_cons_of_mem _ hd)) hal.2
      (fun d hd => hne d (List.mem_cons_of_mem _ hd))

theorem skipHeader_hunk (p2 x : Line) (rest : List Line) :
    DiffApply.skipHeader ['-', '-', '-', ' '] p2 (('@' :: x) :: rest) = ('@' :: x) :: rest := by
  cases rest with
  | nil => rfl
  | cons b rest => simp [DiffApply.skipHeader, List.isPrefixOf]

theorem skipHeader_header (x y : Line) (rest : List Line) :
    DiffApply.skipHeader ['-', '-', '-', ' '] ['+', '+', '+', ' ']
      (('-' :: '-' :: '-' :: ' ' :: x) :: ('+' :: '+' :: '+' :: ' ' :: y) :: rest) = rest := by
  simp [DiffApply.skipHeader, List.isPrefixOf]

theorem unifiedChunk_head (c : Chunk Line) : ∃ x rest, unifiedChunk c = ('@' :: x) :: rest := by
  unfold unifiedChunk
  have e1 : str "@@ " = ['@', '@', ' '] := rfl
  rw [e1]
  simp only [List.cons_append]
  exact ⟨_, _, rfl⟩

theorem skipHeader_unified (cs : List (Chunk Line)) (fi : Option FileInfo) :
    DiffApply.skipHeader ['-', '-', '-', ' '] ['+', '+', '+', ' '] (unified cs fi)
      = cs.flatMap unifiedChunk := by
  cases cs with
  | nil => rfl
  | cons c cs =>
    unfold unified
    rw [if_neg (by simp)]
    cases fi with
    | none =>
      simp only [List.nil_append, List.flatMap_cons]
      obtain ⟨x, rest, e⟩ := unifiedChunk_head c
      rw [e, List.cons_append, skipHeader_hunk]
    | some f =>
      simp only [fmtFileHeader]
      have e1 : str "--- " = ['-', '-', '-', ' '] := rfl
      have e2 : str "+++ " = ['+', '+', '+', ' '] := rfl
      rw [e1, e2]
      simp only [List.cons_append, List.nil_append]
      rw [skipHeader_header]

/-- the unified text of correct, aligned chunks applied with either reading of an empty left range:
it gives `R` provided no chunk has an empty LEFT range, or the reading is the writer's own -/
theorem applyUnifiedWith_chunks (aw : Bool) (cs : List (Chunk Line)) (L R : List Line) (fi : Option FileInfo)
    (hok : AllOK cs L R) (hal : Aligned L R 1 1 cs)
    (hne : ∀ c ∈ cs, aw = true ∨ c.lstart < c.lend) :
    DiffApply.applyUnifiedWith aw (unified cs fi) L = some R := by
  unfold DiffApply.applyUnifiedWith
  simp only [skipHeader_unified]
  exact applyUnifiedLoop_chunks aw L R cs _ _ 1 1 (Nat.le_refl _) (At.init L R) hok hal hne

/-- **C14, unified**: the reference applier of the unified format, run on what `Unified` writes for
correct, aligned chunks with non-empty LEFT ranges, turns `L` into `R` -/
theorem applyUnified_chunks (cs : List (Chunk Line)) (L R : List Line) (fi : Option FileInfo)
    (hok : AllOK cs L R) (hal : Aligned L R 1 1 cs)
    (hne : ∀ c ∈ cs, c.lstart < c.lend) :
    DiffApply.applyUnified (unified cs fi) L = some R :=
  applyUnifiedWith_chunks false cs L R fi hok hal (fun c hc => Or.inr (hne c hc))

theorem applyUnified_chunks_none (cs : List (Chunk Line)) (L R : List Line)
    (hok : AllOK cs L R) (hal : Aligned L R 1 1 cs)
    (hne : ∀ c ∈ cs, c.lstart < c.lend) :
    DiffApply.applyUnified (unified cs none) L = some R :=
  applyUnified_chunks cs L R none hok hal hne

/-- read the way it is written (F6), the unified text of ANY correct, aligned chunk list applies -/
theorem applyUnifiedAsWritten_chunks (cs : List (Chunk Line)) (L R : List Line) (fi : Option FileInfo)
    (hok : AllOK cs L R) (hal : Aligned L R 1 1 cs) :
    DiffApply.applyUnifiedWith true (unified cs fi) L = some R :=
  applyUnifiedWith_chunks true cs L R fi hok hal (fun _ _ => Or.inl rfl)


/-! # the context format: `applyContext (context cs fi) L = some R` -/

/-! ## the range lines -/

theorem ctx_takeWhile_space (a b : Line) (h : ' ' ∉ a) :
    (a ++ ' ' :: b).takeWhile (· ≠ ' ') = a := by
  apply takeWhile_stop _ a ' ' b _ (by simp)
  intro c hc
  have : c ≠ ' ' := fun e => h (e ▸ hc)
  simp [this]

theorem parseContextRange_dspan (pfx sfx : Line) (s e : Nat) (hs : 1 ≤ s) (hse : s ≤ e) :
    DiffApply.parseContextRange pfx (' ' :: sfx) (pfx ++ (dspan s e ++ ' ' :: sfx))
      = some (s, e - s) := by
  have hsp : ' ' ∉ dspan s e :=
    spanChars_not_mem (spanChars_dspan s e) ' ' (by decide) (by decide)
  unfold DiffApply.parseContextRange
  simp only [dropPrefix_append, ctx_takeWhile_space _ _ hsp, List.drop_left, ne_eq, not_true_eq_false,
    if_false, range_dspan]
  by_cases h : e - s = 1
  · simp only [if_pos h]
    rw [h]
  · simp only [if_neg h]
    rw [if_neg (by omega)]
    have : e - 1 + 1 - s = e - s := by omega
    rw [this]

theorem ctx_parse_old (s e : Nat) (hs : 1 ≤ s) (hse : s ≤ e) :
    DiffApply.parseContextRange ['*', '*', '*', ' '] [' ', '*', '*', '*', '*']
      (str "*** " ++ dspan s e ++ str " ****") = some (s, e - s) := by
  have a : str "*** " = ['*', '*', '*', ' '] := rfl
  have b : str " ****" = [' ', '*', '*', '*', '*'] := rfl
  rw [a, b, List.append_assoc]
  exact parseContextRange_dspan _ _ s e hs hse

theorem ctx_parse_new (s e : Nat) (hs : 1 ≤ s) (hse : s ≤ e) :
    DiffApply.parseContextRange ['-', '-', '-', ' '] [' ', '-', '-', '-', '-']
      (str "--- " ++ dspan s e ++ str " ----") = some (s, e - s) := by
  have a : str "--- " = ['-', '-', '-', ' '] := rfl
  have b : str " ----" = [' ', '-', '-', '-', '-'] := rfl
  rw [a, b, List.append_assoc]
  exact parseContextRange_dspan _ _ s e hs hse

/-! ## the sides of a hunk -/

/-- the lines of one side, from `(marker, content)` pairs -/
def sideLines (ps : List (Char × Line)) : List Line := ps.map fun p => p.1 :: ' ' :: p.2

theorem sideLines_append (a b : List (Char × Line)) :
    sideLines (a ++ b) = sideLines a ++ sideLines b := by simp [sideLines]

theorem sideLines_cons_append (p : Char × Line) (ps : List (Char × Line)) (X : List Line) :
    sideLines (p :: ps) ++ X = (p.1 :: ' ' :: p.2) :: (sideLines ps ++ X) := rfl

theorem contextSide_pairs (ok : Char → Bool) (ps : List (Char × Line))
    (h : ∀ p ∈ ps, ok p.1 = true) (rest : List Line) :
    DiffApply.contextSide ok ps.length (sideLines ps ++ rest) = some (ps, rest) := by
  induction ps with
  | nil => simp [sideLines, DiffApply.contextSide]
  | cons p ps ih =>
    have hp := h p (by simp)
    have := ih (fun q hq => h q (by simp [hq]))
    rw [sideLines_cons_append, List.length_cons, DiffApply.contextSide]
    simp [hp, this]

def leftPairs (e : Edit Line) : List (Char × Line) :=
  match e.op with
  | .drop => e.X.map fun t => ('-', t)
  | .emit => e.X.map fun t => (' ', t)
  | .replace => e.X.map fun t => ('!', t)
  | .copy => []

def rightPairs (e : Edit Line) : List (Char × Line) :=
  match e.op with
  | .copy => e.Y.map fun t => ('+', t)
  | .emit => e.X.map fun t => (' ', t)
  | .replace => e.Y.map fun t => ('!', t)
  | .drop => []

theorem str_cdrop : str MdiffFmt.ctxDrop = ['-', ' '] := rfl
theorem str_cemit : str MdiffFmt.ctxEmit = [' ', ' '] := rfl
theorem str_crepl : str MdiffFmt.ctxRepl = ['!', ' '] := rfl
theorem str_ccopy : str MdiffFmt.ctxCopy = ['+', ' '] := rfl

theorem contextLeft_eq (e : Edit Line) : contextLeft e = sideLines (leftPairs e) := by
  obtain ⟨op, X, Y⟩ := e
  cases op <;>
    simp [contextLeft, leftPairs, sideLines, writeLines, str_cdrop, str_cemit, str_crepl]

theorem contextRight_eq (e : Edit Line) : contextRight e = sideLines (rightPairs e) := by
  obtain ⟨op, X, Y⟩ := e
  cases op <;>
    simp [contextRight, rightPairs, sideLines, writeLines, str_ccopy, str_cemit, str_crepl]

theorem flatMap_contextLeft (es : List (Edit Line)) :
    es.flatMap contextLeft = sideLines (es.flatMap leftPairs) := by
  induction es with
  | nil => rfl
  | cons e es ih => simp only [List.flatMap_cons, sideLines_append, ih, contextLeft_eq]

theorem flatMap_contextRight (es : List (Edit Line)) :
    es.flatMap contextRight = sideLines (es.flatMap rightPairs) := by
  induction es with
  | nil => rfl
  | cons e es ih => simp only [List.flatMap_cons, sideLines_append, ih, contextRight_eq]

/-- the context lines of a side, as the applier reads them -/
def ctxOf (side : List (Char × Line)) : List Line := (side.filter fun p => p.1 = ' ').map (·.2)

theorem ctxOf_append (a b : List (Char × Line)) : ctxOf (a ++ b) = ctxOf a ++ ctxOf b := by
  simp [ctxOf]

theorem ctxOf_mark (m : Char) (X : List Line) :
    ctxOf (X.map fun t => (m, t)) = if m = ' ' then X else [] := by
  induction X with
  | nil => simp [ctxOf]
  | cons x X ih =>
    by_cases h : m = ' '
    · simp only [ctxOf, if_pos h] at ih ⊢
      subst h
      simpa using ih
    · simp only [ctxOf, if_neg h] at ih ⊢
      simp [h]

theorem leftPairs_snd (e : Edit Line) : (leftPairs e).map (·.2) = consumedOf e := by
  obtain ⟨op, X, Y⟩ := e
  cases op <;> simp [leftPairs, consumedOf, Function.comp_def]

theorem rightPairs_snd (e : Edit Line) : (rightPairs e).map (·.2) = producedOf e := by
  obtain ⟨op, X, Y⟩ := e
  cases op <;> simp [rightPairs, producedOf, Function.comp_def]

theorem flatMap_leftPairs_snd (es : List (Edit Line)) :
    (es.flatMap leftPairs).map (·.2) = consumed es := by
  induction es with
  | nil => rfl
  | cons e es ih => simp only [List.flatMap_cons, List.map_append, ih, leftPairs_snd, consumed_cons]

theorem flatMap_rightPairs_snd (es : List (Edit Line)) :
    (es.flatMap rightPairs).map (·.2) = produced es := by
  induction es with
  | nil => rfl
  | cons e es ih => simp only [List.flatMap_cons, List.map_append, ih, rightPairs_snd, produced_cons]

/-- without Copy/Replace the context lines of the old side are the new text -/
theorem flatMap_leftPairs_ctx (es : List (Edit Line))
    (h : ∀ e ∈ es, e.op = .drop ∨ e.op = .emit) : ctxOf (es.flatMap leftPairs) = produced es := by
  induction es with
  | nil => rfl
  | cons e es ih =>
    have he := h e (by simp)
    rw [List.flatMap_cons, ctxOf_append, ih (fun e' he' => h e' (by simp [he'])), produced_cons]
    congr 1
    obtain ⟨op, X, Y⟩ := e
    rcases he with he | he <;> simp only at he <;> subst he <;>
      simp [leftPairs, producedOf, ctxOf_mark]

/-- without Drop/Replace the context lines of the new side are the old text -/
theorem flatMap_rightPairs_ctx (es : List (Edit Line))
    (h : ∀ e ∈ es, e.op = .copy ∨ e.op = .emit) : ctxOf (es.flatMap rightPairs) = consumed es := by
  induction es with
  | nil => rfl
  | cons e es ih =>
    have he := h e (by simp)
    rw [List.flatMap_cons, ctxOf_append, ih (fun e' he' => h e' (by simp [he'])), consumed_cons]
    congr 1
    obtain ⟨op, X, Y⟩ := e
    rcases he with he | he <;> simp only at he <;> subst he <;>
      simp [rightPairs, consumedOf, ctxOf_mark]

theorem leftPairs_ok (es : List (Edit Line)) :
    ∀ p ∈ es.flatMap leftPairs, (fun m : Char => decide (m = ' ' ∨ m = '-' ∨ m = '!')) p.1 = true := by
  intro p hp
  obtain ⟨e, _, hp⟩ := List.mem_flatMap.mp hp
  obtain ⟨op, X, Y⟩ := e
  cases op <;> simp only [leftPairs, List.mem_map, List.not_mem_nil] at hp
  all_goals (obtain ⟨t, _, rfl⟩ := hp; simp)

theorem rightPairs_ok (es : List (Edit Line)) :
    ∀ p ∈ es.flatMap rightPairs, (fun m : Char => decide (m = ' ' ∨ m = '+' ∨ m = '!')) p.1 = true := by
  intro p hp
  obtain ⟨e, _, hp⟩ := List.mem_flatMap.mp hp
  obtain ⟨op, X, Y⟩ := e
  cases op <;> simp only [rightPairs, List.mem_map, List.not_mem_nil] at hp
  all_goals (obtain ⟨t, _, rfl⟩ := hp; simp)

/-! ## which sides are written -/

theorem relevant_false {es : List (Edit Line)} {op : EditOp} (h : hasRelevantEdits es op = false) :
    ∀ e ∈ es, e.op ≠ op ∧ e.op ≠ .replace := by
  intro e he
  unfold hasRelevantEdits at h
  have := List.any_eq_false.mp h e he
  simpa using this

theorem relevant_true {es : List (Edit Line)} {op : EditOp} (h : hasRelevantEdits es op = true) :
    ∃ e ∈ es, e.op = op ∨ e.op = .replace := by
  unfold hasRelevantEdits at h
  obtain ⟨e, he, h⟩ := List.any_eq_true.mp h
  exact ⟨e, he, by simpa using h⟩

theorem leftPairs_ne_nil {es : List (Edit Line)} (hed : ∀ e ∈ es, EditOK e)
    (h : hasRelevantEdits es .drop = true) : es.flatMap leftPairs ≠ [] := by
  obtain ⟨e, he, h⟩ := relevant_true h
  intro hn
  have h0 := List.flatMap_eq_nil_iff.mp hn e he
  have hk := hed e he
  obtain ⟨op, X, Y⟩ := e
  rcases h with h | h <;> simp only at h <;> subst h <;>
    simp only [EditOK] at hk <;> simp [leftPairs, hk.1] at h0

theorem rightPairs_ne_nil {es : List (Edit Line)} (hed : ∀ e ∈ es, EditOK e)
    (h : hasRelevantEdits es .copy = true) : es.flatMap rightPairs ≠ [] := by
  obtain ⟨e, he, h⟩ := relevant_true h
  intro hn
  have h0 := List.flatMap_eq_nil_iff.mp hn e he
  have hk := hed e he
  obtain ⟨op, X, Y⟩ := e
  rcases h with h | h <;> simp only at h <;> subst h <;>
    simp only [EditOK] at hk
  · simp [rightPairs, hk.1] at h0
  · simp [rightPairs, hk.2] at h0

/-! ## one hunk of the applier -/

/-- what follows a hunk: nothing, or the next hunk -/
def CtxStart (rest : List Line) : Prop := rest = [] ∨ ∃ t, rest = DiffApply.stars :: t

theorem side_not_new (m : Char) (t : Line) :
    (['-', '-', '-', ' '] : Line).isPrefixOf (m :: ' ' :: t) = false := by
  simp [List.isPrefixOf]

theorem side_ne_stars (m : Char) (t : Line) : (m :: ' ' :: t) ≠ DiffApply.stars := by
  intro h
  have : DiffApply.stars = '*' :: '*' :: List.replicate 13 '*' := rfl
  rw [this] at h
  simp at h

theorem ctx_loop_both (L : List Line) (f : Nat) (s s' : DiffApply.St) (l1 l2 : Line)
    (a na c nc : Nat) (o n : List (Char × Line)) (rest : List Line)
    (h1 : DiffApply.parseContextRange ['*', '*', '*', ' '] [' ', '*', '*', '*', '*'] l1 = some (a, na))
    (h2 : DiffApply.parseContextRange ['-', '-', '-', ' '] [' ', '-', '-', '-', '-'] l2 = some (c, nc))
    (ho : o ≠ []) (hn : n ≠ [])
    (oko : ∀ p ∈ o, (fun m : Char => decide (m = ' ' ∨ m = '-' ∨ m = '!')) p.1 = true)
    (okn : ∀ p ∈ n, (fun m : Char => decide (m = ' ' ∨ m = '+' ∨ m = '!')) p.1 = true)
    (hna : o.length = na) (hnc : n.length = nc)
    (hh : s.hunk L a (o.map (·.2)) (n.map (·.2)) c = some s') :
    DiffApply.applyContextLoop L (f + 1)
        (DiffApply.stars :: l1 :: (sideLines o ++ l2 :: (sideLines n ++ rest))) s
      = DiffApply.applyContextLoop L f rest s' := by
  have co := contextSide_pairs (fun m : Char => decide (m = ' ' ∨ m = '-' ∨ m = '!')) o oko (l2 :: (sideLines n ++ rest))
  have cn := contextSide_pairs (fun m : Char => decide (m = ' ' ∨ m = '+' ∨ m = '!')) n okn rest
  obtain ⟨p, o', rfl⟩ := List.exists_cons_of_ne_nil ho
  obtain ⟨q, n', rfl⟩ := List.exists_cons_of_ne_nil hn
  subst hna hnc
  simp only [sideLines_cons_append] at co cn ⊢
  rw [DiffApply.applyContextLoop]
  simp only [ne_eq, not_true_eq_false, if_false, h1, side_not_new, Bool.false_eq_true, co,
    Option.map, h2, side_ne_stars, cn, List.length_map, or_self, hh]

theorem ctx_loop_old (L : List Line) (f : Nat) (s s' : DiffApply.St) (l1 l2 : Line)
    (a na c nc : Nat) (o : List (Char × Line)) (rest : List Line)
    (h1 : DiffApply.parseContextRange ['*', '*', '*', ' '] [' ', '*', '*', '*', '*'] l1 = some (a, na))
    (h2 : DiffApply.parseContextRange ['-', '-', '-', ' '] [' ', '-', '-', '-', '-'] l2 = some (c, nc))
    (ho : o ≠ [])
    (oko : ∀ p ∈ o, (fun m : Char => decide (m = ' ' ∨ m = '-' ∨ m = '!')) p.1 = true)
    (hna : o.length = na) (hnc : (ctxOf o).length = nc) (hrest : CtxStart rest)
    (hh : s.hunk L a (o.map (·.2)) (ctxOf o) c = some s') :
    DiffApply.applyContextLoop L (f + 1)
        (DiffApply.stars :: l1 :: (sideLines o ++ l2 :: rest)) s
      = DiffApply.applyContextLoop L f rest s' := by
  have co := contextSide_pairs (fun m : Char => decide (m = ' ' ∨ m = '-' ∨ m = '!')) o oko (l2 :: rest)
  obtain ⟨p, o', rfl⟩ := List.exists_cons_of_ne_nil ho
  subst hna
  simp only [ctxOf] at hh hnc
  simp only [sideLines_cons_append] at co ⊢
  rw [DiffApply.applyContextLoop]
  rcases hrest with rfl | ⟨t, rfl⟩
  · simp only [ne_eq, not_true_eq_false, if_false, h1, side_not_new, Bool.false_eq_true, co,
      Option.map, h2, List.length_map, hnc, or_self, hh]
  · simp only [ne_eq, not_true_eq_false, if_false, h1, side_not_new, Bool.false_eq_true, co,
      Option.map, h2, if_true, List.length_map, hnc, or_self, hh]

theorem ctx_loop_new (L : List Line) (f : Nat) (s s' : DiffApply.St) (l1 l2 : Line)
    (a na c nc : Nat) (n : List (Char × Line)) (rest : List Line)
    (h1 : DiffApply.parseContextRange ['*', '*', '*', ' '] [' ', '*', '*', '*', '*'] l1 = some (a, na))
    (h2 : DiffApply.parseContextRange ['-', '-', '-', ' '] [' ', '-', '-', '-', '-'] l2 = some (c, nc))
    (hl2 : (['-', '-', '-', ' '] : Line).isPrefixOf l2 = true)
    (hn : n ≠ [])
    (okn : ∀ p ∈ n, (fun m : Char => decide (m = ' ' ∨ m = '+' ∨ m = '!')) p.1 = true)
    (hna : (ctxOf n).length = na) (hnc : n.length = nc)
    (hh : s.hunk L a (ctxOf n) (n.map (·.2)) c = some s') :
    DiffApply.applyContextLoop L (f + 1)
        (DiffApply.stars :: l1 :: l2 :: (sideLines n ++ rest)) s
      = DiffApply.applyContextLoop L f rest s' := by
  have cn := contextSide_pairs (fun m : Char => decide (m = ' ' ∨ m = '+' ∨ m = '!')) n okn rest
  obtain ⟨q, n', rfl⟩ := List.exists_cons_of_ne_nil hn
  subst hnc
  simp only [ctxOf] at hh hna
  simp only [sideLines_cons_append] at cn ⊢
  rw [DiffApply.applyContextLoop]
  simp only [ne_eq, not_true_eq_false, if_false, h1, hl2, if_true,
    Option.map, h2, side_ne_stars, cn, List.length_map, hna, or_self, hh]

/-! ## one chunk -/

theorem contextChunk_append (c : Chunk Line) (rest : List Line) :
    contextChunk c ++ rest
      = DiffApply.stars :: (str "*** " ++ dspan c.lstart c.lend ++ str " ****") ::
        ((if hasRelevantEdits c.edits .drop then sideLines (c.edits.flatMap leftPairs) else []) ++
          (str "--- " ++ dspan c.rstart c.rend ++ str " ----") ::
          ((if hasRelevantEdits c.edits .copy then sideLines (c.edits.flatMap rightPairs) else [])
            ++ rest)) := by
  have e : str "***************" = DiffApply.stars := by decide
  simp only [contextChunk, flatMap_contextLeft, flatMap_contextRight, e, List.cons_append,
    List.nil_append, List.append_assoc]

theorem new_header_prefix (x : Line) :
    (['-', '-', '-', ' '] : Line).isPrefixOf (str "--- " ++ x) = true := by
  have a : str "--- " = ['-', '-', '-', ' '] := rfl
  rw [a]; simp [List.isPrefixOf]

theorem ctx_only_old {es : List (Edit Line)} (h : hasRelevantEdits es .copy = false) :
    ∀ e ∈ es, e.op = .drop ∨ e.op = .emit := by
  intro e he
  have := relevant_false h e he
  cases hop : e.op <;> simp [hop] at this ⊢

theorem ctx_only_new {es : List (Edit Line)} (h : hasRelevantEdits es .drop = false) :
    ∀ e ∈ es, e.op = .copy ∨ e.op = .emit := by
  intro e he
  have := relevant_false h e he
  cases hop : e.op <;> simp [hop] at this ⊢

theorem ctx_chunk_step {L R : List Line} (c : Chunk Line) (rest : List Line) (f : Nat)
    (s : DiffApply.St) (lp rp : Nat) (hat : At L R s lp rp)
    (g : GapEq L R lp rp c.lstart c.rstart) (hc : ChunkOK c L R)
    (hed : ∀ e ∈ c.edits, EditOK e) (hch : ∃ e ∈ c.edits, e.op ≠ .emit) (hrest : CtxStart rest) :
    ∃ s', DiffApply.applyContextLoop L (f + 1) (contextChunk c ++ rest) s
        = DiffApply.applyContextLoop L f rest s' ∧ At L R s' c.lend c.rend := by
  have hl1 := hc.l1; have hl2 := hc.l2; have hl3 := hc.l3
  have hr1 := hc.r1; have hr2 := hc.r2; have hr3 := hc.r3
  have hat' := hat.gap g (by omega) (by omega)
  have lenc : (consumed c.edits).length = c.lend - c.lstart := by
    rw [hc.cons, length_span _ hl1 hl3]
  have lenp : (produced c.edits).length = c.rend - c.rstart := by
    rw [hc.prod, length_span _ hr1 hr3]
  have e1 : c.lstart + (consumed c.edits).length = c.lend := by omega
  have e2 : c.rstart + (produced c.edits).length = c.rend := by omega
  obtain ⟨s', hh, hat''⟩ := hat'.hunk (consumed c.edits) (produced c.edits)
    (by rw [e1]; exact hc.cons) (by rw [e2]; exact hc.prod) (by omega) (by omega)
  rw [e1, e2] at hat''
  refine ⟨s', ?_, hat''⟩
  have p1 := ctx_parse_old c.lstart c.lend hl1 hl2
  have p2 := ctx_parse_new c.rstart c.rend hr1 hr2
  have lo : (c.edits.flatMap leftPairs).length = c.lend - c.lstart := by
    rw [← lenc, ← flatMap_leftPairs_snd, List.length_map]
  have ln : (c.edits.flatMap rightPairs).length = c.rend - c.rstart := by
    rw [← lenp, ← flatMap_rightPairs_snd, List.length_map]
  rw [contextChunk_append]
  by_cases hd : hasRelevantEdits c.edits .drop = true
  · by_cases hcp : hasRelevantEdits c.edits .copy = true
    · rw [if_pos hd, if_pos hcp]
      exact ctx_loop_both L f s s' _ _ _ _ _ _ _ _ rest p1 p2 (leftPairs_ne_nil hed hd)
        (rightPairs_ne_nil hed hcp) (leftPairs_ok _) (rightPairs_ok _) lo ln
        (by rw [flatMap_leftPairs_snd, flatMap_rightPairs_snd]; exact hh)
    · rw [if_pos hd, if_neg hcp, List.nil_append]
      have hno := ctx_only_old (Bool.not_eq_true _ ▸ hcp)
      have hx := flatMap_leftPairs_ctx c.edits hno
      exact ctx_loop_old L f s s' _ _ _ _ _ _ _ rest p1 p2 (leftPairs_ne_nil hed hd)
        (leftPairs_ok _) lo (by rw [hx]; exact lenp) hrest
        (by rw [flatMap_leftPairs_snd, hx]; exact hh)
  · have hno := ctx_only_new (Bool.not_eq_true _ ▸ hd)
    by_cases hcp : hasRelevantEdits c.edits .copy = true
    · rw [if_neg hd, if_pos hcp, List.nil_append]
      have hx := flatMap_rightPairs_ctx c.edits hno
      exact ctx_loop_new L f s s' _ _ _ _ _ _ _ rest p1 p2 (new_header_prefix _)
        (rightPairs_ne_nil hed hcp) (rightPairs_ok _) (by rw [hx]; exact lenc) ln
        (by rw [flatMap_rightPairs_snd, hx]; exact hh)
    · exfalso
      have hno' := ctx_only_old (Bool.not_eq_true _ ▸ hcp)
      obtain ⟨e, he, hne⟩ := hch
      rcases hno e he with h | h <;> rcases hno' e he with h' | h' <;> rw [h] at h' <;>
        first | exact hne h | cases h'

/-! ## all chunks -/

theorem ctxStart_flatMap (cs : List (Chunk Line)) : CtxStart (cs.flatMap contextChunk) := by
  cases cs with
  | nil => exact Or.inl rfl
  | cons c cs =>
    right
    rw [List.flatMap_cons, contextChunk_append]
    exact ⟨_, rfl⟩

theorem applyContextLoop_chunks {L R : List Line} : ∀ (cs : List (Chunk Line)) (f : Nat)
    (s : DiffApply.St) (lp rp : Nat), At L R s lp rp → AllOK cs L R → Aligned L R lp rp cs →
    (∀ c ∈ cs, ∀ e ∈ c.edits, EditOK e) → (∀ c ∈ cs, ∃ e ∈ c.edits, e.op ≠ .emit) →
    (cs.flatMap contextChunk).length + 1 ≤ f →
    DiffApply.applyContextLoop L f (cs.flatMap contextChunk) s = some R
  | [], f, s, lp, rp, hat, _, hal, _, _, hf => by
    obtain ⟨f0, rfl⟩ : ∃ f0, f = f0 + 1 := ⟨f - 1, by omega⟩
    rw [List.flatMap_nil, DiffApply.applyContextLoop, hat.finish hal]
  | c :: cs, f, s, lp, rp, hat, hok, hal, hed, hch, hf => by
    obtain ⟨f0, rfl⟩ : ∃ f0, f = f0 + 1 := ⟨f - 1, by omega⟩
    obtain ⟨g, hal'⟩ := hal
    rw [List.flatMap_cons] at hf ⊢
    obtain ⟨s', h, hat'⟩ := ctx_chunk_step c (cs.flatMap contextChunk) f0 s lp rp hat g
      (hok c (List.mem_cons_self ..)) (hed c (List.mem_cons_self ..)) (hch c (List.mem_cons_self ..))
      (ctxStart_flatMap cs)
    rw [h]
    have hlen : 1 ≤ (contextChunk c).length := by
      rw [← List.append_nil (contextChunk c), contextChunk_append]
      simp only [List.length_cons]; omega
    exact applyContextLoop_chunks cs f0 s' c.lend c.rend hat'
      (fun d hd => hok d (List.mem_cons_of_mem _ hd)) hal'
      (fun d hd => hed d (List.mem_cons_of_mem _ hd)) (fun d hd => hch d (List.mem_cons_of_mem _ hd))
      (by rw [List.length_append] at hf; omega)

theorem applyContext_stars (t : List Line) (L : List Line) :
    DiffApply.applyContext (DiffApply.stars :: t) L
      = DiffApply.applyContextLoop L ((DiffApply.stars :: t).length + 1) (DiffApply.stars :: t) ⟨[], 1⟩ := by
  simp only [DiffApply.applyContext, if_true]

theorem applyContext_header (h1 h2 : Line) (t : List Line) (L : List Line) (hs : h1 ≠ DiffApply.stars)
    (p1 : (['*', '*', '*', ' '] : Line).isPrefixOf h1 = true)
    (p2 : (['-', '-', '-', ' '] : Line).isPrefixOf h2 = true) :
    DiffApply.applyContext (h1 :: h2 :: t) L
      = DiffApply.applyContextLoop L (t.length + 1) t ⟨[], 1⟩ := by
  simp only [DiffApply.applyContext, if_neg hs, DiffApply.skipHeader, p1, p2, and_self, if_true]

theorem applyContext_flatMap {L R : List Line} (cs : List (Chunk Line)) (hok : AllOK cs L R)
    (hal : Aligned L R 1 1 cs) (hed : ∀ c ∈ cs, ∀ e ∈ c.edits, EditOK e)
    (hch : ∀ c ∈ cs, ∃ e ∈ c.edits, e.op ≠ .emit) :
    DiffApply.applyContextLoop L ((cs.flatMap contextChunk).length + 1) (cs.flatMap contextChunk)
      ⟨[], 1⟩ = some R :=
  applyContextLoop_chunks cs _ _ 1 1 (At.init L R) hok hal hed hch (Nat.le_refl _)

theorem applyContext_chunks_none (cs : List (Chunk Line)) (L R : List Line)
    (hok : AllOK cs L R) (hal : Aligned L R 1 1 cs)
    (hed : ∀ c ∈ cs, ∀ e ∈ c.edits, EditOK e)
    (hch : ∀ c ∈ cs, ∃ e ∈ c.edits, e.op ≠ .emit) :
    DiffApply.applyContext (context cs none) L = some R := by
  have hmain := applyContext_flatMap cs hok hal hed hch
  cases cs with
  | nil => exact hmain
  | cons c cs =>
    have hctx : context (c :: cs) none = (c :: cs).flatMap contextChunk := by simp [context]
    rw [hctx]
    rw [List.flatMap_cons, contextChunk_append] at hmain ⊢
    rw [applyContext_stars]
    exact hmain

theorem header_ne_stars (x : Line) : str "*** " ++ x ≠ DiffApply.stars := by
  intro h
  have a : str "*** " = ['*', '*', '*', ' '] := rfl
  have b : DiffApply.stars = '*' :: '*' :: '*' :: '*' :: List.replicate 11 '*' := rfl
  rw [a, b] at h
  simp at h

theorem old_header_prefix (x : Line) :
    (['*', '*', '*', ' '] : Line).isPrefixOf (str "*** " ++ x) = true := by
  have a : str "*** " = ['*', '*', '*', ' '] := rfl
  rw [a]; simp [List.isPrefixOf]

/-- **C14 (apply), context format**: the reference applier run on what `Context` writes for
correct, aligned chunks returns the right-hand text. -/
theorem applyContext_chunks (cs : List (Chunk Line)) (L R : List Line) (fi : Option FileInfo)
    (hok : AllOK cs L R) (hal : Aligned L R 1 1 cs)
    (hed : ∀ c ∈ cs, ∀ e ∈ c.edits, EditOK e)
    (hch : ∀ c ∈ cs, ∃ e ∈ c.edits, e.op ≠ .emit) :
    DiffApply.applyContext (context cs fi) L = some R := by
  cases fi with
  | none => exact applyContext_chunks_none cs L R hok hal hed hch
  | some fi =>
    have hmain := applyContext_flatMap cs hok hal hed hch
    cases cs with
    | nil => exact hmain
    | cons c cs =>
      obtain ⟨x, hx⟩ : ∃ x, fmtFileHeader (str "*** ") (orDefault fi.left ['a']) fi.leftTime
          = str "*** " ++ x := ⟨_, List.append_assoc ..⟩
      obtain ⟨y, hy⟩ : ∃ y, fmtFileHeader (str "--- ") (orDefault fi.right ['b']) fi.rightTime
          = str "--- " ++ y := ⟨_, List.append_assoc ..⟩
      have hctx : context (c :: cs) (some fi)
          = (str "*** " ++ x) :: (str "--- " ++ y) :: (c :: cs).flatMap contextChunk := by
        simp [context, hx, hy]
      rw [hctx, applyContext_header _ _ _ _ (header_ne_stars _) (old_header_prefix _)
        (new_header_prefix _)]
      exact hmain


/-! # the pipeline: edits inside the chunks of `AddContext` and `Unify` -/

/-! ## the edits inside the chunks of `AddContext` and `Unify`

`Good Q c`: every edit of `c` satisfies `Q` and `c` has an edit that is not an Emit.  For a `Q`
that holds of every Emit, `AddContext` (it only adds Emits) and `UnifyChunks` (it trims, drops and
fuses Emits at chunk boundaries and concatenates edit lists) preserve `Good Q` of all chunks. -/

section good
variable {α : Type}

def Good (Q : Edit α → Prop) (c : Chunk α) : Prop :=
  (∀ e ∈ c.edits, Q e) ∧ ∃ e ∈ c.edits, e.op ≠ .emit

theorem good_of_edits {Q : Edit α → Prop} {c d : Chunk α} (hQ : ∀ e, e.op = .emit → Q e)
    (h : Good Q c) (hsub : ∀ e ∈ d.edits, e ∈ c.edits ∨ e.op = .emit)
    (hsup : ∀ e ∈ c.edits, e.op ≠ .emit → e ∈ d.edits) : Good Q d := by
  refine ⟨?_, ?_⟩
  · intro e he
    rcases hsub e he with h' | h'
    · exact h.1 e h'
    · exact hQ e h'
  · obtain ⟨e, he, hne⟩ := h.2
    exact ⟨e, hsup e he hne, hne⟩

theorem mem_emitOpt {p : List α} {e : Edit α} (h : e ∈ emitOpt p) : e.op = .emit := by
  unfold emitOpt at h
  split at h
  · cases h
  · rw [List.mem_singleton.mp h]

theorem withCtx_good {Q : Edit α → Prop} (hQ : ∀ e, e.op = .emit → Q e) {c : Chunk α}
    (h : Good Q c) (pre post : List α) : Good Q (withCtx c pre post) := by
  apply good_of_edits hQ h
  · intro e he
    rw [withCtx_eq] at he
    simp only [List.mem_append] at he
    rcases he with (he | he) | he
    · exact Or.inr (mem_emitOpt he)
    · exact Or.inl he
    · exact Or.inr (mem_emitOpt he)
  · intro e he _
    rw [withCtx_eq]
    simp only [List.mem_append]
    exact Or.inl (Or.inr he)

theorem addCtxLoop_good [DecidableEq α] {Q : Edit α → Prop} (hQ : ∀ e, e.op = .emit → Q e)
    (b : Bool) (L R : List α) (n : Nat) : ∀ (cs : List (Chunk α)) (p : Nat) (cs' : List (Chunk α)),
    (∀ c ∈ cs, Good Q c) → addCtxLoop b L R n p cs = some cs' → ∀ c ∈ cs', Good Q c
  | [], p, cs', _, h => by
    simp only [addCtxLoop, Option.some.injEq] at h
    subst h; intro c hc; cases hc
  | c :: rest, p, cs', hg, h => by
    rw [addCtxLoop.eq_def] at h
    simp only at h
    cases hf : findContext? L R c n with
    | none => rw [hf] at h; cases h
    | some pp =>
      obtain ⟨pre, post⟩ := pp
      rw [hf] at h
      simp only at h
      cases hr : addCtxLoop b L R n c.lend rest with
      | none => rw [hr] at h; cases h
      | some rest' =>
        rw [hr] at h
        simp only [Option.map, Option.some.injEq] at h
        subst h
        intro d hd
        rcases List.mem_cons.mp hd with rfl | hd
        · exact withCtx_good hQ (hg c (by simp)) _ _
        · exact addCtxLoop_good hQ b L R n rest c.lend rest' (fun c' hc' => hg c' (by simp [hc'])) hr d hd

theorem addContextChunks_good [DecidableEq α] {Q : Edit α → Prop} (hQ : ∀ e, e.op = .emit → Q e)
    (L R : List α) (n : Nat) (cs cs' : List (Chunk α)) (hg : ∀ c ∈ cs, Good Q c)
    (h : addContextChunks L R n cs = some cs') : ∀ c ∈ cs', Good Q c := by
  unfold addContextChunks addContextWith at h
  split at h
  · cases h; exact hg
  · exact addCtxLoop_good hQ _ L R n cs 1 cs' hg h

theorem mem_dropLast_of {l : List (Edit α)} {e x : Edit α} (hl : l.getLast? = some e)
    (hx : x ∈ l) : x ∈ l.dropLast ∨ x = e := by
  have hne : l ≠ [] := by intro h; rw [h] at hl; cases hl
  have h1 := List.dropLast_concat_getLast hne
  have h2 : l.getLast hne = e := by
    rw [List.getLast?_eq_some_getLast hne] at hl; exact Option.some.inj hl
  rw [← h1, h2] at hx
  simpa using hx

theorem mem_tail_of {l : List (Edit α)} {s x : Edit α} (hl : l.head? = some s)
    (hx : x ∈ l) : x = s ∨ x ∈ l.tail := by
  cases l with
  | nil => cases hl
  | cons a t =>
    simp only [List.head?_cons, Option.some.injEq] at hl
    subst hl
    simpa using hx

theorem trimOverlap_good {Q : Edit α → Prop} (hQ : ∀ e, e.op = .emit → Q e) {last c l' c' : Chunk α}
    {lap : Nat} (hl : Good Q last) (hc : Good Q c) (h : trimOverlap last c lap = .ok (l', c')) :
    Good Q l' ∧ Good Q c' := by
  unfold trimOverlap at h
  cases hgl : last.edits.getLast? with
  | none => rw [hgl] at h; cases h
  | some e =>
    rw [hgl] at h
    simp only at h
    by_cases hop : e.op = .emit
    · rw [if_pos hop] at h
      simp only [Except.ok.injEq, Prod.mk.injEq] at h
      obtain ⟨rfl, rfl⟩ := h
      refine ⟨?_, hc⟩
      apply good_of_edits hQ hl
      · intro x hx
        simp only at hx
        split at hx
        · exact Or.inl (List.dropLast_subset _ hx)
        · rcases List.mem_append.mp hx with hx | hx
          · exact Or.inl (List.dropLast_subset _ hx)
          · rw [List.mem_singleton.mp hx]; exact Or.inr hop
      · intro x hx hne
        have hxd : x ∈ last.edits.dropLast := by
          rcases mem_dropLast_of hgl hx with h' | h'
          · exact h'
          · rw [h'] at hne; exact absurd hop hne
        simp only
        split
        · exact hxd
        · exact List.mem_append.mpr (Or.inl hxd)
    · rw [if_neg hop] at h
      cases hhd : c.edits.head? with
      | none => rw [hhd] at h; cases h
      | some s =>
        rw [hhd] at h
        simp only at h
        by_cases hs : s.op = .emit
        · rw [if_pos hs] at h
          simp only [Except.ok.injEq, Prod.mk.injEq] at h
          obtain ⟨rfl, rfl⟩ := h
          refine ⟨hl, ?_⟩
          apply good_of_edits hQ hc
          · intro x hx
            simp only at hx
            split at hx
            · exact Or.inl (List.mem_of_mem_tail hx)
            · rcases List.mem_cons.mp hx with hx | hx
              · rw [hx]; exact Or.inr hs
              · exact Or.inl (List.mem_of_mem_tail hx)
          · intro x hx hne
            have hxd : x ∈ c.edits.tail := by
              rcases mem_tail_of hhd hx with h' | h'
              · rw [h'] at hne; exact absurd hs hne
              · exact h'
            simp only
            split
            · exact hxd
            · exact List.mem_cons_of_mem _ hxd
        · rw [if_neg hs] at h
          simp only [Except.ok.injEq, Prod.mk.injEq] at h
          obtain ⟨rfl, rfl⟩ := h
          exact ⟨hl, hc⟩

theorem fuseBoundary_good {Q : Edit α → Prop} (hQ : ∀ e, e.op = .emit → Q e) {last c l' c' : Chunk α}
    (hl : Good Q last) (hc : Good Q c) (h : fuseBoundary last c = .ok (l', c')) :
    Good Q l' ∧ Good Q c' := by
  unfold fuseBoundary at h
  cases hgl : last.edits.getLast? with
  | none => rw [hgl] at h; cases h
  | some e =>
    rw [hgl] at h
    simp only at h
    by_cases hop : e.op = .emit
    · rw [if_pos hop] at h
      cases hhd : c.edits.head? with
      | none => rw [hhd] at h; cases h
      | some s =>
        rw [hhd] at h
        simp only at h
        by_cases hs : s.op = .emit
        · rw [if_pos hs] at h
          simp only [Except.ok.injEq, Prod.mk.injEq] at h
          obtain ⟨rfl, rfl⟩ := h
          refine ⟨?_, ?_⟩
          · apply good_of_edits hQ hl
            · intro x hx
              rcases List.mem_append.mp hx with hx | hx
              · exact Or.inl (List.dropLast_subset _ hx)
              · rw [List.mem_singleton.mp hx]; exact Or.inr hop
            · intro x hx hne
              rcases mem_dropLast_of hgl hx with h' | h'
              · exact List.mem_append.mpr (Or.inl h')
              · rw [h'] at hne; exact absurd hop hne
          · apply good_of_edits hQ hc
            · intro x hx
              exact Or.inl (List.mem_of_mem_tail hx)
            · intro x hx hne
              rcases mem_tail_of hhd hx with h' | h'
              · rw [h'] at hne; exact absurd hs hne
              · exact h'
        · rw [if_neg hs] at h
          simp only [Except.ok.injEq, Prod.mk.injEq] at h
          obtain ⟨rfl, rfl⟩ := h
          exact ⟨hl, hc⟩
    · rw [if_neg hop] at h
      simp only [Except.ok.injEq, Prod.mk.injEq] at h
      obtain ⟨rfl, rfl⟩ := h
      exact ⟨hl, hc⟩

theorem good_append {Q : Edit α → Prop} {l c : Chunk α} (hl : Good Q l) (hc : Good Q c)
    (a b x y : Nat) : Good Q ⟨l.edits ++ c.edits, a, b, x, y⟩ := by
  refine ⟨?_, ?_⟩
  · intro e he
    rcases List.mem_append.mp he with h | h
    · exact hl.1 e h
    · exact hc.1 e h
  · obtain ⟨e, he, hne⟩ := hl.2
    exact ⟨e, List.mem_append.mpr (Or.inl he), hne⟩

theorem mergeInto_good {Q : Edit α → Prop} (hQ : ∀ e, e.op = .emit → Q e) {last c m : Chunk α}
    (hl : Good Q last) (hc : Good Q c) (h : mergeInto last c = .ok m) : Good Q m := by
  by_cases hlap : last.lend - c.lstart = 0
  · cases hf : fuseBoundary last c with
    | error e =>
      unfold mergeInto at h
      simp [hlap, hf, bind, Except.bind, pure, Except.pure] at h
    | ok p =>
      obtain ⟨l2, c2⟩ := p
      rw [mergeInto_nolap hlap hf] at h
      cases h
      have := fuseBoundary_good hQ hl hc hf
      exact good_append this.1 this.2 _ _ _ _
  · have hlap' : last.lend - c.lstart > 0 := by omega
    cases ht : trimOverlap last c (last.lend - c.lstart) with
    | error e =>
      unfold mergeInto at h
      simp [hlap', ht, bind, Except.bind] at h
    | ok p =>
      obtain ⟨l1, c1⟩ := p
      have g1 := trimOverlap_good hQ hl hc ht
      by_cases hm : c1.lstart < l1.lend
      · unfold mergeInto at h
        simp [hlap', ht, hm, bind, Except.bind, throw, throwThe, MonadExceptOf.throw] at h
      · cases hf : fuseBoundary l1 c1 with
        | error e =>
          unfold mergeInto at h
          simp [hlap', ht, hm, hf, bind, Except.bind, pure, Except.pure] at h
        | ok p =>
          obtain ⟨l2, c2⟩ := p
          rw [mergeInto_lap hlap' ht hm hf] at h
          cases h
          have := fuseBoundary_good hQ g1.1 g1.2 hf
          exact good_append this.1 this.2 _ _ _ _

theorem unifyLoop_good {Q : Edit α → Prop} (hQ : ∀ e, e.op = .emit → Q e) :
    ∀ (rest init : List (Chunk α)) (last : Chunk α) (u : List (Chunk α)),
    (∀ c ∈ init, Good Q c) → Good Q last → (∀ c ∈ rest, Good Q c) →
    unifyLoop init last rest = .ok u → ∀ c ∈ u, Good Q c
  | [], init, last, u, hi, hl, _, h => by
    simp only [unifyLoop, Except.ok.injEq] at h
    subst h
    intro c hc
    rcases List.mem_append.mp hc with h' | h'
    · exact hi c h'
    · rw [List.mem_singleton.mp h']; exact hl
  | c :: cs, init, last, u, hi, hl, hr, h => by
    rw [unifyLoop] at h
    have hc := hr c (by simp)
    have hr' : ∀ d ∈ cs, Good Q d := fun d hd => hr d (by simp [hd])
    split at h
    · refine unifyLoop_good hQ cs (init ++ [last]) c u ?_ hc hr' h
      intro d hd
      rcases List.mem_append.mp hd with h' | h'
      · exact hi d h'
      · rw [List.mem_singleton.mp h']; exact hl
    · cases hm : mergeInto last c with
      | error e => rw [hm] at h; cases h
      | ok m =>
        rw [hm] at h
        exact unifyLoop_good hQ cs init m u hi (mergeInto_good hQ hl hc hm) hr' h

theorem unifyChunks_good {Q : Edit α → Prop} (hQ : ∀ e, e.op = .emit → Q e) (cs u : List (Chunk α))
    (hg : ∀ c ∈ cs, Good Q c) (h : unifyChunks cs = .ok u) : ∀ c ∈ u, Good Q c := by
  cases cs with
  | nil => simp only [unifyChunks, Except.ok.injEq] at h; subst h; intro c hc; cases hc
  | cons c cs =>
    rw [unifyChunks] at h
    exact unifyLoop_good hQ cs [] c u (by intro d hd; cases hd) (hg c (by simp))
      (fun d hd => hg d (by simp [hd])) h

end good

theorem editOK_of_emit (e : Edit Line) (h : e.op = .emit) : EditOK e := by
  unfold EditOK; rw [h]; trivial

end MdsVerif.Proofs.MdiffApply
