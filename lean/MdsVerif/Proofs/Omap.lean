import MdsVerif.Proofs.Cursor
import MdsVerif.Model.Omap
import MdsVerif.Spec.AssocRef
import MdsVerif.Spec.CursorRef
/-!
# `omap.Map` refines the sorted association list (helper lemmas for C04)

Facts about the C01 tree model that C04 needs come in two kinds:

* small ones proved here: `getC_spec` (lookup), `inorderF_collect_none` (from `Proofs/Cursor`),
  `remove_false_id` (a failed removal returns the very same tree), `after1_spec` (the first
  key `InorderAfter` yields), `walk_spec` (iterating `Next` from `First` lists the map);
* the two big ones — `Replace` and `Remove` realise sorted-list insertion/removal and keep the tree
  a search tree with a correct `size` (they go through the scapegoat rebuild) — are the
  subject of C01 and enter as the hypothesis structure `TreeFacts`, to be discharged by
  C01's `insert_spec` / `remove_spec`.
-/
namespace MdsVerif.Proofs.Omap
open MdsVerif.Model MdsVerif.Model.Stree MdsVerif.Model.Cursor MdsVerif.Proofs.Cursor MdsVerif.Spec

variable {α : Type}

/-- well-formed tree object: a search tree whose cached size is right -/
def TWF (c : α → α → Ordering) (t : T α) : Prop :=
  Ordered c t.root ∧ t.size = t.root.toList.length

/-- what C04 needs from C01: `Replace`/`Remove` never panic on a well-formed tree, keep it
well-formed, and act on the in-order key list as sorted-list insertion (replacing an equivalent
key) / removal, reporting "was absent" / "was present". -/
structure TreeFacts (c : α → α → Ordering) : Prop where
  replace : ∀ (t : T α) (k : α), TWF c t →
    ∃ t', t.replace c k = some (t', (CursorRef.insertKey c true k t.root.toList).2) ∧ TWF c t' ∧
      t'.root.toList = (CursorRef.insertKey c true k t.root.toList).1
  remove : ∀ (t : T α) (k : α), TWF c t →
    ∃ t', t.remove c k = some (t', (CursorRef.removeKey c k t.root.toList).2) ∧ TWF c t' ∧
      t'.root.toList = (CursorRef.removeKey c k t.root.toList).1

theorem size_eq_length (t : Tree α) : t.size = t.toList.length := by
  induction t with
  | nil => rfl
  | node l x r ihl ihr => simp [Tree.size, Tree.toList, ihl, ihr]; omega

/-! ## lookup -/

theorem getC_spec (c : α → α → Ordering) [Std.TransCmp c] (k : α) (t : Tree α) (ho : Ordered c t) :
    (getC c k t).1 = t.toList.find? (fun y => c k y == .eq) := by
  induction t with
  | nil => rfl
  | node l x r ihl ihr =>
    obtain ⟨hl, hr, hlx, hxr, _⟩ := Ordered.node_iff.mp ho
    simp only [getC, Tree.toList, List.find?_append, List.find?_cons]
    cases hc : c k x with
    | lt =>
      have hr' : r.toList.find? (fun y => c k y == .eq) = none := by
        rw [List.find?_eq_none]; intro y hy
        rw [Std.TransCmp.lt_trans hc (hxr y hy)]; simp
      simp [ihl hl, hr']
    | gt =>
      have hl' : l.toList.find? (fun y => c k y == .eq) = none := by
        rw [List.find?_eq_none]; intro y hy
        have h1 : c x k = .lt := Std.OrientedCmp.lt_of_gt hc
        have h2 : c y k = .lt := Std.TransCmp.lt_trans (hlx y hy) h1
        rw [Std.OrientedCmp.gt_of_lt h2]; simp
      simp [ihr hr, hl']
    | eq =>
      have hl' : l.toList.find? (fun y => c k y == .eq) = none := by
        rw [List.find?_eq_none]; intro y hy
        have h2 : c y k = .lt := Std.TransCmp.lt_of_lt_of_eq (hlx y hy) (Std.OrientedCmp.eq_symm hc)
        rw [Std.OrientedCmp.gt_of_lt h2]; simp
      simp [hl']

/-! ## a failed removal changes nothing -/

theorem remove_false_id (c : α → α → Ordering) (k : α) (t : Tree α) (h : (Stree.remove c k t).2 = false) :
    (Stree.remove c k t).1 = t := by
  induction t with
  | nil => rfl
  | node l x r ihl ihr =>
    simp only [Stree.remove] at h ⊢
    cases hc : c k x with
    | lt => rw [hc] at h; simp only at h ⊢; rw [ihl h]
    | gt => rw [hc] at h; simp only at h ⊢; rw [ihr h]
    | eq =>
      rw [hc] at h
      simp only at h
      cases l <;> cases r <;> simp at h

/-! ## iterating `Next` -/

theorem walk_none {K V : Type} (f : Nat) : Omap.walk f (none : Cursor (K × V)) = [] := by
  cases f <;> simp [Omap.walk, key?]

theorem walk_spec {K V : Type} (f : Nat) (p : Pos (K × V)) (hw : p.WF) (x : K × V) (hx : key? (some p) = some x)
    (hf : p.after.length < f) : Omap.walk f (some p) = x :: p.after := by
  induction f generalizing p x with
  | zero => omega
  | succ f ih =>
    obtain ⟨l, x', r, h⟩ := isNil_eq_false.mp hw
    have := key?_some h
    rw [hx] at this; cases this
    simp only [Omap.walk, hx, valid, Option.isSome_some, ↓reduceIte]
    rcases next_spec p l r x h with ⟨ha, hn⟩ | ⟨p', y, hn, hw', _, hy, ha, _⟩
    · rw [hn, walk_none, ha]
    · rw [hn, ih p' hw' y hy (by rw [ha] at hf; simpa using hf), ha]

/-! ## `First`, `Last` -/

theorem first_spec (root : Tree α) :
    (root = .nil ∧ Cursor.min (ofRoot root) = none) ∨
    (∃ p, Cursor.min (ofRoot root) = some p ∧ p.WF ∧ p.root = root ∧ p.before = []) := by
  cases root with
  | nil => exact Or.inl ⟨rfl, rfl⟩
  | node l x r =>
    right
    obtain ⟨y, r', h1, h2, _⟩ := spineL_spec l x r
    refine ⟨{ root := .node l x r, dirs := [] ++ spineL (.node l x r) }, rfl, ?_, rfl, ?_⟩
    · show isNil (sub _ _) = false
      simp only [List.nil_append]; rw [h1]; rfl
    · simp only [Pos.before, Pos.cur, List.nil_append, h1, h2, left, Tree.toList, List.append_nil]

theorem last_spec (root : Tree α) :
    (root = .nil ∧ Cursor.max (ofRoot root) = none) ∨
    (∃ p, Cursor.max (ofRoot root) = some p ∧ p.WF ∧ p.root = root ∧ p.after = []) := by
  cases root with
  | nil => exact Or.inl ⟨rfl, rfl⟩
  | node l x r =>
    right
    obtain ⟨y, l', h1, h2, _⟩ := spineR_spec l x r
    refine ⟨{ root := .node l x r, dirs := [] ++ spineR (.node l x r) }, rfl, ?_, rfl, ?_⟩
    · show isNil (sub _ _) = false
      simp only [List.nil_append]; rw [h1]; rfl
    · simp only [Pos.after, Pos.cur, List.nil_append, h1, h2, right, Tree.toList, List.append_nil]

/-- the cursor's key is the element of the key list at index `|before|` -/
theorem key_at (p : Pos α) (hw : p.WF) :
    key? (some p) = p.root.toList[p.before.length]? ∧ p.root.toList.length = p.before.length + 1 + p.after.length := by
  obtain ⟨l, x, r, h⟩ := isNil_eq_false.mp hw
  rw [key?_some h, Pos.zipper p h]
  simp; omega

/-! ## the first key of `InorderAfter` -/

/-- a consumer that stops at once sees only the first key of an in-order walk -/
theorem inorderF_stop {σ : Type} (f : Yield σ α) (hf : ∀ s x, (f s x).2 = false) (t : Tree α) (s : σ) :
    Stree.inorderF f t s = match t.toList with
      | [] => (s, true)
      | y :: _ => ((f s y).1, false) := by
  induction t generalizing s with
  | nil => rfl
  | node l x r ihl _ =>
    simp only [Stree.inorderF, ihl, Tree.toList]
    cases hl : l.toList with
    | nil => simp [hf]
    | cons y ys => simp

theorem afterLoop_stop {σ : Type} (c : α → α → Ordering) [Std.TransCmp c] (f : Yield σ α)
    (hf : ∀ s x, (f s x).2 = false) (key : α) (t : Tree α) (ho : Ordered c t) (s : σ) :
    afterLoop c f key (pathTo c key t) s = match t.toList.dropWhile (fun y => c y key == .lt) with
      | [] => (s, true)
      | y :: _ => ((f s y).1, false) := by
  induction t generalizing s with
  | nil => rfl
  | node l x r ihl ihr =>
    obtain ⟨hl, hr, hlx, hxr, _⟩ := Ordered.node_iff.mp ho
    simp only [pathTo, Tree.toList]
    cases hc : c key x with
    | lt =>
      have hx : c x key = .gt := Std.OrientedCmp.gt_of_lt hc
      simp only [afterLoop, ihl hl, List.dropWhile_append]
      cases hd : l.toList.dropWhile (fun y => c y key == .lt) with
      | nil => simp [hx, hf]
      | cons y ys => simp
    | gt =>
      have hx : c x key = .lt := Std.OrientedCmp.lt_of_gt hc
      have hall : ∀ a ∈ l.toList, (c a key == .lt) = true := by
        intro a ha; rw [Std.TransCmp.lt_trans (hlx a ha) hx]; rfl
      rw [List.dropWhile_append_of_pos hall]
      simp only [afterLoop, ihr hr, hx, List.dropWhile_cons]
      cases hd : r.toList.dropWhile (fun y => c y key == .lt) with
      | nil => simp
      | cons y ys => simp
    | eq =>
      have hx : c x key = .eq := Std.OrientedCmp.eq_symm hc
      have hall : ∀ a ∈ l.toList, (c a key == .lt) = true := by
        intro a ha; rw [Std.TransCmp.lt_of_lt_of_eq (hlx a ha) hx]; rfl
      rw [List.dropWhile_append_of_pos hall]
      simp [afterLoop, hx, hf]

/-- `InorderAfter(key)` stopped after one key yields the first key not less than `key` -/
theorem after1_spec (c : α → α → Ordering) [Std.TransCmp c] (t : T α) (ho : Ordered c t.root) (key : α) :
    t.inorderAfter c key (some 1) = (t.root.toList.dropWhile (fun y => c y key == .lt)).take 1 := by
  have hf : ∀ (s : List α) (x : α), (collect (some 1) s x).2 = false := by
    intro s x; simp [collect]
  simp only [T.inorderAfter, inorderAfterF, afterLoop_stop c _ hf key t.root ho]
  cases t.root.toList.dropWhile (fun y => c y key == .lt) with
  | nil => rfl
  | cons y ys => simp [collect]

end MdsVerif.Proofs.Omap
